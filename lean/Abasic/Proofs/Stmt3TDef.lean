import Abasic.Proofs.Stmt3TArr
/-
  C03 / C08, route (B) of discharging `BaseTurns` — Proofs/Stmt3Def.lean RE-RUN for programs
  with INPUT statements: the text of that file over the relations of
  Proofs/Stmt3TRel.lean (`ProgT`, `Holds`, `Mem3`, `Outcome3`, … in namespace
  `Abasic.Stmt3T`, which shadow the originals of `Abasic.Prog3L` / `Abasic.Stmt3L`).
  Lemmas of the original that do not mention the program are not repeated; they
  are used from `Abasic.Stmt3L`.  Differences to the original: `Mem3` has the
  field `input` and its `out` ends in `p.base`.  The original header follows.

  C03, third layer — the statement evaluator on the statements of Ref/Stmt3.lean.

  Part 6: DEF FN.  The definition is recorded with its parameter list, the
  number of the line and the token index of the body; the body is skipped up to
  and including the next colon.  Afterwards the function table of the model
  points at the rendering of the body: `FnsLink` holds for the new reference
  table — what `eval_render2` needs to evaluate calls of the function.
-/
set_option linter.unusedSectionVars false

namespace Abasic.Stmt3T
open Abasic Abasic.Ref Abasic.ExprL Abasic.ExprL2 Abasic.StmtL Abasic.ProgL Abasic.Prog3L Abasic.Stmt3L Abasic.Hoare M
open Abasic.Prog3I (HoldsI AddrRelI RetRelI LoopRelI DataRelI progChunksI preToksI line_splitI preToks_succI drop_tail_nilI drop_tail_consI line_memI mem_lineI after_lineI first_lineI holds_afterI holds_firstI renderSI_head lineToks_ofI line_nonemptyI preToksI_zero resume_ltI resume_geI)
open Abasic.Prog2L (Rel2)

variable {F : Type} [NumOps F]

/-! ### the parameter list -/

/-! ### skipping the body -/

/-! ### the function table after a definition -/

section stmts
variable {p : ProgT F} {n j : Nat}

theorem def_ok (f : Str) (ps : List Str) (body : Expr2 F) : StmtOK p n j (.defS f ps body) := by
  intro fuel σ r pre rest after eol hS hP hE _ hcov _ _ _
  have hne : ps ≠ [] := hcov
  have hLE : LineEnd3 rest := hE.lineEnd3 rfl
  have hline := hP.locline
  have hAt0 : At σ pre (.kw .Def :: .symbol f :: .kw .LeftParen ::
      (renderTargets ps ++ .kw .RightParen :: (.kw .Equals :: (render2 body ++ rest)))) := by
    simpa only [renderS3, List.cons_append, List.append_assoc] using hP.cur
  obtain ⟨k1, h1⟩ := next_ex hAt0
  have hAt1 := at_mv1 hAt0 k1
  obtain ⟨k2, h2⟩ := next_ex hAt1
  have hAt2 := at_mv1 hAt1 k2
  obtain ⟨k3, h3⟩ := expect_ex (k := .LeftParen) hAt2 rfl
  have hAt3 := at_mv1 hAt2 k3
  have hbud := lineBudget_eq hAt3.1
  have htl := targets_length (F := F) ps
  obtain ⟨k4, h4⟩ := defArgsLoop_run ps hne
    ((pre ++ [Token.kw Kw.Def] ++ [Token.symbol f] ++ [Token.kw Kw.LeftParen] ++
      (renderTargets ps ++ Token.kw Kw.RightParen :: (Token.kw Kw.Equals :: (render2 body ++ rest)))).length + 1)
    (mv (mv (mv σ 1 k1) 1 k2) 1 k3) _ _ [] hAt3 (by simp only [List.length_append, List.length_cons]; omega)
  rw [List.nil_append] at h4
  have hAt4 : At (mv (mv (mv (mv σ 1 k1) 1 k2) 1 k3) ((renderTargets (F := F) ps).length + 1) k4)
      (pre ++ [Token.kw Kw.Def] ++ [Token.symbol f] ++ [Token.kw Kw.LeftParen] ++ (renderTargets ps ++ [Token.kw Kw.RightParen]))
      (.kw .Equals :: (render2 body ++ rest)) := by
    have hAt3' : At (mv (mv (mv σ 1 k1) 1 k2) 1 k3) (pre ++ [Token.kw Kw.Def] ++ [Token.symbol f] ++ [Token.kw Kw.LeftParen])
        ((renderTargets ps ++ [Token.kw Kw.RightParen]) ++ (.kw .Equals :: (render2 body ++ rest))) := by
      simpa only [List.append_assoc, List.cons_append, List.nil_append] using hAt3
    have := at_mv hAt3' k4
    simpa only [List.length_append, List.length_cons, List.length_nil] using this
  obtain ⟨k5, h5⟩ := expect_ex (k := .Equals) hAt4 rfl
  have hAt5 := at_mv1 hAt4 k5
  -- the state in which the function is recorded
  generalize hτ : mv (mv (mv (mv (mv σ 1 k1) 1 k2) 1 k3) ((renderTargets (F := F) ps).length + 1) k4) 1 k5 = τ at h5 hAt5
  have hstτ : Start σ τ := by rw [← hτ]; exact ⟨⟨rfl, rfl, rfl, rfl, rfl⟩, rfl, rfl, rfl⟩
  have hsame : Same σ τ := by rw [← hτ]; exact ⟨rfl, rfl, rfl, rfl, rfl, rfl, rfl, rfl, rfl, rfl, rfl, rfl⟩
  have hlτ : τ.loc.line = some n := by rw [hstτ.line]; exact hline
  have hdf : defineFunction f ps τ =
      .ok () { τ with fns := alSet f { args := ps, line := n, idx := τ.loc.idx } τ.fns } := by
    simp only [defineFunction, bind, M.bindM, M.get, hlτ, M.set]
  have hAt6 : At ({ τ with fns := alSet f { args := ps, line := n, idx := τ.loc.idx } τ.fns } : St F) _
      (render2 body ++ rest) := ⟨hAt5.1, hAt5.2⟩
  obtain ⟨kk, hkk⟩ : ∃ kk, (pre ++ [Token.kw Kw.Def] ++ [Token.symbol f] ++ [Token.kw Kw.LeftParen] ++
      (renderTargets ps ++ Token.kw Kw.RightParen :: (Token.kw Kw.Equals :: (render2 body ++ rest)))).length + 1
      = (kk + 1) + (render2 body).length :=
    ⟨pre.length + 3 + (renderTargets (F := F) ps).length + 2 + rest.length, by
      simp only [List.length_append, List.length_cons, List.length_nil]; omega⟩
  obtain ⟨k6, h6⟩ := skipToColon_skip (render2 body) (kk + 1) _ _ rest hAt6 (fun t ht => (noce_expr body t ht).1)
  have hAt7 := at_mv hAt6 k6
  have hrun : stmtBody (evalN fuel) σ = skipToColonLoop (kk + 1)
      (mv ({ τ with fns := alSet f { args := ps, line := n, idx := τ.loc.idx } τ.fns } : St F) (render2 body).length k6) := by
    unfold stmtBody
    rw [bind_ok (traceHere_off hS.env.tracing)]
    unfold dispatch
    rw [bind_ok h1]
    show defStatement _ = _
    unfold defStatement
    rw [bind_ok h2]
    show (expect .LeftParen >>= fun _ => _) _ = _
    rw [bind_ok h3, bind_ok hbud, bind_ok h4]
    show (expect .Equals >>= fun _ => _) _ = _
    rw [bind_ok h5, bind_ok hdf, hkk, h6]
  rw [hrun]
  show Outcome3 p σ n after eol _
    { r with fns := alSet f { params := ps, body := body } r.fns, fnLines := alSet f n r.fnLines } .next
  -- the memory relation for the new table
  have hM := hS.mem
  have hgetσ : σ.lines.get n = some (pre ++ (renderS3 (.defS f ps body) ++ rest)) := get_of_at hline hP.cur
  have hget : σ.lines.get n = some ((pre ++ [Token.kw Kw.Def] ++ [Token.symbol f] ++ [Token.kw Kw.LeftParen] ++
      (renderTargets ps ++ [Token.kw Kw.RightParen]) ++ [Token.kw Kw.Equals]) ++ (render2 body ++ rest)) := by
    have := get_of_at hlτ hAt5
    rwa [hsame.lines] at this
  have hMem' : ∀ (σ' : St F), σ'.vars = τ.vars → σ'.arrays = τ.arrays → σ'.rng = τ.rng → σ'.loops = τ.loops →
      σ'.stack = τ.stack → σ'.data = τ.data → σ'.out = τ.out → σ'.lines = τ.lines →
      σ'.fns = alSet f { args := ps, line := n, idx := τ.loc.idx } τ.fns → σ'.input = τ.input →
      Mem3 p { r with fns := alSet f { params := ps, body := body } r.fns, fnLines := alSet f n r.fnLines } σ' := by
    intro σ' e1 e2 e3 e4 e5 e6 e7 e8 e9 e10
    exact {
      input := by rw [e10, hsame.input]; exact hM.input
      vars := by rw [e1, hsame.vars]; exact hM.vars
      arrays := by rw [e2, hsame.arrays]; exact hM.arrays
      rng := by rw [e3, hsame.rng]; exact hM.rng
      loops := by rw [e4, hsame.loops]; exact hM.loops
      stack := by rw [e5, hsame.stack]; exact hM.stack
      data := by rw [e6, hsame.data]; exact hM.data
      out := by rw [e7, hsame.out]; exact hM.out
      fns := fnsLink_def hM.fns f ps body n τ.loc.idx _ rest hget hAt5.2 (hE.ends 6)
        (by rw [e8, hsame.lines]) (by rw [e9, hsame.fns])
      fnLines := by
        intro name fd hfd
        rw [e9, Stmt2L.alGet_alSet_cases] at hfd
        show alGet name (alSet f n r.fnLines) = _
        rw [Stmt2L.alGet_alSet_cases]
        by_cases hk : name = f
        · rw [if_pos hk] at hfd ⊢
          cases hfd
          rfl
        · rw [if_neg hk] at hfd ⊢
          rw [hsame.fns] at hfd
          exact hM.fnLines name fd hfd }
  have hidx7 : (mv ({ τ with fns := alSet f { args := ps, line := n, idx := τ.loc.idx } τ.fns } : St F)
      (render2 body).length k6).loc.idx = after := by
    rw [hP.hafter]
    exact (idx_after hP.cur hAt7 (by show lineToks τ = lineToks σ; exact lineToks_start hstτ hline)).trans (by
      simp only [renderS3, List.length_cons, List.length_append])
  have hkept : ∀ a c, Kept σ (mv (mv ({ τ with fns := alSet f { args := ps, line := n, idx := τ.loc.idx } τ.fns } : St F)
      (render2 body).length k6) a c) := fun a c =>
    ⟨hstτ.kept.lines, hstτ.kept.warnings, hstτ.kept.tracing, hstτ.kept.nesting, hstτ.kept.state⟩
  rcases hLE with rfl | ⟨t0, post, rfl, _⟩
  · obtain ⟨k7, h7⟩ := skipToColon_end (k := kk) hAt7
    rw [h7]
    refine ⟨_, rfl, hkept 0 k7, hMem' _ rfl rfl rfl rfl rfl rfl rfl rfl rfl rfl, hlτ, Or.inl ?_⟩
    show _ + 0 = after
    rw [Nat.add_zero]
    exact hidx7
  · obtain ⟨k7, h7⟩ := skipToColon_colon (k := kk) hAt7
    rw [h7]
    refine ⟨_, rfl, hkept 1 k7, hMem' _ rfl rfl rfl rfl rfl rfl rfl rfl rfl rfl, hlτ, Or.inr ⟨?_, ?_⟩⟩
    · show _ + 1 = after + 1
      rw [← hidx7]
    · refine ⟨_, (by show τ.lines.get n = _; rw [hsame.lines]; exact hgetσ), ?_⟩
      rw [← List.append_assoc, hP.hafter, ← List.length_append, List.getElem?_append_right (Nat.le_refl _), Nat.sub_self]
      rfl

end stmts

end Abasic.Stmt3T
