import Abasic.Proofs.Hoare
import Abasic.Props.C16
/-
  C16 — the store invariant `StoreOk` and its lifting through the evaluator.

  `ArrOk a name`  : the array `a` stored under `name` has `∏ dims` cells, at
                    most `maxDimTotalElements`, every dimension ≥ 1, and the
                    kind (string / number) the `$` suffix of `name` demands.
  `StoreOk σ`     : every array of `σ` is `ArrOk`, array names are distinct,
                    every scalar variable and every binding of every FN frame
                    on the stack has the kind its name demands (and the keys
                    of those association lists are distinct, too).

  The frame `RS σ σ' := StoreOk σ → StoreOk σ'` does NOT contain `RNS`
  (Proofs/Prims.lean), so the class `Prims` cannot be instantiated; this file
  has its own primitive layer and repeats the lifting of Proofs/Lift.lean for
  the one relation `RS` (same tactic, same structure).
-/
set_option linter.unusedSectionVars false

namespace Abasic.Props.C16
open Abasic

variable {F : Type}

/-! ### association lists -/

theorem mem_alSet {β : Type} (k : Str) (v : β) (l : List (Str × β)) (k' : Str) (v' : β)
    (h : (k', v') ∈ alSet k v l) : (k' = k ∧ v' = v) ∨ (k', v') ∈ l := by
  induction l with
  | nil =>
    simp only [alSet, List.mem_singleton, Prod.mk.injEq] at h
    exact .inl h
  | cons p rest ih =>
    obtain ⟨k0, v0⟩ := p
    simp only [alSet] at h
    by_cases h0 : (k0 == k) = true
    · rw [if_pos h0] at h
      rcases List.mem_cons.mp h with h | h
      · left; simpa using h
      · right; exact List.mem_cons_of_mem _ h
    · rw [if_neg h0] at h
      rcases List.mem_cons.mp h with h | h
      · right; rw [h]; exact List.mem_cons_self
      · rcases ih h with h | h
        · exact .inl h
        · right; exact List.mem_cons_of_mem _ h

theorem key_mem_alSet {β : Type} (k : Str) (v : β) (l : List (Str × β)) (k' : Str)
    (h : k' ∈ (alSet k v l).map Prod.fst) : k' = k ∨ k' ∈ l.map Prod.fst := by
  obtain ⟨⟨k1, v1⟩, hm, hk⟩ := List.mem_map.mp h
  simp only at hk
  subst hk
  rcases mem_alSet k v l k1 v1 hm with h | h
  · exact .inl h.1
  · exact .inr (List.mem_map.mpr ⟨(k1, v1), h, rfl⟩)

/-- `alSet` keeps the keys distinct -/
theorem nodup_alSet {β : Type} (k : Str) (v : β) (l : List (Str × β))
    (h : (l.map Prod.fst).Nodup) : ((alSet k v l).map Prod.fst).Nodup := by
  induction l with
  | nil => simp [alSet]
  | cons p rest ih =>
    obtain ⟨k0, v0⟩ := p
    simp only [List.map_cons, List.nodup_cons] at h
    simp only [alSet]
    by_cases h0 : (k0 == k) = true
    · rw [if_pos h0]
      have : k0 = k := by simpa using h0
      subst this
      simp only [List.map_cons, List.nodup_cons]
      exact h
    · rw [if_neg h0]
      have hne : k0 ≠ k := by simpa using h0
      simp only [List.map_cons, List.nodup_cons]
      refine ⟨fun hin => ?_, ih h.2⟩
      rcases key_mem_alSet k v rest k0 hin with h1 | h1
      · exact hne h1
      · exact h.1 h1

theorem alGet_mem {β : Type} (k : Str) (l : List (Str × β)) (v : β) (h : alGet k l = some v) :
    (k, v) ∈ l := by
  induction l with
  | nil => simp [alGet] at h
  | cons p rest ih =>
    obtain ⟨k0, v0⟩ := p
    simp only [alGet] at h
    by_cases h0 : (k0 == k) = true
    · rw [if_pos h0] at h
      have : k0 = k := by simpa using h0
      subst this
      simp only [Option.some.injEq] at h
      subst h
      exact List.mem_cons_self
    · rw [if_neg h0] at h
      exact List.mem_cons_of_mem _ (ih h)

/-! ### `ArrOk` -/

/-- the cells of an array, as values -/
def cellValues : ArrayV F → List (Value F)
  | .strs _ c => c.map Value.str
  | .nums _ c => c.map Value.num

/-- the array `a`, stored under `name`, is well-formed -/
structure ArrOk (a : ArrayV F) (name : Str) : Prop where
  /-- exactly `∏ dims` cells -/
  cells_len : a.cellCount = prod a.dims
  /-- at most `maxDimTotalElements` of them -/
  cap : prod a.dims ≤ Extracted.maxDimTotalElements
  /-- at least one dimension (`DIM A()` is BAD SUBSCRIPT) -/
  dims_ne : a.dims ≠ []
  /-- every dimension has at least one slot (`DIM A(n)` has `n + 1`) -/
  dims_pos : ∀ d ∈ a.dims, 1 ≤ d
  /-- a string array iff the name ends in `$` -/
  kind : isStr a = endsWithDollar name
  /-- every cell holds a value of the kind the name demands -/
  cells_typed : ∀ v ∈ cellValues a, v.matchesName name = true

theorem cells_typed_of_kind (a : ArrayV F) (name : Str) (h : isStr a = endsWithDollar name) :
    ∀ v ∈ cellValues a, v.matchesName name = true := by
  intro v hv
  cases a with
  | strs d c =>
    simp only [cellValues, List.mem_map] at hv
    obtain ⟨x, _, rfl⟩ := hv
    simp only [isStr] at h
    simp only [Value.matchesName, ← h]
  | nums d c =>
    simp only [cellValues, List.mem_map] at hv
    obtain ⟨x, _, rfl⟩ := hv
    simp only [isStr] at h
    simp only [Value.matchesName, ← h, Bool.not_false]

/-- the last field follows from the kind -/
theorem ArrOk.mk' {a : ArrayV F} {name : Str} (h1 : a.cellCount = prod a.dims)
    (h2 : prod a.dims ≤ Extracted.maxDimTotalElements) (h3 : a.dims ≠ []) (h4 : ∀ d ∈ a.dims, 1 ≤ d)
    (h5 : isStr a = endsWithDollar name) : ArrOk a name :=
  ⟨h1, h2, h3, h4, h5, cells_typed_of_kind a name h5⟩

theorem dimSizes_dims (idx : List Nat) (total : Nat) (acc : List Nat) (dims : List Nat) (t : Nat)
    (h : dimSizes idx total acc = .ok (dims, t)) : dims = acc.reverse ++ idx.map (· + 1) := by
  induction idx generalizing total acc with
  | nil =>
    simp [dimSizes] at h
    rw [← h.1]; simp
  | cons m rest ih =>
    simp only [dimSizes] at h
    split at h
    · simp at h
    · split at h
      · simp at h
      · rw [ih _ _ h]
        simp

section create
variable [NumOps F]

theorem create_dims (name : Str) (idx : List Nat) (a : ArrayV F) (h : ArrayV.create name idx = .ok a) :
    a.dims = idx.map (· + 1) ∧ idx ≠ [] := by
  unfold ArrayV.create at h
  by_cases he : idx.isEmpty = true
  · simp [he] at h
  · have hne : idx ≠ [] := by simpa using he
    simp only [he, Bool.false_eq_true, ↓reduceIte] at h
    cases hd : dimSizes idx 1 [] with
    | error e => simp [hd] at h
    | ok p =>
      obtain ⟨dims, total⟩ := p
      have hdims := dimSizes_dims idx 1 [] dims total hd
      simp only [List.reverse_nil, List.nil_append] at hdims
      simp only [hd] at h
      by_cases hgt : total > Extracted.maxDimTotalElements
      · simp [hgt] at h
      · simp only [hgt, ↓reduceIte] at h
        by_cases hs : endsWithDollar name = true
        · simp only [hs, ↓reduceIte, Except.ok.injEq] at h
          subst h
          exact ⟨hdims, hne⟩
        · have hs' : endsWithDollar name = false := by simpa using hs
          simp only [hs', Bool.false_eq_true, ↓reduceIte, Except.ok.injEq] at h
          subst h
          exact ⟨hdims, hne⟩

/-- DIM / implicit creation yields a well-formed array. -/
theorem create_arrOk (name : Str) (idx : List Nat) (a : ArrayV F) (h : ArrayV.create name idx = .ok a) :
    ArrOk a name := by
  obtain ⟨h1, h2, h3⟩ := create_spec name idx a h
  obtain ⟨hd, hne⟩ := create_dims name idx a h
  refine ArrOk.mk' h1 (by rw [← h1]; exact h2) ?_ ?_ h3
  · rw [hd]
    intro hnil
    cases idx with
    | nil => exact hne rfl
    | cons x xs => simp at hnil
  · rw [hd]
    intro d hd'
    obtain ⟨m, _, rfl⟩ := List.mem_map.mp hd'
    omega

end create

theorem arrOk_set_strs {dims : List Nat} {cells : List Str} {name : Str} (i : Nat) (x : Str)
    (h : ArrOk (F := F) (.strs dims cells) name) : ArrOk (F := F) (.strs dims (cells.set i x)) name := by
  refine ArrOk.mk' ?_ h.cap h.dims_ne h.dims_pos h.kind
  have := h.cells_len
  simp only [ArrayV.cellCount, ArrayV.dims] at this ⊢
  rw [List.length_set]; exact this

theorem arrOk_set_nums {dims : List Nat} {cells : List F} {name : Str} (i : Nat) (x : F)
    (h : ArrOk (.nums dims cells) name) : ArrOk (.nums dims (cells.set i x)) name := by
  refine ArrOk.mk' ?_ h.cap h.dims_ne h.dims_pos h.kind
  have := h.cells_len
  simp only [ArrayV.cellCount, ArrayV.dims] at this ⊢
  rw [List.length_set]; exact this

/-! ### `StoreOk` -/

/-- every binding has the kind its name demands -/
def Typed (l : List (Str × Value F)) : Prop := ∀ name v, (name, v) ∈ l → v.matchesName name = true

theorem typed_nil : Typed ([] : List (Str × Value F)) := by
  intro n v h; cases h

theorem typed_alSet {l : List (Str × Value F)} {name : Str} {v : Value F}
    (h : Typed l) (hv : v.matchesName name = true) : Typed (alSet name v l) := by
  intro n w hw
  rcases mem_alSet name v l n w hw with ⟨rfl, rfl⟩ | hin
  · exact hv
  · exact h n w hin

/-- the store invariant -/
structure StoreOk (σ : St F) : Prop where
  arrays_ok : ∀ name a, (name, a) ∈ σ.arrays → ArrOk a name
  arrays_nodup : (σ.arrays.map Prod.fst).Nodup
  vars_typed : Typed σ.vars
  vars_nodup : (σ.vars.map Prod.fst).Nodup
  frames_typed : ∀ f ∈ σ.stack, Typed f.vars
  frames_nodup : ∀ f ∈ σ.stack, (f.vars.map Prod.fst).Nodup

theorem storeOk_init : StoreOk ({} : St F) where
  arrays_ok := by intro n a h; cases h
  arrays_nodup := List.nodup_nil
  vars_typed := typed_nil
  vars_nodup := List.nodup_nil
  frames_typed := by intro f h; cases h
  frames_nodup := by intro f h; cases h

/-- same arrays and variables, no new frames -/
theorem StoreOk.transfer {σ σ' : St F} (h : StoreOk σ) (ha : σ'.arrays = σ.arrays)
    (hv : σ'.vars = σ.vars) (hs : ∀ f ∈ σ'.stack, f ∈ σ.stack) : StoreOk σ' where
  arrays_ok := by rw [ha]; exact h.arrays_ok
  arrays_nodup := by rw [ha]; exact h.arrays_nodup
  vars_typed := by rw [hv]; exact h.vars_typed
  vars_nodup := by rw [hv]; exact h.vars_nodup
  frames_typed := fun f hf => h.frames_typed f (hs f hf)
  frames_nodup := fun f hf => h.frames_nodup f (hs f hf)

theorem StoreOk.setVar {σ σ' : St F} {name : Str} {v : Value F} (h : StoreOk σ)
    (hm : v.matchesName name = true) (ha : σ'.arrays = σ.arrays)
    (hv : σ'.vars = alSet name v σ.vars) (hs : σ'.stack = σ.stack) : StoreOk σ' where
  arrays_ok := by rw [ha]; exact h.arrays_ok
  arrays_nodup := by rw [ha]; exact h.arrays_nodup
  vars_typed := by rw [hv]; exact typed_alSet h.vars_typed hm
  vars_nodup := by rw [hv]; exact nodup_alSet _ _ _ h.vars_nodup
  frames_typed := by rw [hs]; exact h.frames_typed
  frames_nodup := by rw [hs]; exact h.frames_nodup

theorem StoreOk.setArray {σ σ' : St F} {name : Str} {a : ArrayV F} (h : StoreOk σ)
    (hok : ArrOk a name) (ha : σ'.arrays = alSet name a σ.arrays)
    (hv : σ'.vars = σ.vars) (hs : σ'.stack = σ.stack) : StoreOk σ' where
  arrays_ok := by
    rw [ha]
    intro n b hb
    rcases mem_alSet name a σ.arrays n b hb with ⟨rfl, rfl⟩ | hin
    · exact hok
    · exact h.arrays_ok n b hin
  arrays_nodup := by rw [ha]; exact nodup_alSet _ _ _ h.arrays_nodup
  vars_typed := by rw [hv]; exact h.vars_typed
  vars_nodup := by rw [hv]; exact h.vars_nodup
  frames_typed := by rw [hs]; exact h.frames_typed
  frames_nodup := by rw [hs]; exact h.frames_nodup

theorem StoreOk.push {σ σ' : St F} {fr : Frame F} (h : StoreOk σ)
    (ht : Typed fr.vars) (hn : (fr.vars.map Prod.fst).Nodup) (ha : σ'.arrays = σ.arrays)
    (hv : σ'.vars = σ.vars) (hs : σ'.stack = fr :: σ.stack) : StoreOk σ' where
  arrays_ok := by rw [ha]; exact h.arrays_ok
  arrays_nodup := by rw [ha]; exact h.arrays_nodup
  vars_typed := by rw [hv]; exact h.vars_typed
  vars_nodup := by rw [hv]; exact h.vars_nodup
  frames_typed := by
    rw [hs]; intro f hf
    rcases List.mem_cons.mp hf with rfl | hf
    · exact ht
    · exact h.frames_typed f hf
  frames_nodup := by
    rw [hs]; intro f hf
    rcases List.mem_cons.mp hf with rfl | hf
    · exact hn
    · exact h.frames_nodup f hf

/-- no arrays, no variables, no frames -/
theorem storeOk_of_empty {σ : St F} (ha : σ.arrays = []) (hv : σ.vars = []) (hs : σ.stack = []) :
    StoreOk σ where
  arrays_ok := by rw [ha]; intro n a h; cases h
  arrays_nodup := by rw [ha]; exact List.nodup_nil
  vars_typed := by rw [hv]; exact typed_nil
  vars_nodup := by rw [hv]; exact List.nodup_nil
  frames_typed := by rw [hs]; intro f h; cases h
  frames_nodup := by rw [hs]; intro f h; cases h

end Abasic.Props.C16

/-! ## the frame `RS` and its primitive layer -/

namespace Abasic.Hoare
open Abasic M Abasic.Props.C16

variable {F : Type}

/-- if the store was well-formed before, it is well-formed after -/
def RS (σ σ' : St F) : Prop := StoreOk σ → StoreOk σ'

instance : IsFrame (RS (F := F)) where
  refl _ := id
  trans h1 h2 := fun h => h2 (h1 h)

/-- the usual case: arrays, variables and stack untouched -/
theorem rs_same {σ σ' : St F} (ha : σ'.arrays = σ.arrays) (hv : σ'.vars = σ.vars)
    (hs : σ'.stack = σ.stack) : RS σ σ' :=
  fun h => h.transfer ha hv (by rw [hs]; exact fun _ hf => hf)

/-- … or the stack lost frames -/
theorem rs_sub {σ σ' : St F} (ha : σ'.arrays = σ.arrays) (hv : σ'.vars = σ.vars)
    (hs : ∀ f ∈ σ'.stack, f ∈ σ.stack) : RS σ σ' :=
  fun h => h.transfer ha hv hs

/-- a value postcondition carried through a bind -/
theorem respectsAt_bind_post {R : St F → St F → Prop} [IsFrame R] {α β : Type} {Q : α → Prop}
    {m : M F α} {f : α → M F β} {σ : St F}
    (hm : RespectsAt R m σ) (hq : ∀ a σ', m σ = .ok a σ' → Q a)
    (hf : ∀ a, Q a → Respects R (f a)) : RespectsAt R (m >>= f) σ := by
  show RespectsAt R (M.bindM m f) σ
  unfold RespectsAt M.bindM
  cases h : m σ with
  | ok a s =>
    have h1 := hm.1 a s h
    have hfa := (hf a (hq a s h)).at s
    constructor
    · intro b s' h'; exact IsFrame.trans h1 (hfa.1 b s' h')
    · intro e s' h'; exact IsFrame.trans h1 (hfa.2 e s' h')
  | err e s =>
    have h1 := hm.2 e s h
    constructor
    · intro b s' h'; cases h'
    · intro e' s' h'
      simp only [Res.err.injEq] at h'
      rw [← h'.2]; exact h1

namespace RelS

scoped macro_rules | `(tactic| respects_leaf) => `(tactic| exact rs_same rfl rfl rfl)

/-! ### Program.lean -/

theorem rs_tokensForLine (l : Option Nat) : Respects RS (tokensForLine (F := F) l) := by
  apply respects_of_at; intro σ
  cases l with
  | none => exact respectsAt_of_eq_ok (a := σ.imm) (σ' := σ) rfl (rs_same rfl rfl rfl)
  | some n =>
    cases h : σ.lines.get n with
    | some ts =>
      refine respectsAt_of_eq_ok (a := ts) (σ' := σ) ?_ (rs_same rfl rfl rfl)
      simp only [tokensForLine, h]
    | none =>
      refine respectsAt_of_eq_err (e := { err := .panic "tokens_for_line: unwrap on None" }) (σ' := σ) ?_ (rs_same rfl rfl rfl)
      simp only [tokensForLine, h]

theorem rs_tokens : Respects RS (tokens (F := F)) := by
  apply respects_of_at; intro σ
  exact (rs_tokensForLine σ.loc.line).at σ
scoped macro_rules | `(tactic| respects_prim) => `(tactic| exact rs_tokens)

theorem rs_peek : Respects RS (peek (F := F)) := by
  unfold peek
  respects_tac
scoped macro_rules | `(tactic| respects_prim) => `(tactic| exact rs_peek)

theorem rs_advance : Respects RS (advance (F := F)) := by
  unfold advance
  respects_tac
scoped macro_rules | `(tactic| respects_prim) => `(tactic| exact rs_advance)

theorem rs_next : Respects RS (next (F := F)) := by
  unfold next
  respects_tac
scoped macro_rules | `(tactic| respects_prim) => `(tactic| exact rs_next)

theorem rs_hasNext : Respects RS (hasNext (F := F)) := by
  unfold hasNext
  respects_tac
scoped macro_rules | `(tactic| respects_prim) => `(tactic| exact rs_hasNext)

theorem rs_nextUnwrapped : Respects RS (nextUnwrapped (F := F)) := by
  unfold nextUnwrapped
  respects_tac
scoped macro_rules | `(tactic| respects_prim) => `(tactic| exact rs_nextUnwrapped)

theorem rs_expect (k : Kw) : Respects RS (expect (F := F) k) := by
  unfold expect
  respects_tac
scoped macro_rules | `(tactic| respects_prim) => `(tactic| exact rs_expect _)

theorem rs_accept (k : Kw) : Respects RS (accept (F := F) k) := by
  unfold accept
  respects_tac
scoped macro_rules | `(tactic| respects_prim) => `(tactic| exact rs_accept _)

theorem rs_peekIsKw (k : Kw) : Respects RS (peekIsKw (F := F) k) := by
  unfold peekIsKw
  respects_tac
scoped macro_rules | `(tactic| respects_prim) => `(tactic| exact rs_peekIsKw _)

theorem rs_tryNext {α : Type} (f : Token F → Option α) : Respects RS (tryNext f) := by
  unfold tryNext
  respects_tac
scoped macro_rules | `(tactic| respects_prim) => `(tactic| exact rs_tryNext _)

theorem rs_discardRemaining : Respects RS (discardRemaining (F := F)) := by
  unfold discardRemaining
  respects_tac
scoped macro_rules | `(tactic| respects_prim) => `(tactic| exact rs_discardRemaining)

theorem rs_rewindBeforeInput : Respects RS (rewindBeforeInput (F := F)) := by
  unfold rewindBeforeInput
  respects_tac
scoped macro_rules | `(tactic| respects_prim) => `(tactic| exact rs_rewindBeforeInput)

/-- `set_and_goto_immediate_line` may clear the stack, nothing else -/
theorem rs_setImmediate_state (σ : St F) (ts : List (Token F)) : RS σ (σ.setImmediate ts) := by
  refine rs_sub (σ := σ) (σ' := σ.setImmediate ts) rfl rfl ?_
  unfold St.setImmediate
  dsimp only
  split
  · intro f hf; cases hf
  · exact fun _ hf => hf

theorem rs_setImmediate (ts : List (Token F)) : Respects RS (setImmediate ts) := by
  unfold setImmediate
  exact respects_modify (fun σ => rs_setImmediate_state σ ts)
scoped macro_rules | `(tactic| respects_prim) => `(tactic| exact rs_setImmediate _)

theorem rs_progBreak (σ : St F) : RS σ σ.progBreak := by
  unfold St.progBreak
  exact IsFrame.trans (b := { σ with bp := match σ.loc.line with | none => none | some n => some (n, σ.loc.idx) })
    (rs_same rfl rfl rfl) (rs_setImmediate_state _ _)

theorem rs_continueFromBreakpoint : Respects RS (continueFromBreakpoint (F := F)) := by
  unfold continueFromBreakpoint
  respects_tac
scoped macro_rules | `(tactic| respects_prim) => `(tactic| exact rs_continueFromBreakpoint)

/-- `Variables::set`: the check comes before the store -/
theorem rs_setVar (name : Str) (v : Value F) : Respects RS (setVar name v) := by
  unfold setVar
  by_cases hm : v.matchesName name = true
  · rw [if_pos hm]
    exact respects_modify (fun σ h => h.setVar hm rfl rfl rfl)
  · rw [if_neg hm]
    exact respects_fail _
scoped macro_rules | `(tactic| respects_prim) => `(tactic| exact rs_setVar _ _)

/-- FOR: the loop is pushed, then the variable is type-checked, then stored —
    a `$` loop variable fails TYPE MISMATCH with the loop pushed but nothing stored. -/
theorem rs_startLoop (sym : Str) (a b c : F) : Respects RS (startLoop sym a b c) := by
  unfold startLoop
  respects_tac
scoped macro_rules | `(tactic| respects_prim) => `(tactic| exact rs_startLoop _ _ _ _)

theorem rs_endLoop [NumOps F] (sym : Str) : Respects RS (endLoop (F := F) sym) := by
  unfold endLoop
  respects_tac
scoped macro_rules | `(tactic| respects_prim) => `(tactic| exact rs_endLoop _)

theorem rs_gotoLine (n : Nat) : Respects RS (gotoLine (F := F) n) := by
  unfold gotoLine
  respects_tac
scoped macro_rules | `(tactic| respects_prim) => `(tactic| exact rs_gotoLine _)

/-- GOSUB pushes a frame without bindings -/
theorem rs_gosubLine (n : Nat) : Respects RS (gosubLine (F := F) n) := by
  unfold gosubLine
  have hpush : ∀ ret : Loc, Respects RS
      (M.modify fun s : St F => { s with stack := { ret := ret, vars := [] } :: s.stack }) := by
    intro ret
    exact respects_modify (fun σ h => h.push (fr := { ret := ret, vars := [] }) typed_nil List.nodup_nil rfl rfl rfl)
  respects_tac
scoped macro_rules | `(tactic| respects_prim) => `(tactic| exact rs_gosubLine _)

theorem rs_returnFromGosub : Respects RS (returnFromGosub (F := F)) := by
  unfold returnFromGosub
  apply respects_bind
  · respects_tac
  · intro _
    apply respects_get_bind; intro σ
    cases hs : σ.stack with
    | nil => exact (respects_fail _).at σ
    | cons f rest =>
      apply respectsAt_set
      exact rs_sub rfl rfl (by rw [hs]; exact fun g hg => List.mem_cons_of_mem _ hg)
scoped macro_rules | `(tactic| respects_prim) => `(tactic| exact rs_returnFromGosub)

theorem rs_defineFunction (name : Str) (args : List Str) : Respects RS (defineFunction (F := F) name args) := by
  unfold defineFunction
  respects_tac
scoped macro_rules | `(tactic| respects_prim) => `(tactic| exact rs_defineFunction _ _)

/-- FN call: the frame's bindings must be typed (they are: `bindArgs_typed`) -/
theorem rs_pushFunctionCall (name : Str) (b : List (Str × Value F)) (ht : Typed b)
    (hn : (b.map Prod.fst).Nodup) : Respects RS (pushFunctionCall name b) := by
  unfold pushFunctionCall
  apply respects_get_bind; intro σ
  by_cases hcap : (σ.stack.length == Extracted.stackLimit) = true
  · rw [if_pos hcap]; exact (respects_fail _).at σ
  · rw [if_neg hcap]
    cases alGet name σ.fns with
    | none => exact (respects_rpanic _).at σ
    | some d =>
      apply respectsAt_set
      exact fun h => h.push (fr := { ret := σ.loc, vars := b }) ht hn rfl rfl rfl

theorem rs_popFunctionCall : Respects RS (popFunctionCall (F := F)) := by
  unfold popFunctionCall
  apply respects_get_bind; intro σ
  cases hs : σ.stack with
  | nil => exact (respects_rpanic _).at σ
  | cons f rest =>
    apply respectsAt_set
    exact rs_sub rfl rfl (by rw [hs]; exact fun g hg => List.mem_cons_of_mem _ hg)
scoped macro_rules | `(tactic| respects_prim) => `(tactic| exact rs_popFunctionCall)

theorem rs_nextDataElement : Respects RS (nextDataElement (F := F)) := by
  unfold nextDataElement
  respects_tac
scoped macro_rules | `(tactic| respects_prim) => `(tactic| exact rs_nextDataElement)

theorem rs_nextLine : Respects RS (nextLine (F := F)) := by
  unfold nextLine
  respects_tac
scoped macro_rules | `(tactic| respects_prim) => `(tactic| exact rs_nextLine)

theorem rs_enterNested : Respects RS (enterNested (F := F)) := by
  unfold enterNested
  respects_tac

theorem rs_exitNested : Respects RS (exitNested (F := F)) := by
  unfold exitNested
  respects_tac

theorem rs_nested {α : Type} {m : M F α} (hm : Respects RS m) : Respects RS (nested m) := by
  unfold nested
  have := rs_enterNested (F := F)
  have := rs_exitNested (F := F)
  respects_tac
scoped macro_rules | `(tactic| respects_prim) => `(tactic| with_reducible apply rs_nested)

theorem rs_emit (o : Out) : Respects RS (emit (F := F) o) := by
  unfold emit
  respects_tac
scoped macro_rules | `(tactic| respects_prim) => `(tactic| exact rs_emit _)

/-! ### Arrays.lean -/

section arrays
variable [NumOps F]

/-- implicit creation (`maybe_create_default_array`) stores a well-formed array or nothing -/
theorem rs_ensureArray (name : Str) (k : Nat) : Respects RS (ensureArray (F := F) name k) := by
  unfold ensureArray
  apply respects_get_bind; intro σ
  by_cases hh : alHas name σ.arrays = true
  · rw [if_pos hh]; exact (respects_pure _).at σ
  · rw [if_neg hh]
    cases hc : ArrayV.create (F := F) name (List.replicate k Extracted.defaultArraySize) with
    | ok a =>
      apply respectsAt_set
      exact fun h => h.setArray (create_arrOk _ _ _ hc) rfl rfl rfl
    | error e => exact (respects_fail _).at σ
scoped macro_rules | `(tactic| respects_prim) => `(tactic| exact rs_ensureArray _ _)

theorem rs_arrayGet (name : Str) (idx : List Nat) : Respects RS (arrayGet (F := F) name idx) := by
  unfold arrayGet
  respects_tac
scoped macro_rules | `(tactic| respects_prim) => `(tactic| exact rs_arrayGet _ _)

/-- `Arrays::set_value_at_index`: same dimensions, same number of cells, same kind -/
theorem rs_arraySet (name : Str) (idx : List Nat) (v : Value F) : Respects RS (arraySet name idx v) := by
  unfold arraySet
  by_cases hm : (!v.matchesName name) = true
  · rw [if_pos hm]; exact respects_fail _
  · rw [if_neg hm]
    apply respects_bind (rs_ensureArray _ _); intro _
    apply respects_get_bind; intro σ
    cases hg : alGet name σ.arrays with
    | none => exact (respects_rpanic _).at σ
    | some a =>
      have hmem := alGet_mem _ _ _ hg
      cases a with
      | strs dims cells =>
        cases v with
        | str x =>
          dsimp only
          cases hl : linearIndex idx dims with
          | error e => exact (respects_fail _).at σ
          | ok i =>
            dsimp only
            by_cases hi : i < cells.length
            · rw [if_pos hi]
              apply respectsAt_set
              exact fun h => h.setArray (arrOk_set_strs i x (h.arrays_ok _ _ hmem)) rfl rfl rfl
            · rw [if_neg hi]; exact (respects_rpanic _).at σ
        | num x => exact (respects_fail _).at σ
      | nums dims cells =>
        cases v with
        | num x =>
          dsimp only
          cases hl : linearIndex idx dims with
          | error e => exact (respects_fail _).at σ
          | ok i =>
            dsimp only
            by_cases hi : i < cells.length
            · rw [if_pos hi]
              apply respectsAt_set
              exact fun h => h.setArray (arrOk_set_nums i x (h.arrays_ok _ _ hmem)) rfl rfl rfl
            · rw [if_neg hi]; exact (respects_rpanic _).at σ
        | str x => exact (respects_fail _).at σ
scoped macro_rules | `(tactic| respects_prim) => `(tactic| exact rs_arraySet _ _ _)

/-- DIM -/
theorem rs_arrayCreate (name : Str) (idx : List Nat) : Respects RS (arrayCreate (F := F) name idx) := by
  unfold arrayCreate
  apply respects_get_bind; intro σ
  by_cases hh : alHas name σ.arrays = true
  · rw [if_pos hh]; exact (respects_fail _).at σ
  · rw [if_neg hh]
    cases hc : ArrayV.create (F := F) name idx with
    | ok a =>
      apply respectsAt_set
      exact fun h => h.setArray (create_arrOk _ _ _ hc) rfl rfl rfl
    | error e => exact (respects_fail _).at σ
scoped macro_rules | `(tactic| respects_prim) => `(tactic| exact rs_arrayCreate _ _)

theorem rs_rnd (x : F) : Respects RS (rnd x) := by
  unfold rnd
  respects_tac
scoped macro_rules | `(tactic| respects_prim) => `(tactic| exact rs_rnd _)

end arrays

/-! ### Expr.lean -/

variable [NumOps F]

omit [NumOps F] in
theorem rs_lineBudget : Respects RS (lineBudget (F := F)) := by
  unfold lineBudget
  respects_tac
scoped macro_rules | `(tactic| respects_prim) => `(tactic| exact rs_lineBudget)

omit [NumOps F] in
theorem rs_warn (msg : Str) : Respects RS (warn (F := F) msg) := by
  unfold warn
  respects_tac
scoped macro_rules | `(tactic| respects_prim) => `(tactic| exact rs_warn _)

omit [NumOps F] in
theorem rs_warnUndeclaredArray (name : Str) : Respects RS (warnUndeclaredArray (F := F) name) := by
  unfold warnUndeclaredArray
  respects_tac
scoped macro_rules | `(tactic| respects_prim) => `(tactic| exact rs_warnUndeclaredArray _)

omit [NumOps F] in
/-- the bindings `bindArgs` returns are typed and have distinct names, whatever
    the argument expressions evaluate to (a mismatch is TYPE MISMATCH before the
    binding is recorded) -/
theorem bindArgs_result (ev : Evals F) (arity : Nat) (args : List Str) (i : Nat)
    (acc : List (Str × Value F)) (σ : St F) (r : List (Str × Value F)) (σ' : St F)
    (h : bindArgs ev arity args i acc σ = .ok r σ')
    (ht : Typed acc) (hn : (acc.map Prod.fst).Nodup) :
    Typed r ∧ (r.map Prod.fst).Nodup := by
  induction args generalizing i acc σ with
  | nil =>
    simp only [bindArgs, pure, M.pureM, Res.ok.injEq] at h
    rw [← h.1]; exact ⟨ht, hn⟩
  | cons a rest ih =>
    simp only [bindArgs, bind, M.bindM] at h
    cases hv : ev.expr σ with
    | err e s => simp only [hv] at h; cases h
    | ok v s1 =>
      simp only [hv] at h
      by_cases hm : v.matchesName a = true
      · simp only [hm, Bool.not_true, Bool.false_eq_true, ↓reduceIte] at h
        have ht' := typed_alSet ht hm
        have hn' := nodup_alSet a v acc hn
        by_cases hc : i + 1 < arity
        · simp only [hc, ↓reduceIte] at h
          unfold M.bindM at h
          cases hx : expect (F := F) .Comma s1 with
          | err e s => simp only [hx] at h; cases h
          | ok u s2 =>
            simp only [hx] at h
            exact ih _ _ _ h ht' hn'
        · simp only [hc, ↓reduceIte] at h
          exact ih _ _ _ h ht' hn'
      · have hm' : v.matchesName a = false := by simpa using hm
        simp only [hm', Bool.not_false, ↓reduceIte, M.fail] at h
        cases h

section evaluator
variable (ev : Evals F) (he : Respects RS ev.expr)
include he

theorem rs_arrayIndexLoop (n : Nat) (acc : List Nat) : Respects RS (arrayIndexLoop ev n acc) := by
  induction n generalizing acc with
  | zero => unfold arrayIndexLoop; respects_tac
  | succ n ih => unfold arrayIndexLoop; respects_tac

theorem rs_arrayIndex : Respects RS (arrayIndex ev) := by
  unfold arrayIndex
  have := rs_arrayIndexLoop ev he
  respects_tac

theorem rs_numberFunctionArg : Respects RS (numberFunctionArg ev) := by
  unfold numberFunctionArg
  respects_tac

theorem rs_bindArgs (arity : Nat) (args : List Str) (i : Nat) (acc : List (Str × Value F)) :
    Respects RS (bindArgs ev arity args i acc) := by
  induction args generalizing i acc with
  | nil => unfold bindArgs; respects_tac
  | cons a rest ih => unfold bindArgs; respects_tac

/-- FN call: the frame pushed carries the typed bindings of `bindArgs`; it is
    popped again on both paths -/
theorem rs_userFunctionCall (name : Str) : Respects RS (userFunctionCall ev name) := by
  unfold userFunctionCall
  apply respects_get_bind; intro σ
  cases hg : alGet name σ.fns with
  | none => exact (respects_pure _).at σ
  | some d =>
    dsimp only
    refine respectsAt_bind ((rs_expect _).at σ) ?_
    intro _
    apply respects_of_at; intro σ1
    refine respectsAt_bind_post (Q := fun b => Typed b ∧ (b.map Prod.fst).Nodup)
      ((rs_bindArgs ev he _ _ _ _).at σ1)
      (fun b σ2 hb => bindArgs_result ev _ _ _ _ σ1 b σ2 hb typed_nil List.nodup_nil) ?_
    intro b hb
    have := rs_pushFunctionCall (F := F) name b hb.1 hb.2
    respects_tac

theorem rs_functionCall (name : Str) : Respects RS (functionCall ev name) := by
  unfold functionCall
  have := rs_numberFunctionArg ev he
  have := rs_userFunctionCall ev he
  respects_tac

theorem rs_term : Respects RS (term ev) := by
  unfold term
  have := rs_functionCall ev he
  have := rs_arrayIndex ev he
  respects_tac

theorem rs_parenExpr : Respects RS (parenExpr ev) := by
  unfold parenExpr
  have := rs_term ev he
  respects_tac

theorem rs_unaryExpr : Respects RS (unaryExpr ev) := by
  unfold unaryExpr
  have := rs_parenExpr ev he
  respects_tac

omit he in
theorem rs_levelLoop {sub : M F (Value F)} (hs : Respects RS sub) (ops : Token F → Option BinOp)
    (n : Nat) (v : Value F) : Respects RS (levelLoop sub ops n v) := by
  induction n generalizing v with
  | zero => unfold levelLoop; respects_tac
  | succ n ih => unfold levelLoop; respects_tac

omit he in
theorem rs_level {sub : M F (Value F)} (hs : Respects RS sub) (ops : Token F → Option BinOp) :
    Respects RS (level sub ops) := by
  unfold level
  have := rs_levelLoop hs ops
  respects_tac

theorem rs_orExpr : Respects RS (orExpr ev) := by
  unfold orExpr
  exact rs_level (rs_level (rs_level (rs_level (rs_level (rs_level
    (rs_unaryExpr ev he) _) _) _) _) _) _

theorem rs_exprBody : Respects RS (exprBody ev) := by
  unfold exprBody
  exact rs_nested (rs_orExpr ev he)

/-! ### Stmt.lean -/

theorem rs_optionalArrayIndex : Respects RS (optionalArrayIndex ev) := by
  unfold optionalArrayIndex
  have := rs_arrayIndex ev he
  respects_tac

omit he in
/-- `assign_value` (LET, READ, INPUT): both targets check the kind before storing -/
theorem rs_assignValue (lv : LValue) (v : Value F) : Respects RS (assignValue lv v) := by
  unfold assignValue
  respects_tac

theorem rs_assignmentStatement (name : Str) : Respects RS (assignmentStatement ev name) := by
  unfold assignmentStatement
  have := rs_optionalArrayIndex ev he
  have := rs_assignValue (F := F)
  respects_tac

theorem rs_letStatement : Respects RS (letStatement ev) := by
  unfold letStatement
  have := rs_assignmentStatement ev he
  respects_tac

theorem rs_parseLValue : Respects RS (parseLValue ev) := by
  unfold parseLValue
  have := rs_optionalArrayIndex ev he
  respects_tac

omit he in
theorem rs_gotoStatement : Respects RS (gotoStatement (F := F)) := by
  unfold gotoStatement
  respects_tac

omit he in
theorem rs_gosubStatement : Respects RS (gosubStatement (F := F)) := by
  unfold gosubStatement
  respects_tac

variable (hs : Respects RS ev.stmt)
include hs

omit he in
theorem rs_statementOrGoto : Respects RS (statementOrGoto ev) := by
  unfold statementOrGoto
  have := rs_gotoStatement (F := F)
  respects_tac

omit he in
theorem rs_ifSkipLoop (n : Nat) : Respects RS (ifSkipLoop ev n) := by
  have := rs_statementOrGoto ev hs
  induction n with
  | zero => unfold ifSkipLoop; respects_tac
  | succ n ih => unfold ifSkipLoop; respects_tac

theorem rs_ifStatement : Respects RS (ifStatement ev) := by
  unfold ifStatement
  have := rs_statementOrGoto ev hs
  have := rs_ifSkipLoop ev hs
  respects_tac

omit hs in
theorem rs_readLoop (n : Nat) : Respects RS (readLoop ev n) := by
  have := rs_parseLValue ev he
  have := rs_assignValue (F := F)
  induction n with
  | zero => unfold readLoop; respects_tac
  | succ n ih => unfold readLoop; respects_tac

omit hs in
theorem rs_readStatement : Respects RS (readStatement ev) := by
  unfold readStatement
  have := rs_readLoop ev he
  respects_tac

omit he hs in
theorem rs_takeInput : Respects RS (takeInput (F := F)) := by
  unfold takeInput
  respects_tac

omit he hs in
theorem rs_rewindAndAwaitInput : Respects RS (rewindAndAwaitInput (F := F)) := by
  unfold rewindAndAwaitInput
  respects_tac

omit hs in
theorem rs_inputStatement : Respects RS (inputStatement ev) := by
  unfold inputStatement
  have := rs_parseLValue ev he
  have := rs_assignValue (F := F)
  have := rs_takeInput (F := F)
  have := rs_rewindAndAwaitInput (F := F)
  respects_tac

omit hs in
theorem rs_dimStatement : Respects RS (dimStatement ev) := by
  unfold dimStatement
  have := rs_parseLValue ev he
  respects_tac

omit hs in
theorem rs_printLoop (n : Nat) (semi : Bool) (acc : Str) : Respects RS (printLoop ev n semi acc) := by
  induction n generalizing semi acc with
  | zero => unfold printLoop; respects_tac
  | succ n ih => unfold printLoop; respects_tac

omit hs in
theorem rs_printStatement : Respects RS (printStatement ev) := by
  unfold printStatement
  have := rs_printLoop ev he
  respects_tac

omit hs in
theorem rs_forStatement : Respects RS (forStatement ev) := by
  unfold forStatement
  respects_tac

omit he hs in
theorem rs_nextStatement : Respects RS (nextStatement (F := F)) := by
  unfold nextStatement
  respects_tac

omit he hs in
theorem rs_defArgsLoop (n : Nat) (acc : List Str) : Respects RS (defArgsLoop (F := F) n acc) := by
  induction n generalizing acc with
  | zero => unfold defArgsLoop; respects_tac
  | succ n ih => unfold defArgsLoop; respects_tac

omit he hs in
theorem rs_skipToColonLoop (n : Nat) : Respects RS (skipToColonLoop (F := F) n) := by
  induction n with
  | zero => unfold skipToColonLoop; respects_tac
  | succ n ih => unfold skipToColonLoop; respects_tac

omit he hs in
theorem rs_defStatement : Respects RS (defStatement (F := F)) := by
  unfold defStatement
  have := rs_defArgsLoop (F := F)
  have := rs_skipToColonLoop (F := F)
  respects_tac

omit he hs in
theorem rs_breakAtCurrentLocation : Respects RS (breakAtCurrentLocation (F := F)) := by
  unfold breakAtCurrentLocation
  apply respects_modify
  intro σ
  exact IsFrame.trans (b := { σ with state := .idle, out := .brk σ.loc.line :: σ.out })
    (rs_same rfl rfl rfl) (rs_progBreak _)

omit he hs in
theorem rs_traceHere : Respects RS (traceHere (F := F)) := by
  unfold traceHere
  respects_tac

theorem rs_dispatch : Respects RS (dispatch ev) := by
  unfold dispatch
  have := rs_assignmentStatement ev he
  have := rs_dimStatement ev he
  have := rs_printStatement ev he
  have := rs_inputStatement ev he
  have := rs_ifStatement ev he hs
  have := rs_gotoStatement (F := F)
  have := rs_gosubStatement (F := F)
  have := rs_forStatement ev he
  have := rs_nextStatement (F := F)
  have := rs_defStatement (F := F)
  have := rs_readStatement ev he
  have := rs_letStatement ev he
  have := rs_breakAtCurrentLocation (F := F)
  respects_tac

theorem rs_stmtBody : Respects RS (stmtBody ev) := by
  unfold stmtBody
  have := rs_traceHere (F := F)
  have := rs_dispatch ev he hs
  respects_tac

end evaluator

/-- The knot: every fuel level keeps the store well-formed. -/
theorem rs_evalN (n : Nat) :
    Respects RS (evalN (F := F) n).expr ∧ Respects RS (evalN (F := F) n).stmt := by
  induction n with
  | zero => exact ⟨respects_fail _, respects_fail _⟩
  | succ n ih => exact ⟨rs_exprBody _ ih.1, rs_stmtBody _ ih.1 ih.2⟩

/-! ### Interp.lean: the host API -/

omit [NumOps F] in
theorem rs_returnToIdle : Respects RS (returnToIdle (F := F)) := by
  unfold returnToIdle
  respects_tac
scoped macro_rules | `(tactic| respects_prim) => `(tactic| exact rs_returnToIdle)

theorem rs_runNextStatement (fuel : Nat) : Respects RS (runNextStatement (F := F) fuel) := by
  unfold runNextStatement
  have := (rs_evalN (F := F) fuel)
  have := rs_stmtBody _ this.1 this.2
  respects_tac

omit [NumOps F] in
theorem runFromFirst_stack (σ : St F) :
    σ.runFromFirst.stack = [] ∧ σ.runFromFirst.vars = σ.vars ∧ σ.runFromFirst.arrays = σ.arrays := by
  unfold St.runFromFirst St.resetRuntime St.setImmediate
  dsimp only
  split <;> simp

omit [NumOps F] in
/-- RUN's reset (any store: the stack is emptied, variables and arrays kept) -/
theorem rs_runFromFirst (σ : St F) : RS σ σ.runFromFirst := by
  obtain ⟨h1, h2, h3⟩ := runFromFirst_stack σ
  exact rs_sub h3 h2 (by rw [h1]; intro f hf; cases hf)

omit [NumOps F] in
theorem rs_setNumberedLine (σ : St F) (n : Nat) (ts : List (Token F)) : RS σ (σ.setNumberedLine n ts) := by
  refine rs_sub (σ := σ) (σ' := σ.setNumberedLine n ts) rfl rfl ?_
  unfold St.setNumberedLine St.setImmediate
  simp

theorem rs_maybeProcessCommand (fuel : Nat) (line : Str) :
    Respects RS (maybeProcessCommand (F := F) fuel line) := by
  unfold maybeProcessCommand
  have := rs_runNextStatement (F := F)
  have hrun : Respects RS (M.modify fun s : St F =>
      ({ s with input := none, vars := [], arrays := [] }).runFromFirst) := by
    apply respects_modify
    intro σ _
    obtain ⟨h1, h2, h3⟩ := runFromFirst_stack { σ with input := none, vars := [], arrays := [] }
    exact storeOk_of_empty h3 h2 h1
  respects_tac

theorem rs_evaluateImpl (fuel : Nat) (line : Str) : Respects RS (evaluateImpl (F := F) fuel line) := by
  unfold evaluateImpl
  have := rs_runNextStatement (F := F)
  have := rs_maybeProcessCommand (F := F)
  have hset : ∀ n ts, Respects RS (M.modify fun s : St F => s.setNumberedLine n ts) := by
    intro n ts
    apply respects_modify
    intro σ
    exact rs_setNumberedLine σ n ts
  respects_tac

theorem rs_startEvaluating (fuel : Nat) (line : Str) : Respects RS (startEvaluating (F := F) fuel line) := by
  unfold startEvaluating
  exact respects_postprocess (fun σ => rs_same rfl rfl rfl) (rs_evaluateImpl fuel line)

theorem rs_continueEvaluating (fuel : Nat) : Respects RS (continueEvaluating (F := F) fuel) := by
  unfold continueEvaluating
  have := respects_postprocess (R := RS) (fun σ => rs_same rfl rfl rfl) (rs_runNextStatement (F := F) fuel)
  respects_tac

omit [NumOps F] in
theorem rs_provideInput (text : Str) : Respects RS (provideInput (F := F) text) := by
  unfold provideInput
  respects_tac

omit [NumOps F] in
theorem rs_randomize (seed : Nat) : Respects RS (randomize (F := F) seed) := by
  unfold randomize
  respects_tac

end RelS
end Abasic.Hoare
