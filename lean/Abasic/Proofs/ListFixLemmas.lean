import Abasic.Props.C12Fuel
import Abasic.Props.C12Case
import Abasic.Props.C13More
import Abasic.Props.C14
/-
  Helper lemmas for C14 (`list_fixpoint`): the blank-free, upper-cased view `sq`
  of a text, on which every keyword test of the tokenizer depends; the prefix
  test `pre`; the similarity relation `Sim` between the original text and its
  LISTed respelling; head predicates (`headAll`).
-/
namespace Abasic.Props.C14
open Abasic
open Abasic.Props.C12
open Abasic.Props.C13

/-! ### characters -/

/-- a digit or the decimal point: what `numLoop` collects -/
def digdot (c : Char) : Bool := isAsciiDigit c || c == '.'

theorem asciiUpper_of_not_lower (c : Char) (h : ¬ isAsciiLowerAlpha c = true) : asciiUpper c = c := by
  unfold asciiUpper; rw [if_neg h]

theorem upper_idem (c : Char) : asciiUpper (asciiUpper c) = asciiUpper c := by
  by_cases h : isAsciiLowerAlpha c = true
  · have hb := (lower_bounds c).mp h
    have hn : (asciiUpper c).toNat = c.toNat - 32 := by rw [asciiUpper_toNat, if_pos h]
    apply asciiUpper_of_not_lower
    intro hl
    have := (lower_bounds _).mp hl
    omega
  · rw [asciiUpper_of_not_lower c h, asciiUpper_of_not_lower c h]

theorem upper_of_not_alpha (c : Char) (h : isAsciiAlpha c = false) : asciiUpper c = c := by
  apply asciiUpper_of_not_lower
  intro hl
  unfold isAsciiAlpha at h
  rw [hl] at h
  simp at h

theorem ws_not_alpha (c : Char) (h : isBasicWs c = true) : isAsciiAlpha c = false := by
  cases ha : isAsciiAlpha c with
  | false => rfl
  | true =>
    have hb := (alpha_bounds c).mp ha
    unfold isBasicWs isAsciiWs at h
    simp only [Bool.and_eq_true, Bool.or_eq_true, beq_iff_eq, bne_iff_ne, ne_eq] at h
    rcases h.1 with (((h1 | h1) | h1) | h1) | h1 <;> (subst h1; revert hb; decide)

theorem upper_ws (c : Char) : isBasicWs (asciiUpper c) = isBasicWs c := by
  by_cases ha : isAsciiAlpha c = true
  · have h1 : isBasicWs c = false := by
      cases hb : isBasicWs c with
      | false => rfl
      | true => rw [ws_not_alpha c hb] at ha; cases ha
    have ha' : isAsciiAlpha (asciiUpper c) = true := by
      rw [upperEq_alpha (upper_idem c)]; exact ha
    have h2 : isBasicWs (asciiUpper c) = false := by
      cases hb : isBasicWs (asciiUpper c) with
      | false => rfl
      | true => rw [ws_not_alpha _ hb] at ha'; cases ha'
    rw [h1, h2]
  · rw [upper_of_not_alpha c (by simpa using ha)]

theorem upper_digdot (c : Char) : digdot (asciiUpper c) = digdot c := by
  unfold digdot
  rw [upperEq_digit (upper_idem c), upperEq_beq (upper_idem c) '.' (by decide)]

theorem upper_symValid (first : Bool) (c : Char) : symValid first (asciiUpper c) = symValid first c :=
  symValid_caseEq first (upper_idem c)

theorem upper_eq_dollar (c : Char) : (asciiUpper c == '$') = (c == '$') :=
  upperEq_beq (upper_idem c) '$' (by decide)

theorem digdot_not_alpha (c : Char) (h : digdot c = true) : isAsciiAlpha c = false := by
  cases ha : isAsciiAlpha c with
  | false => rfl
  | true =>
    unfold digdot at h
    rw [alpha_not_digit ha] at h
    simp only [Bool.false_or, beq_iff_eq] at h
    subst h
    revert ha; decide

theorem digdot_not_ws (c : Char) (h : digdot c = true) : isBasicWs c = false := by
  cases hb : isBasicWs c with
  | false => rfl
  | true =>
    unfold digdot at h
    simp only [Bool.or_eq_true, beq_iff_eq] at h
    unfold isBasicWs isAsciiWs at hb
    simp only [Bool.and_eq_true, Bool.or_eq_true, beq_iff_eq, bne_iff_ne, ne_eq] at hb
    rcases h with h | h
    · have hd := (digit_bounds c).mp h
      rcases hb.1 with (((h1 | h1) | h1) | h1) | h1 <;> (subst h1; revert hd; decide)
    · subst h; revert hb; decide

theorem alpha_not_ws (c : Char) (h : isAsciiAlpha c = true) : isBasicWs c = false := by
  cases hb : isBasicWs c with
  | false => rfl
  | true => rw [ws_not_alpha c hb] at h; cases h

theorem digdot_symValid_first (c : Char) (h : digdot c = true) : symValid true c = false := by
  unfold symValid; simp only [if_true]; exact digdot_not_alpha c h

/-! ### the blank-free upper-cased view -/

/-- the text without BASIC blanks, ASCII letters upper-cased -/
def sq : Str → Str
  | [] => []
  | c :: cs => if isBasicWs c then sq cs else asciiUpper c :: sq cs

theorem sq_ws (w : Char) (cs : Str) (hw : isBasicWs w = true) : sq (w :: cs) = sq cs := by
  simp only [sq, hw, if_true]

theorem sq_nb (c : Char) (cs : Str) (hb : isBasicWs c = false) : sq (c :: cs) = asciiUpper c :: sq cs := by
  simp only [sq, hb, Bool.false_eq_true, if_false]

theorem sq_append (a b : Str) : sq (a ++ b) = sq a ++ sq b := by
  induction a with
  | nil => rfl
  | cons c a ih =>
    simp only [List.cons_append, sq]
    split
    · exact ih
    · rw [ih]; rfl

theorem sq_skipWs (cs : Str) : sq (skipWs cs) = sq cs := by
  induction cs with
  | nil => rfl
  | cons c cs ih =>
    simp only [skipWs]
    split
    · rename_i h; rw [sq_ws c cs h]; exact ih
    · rfl

theorem sq_of_skipWs_nil (cs : Str) (h : skipWs cs = []) : sq cs = [] := by
  rw [← sq_skipWs, h]; rfl

theorem sq_of_skipWs_cons (cs : Str) (c : Char) (r : Str) (h : skipWs cs = c :: r) :
    sq cs = asciiUpper c :: sq r := by
  rw [← sq_skipWs, h, sq_nb c r (skipWs_nonblank cs c r h)]

theorem skipWs_of_sq_nil (cs : Str) (h : sq cs = []) : skipWs cs = [] := by
  cases hs : skipWs cs with
  | nil => rfl
  | cons c r => rw [sq_of_skipWs_cons cs c r hs] at h; cases h

theorem skipWs_of_sq_cons (cs : Str) (x : Char) (q : Str) (h : sq cs = x :: q) :
    ∃ c r, skipWs cs = c :: r ∧ asciiUpper c = x ∧ sq r = q ∧ isBasicWs c = false := by
  cases hs : skipWs cs with
  | nil => rw [sq_of_skipWs_nil cs hs] at h; cases h
  | cons c r =>
    rw [sq_of_skipWs_cons cs c r hs] at h
    injection h with h1 h2
    exact ⟨c, r, rfl, h1, h2, skipWs_nonblank cs c r hs⟩

/-- a text that is already blank-free and upper-cased -/
def Clean (s : Str) : Prop := ∀ c ∈ s, isBasicWs c = false ∧ asciiUpper c = c

theorem sq_clean (s : Str) (h : Clean s) : sq s = s := by
  induction s with
  | nil => rfl
  | cons c s ih =>
    have hc := h c (List.mem_cons_self ..)
    rw [sq_nb c s hc.1, hc.2, ih (fun x hx => h x (List.mem_cons_of_mem _ hx))]

/-! ### prefix test and the keyword matchers -/

/-- `kw` is a prefix of `q` -/
def pre : Str → Str → Bool
  | [], _ => true
  | _ :: _, [] => false
  | k :: ks, c :: q => (c == k) && pre ks q

theorem chompKeyword_isSome (kw cs : Str) : (chompKeyword kw cs).isSome = pre kw (sq cs) := by
  induction kw generalizing cs with
  | nil => simp [chompKeyword, pre]
  | cons k ks ih =>
    cases hs : skipWs cs with
    | nil => simp only [chompKeyword, hs, sq_of_skipWs_nil cs hs, pre]; rfl
    | cons c r =>
      simp only [chompKeyword, hs, sq_of_skipWs_cons cs c r hs, pre]
      by_cases hk : (asciiUpper c == k) = true
      · rw [if_pos hk, hk, Bool.true_and]; exact ih r
      · rw [if_neg hk]
        have : (asciiUpper c == k) = false := by simpa using hk
        rw [this]; rfl

theorem chompKeyword_none (kw cs : Str) (h : pre kw (sq cs) = false) : chompKeyword kw cs = none := by
  have := chompKeyword_isSome kw cs
  rw [h] at this
  cases hc : chompKeyword kw cs with
  | none => rfl
  | some r => rw [hc] at this; cases this

theorem chompKeyword_sq (kw cs r : Str) (h : chompKeyword kw cs = some r) : sq cs = kw ++ sq r := by
  induction kw generalizing cs with
  | nil => simp only [chompKeyword, Option.some.injEq] at h; subst h; rfl
  | cons k ks ih =>
    cases hs : skipWs cs with
    | nil => simp [chompKeyword, hs] at h
    | cons c r0 =>
      simp only [chompKeyword, hs] at h
      by_cases hk : (asciiUpper c == k) = true
      · rw [if_pos hk] at h
        rw [sq_of_skipWs_cons cs c r0 hs, ih r0 h]
        have : asciiUpper c = k := by simpa using hk
        rw [this]; rfl
      · rw [if_neg hk] at h; cases h

def preTable (tbl : List (String × Kw)) (q : Str) : Bool := tbl.any (fun p => pre p.1.toList q)

/-- some keyword of the table is a prefix of `q` -/
def anyKw (q : Str) : Bool := preTable Extracted.keywords q

theorem chompKeywordTable_isSome (tbl : List (String × Kw)) (cs : Str) :
    (chompKeywordTable tbl cs).isSome = preTable tbl (sq cs) := by
  induction tbl with
  | nil => rfl
  | cons e rest ih =>
    obtain ⟨w, k⟩ := e
    simp only [chompKeywordTable, preTable, List.any_cons]
    have := chompKeyword_isSome w.toList cs
    cases hc : chompKeyword w.toList cs with
    | none =>
      rw [hc] at this
      simp only [Option.isSome_none] at this
      rw [← this, Bool.false_or]
      exact ih
    | some r =>
      rw [hc] at this
      simp only [Option.isSome_some] at this
      rw [← this]; rfl

theorem chompAnyKeyword_isSome (cs : Str) : (chompAnyKeyword cs).isSome = anyKw (sq cs) :=
  chompKeywordTable_isSome _ cs

theorem chompAnyKeyword_none (cs : Str) (h : anyKw (sq cs) = false) : chompAnyKeyword cs = none := by
  have := chompAnyKeyword_isSome cs
  rw [h] at this
  cases hc : chompAnyKeyword cs with
  | none => rfl
  | some r => rw [hc] at this; cases this

theorem chompKeywordTable_sq (tbl : List (String × Kw)) (cs : Str) (k : Kw) (r : Str)
    (h : chompKeywordTable tbl cs = some (k, r)) : ∃ w, (w, k) ∈ tbl ∧ sq cs = w.toList ++ sq r := by
  induction tbl with
  | nil => simp [chompKeywordTable] at h
  | cons e rest ih =>
    obtain ⟨w, k0⟩ := e
    simp only [chompKeywordTable] at h
    cases hc : chompKeyword w.toList cs with
    | none =>
      rw [hc] at h
      obtain ⟨w', hm, hs⟩ := ih h
      exact ⟨w', List.mem_cons_of_mem _ hm, hs⟩
    | some r0 =>
      rw [hc] at h
      simp only [Option.some.injEq, Prod.mk.injEq] at h
      obtain ⟨rfl, rfl⟩ := h
      exact ⟨w, List.mem_cons_self .., chompKeyword_sq _ _ _ hc⟩

/-! ### head predicates -/

/-- `P` holds of the first character, if there is one -/
def headAll (P : Char → Bool) : Str → Bool
  | [] => true
  | h :: _ => P h

theorem headAll_append_left (P : Char → Bool) (h : Char) (a x y : Str) :
    headAll P ((h :: a) ++ x) = headAll P ((h :: a) ++ y) := rfl

/-! ### similarity of the original text and its LISTed respelling -/

/-- Two blank-free texts that agree as far as keyword tests can see: equal up to
    the first non-letter, which is the same on both sides or a digit/point on both —
    or up to the word `DATA` (after which a DATA statement is respelled). -/
inductive Sim : Str → Str → Prop
  | nil : Sim [] []
  | same (c : Char) {a b : Str} : Sim a b → Sim (c :: a) (c :: b)
  | other (c : Char) (a b : Str) : isAsciiAlpha c = false → Sim (c :: a) (c :: b)
  | dig (x y : Char) (a b : Str) : digdot x = true → digdot y = true → Sim (x :: a) (y :: b)
  | data (a b : Str) : Sim ('D' :: 'A' :: 'T' :: 'A' :: a) ('D' :: 'A' :: 'T' :: 'A' :: b)

theorem Sim.refl (a : Str) : Sim a a := by
  induction a with
  | nil => exact Sim.nil
  | cons c a ih => exact Sim.same c ih

theorem Sim.append_left (p : Str) {a b : Str} (h : Sim a b) : Sim (p ++ a) (p ++ b) := by
  induction p with
  | nil => exact h
  | cons c p ih => exact Sim.same c ih

/-- `ks` does not reach beyond a leading `DATA` -/
def dataSafe (ks : Str) : Bool :=
  match ks with
  | k1 :: k2 :: k3 :: k4 :: _ :: _ => !(k1 == 'D' && k2 == 'A' && k3 == 'T' && k4 == 'A')
  | _ => true

/-- no suffix of `ks` reaches beyond a leading `DATA` -/
def dataSafeAll : Str → Bool
  | [] => true
  | k :: ks => dataSafe (k :: ks) && dataSafeAll ks

theorem pre_data (ks a b : Str) (h : dataSafe ks = true) :
    pre ks ('D' :: 'A' :: 'T' :: 'A' :: a) = pre ks ('D' :: 'A' :: 'T' :: 'A' :: b) := by
  rcases ks with _ | ⟨k1, _ | ⟨k2, _ | ⟨k3, _ | ⟨k4, _ | ⟨k5, ks⟩⟩⟩⟩⟩
  · rfl
  · rfl
  · rfl
  · rfl
  · rfl
  · simp only [dataSafe, Bool.not_eq_true', Bool.and_eq_false_iff, beq_eq_false_iff_ne, ne_eq] at h
    simp only [pre]
    have : ('D' == k1 && ('A' == k2 && ('T' == k3 && 'A' == k4))) = false := by
      rcases h with ((h | h) | h) | h
      · have : ('D' == k1) = false := beq_false_of_ne (fun e => h e.symm)
        rw [this]; rfl
      · have : ('A' == k2) = false := beq_false_of_ne (fun e => h e.symm)
        rw [this]; simp
      · have : ('T' == k3) = false := beq_false_of_ne (fun e => h e.symm)
        rw [this]; simp
      · have : ('A' == k4) = false := beq_false_of_ne (fun e => h e.symm)
        rw [this]; simp
    have e : ∀ X : Bool, ('D' == k1 && ('A' == k2 && ('T' == k3 && ('A' == k4 && X)))) = false := by
      intro X
      rw [← Bool.and_assoc ('T' == k3), ← Bool.and_assoc ('A' == k2), ← Bool.and_assoc ('D' == k1)]
      rw [this]; rfl
    rw [e, e]

theorem pre_sim {a b : Str} (h : Sim a b) (kw : Str) (hk : ∀ k ∈ kw, isAsciiAlpha k = true)
    (hs : dataSafeAll kw = true) : pre kw a = pre kw b := by
  induction h generalizing kw with
  | nil => rfl
  | same c _ ih =>
    cases kw with
    | nil => rfl
    | cons k ks =>
      simp only [pre]
      simp only [dataSafeAll, Bool.and_eq_true] at hs
      rw [ih ks (fun x hx => hk x (List.mem_cons_of_mem _ hx)) hs.2]
  | other c a b hc =>
    cases kw with
    | nil => rfl
    | cons k ks =>
      simp only [pre]
      have : (c == k) = false := by
        apply beq_false_of_ne; intro e
        rw [e, hk k (List.mem_cons_self ..)] at hc; cases hc
      rw [this]; rfl
  | dig x y a b hx hy =>
    cases kw with
    | nil => rfl
    | cons k ks =>
      simp only [pre]
      have hka := hk k (List.mem_cons_self ..)
      have h1 : (x == k) = false := by
        apply beq_false_of_ne; intro e
        rw [e] at hx; rw [digdot_not_alpha k hx] at hka; cases hka
      have h2 : (y == k) = false := by
        apply beq_false_of_ne; intro e
        rw [e] at hy; rw [digdot_not_alpha k hy] at hka; cases hka
      rw [h1, h2]; rfl
  | data a b =>
    cases kw with
    | nil => rfl
    | cons k ks =>
      simp only [dataSafeAll, Bool.and_eq_true] at hs
      exact pre_data (k :: ks) a b hs.1

theorem keywords_alpha : ∀ p ∈ Extracted.keywords, ∀ k ∈ p.1.toList, isAsciiAlpha k = true := by decide
theorem keywords_dataSafe : ∀ p ∈ Extracted.keywords, dataSafeAll p.1.toList = true := by decide

theorem preTable_sim {a b : Str} (h : Sim a b) (tbl : List (String × Kw))
    (ht : ∀ p ∈ tbl, ∀ k ∈ p.1.toList, isAsciiAlpha k = true)
    (hs : ∀ p ∈ tbl, dataSafeAll p.1.toList = true) : preTable tbl a = preTable tbl b := by
  induction tbl with
  | nil => rfl
  | cons e rest ih =>
    simp only [preTable, List.any_cons]
    rw [pre_sim h e.1.toList (ht e (List.mem_cons_self ..)) (hs e (List.mem_cons_self ..))]
    have := ih (fun p hp => ht p (List.mem_cons_of_mem _ hp)) (fun p hp => hs p (List.mem_cons_of_mem _ hp))
    simp only [preTable] at this
    rw [this]

theorem anyKw_sim {a b : Str} (h : Sim a b) : anyKw a = anyKw b :=
  preTable_sim h _ keywords_alpha keywords_dataSafe

/-- a head property that does not distinguish digits and points carries over -/
theorem headAll_sim {a b : Str} (h : Sim a b) (P : Char → Bool)
    (hP : ∀ x y, digdot x = true → digdot y = true → P x = true → P y = true)
    (ha : headAll P a = true) : headAll P b = true := by
  cases h with
  | nil => rfl
  | same c _ => exact ha
  | other c a b _ => exact ha
  | dig x y a b hx hy => exact hP x y hx hy ha
  | data a b => exact ha

end Abasic.Props.C14

