import Abasic.Ref.Prog3
import Abasic.Proofs.ProgLemmas
/-
  C03, third layer — the store of a compiled `RProgram3` and where a statement
  stands on its line (Proofs/Prog2Store.lean for the statements of Ref/Stmt3.lean).
-/
set_option linter.unusedSectionVars false

namespace Abasic.Prog3L
open Abasic Abasic.Ref Abasic.ExprL Abasic.StmtL Abasic.ProgL M

variable {F : Type}

/-! ### the store of a compiled program -/

section store
variable [NumOps F]

theorem compile_get (p : RProgram3 F) (n : Nat) :
    (compileP3 p).get n = (p.line n).map renderLine3 := by
  unfold Lines.get compileP3
  induction p with
  | nil => rfl
  | cons l rest ih =>
    obtain ⟨k, ss⟩ := l
    simp only [List.map_cons, Lines.getMap, RProgram3.line]
    by_cases h : (k == n) = true
    · simp only [h, ↓reduceIte, Option.map_some]
    · simp only [h, Bool.false_eq_true, ↓reduceIte]
      exact ih

theorem compile_has (p : RProgram3 F) (n : Nat) : (compileP3 p).has n = p.hasLine n := by
  unfold Lines.has RProgram3.hasLine
  rw [compile_get]
  cases p.line n <;> rfl

theorem compile_after (p : RProgram3 F) (n : Nat) : (compileP3 p).after n = p.after n := by
  unfold Lines.after RProgram3.after
  exact afterList_find n _

theorem compile_first (p : RProgram3 F) : (compileP3 p).first = p.first := by
  unfold Lines.first RProgram3.first compileP3
  cases p <;> rfl

theorem line_mem {p : RProgram3 F} {n : Nat} {ss : List (RStmt3 F)} (h : p.line n = some ss) :
    (n, ss) ∈ p := by
  induction p with
  | nil => simp [RProgram3.line] at h
  | cons l rest ih =>
    obtain ⟨k, ss'⟩ := l
    simp only [RProgram3.line] at h
    by_cases hk : (k == n) = true
    · simp only [hk, ↓reduceIte, Option.some.injEq] at h
      have : k = n := by simpa using hk
      subst this; subst h
      exact List.mem_cons_self
    · simp only [hk, Bool.false_eq_true, ↓reduceIte] at h
      exact List.mem_cons_of_mem _ (ih h)

theorem mem_line {p : RProgram3 F} {n : Nat} (h : n ∈ p.map (·.1)) : ∃ ss, p.line n = some ss := by
  induction p with
  | nil => simp at h
  | cons l rest ih =>
    obtain ⟨k, ss'⟩ := l
    simp only [RProgram3.line]
    by_cases hk : (k == n) = true
    · exact ⟨ss', by simp only [hk, ↓reduceIte]⟩
    · simp only [hk, Bool.false_eq_true, ↓reduceIte]
      apply ih
      simp only [List.map_cons, List.mem_cons] at h
      rcases h with h | h
      · exact absurd (by simpa using h.symm) hk
      · exact h

theorem after_line {p : RProgram3 F} {n m : Nat} (h : p.after n = some m) : ∃ ss, p.line m = some ss :=
  mem_line (List.mem_of_find?_eq_some h)

theorem first_line {p : RProgram3 F} {n : Nat} (h : p.first = some n) : ∃ ss, p.line n = some ss := by
  apply mem_line
  unfold RProgram3.first at h
  cases p with
  | nil => simp at h
  | cons l rest =>
    simp only [List.head?_cons, Option.map_some, Option.some.injEq] at h
    simp [h]


/-- the store holds exactly the lines of `p`: the token map answers with the
    rendered lines and the ordered index lists the line numbers.  It does not
    matter in which order the lines were entered (`holds_of_wf`, `holds_load`). -/
structure Holds (l : Lines F) (p : RProgram3 F) : Prop where
  get : ∀ n, l.get n = (p.line n).map renderLine3
  sorted : l.sorted = p.map (·.1)

theorem holds_compile (p : RProgram3 F) : Holds (compileP3 p) p := ⟨compile_get p, rfl⟩

theorem holds_has {l : Lines F} {p : RProgram3 F} (h : Holds l p) (n : Nat) : l.has n = p.hasLine n := by
  unfold Lines.has RProgram3.hasLine
  rw [h.get]
  cases p.line n <;> rfl

theorem holds_after {l : Lines F} {p : RProgram3 F} (h : Holds l p) (n : Nat) : l.after n = p.after n := by
  unfold Lines.after RProgram3.after
  rw [h.sorted]
  exact afterList_find n _

theorem holds_first {l : Lines F} {p : RProgram3 F} (h : Holds l p) : l.first = p.first := by
  unfold Lines.first RProgram3.first
  rw [h.sorted]
  cases p <;> rfl

theorem mem_keys_iff (p : RProgram3 F) (n : Nat) : n ∈ p.map (·.1) ↔ (p.line n).isSome = true := by
  constructor
  · intro h
    obtain ⟨ss, hss⟩ := mem_line h
    rw [hss]; rfl
  · intro h
    cases hl : p.line n with
    | none => rw [hl] at h; cases h
    | some ss => exact List.mem_map.mpr ⟨(n, ss), line_mem hl, rfl⟩

/-- a well-formed store (both indexes agree, C04) whose token map answers with
    the lines of an ascending program holds that program -/
theorem holds_of_wf {l : Lines F} {p : RProgram3 F} (hl : Props.C04.WF l) (hp : p.WF)
    (hget : ∀ n, l.get n = (p.line n).map renderLine3) : Holds l p := by
  refine ⟨hget, Lines.sorted_ext _ _ hl.sorted hp.ascending fun n => ?_⟩
  rw [hl.agree n, hget n, mem_keys_iff]
  cases p.line n <;> rfl

/-- a statement begins with a token that is neither ELSE nor `:` -/
theorem renderS3_head (s : RStmt3 F) :
    ∃ t ts, renderS3 s = t :: ts ∧ t.isKw .Else = false ∧ t.isKw .Colon = false := by
  cases s with
  | ifS c t e => cases e <;> exact ⟨_, _, by rw [renderS3], rfl, rfl⟩
  | forS v a b c => cases c <;> exact ⟨_, _, by rw [renderS3], rfl, rfl⟩
  | _ => exact ⟨_, _, by rw [renderS3], rfl, rfl⟩

theorem renderLine_ne_nil {ss : List (RStmt3 F)} (h : ss ≠ []) : (renderLine3 ss).isEmpty = false := by
  cases ss with
  | nil => exact absurd rfl h
  | cons a rest =>
    obtain ⟨t, ts, hk, _, _⟩ := renderS3_head a
    rw [renderLine3, hk]; rfl

theorem line_none_of_lt {p : RProgram3 F} {a : Nat} (h : ∀ k ∈ p.map (·.1), a < k) : p.line a = none := by
  cases hl : p.line a with
  | none => rfl
  | some ss =>
    have := h a (List.mem_map.mpr ⟨(a, ss), line_mem hl, rfl⟩)
    omega

/-- entering the lines of an ascending program one after the other, as a finite map -/
theorem load_spec : ∀ (p : RProgram3 F) (m : Props.C04.Spec F),
    (p.map (·.1)).Pairwise (· < ·) → (∀ l ∈ p, l.2 ≠ []) →
    (p.map fun e => (e.1, renderLine3 e.2)).foldl (fun m e => Props.C04.Spec.edit m e.1 e.2) m =
      fun k => match p.line k with | some ss => some (renderLine3 ss) | none => m k
  | [], m, _, _ => rfl
  | (a, ss) :: rest, m, hasc, hne => by
    have hasc' : (∀ k ∈ rest.map (·.1), a < k) ∧ (rest.map (·.1)).Pairwise (· < ·) :=
      List.pairwise_cons.mp hasc
    simp only [List.map_cons, List.foldl_cons]
    rw [load_spec rest _ hasc'.2 (fun l hl => hne l (List.mem_cons_of_mem _ hl))]
    funext k
    simp only [RProgram3.line]
    by_cases hk : (a == k) = true
    · have : a = k := by simpa using hk
      subst this
      rw [line_none_of_lt hasc'.1]
      simp only [hk, ↓reduceIte, Props.C04.Spec.edit,
        renderLine_ne_nil (hne (a, ss) List.mem_cons_self), Bool.false_eq_true]
    · simp only [hk, Bool.false_eq_true, ↓reduceIte]
      cases RProgram3.line rest k with
      | some ss' => rfl
      | none =>
        have : ¬ k = a := fun h => hk (by simp [h])
        simp only [Props.C04.Spec.edit, this, ↓reduceIte]

/-- **The store after the lines of `p` have been typed in** (in program order,
    into an empty store, with `Lines.set` as `evaluateImpl` does for a numbered
    line) holds `p`. -/
theorem holds_load (p : RProgram3 F) (hp : p.WF) :
    Holds ((p.map fun e => (e.1, renderLine3 e.2)).foldl (fun l e => l.set e.1 e.2) ({} : Lines F)) p := by
  refine holds_of_wf (Props.C04.wf_reachable _) hp fun n => ?_
  have := congrFun (Props.C04.store_refines (p.map fun e => (e.1, renderLine3 e.2)) ({} : Lines F)) n
  rw [this, load_spec p _ hp.ascending hp.nonempty]
  show (match p.line n with | some ss => some (renderLine3 ss) | none => _) = _
  cases p.line n <;> rfl

end store
/-! ### where a statement stands on its line -/

section position
variable [NumOps F]

/-- the tokens in front of statement `j` of a line -/
def preToks3 : List (RStmt3 F) → Nat → List (Token F)
  | _, 0 => []
  | [], _ + 1 => []
  | s :: rest, j + 1 => renderS3 s ++ .kw .Colon :: preToks3 rest j

theorem renderTail3_cons (s : RStmt3 F) (rest : List (RStmt3 F)) :
    renderTail3 (s :: rest) = .kw .Colon :: renderLine3 (s :: rest) := rfl

/-- a line is: what stands in front of statement `j`, the statement, `: …` -/
theorem line_split : ∀ (ss : List (RStmt3 F)) (j : Nat) (s : RStmt3 F), ss[j]? = some s →
    renderLine3 ss = preToks3 ss j ++ (renderS3 s ++ renderTail3 (ss.drop (j + 1)))
  | [], j, s, h => by simp at h
  | a :: rest, 0, s, h => by
    simp only [List.getElem?_cons_zero, Option.some.injEq] at h
    subst h
    simp only [preToks3, List.nil_append, renderLine3, Nat.zero_add, List.drop_succ_cons, List.drop_zero]
  | a :: rest, j + 1, s, h => by
    simp only [List.getElem?_cons_succ] at h
    have ih := line_split rest j s h
    cases rest with
    | nil => simp at h
    | cons b rest' =>
      simp only [renderLine3, preToks3, renderTail3_cons, List.drop_succ_cons, List.append_assoc,
        List.cons_append] at ih ⊢
      rw [← ih]

/-- the next statement stands one colon further -/
theorem preToks_succ : ∀ (ss : List (RStmt3 F)) (j : Nat) (s : RStmt3 F), ss[j]? = some s → j + 1 < ss.length →
    preToks3 ss (j + 1) = preToks3 ss j ++ renderS3 s ++ [.kw .Colon]
  | [], j, s, h, _ => by simp at h
  | a :: rest, 0, s, h, _ => by
    simp only [List.getElem?_cons_zero, Option.some.injEq] at h
    subst h
    simp only [preToks3, List.nil_append]
  | a :: rest, j + 1, s, h, hl => by
    simp only [List.getElem?_cons_succ] at h
    have ih := preToks_succ rest j s h (by simpa using hl)
    simp only [preToks3, ih, List.append_assoc, List.cons_append]

theorem drop_tail_nil {ss : List (RStmt3 F)} {j : Nat} (h : ¬ j + 1 < ss.length) :
    renderTail3 (ss.drop (j + 1)) = [] := by
  rw [List.drop_eq_nil_of_le (by omega)]
  rfl

theorem drop_tail_cons {ss : List (RStmt3 F)} {j : Nat} (h : j + 1 < ss.length) :
    ∃ s' post, ss[j + 1]? = some s' ∧ renderTail3 (ss.drop (j + 1)) = .kw .Colon :: (renderS3 s' ++ post) := by
  have : ss.drop (j + 1) = ss[j + 1] :: ss.drop (j + 1 + 1) := List.drop_eq_getElem_cons h
  refine ⟨ss[j + 1], renderTail3 (ss.drop (j + 1 + 1)), by simp [h], ?_⟩
  rw [this]
  rfl


end position

end Abasic.Prog3L
