import Abasic.Interp
/-
  A relational ("simulation") reading of the interpreter, used by C07:
  two states that differ only in

    * the output queue — the same records were appended since the start, on top
      of two different bases `o`, `o'`, and
    * the immediate line — arbitrary, as long as neither the cursor nor any
      return address on the GOSUB/function stack nor any FOR loop points into it

  are taken by every action of the interpreter to equal results and states that
  are again related.
-/
set_option linter.unusedSectionVars false

namespace Abasic.Proofs.Sim
open Abasic M

variable {F : Type}

/-- the cursor, every return address and every loop start are in numbered lines -/
def Inv (σ : St F) : Prop :=
  σ.loc.line.isSome = true ∧ σ.stack.all (fun f => f.ret.line.isSome) = true ∧
    σ.loops.all (fun l => l.loc.line.isSome) = true

def Rel (o o' : List Out) (σ σ' : St F) : Prop :=
  ∃ pre im', σ.out = pre ++ o ∧ σ' = { σ with out := pre ++ o', imm := im' } ∧ (im' = σ.imm ∨ Inv σ)

def RelRes {α : Type} (o o' : List Out) : Res F α → Res F α → Prop
  | .ok a s, .ok a' s' => a = a' ∧ Rel o o' s s'
  | .err e s, .err e' s' => e = e' ∧ Rel o o' s s'
  | _, _ => False

structure SimM {α : Type} (o o' : List Out) (m : M F α) : Prop where
  run : ∀ σ σ', Rel o o' σ σ' → RelRes o o' (m σ) (m σ')

variable {o o' : List Out} {α β : Type}

/-! ### combinators -/

theorem sim_pure (a : α) : SimM (F := F) o o' (pure a) := ⟨fun _ _ h => ⟨rfl, h⟩⟩

theorem sim_bind {m : M F α} {f : α → M F β} (hm : SimM o o' m) (hf : ∀ a, SimM o o' (f a)) :
    SimM o o' (m >>= f) := by
  constructor
  intro σ σ' h
  have h1 := hm.run σ σ' h
  simp only [bind, M.bindM]
  cases r : m σ with
  | ok a s =>
    cases r' : m σ' with
    | ok a' s' =>
      rw [r, r'] at h1
      obtain ⟨rfl, hs⟩ := h1
      exact (hf a).run s s' hs
    | err e' s' => rw [r, r'] at h1; exact h1.elim
  | err e s =>
    cases r' : m σ' with
    | ok a' s' => rw [r, r'] at h1; exact h1.elim
    | err e' s' => rw [r, r'] at h1; exact h1

theorem sim_fail (e : Err) : SimM (F := F) (α := α) o o' (M.fail e) := ⟨fun _ _ h => ⟨rfl, h⟩⟩
theorem sim_throw (e : TErr) : SimM (F := F) (α := α) o o' (M.throw e) := ⟨fun _ _ h => ⟨rfl, h⟩⟩
theorem sim_rpanic (s : String) : SimM (F := F) (α := α) o o' (M.rpanic s) := ⟨fun _ _ h => ⟨rfl, h⟩⟩

theorem sim_ite {c : Prop} [Decidable c] {a b : M F α} (ha : SimM o o' a) (hb : SimM o o' b) :
    SimM o o' (if c then a else b) := by
  by_cases h : c
  · rw [if_pos h]; exact ha
  · rw [if_neg h]; exact hb

theorem sim_attempt {m : M F α} (hm : SimM o o' m) : SimM o o' (M.attempt m) := by
  constructor
  intro σ σ' h
  have h1 := hm.run σ σ' h
  simp only [M.attempt]
  cases r : m σ <;> cases r' : m σ' <;> rw [r, r'] at h1
  · exact ⟨by rw [h1.1], h1.2⟩
  · exact h1.elim
  · exact h1.elim
  · exact ⟨by rw [h1.1], h1.2⟩

theorem sim_ofExcept (r : Except TErr α) : SimM (F := F) o o' (M.ofExcept r) := by
  cases r with
  | ok a => exact sim_pure a
  | error e => exact sim_throw e

/-- an action that depends on the state only through a function that cannot
    tell related states apart -/
theorem sim_get_bind {f : St F → M F α}
    (h : ∀ σ σ', Rel o o' σ σ' → RelRes o o' (f σ σ) (f σ' σ')) : SimM o o' (M.get >>= f) := by
  constructor
  intro σ σ' hr
  simp only [bind, M.bindM, M.get]
  exact h σ σ' hr

/-- a state update that respects the relation -/
theorem sim_modify {f : St F → St F} (h : ∀ σ σ', Rel o o' σ σ' → Rel o o' (f σ) (f σ')) :
    SimM o o' (M.modify f) := ⟨fun σ σ' hr => ⟨rfl, h σ σ' hr⟩⟩

/-! ### program.rs -/

theorem sim_tokens : SimM (F := F) o o' tokens := by
  constructor
  intro σ σ' ⟨pre, im', ho, hs, hi⟩
  subst hs
  simp only [tokens, tokensForLine]
  cases hl : σ.loc.line with
  | none =>
    rcases hi with hi | hi
    · subst hi
      exact ⟨rfl, pre, σ.imm, ho, rfl, Or.inl rfl⟩
    · simp [Inv, hl] at hi
  | some n =>
    simp only
    cases σ.lines.get n with
    | none => exact ⟨rfl, pre, im', ho, rfl, hi⟩
    | some ts => exact ⟨rfl, pre, im', ho, rfl, hi⟩


theorem relres_ok {a a' : α} {s s' : St F} (ha : a = a') (hs : Rel o o' s s') :
    RelRes o o' (.ok a s) (.ok a' s') := ⟨ha, hs⟩
theorem relres_err {e e' : TErr} {s s' : St F} (he : e = e') (hs : Rel o o' s s') :
    RelRes (α := α) o o' (.err e s) (.err e' s') := ⟨he, hs⟩

/-- updating fields other than `out`, `imm`, `loc`, `stack`, `loops` by the same
    function of the common part keeps states related -/
theorem rel_upd {σ σ' : St F} (h : Rel o o' σ σ') (g : St F → St F)
    (hout : ∀ s, (g s).out = s.out) (himm : ∀ s, (g s).imm = s.imm)
    (hcomm : ∀ s x y, g { s with out := x, imm := y } = { g s with out := x, imm := y })
    (hinv : Inv σ → Inv (g σ)) : Rel o o' (g σ) (g σ') := by
  obtain ⟨pre, im', ho, rfl, hi⟩ := h
  refine ⟨pre, im', by rw [hout, ho], hcomm σ _ _, ?_⟩
  rcases hi with hi | hi
  · exact Or.inl (by rw [himm, hi])
  · exact Or.inr (hinv hi)

theorem sim_peek : SimM (F := F) o o' peek := by
  unfold peek
  refine sim_bind (sim_modify ?_) fun _ => sim_bind sim_tokens fun ts => sim_get_bind ?_
  · intro σ σ' h
    exact rel_upd h (fun s => { s with reads := s.reads + 1 }) (fun _ => rfl) (fun _ => rfl)
      (fun _ _ _ => rfl) (fun h => h)
  · intro σ σ' h
    obtain ⟨pre, im', ho, rfl, hi⟩ := h
    exact relres_ok rfl ⟨pre, im', ho, rfl, hi⟩

/-- extensible: closes a goal `SimM o o' m` for an `m` that already has a lemma -/
syntax "sim_known" : tactic
macro_rules | `(tactic| sim_known) => `(tactic| exact sim_tokens)
macro_rules | `(tactic| sim_known) => `(tactic| exact sim_peek)

/-- structural decomposition of a `do` block whose leaves all have lemmas -/
macro "sim_auto" : tactic => `(tactic| repeat' (first
  | exact sim_pure _ | exact sim_fail _ | exact sim_throw _ | exact sim_rpanic _ | exact sim_ofExcept _
  | assumption
  | apply_assumption
  | sim_known
  | (apply sim_bind <;> fail_if_success (show SimM _ _ M.get))
  | apply sim_ite
  | apply sim_attempt
  | intro _
  | dsimp only
  | split))

theorem sim_advance : SimM (F := F) o o' advance := by
  unfold advance
  refine sim_modify fun σ σ' h => ?_
  exact rel_upd h (fun s => { s with loc := { s.loc with idx := s.loc.idx + 1 } }) (fun _ => rfl)
    (fun _ => rfl) (fun _ _ _ => rfl) (fun h => h)
macro_rules | `(tactic| sim_known) => `(tactic| exact sim_advance)

theorem sim_next : SimM (F := F) o o' next := by
  unfold next; sim_auto
macro_rules | `(tactic| sim_known) => `(tactic| exact sim_next)

theorem sim_hasNext : SimM (F := F) o o' hasNext := by
  unfold hasNext; sim_auto
macro_rules | `(tactic| sim_known) => `(tactic| exact sim_hasNext)

theorem sim_nextUnwrapped : SimM (F := F) o o' nextUnwrapped := by
  unfold nextUnwrapped
  refine sim_bind sim_next fun t => ?_
  cases t with
  | some t => exact sim_pure t
  | none =>
    refine sim_get_bind fun σ σ' h => ?_
    obtain ⟨pre, im', ho, rfl, hi⟩ := h
    exact relres_err rfl ⟨pre, im', ho, rfl, hi⟩
macro_rules | `(tactic| sim_known) => `(tactic| exact sim_nextUnwrapped)

theorem sim_expect (k : Kw) : SimM (F := F) o o' (expect k) := by
  unfold expect; sim_auto
macro_rules | `(tactic| sim_known) => `(tactic| exact sim_expect _)

theorem sim_accept (k : Kw) : SimM (F := F) o o' (accept k) := by
  unfold accept; sim_auto
macro_rules | `(tactic| sim_known) => `(tactic| exact sim_accept _)

theorem sim_peekIsKw (k : Kw) : SimM (F := F) o o' (peekIsKw k) := by
  unfold peekIsKw; sim_auto
macro_rules | `(tactic| sim_known) => `(tactic| exact sim_peekIsKw _)

theorem sim_tryNext {γ : Type} (f : Token F → Option γ) : SimM (F := F) o o' (tryNext f) := by
  unfold tryNext; sim_auto
macro_rules | `(tactic| sim_known) => `(tactic| exact sim_tryNext _)

theorem sim_discardRemaining : SimM (F := F) o o' discardRemaining := by
  unfold discardRemaining
  refine sim_bind sim_tokens fun ts => sim_modify fun σ σ' h => ?_
  exact rel_upd h (fun s => { s with loc := { s.loc with idx := ts.length } }) (fun _ => rfl)
    (fun _ => rfl) (fun _ _ _ => rfl) (fun h => h)
macro_rules | `(tactic| sim_known) => `(tactic| exact sim_discardRemaining)

theorem sim_emit (x : Out) : SimM (F := F) o o' (emit x) := by
  unfold emit
  refine sim_modify fun σ σ' h => ?_
  obtain ⟨pre, im', ho, rfl, hi⟩ := h
  exact ⟨x :: pre, im', by simp [ho], rfl, hi⟩
macro_rules | `(tactic| sim_known) => `(tactic| exact sim_emit _)


/-! ### pointwise rules, for actions written with `get` / `set` -/

theorem at_bind {m m' : M F α} {f f' : α → M F β} {σ σ' : St F}
    (hm : RelRes o o' (m σ) (m' σ'))
    (hf : ∀ a s s', Rel o o' s s' → RelRes o o' (f a s) (f' a s')) :
    RelRes o o' ((m >>= f) σ) ((m' >>= f') σ') := by
  simp only [bind, M.bindM]
  cases r : m σ <;> cases r' : m' σ' <;> rw [r, r'] at hm
  · obtain ⟨rfl, hs⟩ := hm
    exact hf _ _ _ hs
  · exact hm.elim
  · exact hm.elim
  · exact hm

theorem at_get_bind {f f' : St F → M F α} {σ σ' : St F}
    (h : RelRes o o' (f σ σ) (f' σ' σ')) : RelRes o o' ((M.get >>= f) σ) ((M.get >>= f') σ') := h

theorem at_set {s s' σ σ' : St F} (h : Rel o o' s s') :
    RelRes o o' (M.set s σ) (M.set s' σ') := ⟨rfl, h⟩

theorem at_sim {m : M F α} (hm : SimM o o' m) {σ σ' : St F} (h : Rel o o' σ σ') :
    RelRes o o' (m σ) (m σ') := hm.run σ σ' h

theorem at_fail (e : Err) {σ σ' : St F} (h : Rel o o' σ σ') :
    RelRes (α := α) o o' (M.fail e σ) (M.fail e σ') := ⟨rfl, h⟩

theorem at_rpanic (e : String) {σ σ' : St F} (h : Rel o o' σ σ') :
    RelRes (α := α) o o' (M.rpanic e σ) (M.rpanic e σ') := ⟨rfl, h⟩

theorem at_pure (a : α) {σ σ' : St F} (h : Rel o o' σ σ') :
    RelRes o o' ((pure a : M F α) σ) ((pure a : M F α) σ') := ⟨rfl, h⟩

theorem at_ite {c : Prop} [Decidable c] {a a' b b' : M F α} {σ σ' : St F}
    (ha : RelRes o o' (a σ) (a' σ')) (hb : RelRes o o' (b σ) (b' σ')) :
    RelRes o o' ((if c then a else b) σ) ((if c then a' else b') σ') := by
  by_cases h : c
  · rw [if_pos h, if_pos h]; exact ha
  · rw [if_neg h, if_neg h]; exact hb

set_option hygiene false in
/-- split a state variable into its fields (named after the structure's fields) -/
macro "st_cases" σ:ident : tactic => `(tactic|
  obtain ⟨lines, imm, loc, bp, stack, loops, data, fns, nesting, input, out, state, rng, vars, arrays, warnings, tracing, accesses, reads⟩ := $σ)

theorem sim_setVar (name : Str) (v : Value F) : SimM (F := F) o o' (setVar name v) := by
  unfold setVar
  refine sim_ite (sim_modify fun σ σ' h => ?_) (sim_fail _)
  exact rel_upd h (fun s => { s with vars := alSet name v s.vars }) (fun _ => rfl)
    (fun _ => rfl) (fun _ _ _ => rfl) (fun h => h)
macro_rules | `(tactic| sim_known) => `(tactic| exact sim_setVar _ _)

theorem removeLoop_inv (sym : Str) (P : LoopInfo F → Bool) :
    ∀ (ls : List (LoopInfo F)) (l : LoopInfo F) (rest : List (LoopInfo F)),
      ls.all P = true → removeLoop sym ls = some (l, rest) → P l = true ∧ rest.all P = true := by
  intro ls
  induction ls with
  | nil => intro l rest _ h; simp [removeLoop] at h
  | cons x xs ih =>
    intro l rest hall h
    simp only [List.all_cons, Bool.and_eq_true] at hall
    unfold removeLoop at h
    by_cases hx : (x.sym == sym) = true
    · rw [if_pos hx] at h
      simp only [Option.some.injEq, Prod.mk.injEq] at h
      obtain ⟨rfl, rfl⟩ := h
      exact hall
    · rw [if_neg hx] at h
      exact ih l rest hall.2 h

variable [NumOps F]

theorem sim_endLoop (sym : Str) : SimM (F := F) o o' (endLoop sym) := by
  unfold endLoop
  constructor
  intro σ σ' h
  refine at_get_bind ?_
  obtain ⟨pre, im', ho, rfl, hi⟩ := h
  have e1 : ∀ x y, getVar ({ σ with out := x, imm := y } : St F) sym = getVar σ sym := fun _ _ => rfl
  simp only [e1]
  cases hv : getVar σ sym with
  | str s => exact at_fail _ ⟨pre, im', ho, rfl, hi⟩
  | num cur =>
    dsimp only
    cases hrm : removeLoop sym σ.loops with
    | none => exact at_fail _ ⟨pre, im', ho, rfl, hi⟩
    | some p =>
      obtain ⟨info, rest⟩ := p
      dsimp only
      refine at_ite ?_ ?_
      · refine at_bind (at_set ⟨pre, im', ho, rfl, ?_⟩) fun _ s s' hs => at_sim (sim_setVar _ _) hs
        rcases hi with hi | hi
        · exact Or.inl hi
        · have := removeLoop_inv sym (fun l => l.loc.line.isSome) _ _ _ hi.2.2 hrm
          exact Or.inr ⟨this.1, hi.2.1, by simp only [List.all_cons, this.1, this.2, Bool.and_self]⟩
      · refine at_bind (at_set ⟨pre, im', ho, rfl, ?_⟩) fun _ s s' hs => at_sim (sim_setVar _ _) hs
        rcases hi with hi | hi
        · exact Or.inl hi
        · have := removeLoop_inv sym (fun l => l.loc.line.isSome) _ _ _ hi.2.2 hrm
          exact Or.inr ⟨hi.1, hi.2.1, this.2⟩
macro_rules | `(tactic| sim_known) => `(tactic| exact sim_endLoop _)


omit [NumOps F] in
theorem sim_rewindBeforeInput : SimM (F := F) o o' rewindBeforeInput := by
  unfold rewindBeforeInput
  refine sim_bind sim_tokens fun ts => ?_
  constructor
  intro σ σ' h
  refine at_get_bind ?_
  obtain ⟨pre, im', ho, rfl, hi⟩ := h
  dsimp only
  cases findInputBefore ts σ.loc.idx with
  | none => exact at_rpanic _ ⟨pre, im', ho, rfl, hi⟩
  | some i => exact at_set ⟨pre, im', ho, rfl, hi⟩
macro_rules | `(tactic| sim_known) => `(tactic| exact sim_rewindBeforeInput)

omit [NumOps F] in
theorem rel_setImmediate {σ σ' : St F} (ts : List (Token F)) (h : Rel o o' σ σ') :
    Rel o o' (σ.setImmediate ts) (σ'.setImmediate ts) := by
  obtain ⟨pre, im', ho, rfl, hi⟩ := h
  exact ⟨pre, ts, ho, rfl, Or.inl rfl⟩

omit [NumOps F] in
theorem sim_setImmediate (ts : List (Token F)) : SimM (F := F) o o' (setImmediate ts) := by
  unfold setImmediate
  exact sim_modify fun σ σ' h => rel_setImmediate ts h
macro_rules | `(tactic| sim_known) => `(tactic| exact sim_setImmediate _)

omit [NumOps F] in
theorem sim_startLoop (sym : Str) (a b c : F) : SimM (F := F) o o' (startLoop sym a b c) := by
  unfold startLoop
  refine sim_bind (sim_modify fun σ σ' h => ?_) fun _ => ?_
  · obtain ⟨pre, im', ho, rfl, hi⟩ := h
    dsimp only
    cases hrm : removeLoop sym σ.loops with
    | none => exact ⟨pre, im', ho, rfl, hi⟩
    | some p =>
      obtain ⟨info, rest⟩ := p
      refine ⟨pre, im', ho, rfl, ?_⟩
      rcases hi with hi | hi
      · exact Or.inl hi
      · have := removeLoop_inv sym (fun l => l.loc.line.isSome) _ _ _ hi.2.2 hrm
        exact Or.inr ⟨hi.1, hi.2.1, this.2⟩
  · constructor
    intro σ σ' h
    refine at_get_bind ?_
    obtain ⟨pre, im', ho, rfl, hi⟩ := h
    dsimp only
    refine at_ite (at_fail _ ⟨pre, im', ho, rfl, hi⟩) ?_
    refine at_bind (at_set ⟨pre, im', ho, rfl, ?_⟩) fun _ s s' hs => at_sim (sim_setVar _ _) hs
    rcases hi with hi | hi
    · exact Or.inl hi
    · exact Or.inr ⟨hi.1, hi.2.1, by simp only [List.all_cons, hi.1, hi.2.2, Bool.and_self]⟩
macro_rules | `(tactic| sim_known) => `(tactic| exact sim_startLoop _ _ _ _)

omit [NumOps F] in
theorem sim_gotoLine (n : Nat) : SimM (F := F) o o' (gotoLine n) := by
  unfold gotoLine
  refine sim_bind (sim_modify fun σ σ' h => ?_) fun _ => ?_
  · obtain ⟨pre, im', ho, rfl, hi⟩ := h
    exact ⟨pre, im', ho, rfl, hi⟩
  · constructor
    intro σ σ' h
    refine at_get_bind ?_
    obtain ⟨pre, im', ho, rfl, hi⟩ := h
    dsimp only
    refine at_ite (at_set ⟨pre, im', ho, rfl, ?_⟩) (at_fail _ ⟨pre, im', ho, rfl, hi⟩)
    rcases hi with hi | hi
    · exact Or.inl hi
    · exact Or.inr ⟨rfl, hi.2.1, hi.2.2⟩
macro_rules | `(tactic| sim_known) => `(tactic| exact sim_gotoLine _)

omit [NumOps F] in
theorem gosubLine_eq (n : Nat) (σ : St F) : gosubLine n σ =
    if (σ.stack.length == Extracted.stackLimit) = true then .err { err := .oomStack } σ
    else if σ.lines.has n = true then
      .ok () { σ with bp := none, loc := { line := some n, idx := 0 }, stack := { ret := σ.loc, vars := [] } :: σ.stack }
    else .err { err := .undefinedStatement } { σ with bp := none } := by
  by_cases hl : (σ.stack.length == Extracted.stackLimit) = true
  · simp [gosubLine, bind, M.bindM, M.get, hl, M.fail]
  · by_cases hh : σ.lines.has n = true
    · simp [gosubLine, bind, M.bindM, M.get, hl, gotoLine, M.modify, M.set, hh]
    · simp [gosubLine, bind, M.bindM, M.get, hl, gotoLine, M.modify, M.fail, hh]

omit [NumOps F] in
theorem sim_gosubLine (n : Nat) : SimM (F := F) o o' (gosubLine n) := by
  constructor
  intro σ σ' h
  obtain ⟨pre, im', ho, rfl, hi⟩ := h
  rw [gosubLine_eq, gosubLine_eq]
  dsimp only
  by_cases hl : (σ.stack.length == Extracted.stackLimit) = true
  · rw [if_pos hl, if_pos hl]
    exact relres_err rfl ⟨pre, im', ho, rfl, hi⟩
  · rw [if_neg hl, if_neg hl]
    by_cases hh : σ.lines.has n = true
    · rw [if_pos hh, if_pos hh]
      refine relres_ok rfl ⟨pre, im', ho, rfl, ?_⟩
      rcases hi with hi | hi
      · exact Or.inl hi
      · exact Or.inr ⟨rfl, by simp only [List.all_cons, hi.1, hi.2.1, Bool.and_self], hi.2.2⟩
    · rw [if_neg hh, if_neg hh]
      exact relres_err rfl ⟨pre, im', ho, rfl, hi⟩
macro_rules | `(tactic| sim_known) => `(tactic| exact sim_gosubLine _)

omit [NumOps F] in
theorem sim_returnFromGosub : SimM (F := F) o o' returnFromGosub := by
  unfold returnFromGosub
  refine sim_bind (sim_modify fun σ σ' h => ?_) fun _ => ?_
  · obtain ⟨pre, im', ho, rfl, hi⟩ := h
    exact ⟨pre, im', ho, rfl, hi⟩
  · constructor
    intro σ σ' h
    refine at_get_bind ?_
    obtain ⟨pre, im', ho, rfl, hi⟩ := h
    dsimp only
    st_cases σ
    dsimp only at ho hi ⊢
    cases stack with
    | nil => exact at_fail _ ⟨pre, im', ho, rfl, hi⟩
    | cons f rest =>
      refine at_set ⟨pre, im', ho, rfl, ?_⟩
      rcases hi with hi | hi
      · exact Or.inl hi
      · have h2 := hi.2.1
        simp only [List.all_cons, Bool.and_eq_true] at h2
        exact Or.inr ⟨h2.1, h2.2, hi.2.2⟩
macro_rules | `(tactic| sim_known) => `(tactic| exact sim_returnFromGosub)

omit [NumOps F] in
theorem sim_defineFunction (name : Str) (args : List Str) : SimM (F := F) o o' (defineFunction name args) := by
  unfold defineFunction
  constructor
  intro σ σ' h
  refine at_get_bind ?_
  obtain ⟨pre, im', ho, rfl, hi⟩ := h
  dsimp only
  cases σ.loc.line with
  | none => exact at_fail _ ⟨pre, im', ho, rfl, hi⟩
  | some n => exact at_set ⟨pre, im', ho, rfl, hi⟩
macro_rules | `(tactic| sim_known) => `(tactic| exact sim_defineFunction _ _)

omit [NumOps F] in
theorem sim_pushFunctionCall (name : Str) (b : List (Str × Value F)) :
    SimM (F := F) o o' (pushFunctionCall name b) := by
  unfold pushFunctionCall
  constructor
  intro σ σ' h
  refine at_get_bind ?_
  obtain ⟨pre, im', ho, rfl, hi⟩ := h
  dsimp only
  refine at_ite (at_fail _ ⟨pre, im', ho, rfl, hi⟩) ?_
  cases alGet name σ.fns with
  | none => exact at_rpanic _ ⟨pre, im', ho, rfl, hi⟩
  | some d =>
    refine at_set ⟨pre, im', ho, rfl, ?_⟩
    rcases hi with hi | hi
    · exact Or.inl hi
    · exact Or.inr ⟨rfl, by simp only [List.all_cons, hi.1, hi.2.1, Bool.and_self], hi.2.2⟩
macro_rules | `(tactic| sim_known) => `(tactic| exact sim_pushFunctionCall _ _)

omit [NumOps F] in
theorem sim_popFunctionCall : SimM (F := F) o o' popFunctionCall := by
  unfold popFunctionCall
  constructor
  intro σ σ' h
  refine at_get_bind ?_
  obtain ⟨pre, im', ho, rfl, hi⟩ := h
  dsimp only
  st_cases σ
  dsimp only at ho hi ⊢
  cases stack with
  | nil => exact at_rpanic _ ⟨pre, im', ho, rfl, hi⟩
  | cons f rest =>
    refine at_set ⟨pre, im', ho, rfl, ?_⟩
    rcases hi with hi | hi
    · exact Or.inl hi
    · have h2 := hi.2.1
      simp only [List.all_cons, Bool.and_eq_true] at h2
      exact Or.inr ⟨h2.1, h2.2, hi.2.2⟩
macro_rules | `(tactic| sim_known) => `(tactic| exact sim_popFunctionCall)

theorem sim_nextDataElement : SimM (F := F) o o' nextDataElement := by
  unfold nextDataElement
  constructor
  intro σ σ' h
  refine at_get_bind ?_
  obtain ⟨pre, im', ho, rfl, hi⟩ := h
  st_cases σ
  dsimp only at ho hi ⊢
  refine at_bind (f := fun it => _) (f' := fun it => _) ?_ fun it s s' hs => ?_
  · cases data with
    | some it => exact at_pure _ ⟨pre, im', ho, rfl, hi⟩
    | none =>
      dsimp only
      cases lines.dataChunks with
      | some c => exact at_pure _ ⟨pre, im', ho, rfl, hi⟩
      | none => exact at_rpanic _ ⟨pre, im', ho, rfl, hi⟩
  · refine at_bind (at_sim (sim_modify fun σ σ' h => ?_) hs) fun _ s s' hs => at_pure _ hs
    obtain ⟨pre, im', ho, rfl, hi⟩ := h
    exact ⟨pre, im', ho, rfl, hi⟩
macro_rules | `(tactic| sim_known) => `(tactic| exact sim_nextDataElement)

omit [NumOps F] in
theorem sim_nextLine : SimM (F := F) o o' nextLine := by
  unfold nextLine
  constructor
  intro σ σ' h
  refine at_get_bind ?_
  obtain ⟨pre, im', ho, rfl, hi⟩ := h
  dsimp only
  cases σ.loc.line with
  | none => exact at_pure _ ⟨pre, im', ho, rfl, hi⟩
  | some n =>
    dsimp only
    cases σ.lines.after n with
    | none => exact at_pure _ ⟨pre, im', ho, rfl, hi⟩
    | some m =>
      refine at_bind (at_set ⟨pre, im', ho, rfl, ?_⟩) fun _ s s' hs => at_pure _ hs
      rcases hi with hi | hi
      · exact Or.inl hi
      · exact Or.inr ⟨rfl, hi.2.1, hi.2.2⟩
macro_rules | `(tactic| sim_known) => `(tactic| exact sim_nextLine)

omit [NumOps F] in
theorem sim_enterNested : SimM (F := F) o o' enterNested := by
  unfold enterNested
  constructor
  intro σ σ' h
  refine at_get_bind ?_
  obtain ⟨pre, im', ho, rfl, hi⟩ := h
  dsimp only
  exact at_ite (at_fail _ ⟨pre, im', ho, rfl, hi⟩) (at_set ⟨pre, im', ho, rfl, hi⟩)
macro_rules | `(tactic| sim_known) => `(tactic| exact sim_enterNested)

omit [NumOps F] in
theorem sim_exitNested : SimM (F := F) o o' exitNested := by
  unfold exitNested
  constructor
  intro σ σ' h
  refine at_get_bind ?_
  obtain ⟨pre, im', ho, rfl, hi⟩ := h
  st_cases σ
  dsimp only at ho hi ⊢
  cases nesting with
  | zero => exact at_rpanic _ ⟨pre, im', ho, rfl, hi⟩
  | succ n => exact at_set ⟨pre, im', ho, rfl, hi⟩
macro_rules | `(tactic| sim_known) => `(tactic| exact sim_exitNested)

omit [NumOps F] in
theorem sim_nested {m : M F α} (hm : SimM o o' m) : SimM o o' (nested m) := by
  unfold nested; sim_auto


set_option hygiene false in
/-- leaves of an action written with `get`/`set`, after `obtain ⟨pre, im', ho, rfl, hi⟩` -/
macro "sim_leaf" : tactic => `(tactic| first
  | exact at_fail _ ⟨pre, im', ho, rfl, hi⟩ | exact at_rpanic _ ⟨pre, im', ho, rfl, hi⟩
  | exact at_pure _ ⟨pre, im', ho, rfl, hi⟩ | exact at_set ⟨pre, im', ho, rfl, hi⟩
  | exact at_sim (by sim_auto) ⟨pre, im', ho, rfl, hi⟩)

set_option hygiene false in
/-- open a `get`-headed action on two related states, with the state split into fields -/
macro "sim_open" : tactic => `(tactic|
  (constructor; intro σ σ' h; refine at_get_bind ?_; obtain ⟨pre, im', ho, rfl, hi⟩ := h;
   st_cases σ; dsimp only at ho hi ⊢))

/-! ### arrays.rs, random.rs -/

theorem sim_ensureArray (name : Str) (n : Nat) : SimM (F := F) o o' (ensureArray name n) := by
  unfold ensureArray
  sim_open
  refine at_ite (by sim_leaf) ?_
  cases ArrayV.create (F := F) name (List.replicate n Extracted.defaultArraySize) with
  | ok a => sim_leaf
  | error e => sim_leaf
macro_rules | `(tactic| sim_known) => `(tactic| exact sim_ensureArray _ _)

theorem sim_arrayGet (name : Str) (idx : List Nat) : SimM (F := F) o o' (arrayGet name idx) := by
  unfold arrayGet
  refine sim_bind (sim_ensureArray _ _) fun _ => ?_
  sim_open
  cases alGet name arrays with
  | none => sim_leaf
  | some a =>
    dsimp only
    cases linearIndex idx a.dims with
    | error e => sim_leaf
    | ok i =>
      dsimp only
      cases a with
      | strs d cells =>
        dsimp only
        cases cells[i]? with
        | some v => sim_leaf
        | none => sim_leaf
      | nums d cells =>
        dsimp only
        cases cells[i]? with
        | some v => sim_leaf
        | none => sim_leaf
macro_rules | `(tactic| sim_known) => `(tactic| exact sim_arrayGet _ _)

theorem sim_arraySet (name : Str) (idx : List Nat) (v : Value F) :
    SimM (F := F) o o' (arraySet name idx v) := by
  unfold arraySet
  refine sim_ite (sim_fail _) (sim_bind (sim_ensureArray _ _) fun _ => ?_)
  sim_open
  cases alGet name arrays with
  | none => sim_leaf
  | some a =>
    dsimp only
    cases a with
    | strs d cells =>
      cases v with
      | str x =>
        dsimp only
        cases linearIndex idx d with
        | error e => sim_leaf
        | ok i => exact at_ite (by sim_leaf) (by sim_leaf)
      | num x => sim_leaf
    | nums d cells =>
      cases v with
      | num x =>
        dsimp only
        cases linearIndex idx d with
        | error e => sim_leaf
        | ok i => exact at_ite (by sim_leaf) (by sim_leaf)
      | str x => sim_leaf
macro_rules | `(tactic| sim_known) => `(tactic| exact sim_arraySet _ _ _)

theorem sim_arrayCreate (name : Str) (idx : List Nat) : SimM (F := F) o o' (arrayCreate name idx) := by
  unfold arrayCreate
  sim_open
  refine at_ite (by sim_leaf) ?_
  cases ArrayV.create (F := F) name idx with
  | ok a => sim_leaf
  | error e => sim_leaf
macro_rules | `(tactic| sim_known) => `(tactic| exact sim_arrayCreate _ _)

/-- `rnd` with its large constants abstracted (they must stay out of reach of
    the unifier and the kernel) -/
def rndG (big : Nat) (prodf modf : Nat → Nat) (x : F) : M F F := do
  let s ← get
  if NumOps.lt x NumOps.zero then fail .unimplemented
  else if NumOps.eq x NumOps.zero then pure (rngValue s.rng)
  else
    let prod := prodf s.rng
    if prod ≥ big then rpanic "rng: attempt to multiply with overflow"
    else
      let seed := modf prod
      set { s with rng := seed }
      pure (rngValue seed)

theorem rnd_eq (x : F) :
    rnd x = rndG (2 ^ 64) (fun r => Extracted.rngMultiplier * r + Extracted.rngIncrement)
      (fun p => p % Extracted.rngModulus) x := rfl

theorem sim_rndG (big : Nat) (prodf modf : Nat → Nat) (x : F) :
    SimM (F := F) o o' (rndG big prodf modf x) := by
  unfold rndG
  sim_open
  refine at_ite (by sim_leaf) (at_ite (by sim_leaf) (at_ite (by sim_leaf) ?_))
  exact at_bind (by sim_leaf) fun _ s s' hs => at_pure _ hs

theorem sim_rnd (x : F) : SimM (F := F) o o' (rnd x) := by
  rw [rnd_eq]; exact sim_rndG _ _ _ _
macro_rules | `(tactic| sim_known) => `(tactic| exact sim_rnd _)


/-! ### expression.rs -/

theorem sim_liftE (r : Except Err α) : SimM (F := F) o o' (liftE r) := by
  cases r with
  | ok a => exact sim_pure a
  | error e => exact sim_fail e
macro_rules | `(tactic| sim_known) => `(tactic| exact sim_liftE _)

theorem sim_lineBudget : SimM (F := F) o o' lineBudget := by
  unfold lineBudget; sim_auto
macro_rules | `(tactic| sim_known) => `(tactic| exact sim_lineBudget)

theorem sim_warn (msg : Str) : SimM (F := F) o o' (warn msg) := by
  unfold warn
  sim_open
  exact at_ite (by sim_leaf) (by sim_leaf)
macro_rules | `(tactic| sim_known) => `(tactic| exact sim_warn _)

theorem sim_warnUndeclaredArray (name : Str) : SimM (F := F) o o' (warnUndeclaredArray name) := by
  unfold warnUndeclaredArray
  sim_open
  exact at_ite (by sim_leaf) (by sim_leaf)
macro_rules | `(tactic| sim_known) => `(tactic| exact sim_warnUndeclaredArray _)

/-- both recursion points of the evaluator respect the relation -/
structure SimEv (o o' : List Out) (ev : Evals F) : Prop where
  expr : SimM o o' ev.expr
  stmt : SimM o o' ev.stmt

section
variable {ev : Evals F} (hev : SimEv o o' ev)
include hev

theorem sim_arrayIndexLoop (n : Nat) (acc : List Nat) : SimM o o' (arrayIndexLoop ev n acc) := by
  have he := hev.expr
  induction n generalizing acc with
  | zero => unfold arrayIndexLoop; exact sim_fail _
  | succ n ih =>
    unfold arrayIndexLoop
    have := fun acc => ih acc
    sim_auto

theorem sim_arrayIndex : SimM o o' (arrayIndex ev) := by
  have he := hev.expr
  have := fun n acc => sim_arrayIndexLoop hev n acc
  unfold arrayIndex; sim_auto

theorem sim_numberFunctionArg : SimM o o' (numberFunctionArg ev) := by
  have he := hev.expr
  unfold numberFunctionArg; sim_auto

theorem sim_bindArgs (arity : Nat) (args : List Str) (i : Nat) (acc : List (Str × Value F)) :
    SimM o o' (bindArgs ev arity args i acc) := by
  have he := hev.expr
  induction args generalizing i acc with
  | nil => unfold bindArgs; exact sim_pure _
  | cons a rest ih =>
    unfold bindArgs
    have := fun i acc => ih i acc
    sim_auto

end


theorem sim_get_populate {f : TErr → M F α} (hf : ∀ e, SimM o o' (f e)) (e : TErr) :
    SimM o o' (M.get >>= fun s => f (s.populate e)) := by
  constructor
  intro σ σ' h
  refine at_get_bind ?_
  have hr := h
  obtain ⟨pre, im', ho, rfl, hi⟩ := h
  have : St.populate ({ σ with out := pre ++ o', imm := im' } : St F) e = σ.populate e := rfl
  rw [this]
  exact (hf _).run _ _ hr

section
variable {ev : Evals F} (hev : SimEv o o' ev)
include hev

theorem sim_userFunctionCall (name : Str) : SimM o o' (userFunctionCall ev name) := by
  have he := hev.expr
  have hb := fun a b c d => sim_bindArgs hev a b c d
  unfold userFunctionCall
  sim_open
  cases alGet name fns with
  | none => sim_leaf
  | some d =>
    refine at_sim ?_ ⟨pre, im', ho, rfl, hi⟩
    sim_auto
    exact sim_get_populate (F := F) (o := o) (o' := o') (f := fun e => popFunctionCall >>= fun _ => M.throw e) (fun e => by sim_auto) _

theorem sim_functionCall (name : Str) : SimM o o' (functionCall ev name) := by
  have h1 := sim_numberFunctionArg hev
  have h2 := fun n => sim_userFunctionCall hev n
  unfold functionCall; sim_auto

theorem sim_term : SimM o o' (term ev) := by
  have h1 := fun n => sim_functionCall hev n
  have h2 := sim_arrayIndex hev
  unfold term
  sim_auto
  sim_open
  cases findInStack _ stack with
  | some v => sim_leaf
  | none =>
    dsimp only [getVar]
    refine at_ite ?_ ?_
    · sim_leaf
    · sim_leaf

theorem sim_parenExpr : SimM o o' (parenExpr ev) := by
  have he := hev.expr
  have h1 := sim_term hev
  unfold parenExpr; sim_auto

theorem sim_unaryExpr : SimM o o' (unaryExpr ev) := by
  have h1 := sim_parenExpr hev
  unfold unaryExpr; sim_auto

end

theorem sim_levelLoop {sub : M F (Value F)} (hsub : SimM o o' sub) (ops : Token F → Option BinOp)
    (n : Nat) (v : Value F) : SimM o o' (levelLoop sub ops n v) := by
  induction n generalizing v with
  | zero => unfold levelLoop; exact sim_fail _
  | succ n ih => unfold levelLoop; sim_auto

theorem sim_level {sub : M F (Value F)} (hsub : SimM o o' sub) (ops : Token F → Option BinOp) :
    SimM o o' (level sub ops) := by
  have := fun n v => sim_levelLoop hsub ops n v
  unfold level; sim_auto

theorem sim_exprBody {ev : Evals F} (hev : SimEv o o' ev) : SimM o o' (exprBody ev) := by
  unfold exprBody orExpr
  exact sim_nested (sim_level (sim_level (sim_level (sim_level (sim_level (sim_level
    (sim_unaryExpr hev) _) _) _) _) _) _)


/-! ### statement.rs -/

theorem sim_takeInput : SimM (F := F) o o' takeInput := by
  unfold takeInput
  sim_open
  cases input with
  | none => sim_leaf
  | some text => exact at_bind (by sim_leaf) fun _ s s' hs => at_pure _ hs
macro_rules | `(tactic| sim_known) => `(tactic| exact sim_takeInput)

theorem sim_rewindAndAwaitInput : SimM (F := F) o o' rewindAndAwaitInput := by
  unfold rewindAndAwaitInput
  refine sim_bind sim_rewindBeforeInput fun _ => sim_modify fun σ σ' h => ?_
  obtain ⟨pre, im', ho, rfl, hi⟩ := h
  exact ⟨pre, im', ho, rfl, hi⟩
macro_rules | `(tactic| sim_known) => `(tactic| exact sim_rewindAndAwaitInput)

theorem sim_breakAtCurrentLocation : SimM (F := F) o o' breakAtCurrentLocation := by
  unfold breakAtCurrentLocation
  refine sim_modify fun σ σ' h => ?_
  obtain ⟨pre, im', ho, rfl, hi⟩ := h
  exact ⟨.brk σ.loc.line :: pre, [], by simp [St.progBreak, St.setImmediate, ho], rfl, Or.inl rfl⟩
macro_rules | `(tactic| sim_known) => `(tactic| exact sim_breakAtCurrentLocation)

theorem sim_traceHere : SimM (F := F) o o' traceHere := by
  unfold traceHere
  sim_open
  refine at_ite ?_ (by sim_leaf)
  cases loc.line with
  | none => sim_leaf
  | some n => sim_leaf
macro_rules | `(tactic| sim_known) => `(tactic| exact sim_traceHere)

theorem sim_restore : SimM (F := F) o o' (M.modify fun s => { s with data := none }) := by
  refine sim_modify fun σ σ' h => ?_
  obtain ⟨pre, im', ho, rfl, hi⟩ := h
  exact ⟨pre, im', ho, rfl, hi⟩
macro_rules | `(tactic| sim_known) => `(tactic| exact sim_restore)

theorem sim_assignValue (lv : LValue) (v : Value F) : SimM (F := F) o o' (assignValue lv v) := by
  unfold assignValue; sim_auto
macro_rules | `(tactic| sim_known) => `(tactic| exact sim_assignValue _ _)

theorem sim_gotoStatement : SimM (F := F) o o' gotoStatement := by
  unfold gotoStatement; sim_auto
macro_rules | `(tactic| sim_known) => `(tactic| exact sim_gotoStatement)

theorem sim_gosubStatement : SimM (F := F) o o' gosubStatement := by
  unfold gosubStatement; sim_auto
macro_rules | `(tactic| sim_known) => `(tactic| exact sim_gosubStatement)

theorem sim_nextStatement : SimM (F := F) o o' nextStatement := by
  unfold nextStatement; sim_auto
macro_rules | `(tactic| sim_known) => `(tactic| exact sim_nextStatement)

theorem sim_defArgsLoop (n : Nat) (acc : List Str) : SimM (F := F) o o' (defArgsLoop n acc) := by
  induction n generalizing acc with
  | zero => unfold defArgsLoop; exact sim_fail _
  | succ n ih => unfold defArgsLoop; sim_auto
macro_rules | `(tactic| sim_known) => `(tactic| exact sim_defArgsLoop _ _)

theorem sim_skipToColonLoop (n : Nat) : SimM (F := F) o o' (skipToColonLoop n) := by
  induction n with
  | zero => unfold skipToColonLoop; exact sim_fail _
  | succ n ih => unfold skipToColonLoop; sim_auto
macro_rules | `(tactic| sim_known) => `(tactic| exact sim_skipToColonLoop _)

theorem sim_defStatement : SimM (F := F) o o' defStatement := by
  unfold defStatement; sim_auto
macro_rules | `(tactic| sim_known) => `(tactic| exact sim_defStatement)

section
variable {ev : Evals F} (hev : SimEv o o' ev)
include hev

theorem sim_optionalArrayIndex : SimM o o' (optionalArrayIndex ev) := by
  have h1 := sim_arrayIndex hev
  unfold optionalArrayIndex; sim_auto

theorem sim_assignmentStatement (name : Str) : SimM o o' (assignmentStatement ev name) := by
  have he := hev.expr
  have h1 := sim_optionalArrayIndex hev
  unfold assignmentStatement; sim_auto

theorem sim_letStatement : SimM o o' (letStatement ev) := by
  have h1 := fun n => sim_assignmentStatement hev n
  unfold letStatement; sim_auto

theorem sim_parseLValue : SimM o o' (parseLValue ev) := by
  have h1 := sim_optionalArrayIndex hev
  unfold parseLValue; sim_auto

theorem sim_statementOrGoto : SimM o o' (statementOrGoto ev) := by
  have h1 := sim_nested hev.stmt
  unfold statementOrGoto; sim_auto

theorem sim_ifSkipLoop (n : Nat) : SimM o o' (ifSkipLoop ev n) := by
  have h1 := sim_statementOrGoto hev
  induction n with
  | zero => unfold ifSkipLoop; exact sim_fail _
  | succ n ih => unfold ifSkipLoop; sim_auto

theorem sim_ifStatement : SimM o o' (ifStatement ev) := by
  have he := hev.expr
  have h1 := sim_statementOrGoto hev
  have h2 := fun n => sim_ifSkipLoop hev n
  unfold ifStatement; sim_auto

theorem sim_readLoop (n : Nat) : SimM o o' (readLoop ev n) := by
  have h1 := sim_parseLValue hev
  induction n with
  | zero => unfold readLoop; exact sim_fail _
  | succ n ih => unfold readLoop; sim_auto

theorem sim_readStatement : SimM o o' (readStatement ev) := by
  have h2 := fun n => sim_readLoop hev n
  unfold readStatement; sim_auto

theorem sim_inputStatement : SimM o o' (inputStatement ev) := by
  have h1 := sim_parseLValue hev
  unfold inputStatement; sim_auto

theorem sim_dimStatement : SimM o o' (dimStatement ev) := by
  have h1 := sim_parseLValue hev
  unfold dimStatement; sim_auto

theorem sim_printLoop (n : Nat) (semi : Bool) (acc : Str) : SimM o o' (printLoop ev n semi acc) := by
  have he := hev.expr
  induction n generalizing semi acc with
  | zero => unfold printLoop; exact sim_fail _
  | succ n ih => unfold printLoop; sim_auto

theorem sim_printStatement : SimM o o' (printStatement ev) := by
  have h2 := fun n a b => sim_printLoop hev n a b
  unfold printStatement; sim_auto

theorem sim_forStatement : SimM o o' (forStatement ev) := by
  have he := hev.expr
  unfold forStatement; sim_auto

theorem sim_dispatch : SimM o o' (dispatch ev) := by
  have h1 := fun n => sim_assignmentStatement hev n
  have h2 := sim_dimStatement hev
  have h3 := sim_printStatement hev
  have h4 := sim_inputStatement hev
  have h5 := sim_ifStatement hev
  have h6 := sim_forStatement hev
  have h7 := sim_readStatement hev
  have h8 := sim_letStatement hev
  unfold dispatch; sim_auto

theorem sim_stmtBody : SimM o o' (stmtBody ev) := by
  have h1 := sim_dispatch hev
  unfold stmtBody; sim_auto

end

theorem simEv_evalN (n : Nat) : SimEv (F := F) o o' (evalN n) := by
  induction n with
  | zero => exact ⟨sim_fail _, sim_fail _⟩
  | succ n ih => exact ⟨sim_exprBody ih, sim_stmtBody ih⟩

/-! ### interpreter.rs -/

theorem sim_runNextStatement (fuel : Nat) : SimM (F := F) o o' (runNextStatement fuel) := by
  have h1 := sim_stmtBody (simEv_evalN (F := F) (o := o) (o' := o') fuel)
  have h2 : SimM (F := F) o o' (M.modify fun s => { s with state := .running }) := by
    refine sim_modify fun σ σ' h => ?_
    obtain ⟨pre, im', ho, rfl, hi⟩ := h
    exact ⟨pre, im', ho, rfl, hi⟩
  have h3 : SimM (F := F) o o' returnToIdle := by
    unfold returnToIdle
    refine sim_modify fun σ σ' h => ?_
    obtain ⟨pre, im', ho, rfl, hi⟩ := h
    exact ⟨pre, im', ho, rfl, hi⟩
  unfold runNextStatement; sim_auto

theorem sim_postprocess {m : M F α} (hm : SimM o o' m) : SimM o o' (postprocess m) := by
  constructor
  intro σ σ' h
  have h1 := hm.run σ σ' h
  simp only [postprocess]
  cases r : m σ <;> cases r' : m σ' <;> rw [r, r'] at h1
  · exact h1
  · exact h1.elim
  · exact h1.elim
  · obtain ⟨rfl, pre, im', ho, rfl, hi⟩ := h1
    exact ⟨rfl, pre, im', ho, rfl, hi⟩


theorem sim_continueEvaluating (fuel : Nat) : SimM (F := F) o o' (continueEvaluating fuel) := by
  have h1 := sim_postprocess (sim_runNextStatement (F := F) (o := o) (o' := o') fuel)
  unfold continueEvaluating
  sim_open
  refine at_ite (by sim_leaf) ?_
  exact at_sim h1 ⟨pre, im', ho, rfl, hi⟩

theorem sim_provideInput (text : Str) : SimM (F := F) o o' (provideInput text) := by
  unfold provideInput
  sim_open
  exact at_ite (by sim_leaf) (by sim_leaf)

end Abasic.Proofs.Sim
