import Abasic.Proofs.ExprLemmas
import Abasic.Proofs.C12Suffix
import Abasic.Props.C18
/-
  Helper lemmas for C18Host (item 3): running the immediate line `PRINT RND(<arg>)`
  through `runNextStatement`, from an arbitrary state, for an arbitrary number carrier.

  * tokenisation of the three concrete lines;
  * `fin σ len g r` : `σ` with the cursor `len` tokens further, `r` reads, generator `g`;
  * the walk: number / negated number at `unaryExpr`, lifting through the six binary
    tiers (`lift_tiers`, the version of `ExprL.lift_level` whose final state may differ
    from the initial one in more than cursor and read counter), `nested`, the RND call,
    the PRINT statement and `runNextStatement`.
-/
set_option linter.unusedSectionVars false

namespace Abasic.Rng.Run
open Abasic M Abasic.ExprL Abasic.Props.C12 Abasic.Props.C18

variable {F : Type} [NumOps F]

/-! ### tokens of the three lines -/

theorem nextToken_num1 (c : Char) (r : Str) (z : F)
    (h1 : chompAnyKeyword (c :: r) = none) (h2 : chompOneOrTwo (c :: r) = none)
    (h3 : (c == '"') = false) (h4 : numLoop (c :: r) = ([c], r))
    (hp : NumOps.parse (F := F) [c] = some z) (hf : NumOps.isFinite z = true) :
    nextToken (F := F) (c :: r) = .tok (.num z) r := by
  unfold nextToken
  simp only [h1, h2]
  split
  · rename_i q heq
    simp only [List.cons.injEq] at heq
    rw [heq.1] at h3; cases h3
  · simp only [h4, hp, hf, if_true]

/-- the symbol token of the built-in -/
def RND : Token F := .symbol Extracted.builtinRnd.toList

theorem tokenize_rnd0 (z : F) (hp : NumOps.parse (F := F) ['0'] = some z) (hf : NumOps.isFinite z = true) :
    tokenize (F := F) "PRINT RND(0)".toList 0 =
      .ok [.kw .Print, RND, .kw .LeftParen, .num z, .kw .RightParen] := by
  rw [tokenize_iff_tokList]
  have e0 : "PRINT RND(0)".toList.length + 1 = 12 + 1 := rfl
  rw [e0]
  rw [tokList_succ_tok 12 "PRINT RND(0)".toList 'P' "RINT RND(0)".toList rfl (.kw .Print) " RND(0)".toList rfl]
  rw [tokList_succ_tok 11 " RND(0)".toList 'R' "ND(0)".toList rfl RND "(0)".toList rfl]
  rw [tokList_succ_tok 10 "(0)".toList '(' "0)".toList rfl (.kw .LeftParen) "0)".toList rfl]
  rw [tokList_succ_tok 9 "0)".toList '0' ")".toList rfl (.num z) ")".toList
    (nextToken_num1 '0' ")".toList z rfl rfl rfl rfl hp hf)]
  rw [tokList_succ_tok 8 ")".toList ')' [] rfl (.kw .RightParen) [] rfl]
  rw [tokList_succ_nil 7 [] rfl]
  rfl

theorem tokenize_rnd1 (u : F) (hp : NumOps.parse (F := F) ['1'] = some u) (hf : NumOps.isFinite u = true) :
    tokenize (F := F) "PRINT RND(1)".toList 0 =
      .ok [.kw .Print, RND, .kw .LeftParen, .num u, .kw .RightParen] := by
  rw [tokenize_iff_tokList]
  have e0 : "PRINT RND(1)".toList.length + 1 = 12 + 1 := rfl
  rw [e0]
  rw [tokList_succ_tok 12 "PRINT RND(1)".toList 'P' "RINT RND(1)".toList rfl (.kw .Print) " RND(1)".toList rfl]
  rw [tokList_succ_tok 11 " RND(1)".toList 'R' "ND(1)".toList rfl RND "(1)".toList rfl]
  rw [tokList_succ_tok 10 "(1)".toList '(' "1)".toList rfl (.kw .LeftParen) "1)".toList rfl]
  rw [tokList_succ_tok 9 "1)".toList '1' ")".toList rfl (.num u) ")".toList
    (nextToken_num1 '1' ")".toList u rfl rfl rfl rfl hp hf)]
  rw [tokList_succ_tok 8 ")".toList ')' [] rfl (.kw .RightParen) [] rfl]
  rw [tokList_succ_nil 7 [] rfl]
  rfl

theorem tokenize_rndm1 (u : F) (hp : NumOps.parse (F := F) ['1'] = some u) (hf : NumOps.isFinite u = true) :
    tokenize (F := F) "PRINT RND(-1)".toList 0 =
      .ok [.kw .Print, RND, .kw .LeftParen, .kw .Minus, .num u, .kw .RightParen] := by
  rw [tokenize_iff_tokList]
  have e0 : "PRINT RND(-1)".toList.length + 1 = 13 + 1 := rfl
  rw [e0]
  rw [tokList_succ_tok 13 "PRINT RND(-1)".toList 'P' "RINT RND(-1)".toList rfl (.kw .Print) " RND(-1)".toList rfl]
  rw [tokList_succ_tok 12 " RND(-1)".toList 'R' "ND(-1)".toList rfl RND "(-1)".toList rfl]
  rw [tokList_succ_tok 11 "(-1)".toList '(' "-1)".toList rfl (.kw .LeftParen) "-1)".toList rfl]
  rw [tokList_succ_tok 10 "-1)".toList '-' "1)".toList rfl (.kw .Minus) "1)".toList rfl]
  rw [tokList_succ_tok 9 "1)".toList '1' ")".toList rfl (.num u) ")".toList
    (nextToken_num1 '1' ")".toList u rfl rfl rfl rfl hp hf)]
  rw [tokList_succ_tok 8 ")".toList ')' [] rfl (.kw .RightParen) [] rfl]
  rw [tokList_succ_nil 7 [] rfl]
  rfl

/-! ### states -/

/-- `σ` with the cursor `len` tokens further, `r` reads, and the generator state `g` -/
def fin (σ : St F) (len g r : Nat) : St F := mv { σ with rng := g } len r

omit [NumOps F] in
theorem at_fin {σ : St F} {pre a b : List (Token F)} (h : At σ pre (a ++ b)) (g r : Nat) :
    At (fin σ a.length g r) (pre ++ a) b :=
  at_mv (σ := { σ with rng := g }) ⟨h.1, h.2⟩ r

/-! ### numbers at `unaryExpr` -/

theorem paren_num (ev : Evals F) {σ : St F} {pre rest : List (Token F)} {x : F}
    (hAt : At σ pre (.num x :: rest)) :
    parenExpr ev σ = .ok (.num x) (mv σ 1 (σ.reads + 1 + 1)) := by
  unfold parenExpr
  rw [bind_ok (accept_false hAt rfl)]
  simp only [Bool.false_eq_true, ↓reduceIte]
  unfold term
  rw [bind_ok (nextUnwrapped_eq (at_mv0 hAt _)), mv_mv]
  rfl

theorem unary_num (ev : Evals F) {σ : St F} {pre rest : List (Token F)} {x : F}
    (hAt : At σ pre (.num x :: rest)) :
    unaryExpr ev σ = .ok (.num x) (mv σ 1 (σ.reads + 1 + 1 + 1)) := by
  unfold unaryExpr
  rw [bind_ok (tryNext_none hAt (fun t ht => by
    simp only [List.head?_cons, Option.some.injEq] at ht; subst ht; rfl))]
  rw [bind_ok (paren_num ev (at_mv0 hAt _)), mv_mv]
  rfl

theorem unary_neg_num (ev : Evals F) {σ : St F} {pre rest : List (Token F)} {x : F}
    (hAt : At σ pre (.kw .Minus :: .num x :: rest)) :
    unaryExpr ev σ = .ok (.num (NumOps.neg x)) (mv σ 2 (σ.reads + 1 + 1 + 1)) := by
  unfold unaryExpr
  rw [bind_ok (tryNext_some (a := UnOp.neg) hAt rfl)]
  rw [bind_ok (paren_num ev (at_mv1 hAt _)), mv_mv]
  rfl

/-! ### through the tiers and `nested` -/

/-- `ExprL.lift_level` for a final state given as a function `τ` of the read counter -/
theorem lift_tiers (ev : Evals F) (σ : St F) (v : Value F) (τ : Nat → St F)
    (pre' rest : List (Token F)) (hE : Ends 6 rest)
    (hAt : ∀ r, At (τ r) pre' rest) (hτ : ∀ r r', mv (τ r) 0 r' = τ r')
    (h : ∃ r, unaryExpr ev σ = .ok v (τ r)) : ∃ r, orExpr ev σ = .ok v (τ r) := by
  have key : ∀ j, j ≤ 6 → ∃ r, tier ev j σ = .ok v (τ r) := by
    intro j
    induction j with
    | zero => intro _; exact h
    | succ j ih =>
      intro hj
      obtain ⟨r, hr⟩ := ih (by omega)
      refine ⟨(τ r).reads + 1, ?_⟩
      simp only [tier, level]
      rw [bind_ok hr, bind_ok (lineBudget_eq (hAt r).1),
        levelLoop_stop (hAt r) (hE.mono (by omega)), hτ]
  have := key 6 (Nat.le_refl _)
  rw [tier_six] at this
  exact this

/-- error at `unaryExpr`: every tier fails with it -/
theorem err_tiers (ev : Evals F) (σ σ' : St F) (e : TErr)
    (h : unaryExpr ev σ = .err e σ') : orExpr ev σ = .err e σ' := by
  have key : ∀ j, tier ev j σ = .err e σ' := by
    intro j
    induction j with
    | zero => exact h
    | succ j ih => simp only [tier, level]; rw [bind_err ih]
  have := key 6
  rw [tier_six] at this
  exact this

/-- the recursive entry `(evalN (f+1)).expr`, from what `unaryExpr` does one level deeper -/
theorem expr_of_unary (f : Nat) (σ : St F) (v : Value F) (len g : Nat) (pre' rest : List (Token F))
    (hn : σ.nesting < Extracted.nestingLimit) (hE : Ends 6 rest)
    (hAt : ∀ r, At (fin σ len g r) pre' rest)
    (h : ∃ r, unaryExpr (evalN f) (nest σ (σ.nesting + 1)) = .ok v (nest (fin σ len g r) (σ.nesting + 1))) :
    ∃ r, (evalN (f + 1)).expr σ = .ok v (fin σ len g r) := by
  obtain ⟨r, hr⟩ := lift_tiers (evalN f) (nest σ (σ.nesting + 1)) v
    (fun r => nest (fin σ len g r) (σ.nesting + 1)) pre' rest hE
    (fun r => at_nest (hAt r) _) (fun _ _ => rfl) h
  refine ⟨r, ?_⟩
  show nested (orExpr (evalN f)) σ = _
  exact nested_ok hn hr rfl

theorem expr_err_of_unary (f : Nat) (σ σ' : St F) (e : TErr)
    (hn : σ.nesting < Extracted.nestingLimit) (hσ' : σ'.nesting = σ.nesting + 1)
    (h : unaryExpr (evalN f) (nest σ (σ.nesting + 1)) = .err e σ') :
    (evalN (f + 1)).expr σ = .err e (nest σ' σ.nesting) := by
  show nested (orExpr (evalN f)) σ = _
  exact nested_err hn (err_tiers _ _ _ _ h) hσ'

/-- a number token as a whole expression -/
theorem expr_num (f : Nat) (σ : St F) (pre rest : List (Token F)) (x : F)
    (hn : σ.nesting < Extracted.nestingLimit) (hE : Ends 6 rest) (hAt : At σ pre (.num x :: rest)) :
    ∃ r, (evalN (f + 1)).expr σ = .ok (.num x) (mv σ 1 r) := by
  have h := expr_of_unary f σ (.num x) 1 σ.rng (pre ++ [.num x]) rest hn hE
    (fun r => at_fin (a := [.num x]) (b := rest) hAt σ.rng r)
    ⟨_, unary_num (evalN f) (at_nest hAt _)⟩
  exact h

/-- a negated number token as a whole expression -/
theorem expr_neg_num (f : Nat) (σ : St F) (pre rest : List (Token F)) (x : F)
    (hn : σ.nesting < Extracted.nestingLimit) (hE : Ends 6 rest)
    (hAt : At σ pre (.kw .Minus :: .num x :: rest)) :
    ∃ r, (evalN (f + 1)).expr σ = .ok (.num (NumOps.neg x)) (mv σ 2 r) := by
  have h := expr_of_unary f σ (.num (NumOps.neg x)) 2 σ.rng (pre ++ [.kw .Minus, .num x]) rest hn hE
    (fun r => at_fin (a := [.kw .Minus, .num x]) (b := rest) hAt σ.rng r)
    ⟨_, unary_neg_num (evalN f) (at_nest hAt _)⟩
  exact h

/-! ### the RND call -/

theorem name_not_abs : (Extracted.builtinRnd.toList == Extracted.builtinAbs.toList) = false := by decide
theorem name_not_int : (Extracted.builtinRnd.toList == Extracted.builtinInt.toList) = false := by decide

/-- the states of the walk through `RND ( arg )` -/
theorem unary_rnd_walk (ev : Evals F) (σ : St F) (pre arg rest : List (Token F)) (x : F)
    (hAt : At σ pre (RND :: .kw .LeftParen :: (arg ++ .kw .RightParen :: rest)))
    (harg : ∀ r0, ∃ r, ev.expr (mv σ 2 r0) = .ok (.num x) (mv σ (2 + arg.length) r)) :
    ∃ r, ∀ (res : Res F F) (res' : Res F (Value F)),
      rnd x (mv σ (arg.length + 3) r) = res →
      (match res with
        | .ok y s => res' = .ok (.num y) s
        | .err e s => res' = .err e s) →
      unaryExpr ev σ = res' := by
  -- unaryExpr: no unary operator
  have h1 := tryNext_none (f := UnOp.ofToken (F := F)) hAt (fun t ht => by
    simp only [List.head?_cons, Option.some.injEq] at ht; subst ht; rfl)
  have hAt1 := at_mv0 hAt (σ.reads + 1)
  generalize hs1 : mv σ 0 (σ.reads + 1) = s1 at h1 hAt1
  -- parenExpr: no parenthesis
  have h2 := accept_false (k := .LeftParen) hAt1 rfl
  have hAt2 := at_mv0 hAt1 (s1.reads + 1)
  generalize hs2 : mv s1 0 (s1.reads + 1) = s2 at h2 hAt2
  -- term: the symbol, then `(` follows
  have h3 := nextUnwrapped_eq hAt2
  have hAt3 := at_mv1 hAt2 (s2.reads + 1)
  generalize hs3 : mv s2 1 (s2.reads + 1) = s3 at h3 hAt3
  have h4 := peekIsKw_cons .LeftParen hAt3
  have hAt4 := at_mv0 hAt3 (s3.reads + 1)
  generalize hs4 : mv s3 0 (s3.reads + 1) = s4 at h4 hAt4
  -- numberFunctionArg
  have h5 := expect_eq (k := .LeftParen) hAt4 rfl
  have hAt5 := at_mv1 hAt4 (s4.reads + 1)
  generalize hs5 : mv s4 1 (s4.reads + 1) = s5 at h5 hAt5
  rw [List.append_assoc] at hAt5
  have hs5' : s5 = mv σ 2 (s4.reads + 1) := by
    subst hs5 hs4 hs3 hs2 hs1
    simp only [mv_mv]
  obtain ⟨r, h6⟩ := harg (s4.reads + 1)
  rw [← hs5'] at h6
  have hAt6 := at_mv (a := arg) (b := .kw .RightParen :: rest) hAt5 r
  have hs6' : mv s5 arg.length r = mv σ (2 + arg.length) r := by rw [hs5', mv_mv]
  rw [hs6'] at hAt6
  generalize hs6 : mv σ (2 + arg.length) r = s6 at h6 hAt6
  have h7 := expect_eq (k := .RightParen) hAt6 rfl
  have hfinal : mv s6 1 (s6.reads + 1) = mv σ (arg.length + 3) (s6.reads + 1) := by
    subst hs6
    simp only [mv_mv]
    exact mv_congr σ _ (by omega)
  rw [hfinal] at h7
  refine ⟨s6.reads + 1, ?_⟩
  intro res res' hrnd hres
  have hnfa : numberFunctionArg ev s4 = .ok x (mv σ (arg.length + 3) (s6.reads + 1)) := by
    unfold numberFunctionArg
    rw [bind_ok h5, bind_ok h6]
    simp only []
    rw [bind_ok h7]
    rfl
  have hfc : functionCall ev Extracted.builtinRnd.toList s4 =
      (match res with
        | .ok y s => .ok (some (.num y)) s
        | .err e s => .err e s) := by
    unfold functionCall
    simp only [name_not_abs, name_not_int, Bool.false_eq_true, ↓reduceIte, beq_self_eq_true]
    rw [bind_ok hnfa]
    cases res with
    | ok y s => rw [bind_ok hrnd]; rfl
    | err e s => rw [bind_err hrnd]
  have hterm : term ev s2 = res' := by
    unfold term
    rw [bind_ok h3]
    simp only [RND]
    rw [bind_ok h4]
    simp only [Token.isKw, beq_self_eq_true, ↓reduceIte]
    cases res with
    | ok y s => simp only [] at hres hfc; rw [bind_ok hfc, hres]; rfl
    | err e s => simp only [] at hres hfc; rw [bind_err hfc, hres]
  have hparen : parenExpr ev s1 = res' := by
    unfold parenExpr
    rw [bind_ok h2]
    simp only [Bool.false_eq_true, ↓reduceIte]
    exact hterm
  unfold unaryExpr
  rw [bind_ok h1]
  cases res with
  | ok y s => simp only [] at hres; rw [hres] at hparen ⊢; rw [bind_ok hparen]; rfl
  | err e s => simp only [] at hres; rw [hres] at hparen ⊢; rw [bind_err hparen]

/-- `RND(arg)` as a whole expression, when `rnd` succeeds: the value, the cursor after the
    call, the generator state `g` -/
theorem expr_rnd_ok (f : Nat) (σ : St F) (pre arg rest : List (Token F)) (x y : F) (g : Nat)
    (hn : σ.nesting < Extracted.nestingLimit) (hE : Ends 6 rest)
    (hAt : At σ pre (RND :: .kw .LeftParen :: (arg ++ .kw .RightParen :: rest)))
    (harg : ∀ s : St F, s.nesting = σ.nesting + 1 →
      At s (pre ++ [RND, .kw .LeftParen]) (arg ++ .kw .RightParen :: rest) →
      ∃ r, (evalN f).expr s = .ok (.num x) (mv s arg.length r))
    (hrnd : ∀ s : St F, s.rng = σ.rng → rnd x s = .ok y { s with rng := g }) :
    ∃ r, (evalN (f + 1)).expr σ = .ok (.num y) (fin σ (arg.length + 3) g r) := by
  have hAt' : At σ pre ((RND :: .kw .LeftParen :: (arg ++ [.kw .RightParen])) ++ rest) := by
    simpa using hAt
  have hlen : (RND (F := F) :: .kw .LeftParen :: (arg ++ [.kw .RightParen])).length = arg.length + 3 := by
    simp
  obtain ⟨r, hw⟩ := unary_rnd_walk (evalN f) (nest σ (σ.nesting + 1)) pre arg rest x (at_nest hAt _)
    (fun r0 => by
      obtain ⟨r, hr⟩ := harg (mv (nest σ (σ.nesting + 1)) 2 r0) rfl
        (at_mv (a := [RND, .kw .LeftParen]) (at_nest hAt _) r0)
      exact ⟨r, by rw [hr, mv_mv]⟩)
  refine expr_of_unary f σ (.num y) (arg.length + 3) g _ rest hn hE
    (fun r => by have := at_fin hAt' g r; rw [hlen] at this; exact this) ⟨r, ?_⟩
  exact hw _ _ (hrnd _ rfl) rfl

/-- … and when `rnd` refuses its argument: the error, generator and output untouched -/
theorem expr_rnd_err (f : Nat) (σ : St F) (pre arg rest : List (Token F)) (x : F) (e : TErr)
    (hn : σ.nesting < Extracted.nestingLimit)
    (hAt : At σ pre (RND :: .kw .LeftParen :: (arg ++ .kw .RightParen :: rest)))
    (harg : ∀ s : St F, s.nesting = σ.nesting + 1 →
      At s (pre ++ [RND, .kw .LeftParen]) (arg ++ .kw .RightParen :: rest) →
      ∃ r, (evalN f).expr s = .ok (.num x) (mv s arg.length r))
    (hrnd : ∀ s : St F, rnd x s = .err e s) :
    ∃ σ', (evalN (f + 1)).expr σ = .err e σ' ∧ σ'.rng = σ.rng ∧ σ'.out = σ.out := by
  obtain ⟨r, hw⟩ := unary_rnd_walk (evalN f) (nest σ (σ.nesting + 1)) pre arg rest x (at_nest hAt _)
    (fun r0 => by
      obtain ⟨r, hr⟩ := harg (mv (nest σ (σ.nesting + 1)) 2 r0) rfl
        (at_mv (a := [RND, .kw .LeftParen]) (at_nest hAt _) r0)
      exact ⟨r, by rw [hr, mv_mv]⟩)
  have hu := hw _ (.err e (mv (nest σ (σ.nesting + 1)) (arg.length + 3) r)) (hrnd _) rfl
  exact ⟨_, expr_err_of_unary f σ _ e hn rfl hu, rfl, rfl⟩

/-! ### the PRINT statement and `runNextStatement` -/

theorem traceHere_immediate (s : St F) (h : s.loc.line = none) : traceHere s = .ok () s := by
  unfold traceHere
  simp only [bind, M.bindM, M.get, h]
  cases s.tracing <;> rfl

theorem hasNext_eq {σ : St F} {pre post : List (Token F)} (h : At σ pre post) :
    hasNext σ = .ok post.head?.isSome (mv σ 0 (σ.reads + 1)) := by
  unfold hasNext
  rw [bind_ok (peek_eq h)]
  rfl

theorem printLoop_end (ev : Evals F) (n : Nat) (semi : Bool) (acc : Str) {s : St F} {pre : List (Token F)}
    (hAt : At s pre []) :
    printLoop ev (n + 1) semi acc s = .ok (semi, acc) (mv s 0 (s.reads + 1)) := by
  rw [printLoop, bind_ok (peek_eq hAt)]
  rfl

theorem printLoop_sym_ok (ev : Evals F) (n : Nat) {s τ : St F} {pre e' : List (Token F)} {nm : Str} {y : F}
    (hAt : At s pre (.symbol nm :: e'))
    (hexpr : ev.expr (mv s 0 (s.reads + 1)) = .ok (.num y) τ)
    (hAtτ : At τ (pre ++ .symbol nm :: e') []) :
    printLoop ev (n + 1 + 1) false [] s = .ok (false, NumOps.render y) (mv τ 0 (τ.reads + 1)) := by
  rw [printLoop, bind_ok (peek_eq hAt)]
  show ((ev.expr >>= fun v => printLoop ev (n + 1) false ([] ++ valueText v)) (mv s 0 (s.reads + 1))) = _
  rw [bind_ok hexpr, printLoop_end ev n false _ hAtτ]
  rfl

theorem printLoop_sym_err (ev : Evals F) (n : Nat) {s τ : St F} {pre e' : List (Token F)} {nm : Str} {te : TErr}
    (hAt : At s pre (.symbol nm :: e'))
    (hexpr : ev.expr (mv s 0 (s.reads + 1)) = .err te τ) :
    printLoop ev (n + 1) false [] s = .err te τ := by
  rw [printLoop, bind_ok (peek_eq hAt)]
  show ((ev.expr >>= fun v => printLoop ev n false ([] ++ valueText v)) (mv s 0 (s.reads + 1))) = _
  rw [bind_err hexpr]

theorem stmt_print_ok (ev : Evals F) {s τ : St F} {e' : List (Token F)} {nm : Str} {y : F}
    (hAt : At s [] (.kw .Print :: .symbol nm :: e')) (hline : s.loc.line = none)
    (hexpr : ev.expr (mv s 1 (s.reads + 1 + 1)) = .ok (.num y) τ)
    (hAtτ : At τ (.kw .Print :: .symbol nm :: e') []) :
    stmtBody ev s =
      .ok () { mv τ 0 (τ.reads + 1) with out := .print (NumOps.render y ++ ['\n']) :: τ.out } := by
  have hAt1 := at_mv1 hAt (s.reads + 1)
  have hl : lineToks (mv s 1 (s.reads + 1)) = some (.kw .Print :: .symbol nm :: e') := hAt.1
  have hpl := printLoop_sym_ok ev (e'.length + 1) hAt1 (by rw [mv_mv]; exact hexpr) hAtτ
  have hps : printStatement ev (mv s 1 (s.reads + 1)) =
      .ok () { mv τ 0 (τ.reads + 1) with out := .print (NumOps.render y ++ ['\n']) :: τ.out } := by
    unfold printStatement
    rw [bind_ok (lineBudget_eq hl)]
    simp only [List.length_cons]
    rw [bind_ok hpl]
    rfl
  unfold stmtBody
  rw [bind_ok (traceHere_immediate s hline)]
  unfold dispatch
  rw [bind_ok (next_eq hAt)]
  exact hps

theorem stmt_print_err (ev : Evals F) {s τ : St F} {e' : List (Token F)} {nm : Str} {te : TErr}
    (hAt : At s [] (.kw .Print :: .symbol nm :: e')) (hline : s.loc.line = none)
    (hexpr : ev.expr (mv s 1 (s.reads + 1 + 1)) = .err te τ) :
    stmtBody ev s = .err te τ := by
  have hAt1 := at_mv1 hAt (s.reads + 1)
  have hl : lineToks (mv s 1 (s.reads + 1)) = some (.kw .Print :: .symbol nm :: e') := hAt.1
  have hpl := printLoop_sym_err ev (e'.length + 1 + 1) hAt1 (by rw [mv_mv]; exact hexpr)
  have hps : printStatement ev (mv s 1 (s.reads + 1)) = .err te τ := by
    unfold printStatement
    rw [bind_ok (lineBudget_eq hl)]
    simp only [List.length_cons]
    rw [bind_err hpl]
  unfold stmtBody
  rw [bind_ok (traceHere_immediate s hline)]
  unfold dispatch
  rw [bind_ok (next_eq hAt)]
  exact hps

theorem run_print_ok (fuel : Nat) (s0 : St F) (nm : Str) (e' : List (Token F)) (y : F) (g : Nat)
    (hAt : At s0 [] (.kw .Print :: .symbol nm :: e')) (hline : s0.loc.line = none)
    (hexpr : ∀ s : St F, At s [.kw .Print] (.symbol nm :: e') → s.rng = s0.rng → s.out = s0.out →
      s.nesting = s0.nesting →
      ∃ r, (evalN fuel).expr s = .ok (.num y) (fin s (e'.length + 1) g r)) :
    ∃ σ', runNextStatement fuel s0 = .ok () σ' ∧ σ'.rng = g ∧
      σ'.out = .print (NumOps.render y ++ ['\n']) :: s0.out ∧ σ'.state = .idle := by
  have hmod : (M.modify fun s : St F => { s with state := .running }) s0 = .ok () { s0 with state := .running } := rfl
  generalize hs1 : ({ s0 with state := .running } : St F) = s1 at hmod
  have hAt1 : At s1 [] (.kw .Print :: .symbol nm :: e') := by subst hs1; exact ⟨hAt.1, hAt.2⟩
  have hhn := hasNext_eq hAt1
  have hAt2 := at_mv0 hAt1 (s1.reads + 1)
  generalize hs2 : mv s1 0 (s1.reads + 1) = s2 at hhn hAt2
  have hAt3 := at_mv1 hAt2 (s2.reads + 1 + 1)
  obtain ⟨r, hx⟩ := hexpr _ hAt3 (by subst hs2 hs1; rfl) (by subst hs2 hs1; rfl) (by subst hs2 hs1; rfl)
  have hAt3' : At (mv s2 1 (s2.reads + 1 + 1)) [.kw .Print] ((.symbol nm :: e') ++ []) := by
    rw [List.append_nil]; exact hAt3
  have hAtτ := at_fin hAt3' g r
  have hst := stmt_print_ok (evalN fuel) hAt2 (by subst hs2 hs1; exact hline) hx hAtτ
  generalize hs3 : ({ mv (fin (mv s2 1 (s2.reads + 1 + 1)) (e'.length + 1) g r) 0
      ((fin (mv s2 1 (s2.reads + 1 + 1)) (e'.length + 1) g r).reads + 1) with
      out := .print (NumOps.render y ++ ['\n']) :: (fin (mv s2 1 (s2.reads + 1 + 1)) (e'.length + 1) g r).out } : St F) = s3 at hst
  have hAt4 : At s3 (.kw .Print :: .symbol nm :: e') [] := by subst hs3; exact ⟨hAtτ.1, hAtτ.2⟩
  have hl3 : s3.loc.line = none := by subst hs3 hs2 hs1; exact hline
  have hg3 : s3.rng = g := by subst hs3; rfl
  have ho3 : s3.out = .print (NumOps.render y ++ ['\n']) :: s0.out := by subst hs3 hs2 hs1; rfl
  have hhn2 := hasNext_eq hAt4
  have hnl : nextLine (mv s3 0 (s3.reads + 1)) = .ok false (mv s3 0 (s3.reads + 1)) := by
    have : (mv s3 0 (s3.reads + 1)).loc.line = none := hl3
    unfold nextLine
    simp only [bind, M.bindM, M.get, this]
    rfl
  refine ⟨{ (mv s3 0 (s3.reads + 1)).setImmediate [] with state := .idle }, ?_, hg3, ho3, rfl⟩
  unfold runNextStatement
  rw [bind_ok hmod, bind_ok hhn]
  simp only [List.head?_cons, Option.isSome_some, ↓reduceIte]
  rw [bind_ok hst, bind_ok hhn2]
  simp only [List.head?_nil, Option.isSome_none, Bool.not_false, ↓reduceIte]
  rw [bind_ok hnl]
  rfl

theorem run_print_err (fuel : Nat) (s0 : St F) (nm : Str) (e' : List (Token F)) (te : TErr)
    (hAt : At s0 [] (.kw .Print :: .symbol nm :: e')) (hline : s0.loc.line = none)
    (hexpr : ∀ s : St F, At s [.kw .Print] (.symbol nm :: e') → s.rng = s0.rng → s.out = s0.out →
      s.nesting = s0.nesting →
      ∃ σ', (evalN fuel).expr s = .err te σ' ∧ σ'.rng = s.rng ∧ σ'.out = s.out) :
    ∃ σ', runNextStatement fuel s0 = .err te σ' ∧ σ'.rng = s0.rng ∧ σ'.out = s0.out := by
  have hmod : (M.modify fun s : St F => { s with state := .running }) s0 = .ok () { s0 with state := .running } := rfl
  generalize hs1 : ({ s0 with state := .running } : St F) = s1 at hmod
  have hAt1 : At s1 [] (.kw .Print :: .symbol nm :: e') := by subst hs1; exact ⟨hAt.1, hAt.2⟩
  have hhn := hasNext_eq hAt1
  have hAt2 := at_mv0 hAt1 (s1.reads + 1)
  generalize hs2 : mv s1 0 (s1.reads + 1) = s2 at hhn hAt2
  have hAt3 := at_mv1 hAt2 (s2.reads + 1 + 1)
  obtain ⟨σ', hx, hg, ho⟩ := hexpr _ hAt3 (by subst hs2 hs1; rfl) (by subst hs2 hs1; rfl) (by subst hs2 hs1; rfl)
  have hst := stmt_print_err (evalN fuel) hAt2 (by subst hs2 hs1; exact hline) hx
  refine ⟨σ', ?_, by rw [hg]; subst hs2 hs1; rfl, by rw [ho]; subst hs2 hs1; rfl⟩
  unfold runNextStatement
  rw [bind_ok hmod, bind_ok hhn]
  simp only [List.head?_cons, Option.isSome_some, ↓reduceIte]
  rw [bind_err hst]

/-- an immediate line that is not a command: `evaluate_impl` runs its tokens -/
theorem evaluateImpl_immediate (fuel : Nat) (line : Str) (ts : List (Token F)) (σ : St F)
    (hidle : σ.state = .idle) (hcmd : (commandWord line).bind Command.ofWord = none)
    (hnum : parseLineNumber line = none) (htok : tokenize (F := F) line 0 = .ok ts) :
    evaluateImpl fuel line σ = runNextStatement fuel ((σ.setImmediate []).setImmediate ts) := by
  simp [evaluateImpl, hidle, maybeProcessCommand, hcmd, hnum, htok,
    bind, M.bindM, M.get, M.modify, setImmediate, pure, M.pureM]

theorem at_immediate (σ : St F) (ts : List (Token F)) :
    At ((σ.setImmediate []).setImmediate ts) [] ts := ⟨rfl, rfl⟩

end Abasic.Rng.Run
