import Abasic.Proofs.Cost
/-
  Lifting the cost judgments of Cost.lean through the evaluator
  (the quantitative counterpart of Lift.lean), in states without user functions.
-/
set_option linter.unusedSectionVars false

namespace Abasic.Cost
open Abasic M Hoare

variable {F : Type} [NumOps F]

section evaluator
variable (ev : Evals F) (he : ∀ c, 3 ≤ c → ECost c (fun _ => c + 1) ev.expr)
include he

theorem cost_arrayIndexLoop (n : Nat) (acc : List Nat) (c : Nat) (hc : 3 ≤ c) :
    ECost c (fun _ => c) (arrayIndexLoop ev n acc) := by
  induction n generalizing acc c with
  | zero => unfold arrayIndexLoop; cost_tac
  | succ n ih => unfold arrayIndexLoop; cost_tac

theorem cost_arrayIndex (c : Nat) (hc : 3 ≤ c) : ECost c (fun _ => c + 20) (arrayIndex ev) := by
  unfold arrayIndex
  have := cost_arrayIndexLoop ev he
  cost_tac

theorem cost_numberFunctionArg (c : Nat) (hc : 3 ≤ c) : ECost c (fun _ => c + 20) (numberFunctionArg ev) := by
  unfold numberFunctionArg
  cost_tac

omit he in
/-- without user functions the call protocol is never entered -/
theorem cost_userFunctionCall (name : Str) (c : Nat) :
    ECost c (fun o => if o.isSome then c + 20 else c) (userFunctionCall ev name) := by
  intro σ hp
  refine ecostAt_of_eq_ok (a := none) (σ' := σ) ?_ (epost_refl σ hp (by simp))
  simp only [userFunctionCall, bind, M.bindM, M.get, hp.1, alGet]
  rfl

theorem cost_functionCall (name : Str) (c : Nat) (hc : 3 ≤ c) :
    ECost c (fun o => if o.isSome then c + 20 else c) (functionCall ev name) := by
  unfold functionCall
  have := cost_numberFunctionArg ev he
  have := cost_userFunctionCall ev
  cost_tac

theorem cost_term (c : Nat) (hc : 1 ≤ c) : ECost c (fun _ => c + 9) (term ev) := by
  unfold term
  have := cost_functionCall ev he
  have := cost_arrayIndex ev he
  cost_tac

theorem cost_parenExpr (c : Nat) (hc : 2 ≤ c) : ECost c (fun _ => c + 8) (parenExpr ev) := by
  unfold parenExpr
  have := cost_term ev he
  cost_tac

theorem cost_unaryExpr (c : Nat) (hc : 3 ≤ c) : ECost c (fun _ => c + 7) (unaryExpr ev) := by
  unfold unaryExpr
  have := cost_parenExpr ev he
  cost_tac

omit he in
theorem cost_levelLoop {sub : M F (Value F)} {k : Nat} (hs : ∀ c, 3 ≤ c → ECost c (fun _ => c + k) sub)
    (ops : Token F → Option BinOp) (n : Nat) (v : Value F) (c : Nat) (hc : 1 ≤ c) :
    ECost c (fun _ => c - 1) (levelLoop sub ops n v) := by
  induction n generalizing v c with
  | zero => unfold levelLoop; cost_tac
  | succ n ih => unfold levelLoop; cost_tac

omit he in
theorem cost_level {sub : M F (Value F)} {k : Nat} (hs : ∀ c, 3 ≤ c → ECost c (fun _ => c + (k + 1)) sub)
    (ops : Token F → Option BinOp) (c : Nat) (hc : 3 ≤ c) :
    ECost c (fun _ => c + k) (level sub ops) := by
  unfold level
  have := cost_levelLoop hs ops
  cost_tac

theorem cost_orExpr (c : Nat) (hc : 3 ≤ c) : ECost c (fun _ => c + 1) (orExpr ev) := by
  unfold orExpr
  exact cost_level (cost_level (cost_level (cost_level (cost_level (cost_level
    (cost_unaryExpr ev he) _) _) _) _) _) _ c hc

/-- (b), one level: the expression evaluator returns one credit more than it was given -/
theorem cost_exprBody (c : Nat) (hc : 3 ≤ c) : ECost c (fun _ => c + 1) (exprBody ev) := by
  unfold exprBody
  exact ecost_nested (cost_orExpr ev he c hc)

/-! ### Stmt.lean -/

theorem cost_optionalArrayIndex (c : Nat) (hc : 4 ≤ c) : ECost c (fun _ => c - 1) (optionalArrayIndex ev) := by
  unfold optionalArrayIndex
  have := cost_arrayIndex ev he
  cost_tac

theorem cost_assignmentStatement (name : Str) (c : Nat) (hc : 4 ≤ c) :
    ECost c (fun _ => c + 10) (assignmentStatement ev name) := by
  unfold assignmentStatement
  have := cost_optionalArrayIndex ev he
  cost_tac

theorem cost_letStatement (c : Nat) (hc : 1 ≤ c) : ECost c (fun _ => c) (letStatement ev) := by
  unfold letStatement
  have := cost_assignmentStatement ev he
  cost_tac

theorem cost_parseLValue (c : Nat) (hc : 1 ≤ c) : ECost c (fun _ => c + 9) (parseLValue ev) := by
  unfold parseLValue
  have := cost_optionalArrayIndex ev he
  cost_tac

omit he in
theorem cost_gotoStatement (c : Nat) (hc : 1 ≤ c) : SCost c c (gotoStatement (F := F)) := by
  unfold gotoStatement
  cost_tac

omit he in
theorem cost_gosubStatement (c : Nat) (hc : 1 ≤ c) : SCost c c (gosubStatement (F := F)) := by
  unfold gosubStatement
  cost_tac

variable (hs : ∀ c, 1 ≤ c → SCost c (c - 1) ev.stmt)
include hs

omit he in
theorem cost_statementOrGoto (c : Nat) (hc : 2 ≤ c) : SCost c (c - 2) (statementOrGoto ev) := by
  unfold statementOrGoto
  have := cost_gotoStatement (F := F)
  have hn : ∀ c, 1 ≤ c → SCost c (c - 1) (nested ev.stmt) := fun c hc => scost_nested (hs c hc)
  cost_tac

omit he in
theorem cost_ifSkipLoop (n : Nat) (c : Nat) (hc : 1 ≤ c) : SCost c (c - 1) (ifSkipLoop ev n) := by
  have := cost_statementOrGoto ev hs
  induction n generalizing c with
  | zero => unfold ifSkipLoop; cost_tac
  | succ n ih => unfold ifSkipLoop; cost_tac

theorem cost_ifStatement (c : Nat) (hc : 3 ≤ c) : SCost c c (ifStatement ev) := by
  unfold ifStatement
  have hsg := cost_statementOrGoto ev hs
  have := cost_ifSkipLoop ev hs
  have hflat : ∀ u : Unit, Flat 1 ((fun _ => do if ← peekIsKw .Else then discardRemaining) u : M F Unit) := by
    intro _
    refine flat_bind (b := 0) (peekIsKw_flat _) (fun b => ?_)
    cases b
    · exact flat_pure _ _
    · exact discardRemaining_flat
  have htrue : ∀ c, 3 ≤ c → SCost c (c - 3)
      (do statementOrGoto ev; if ← peekIsKw .Else then discardRemaining : M F Unit) :=
    fun c hc => scost_bind_flat (hsg c (by omega)) hflat (by omega)
  cost_tac

omit hs in
theorem cost_readLoop (n : Nat) (c : Nat) (hc : 1 ≤ c) : ECost c (fun _ => c) (readLoop ev n) := by
  have := cost_parseLValue ev he
  induction n generalizing c with
  | zero => unfold readLoop; cost_tac
  | succ n ih => unfold readLoop; cost_tac

omit hs in
theorem cost_readStatement (c : Nat) (hc : 1 ≤ c) : ECost c (fun _ => c) (readStatement ev) := by
  unfold readStatement
  have := cost_readLoop ev he
  cost_tac

omit hs in
theorem cost_inputStatement (c : Nat) (hc : 1 ≤ c) : SCost c c (inputStatement ev) := by
  unfold inputStatement
  have := cost_parseLValue ev he
  cost_tac

omit hs in
theorem cost_dimStatement (c : Nat) (hc : 1 ≤ c) : ECost c (fun _ => c) (dimStatement ev) := by
  unfold dimStatement
  have := cost_parseLValue ev he
  cost_tac

omit hs in
theorem cost_printLoop (n : Nat) (semi : Bool) (acc : Str) (c : Nat) (hc : 4 ≤ c) :
    ECost c (fun _ => c - 1) (printLoop ev n semi acc) := by
  induction n generalizing semi acc c with
  | zero => unfold printLoop; cost_tac
  | succ n ih =>
    unfold printLoop
    refine ecost_peek_bind (by omega) (fun t => ?_)
    cases t with
    | none => exact ecostOn_of_ecost (ecost_pure _ (Nat.le_refl _))
    | some t =>
      dsimp only
      by_cases h1 : (t.isKw .Colon || t.isKw .Else) = true
      · rw [if_pos h1]; exact ecostOn_of_ecost (ecost_pure _ (Nat.le_refl _))
      · rw [if_neg h1]
        by_cases h2 : t.isKw .Semicolon = true
        · rw [if_pos h2]
          exact ecostOn_next_bind (by omega) (ecost_tail (ih _ _ _ (by omega)) (fun _ => by omega))
        · rw [if_neg h2]
          by_cases h3 : t.isKw .Comma = true
          · rw [if_pos h3]
            exact ecostOn_next_bind (by omega) (ecost_tail (ih _ _ _ (by omega)) (fun _ => by omega))
          · rw [if_neg h3]
            refine ecostOn_of_ecost ?_
            cost_tac

omit hs in
theorem cost_printStatement (c : Nat) (hc : 4 ≤ c) : ECost c (fun _ => c - 1) (printStatement ev) := by
  unfold printStatement
  have := cost_printLoop ev he
  cost_tac

omit hs in
theorem cost_forStatement (c : Nat) (hc : 1 ≤ c) : ECost c (fun _ => c) (forStatement ev) := by
  unfold forStatement
  cost_tac

omit he hs in
theorem cost_nextStatement (c : Nat) (hc : 1 ≤ c) : SCost c c (nextStatement (F := F)) := by
  unfold nextStatement
  cost_tac

omit he hs in
theorem cost_defArgsLoop (n : Nat) (acc : List Str) (c : Nat) (hc : 2 ≤ c) :
    ECost c (fun _ => c) (defArgsLoop (F := F) n acc) := by
  induction n generalizing acc c with
  | zero => unfold defArgsLoop; cost_tac
  | succ n ih => unfold defArgsLoop; cost_tac

omit he hs in
/-- DEF: the header is amortised; defining the function changes the function table, after which the
    body is skipped at one read per token -/
theorem cost_defTail (fname : Str) (args : List Str) (b : Nat) (c : Nat) (hc : 1 ≤ c) :
    SCost c (c - 1) (do defineFunction fname args; skipToColonLoop (F := F) b) := by
  intro σ hp
  have hskip : ∀ s : St F, s.reads = σ.reads → tlen s = tlen σ → s.loc.idx = σ.loc.idx →
      (skipToColonLoop b s).final.reads + (c - 1) ≤ SBound c σ := by
    intro s h1 h2 h3
    have := skipToColonLoop_reads b s
    rw [h1, h2, h3] at this
    unfold SBound
    omega
  have hfinal : ∀ r : Res F Unit, r.final.reads + (c - 1) ≤ SBound c σ →
      (∀ a σ', r = .ok a σ' → σ'.reads + (c - 1) ≤ SBound c σ) ∧ (∀ e σ', r = .err e σ' → σ'.reads ≤ SBound c σ) := by
    intro r hr
    constructor
    · intro a s' h'; rw [h'] at hr; exact hr
    · intro e s' h'; rw [h'] at hr; simp only [Res.final] at hr; omega
  show SCostAt c (c - 1) (M.bindM (defineFunction fname args) fun _ => skipToColonLoop b) σ
  unfold SCostAt M.bindM defineFunction
  simp only [bind, M.bindM, M.get]
  cases hl : σ.loc.line with
  | none =>
    apply hfinal
    show σ.reads + (c - 1) ≤ SBound c σ
    unfold SBound; omega
  | some n =>
    apply hfinal
    exact hskip _ rfl (by unfold tlen toks; simp only [hl]) rfl

omit he hs in
theorem cost_defStatement (c : Nat) (hc : 1 ≤ c) : SCost c (c - 1) (defStatement (F := F)) := by
  unfold defStatement
  have := cost_defArgsLoop (F := F)
  have := cost_defTail (F := F)
  cost_tac

/-- (c), one level: `dispatch` -/
theorem cost_dispatch (c : Nat) (hc : 1 ≤ c) : SCost c (c - 1) (dispatch ev) := by
  unfold dispatch
  have := cost_assignmentStatement ev he
  have := cost_dimStatement ev he
  have := cost_printStatement ev he
  have := cost_inputStatement ev he
  have := cost_ifStatement ev he hs
  have := cost_gotoStatement (F := F)
  have := cost_gosubStatement (F := F)
  have := cost_forStatement ev he
  have := cost_nextStatement (F := F)
  have := cost_defStatement (F := F)
  have := cost_readStatement ev he
  have := cost_letStatement ev he
  cost_tac

theorem cost_stmtBody (c : Nat) (hc : 1 ≤ c) : SCost c (c - 1) (stmtBody ev) := by
  unfold stmtBody
  have := cost_dispatch ev he hs
  cost_tac

end evaluator

/-- The knot: (b) `expr_cost` and (c) `stmt_cost` at every fuel level. -/
theorem cost_evalN (n : Nat) :
    (∀ c, 3 ≤ c → ECost c (fun _ => c + 1) (evalN (F := F) n).expr) ∧
    (∀ c, 1 ≤ c → SCost c (c - 1) (evalN (F := F) n).stmt) := by
  induction n with
  | zero => exact ⟨fun _ _ => ecost_fail _, fun _ _ => scost_fail _⟩
  | succ n ih => exact ⟨cost_exprBody _ ih.1, cost_stmtBody _ ih.1 ih.2⟩

end Abasic.Cost
