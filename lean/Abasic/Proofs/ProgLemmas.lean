import Abasic.Ref.Prog
import Abasic.Proofs.StmtLemmas
import Abasic.Proofs.ErrKeep
import Abasic.Props.C09
import Abasic.Props.C04
/-
  Lemmas for the program-level refinement (Props/C03Prog.lean):
  the store of a compiled program, where a statement stands on its line,
  and what a turn (`runNextStatement`) does around its one statement.
-/
set_option linter.unusedSectionVars false

namespace Abasic.ProgL
open Abasic Abasic.Ref Abasic.ExprL Abasic.StmtL M

variable {F : Type}

/-! ### the store of a compiled program -/

section store
variable [NumOps F]

theorem compile_get (p : RProgram F) (n : Nat) :
    (compileP p).get n = (p.line n).map renderLine := by
  unfold Lines.get compileP
  induction p with
  | nil => rfl
  | cons l rest ih =>
    obtain ⟨k, ss⟩ := l
    simp only [List.map_cons, Lines.getMap, RProgram.line]
    by_cases h : (k == n) = true
    · simp only [h, ↓reduceIte, Option.map_some]
    · simp only [h, Bool.false_eq_true, ↓reduceIte]
      exact ih

theorem compile_has (p : RProgram F) (n : Nat) : (compileP p).has n = p.hasLine n := by
  unfold Lines.has RProgram.hasLine
  rw [compile_get]
  cases p.line n <;> rfl

theorem afterList_find (n : Nat) (l : List Nat) :
    Lines.afterList n l = l.find? (fun k => decide (n < k)) := by
  induction l with
  | nil => rfl
  | cons k ks ih =>
    simp only [Lines.afterList, List.find?_cons]
    by_cases h : n < k
    · simp only [h, ↓reduceIte, decide_true]
    · simp only [h, ↓reduceIte, decide_false]
      exact ih

theorem compile_after (p : RProgram F) (n : Nat) : (compileP p).after n = p.after n := by
  unfold Lines.after RProgram.after
  exact afterList_find n _

theorem compile_first (p : RProgram F) : (compileP p).first = p.first := by
  unfold Lines.first RProgram.first compileP
  cases p <;> rfl

theorem line_mem {p : RProgram F} {n : Nat} {ss : List (RStmt F)} (h : p.line n = some ss) :
    (n, ss) ∈ p := by
  induction p with
  | nil => simp [RProgram.line] at h
  | cons l rest ih =>
    obtain ⟨k, ss'⟩ := l
    simp only [RProgram.line] at h
    by_cases hk : (k == n) = true
    · simp only [hk, ↓reduceIte, Option.some.injEq] at h
      have : k = n := by simpa using hk
      subst this; subst h
      exact List.mem_cons_self
    · simp only [hk, Bool.false_eq_true, ↓reduceIte] at h
      exact List.mem_cons_of_mem _ (ih h)

theorem mem_line {p : RProgram F} {n : Nat} (h : n ∈ p.map (·.1)) : ∃ ss, p.line n = some ss := by
  induction p with
  | nil => simp at h
  | cons l rest ih =>
    obtain ⟨k, ss'⟩ := l
    simp only [RProgram.line]
    by_cases hk : (k == n) = true
    · exact ⟨ss', by simp only [hk, ↓reduceIte]⟩
    · simp only [hk, Bool.false_eq_true, ↓reduceIte]
      apply ih
      simp only [List.map_cons, List.mem_cons] at h
      rcases h with h | h
      · exact absurd (by simpa using h.symm) hk
      · exact h

theorem after_line {p : RProgram F} {n m : Nat} (h : p.after n = some m) : ∃ ss, p.line m = some ss :=
  mem_line (List.mem_of_find?_eq_some h)

theorem first_line {p : RProgram F} {n : Nat} (h : p.first = some n) : ∃ ss, p.line n = some ss := by
  apply mem_line
  unfold RProgram.first at h
  cases p with
  | nil => simp at h
  | cons l rest =>
    simp only [List.head?_cons, Option.map_some, Option.some.injEq] at h
    simp [h]


/-- the store holds exactly the lines of `p`: the token map answers with the
    rendered lines and the ordered index lists the line numbers.  It does not
    matter in which order the lines were entered (`holds_of_wf`, `holds_load`). -/
structure Holds (l : Lines F) (p : RProgram F) : Prop where
  get : ∀ n, l.get n = (p.line n).map renderLine
  sorted : l.sorted = p.map (·.1)

theorem holds_compile (p : RProgram F) : Holds (compileP p) p := ⟨compile_get p, rfl⟩

theorem holds_has {l : Lines F} {p : RProgram F} (h : Holds l p) (n : Nat) : l.has n = p.hasLine n := by
  unfold Lines.has RProgram.hasLine
  rw [h.get]
  cases p.line n <;> rfl

theorem holds_after {l : Lines F} {p : RProgram F} (h : Holds l p) (n : Nat) : l.after n = p.after n := by
  unfold Lines.after RProgram.after
  rw [h.sorted]
  exact afterList_find n _

theorem holds_first {l : Lines F} {p : RProgram F} (h : Holds l p) : l.first = p.first := by
  unfold Lines.first RProgram.first
  rw [h.sorted]
  cases p <;> rfl

theorem mem_keys_iff (p : RProgram F) (n : Nat) : n ∈ p.map (·.1) ↔ (p.line n).isSome = true := by
  constructor
  · intro h
    obtain ⟨ss, hss⟩ := mem_line h
    rw [hss]; rfl
  · intro h
    cases hl : p.line n with
    | none => rw [hl] at h; cases h
    | some ss => exact List.mem_map.mpr ⟨(n, ss), line_mem hl, rfl⟩

/-- a well-formed store (both indexes agree, C04) whose token map answers with
    the lines of an ascending program holds that program -/
theorem holds_of_wf {l : Lines F} {p : RProgram F} (hl : Props.C04.WF l) (hp : p.WF)
    (hget : ∀ n, l.get n = (p.line n).map renderLine) : Holds l p := by
  refine ⟨hget, Lines.sorted_ext _ _ hl.sorted hp.ascending fun n => ?_⟩
  rw [hl.agree n, hget n, mem_keys_iff]
  cases p.line n <;> rfl

theorem renderLine_ne_nil {ss : List (RStmt F)} (h : ss ≠ []) : (renderLine ss).isEmpty = false := by
  cases ss with
  | nil => exact absurd rfl h
  | cons a rest =>
    obtain ⟨k, ts, hk⟩ := renderS_head a
    rw [renderLine, hk]; rfl

theorem line_none_of_lt {p : RProgram F} {a : Nat} (h : ∀ k ∈ p.map (·.1), a < k) : p.line a = none := by
  cases hl : p.line a with
  | none => rfl
  | some ss =>
    have := h a (List.mem_map.mpr ⟨(a, ss), line_mem hl, rfl⟩)
    omega

/-- entering the lines of an ascending program one after the other, as a finite map -/
theorem load_spec : ∀ (p : RProgram F) (m : Props.C04.Spec F),
    (p.map (·.1)).Pairwise (· < ·) → (∀ l ∈ p, l.2 ≠ []) →
    (p.map fun e => (e.1, renderLine e.2)).foldl (fun m e => Props.C04.Spec.edit m e.1 e.2) m =
      fun k => match p.line k with | some ss => some (renderLine ss) | none => m k
  | [], m, _, _ => rfl
  | (a, ss) :: rest, m, hasc, hne => by
    have hasc' : (∀ k ∈ rest.map (·.1), a < k) ∧ (rest.map (·.1)).Pairwise (· < ·) :=
      List.pairwise_cons.mp hasc
    simp only [List.map_cons, List.foldl_cons]
    rw [load_spec rest _ hasc'.2 (fun l hl => hne l (List.mem_cons_of_mem _ hl))]
    funext k
    simp only [RProgram.line]
    by_cases hk : (a == k) = true
    · have : a = k := by simpa using hk
      subst this
      rw [line_none_of_lt hasc'.1]
      simp only [hk, ↓reduceIte, Props.C04.Spec.edit,
        renderLine_ne_nil (hne (a, ss) List.mem_cons_self), Bool.false_eq_true]
    · simp only [hk, Bool.false_eq_true, ↓reduceIte]
      cases RProgram.line rest k with
      | some ss' => rfl
      | none =>
        have : ¬ k = a := fun h => hk (by simp [h])
        simp only [Props.C04.Spec.edit, this, ↓reduceIte]

/-- **The store after the lines of `p` have been typed in** (in program order,
    into an empty store, with `Lines.set` as `evaluateImpl` does for a numbered
    line) holds `p`. -/
theorem holds_load (p : RProgram F) (hp : p.WF) :
    Holds ((p.map fun e => (e.1, renderLine e.2)).foldl (fun l e => l.set e.1 e.2) ({} : Lines F)) p := by
  refine holds_of_wf (Props.C04.wf_reachable _) hp fun n => ?_
  have := congrFun (Props.C04.store_refines (p.map fun e => (e.1, renderLine e.2)) ({} : Lines F)) n
  rw [this, load_spec p _ hp.ascending hp.nonempty]
  show (match p.line n with | some ss => some (renderLine ss) | none => _) = _
  cases p.line n <;> rfl

end store

/-! ### where a statement stands on its line -/

section position
variable [NumOps F]

/-- the tokens in front of statement `j` of a line -/
def preToks : List (RStmt F) → Nat → List (Token F)
  | _, 0 => []
  | [], _ + 1 => []
  | s :: rest, j + 1 => renderS s ++ .kw .Colon :: preToks rest j

theorem renderTail_cons (s : RStmt F) (rest : List (RStmt F)) :
    renderTail (s :: rest) = .kw .Colon :: renderLine (s :: rest) := rfl

/-- a line is: what stands in front of statement `j`, the statement, `: …` -/
theorem line_split : ∀ (ss : List (RStmt F)) (j : Nat) (s : RStmt F), ss[j]? = some s →
    renderLine ss = preToks ss j ++ (renderS s ++ renderTail (ss.drop (j + 1)))
  | [], j, s, h => by simp at h
  | a :: rest, 0, s, h => by
    simp only [List.getElem?_cons_zero, Option.some.injEq] at h
    subst h
    simp only [preToks, List.nil_append, renderLine, Nat.zero_add, List.drop_succ_cons, List.drop_zero]
  | a :: rest, j + 1, s, h => by
    simp only [List.getElem?_cons_succ] at h
    have ih := line_split rest j s h
    cases rest with
    | nil => simp at h
    | cons b rest' =>
      simp only [renderLine, preToks, renderTail_cons, List.drop_succ_cons, List.append_assoc,
        List.cons_append] at ih ⊢
      rw [← ih]

/-- the next statement stands one colon further -/
theorem preToks_succ : ∀ (ss : List (RStmt F)) (j : Nat) (s : RStmt F), ss[j]? = some s → j + 1 < ss.length →
    preToks ss (j + 1) = preToks ss j ++ renderS s ++ [.kw .Colon]
  | [], j, s, h, _ => by simp at h
  | a :: rest, 0, s, h, _ => by
    simp only [List.getElem?_cons_zero, Option.some.injEq] at h
    subst h
    simp only [preToks, List.nil_append]
  | a :: rest, j + 1, s, h, hl => by
    simp only [List.getElem?_cons_succ] at h
    have ih := preToks_succ rest j s h (by simpa using hl)
    simp only [preToks, ih, List.append_assoc, List.cons_append]

theorem drop_tail_nil {ss : List (RStmt F)} {j : Nat} (h : ¬ j + 1 < ss.length) :
    renderTail (ss.drop (j + 1)) = [] := by
  rw [List.drop_eq_nil_of_le (by omega)]
  rfl

theorem drop_tail_cons {ss : List (RStmt F)} {j : Nat} (h : j + 1 < ss.length) :
    ∃ s' post, ss[j + 1]? = some s' ∧ renderTail (ss.drop (j + 1)) = .kw .Colon :: (renderS s' ++ post) := by
  have : ss.drop (j + 1) = ss[j + 1] :: ss.drop (j + 1 + 1) := List.drop_eq_getElem_cons h
  refine ⟨ss[j + 1], renderTail (ss.drop (j + 1 + 1)), by simp [h], ?_⟩
  rw [this]
  rfl

/-- a statement begins with a keyword other than ELSE and `:` -/
theorem renderS_head' (s : RStmt F) : ∃ k ts, renderS s = .kw k :: ts ∧ k ≠ .Else ∧ k ≠ .Colon := by
  match s with
  | .letS _ _ => exact ⟨_, _, by rw [renderS], by decide, by decide⟩
  | .printS _ => exact ⟨_, _, by rw [renderS], by decide, by decide⟩
  | .gotoS _ => exact ⟨_, _, by rw [renderS], by decide, by decide⟩
  | .endS => exact ⟨_, _, by rw [renderS], by decide, by decide⟩
  | .ifS _ _ none => exact ⟨_, _, by rw [renderS], by decide, by decide⟩
  | .ifS _ _ (some _) => exact ⟨_, _, by rw [renderS], by decide, by decide⟩

end position

/-! ### a turn around its statement -/

section turn
variable [NumOps F]
open Abasic.Props

theorem bind_assoc' {α β γ : Type} (m : M F α) (g : α → M F β) (k : β → M F γ) (σ : St F) :
    ((m >>= g) >>= k) σ = (m >>= fun a => g a >>= k) σ := by
  show M.bindM (M.bindM m g) k σ = M.bindM m (fun a => M.bindM (g a) k) σ
  unfold M.bindM
  cases m σ <;> rfl

theorem hasNext_cons {σ : St F} {pre post : List (Token F)} {t : Token F} (h : At σ pre (t :: post)) :
    hasNext σ = .ok true (mv σ 0 (σ.reads + 1)) := by
  unfold hasNext
  rw [bind_ok (peek_eq h)]
  rfl

theorem hasNext_nil {σ : St F} {pre : List (Token F)} (h : At σ pre []) :
    hasNext σ = .ok false (mv σ 0 (σ.reads + 1)) := by
  unfold hasNext
  rw [bind_ok (peek_eq h)]
  rfl

/-- tokens left on the line: the turn ends where it is -/
theorem sequence_more {σ : St F} {pre post : List (Token F)} {t : Token F} (h : At σ pre (t :: post)) :
    C09.sequence σ = .ok () (mv σ 0 (σ.reads + 1)) := by
  unfold C09.sequence
  rw [bind_ok (hasNext_cons h)]
  rfl

/-- end of line, a greater line number exists: the turn ends at its start -/
theorem sequence_line {σ : St F} {pre : List (Token F)} {n m : Nat} (h : At σ pre [])
    (hl : σ.loc.line = some n) (ha : σ.lines.after n = some m) :
    C09.sequence σ = .ok () { mv σ 0 (σ.reads + 1) with loc := { line := some m, idx := 0 } } := by
  have hn : nextLine (mv σ 0 (σ.reads + 1)) =
      .ok true { mv σ 0 (σ.reads + 1) with loc := { line := some m, idx := 0 } } := by
    have hl' : (mv σ 0 (σ.reads + 1)).loc.line = some n := hl
    have ha' : (mv σ 0 (σ.reads + 1)).lines.after n = some m := ha
    simp only [nextLine, bind, M.bindM, M.get, hl', ha', M.set, pure, M.pureM]
  unfold C09.sequence
  rw [bind_ok (hasNext_nil h)]
  show (nextLine >>= fun b => if (!b) = true then _ else pure ()) _ = _
  rw [bind_ok hn]
  rfl

/-- the state a program ends in -/
def ended (σ : St F) : St F := { σ.setImmediate [] with state := .idle }

/-- end of the last line: the interpreter falls idle -/
theorem sequence_last {σ : St F} {pre : List (Token F)} {n : Nat} (h : At σ pre [])
    (hl : σ.loc.line = some n) (ha : σ.lines.after n = none) :
    C09.sequence σ = .ok () (ended (mv σ 0 (σ.reads + 1))) := by
  have hn : nextLine (mv σ 0 (σ.reads + 1)) = .ok false (mv σ 0 (σ.reads + 1)) := by
    have hl' : (mv σ 0 (σ.reads + 1)).loc.line = some n := hl
    have ha' : (mv σ 0 (σ.reads + 1)).lines.after n = none := ha
    simp only [nextLine, bind, M.bindM, M.get, hl', ha', pure, M.pureM]
  unfold C09.sequence
  rw [bind_ok (hasNext_nil h)]
  show (nextLine >>= fun b => if (!b) = true then _ else pure ()) _ = _
  rw [bind_ok hn]
  rfl

/-- after END (cursor on the emptied immediate line): the interpreter falls idle -/
theorem sequence_imm {σ : St F} (hl : σ.loc = {}) (hi : σ.imm = []) :
    C09.sequence σ = .ok () (ended (mv σ 0 (σ.reads + 1))) := by
  have hAt : At σ [] [] := by
    refine ⟨?_, by rw [hl]; rfl⟩
    unfold lineToks
    rw [hl, hi]
    rfl
  have hn : nextLine (mv σ 0 (σ.reads + 1)) = .ok false (mv σ 0 (σ.reads + 1)) := by
    have hl' : (mv σ 0 (σ.reads + 1)).loc.line = none := by rw [mv_line, hl]
    simp only [nextLine, bind, M.bindM, M.get, hl', pure, M.pureM]
  unfold C09.sequence
  rw [bind_ok (hasNext_nil hAt)]
  show (nextLine >>= fun b => if (!b) = true then _ else pure ()) _ = _
  rw [bind_ok hn]
  rfl

/-- a turn with a token under the cursor: mark running, one statement, sequencing -/
theorem rns_eq (fuel : Nat) (σ : St F) {pre post : List (Token F)} {t : Token F}
    (h : At σ pre (t :: post)) :
    runNextStatement fuel σ =
      (stmtBody (evalN fuel) >>= fun _ => C09.sequence) (mv { σ with state := .running } 0 (σ.reads + 1)) := by
  have hm : (M.modify fun s : St F => { s with state := .running }) σ = .ok () { σ with state := .running } := rfl
  have h' : At { σ with state := .running } pre (t :: post) := h
  rw [C09.turn_anatomy]
  rw [bind_ok hm, bind_ok (hasNext_cons h')]
  rfl

end turn

/-! ### the invariant of a running program and where a step lands -/

section core
variable [NumOps F]
open Abasic.Props

/-- the program fits the evaluator's resources and the coverage of the statement theorems -/
structure Fits (p : RProgram F) (fuel : Nat) : Prop where
  wf : p.WF
  covered : ∀ l ∈ p, ∀ s ∈ l.2, s.Covered
  depth : ∀ l ∈ p, ∀ s ∈ l.2, sdepth s ≤ fuel ∧ sdepth s ≤ Extracted.nestingLimit

/-- what the model state shares with the reference state, cursor and run state apart -/
structure Core (p : RProgram F) (vs : List (Str × Value F)) (os : List Str) (σ : St F) : Prop where
  lines : Holds σ.lines p
  vars : σ.vars = vs
  out : σ.out = outRecs os
  stack : σ.stack = []
  warnings : σ.warnings = false
  tracing : σ.tracing = false
  nesting : σ.nesting = 0
  fns : σ.fns = []

/-- where the model stands when the reference machine is at `pc`: idle after the
    end; otherwise running, on the line, at its start or — for a statement that
    is not the first of its line — on the colon in front of it -/
def Landed (p : RProgram F) (pc : Option (Nat × Nat)) (σ : St F) : Prop :=
  match pc with
  | none => σ.state = .idle
  | some (n, j) => σ.state = .running ∧ ∃ ss, p.line n = some ss ∧ j < ss.length ∧
      σ.loc.line = some n ∧
      (if j = 0 then σ.loc.idx = 0 else σ.loc.idx + 1 = (preToks ss j).length)

theorem outRecs_append (a b : List Str) : outRecs (a ++ b) = outRecs b ++ outRecs a := by
  simp only [outRecs, List.map_append, List.reverse_append]

theorem line_nonempty {p : RProgram F} (hwf : p.WF) {n : Nat} {ss : List (RStmt F)} (h : p.line n = some ss) :
    0 < ss.length := by
  have := hwf.nonempty _ (line_mem h)
  cases ss with
  | nil => exact absurd rfl this
  | cons _ _ => simp

theorem line_head {p : RProgram F} (hwf : p.WF) {n : Nat} {ss : List (RStmt F)} (h : p.line n = some ss) :
    ∃ k ts, renderLine ss = .kw k :: ts ∧ k ≠ .Else := by
  have := hwf.nonempty _ (line_mem h)
  cases ss with
  | nil => exact absurd rfl this
  | cons a rest =>
    obtain ⟨k, ts, hk, hne, _⟩ := renderS_head' a
    exact ⟨k, ts ++ renderTail rest, by rw [renderLine, hk]; rfl, hne⟩

theorem noElse_compile {p : RProgram F} (hwf : p.WF) {σ : St F} (h : Holds σ.lines p) : NoElseLine σ := by
  intro n ts hg t ht
  rw [h.get] at hg
  cases hl : p.line n with
  | none => rw [hl] at hg; cases hg
  | some ss =>
    rw [hl] at hg
    simp only [Option.map_some, Option.some.injEq] at hg
    obtain ⟨k, ts', hk, hne⟩ := line_head hwf hl
    rw [← hg, hk] at ht
    simp only [List.head?_cons, Option.some.injEq] at ht
    subst ht
    show (Kw.Else == k) = false
    simp only [beq_eq_false_iff_ne, ne_eq]
    exact fun h => hne h.symm

/-- at the end of a line the turn moves to the next greater line, or the program ends -/
theorem land_eol {p : RProgram F} (hwf : p.WF) {vs : List (Str × Value F)} {os : List Str} {σ : St F}
    {pre : List (Token F)} {n : Nat} (hc : Core p vs os σ) (hrun : σ.state = .running)
    (hAt : At σ pre []) (hl : σ.loc.line = some n) :
    ∃ σ', C09.sequence σ = .ok () σ' ∧ Core p vs os σ' ∧ Landed p ((p.after n).map fun m => (m, 0)) σ' := by
  cases ha : p.after n with
  | none =>
    refine ⟨_, sequence_last hAt hl (by rw [holds_after hc.lines, ha]), ?_, rfl⟩
    exact ⟨hc.lines, hc.vars, hc.out,
      by show (if _ then [] else σ.stack) = []; rw [hc.stack]; exact ite_self _,
      hc.warnings, hc.tracing, hc.nesting, hc.fns⟩
  | some m =>
    refine ⟨_, sequence_line hAt hl (by rw [holds_after hc.lines, ha]), ?_, ?_⟩
    · exact ⟨hc.lines, hc.vars, hc.out, hc.stack, hc.warnings, hc.tracing, hc.nesting, hc.fns⟩
    · obtain ⟨ss', hss'⟩ := after_line ha
      exact ⟨hrun, ss', hss', line_nonempty hwf hss', rfl, rfl⟩

/-! ### the reference step, case by case -/

section rstep
variable {p : RProgram F} {r : RState F} {n j : Nat} {ss : List (RStmt F)} {s : RStmt F}

theorem rstep_next (hpc : r.pc = some (n, j)) (hl : p.line n = some ss) (hs : ss[j]? = some s)
    (hctl : (RStmt.exec r.vars s).ctl = .next) :
    RStep p r = .inl { vars := (RStmt.exec r.vars s).vars, out := r.out ++ (RStmt.exec r.vars s).out,
                       pc := if j + 1 < ss.length then some (n, j + 1) else (p.after n).map fun m => (m, 0) } := by
  simp only [RStep, hpc, hl, hs, hctl]

theorem rstep_skip (hpc : r.pc = some (n, j)) (hl : p.line n = some ss) (hs : ss[j]? = some s)
    (hctl : (RStmt.exec r.vars s).ctl = .skipLine) :
    RStep p r = .inl { vars := (RStmt.exec r.vars s).vars, out := r.out ++ (RStmt.exec r.vars s).out,
                       pc := (p.after n).map fun m => (m, 0) } := by
  simp only [RStep, hpc, hl, hs, hctl]

theorem rstep_jump {m : Nat} (hpc : r.pc = some (n, j)) (hl : p.line n = some ss) (hs : ss[j]? = some s)
    (hctl : (RStmt.exec r.vars s).ctl = .jump m) (hh : p.hasLine m = true) :
    RStep p r = .inl { vars := (RStmt.exec r.vars s).vars, out := r.out ++ (RStmt.exec r.vars s).out,
                       pc := some (m, 0) } := by
  simp only [RStep, hpc, hl, hs, hctl, hh, ↓reduceIte]

theorem rstep_jump_missing {m : Nat} (hpc : r.pc = some (n, j)) (hl : p.line n = some ss) (hs : ss[j]? = some s)
    (hctl : (RStmt.exec r.vars s).ctl = .jump m) (hh : p.hasLine m = false) :
    RStep p r = .inr (.undefinedStatement, n) := by
  simp only [RStep, hpc, hl, hs, hctl, hh, Bool.false_eq_true, ↓reduceIte]

theorem rstep_stop (hpc : r.pc = some (n, j)) (hl : p.line n = some ss) (hs : ss[j]? = some s)
    (hctl : (RStmt.exec r.vars s).ctl = .stop) :
    RStep p r = .inl { vars := (RStmt.exec r.vars s).vars, out := r.out ++ (RStmt.exec r.vars s).out,
                       pc := none } := by
  simp only [RStep, hpc, hl, hs, hctl]

theorem rstep_error {x : Err} (hpc : r.pc = some (n, j)) (hl : p.line n = some ss) (hs : ss[j]? = some s)
    (hctl : (RStmt.exec r.vars s).ctl = .error x) :
    RStep p r = .inr (x, n) := by
  simp only [RStep, hpc, hl, hs, hctl]

end rstep

/-! ### one turn on a statement -/

/-- the outcome `res` of a turn from `σ` against the outcome of a reference step -/
def StepsTo (p : RProgram F) (res : Res F Unit) (σ : St F) : RState F ⊕ (Err × Nat) → Prop
  | .inl r' => ∃ σ', res = .ok () σ' ∧ Core p r'.vars r'.out σ' ∧ Landed p r'.pc σ'
  | .inr (e, ln) => ∃ σ', res = .err { err := e } σ' ∧ σ'.loc.line = some ln ∧ σ'.out = σ.out

/-- **A turn with the cursor on a statement is one reference step.** -/
theorem rns_stmt {p : RProgram F} {fuel : Nat} (hfit : Fits p fuel) {r : RState F} {σ : St F}
    (hc : Core p r.vars r.out σ) {n j : Nat} {ss : List (RStmt F)} {s : RStmt F}
    (hpc : r.pc = some (n, j)) (hl : p.line n = some ss) (hs : ss[j]? = some s)
    (hloc : σ.loc = { line := some n, idx := (preToks ss j).length }) :
    StepsTo p (runNextStatement fuel σ) σ (RStep p r) := by
  have hmem := line_mem hl
  have hsmem : s ∈ ss := List.mem_of_getElem? hs
  have hcov := hfit.covered _ hmem s hsmem
  obtain ⟨hdf, hdn⟩ := hfit.depth _ hmem s hsmem
  have hjl : j < ss.length := by
    rcases Nat.lt_or_ge j ss.length with h | h
    · exact h
    · rw [List.getElem?_eq_none h] at hs; cases hs
  have hsplit := line_split ss j s hs
  -- the state the statement starts in
  have hToks : lineToks (mv { σ with state := .running } 0 (σ.reads + 1)) =
      some (preToks ss j ++ (renderS s ++ renderTail (ss.drop (j + 1)))) := by
    show (match σ.loc.line with | none => some σ.imm | some n => σ.lines.get n) = _
    rw [hloc]
    show σ.lines.get n = _
    rw [hc.lines.get, hl, ← hsplit]
    rfl
  have hAt : At (mv { σ with state := .running } 0 (σ.reads + 1)) (preToks ss j)
      (renderS s ++ renderTail (ss.drop (j + 1))) :=
    ⟨hToks, by show σ.loc.idx + 0 = _; rw [hloc]; rfl⟩
  have hq : Quiet (mv { σ with state := .running } 0 (σ.reads + 1)) := ⟨hc.stack, hc.warnings⟩
  have hNE : NoElseLine (mv { σ with state := .running } 0 (σ.reads + 1)) := noElse_compile hfit.wf hc.lines
  have hLE : LineEnd (renderTail (ss.drop (j + 1))) := by
    by_cases hj : j + 1 < ss.length
    · obtain ⟨s', post, _, htl⟩ := drop_tail_cons hj
      rw [htl]
      intro t ht
      simp only [List.head?_cons, Option.some.injEq] at ht
      exact ht.symm
    · rw [drop_tail_nil hj]
      intro t ht
      cases ht
  have hnest : (mv { σ with state := .running } 0 (σ.reads + 1)).nesting + sdepth s ≤ Extracted.nestingLimit := by
    show σ.nesting + sdepth s ≤ _
    rw [hc.nesting]; omega
  have hR := stmt_run s fuel _ _ _ hAt hq hc.tracing hNE hdf hnest hcov (Or.inl hLE)
  have hK := stmt_errkeep s fuel _ _ _ hAt hq hc.tracing hc.fns hNE hdf hnest hcov (Or.inl hLE)
  have hv : (mv { σ with state := .running } 0 (σ.reads + 1)).vars = r.vars := hc.vars
  rw [hv] at hR
  obtain ⟨k0, ts0, hhead, _, _⟩ := renderS_head' s
  have hrun := rns_eq fuel σ (pre := preToks ss j) (t := .kw k0) (post := ts0 ++ renderTail (ss.drop (j + 1)))
    (by have := hAt; rw [hhead] at this; exact this)
  rw [hrun]
  have hlen : (preToks ss j ++ (renderS s ++ renderTail (ss.drop (j + 1)))).length = (renderLine ss).length := by
    rw [← hsplit]
  unfold Refines at hR
  cases hctl : (RStmt.exec r.vars s).ctl with
  | next =>
    rw [hctl] at hR
    obtain ⟨k, _, hres⟩ := hR
    rw [rstep_next hpc hl hs hctl, bind_ok hres]
    by_cases hj : j + 1 < ss.length
    · obtain ⟨s', post, _, htl⟩ := drop_tail_cons hj
      refine ⟨_, sequence_more (pre := preToks ss j ++ renderS s) (t := .kw .Colon) (post := renderS s' ++ post)
        ⟨?_, ?_⟩, ?_, ?_⟩
      · show lineToks (mv { σ with state := .running } 0 (σ.reads + 1)) = _
        rw [hToks, htl, List.append_assoc]
      · show (preToks ss j).length + (renderS s).length = _
        rw [List.length_append]
      · exact ⟨hc.lines, rfl, by show outRecs _ ++ σ.out = _; rw [hc.out, outRecs_append],
          hc.stack, hc.warnings, hc.tracing, hc.nesting, hc.fns⟩
      · show Landed p (if j + 1 < ss.length then some (n, j + 1) else _) _
        rw [if_pos hj]
        refine ⟨rfl, ss, hl, hj, by show σ.loc.line = some n; rw [hloc], ?_⟩
        rw [if_neg (Nat.succ_ne_zero j), preToks_succ ss j s hs hj]
        show (preToks ss j).length + (renderS s).length + 0 + 1 = _
        simp only [List.length_append, List.length_cons, List.length_nil]
    · have hc2 : Core p (RStmt.exec r.vars s).vars (r.out ++ (RStmt.exec r.vars s).out)
          ({ mv { σ with state := .running } 0 (σ.reads + 1) with
              vars := (RStmt.exec r.vars s).vars,
              out := outRecs (RStmt.exec r.vars s).out ++ (mv { σ with state := .running } 0 (σ.reads + 1)).out,
              loc := { (mv { σ with state := .running } 0 (σ.reads + 1)).loc with
                idx := (preToks ss j).length + (renderS s).length }, reads := k } : St F) :=
        ⟨hc.lines, rfl, by show outRecs _ ++ σ.out = _; rw [hc.out, outRecs_append],
          hc.stack, hc.warnings, hc.tracing, hc.nesting, hc.fns⟩
      obtain ⟨σ', hσ', hc', hland⟩ := land_eol hfit.wf (pre := preToks ss j ++ renderS s) (n := n) hc2 rfl
        ⟨by show lineToks (mv { σ with state := .running } 0 (σ.reads + 1)) = _
            rw [hToks, drop_tail_nil hj, List.append_nil, List.append_nil],
         by show (preToks ss j).length + (renderS s).length = _; rw [List.length_append]⟩
        (by show σ.loc.line = some n; rw [hloc])
      refine ⟨σ', hσ', hc', ?_⟩
      show Landed p (if j + 1 < ss.length then some (n, j + 1) else _) _
      rw [if_neg hj]
      exact hland
  | skipLine =>
    rw [hctl] at hR
    obtain ⟨k, _, hres⟩ := hR
    rw [rstep_skip hpc hl hs hctl, bind_ok hres]
    have hc2 : Core p (RStmt.exec r.vars s).vars (r.out ++ (RStmt.exec r.vars s).out)
        ({ mv { σ with state := .running } 0 (σ.reads + 1) with
            vars := (RStmt.exec r.vars s).vars,
            out := outRecs (RStmt.exec r.vars s).out ++ (mv { σ with state := .running } 0 (σ.reads + 1)).out,
            loc := { (mv { σ with state := .running } 0 (σ.reads + 1)).loc with
              idx := (preToks ss j ++ (renderS s ++ renderTail (ss.drop (j + 1)))).length }, reads := k } : St F) :=
      ⟨hc.lines, rfl, by show outRecs _ ++ σ.out = _; rw [hc.out, outRecs_append],
        hc.stack, hc.warnings, hc.tracing, hc.nesting, hc.fns⟩
    obtain ⟨σ', hσ', hc', hland⟩ := land_eol hfit.wf
      (pre := preToks ss j ++ (renderS s ++ renderTail (ss.drop (j + 1)))) (n := n) hc2 rfl
      ⟨by show lineToks (mv { σ with state := .running } 0 (σ.reads + 1)) = _
          rw [hToks, List.append_nil], rfl⟩
      (by show σ.loc.line = some n; rw [hloc])
    exact ⟨σ', hσ', hc', hland⟩
  | jump m =>
    rw [hctl] at hR
    have hhas : (mv { σ with state := .running } 0 (σ.reads + 1)).lines.has m = p.hasLine m := by
      show σ.lines.has m = _
      rw [holds_has hc.lines]
    cases hh : p.hasLine m with
    | true =>
      obtain ⟨k, _, hres⟩ := hR.1 (by rw [hhas, hh])
      rw [rstep_jump hpc hl hs hctl hh, bind_ok hres]
      obtain ⟨ss', hss'⟩ : ∃ ss', p.line m = some ss' := by
        unfold RProgram.hasLine at hh
        cases hx : p.line m with
        | none => rw [hx] at hh; cases hh
        | some ss' => exact ⟨ss', rfl⟩
      obtain ⟨k1, ts1, hk1, _⟩ := line_head hfit.wf hss'
      refine ⟨_, sequence_more (pre := []) (t := .kw k1) (post := ts1) ⟨?_, rfl⟩, ?_, ?_⟩
      · show σ.lines.get m = _
        rw [hc.lines.get, hss', ← hk1]
        rfl
      · exact ⟨hc.lines, rfl, by show outRecs _ ++ σ.out = _; rw [hc.out, outRecs_append],
          hc.stack, hc.warnings, hc.tracing, hc.nesting, hc.fns⟩
      · exact ⟨rfl, ss', hss', line_nonempty hfit.wf hss', rfl, rfl⟩
    | false =>
      obtain ⟨σ', hres, _⟩ := hR.2 (by rw [hhas, hh])
      rw [rstep_jump_missing hpc hl hs hctl hh]
      have := hK _ _ hres
      exact ⟨σ', bind_err hres, by rw [this.1]; show σ.loc.line = some n; rw [hloc], this.2⟩
  | stop =>
    rw [hctl] at hR
    obtain ⟨k, _, hres⟩ := hR
    rw [rstep_stop hpc hl hs hctl, bind_ok hres]
    refine ⟨_, sequence_imm rfl rfl, ?_, rfl⟩
    exact ⟨hc.lines, rfl, by show outRecs _ ++ σ.out = _; rw [hc.out, outRecs_append],
      by show (if _ then [] else σ.stack) = []; rw [hc.stack]; exact ite_self _,
      hc.warnings, hc.tracing, hc.nesting, hc.fns⟩
  | error x =>
    rw [hctl] at hR
    obtain ⟨σ', hres, _⟩ := hR
    rw [rstep_error hpc hl hs hctl]
    have := hK _ _ hres
    exact ⟨σ', bind_err hres, by rw [this.1]; show σ.loc.line = some n; rw [hloc], this.2⟩

/-! ### one turn on a colon -/

/-- **A turn with the cursor on the colon in front of a statement steps over the
    colon and nothing else** (the colon is a statement of its own for `dispatch`). -/
theorem rns_colon {p : RProgram F} {fuel : Nat} {vs : List (Str × Value F)} {os : List Str} {σ : St F}
    (hc : Core p vs os σ) {n j : Nat} {ss : List (RStmt F)}
    (hl : p.line n = some ss) (hj : j + 1 < ss.length)
    (hline : σ.loc.line = some n) (hidx : σ.loc.idx + 1 = (preToks ss (j + 1)).length) :
    ∃ σ', runNextStatement fuel σ = .ok () σ' ∧ Core p vs os σ' ∧ σ'.state = .running ∧
      σ'.loc = { line := some n, idx := (preToks ss (j + 1)).length } := by
  have hs : ss[j]? = some ss[j] := by simp [show j < ss.length by omega]
  have hs' : ss[j + 1]? = some ss[j + 1] := by simp [hj]
  have hsplit := line_split ss (j + 1) _ hs'
  have hpre := preToks_succ ss j _ hs hj
  obtain ⟨k0, ts0, hhead, _, _⟩ := renderS_head' ss[j + 1]
  have hToks : lineToks σ = some ((preToks ss j ++ renderS ss[j]) ++
      (.kw .Colon :: (.kw k0 :: (ts0 ++ renderTail (ss.drop (j + 1 + 1)))))) := by
    unfold lineToks
    rw [hline]
    show σ.lines.get n = _
    rw [hc.lines.get, hl, Option.map_some, hsplit, hpre, hhead]
    simp only [List.append_assoc, List.cons_append, List.nil_append]
  have hAt : At σ (preToks ss j ++ renderS ss[j])
      (.kw .Colon :: (.kw k0 :: (ts0 ++ renderTail (ss.drop (j + 1 + 1))))) := by
    refine ⟨hToks, ?_⟩
    rw [hpre, List.length_append] at hidx
    simp only [List.length_cons, List.length_nil] at hidx
    omega
  have hAt1 : At (mv { σ with state := .running } 0 (σ.reads + 1)) (preToks ss j ++ renderS ss[j])
      (.kw .Colon :: (.kw k0 :: (ts0 ++ renderTail (ss.drop (j + 1 + 1))))) := hAt
  have hbody : stmtBody (evalN fuel) (mv { σ with state := .running } 0 (σ.reads + 1)) =
      .ok () (mv (mv { σ with state := .running } 0 (σ.reads + 1)) 1 (σ.reads + 1 + 1)) := by
    unfold stmtBody
    rw [bind_ok (traceHere_off (σ := mv { σ with state := .running } 0 (σ.reads + 1)) hc.tracing)]
    unfold dispatch
    rw [bind_ok (next_eq hAt1)]
    rfl
  rw [rns_eq fuel σ hAt, bind_ok hbody]
  refine ⟨_, sequence_more (at_mv1 hAt1 _), ?_, rfl, ?_⟩
  · exact ⟨hc.lines, hc.vars, hc.out, hc.stack, hc.warnings, hc.tracing, hc.nesting, hc.fns⟩
  · show ({ line := σ.loc.line, idx := σ.loc.idx + 0 + 1 + 0 } : Loc) = _
    rw [hline]
    congr 1

end core

/-! ### the errors of the reference semantics are located at the cursor

  `populate_error_location` treats DATA TYPE MISMATCH specially (it is located
  at the DATA item).  No covered statement reports it. -/

section errors
variable [NumOps F]

theorem unop_nd {op : UnOp} {v : Value F} {x : Err} (h : UnOp.eval op v = .error x) : x ≠ .dataTypeMismatch := by
  cases op <;> cases v <;> simp [UnOp.eval] at h <;> subst h <;> simp

theorem binop_nd {op : BinOp} {a b : Value F} {x : Err} (h : BinOp.eval op a b = .error x) :
    x ≠ .dataTypeMismatch := by
  cases op <;> cases a <;> cases b <;> simp only [BinOp.eval] at h <;>
    first
    | (cases h; done)
    | (cases h; simp; done)
    | (split at h <;> first | (cases h; done) | (cases h; simp; done))

theorem foldE_nd (env : Str → Value F) : ∀ (e : Expr F) {x : Err}, foldE env e = .error x → x ≠ .dataTypeMismatch
  | .num _, x, h => by simp [foldE] at h
  | .str _, x, h => by simp [foldE] at h
  | .var _, x, h => by simp [foldE] at h
  | .un op e, x, h => by
    simp only [foldE] at h
    cases he : foldE env e with
    | ok v => rw [he] at h; exact unop_nd h
    | error y => rw [he] at h; cases h; exact foldE_nd env e he
  | .bin op l r, x, h => by
    simp only [foldE] at h
    cases hl : foldE env l with
    | error y => rw [hl] at h; cases h; exact foldE_nd env l hl
    | ok a =>
      rw [hl] at h
      cases hr : foldE env r with
      | error y => rw [hr] at h; cases h; exact foldE_nd env r hr
      | ok b => rw [hr] at h; exact binop_nd h
  | .paren e, x, h => by
    simp only [foldE] at h
    exact foldE_nd env e h
  | .abs e, x, h => by
    simp only [foldE] at h
    cases he : foldE env e with
    | error y => rw [he] at h; cases h; exact foldE_nd env e he
    | ok v => rw [he] at h; cases v <;> cases h; simp
  | .int e, x, h => by
    simp only [foldE] at h
    cases he : foldE env e with
    | error y => rw [he] at h; cases h; exact foldE_nd env e he
    | ok v => rw [he] at h; cases v <;> cases h; simp

theorem printText_nd (env : Str → Value F) : ∀ (items : List (PItem F)) (semi : Bool) (acc : Str) {x : Err},
    printText env items semi acc = .error x → x ≠ .dataTypeMismatch
  | [], semi, acc, x, h => by simp [printText] at h
  | .semi :: rest, semi, acc, x, h => by
    simp only [printText] at h
    exact printText_nd env rest _ _ h
  | .comma :: rest, semi, acc, x, h => by
    simp only [printText] at h
    exact printText_nd env rest _ _ h
  | .expr e :: rest, semi, acc, x, h => by
    simp only [printText] at h
    cases he : foldE env e with
    | error y => rw [he] at h; cases h; exact foldE_nd env e he
    | ok v => rw [he] at h; exact printText_nd env rest _ _ h

theorem closeLine_err {r : RResult F} {x : Err} (h : r.closeLine.ctl = .error x) : r.ctl = .error x := by
  cases hc : r.ctl with
  | next => rw [closeLine_next hc] at h; cases h
  | skipLine => rwa [closeLine_other (by rw [hc]; exact fun h => by cases h), hc] at h
  | jump n => rwa [closeLine_other (by rw [hc]; exact fun h => by cases h), hc] at h
  | stop => rwa [closeLine_other (by rw [hc]; exact fun h => by cases h), hc] at h
  | error y => rwa [closeLine_other (by rw [hc]; exact fun h => by cases h), hc] at h

theorem exec_nd (vars : List (Str × Value F)) : ∀ (s : RStmt F) {x : Err},
    (RStmt.exec vars s).ctl = .error x → x ≠ .dataTypeMismatch
  | .letS y e, x, h => by
    cases he : foldE (envOf vars) e with
    | error z => simp only [RStmt.exec, he] at h; cases h; exact foldE_nd _ e he
    | ok v =>
      cases hb : v.matchesName y with
      | true => simp only [RStmt.exec, he, hb, ↓reduceIte] at h; cases h
      | false => simp only [RStmt.exec, he, hb, Bool.false_eq_true, ↓reduceIte] at h; cases h; simp
  | .printS items, x, h => by
    cases hp : printText (envOf vars) items false [] with
    | error z => simp only [RStmt.exec, hp] at h; cases h; exact printText_nd _ items _ _ hp
    | ok t => simp only [RStmt.exec, hp] at h; cases h
  | .gotoS n, x, h => by simp [RStmt.exec] at h
  | .endS, x, h => by simp [RStmt.exec] at h
  | .ifS c t none, x, h => by
    cases he : foldE (envOf vars) c with
    | error z => simp only [RStmt.exec, he] at h; cases h; exact foldE_nd _ c he
    | ok v =>
      cases hb : v.toBool with
      | true => simp only [RStmt.exec, he, hb, ↓reduceIte] at h; exact exec_nd vars t h
      | false => simp only [RStmt.exec, he, hb, Bool.false_eq_true, ↓reduceIte] at h; cases h
  | .ifS c t (some e), x, h => by
    cases he : foldE (envOf vars) c with
    | error z => simp only [RStmt.exec, he] at h; cases h; exact foldE_nd _ c he
    | ok v =>
      cases hb : v.toBool with
      | true => simp only [RStmt.exec, he, hb, ↓reduceIte] at h; exact exec_nd vars t (closeLine_err h)
      | false => simp only [RStmt.exec, he, hb, Bool.false_eq_true, ↓reduceIte] at h; exact exec_nd vars e h

theorem rstep_nd {p : RProgram F} {r : RState F} {e : Err} {ln : Nat} (h : RStep p r = .inr (e, ln)) :
    e ≠ .dataTypeMismatch := by
  cases hpc : r.pc with
  | none => exact absurd h (by simp [RStep, hpc])
  | some pc =>
    obtain ⟨n, j⟩ := pc
    cases hl : p.line n with
    | none => exact absurd h (by simp [RStep, hpc, hl])
    | some ss =>
      cases hs : ss[j]? with
      | none => exact absurd h (by simp [RStep, hpc, hl, hs])
      | some s =>
        cases hctl : (RStmt.exec r.vars s).ctl with
        | next => rw [rstep_next hpc hl hs hctl] at h; cases h
        | skipLine => rw [rstep_skip hpc hl hs hctl] at h; cases h
        | jump m =>
          cases hh : p.hasLine m with
          | true => rw [rstep_jump hpc hl hs hctl hh] at h; cases h
          | false => rw [rstep_jump_missing hpc hl hs hctl hh] at h; cases h; simp
        | stop => rw [rstep_stop hpc hl hs hctl] at h; cases h
        | error x => rw [rstep_error hpc hl hs hctl] at h; cases h; exact exec_nd _ s hctl

omit [NumOps F] in
theorem populate_nd (s : St F) {e : Err} (h : e ≠ .dataTypeMismatch) :
    s.populate { err := e } = { err := e, loc := some s.prevLoc } := by
  cases e <;> first | rfl | exact absurd rfl h

end errors

/-! ### RUN -/

section run
variable [NumOps F]
open Abasic.Props

theorem cmd_run : (commandWord "RUN".toList).bind Command.ofWord = some .run := by decide

/-- the state RUN starts its first turn in -/
def runInit (σ : St F) : St F :=
  ({ σ.setImmediate [] with input := none, vars := [], arrays := [] } : St F).runFromFirst

theorem run_eq (fuel : Nat) (σ : St F) (hi : σ.state = .idle) :
    evaluateImpl fuel "RUN".toList σ = (runNextStatement fuel >>= fun _ => pure ()) (runInit σ) := by
  have h1 : (M.get : M F (St F)) σ = .ok σ σ := rfl
  have h2 : (setImmediate [] : M F Unit) σ = .ok () (σ.setImmediate []) := rfl
  unfold evaluateImpl
  rw [bind_ok h1]
  simp only [hi, bne_self_eq_false, Bool.false_eq_true, ↓reduceIte]
  rw [bind_ok h2]
  unfold maybeProcessCommand
  simp only [cmd_run]
  rw [bind_assoc']
  have h3 : (M.modify fun s : St F => ({ s with input := none, vars := [], arrays := [] } : St F).runFromFirst)
      (σ.setImmediate []) = .ok () (runInit σ) := rfl
  rw [bind_ok h3, bind_assoc']
  rfl

theorem runInit_first {σ : St F} {n : Nat} (h : σ.lines.first = some n) :
    runInit σ = { (({ σ.setImmediate [] with input := none, vars := [], arrays := [] } : St F).resetRuntime) with
      loc := { line := some n, idx := 0 } } := by
  have h' : (({ σ.setImmediate [] with input := none, vars := [], arrays := [] } : St F).resetRuntime).lines.first
      = some n := h
  unfold runInit St.runFromFirst
  simp only [h']

theorem runInit_none {σ : St F} (h : σ.lines.first = none) :
    runInit σ = ({ σ.setImmediate [] with input := none, vars := [], arrays := [] } : St F).resetRuntime := by
  have h' : (({ σ.setImmediate [] with input := none, vars := [], arrays := [] } : St F).resetRuntime).lines.first
      = none := h
  unfold runInit St.runFromFirst
  simp only [h']

/-- a turn on the empty immediate line: the interpreter falls idle -/
theorem rns_imm (fuel : Nat) (σ : St F) (hl : σ.loc = {}) (hi : σ.imm = []) :
    ∃ σ', runNextStatement fuel σ = .ok () σ' ∧ σ'.state = .idle ∧ σ'.lines = σ.lines ∧ σ'.vars = σ.vars ∧
      σ'.out = σ.out ∧ σ'.warnings = σ.warnings ∧ σ'.tracing = σ.tracing ∧ σ'.nesting = σ.nesting ∧
      σ'.fns = σ.fns ∧ (σ.stack = [] → σ'.stack = []) := by
  have hm : (M.modify fun s : St F => { s with state := .running }) σ = .ok () { σ with state := .running } := rfl
  have hAt : At ({ σ with state := .running } : St F) [] [] := by
    refine ⟨?_, by show σ.loc.idx = 0; rw [hl]⟩
    show (match σ.loc.line with | none => some σ.imm | some n => σ.lines.get n) = _
    rw [hl, hi]
    rfl
  rw [C09.turn_anatomy, bind_ok hm, bind_ok (hasNext_nil hAt)]
  refine ⟨_, sequence_imm (σ := mv { σ with state := .running } 0 (σ.reads + 1)) ?_ hi, rfl, rfl, rfl, rfl, rfl,
    rfl, rfl, rfl, ?_⟩
  · show ({ line := σ.loc.line, idx := σ.loc.idx + 0 } : Loc) = {}
    rw [hl]
  · intro hs
    show (if _ then [] else σ.stack) = []
    rw [hs]; exact ite_self _

end run

end Abasic.ProgL
