import Abasic.Proofs.Prog2Rel
/-
  C03, control stack and DATA — what a turn (`runNextStatement`) does around its
  one statement, for the reference machine of Ref/Prog2.lean.

  `rns2_stmt` is generic in the statement: it takes the statement-level
  refinement as a hypothesis (`Outcome`, Proofs/Prog2Rel.lean) and does the
  sequencing for every `Ctl2` — in particular `resume` (after NEXT and RETURN):
  the cursor stands right behind a statement of some line, on the colon or at
  the end of that line (`land_after`).
-/
set_option linter.unusedSectionVars false

namespace Abasic.Prog2L
open Abasic Abasic.Ref Abasic.ExprL Abasic.StmtL Abasic.ProgL M
open Abasic.Props

variable {F : Type} [NumOps F]

/-! ### the invariant of a running program and where a step lands -/

/-- what the model state shares with the reference state, cursor and run state apart -/
structure Core2 (p : RProgram2 F) (r : RState2 F) (σ : St F) : Prop where
  env : Env p σ
  mem : Mem p r σ
  inv : RInv r

/-- after the end of the program -/
def Final (r : RState2 F) (σ : St F) : Prop :=
  σ.state = .idle ∧ σ.vars = r.vars ∧ σ.arrays = r.arrays ∧ σ.out = outRecs r.out

/-- where the model stands when the reference machine is in state `r` -/
def Landed2 (p : RProgram2 F) (r : RState2 F) (σ : St F) : Prop :=
  match r.pc with
  | none => Final r σ
  | some (n, j) => Core2 p r σ ∧ σ.state = .running ∧ ∃ ss, p.line n = some ss ∧ j < ss.length ∧
      σ.loc.line = some n ∧
      (if j = 0 then σ.loc.idx = 0 else σ.loc.idx + 1 = (preToks2 ss j).length)

theorem Mem.pc {p : RProgram2 F} {r : RState2 F} {σ : St F} (h : Mem p r σ) (x : Option (Nat × Nat)) :
    Mem p { r with pc := x } σ := ⟨h.vars, h.arrays, h.loops, h.stack, h.data, h.out⟩

theorem RInv.pc {r : RState2 F} (h : RInv r) (x : Option (Nat × Nat)) : RInv { r with pc := x } :=
  ⟨h.typed, h.arrs⟩

theorem Core2.pc {p : RProgram2 F} {r : RState2 F} {σ : St F} (h : Core2 p r σ) (x : Option (Nat × Nat)) :
    Core2 p { r with pc := x } σ := ⟨h.env, h.mem.pc x, h.inv.pc x⟩

theorem line_nonempty2 {p : RProgram2 F} (hwf : p.WF) {n : Nat} {ss : List (RStmt2 F)} (h : p.line n = some ss) :
    0 < ss.length := by
  have := hwf.nonempty _ (line_mem h)
  cases ss with
  | nil => exact absurd rfl this
  | cons _ _ => simp

theorem line_head2 {p : RProgram2 F} (hwf : p.WF) {n : Nat} {ss : List (RStmt2 F)} (h : p.line n = some ss) :
    ∃ t ts, renderLine2 ss = t :: ts ∧ t.isKw .Else = false := by
  have := hwf.nonempty _ (line_mem h)
  cases ss with
  | nil => exact absurd rfl this
  | cons a rest =>
    obtain ⟨t, ts, hk, hne, _⟩ := renderS2_head a
    exact ⟨t, ts ++ renderTail2 rest, by rw [renderLine2, hk]; rfl, hne⟩

theorem noElse_compile2 {p : RProgram2 F} (hwf : p.WF) {σ : St F} (h : Holds σ.lines p) : NoElseLine σ := by
  intro n ts hg t ht
  rw [h.get] at hg
  cases hl : p.line n with
  | none => rw [hl] at hg; cases hg
  | some ss =>
    rw [hl] at hg
    simp only [Option.map_some, Option.some.injEq] at hg
    obtain ⟨t', ts', hk, hne⟩ := line_head2 hwf hl
    rw [← hg, hk] at ht
    simp only [List.head?_cons, Option.some.injEq] at ht
    subst ht
    exact hne

/-- the state a program ends in is `Final` -/
theorem final_ended {r : RState2 F} {σ : St F} (hv : σ.vars = r.vars) (ha : σ.arrays = r.arrays)
    (ho : σ.out = outRecs r.out) (x : Nat) : Final r (ended (mv σ 0 x)) :=
  ⟨rfl, hv, ha, ho⟩

/-- at the end of a line the turn moves to the next greater line, or the program ends -/
theorem land_eol2 {p : RProgram2 F} (hwf : p.WF) {r : RState2 F} {σ : St F}
    {pre : List (Token F)} {n : Nat} (hc : Core2 p r σ) (hrun : σ.state = .running)
    (hAt : At σ pre []) (hl : σ.loc.line = some n) :
    ∃ σ', C09.sequence σ = .ok () σ' ∧ Landed2 p { r with pc := (p.after n).map fun m => (m, 0) } σ' := by
  cases ha : p.after n with
  | none =>
    refine ⟨_, sequence_last hAt hl (by rw [holds_after hc.env.lines, ha]), ?_⟩
    exact final_ended hc.mem.vars hc.mem.arrays hc.mem.out _
  | some m =>
    refine ⟨_, sequence_line hAt hl (by rw [holds_after hc.env.lines, ha]), ?_⟩
    obtain ⟨ss', hss'⟩ := after_line ha
    refine ⟨⟨⟨hc.env.lines, hc.env.warnings, hc.env.tracing, hc.env.nesting, hc.env.fns⟩,
      ⟨hc.mem.vars, hc.mem.arrays, hc.mem.loops, hc.mem.stack, hc.mem.data, hc.mem.out⟩, hc.inv.pc _⟩,
      hrun, ss', hss', line_nonempty2 hwf hss', rfl, rfl⟩

theorem resume_lt {p : RProgram2 F} {n k : Nat} {ss : List (RStmt2 F)} (hl : p.line n = some ss)
    (hk : k < ss.length) : p.resume n k = some (n, k) := by
  simp only [RProgram2.resume, hl, hk, ↓reduceIte]

theorem resume_ge {p : RProgram2 F} {n k : Nat} {ss : List (RStmt2 F)} (hl : p.line n = some ss)
    (hk : ¬ k < ss.length) : p.resume n k = (p.after n).map fun m => (m, 0) := by
  simp only [RProgram2.resume, hl, hk, ↓reduceIte]

/-- the line of a stored program, as the model sees it -/
theorem lineToks_of {p : RProgram2 F} {σ : St F} (hh : Holds σ.lines p) {n : Nat} {ss : List (RStmt2 F)}
    (hl : p.line n = some ss) (hline : σ.loc.line = some n) : lineToks σ = some (renderLine2 ss) := by
  unfold lineToks
  rw [hline]
  show σ.lines.get n = _
  rw [hh.get, hl]
  rfl

/-- **Behind a statement.**  With the cursor right behind statement `k - 1` of
    line `n` — where a statement that ran to its end, a RETURN or a repeating
    NEXT leave it — the turn ends on the colon in front of statement `k`, or
    moves to the next line, or ends the program: `RProgram2.resume`. -/
theorem land_after {p : RProgram2 F} (hwf : p.WF) {r : RState2 F} {σ : St F} (hc : Core2 p r σ)
    (hrun : σ.state = .running) {n k : Nat} (ha : AddrRel p n k σ.loc) :
    ∃ σ', C09.sequence σ = .ok () σ' ∧ Landed2 p { r with pc := p.resume n k } σ' := by
  obtain ⟨ss, j0, s, hl, hk, hs, hloc⟩ := ha
  subst hk
  have hline : σ.loc.line = some n := by rw [hloc]
  have hidx : σ.loc.idx = (preToks2 ss j0).length + (renderS2 s).length := by rw [hloc]
  have hsplit := line_split ss j0 s hs
  have hToks := lineToks_of hc.env.lines hl hline
  by_cases hj : j0 + 1 < ss.length
  · obtain ⟨s', post, _, htl⟩ := drop_tail_cons hj
    rw [resume_lt hl hj]
    refine ⟨_, sequence_more (pre := preToks2 ss j0 ++ renderS2 s) (t := .kw .Colon) (post := renderS2 s' ++ post)
      ⟨?_, ?_⟩, ?_⟩
    · rw [hToks, hsplit, htl, List.append_assoc]
    · rw [hidx, List.length_append]
    · refine ⟨⟨⟨hc.env.lines, hc.env.warnings, hc.env.tracing, hc.env.nesting, hc.env.fns⟩,
        ⟨hc.mem.vars, hc.mem.arrays, hc.mem.loops, hc.mem.stack, hc.mem.data, hc.mem.out⟩, hc.inv.pc _⟩,
        hrun, ss, hl, hj, hline, ?_⟩
      rw [if_neg (Nat.succ_ne_zero j0), preToks_succ ss j0 s hs hj]
      show σ.loc.idx + 0 + 1 = _
      rw [hidx]
      simp only [List.length_append, List.length_cons, List.length_nil]
  · rw [resume_ge hl hj]
    exact land_eol2 hwf (pre := preToks2 ss j0 ++ renderS2 s) hc hrun
      ⟨by rw [hToks, hsplit, drop_tail_nil hj, List.append_nil, List.append_nil],
       by rw [hidx, List.length_append]⟩ hline

/-! ### one turn on a statement -/

/-- the outcome `res` of a turn from `σ` against the outcome of a reference step:
    the model lands where the reference machine is; or it fails with the same
    error, nothing printed, and `populate_error_location` names the same line -/
def StepsTo2 (p : RProgram2 F) (res : Res F Unit) (σ : St F) : RState2 F ⊕ (Err × Nat) → Prop
  | .inl r' => ∃ σ', res = .ok () σ' ∧ Landed2 p r' σ'
  | .inr (e, ln) => ∃ σ' i, res = .err { err := e } σ' ∧ σ'.out = σ.out ∧
      σ'.populate { err := e } = { err := e, loc := some { line := some ln, idx := i } }

theorem populate_dtm (s : St F) {loc : Loc} (h : s.dataLoc = some loc) :
    s.populate { err := .dataTypeMismatch } = { err := .dataTypeMismatch, loc := some loc } := by
  simp only [St.populate, Option.isSome_none, Bool.false_eq_true, ↓reduceIte, h]

/-- **A turn with the cursor on a statement is one reference step**, given that
    the statement evaluator does what the reference step of that statement says (`hO`). -/
theorem rns2_stmt {p : RProgram2 F} {fuel : Nat} (hwf : p.WF) {r : RState2 F} {σ : St F}
    (hc : Core2 p r σ) {n j : Nat} {ss : List (RStmt2 F)} {s : RStmt2 F}
    (hpc : r.pc = some (n, j)) (hl : p.line n = some ss) (hs : ss[j]? = some s)
    (hloc : σ.loc = { line := some n, idx := (preToks2 ss j).length })
    (hO : Outcome p (mv { σ with state := .running } 0 (σ.reads + 1)) n
      ((preToks2 ss j).length + (renderS2 s).length) (renderLine2 ss).length
      (stmtBody (evalN fuel) (mv { σ with state := .running } 0 (σ.reads + 1)))
      (s.exec (allData p) n j r).1 (s.exec (allData p) n j r).2)
    (hI : RInv (s.exec (allData p) n j r).1) :
    StepsTo2 p (runNextStatement fuel σ) σ (RStep2 p r) := by
  have hsplit := line_split ss j s hs
  have hToks : lineToks (mv { σ with state := .running } 0 (σ.reads + 1)) =
      some (preToks2 ss j ++ (renderS2 s ++ renderTail2 (ss.drop (j + 1)))) := by
    rw [← hsplit]
    exact lineToks_of (σ := mv { σ with state := .running } 0 (σ.reads + 1)) hc.env.lines hl (by rw [mv_line]; show σ.loc.line = _; rw [hloc])
  have hAt : At (mv { σ with state := .running } 0 (σ.reads + 1)) (preToks2 ss j)
      (renderS2 s ++ renderTail2 (ss.drop (j + 1))) :=
    ⟨hToks, by show σ.loc.idx + 0 = _; rw [hloc]; rfl⟩
  obtain ⟨t0, ts0, hhead, _, _⟩ := renderS2_head s
  have hrun := rns_eq fuel σ (pre := preToks2 ss j) (t := t0) (post := ts0 ++ renderTail2 (ss.drop (j + 1)))
    (by have := hAt; rw [hhead] at this; exact this)
  rw [hrun]
  have henv0 : Env p (mv { σ with state := .running } 0 (σ.reads + 1)) :=
    ⟨hc.env.lines, hc.env.warnings, hc.env.tracing, hc.env.nesting, hc.env.fns⟩
  generalize hσ0 : mv { σ with state := .running } 0 (σ.reads + 1) = σ0 at hO hAt hToks henv0
  have hout0 : σ0.out = σ.out := by rw [← hσ0]; rfl
  have hst0 : σ0.state = .running := by rw [← hσ0]; rfl
  generalize hex : s.exec (allData p) n j r = ex at hO hI
  obtain ⟨r', ctl⟩ := ex
  simp only at hO hI
  cases ctl with
  | next =>
    have hstep : RStep2 p r = .inl { r' with pc := p.resume n (j + 1) } := by
      simp only [RStep2, hpc, hl, hs, hex]
    rw [hstep]
    obtain ⟨σ', hres, hk, hm, hloc'⟩ := hO
    rw [bind_ok hres]
    have hc' : Core2 p r' σ' := ⟨hk.env henv0, hm, hI⟩
    exact land_after hwf hc' (by rw [hk.state, hst0]) ⟨ss, j, s, hl, rfl, hs, hloc'⟩
  | skipLine =>
    have hstep : RStep2 p r = .inl { r' with pc := (p.after n).map fun m => (m, 0) } := by
      simp only [RStep2, hpc, hl, hs, hex]
    rw [hstep]
    obtain ⟨σ', hres, hk, hm, hloc'⟩ := hO
    rw [bind_ok hres]
    have hc' : Core2 p r' σ' := ⟨hk.env henv0, hm, hI⟩
    have hline' : σ'.loc.line = some n := by rw [hloc']
    exact land_eol2 hwf (pre := renderLine2 ss) hc' (by rw [hk.state, hst0])
      ⟨by rw [List.append_nil]; exact lineToks_of hc'.env.lines hl hline', by rw [hloc']⟩ hline'
  | jump m =>
    have hhas : σ0.lines.has m = p.hasLine m := holds_has henv0.lines m
    cases hh : p.hasLine m with
    | true =>
      have hstep : RStep2 p r = .inl { r' with pc := some (m, 0) } := by
        simp only [RStep2, hpc, hl, hs, hex, hh, ↓reduceIte]
      rw [hstep]
      obtain ⟨σ', hres, hk, hm, hloc'⟩ := hO.1 (by rw [hhas, hh])
      rw [bind_ok hres]
      have hc' : Core2 p r' σ' := ⟨hk.env henv0, hm, hI⟩
      obtain ⟨ss', hss'⟩ : ∃ ss', p.line m = some ss' := by
        unfold RProgram2.hasLine at hh
        cases hx : p.line m with
        | none => rw [hx] at hh; cases hh
        | some ss' => exact ⟨ss', rfl⟩
      obtain ⟨t1, ts1, hk1, _⟩ := line_head2 hwf hss'
      have hline' : σ'.loc.line = some m := by rw [hloc']
      refine ⟨_, sequence_more (pre := []) (t := t1) (post := ts1)
        ⟨by rw [List.nil_append, ← hk1]; exact lineToks_of hc'.env.lines hss' hline', by rw [hloc']; rfl⟩, ?_⟩
      refine ⟨⟨⟨hc'.env.lines, hc'.env.warnings, hc'.env.tracing, hc'.env.nesting, hc'.env.fns⟩,
        ⟨hm.vars, hm.arrays, hm.loops, hm.stack, hm.data, hm.out⟩, hI.pc _⟩, ?_, ss', hss',
        line_nonempty2 hwf hss', hline', ?_⟩
      · show σ'.state = _; rw [hk.state, hst0]
      · rw [if_pos rfl]; show σ'.loc.idx + 0 = 0; rw [hloc']
    | false =>
      have hstep : RStep2 p r = .inr (.undefinedStatement, n) := by
        simp only [RStep2, hpc, hl, hs, hex, hh, Bool.false_eq_true, ↓reduceIte]
      rw [hstep]
      obtain ⟨σ', hres, hline', hout'⟩ := hO.2 (by rw [hhas, hh])
      refine ⟨σ', σ'.loc.idx - 1, bind_err hres, by rw [hout', hout0], ?_⟩
      rw [populate_nd σ' (by simp)]
      show _ = ({ err := _, loc := some { line := _, idx := _ } } : TErr)
      rw [← hline']
      rfl
  | stop =>
    have hstep : RStep2 p r = .inl { r' with pc := none } := by
      simp only [RStep2, hpc, hl, hs, hex]
    rw [hstep]
    obtain ⟨σ', hres, hk, hv, ha, ho, hloc', himm⟩ := hO
    rw [bind_ok hres]
    exact ⟨_, sequence_imm hloc' himm, final_ended hv ha ho _⟩
  | resume m k =>
    have hstep : RStep2 p r = .inl { r' with pc := p.resume m k } := by
      simp only [RStep2, hpc, hl, hs, hex]
    rw [hstep]
    obtain ⟨σ', hres, hk, hm, haddr⟩ := hO
    rw [bind_ok hres]
    have hc' : Core2 p r' σ' := ⟨hk.env henv0, hm, hI⟩
    exact land_after hwf hc' (by rw [hk.state, hst0]) haddr
  | error e =>
    have hstep : RStep2 p r = .inr (e, n) := by
      simp only [RStep2, hpc, hl, hs, hex]
    rw [hstep]
    obtain ⟨hnd, σ', hres, hline', hout'⟩ := hO
    refine ⟨σ', σ'.loc.idx - 1, bind_err hres, by rw [hout', hout0], ?_⟩
    rw [populate_nd σ' hnd]
    show _ = ({ err := _, loc := some { line := _, idx := _ } } : TErr)
    rw [← hline']
    rfl
  | errorAt e ln =>
    have hstep : RStep2 p r = .inr (e, ln) := by
      simp only [RStep2, hpc, hl, hs, hex]
    rw [hstep]
    obtain ⟨he, σ', i, hres, hdl, hout'⟩ := hO
    subst he
    exact ⟨σ', i, bind_err hres, by rw [hout', hout0], populate_dtm σ' hdl⟩

/-! ### one turn on a colon -/

/-- **A turn with the cursor on the colon in front of a statement steps over the
    colon and nothing else.** -/
theorem rns2_colon {p : RProgram2 F} {fuel : Nat} {σ : St F} (henv : Env p σ)
    {n j : Nat} {ss : List (RStmt2 F)}
    (hl : p.line n = some ss) (hj : j + 1 < ss.length)
    (hline : σ.loc.line = some n) (hidx : σ.loc.idx + 1 = (preToks2 ss (j + 1)).length) :
    runNextStatement fuel σ =
      .ok () { σ with state := .running, loc := { line := some n, idx := (preToks2 ss (j + 1)).length },
                      reads := σ.reads + 1 + 1 + 1 } := by
  have hs : ss[j]? = some ss[j] := by simp [show j < ss.length by omega]
  have hs' : ss[j + 1]? = some ss[j + 1] := by simp [hj]
  have hsplit := line_split ss (j + 1) _ hs'
  have hpre := preToks_succ ss j _ hs hj
  obtain ⟨t0, ts0, hhead, _, _⟩ := renderS2_head ss[j + 1]
  have hToks : lineToks σ = some ((preToks2 ss j ++ renderS2 ss[j]) ++
      (.kw .Colon :: (t0 :: (ts0 ++ renderTail2 (ss.drop (j + 1 + 1)))))) := by
    rw [lineToks_of henv.lines hl hline, hsplit, hpre, hhead]
    simp only [List.append_assoc, List.cons_append, List.nil_append]
  have hAt : At σ (preToks2 ss j ++ renderS2 ss[j])
      (.kw .Colon :: (t0 :: (ts0 ++ renderTail2 (ss.drop (j + 1 + 1))))) := by
    refine ⟨hToks, ?_⟩
    rw [hpre, List.length_append] at hidx
    simp only [List.length_cons, List.length_nil] at hidx
    omega
  have hAt1 : At (mv { σ with state := .running } 0 (σ.reads + 1)) (preToks2 ss j ++ renderS2 ss[j])
      (.kw .Colon :: (t0 :: (ts0 ++ renderTail2 (ss.drop (j + 1 + 1))))) := hAt
  have hbody : stmtBody (evalN fuel) (mv { σ with state := .running } 0 (σ.reads + 1)) =
      .ok () (mv (mv { σ with state := .running } 0 (σ.reads + 1)) 1 (σ.reads + 1 + 1)) := by
    unfold stmtBody
    rw [bind_ok (traceHere_off (σ := mv { σ with state := .running } 0 (σ.reads + 1)) henv.tracing)]
    unfold dispatch
    rw [bind_ok (next_eq hAt1)]
    rfl
  rw [rns_eq fuel σ hAt, bind_ok hbody, sequence_more (at_mv1 hAt1 _)]
  show Res.ok () _ = Res.ok () _
  congr 1
  simp only [mv]
  congr 1
  rw [hline]
  congr 1

end Abasic.Prog2L
