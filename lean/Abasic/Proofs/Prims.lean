import Abasic.Proofs.Hoare
/-
  The primitives that touch neither the nesting counter nor the GOSUB/function
  stack respect `RNS` (both unchanged, and the FOR-loop stack stays within its
  cap), hence every frame that contains `RNS`.
-/
namespace Abasic.Hoare
open Abasic M

variable {F : Type}

/-- nesting counter and stack unchanged; the loop stack stays within the cap if it was -/
def RNS (σ σ' : St F) : Prop :=
  σ'.nesting = σ.nesting ∧ σ'.stack = σ.stack ∧
  (σ.loops.length ≤ Extracted.stackLimit → σ'.loops.length ≤ Extracted.stackLimit)

/-- the usual case: none of the three changes -/
theorem rns_same {σ σ' : St F} (h1 : σ'.nesting = σ.nesting) (h2 : σ'.stack = σ.stack)
    (h3 : σ'.loops = σ.loops) : RNS σ σ' :=
  ⟨h1, h2, fun h => by rw [h3]; exact h⟩

instance : IsFrame (RNS (F := F)) where
  refl _ := rns_same rfl rfl rfl
  trans h1 h2 := ⟨h2.1.trans h1.1, h2.2.1.trans h1.2.1, fun h => h2.2.2 (h1.2.2 h)⟩

macro_rules | `(tactic| respects_leaf) => `(tactic| exact rns_same rfl rfl rfl)

theorem removeLoop_length (sym : Str) (l : List (LoopInfo F)) (x : LoopInfo F) (rest : List (LoopInfo F))
    (h : removeLoop sym l = some (x, rest)) : rest.length < l.length := by
  induction l with
  | nil => simp [removeLoop] at h
  | cons y ys ih =>
    simp only [removeLoop] at h
    split at h
    · simp only [Option.some.injEq, Prod.mk.injEq] at h
      rw [← h.2]; simp
    · have := ih h
      simp only [List.length_cons]; omega

theorem rns_tokensForLine (l : Option Nat) : Respects RNS (tokensForLine (F := F) l) := by
  apply respects_of_at; intro σ
  cases l with
  | none => exact respectsAt_of_eq_ok (a := σ.imm) (σ' := σ) rfl (rns_same rfl rfl rfl)
  | some n =>
    cases h : σ.lines.get n with
    | some ts =>
      refine respectsAt_of_eq_ok (a := ts) (σ' := σ) ?_ (rns_same rfl rfl rfl)
      simp only [tokensForLine, h]
    | none =>
      refine respectsAt_of_eq_err (e := { err := .panic "tokens_for_line: unwrap on None" }) (σ' := σ) ?_ (rns_same rfl rfl rfl)
      simp only [tokensForLine, h]

theorem rns_tokens : Respects RNS (tokens (F := F)) := by
  apply respects_of_at; intro σ
  exact (rns_tokensForLine σ.loc.line).at σ

macro_rules | `(tactic| respects_prim) => `(tactic| exact rns_tokens)

theorem rns_peek : Respects RNS (peek (F := F)) := by
  unfold peek
  respects_tac

macro_rules | `(tactic| respects_prim) => `(tactic| exact rns_peek)

theorem rns_advance : Respects RNS (advance (F := F)) := by
  unfold advance
  respects_tac
macro_rules | `(tactic| respects_prim) => `(tactic| exact rns_advance)

theorem rns_discardRemaining : Respects RNS (discardRemaining (F := F)) := by
  unfold discardRemaining
  respects_tac
macro_rules | `(tactic| respects_prim) => `(tactic| exact rns_discardRemaining)

theorem rns_rewindBeforeInput : Respects RNS (rewindBeforeInput (F := F)) := by
  unfold rewindBeforeInput
  respects_tac
macro_rules | `(tactic| respects_prim) => `(tactic| exact rns_rewindBeforeInput)

theorem rns_setVar (name : Str) (v : Value F) : Respects RNS (setVar name v) := by
  unfold setVar
  respects_tac
macro_rules | `(tactic| respects_prim) => `(tactic| exact rns_setVar _ _)

theorem rns_startLoop (sym : Str) (a b c : F) : Respects RNS (startLoop sym a b c) := by
  unfold startLoop
  apply respects_bind
  · apply respects_modify
    intro σ
    split
    · rename_i x rest heq
      exact ⟨rfl, rfl, fun h => Nat.le_trans (Nat.le_of_lt (removeLoop_length _ _ _ _ heq)) h⟩
    · exact rns_same rfl rfl rfl
  · intro _
    apply respects_get_bind
    intro σ
    by_cases hc : (σ.loops.length == Extracted.stackLimit) = true
    · rw [if_pos hc]; exact (respects_fail _).at σ
    · rw [if_neg hc]
      refine respectsAt_bind (respectsAt_set ⟨rfl, rfl, fun h => ?_⟩) (fun _ => rns_setVar _ _)
      have : σ.loops.length ≠ Extracted.stackLimit := by simpa using hc
      simp only [List.length_cons]
      omega
macro_rules | `(tactic| respects_prim) => `(tactic| exact rns_startLoop _ _ _ _)

theorem rns_endLoop [NumOps F] (sym : Str) : Respects RNS (endLoop (F := F) sym) := by
  unfold endLoop
  apply respects_get_bind
  intro σ
  dsimp only
  split
  · exact (respects_fail _).at σ
  · split
    · exact (respects_fail _).at σ
    · rename_i info rest heq
      have hlt := removeLoop_length _ _ _ _ heq
      have hset1 : RNS σ { σ with loops := info :: rest, loc := info.loc } :=
        ⟨rfl, rfl, fun h => by simp only [List.length_cons]; omega⟩
      have hset2 : RNS σ { σ with loops := rest } :=
        ⟨rfl, rfl, fun h => by show rest.length ≤ _; omega⟩
      respects_tac
macro_rules | `(tactic| respects_prim) => `(tactic| exact rns_endLoop _)

theorem rns_gotoLine (n : Nat) : Respects RNS (gotoLine (F := F) n) := by
  unfold gotoLine
  respects_tac
macro_rules | `(tactic| respects_prim) => `(tactic| exact rns_gotoLine _)

theorem rns_defineFunction (name : Str) (args : List Str) : Respects RNS (defineFunction (F := F) name args) := by
  unfold defineFunction
  respects_tac
macro_rules | `(tactic| respects_prim) => `(tactic| exact rns_defineFunction _ _)

theorem rns_nextDataElement : Respects RNS (nextDataElement (F := F)) := by
  unfold nextDataElement
  respects_tac
macro_rules | `(tactic| respects_prim) => `(tactic| exact rns_nextDataElement)

theorem rns_nextLine : Respects RNS (nextLine (F := F)) := by
  unfold nextLine
  respects_tac
macro_rules | `(tactic| respects_prim) => `(tactic| exact rns_nextLine)

theorem rns_emit (o : Out) : Respects RNS (emit (F := F) o) := by
  unfold emit
  respects_tac
macro_rules | `(tactic| respects_prim) => `(tactic| exact rns_emit _)

/-! Arrays.lean -/

theorem rns_ensureArray [NumOps F] (name : Str) (k : Nat) : Respects RNS (ensureArray (F := F) name k) := by
  unfold ensureArray
  respects_tac
macro_rules | `(tactic| respects_prim) => `(tactic| exact rns_ensureArray _ _)

theorem rns_arraySet [NumOps F] (name : Str) (idx : List Nat) (v : Value F) : Respects RNS (arraySet name idx v) := by
  unfold arraySet
  respects_tac
macro_rules | `(tactic| respects_prim) => `(tactic| exact rns_arraySet _ _ _)

theorem rns_arrayCreate [NumOps F] (name : Str) (idx : List Nat) : Respects RNS (arrayCreate (F := F) name idx) := by
  unfold arrayCreate
  respects_tac
macro_rules | `(tactic| respects_prim) => `(tactic| exact rns_arrayCreate _ _)

theorem rns_rnd [NumOps F] (x : F) : Respects RNS (rnd x) := by
  unfold rnd
  respects_tac
macro_rules | `(tactic| respects_prim) => `(tactic| exact rns_rnd _)

/-! Stmt.lean / Interp.lean -/

theorem rns_takeInput [NumOps F] : Respects RNS (takeInput (F := F)) := by
  unfold takeInput
  respects_tac
macro_rules | `(tactic| respects_prim) => `(tactic| exact rns_takeInput)

theorem rns_rewindAndAwaitInput : Respects RNS (rewindAndAwaitInput (F := F)) := by
  unfold rewindAndAwaitInput
  respects_tac
macro_rules | `(tactic| respects_prim) => `(tactic| exact rns_rewindAndAwaitInput)

theorem rns_restoreData : Respects RNS (M.modify fun s : St F => { s with data := none }) := by
  respects_tac

theorem rns_returnToIdle : Respects RNS (returnToIdle (F := F)) := by
  unfold returnToIdle
  respects_tac
macro_rules | `(tactic| respects_prim) => `(tactic| exact rns_returnToIdle)

theorem rns_provideInput (text : Str) : Respects RNS (provideInput (F := F) text) := by
  unfold provideInput
  respects_tac

theorem rns_randomize (seed : Nat) : Respects RNS (randomize (F := F) seed) := by
  unfold randomize
  respects_tac

/-! ### the class of frames the evaluator is lifted through -/

/-- A frame that contains `RNS` and is respected by the operations that change
    the nesting counter or the stack. -/
class Prims (R : St F → St F → Prop) : Prop extends IsFrame R where
  sub : ∀ {σ σ'}, RNS σ σ' → R σ σ'
  nested : ∀ {α : Type} {m : M F α}, Respects R m → Respects R (Abasic.nested m)
  setImmediate : ∀ ts, Respects R (Abasic.setImmediate ts)
  gosubLine : ∀ n, Respects R (Abasic.gosubLine n)
  returnFromGosub : Respects R Abasic.returnFromGosub
  pushFunctionCall : ∀ name b, Respects R (Abasic.pushFunctionCall name b)
  popFunctionCall : Respects R Abasic.popFunctionCall
  progBreak : ∀ σ : St F, R σ σ.progBreak

/-- … and by the two resets of the host API. -/
class HostPrims (R : St F → St F → Prop) : Prop extends Prims R where
  runFromFirst : ∀ σ : St F, R σ σ.runFromFirst
  setNumberedLine : ∀ (σ : St F) n ts, R σ (σ.setNumberedLine n ts)

macro_rules | `(tactic| respects_prim) => `(tactic| exact Prims.setImmediate _)
macro_rules | `(tactic| respects_prim) => `(tactic| exact Prims.gosubLine _)
macro_rules | `(tactic| respects_prim) => `(tactic| exact Prims.returnFromGosub)
macro_rules | `(tactic| respects_prim) => `(tactic| exact Prims.pushFunctionCall _ _)
macro_rules | `(tactic| respects_prim) => `(tactic| exact Prims.popFunctionCall)
macro_rules | `(tactic| respects_prim) => `(tactic| with_reducible apply Prims.nested)
macro_rules | `(tactic| respects_prim) => `(tactic| (refine Respects.mono (fun _ _ => Prims.sub) ?_; respects_prim))
macro_rules | `(tactic| respects_leaf) => `(tactic| exact Prims.sub (rns_same rfl rfl rfl))

end Abasic.Hoare
