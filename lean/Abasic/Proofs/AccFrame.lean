import Abasic.Interp
/-
  Frame lemma for the interpreter's accumulators (used by C15/C10): the
  not-yet-taken output queue, the read counter of the verification hooks and the
  analyzer's access log are write-only for everything a running program does.
  `T d s` is `s` with older output `d.out` under its queue, `d.reads` more reads
  and `d.accesses` more log entries; `Comm d m` says that `m` commutes with `T d`:
  running `m` from `T d s` gives exactly the result of running it from `s`, with
  `T d` applied to the resulting state — same value, same error, same new output.
  It is closed under `bind`, `attempt`, `nested`, `if`, `match`; every primitive of
  Program.lean / Arrays.lean and every evaluator function has it; hence so do
  `runNextStatement`, `continueEvaluating` and the RUN command.
-/
namespace Abasic.Acc
open Abasic M

variable {F : Type}

/-- what is added underneath the accumulators -/
structure Add where
  out : List Out := []
  reads : Nat := 0
  accesses : List (Str × Nat × Nat × Access) := []

def T (d : Add) (s : St F) : St F :=
  { s with out := s.out ++ d.out, reads := d.reads + s.reads, accesses := s.accesses ++ d.accesses }

theorem T_lines (d : Add) (s : St F) : (T d s).lines = s.lines := rfl
theorem T_imm (d : Add) (s : St F) : (T d s).imm = s.imm := rfl
theorem T_loc (d : Add) (s : St F) : (T d s).loc = s.loc := rfl
theorem T_bp (d : Add) (s : St F) : (T d s).bp = s.bp := rfl
theorem T_stack (d : Add) (s : St F) : (T d s).stack = s.stack := rfl
theorem T_loops (d : Add) (s : St F) : (T d s).loops = s.loops := rfl
theorem T_data (d : Add) (s : St F) : (T d s).data = s.data := rfl
theorem T_fns (d : Add) (s : St F) : (T d s).fns = s.fns := rfl
theorem T_nesting (d : Add) (s : St F) : (T d s).nesting = s.nesting := rfl
theorem T_input (d : Add) (s : St F) : (T d s).input = s.input := rfl
theorem T_state (d : Add) (s : St F) : (T d s).state = s.state := rfl
theorem T_rng (d : Add) (s : St F) : (T d s).rng = s.rng := rfl
theorem T_vars (d : Add) (s : St F) : (T d s).vars = s.vars := rfl
theorem T_arrays (d : Add) (s : St F) : (T d s).arrays = s.arrays := rfl
theorem T_warnings (d : Add) (s : St F) : (T d s).warnings = s.warnings := rfl
theorem T_tracing (d : Add) (s : St F) : (T d s).tracing = s.tracing := rfl

macro "tproj" : tactic => `(tactic| simp only [T_lines, T_imm, T_loc, T_bp, T_stack, T_loops, T_data, T_fns, T_nesting, T_input, T_state, T_rng, T_vars, T_arrays, T_warnings, T_tracing])

def mapRes {α : Type} (g : St F → St F) : Res F α → Res F α
  | .ok a s => .ok a (g s)
  | .err e s => .err e (g s)

structure Comm (d : Add) {α : Type} (m : M F α) : Prop where
  h : ∀ s, m (T d s) = mapRes (T d) (m s)

variable {d : Add}

theorem Comm.pure {α : Type} (a : α) : Comm d (pure a : M F α) := ⟨fun _ => rfl⟩

theorem Comm.bind {α β : Type} {m : M F α} {f : α → M F β} (hm : Comm d m) (hf : ∀ a, Comm d (f a)) :
    Comm d (m >>= f) := by
  refine ⟨fun s => ?_⟩
  show M.bindM m f (T d s) = mapRes (T d) (M.bindM m f s)
  unfold M.bindM
  rw [hm.h s]
  cases m s with
  | ok a s' => exact (hf a).h s'
  | err e s' => rfl

theorem Comm.fail {α : Type} (e : Err) : Comm d (M.fail e : M F α) := ⟨fun _ => rfl⟩
theorem Comm.rpanic {α : Type} (x : String) : Comm d (M.rpanic x : M F α) := ⟨fun _ => rfl⟩
theorem Comm.throw {α : Type} (e : TErr) : Comm d (M.throw e : M F α) := ⟨fun _ => rfl⟩
theorem Comm.modify {f : St F → St F} (h : ∀ s, f (T d s) = T d (f s)) : Comm d (M.modify f) :=
  ⟨fun s => by show Res.ok () (f (T d s)) = Res.ok () (T d (f s)); rw [h s]⟩

/-- `get` followed by something that may mention the state it got -/
theorem Comm.get_bind {α : Type} {f : St F → M F α} (h : ∀ s, f (T d s) (T d s) = mapRes (T d) (f s s)) :
    Comm d (M.get >>= f) := ⟨fun s => h s⟩

/-- `get` followed by something that reads no accumulator -/
theorem Comm.get_bind_ro {α : Type} {f : St F → M F α} (hf : ∀ s, Comm d (f s)) (h : ∀ s, f (T d s) = f s) :
    Comm d (M.get >>= f) := ⟨fun s => by
  show f (T d s) (T d s) = mapRes (T d) (f s s)
  rw [h s]; exact (hf s).h s⟩

theorem Comm.attempt {α : Type} {m : M F α} (hm : Comm d m) : Comm d (M.attempt m) := by
  refine ⟨fun s => ?_⟩
  unfold M.attempt
  rw [hm.h s]
  cases m s <;> rfl

theorem Comm.ofExcept {α : Type} (r : Except TErr α) : Comm d (M.ofExcept r : M F α) := by
  cases r <;> exact ⟨fun _ => rfl⟩

/-- one structural step of a `Comm` proof -/
macro "comm_step" : tactic => `(tactic| first
  | assumption
  | exact Comm.pure _
  | exact Comm.fail _
  | exact Comm.rpanic _
  | exact Comm.throw _
  | exact Comm.ofExcept _
  | ((with_reducible apply Comm.modify); intro _; rfl)
  | ((with_reducible apply Comm.get_bind_ro); case h => (intro _; rfl))
  | with_reducible apply Comm.attempt
  | with_reducible apply Comm.bind
  | intro _
  | split
  | dsimp only)

macro "comm" : tactic => `(tactic| repeat' comm_step)


variable [NumOps F]
set_option linter.unusedSectionVars false

theorem comm_tokensForLine (l : Option Nat) : Comm d (tokensForLine (F := F) l) := by
  refine ⟨fun s => ?_⟩
  cases l with
  | none => rfl
  | some n =>
    show (match s.lines.get n with | some ts => Res.ok ts (T d s) | none => _) = mapRes (T d) (match s.lines.get n with | some ts => Res.ok ts s | none => _)
    cases s.lines.get n <;> rfl
macro_rules | `(tactic| comm_step) => `(tactic| with_reducible exact comm_tokensForLine _)

theorem comm_tokens : Comm d (tokens : M F _) := ⟨fun s => (comm_tokensForLine (d := d) s.loc.line).h s⟩
macro_rules | `(tactic| comm_step) => `(tactic| with_reducible exact comm_tokens)

theorem comm_peek : Comm d (peek : M F _) := by unfold peek; comm
macro_rules | `(tactic| comm_step) => `(tactic| with_reducible exact comm_peek)

theorem comm_advance : Comm d (advance : M F _) := by unfold advance; comm
macro_rules | `(tactic| comm_step) => `(tactic| with_reducible exact comm_advance)

theorem comm_next : Comm d (next : M F _) := by unfold next; comm
macro_rules | `(tactic| comm_step) => `(tactic| with_reducible exact comm_next)

theorem comm_hasNext : Comm d (hasNext : M F _) := by unfold hasNext; comm
macro_rules | `(tactic| comm_step) => `(tactic| with_reducible exact comm_hasNext)

theorem comm_nextUnwrapped : Comm d (nextUnwrapped : M F _) := by unfold nextUnwrapped; comm
macro_rules | `(tactic| comm_step) => `(tactic| with_reducible exact comm_nextUnwrapped)

theorem comm_expect (k : Kw) : Comm d (expect k : M F _) := by unfold expect; comm
macro_rules | `(tactic| comm_step) => `(tactic| with_reducible exact comm_expect _)

theorem comm_accept (k : Kw) : Comm d (accept k : M F _) := by unfold accept; comm
macro_rules | `(tactic| comm_step) => `(tactic| with_reducible exact comm_accept _)

theorem comm_peekIsKw (k : Kw) : Comm d (peekIsKw k : M F _) := by unfold peekIsKw; comm
macro_rules | `(tactic| comm_step) => `(tactic| with_reducible exact comm_peekIsKw _)

theorem comm_tryNext {α : Type} (f : Token F → Option α) : Comm d (tryNext f : M F _) := by
  unfold tryNext; comm
macro_rules | `(tactic| comm_step) => `(tactic| with_reducible exact comm_tryNext _)

theorem comm_discardRemaining : Comm d (discardRemaining : M F _) := by unfold discardRemaining; comm
macro_rules | `(tactic| comm_step) => `(tactic| with_reducible exact comm_discardRemaining)

theorem comm_lineBudget : Comm d (lineBudget : M F _) := by unfold lineBudget; comm
macro_rules | `(tactic| comm_step) => `(tactic| with_reducible exact comm_lineBudget)

theorem comm_setImmediate (ts : List (Token F)) : Comm d (setImmediate ts : M F _) := by
  unfold setImmediate; comm
macro_rules | `(tactic| comm_step) => `(tactic| with_reducible exact comm_setImmediate _)

theorem comm_emit (o : Out) : Comm d (emit o : M F _) := by unfold emit; comm
macro_rules | `(tactic| comm_step) => `(tactic| with_reducible exact comm_emit _)


theorem comm_setVar (n : Str) (v : Value F) : Comm d (setVar n v : M F _) := by unfold setVar; comm
macro_rules | `(tactic| comm_step) => `(tactic| with_reducible exact comm_setVar _ _)

theorem comm_rewindBeforeInput : Comm d (rewindBeforeInput : M F _) := by
  unfold rewindBeforeInput
  apply Comm.bind comm_tokens
  intro ts
  apply Comm.get_bind
  intro s
  show (match findInputBefore ts s.loc.idx with
        | some i => M.set { T d s with loc := { s.loc with idx := i }, reads := d.reads + s.reads + (s.loc.idx - i) }
        | none => M.rpanic "rewind_before_token: token not found") (T d s) = _
  cases findInputBefore ts s.loc.idx with
  | none => rfl
  | some i =>
    show Res.ok () _ = Res.ok () _
    simp only [T, Nat.add_assoc]
macro_rules | `(tactic| comm_step) => `(tactic| with_reducible exact comm_rewindBeforeInput)

theorem comm_continueFromBreakpoint : Comm d (continueFromBreakpoint : M F _) := by
  unfold continueFromBreakpoint
  apply Comm.bind (comm_setImmediate _)
  intro _
  apply Comm.get_bind
  intro s
  tproj
  cases s.bp <;> rfl
macro_rules | `(tactic| comm_step) => `(tactic| with_reducible exact comm_continueFromBreakpoint)


theorem comm_startLoop (sym : Str) (a b c : F) : Comm d (startLoop sym a b c : M F _) := by
  unfold startLoop
  apply Comm.bind
  · apply Comm.modify
    intro s
    tproj
    cases removeLoop sym s.loops <;> rfl
  · intro _
    apply Comm.get_bind
    intro s
    by_cases hc : (s.loops.length == Extracted.stackLimit) = true
    · rw [if_pos hc, if_pos (c := ((T d s).loops.length == Extracted.stackLimit) = true) hc]; rfl
    · rw [if_neg hc, if_neg (c := ((T d s).loops.length == Extracted.stackLimit) = true) hc]
      exact (comm_setVar (d := d) sym (.num a)).h
        { s with loops := { loc := s.loc, sym := sym, toV := b, stepV := c } :: s.loops }
macro_rules | `(tactic| comm_step) => `(tactic| with_reducible exact comm_startLoop _ _ _ _)


theorem comm_endLoop (sym : Str) : Comm d (endLoop sym : M F _) := by
  unfold endLoop
  apply Comm.get_bind
  intro s
  have hv : getVar (T d s) sym = getVar s sym := rfl
  dsimp only
  rw [hv, T_loops]
  cases getVar s sym with
  | str x => rfl
  | num cur =>
    dsimp only
    cases removeLoop sym s.loops with
    | none => rfl
    | some p =>
      obtain ⟨info, rest⟩ := p
      dsimp only
      split <;> split <;> first
        | exact (comm_setVar (d := d) sym _).h { s with loops := info :: rest, loc := info.loc }
        | exact (comm_setVar (d := d) sym _).h { s with loops := rest }
macro_rules | `(tactic| comm_step) => `(tactic| with_reducible exact comm_endLoop _)

theorem comm_gotoLine (n : Nat) : Comm d (gotoLine n : M F _) := by
  unfold gotoLine
  apply Comm.bind
  · comm
  · intro _
    apply Comm.get_bind
    intro s
    rw [T_lines]
    cases s.lines.has n <;> rfl
macro_rules | `(tactic| comm_step) => `(tactic| with_reducible exact comm_gotoLine _)


theorem comm_gosubLine (n : Nat) : Comm d (gosubLine n : M F _) := by
  unfold gosubLine
  apply Comm.get_bind
  intro s
  rw [T_stack]
  cases (s.stack.length == Extracted.stackLimit)
  · have : Comm d (do gotoLine (F := F) n; M.modify fun s' => { s' with stack := { ret := s.loc, vars := [] } :: s'.stack }) := by
      comm
    exact this.h s
  · rfl
macro_rules | `(tactic| comm_step) => `(tactic| with_reducible exact comm_gosubLine _)

theorem comm_returnFromGosub : Comm d (returnFromGosub : M F _) := by
  unfold returnFromGosub
  apply Comm.bind
  · comm
  · intro _
    apply Comm.get_bind
    intro s
    rw [T_stack]
    cases s.stack <;> rfl
macro_rules | `(tactic| comm_step) => `(tactic| with_reducible exact comm_returnFromGosub)

theorem comm_defineFunction (n : Str) (a : List Str) : Comm d (defineFunction n a : M F _) := by
  unfold defineFunction
  apply Comm.get_bind
  intro s
  rw [T_loc]
  cases s.loc.line <;> rfl
macro_rules | `(tactic| comm_step) => `(tactic| with_reducible exact comm_defineFunction _ _)

theorem comm_pushFunctionCall (n : Str) (b : List (Str × Value F)) : Comm d (pushFunctionCall n b : M F _) := by
  unfold pushFunctionCall
  apply Comm.get_bind
  intro s
  rw [T_stack, T_fns]
  cases (s.stack.length == Extracted.stackLimit)
  · simp only [Bool.false_eq_true, ↓reduceIte]
    cases alGet n s.fns <;> rfl
  · rfl
macro_rules | `(tactic| comm_step) => `(tactic| with_reducible exact comm_pushFunctionCall _ _)

theorem comm_popFunctionCall : Comm d (popFunctionCall : M F _) := by
  unfold popFunctionCall
  apply Comm.get_bind
  intro s
  rw [T_stack]
  cases s.stack <;> rfl
macro_rules | `(tactic| comm_step) => `(tactic| with_reducible exact comm_popFunctionCall)

theorem comm_nextLine : Comm d (nextLine : M F _) := by
  unfold nextLine
  apply Comm.get_bind
  intro s
  rw [T_loc, T_lines]
  cases s.loc.line with
  | none => rfl
  | some n => dsimp only; cases s.lines.after n <;> rfl
macro_rules | `(tactic| comm_step) => `(tactic| with_reducible exact comm_nextLine)

theorem comm_enterNested : Comm d (enterNested : M F _) := by
  unfold enterNested
  apply Comm.get_bind
  intro s
  rw [T_nesting]
  cases (s.nesting == Extracted.nestingLimit) <;> rfl
macro_rules | `(tactic| comm_step) => `(tactic| with_reducible exact comm_enterNested)

theorem comm_exitNested : Comm d (exitNested : M F _) := by
  unfold exitNested
  apply Comm.get_bind
  intro s
  rw [T_nesting]
  cases s.nesting <;> rfl
macro_rules | `(tactic| comm_step) => `(tactic| with_reducible exact comm_exitNested)

theorem comm_nested {α : Type} {m : M F α} (hm : Comm d m) : Comm d (nested m) := by
  unfold nested; comm


theorem comm_nextDataElement : Comm d (nextDataElement : M F _) := by unfold nextDataElement; comm
macro_rules | `(tactic| comm_step) => `(tactic| with_reducible exact comm_nextDataElement)

theorem comm_liftE {α : Type} (r : Except Err α) : Comm d (liftE r : M F α) := by
  cases r <;> exact ⟨fun _ => rfl⟩
macro_rules | `(tactic| comm_step) => `(tactic| with_reducible exact comm_liftE _)

theorem comm_warn (msg : Str) : Comm d (warn msg : M F _) := by unfold warn; comm
macro_rules | `(tactic| comm_step) => `(tactic| with_reducible exact comm_warn _)

theorem comm_warnUndeclaredArray (n : Str) : Comm d (warnUndeclaredArray n : M F _) := by
  unfold warnUndeclaredArray; comm
macro_rules | `(tactic| comm_step) => `(tactic| with_reducible exact comm_warnUndeclaredArray _)

theorem comm_ensureArray (n : Str) (k : Nat) : Comm d (ensureArray n k : M F _) := by
  unfold ensureArray
  apply Comm.get_bind
  intro s
  rw [T_arrays]
  cases alHas n s.arrays
  · simp only [Bool.false_eq_true, ↓reduceIte]
    cases ArrayV.create (F := F) n (List.replicate k Extracted.defaultArraySize) <;> rfl
  · rfl
macro_rules | `(tactic| comm_step) => `(tactic| with_reducible exact comm_ensureArray _ _)

theorem comm_arrayGet (n : Str) (i : List Nat) : Comm d (arrayGet n i : M F _) := by
  unfold arrayGet; comm
macro_rules | `(tactic| comm_step) => `(tactic| with_reducible exact comm_arrayGet _ _)

theorem comm_arrayCreate (n : Str) (i : List Nat) : Comm d (arrayCreate n i : M F _) := by
  unfold arrayCreate
  apply Comm.get_bind
  intro s
  rw [T_arrays]
  cases alHas n s.arrays
  · simp only [Bool.false_eq_true, ↓reduceIte]
    cases ArrayV.create (F := F) n i <;> rfl
  · rfl
macro_rules | `(tactic| comm_step) => `(tactic| with_reducible exact comm_arrayCreate _ _)

theorem comm_rnd (x : F) : Comm d (rnd x : M F _) := by
  unfold rnd
  apply Comm.get_bind
  intro s
  rw [T_rng]
  split
  · rfl
  · split
    · rfl
    · generalize Extracted.rngMultiplier * s.rng + Extracted.rngIncrement = prod
      dsimp only
      generalize prod % Extracted.rngModulus = seed
      split <;> rfl
macro_rules | `(tactic| comm_step) => `(tactic| with_reducible exact comm_rnd _)


theorem comm_arraySet (n : Str) (i : List Nat) (v : Value F) : Comm d (arraySet n i v : M F _) := by
  unfold arraySet
  split
  · comm
  · apply Comm.bind (comm_ensureArray _ _)
    intro _
    apply Comm.get_bind
    intro s
    rw [T_arrays]
    cases alGet n s.arrays with
    | none => rfl
    | some a =>
      cases a with
      | strs dims cells =>
        cases v with
        | str x =>
          dsimp only
          cases linearIndex i dims with
          | error e => rfl
          | ok k => dsimp only; split <;> rfl
        | num x => rfl
      | nums dims cells =>
        cases v with
        | str x => rfl
        | num x =>
          dsimp only
          cases linearIndex i dims with
          | error e => rfl
          | ok k => dsimp only; split <;> rfl
macro_rules | `(tactic| comm_step) => `(tactic| with_reducible exact comm_arraySet _ _ _)


/-! ### expression.rs -/

section evaluator
variable (ev : Evals F) (he : Comm d ev.expr) (hs : Comm d ev.stmt)
include he

theorem comm_arrayIndexLoop (n : Nat) (acc : List Nat) : Comm d (arrayIndexLoop ev n acc) := by
  induction n generalizing acc with
  | zero => unfold arrayIndexLoop; comm
  | succ n ih => unfold arrayIndexLoop; comm; exact ih _
macro_rules | `(tactic| comm_step) => `(tactic| with_reducible exact comm_arrayIndexLoop _ ‹_› _ _)

theorem comm_arrayIndex : Comm d (arrayIndex ev) := by unfold arrayIndex; comm
macro_rules | `(tactic| comm_step) => `(tactic| with_reducible exact comm_arrayIndex _ ‹_›)

theorem comm_numberFunctionArg : Comm d (numberFunctionArg ev) := by unfold numberFunctionArg; comm
macro_rules | `(tactic| comm_step) => `(tactic| with_reducible exact comm_numberFunctionArg _ ‹_›)

theorem comm_bindArgs (arity : Nat) (l : List Str) (i : Nat) (acc : List (Str × Value F)) :
    Comm d (bindArgs ev arity l i acc) := by
  induction l generalizing i acc with
  | nil => unfold bindArgs; comm
  | cons a rest ih => unfold bindArgs; comm <;> exact ih _ _
macro_rules | `(tactic| comm_step) => `(tactic| with_reducible exact comm_bindArgs _ ‹_› _ _ _ _)

theorem comm_userFunctionCall (name : Str) : Comm d (userFunctionCall ev name) := by
  unfold userFunctionCall; comm
macro_rules | `(tactic| comm_step) => `(tactic| with_reducible exact comm_userFunctionCall _ ‹_› _)

theorem comm_functionCall (name : Str) : Comm d (functionCall ev name) := by unfold functionCall; comm
macro_rules | `(tactic| comm_step) => `(tactic| with_reducible exact comm_functionCall _ ‹_› _)

theorem comm_term : Comm d (term ev) := by unfold term; comm
macro_rules | `(tactic| comm_step) => `(tactic| with_reducible exact comm_term _ ‹_›)

theorem comm_parenExpr : Comm d (parenExpr ev) := by unfold parenExpr; comm
macro_rules | `(tactic| comm_step) => `(tactic| with_reducible exact comm_parenExpr _ ‹_›)

theorem comm_unaryExpr : Comm d (unaryExpr ev) := by unfold unaryExpr; comm
macro_rules | `(tactic| comm_step) => `(tactic| with_reducible exact comm_unaryExpr _ ‹_›)

omit he in
theorem comm_levelLoop {sub : M F (Value F)} (hsub : Comm d sub) (ops : Token F → Option BinOp)
    (n : Nat) (v : Value F) : Comm d (levelLoop sub ops n v) := by
  induction n generalizing v with
  | zero => unfold levelLoop; comm
  | succ n ih => unfold levelLoop; have := ih; comm

omit he in
theorem comm_level {sub : M F (Value F)} (hsub : Comm d sub) (ops : Token F → Option BinOp) :
    Comm d (level sub ops) := by
  unfold level
  have := fun n v => comm_levelLoop (d := d) hsub ops n v
  comm
  apply this

theorem comm_orExpr : Comm d (orExpr ev) := by
  unfold orExpr
  repeat' apply comm_level
  exact comm_unaryExpr ev he

theorem comm_exprBody : Comm d (exprBody ev) := comm_nested (comm_orExpr ev he)

/-! ### statement.rs -/

theorem comm_optionalArrayIndex : Comm d (optionalArrayIndex ev) := by unfold optionalArrayIndex; comm
macro_rules | `(tactic| comm_step) => `(tactic| with_reducible exact comm_optionalArrayIndex _ ‹_›)

omit he in
theorem comm_assignValue (lv : LValue) (v : Value F) : Comm d (assignValue lv v) := by
  unfold assignValue; comm
macro_rules | `(tactic| comm_step) => `(tactic| with_reducible exact comm_assignValue _ _)

theorem comm_assignmentStatement (name : Str) : Comm d (assignmentStatement ev name) := by
  unfold assignmentStatement; comm
macro_rules | `(tactic| comm_step) => `(tactic| with_reducible exact comm_assignmentStatement _ ‹_› _)

theorem comm_letStatement : Comm d (letStatement ev) := by unfold letStatement; comm
macro_rules | `(tactic| comm_step) => `(tactic| with_reducible exact comm_letStatement _ ‹_›)

theorem comm_parseLValue : Comm d (parseLValue ev) := by unfold parseLValue; comm
macro_rules | `(tactic| comm_step) => `(tactic| with_reducible exact comm_parseLValue _ ‹_›)

omit he in
theorem comm_gotoStatement : Comm d (gotoStatement (F := F)) := by unfold gotoStatement; comm
macro_rules | `(tactic| comm_step) => `(tactic| with_reducible exact comm_gotoStatement)

omit he in
theorem comm_gosubStatement : Comm d (gosubStatement (F := F)) := by unfold gosubStatement; comm
macro_rules | `(tactic| comm_step) => `(tactic| with_reducible exact comm_gosubStatement)

theorem comm_readLoop (n : Nat) : Comm d (readLoop ev n) := by
  induction n with
  | zero => unfold readLoop; comm
  | succ n ih => unfold readLoop; comm
macro_rules | `(tactic| comm_step) => `(tactic| with_reducible exact comm_readLoop _ ‹_› _)

theorem comm_readStatement : Comm d (readStatement ev) := by unfold readStatement; comm
macro_rules | `(tactic| comm_step) => `(tactic| with_reducible exact comm_readStatement _ ‹_›)

omit he in
theorem comm_takeInput : Comm d (takeInput (F := F)) := by
  unfold takeInput
  apply Comm.get_bind
  intro s
  rw [T_input]
  cases s.input <;> rfl
macro_rules | `(tactic| comm_step) => `(tactic| with_reducible exact comm_takeInput)

omit he in
theorem comm_rewindAndAwaitInput : Comm d (rewindAndAwaitInput (F := F)) := by
  unfold rewindAndAwaitInput; comm
macro_rules | `(tactic| comm_step) => `(tactic| with_reducible exact comm_rewindAndAwaitInput)

theorem comm_inputStatement : Comm d (inputStatement ev) := by unfold inputStatement; comm
macro_rules | `(tactic| comm_step) => `(tactic| with_reducible exact comm_inputStatement _ ‹_›)

theorem comm_dimStatement : Comm d (dimStatement ev) := by unfold dimStatement; comm
macro_rules | `(tactic| comm_step) => `(tactic| with_reducible exact comm_dimStatement _ ‹_›)

theorem comm_printLoop (n : Nat) (semi : Bool) (acc : Str) : Comm d (printLoop ev n semi acc) := by
  induction n generalizing semi acc with
  | zero => unfold printLoop; comm
  | succ n ih => unfold printLoop; comm <;> exact ih _ _
macro_rules | `(tactic| comm_step) => `(tactic| with_reducible exact comm_printLoop _ ‹_› _ _ _)

theorem comm_printStatement : Comm d (printStatement ev) := by unfold printStatement; comm
macro_rules | `(tactic| comm_step) => `(tactic| with_reducible exact comm_printStatement _ ‹_›)

theorem comm_forStatement : Comm d (forStatement ev) := by unfold forStatement; comm
macro_rules | `(tactic| comm_step) => `(tactic| with_reducible exact comm_forStatement _ ‹_›)

omit he in
theorem comm_nextStatement : Comm d (nextStatement (F := F)) := by unfold nextStatement; comm
macro_rules | `(tactic| comm_step) => `(tactic| with_reducible exact comm_nextStatement)

omit he in
theorem comm_defArgsLoop (n : Nat) (acc : List Str) : Comm d (defArgsLoop (F := F) n acc) := by
  induction n generalizing acc with
  | zero => unfold defArgsLoop; comm
  | succ n ih => unfold defArgsLoop; comm <;> exact ih _
macro_rules | `(tactic| comm_step) => `(tactic| with_reducible exact comm_defArgsLoop _ _)

omit he in
theorem comm_skipToColonLoop (n : Nat) : Comm d (skipToColonLoop (F := F) n) := by
  induction n with
  | zero => unfold skipToColonLoop; comm
  | succ n ih => unfold skipToColonLoop; comm
macro_rules | `(tactic| comm_step) => `(tactic| with_reducible exact comm_skipToColonLoop _)

omit he in
theorem comm_defStatement : Comm d (defStatement (F := F)) := by unfold defStatement; comm
macro_rules | `(tactic| comm_step) => `(tactic| with_reducible exact comm_defStatement)

omit he in
theorem comm_breakAtCurrentLocation : Comm d (breakAtCurrentLocation (F := F)) := by
  unfold breakAtCurrentLocation; comm
macro_rules | `(tactic| comm_step) => `(tactic| with_reducible exact comm_breakAtCurrentLocation)

omit he in
theorem comm_traceHere : Comm d (traceHere (F := F)) := by unfold traceHere; comm
macro_rules | `(tactic| comm_step) => `(tactic| with_reducible exact comm_traceHere)

include hs

theorem comm_statementOrGoto : Comm d (statementOrGoto ev) := by
  unfold statementOrGoto
  have := comm_nested hs
  comm
macro_rules | `(tactic| comm_step) => `(tactic| with_reducible exact comm_statementOrGoto _ ‹_› ‹_›)

theorem comm_ifSkipLoop (n : Nat) : Comm d (ifSkipLoop ev n) := by
  induction n with
  | zero => unfold ifSkipLoop; comm
  | succ n ih => unfold ifSkipLoop; comm
macro_rules | `(tactic| comm_step) => `(tactic| with_reducible exact comm_ifSkipLoop _ ‹_› ‹_› _)

theorem comm_ifStatement : Comm d (ifStatement ev) := by unfold ifStatement; comm
macro_rules | `(tactic| comm_step) => `(tactic| with_reducible exact comm_ifStatement _ ‹_› ‹_›)

theorem comm_dispatch : Comm d (dispatch ev) := by unfold dispatch; comm

theorem comm_stmtBody : Comm d (stmtBody ev) := by
  unfold stmtBody
  have := comm_dispatch ev he hs
  comm

end evaluator


theorem comm_evalN (n : Nat) : Comm d (evalN (F := F) n).expr ∧ Comm d (evalN (F := F) n).stmt := by
  induction n with
  | zero => exact ⟨Comm.fail _, Comm.fail _⟩
  | succ n ih => exact ⟨comm_exprBody _ ih.1, comm_stmtBody _ ih.1 ih.2⟩

/-! ### interpreter.rs -/

theorem comm_runNextStatement (fuel : Nat) : Comm d (runNextStatement (F := F) fuel) := by
  unfold runNextStatement returnToIdle
  have := comm_stmtBody (d := d) _ (comm_evalN (F := F) fuel).1 (comm_evalN fuel).2
  comm

theorem comm_postprocess {α : Type} {m : M F α} (hm : Comm d m) : Comm d (postprocess m) := by
  refine ⟨fun s => ?_⟩
  unfold postprocess
  rw [hm.h s]
  cases m s <;> rfl

theorem comm_continueEvaluating (fuel : Nat) : Comm d (continueEvaluating (F := F) fuel) := by
  unfold continueEvaluating
  have := comm_postprocess (comm_runNextStatement (d := d) (F := F) fuel)
  comm

end Abasic.Acc
