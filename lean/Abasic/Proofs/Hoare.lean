import Lean.Elab.Tactic
import Abasic.Interp
/-
  A small Hoare-style framework for the evaluation monad `M F α = St F → Res F α`.

  `Respects R m` : every run of `m` (successful or failing) relates the initial
  and the final state by the transition relation `R`.  `R` is a *frame*:
  reflexive and transitive (`IsFrame R`).  `RespectsAt R m σ` is the same for
  one initial state; it is what lets a proof look through `let s ← get; … set
  { s with … }`.

  The structural rules are generic in `R`; the primitive operations of the
  interpreter are collected in the class `Prims R` (and `HostPrims R` for the
  host API), so that the lifting through the whole evaluator (Proofs/Lift.lean)
  is done ONCE for every frame whose primitives respect it.
-/
namespace Abasic.Hoare
open Abasic M

variable {F : Type}

/-- reflexive and transitive transition relations -/
class IsFrame (R : St F → St F → Prop) : Prop where
  refl : ∀ σ, R σ σ
  trans : ∀ {a b c}, R a b → R b c → R a c

def RespectsAt {α : Type} (R : St F → St F → Prop) (m : M F α) (σ : St F) : Prop :=
  (∀ a σ', m σ = .ok a σ' → R σ σ') ∧ (∀ e σ', m σ = .err e σ' → R σ σ')

def Respects {α : Type} (R : St F → St F → Prop) (m : M F α) : Prop :=
  ∀ σ, (∀ a σ', m σ = .ok a σ' → R σ σ') ∧ (∀ e σ', m σ = .err e σ' → R σ σ')

section rules
variable {R : St F → St F → Prop} {α β : Type}

theorem Respects.at {m : M F α} (h : Respects R m) (σ : St F) : RespectsAt R m σ := h σ

theorem respects_of_at {m : M F α} (h : ∀ σ, RespectsAt R m σ) : Respects R m := h

theorem respectsAt_of_respects {m : M F α} {σ : St F} (h : Respects R m) : RespectsAt R m σ := h σ

/-- the result in one state, as a case split -/
theorem respectsAt_of_eq_ok {m : M F α} {σ σ' : St F} {a : α} (h : m σ = .ok a σ') (hr : R σ σ') :
    RespectsAt R m σ := by
  constructor
  · intro a' s' h'; rw [h] at h'; simp only [Res.ok.injEq] at h'; rw [← h'.2]; exact hr
  · intro e s' h'; rw [h] at h'; cases h'

theorem respectsAt_of_eq_err {m : M F α} {σ σ' : St F} {e : TErr} (h : m σ = .err e σ') (hr : R σ σ') :
    RespectsAt R m σ := by
  constructor
  · intro a' s' h'; rw [h] at h'; cases h'
  · intro e' s' h'; rw [h] at h'; simp only [Res.err.injEq] at h'; rw [← h'.2]; exact hr

/-! ### global rules -/

theorem respects_pure [IsFrame R] (a : α) : Respects R (pure a : M F α) := by
  intro σ
  exact respectsAt_of_eq_ok (a := a) (σ' := σ) rfl (IsFrame.refl σ)

theorem respects_pureM [IsFrame R] (a : α) : Respects R (M.pureM a : M F α) := respects_pure a

theorem respects_fail [IsFrame R] (e : Err) : Respects R (M.fail e : M F α) := by
  intro σ
  exact respectsAt_of_eq_err (e := { err := e }) (σ' := σ) rfl (IsFrame.refl σ)

theorem respects_throw [IsFrame R] (e : TErr) : Respects R (M.throw e : M F α) := by
  intro σ
  exact respectsAt_of_eq_err (e := e) (σ' := σ) rfl (IsFrame.refl σ)

theorem respects_rpanic [IsFrame R] (site : String) : Respects R (M.rpanic site : M F α) := by
  intro σ
  exact respectsAt_of_eq_err (e := { err := .panic site }) (σ' := σ) rfl (IsFrame.refl σ)

theorem respects_get [IsFrame R] : Respects R (M.get : M F (St F)) := by
  intro σ
  exact respectsAt_of_eq_ok (a := σ) (σ' := σ) rfl (IsFrame.refl σ)

theorem respectsAt_bind [IsFrame R] {m : M F α} {f : α → M F β} {σ : St F}
    (hm : RespectsAt R m σ) (hf : ∀ a, Respects R (f a)) : RespectsAt R (m >>= f) σ := by
  show RespectsAt R (M.bindM m f) σ
  unfold RespectsAt M.bindM
  cases h : m σ with
  | ok a s =>
    have h1 := hm.1 a s h
    constructor
    · intro b s' h'; exact IsFrame.trans h1 ((hf a s).1 b s' h')
    · intro e s' h'; exact IsFrame.trans h1 ((hf a s).2 e s' h')
  | err e s =>
    have h1 := hm.2 e s h
    constructor
    · intro b s' h'; cases h'
    · intro e' s' h'
      simp only [Res.err.injEq] at h'
      rw [← h'.2]; exact h1

theorem respects_bind [IsFrame R] {m : M F α} {f : α → M F β}
    (hm : Respects R m) (hf : ∀ a, Respects R (f a)) : Respects R (m >>= f) :=
  fun σ => respectsAt_bind (hm σ) hf

theorem respects_modify {f : St F → St F} (h : ∀ σ, R σ (f σ)) : Respects R (M.modify f) := by
  intro σ
  exact respectsAt_of_eq_ok (a := ()) (σ' := f σ) rfl (h σ)

theorem respects_ite {c : Prop} [Decidable c] {t e : M F α}
    (ht : c → Respects R t) (he : ¬ c → Respects R e) : Respects R (if c then t else e) := by
  by_cases h : c
  · rw [if_pos h]; exact ht h
  · rw [if_neg h]; exact he h

/-! `match` on the usual scrutinees (the tactic uses `split`, these are for manual proofs) -/

theorem respects_match_option {γ : Type} (o : Option γ) {n : M F α} {s : γ → M F α}
    (hn : o = none → Respects R n) (hs : ∀ x, o = some x → Respects R (s x)) :
    Respects R (match o with | none => n | some x => s x) := by
  cases o with
  | none => exact hn rfl
  | some x => exact hs x rfl

theorem respects_match_value (v : Value F) {fs : Str → M F α} {fn : F → M F α}
    (hs : ∀ x, v = .str x → Respects R (fs x)) (hn : ∀ x, v = .num x → Respects R (fn x)) :
    Respects R (match v with | .str x => fs x | .num x => fn x) := by
  cases v with
  | str x => exact hs x rfl
  | num x => exact hn x rfl

theorem respects_match_except {ε γ : Type} (r : Except ε γ) {fe : ε → M F α} {fo : γ → M F α}
    (he : ∀ e, r = .error e → Respects R (fe e)) (ho : ∀ x, r = .ok x → Respects R (fo x)) :
    Respects R (match r with | .error e => fe e | .ok x => fo x) := by
  cases r with
  | error e => exact he e rfl
  | ok x => exact ho x rfl

theorem respects_match_bool (b : Bool) {t e : M F α}
    (ht : b = true → Respects R t) (he : b = false → Respects R e) :
    Respects R (match b with | true => t | false => e) := by
  cases b with
  | true => exact ht rfl
  | false => exact he rfl

/-- the statement keywords of `dispatch` are handled by `split`; this is the token-level rule -/
theorem respects_match_token_symbol (t : Option (Token F)) {fs : Str → M F α} {d : M F α}
    (hs : ∀ x, t = some (.symbol x) → Respects R (fs x)) (hd : Respects R d) :
    Respects R (match t with | some (.symbol x) => fs x | _ => d) := by
  split
  · exact hs _ rfl
  · exact hd

theorem respects_attempt [IsFrame R] {m : M F α} (hm : Respects R m) : Respects R (M.attempt m) := by
  intro σ
  unfold M.attempt
  cases h : m σ with
  | ok a s =>
    constructor
    · intro b s' h'; simp only [Res.ok.injEq] at h'; rw [← h'.2]; exact (hm σ).1 a s h
    · intro e s' h'; cases h'
  | err e s =>
    constructor
    · intro b s' h'; simp only [Res.ok.injEq] at h'; rw [← h'.2]; exact (hm σ).2 e s h
    · intro e s' h'; cases h'

theorem respects_ofExcept [IsFrame R] (r : Except TErr α) : Respects R (M.ofExcept r : M F α) := by
  cases r with
  | ok a => exact respects_pureM a
  | error e => exact respects_throw e

theorem respects_liftE [IsFrame R] (r : Except Err α) : Respects R (liftE r : M F α) := by
  cases r with
  | ok a => exact respects_pure a
  | error e => exact respects_fail e

/-- weakening of the relation -/
theorem Respects.mono {R' : St F → St F → Prop} {m : M F α} (hsub : ∀ σ σ', R σ σ' → R' σ σ')
    (h : Respects R m) : Respects R' m :=
  fun σ => ⟨fun a s' e => hsub _ _ ((h σ).1 a s' e), fun a s' e => hsub _ _ ((h σ).2 a s' e)⟩

/-- `postprocess_result` only changes `state` on the error path -/
theorem respects_postprocess [IsFrame R] {m : M F α} (hidle : ∀ σ : St F, R σ { σ with state := .idle })
    (hm : Respects R m) : Respects R (postprocess m) := by
  intro σ
  unfold postprocess
  cases h : m σ with
  | ok a s =>
    constructor
    · intro b s' h'; simp only [Res.ok.injEq] at h'; rw [← h'.2]; exact (hm σ).1 a s h
    · intro e s' h'; cases h'
  | err e s =>
    constructor
    · intro b s' h'; cases h'
    · intro e' s' h'; simp only [Res.err.injEq] at h'; rw [← h'.2]
      exact IsFrame.trans ((hm σ).2 e s h) (hidle s)

/-! ### rules at one state -/

theorem respects_get_bind {f : St F → M F β} (h : ∀ σ, RespectsAt R (f σ) σ) :
    Respects R (M.get >>= f) := h

theorem respectsAt_get_bind {f : St F → M F β} {σ : St F} (h : RespectsAt R (f σ) σ) :
    RespectsAt R (M.get >>= f) σ := h

theorem respectsAt_set {σ s : St F} (h : R σ s) : RespectsAt R (M.set s) σ :=
  respectsAt_of_eq_ok (a := ()) (σ' := s) rfl h

theorem respectsAt_modify {f : St F → St F} {σ : St F} (h : R σ (f σ)) : RespectsAt R (M.modify f) σ :=
  respectsAt_of_eq_ok (a := ()) (σ' := f σ) rfl h

theorem respectsAt_ite {c : Prop} [Decidable c] {t e : M F α} {σ : St F}
    (ht : c → RespectsAt R t σ) (he : ¬ c → RespectsAt R e σ) : RespectsAt R (if c then t else e) σ := by
  by_cases h : c
  · rw [if_pos h]; exact ht h
  · rw [if_neg h]; exact he h

end rules

/-- the state a run ends in, on either path -/
def _root_.Abasic.Res.final {α : Type} : Res F α → St F
  | .ok _ s => s
  | .err _ s => s

theorem Respects.final {R : St F → St F → Prop} {α : Type} {m : M F α} (h : Respects R m) (σ : St F) :
    R σ (m σ).final := by
  cases hr : m σ with
  | ok a s => exact (h σ).1 a s hr
  | err e s => exact (h σ).2 e s hr

attribute [irreducible] Respects

/-! ### the tactic

  `respects_prim` and `respects_leaf` are extensible (`macro_rules`):
  `respects_prim` closes (or reduces) a goal `Respects R prim` by a registered
  lemma, `respects_leaf` proves a side condition `R σ σ'` about explicit
  states. -/

open Lean Elab Tactic Meta in
/-- apply a local hypothesis whose conclusion is `Respects …` (induction
    hypotheses, assumptions about the recursive entry points) -/
elab "respects_hyp" : tactic => withMainContext do
  let g ← getMainGoal
  for d in (← getLCtx) do
    if d.isImplementationDetail then continue
    let ty ← instantiateMVars d.type
    if ty.getForallBody.getAppFn.isConstOf ``Abasic.Hoare.Respects then
      let saved ← saveState
      try
        let gs ← withReducible (g.apply d.toExpr)
        replaceMainGoal gs
        return
      catch _ => saved.restore
  throwError "respects_hyp: no applicable hypothesis"

open Lean Elab Tactic Meta in
/-- `intro` only when the goal is syntactically a `∀` (never unfolds the relation) -/
elab "respects_intro" : tactic => withMainContext do
  let t ← instantiateMVars (← getMainTarget)
  if t.consumeMData.isForall then
    evalTactic (← `(tactic| intro _))
  else throwError "respects_intro: not a ∀"

syntax "respects_prim" : tactic
syntax "respects_leaf" : tactic

macro_rules | `(tactic| respects_leaf) => `(tactic| exact IsFrame.refl _)

/-- one step -/
macro "respects_step" : tactic => `(tactic| first
  | assumption
  | respects_hyp
  | respects_intro
  | with_reducible exact respects_pure _
  | with_reducible exact respects_pureM _
  | with_reducible exact respects_fail _
  | with_reducible exact respects_throw _
  | with_reducible exact respects_rpanic _
  | with_reducible exact respects_ofExcept _
  | with_reducible exact respects_liftE _
  | respects_prim
  | with_reducible apply respects_get_bind
  | with_reducible apply respectsAt_get_bind
  | with_reducible apply respects_bind
  | with_reducible apply respects_attempt
  | with_reducible apply respects_modify
  | with_reducible apply respectsAt_set
  | with_reducible apply respectsAt_modify
  | with_reducible apply respectsAt_bind
  | dsimp only
  | split
  | with_reducible apply respectsAt_of_respects
  | respects_leaf)

macro "respects_tac" : tactic => `(tactic| repeat' respects_step)

end Abasic.Hoare
