import Abasic.Analyzer
/-
  Frame lemma for the static analyzer (used by C15): nothing the analyzer does
  while walking the program changes the program store (`lines`) or leaves the
  nesting counter different from where it found it — on the success path and on
  the error path alike.  `Keeps m` says this of one action; it is closed under
  `bind`, `nested`, `if`, `match`; every cursor primitive the analyzer uses and
  every analyzer function has it.
-/
namespace Abasic.AFrame
open Abasic M

variable {F : Type}

/-- the state a result carries, on either path -/
def rst {α : Type} : Res F α → St F
  | .ok _ s => s
  | .err _ s => s

/-- what the analyzer never changes -/
def key (s : St F) : Lines F × Nat := (s.lines, s.nesting)

structure Keeps {α : Type} (m : M F α) : Prop where
  h : ∀ s, key (rst (m s)) = key s

theorem Keeps.pure {α : Type} (a : α) : Keeps (pure a : M F α) := ⟨fun _ => rfl⟩

theorem Keeps.bind {α β : Type} {m : M F α} {f : α → M F β} (hm : Keeps m) (hf : ∀ a, Keeps (f a)) :
    Keeps (m >>= f) := by
  refine ⟨fun s => ?_⟩
  have h1 := hm.h s
  show key (rst (M.bindM m f s)) = key s
  unfold M.bindM
  cases h : m s with
  | ok a s' =>
    rw [h] at h1
    simp only []
    rw [(hf a).h s']; exact h1
  | err e s' =>
    rw [h] at h1
    exact h1

theorem Keeps.get : Keeps (M.get : M F (St F)) := ⟨fun _ => rfl⟩
theorem Keeps.fail {α : Type} (e : Err) : Keeps (M.fail e : M F α) := ⟨fun _ => rfl⟩
theorem Keeps.rpanic {α : Type} (x : String) : Keeps (M.rpanic x : M F α) := ⟨fun _ => rfl⟩
theorem Keeps.throw {α : Type} (e : TErr) : Keeps (M.throw e : M F α) := ⟨fun _ => rfl⟩
theorem Keeps.modify {f : St F → St F} (h : ∀ s, key (f s) = key s) : Keeps (M.modify f) := ⟨fun s => h s⟩

/-- `get` followed by something that may mention the state it got -/
theorem Keeps.get_bind {α : Type} {f : St F → M F α} (h : ∀ s, key (rst (f s s)) = key s) :
    Keeps (M.get >>= f) := ⟨fun s => h s⟩

theorem Keeps.ite {α : Type} {c : Prop} [Decidable c] {a b : M F α} (ha : Keeps a) (hb : Keeps b) :
    Keeps (if c then a else b) := by
  split <;> assumption


/-- one structural step of a `Keeps` proof -/
macro "keeps_step" : tactic => `(tactic| first
  | assumption
  | exact Keeps.pure _
  | exact Keeps.get
  | exact Keeps.fail _
  | exact Keeps.rpanic _
  | exact Keeps.throw _
  | (apply Keeps.modify; intro _; rfl)
  | apply Keeps.bind
  | intro _
  | split
  | dsimp only)

macro "keeps" : tactic => `(tactic| repeat' keeps_step)

variable [NumOps F]
set_option linter.unusedSectionVars false

theorem keeps_tokens : Keeps (tokens : M F _) := by
  refine ⟨fun s => ?_⟩
  simp only [tokens, tokensForLine]
  split
  · rfl
  · split <;> rfl
macro_rules | `(tactic| keeps_step) => `(tactic| with_reducible exact keeps_tokens)

theorem keeps_peek : Keeps (peek : M F _) := by unfold peek; keeps
macro_rules | `(tactic| keeps_step) => `(tactic| with_reducible exact keeps_peek)

theorem keeps_advance : Keeps (advance : M F _) := by unfold advance; keeps
macro_rules | `(tactic| keeps_step) => `(tactic| with_reducible exact keeps_advance)

theorem keeps_next : Keeps (next : M F _) := by unfold next; keeps
macro_rules | `(tactic| keeps_step) => `(tactic| with_reducible exact keeps_next)

theorem keeps_hasNext : Keeps (hasNext : M F _) := by unfold hasNext; keeps
macro_rules | `(tactic| keeps_step) => `(tactic| with_reducible exact keeps_hasNext)

theorem keeps_nextUnwrapped : Keeps (nextUnwrapped : M F _) := by unfold nextUnwrapped; keeps
macro_rules | `(tactic| keeps_step) => `(tactic| with_reducible exact keeps_nextUnwrapped)

theorem keeps_expect (k : Kw) : Keeps (expect k : M F _) := by unfold expect; keeps
macro_rules | `(tactic| keeps_step) => `(tactic| with_reducible exact keeps_expect _)

theorem keeps_accept (k : Kw) : Keeps (accept k : M F _) := by unfold accept; keeps
macro_rules | `(tactic| keeps_step) => `(tactic| with_reducible exact keeps_accept _)

theorem keeps_peekIsKw (k : Kw) : Keeps (peekIsKw k : M F _) := by unfold peekIsKw; keeps
macro_rules | `(tactic| keeps_step) => `(tactic| with_reducible exact keeps_peekIsKw _)

theorem keeps_tryNext {α : Type} (f : Token F → Option α) : Keeps (tryNext f : M F _) := by
  unfold tryNext; keeps
macro_rules | `(tactic| keeps_step) => `(tactic| with_reducible exact keeps_tryNext _)

theorem keeps_lineBudget : Keeps (lineBudget : M F _) := by unfold lineBudget; keeps
macro_rules | `(tactic| keeps_step) => `(tactic| with_reducible exact keeps_lineBudget)

theorem keeps_defineFunction (n : Str) (a : List Str) : Keeps (defineFunction n a : M F _) := by
  unfold defineFunction
  apply Keeps.get_bind
  intro s
  cases s.loc.line <;> rfl
macro_rules | `(tactic| keeps_step) => `(tactic| with_reducible exact keeps_defineFunction _ _)

theorem keeps_nextLine : Keeps (nextLine : M F _) := by
  unfold nextLine
  apply Keeps.get_bind
  intro s
  cases s.loc.line with
  | none => rfl
  | some n => dsimp only; cases s.lines.after n <;> rfl
macro_rules | `(tactic| keeps_step) => `(tactic| with_reducible exact keeps_nextLine)

theorem keeps_prevLoc : Keeps (prevLoc : M F _) := by unfold prevLoc; keeps
macro_rules | `(tactic| keeps_step) => `(tactic| with_reducible exact keeps_prevLoc)

theorem keeps_logAccess (sym : Str) (loc : Loc) (a : Access) : Keeps (logAccess sym loc a : M F _) := by
  unfold logAccess; keeps
macro_rules | `(tactic| keeps_step) => `(tactic| with_reducible exact keeps_logAccess _ _ _)

theorem keeps_check (a b : VT) : Keeps (VT.check a b : M F _) := by unfold VT.check; keeps
macro_rules | `(tactic| keeps_step) => `(tactic| with_reducible exact keeps_check _ _)

theorem keeps_checkNumber (a : VT) : Keeps (VT.checkNumber a : M F _) := by unfold VT.checkNumber; keeps
macro_rules | `(tactic| keeps_step) => `(tactic| with_reducible exact keeps_checkNumber _)


theorem keeps_nested {α : Type} {m : M F α} (hm : Keeps m) : Keeps (nested m) := by
  refine ⟨fun s => ?_⟩
  by_cases hcap : s.nesting = Extracted.nestingLimit
  · simp [Abasic.nested, bind, M.bindM, enterNested, M.get, hcap, M.fail, rst]
  · have hb : (s.nesting == Extracted.nestingLimit) = false := by simpa using hcap
    have h1 := hm.h { s with nesting := s.nesting + 1 }
    cases hr : m { s with nesting := s.nesting + 1 } with
    | ok a s' =>
      rw [hr] at h1
      simp only [rst, key, Prod.mk.injEq] at h1
      simp [Abasic.nested, bind, M.bindM, enterNested, M.get, hb, M.set, M.attempt, hr, exitNested, h1.2,
        M.ofExcept, M.pureM, rst, key, h1.1]
    | err e s' =>
      rw [hr] at h1
      simp only [rst, key, Prod.mk.injEq] at h1
      simp [Abasic.nested, bind, M.bindM, enterNested, M.get, hb, M.set, M.attempt, hr, exitNested, h1.2,
        M.ofExcept, M.throw, rst, key, h1.1]

section analyzer
variable (ev : AEvals F) (he : Keeps ev.expr) (hs : Keeps ev.stmt)
include he

theorem keeps_aArrayIndexLoop (n arity : Nat) : Keeps (aArrayIndexLoop ev n arity) := by
  induction n generalizing arity with
  | zero => unfold aArrayIndexLoop; keeps
  | succ n ih => unfold aArrayIndexLoop; have := ih (arity + 1); keeps

macro_rules | `(tactic| keeps_step) => `(tactic| with_reducible exact keeps_aArrayIndexLoop _ ‹_› _ _)

theorem keeps_aArrayIndex : Keeps (aArrayIndex ev) := by unfold aArrayIndex; keeps
macro_rules | `(tactic| keeps_step) => `(tactic| with_reducible exact keeps_aArrayIndex _ ‹_›)

theorem keeps_aNumberFunctionArg : Keeps (aNumberFunctionArg ev) := by unfold aNumberFunctionArg; keeps
macro_rules | `(tactic| keeps_step) => `(tactic| with_reducible exact keeps_aNumberFunctionArg _ ‹_›)

theorem keeps_aBindArgs (arity : Nat) (l : List Str) (i : Nat) : Keeps (aBindArgs ev arity l i) := by
  induction l generalizing i with
  | nil => unfold aBindArgs; keeps
  | cons a rest ih => unfold aBindArgs; have := ih (i + 1); keeps
macro_rules | `(tactic| keeps_step) => `(tactic| with_reducible exact keeps_aBindArgs _ ‹_› _ _ _)

theorem keeps_aUserFunctionCall (name : Str) (loc : Loc) : Keeps (aUserFunctionCall ev name loc) := by
  unfold aUserFunctionCall; keeps
macro_rules | `(tactic| keeps_step) => `(tactic| with_reducible exact keeps_aUserFunctionCall _ ‹_› _ _)

theorem keeps_aFunctionCall (name : Str) (loc : Loc) : Keeps (aFunctionCall ev name loc) := by
  unfold aFunctionCall; keeps
macro_rules | `(tactic| keeps_step) => `(tactic| with_reducible exact keeps_aFunctionCall _ ‹_› _ _)

theorem keeps_aTerm : Keeps (aTerm ev) := by unfold aTerm; keeps
macro_rules | `(tactic| keeps_step) => `(tactic| with_reducible exact keeps_aTerm _ ‹_›)

theorem keeps_aParen : Keeps (aParen ev) := by unfold aParen; keeps
macro_rules | `(tactic| keeps_step) => `(tactic| with_reducible exact keeps_aParen _ ‹_›)

theorem keeps_aUnary : Keeps (aUnary ev) := by unfold aUnary; keeps
macro_rules | `(tactic| keeps_step) => `(tactic| with_reducible exact keeps_aUnary _ ‹_›)

omit he in
theorem keeps_aLevelLoop {sub : M F VT} (hsub : Keeps sub) (ops : Token F → Option BinOp) (tier : ATier)
    (n : Nat) (v : VT) : Keeps (aLevelLoop sub ops tier n v) := by
  induction n generalizing v with
  | zero => unfold aLevelLoop; keeps
  | succ n ih => unfold aLevelLoop; have := ih v; have := ih .num; keeps

omit he in
theorem keeps_aLevel {sub : M F VT} (hsub : Keeps sub) (ops : Token F → Option BinOp) (tier : ATier) :
    Keeps (aLevel sub ops tier) := by
  unfold aLevel
  have := fun n v => keeps_aLevelLoop hsub ops tier n v
  keeps
  apply this

theorem keeps_aOrExpr : Keeps (aOrExpr ev) := by
  unfold aOrExpr
  repeat' apply keeps_aLevel
  exact keeps_aUnary ev he

theorem keeps_aExprBody : Keeps (aExprBody ev) := keeps_nested (keeps_aOrExpr ev he)

theorem keeps_aOptionalArrayIndex : Keeps (aOptionalArrayIndex ev) := by unfold aOptionalArrayIndex; keeps
macro_rules | `(tactic| keeps_step) => `(tactic| with_reducible exact keeps_aOptionalArrayIndex _ ‹_›)

omit he in
theorem keeps_aAssignValue (lv : ALValue) (r : VT) : Keeps (aAssignValue (F := F) lv r) := by
  unfold aAssignValue; keeps
macro_rules | `(tactic| keeps_step) => `(tactic| with_reducible exact keeps_aAssignValue _ _)

theorem keeps_aAssignment (name : Str) : Keeps (aAssignment ev name) := by unfold aAssignment; keeps
macro_rules | `(tactic| keeps_step) => `(tactic| with_reducible exact keeps_aAssignment _ ‹_› _)

theorem keeps_aLet : Keeps (aLet ev) := by unfold aLet; keeps
macro_rules | `(tactic| keeps_step) => `(tactic| with_reducible exact keeps_aLet _ ‹_›)

theorem keeps_aParseLValue : Keeps (aParseLValue ev) := by unfold aParseLValue; keeps
macro_rules | `(tactic| keeps_step) => `(tactic| with_reducible exact keeps_aParseLValue _ ‹_›)

theorem keeps_aReadLoop (n : Nat) : Keeps (aReadLoop ev n) := by
  induction n with
  | zero => unfold aReadLoop; keeps
  | succ n ih => unfold aReadLoop; keeps
macro_rules | `(tactic| keeps_step) => `(tactic| with_reducible exact keeps_aReadLoop _ ‹_› _)

omit he in
theorem keeps_aGotoOrGosub : Keeps (aGotoOrGosub (F := F)) := by unfold aGotoOrGosub; keeps
macro_rules | `(tactic| keeps_step) => `(tactic| with_reducible exact keeps_aGotoOrGosub)

theorem keeps_aPrintLoop (n : Nat) : Keeps (aPrintLoop ev n) := by
  induction n with
  | zero => unfold aPrintLoop; keeps
  | succ n ih => unfold aPrintLoop; keeps
macro_rules | `(tactic| keeps_step) => `(tactic| with_reducible exact keeps_aPrintLoop _ ‹_› _)

theorem keeps_aFor : Keeps (aFor ev) := by unfold aFor; keeps
macro_rules | `(tactic| keeps_step) => `(tactic| with_reducible exact keeps_aFor _ ‹_›)

omit he in
theorem keeps_aNext : Keeps (aNext (F := F)) := by unfold aNext; keeps
macro_rules | `(tactic| keeps_step) => `(tactic| with_reducible exact keeps_aNext)

omit he in
theorem keeps_defArgsLoop (n : Nat) (acc : List Str) : Keeps (defArgsLoop (F := F) n acc) := by
  induction n generalizing acc with
  | zero => unfold defArgsLoop; keeps
  | succ n ih => unfold defArgsLoop; keeps; exact ih _
macro_rules | `(tactic| keeps_step) => `(tactic| with_reducible exact keeps_defArgsLoop _ _)

theorem keeps_aDef : Keeps (aDef ev) := by unfold aDef; keeps
macro_rules | `(tactic| keeps_step) => `(tactic| with_reducible exact keeps_aDef _ ‹_›)

include hs

theorem keeps_aStatementOrGoto : Keeps (aStatementOrGoto ev) := by
  unfold aStatementOrGoto
  have := keeps_nested hs
  keeps
macro_rules | `(tactic| keeps_step) => `(tactic| with_reducible exact keeps_aStatementOrGoto _ ‹_› ‹_›)

theorem keeps_aIf : Keeps (aIf ev) := by unfold aIf; keeps
macro_rules | `(tactic| keeps_step) => `(tactic| with_reducible exact keeps_aIf _ ‹_› ‹_›)

theorem keeps_aStmtBody : Keeps (aStmtBody ev) := by unfold aStmtBody; keeps

end analyzer

theorem keeps_aEvalN (n : Nat) : Keeps (aEvalN (F := F) n).expr ∧ Keeps (aEvalN (F := F) n).stmt := by
  induction n with
  | zero => exact ⟨Keeps.fail _, Keeps.fail _⟩
  | succ n ih => exact ⟨keeps_aExprBody _ ih.1, keeps_aStmtBody _ ih.1 ih.2⟩

theorem keeps_stmt (fuel : Nat) : Keeps (aStmtBody (aEvalN (F := F) fuel)) :=
  keeps_aStmtBody _ (keeps_aEvalN fuel).1 (keeps_aEvalN fuel).2


/-! ### the file-level passes -/

theorem analyzeStatements_key (fuel n : Nat) (a : Analysis F) :
    key (analyzeStatements fuel n a).st = key a.st := by
  induction n generalizing a with
  | zero => rfl
  | succ n ih =>
    unfold analyzeStatements
    have h1 := (keeps_hasNext (F := F)).h a.st
    cases hh : hasNext a.st with
    | err e s => rfl
    | ok b st =>
      rw [hh] at h1
      cases b with
      | false => exact h1
      | true =>
        have h2 := (keeps_stmt (F := F) fuel).h st
        cases hb : aStmtBody (aEvalN fuel) st with
        | ok u st' =>
          rw [hb] at h2
          simp only [hb]
          rw [ih]; exact h2.trans h1
        | err e st' =>
          rw [hb] at h2
          have h3 : key st' = key a.st := h2.trans h1
          simp only [hb]
          split
          · exact h3
          · split
            · exact h3
            · exact h3

theorem tail_key (g : Analysis F → Analysis F) (hg : ∀ x, key (g x).st = key x.st) (b : Analysis F) :
    key (if b.panicked.isSome then b else
          match nextLine b.st with
          | .ok true st => g { b with st := st }
          | .ok false st => { b with st := st }
          | .err e _ => { b with panicked := some (toString (repr e.err)) }).st = key b.st := by
  split
  · rfl
  · have h2 := (keeps_nextLine (F := F)).h b.st
    cases hn : nextLine b.st with
    | err e s => rfl
    | ok c st =>
      rw [hn] at h2
      cases c with
      | true => dsimp only; rw [hg]; exact h2
      | false => exact h2

theorem analyzeProgram_key (fuel n : Nat) (a : Analysis F) :
    key (analyzeProgram fuel n a).st = key a.st := by
  induction n generalizing a with
  | zero => rfl
  | succ n ih =>
    unfold analyzeProgram
    split
    · rfl
    · dsimp only
      exact (tail_key _ ih _).trans (analyzeStatements_key fuel _ a)

theorem symbolWarnings_st (a : Analysis F) : (symbolWarnings a).st = a.st := by
  unfold symbolWarnings
  have emit_st : ∀ (text : Str) (locs : List (Str × Nat × Nat × Access)) (b : Analysis F),
      (locs.foldl (fun (a : Analysis F) (x : Str × Nat × Nat × Access) =>
        match x with
        | (_, n, i, _) =>
          match a.map.mapLoc { line := some n, idx := i } with
          | some (f, _, _) => { a with messages := a.messages ++ [.warning f (some (n, i)) text] }
          | none => { a with panicked := some "symbol warning: unwrap on None" }) b).st = b.st := by
    intro text locs
    induction locs with
    | nil => intro b; rfl
    | cons x xs ih =>
      intro b
      obtain ⟨s, n, i, k⟩ := x
      rw [List.foldl_cons, ih]
      dsimp only
      cases b.map.mapLoc { line := some n, idx := i } with
      | none => rfl
      | some r => rfl
  dsimp only
  generalize accessSymbols a.st.accesses = syms
  generalize a.st.accesses = acc
  induction syms generalizing a with
  | nil => rfl
  | cons sym rest ih =>
    rw [List.foldl_cons, ih]
    split
    · exact emit_st _ _ _
    · split
      · exact emit_st _ _ _
      · rfl

theorem analyzeLine_nesting (a : Analysis F) (i : Nat) (line : Str) :
    (analyzeLine a i line).st.nesting = a.st.nesting := by
  unfold analyzeLine
  repeat' split
  all_goals rfl

theorem analyzeLines_nesting (a : Analysis F) (i : Nat) (lines : List Str) :
    (analyzeLines a i lines).st.nesting = a.st.nesting := by
  induction lines generalizing a i with
  | nil => rfl
  | cons l ls ih => simp only [analyzeLines]; rw [ih, analyzeLine_nesting]

/-- The program the analyzer hands to `into_interpreter` is the one its line pass
    stored, and the nesting counter is back at 0. -/
theorem analyzeFile_key (fuel : Nat) (lines : List Str) :
    (analyzeFile (F := F) fuel lines).st.lines = (analyzeLines ({ lines := lines } : Analysis F) 0 lines).st.lines ∧
    (analyzeFile (F := F) fuel lines).st.nesting = 0 := by
  have hk : key (analyzeFile (F := F) fuel lines).st =
      key (analyzeLines ({ lines := lines } : Analysis F) 0 lines).st := by
    unfold analyzeFile
    dsimp only
    split
    · rw [analyzeProgram_key]; simp [key, St.runFromFirst, St.resetRuntime, St.setImmediate]; split <;> simp
    · rw [symbolWarnings_st, analyzeProgram_key]; simp [key, St.runFromFirst, St.resetRuntime, St.setImmediate]; split <;> simp
  simp only [key, Prod.mk.injEq] at hk
  refine ⟨hk.1, ?_⟩
  rw [hk.2, analyzeLines_nesting]

end Abasic.AFrame
