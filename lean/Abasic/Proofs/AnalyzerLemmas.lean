import Abasic.Proofs.ExprLemmas
import Abasic.Props.C06
/-
  Helper lemmas for C06 (`analyze_render`, Abasic/Props/C06More.lean): the
  analyzer's expression tiers on the token cursor.

  The analyzer walks the same cursor with the same primitives as the evaluator,
  so the cursor equations of ExprLemmas.lean (`At`, `mv`, `peek_eq`, `tryNext_some`,
  `accept_true`, `expect_eq`, `nested_ok`, …) are reused unchanged.  What is new:

  * `lg σ a` — `σ` with the symbol accesses `a` appended to the log;
    the canonical result state of an analyzer run is `lg (mv σ n r) a`;
  * `AAgrees` — agreement of a run with a spec result of type `Except Err VT`;
  * `atier ev k` — the analyzer tiers (`atier ev 0 = aUnary ev`, `atier ev 6 = aOrExpr ev`)
    with their rule kinds `kindAt k`;
  * one iteration of `aLevelLoop` (`aLevelLoop_stop`, `_ok`, `_rej`, `_err`);
  * `alift_level`, `aexpr_of_tier`, `VT.check` equations.
-/
set_option linter.unusedSectionVars false

namespace Abasic.AnaL
open Abasic Abasic.Ref Abasic.ExprL M Abasic.Props.C06

variable {F : Type}

/-- one entry of the symbol-access log: symbol, line, token index, kind -/
abbrev Acc := Str × Nat × Nat × Access

/-- `σ` with the accesses `a` appended to the log -/
def lg (σ : St F) (a : List Acc) : St F := { σ with accesses := σ.accesses ++ a }

@[simp] theorem lg_reads (σ : St F) (a : List Acc) : (lg σ a).reads = σ.reads := rfl
@[simp] theorem lg_nesting (σ : St F) (a : List Acc) : (lg σ a).nesting = σ.nesting := rfl
@[simp] theorem lg_idx (σ : St F) (a : List Acc) : (lg σ a).loc.idx = σ.loc.idx := rfl
@[simp] theorem lg_line (σ : St F) (a : List Acc) : (lg σ a).loc.line = σ.loc.line := rfl
@[simp] theorem lg_loc (σ : St F) (a : List Acc) : (lg σ a).loc = σ.loc := rfl
@[simp] theorem lg_accesses (σ : St F) (a : List Acc) : (lg σ a).accesses = σ.accesses ++ a := rfl
@[simp] theorem lineToks_lg (σ : St F) (a : List Acc) : lineToks (lg σ a) = lineToks σ := rfl

theorem mv_lg (σ : St F) (a : List Acc) (n r : Nat) : mv (lg σ a) n r = lg (mv σ n r) a := rfl
theorem nest_lg (σ : St F) (a : List Acc) (k : Nat) : nest (lg σ a) k = lg (nest σ k) a := rfl

theorem lg_lg (σ : St F) (a b : List Acc) : lg (lg σ a) b = lg σ (a ++ b) := by
  simp only [lg, List.append_assoc]

theorem lg_nil (σ : St F) : lg σ [] = σ := by
  simp only [lg, List.append_nil]

theorem at_lg {σ : St F} {pre post : List (Token F)} (h : At σ pre post) (a : List Acc) :
    At (lg σ a) pre post := ⟨h.1, h.2⟩

/-- the canonical final state: cursor `n` further, `r` reads, `a` logged -/
theorem fin_congr (σ : St F) {n n' : Nat} (r : Nat) {a a' : List Acc} (hn : n = n') (ha : a = a') :
    lg (mv σ n r) a = lg (mv σ n' r) a' := by
  subst hn; subst ha; rfl

/-- two runs in sequence -/
theorem fin_fin (σ : St F) (n r m r' : Nat) (a b : List Acc) :
    lg (mv (lg (mv σ n r) a) m r') b = lg (mv σ (n + m) r') (a ++ b) := by
  rw [mv_lg, mv_mv, lg_lg]

/-! ### agreement with a static result -/

/-- agreement of an analyzer run with the spec's static result: on a type, the
    run is the continuation `k` applied to it and to some larger read counter; on
    an error, the run fails with that error and leaves the nesting counter alone. -/
def AAgrees {α : Type} (res : Res F α) (ty : Except Err VT) (σ : St F)
    (k : VT → Nat → Res F α) : Prop :=
  match ty with
  | .ok t => ∃ r, σ.reads < r ∧ res = k t r
  | .error x => ∃ σ', res = .err { err := x } σ' ∧ σ'.nesting = σ.nesting

variable [NumOps F]

/-! ### `VT.check` -/

theorem checkNumber_num (σ : St F) : VT.checkNumber (F := F) .num σ = .ok .num σ := rfl
theorem checkNumber_str (σ : St F) :
    VT.checkNumber (F := F) .str σ = .err { err := .typeMismatch } σ := rfl
theorem check_same (a : VT) (σ : St F) : VT.check (F := F) a a σ = .ok a σ := by
  cases a <;> rfl
theorem check_diff {a b : VT} (h : a ≠ b) (σ : St F) :
    VT.check (F := F) a b σ = .err { err := .typeMismatch } σ := by
  cases a <;> cases b <;> first | rfl | exact absurd rfl h

/-! ### the tiers of `aOrExpr` -/

/-- the kind of type rule of the `k`-th tier above `aUnary` -/
def kindAt : Nat → ATier
  | 0 => .arith
  | 1 => .arith
  | 2 => .arith
  | 3 => .cmp
  | _ => .logic

/-- `atier ev 0 = aUnary ev`, …, `atier ev 6 = aOrExpr ev` -/
def atier (ev : AEvals F) : Nat → M F VT
  | 0 => aUnary ev
  | k + 1 => aLevel (atier ev k) (opsAt k) (kindAt k)

theorem atier_six (ev : AEvals F) : atier ev 6 = aOrExpr ev := rfl

theorem kindAt_op (op : BinOp) : kindAt (6 - BinOp.prec op) = tierOf op := by
  cases op <;> rfl

theorem aLevelLoop_stop {sub : M F VT} {k n : Nat} {tk : ATier} {v : VT} {σ : St F}
    {pre rest : List (Token F)} (h : At σ pre rest) (hE : Ends (k + 1) rest) :
    aLevelLoop sub (opsAt k) tk (n + 1) v σ = .ok v (mv σ 0 (σ.reads + 1)) := by
  unfold aLevelLoop
  rw [bind_ok (tryNext_none h (fun t ht => (hE t ht).2 k (Nat.lt_succ_self k)))]
  rfl

/-- one iteration whose right operand fails -/
theorem aLevelLoop_err {sub : M F VT} {k n : Nat} {tk : ATier} {v : VT} {σ σ2 : St F}
    {pre post : List (Token F)} {tok : Token F} {op : BinOp} {e : TErr}
    (h : At σ pre (tok :: post)) (hop : opsAt k tok = some op)
    (hs : sub (mv σ 1 (σ.reads + 1)) = .err e σ2) :
    aLevelLoop sub (opsAt k) tk (n + 1) v σ = .err e σ2 := by
  unfold aLevelLoop
  rw [bind_ok (tryNext_some h hop)]
  exact bind_err hs

/-- one iteration accepted by the tier's rule -/
theorem aLevelLoop_ok {sub : M F VT} {k n : Nat} {tk : ATier} {v r t : VT} {σ σ2 : St F}
    {pre post : List (Token F)} {tok : Token F} {op : BinOp}
    (h : At σ pre (tok :: post)) (hop : opsAt k tok = some op)
    (hs : sub (mv σ 1 (σ.reads + 1)) = .ok r σ2) (hr : tierRule tk v r = some t) :
    aLevelLoop sub (opsAt k) tk (n + 1) v σ = aLevelLoop sub (opsAt k) tk n t σ2 := by
  conv => lhs; unfold aLevelLoop
  rw [bind_ok (tryNext_some h hop)]
  show (sub >>= _) _ = _
  rw [bind_ok hs]
  cases tk with
  | arith =>
    cases v <;> cases r <;> simp only [tierRule, reduceCtorEq, Option.some.injEq] at hr
    subst hr
    show (VT.checkNumber (F := F) .num >>= _) σ2 = _
    rw [bind_ok (checkNumber_num σ2)]
    show (VT.checkNumber (F := F) .num >>= _) σ2 = _
    rw [bind_ok (checkNumber_num σ2)]
  | cmp =>
    simp only [tierRule] at hr
    split at hr
    · rename_i hvr
      simp only [Option.some.injEq] at hr
      subst hr
      have : v = r := by simpa using hvr
      subst this
      show (VT.check (F := F) v v >>= _) σ2 = _
      rw [bind_ok (check_same v σ2)]
    · cases hr
  | logic =>
    simp only [tierRule, Option.some.injEq] at hr
    subst hr
    rfl

/-- one iteration rejected by the tier's rule -/
theorem aLevelLoop_rej {sub : M F VT} {k n : Nat} {tk : ATier} {v r : VT} {σ σ2 : St F}
    {pre post : List (Token F)} {tok : Token F} {op : BinOp}
    (h : At σ pre (tok :: post)) (hop : opsAt k tok = some op)
    (hs : sub (mv σ 1 (σ.reads + 1)) = .ok r σ2) (hr : tierRule tk v r = none) :
    aLevelLoop sub (opsAt k) tk (n + 1) v σ = .err { err := .typeMismatch } σ2 := by
  conv => lhs; unfold aLevelLoop
  rw [bind_ok (tryNext_some h hop)]
  show (sub >>= _) _ = _
  rw [bind_ok hs]
  cases tk with
  | arith =>
    cases v with
    | str =>
      show (VT.checkNumber (F := F) .str >>= _) σ2 = _
      rw [bind_err (checkNumber_str σ2)]
    | num =>
      cases r with
      | num => simp [tierRule] at hr
      | str =>
        show (VT.checkNumber (F := F) .num >>= _) σ2 = _
        rw [bind_ok (checkNumber_num σ2)]
        show (VT.checkNumber (F := F) .str >>= _) σ2 = _
        rw [bind_err (checkNumber_str σ2)]
  | cmp =>
    simp only [tierRule] at hr
    split at hr
    · cases hr
    · rename_i hvr
      have : v ≠ r := by simpa using hvr
      show (VT.check (F := F) v r >>= _) σ2 = _
      rw [bind_err (check_diff this σ2)]
  | logic => simp [tierRule] at hr

/-- lifting a result of tier `i` to a looser tier `j ≥ i` when no operator of the tiers in between follows -/
theorem alift_level (ev : AEvals F) (res : Except Err VT) (σ : St F) (len : Nat) (acc : List Acc)
    (pre' rest : List (Token F)) (i j : Nat) (hij : i ≤ j) (hE : Ends j rest)
    (hAt : ∀ r, At (mv σ len r) pre' rest)
    (h : AAgrees (atier ev i σ) res σ (fun t r => .ok t (lg (mv σ len r) acc))) :
    AAgrees (atier ev j σ) res σ (fun t r => .ok t (lg (mv σ len r) acc)) := by
  induction j with
  | zero =>
    have : i = 0 := by omega
    subst this; exact h
  | succ j ih =>
    by_cases hi : i = j + 1
    · subst hi; exact h
    · have ih' := ih (by omega) (hE.mono (Nat.le_succ j))
      cases res with
      | error x =>
        obtain ⟨σ', hσ', hn⟩ := ih'
        exact ⟨σ', by simp only [atier, aLevel]; rw [bind_err hσ'], hn⟩
      | ok v =>
        obtain ⟨r, hr, hσ'⟩ := ih'
        refine ⟨r + 1, by omega, ?_⟩
        simp only [atier, aLevel]
        have hA : At (lg (mv σ len r) acc) pre' rest := at_lg (hAt r) acc
        rw [bind_ok hσ', bind_ok (lineBudget_eq hA.1), aLevelLoop_stop hA hE]
        rfl

/-- the recursive entry `ev.expr` (one nesting level and one unit of fuel deeper)
    from the outermost tier run one level deeper -/
theorem aexpr_of_tier (ty : Except Err VT) (f : Nat) (σ : St F) (len : Nat) (acc : List Acc)
    (hn : σ.nesting < Extracted.nestingLimit)
    (h : AAgrees (atier (aEvalN f) 6 (nest σ (σ.nesting + 1))) ty (nest σ (σ.nesting + 1))
      (fun t r => .ok t (lg (mv (nest σ (σ.nesting + 1)) len r) acc))) :
    AAgrees ((aEvalN (f + 1)).expr σ) ty σ (fun t r => .ok t (lg (mv σ len r) acc)) := by
  show AAgrees (nested (atier (aEvalN f) 6) σ) _ _ _
  cases ty with
  | error e =>
    obtain ⟨σ', hσ', hn'⟩ := h
    exact ⟨nest σ' σ.nesting, nested_err hn hσ' hn', rfl⟩
  | ok v =>
    obtain ⟨r, hr, hσ'⟩ := h
    exact ⟨r, hr, nested_ok hn hσ' rfl⟩

end Abasic.AnaL
