import Abasic.Proofs.Stmt3All
/-
  C03, third layer — where the function table of the reference machine comes
  from: every entry was put there by a DEF statement of the program
  (`FnsOf`, `LinesOf`), by induction along the reference run.  This turns
  side conditions "for every function table the run reaches" into conditions on
  the program text.
-/
set_option linter.unusedSectionVars false

namespace Abasic.Stmt3L
open Abasic Abasic.Ref Abasic.ExprL2 Abasic.Prog3L

variable {F : Type} [NumOps F]

/-- `s` is (or contains, in a branch of an IF) `DEF name(d.params) = d.body` -/
def Defines : RStmt3 F → Str → FnDefSpec F → Prop
  | .defS f ps body, name, d => name = f ∧ d = { params := ps, body := body }
  | .ifS _ t none, name, d => Defines t name d
  | .ifS _ t (some e), name, d => Defines t name d ∨ Defines e name d
  | _, _, _ => False

/-- line `m` of the program has a statement that defines `name` as `d` -/
def DefAt (p : RProgram3 F) (m : Nat) (name : Str) (d : FnDefSpec F) : Prop :=
  ∃ ss s, p.line m = some ss ∧ s ∈ ss ∧ Defines s name d

/-- every function of the table was defined by a DEF statement of the program -/
def FnsOf (p : RProgram3 F) (fns : List (Str × FnDefSpec F)) : Prop :=
  ∀ name d, alGet name fns = some d → ∃ m, DefAt p m name d

/-- every recorded line of a definition is the line of a DEF statement of that function -/
def LinesOf (p : RProgram3 F) (fnLines : List (Str × Nat)) : Prop :=
  ∀ name m, alGet name fnLines = some m → ∃ d, DefAt p m name d

/-! ### what a reference step does to the function table -/

theorem evalE_fns {r r1 : RState3 F} {e : Expr2 F} {v : Value F} (he : evalE r e = .ok (v, r1)) :
    r1.fns = r.fns ∧ r1.fnLines = r.fnLines := by
  unfold evalE at he
  cases hev : fold2 callFuel r.env e with
  | error x => rw [hev] at he; cases he
  | ok q =>
    obtain ⟨v', env'⟩ := q
    rw [hev] at he
    simp only [Except.ok.injEq, Prod.mk.injEq] at he
    rw [← he.2]
    exact ⟨rfl, rfl⟩

theorem numE3_fns {r r1 : RState3 F} {e : Expr2 F} {x : F} (he : numE3 r e = .ok (x, r1)) :
    r1.fns = r.fns ∧ r1.fnLines = r.fnLines := by
  unfold numE3 at he
  cases hev : evalE r e with
  | error x => rw [hev] at he; cases he
  | ok q =>
    obtain ⟨v, r'⟩ := q
    rw [hev] at he
    cases v with
    | str s => cases he
    | num y =>
      simp only [Except.ok.injEq, Prod.mk.injEq] at he
      rw [← he.2]
      exact evalE_fns hev

theorem stepE3_fns {r r1 : RState3 F} {c : Option (Expr2 F)} {x : F} (he : stepE3 r c = .ok (x, r1)) :
    r1.fns = r.fns ∧ r1.fnLines = r.fnLines := by
  cases c with
  | none =>
    simp only [stepE3, Except.ok.injEq, Prod.mk.injEq] at he
    rw [← he.2]
    exact ⟨rfl, rfl⟩
  | some c => exact numE3_fns he

theorem evalIdx_fns {r r1 : RState3 F} {idx : List (Expr2 F)} {is : List Nat} (he : evalIdx r idx = .ok (is, r1)) :
    r1.fns = r.fns ∧ r1.fnLines = r.fnLines := by
  unfold evalIdx at he
  cases hev : foldIdx callFuel r.env idx with
  | error x => rw [hev] at he; cases he
  | ok q =>
    obtain ⟨is', env'⟩ := q
    rw [hev] at he
    simp only [Except.ok.injEq, Prod.mk.injEq] at he
    rw [← he.2]
    exact ⟨rfl, rfl⟩

theorem printText3_fns' (items : List (PItem3 F)) (r : RState3 F) (semi : Bool) (acc text : Str) (r' : RState3 F)
    (h : printText3 r items semi acc = .ok (text, r')) : r'.fns = r.fns ∧ r'.fnLines = r.fnLines := by
  have := printText3_fns items r semi acc text r' h
  exact ⟨this.2.2.2.2.2.2.1, this.2.2.2.2.2.2.2⟩

theorem forPush3_fns (n j : Nat) (r : RState3 F) (v : Str) (x y z : F) :
    (forPush3 n j r v x y z).1.fns = r.fns ∧ (forPush3 n j r v x y z).1.fnLines = r.fnLines := by
  unfold forPush3
  split
  · exact ⟨rfl, rfl⟩
  · split <;> exact ⟨rfl, rfl⟩

theorem readTargetSpec_tab (items : List (Nat × DataElement F)) (r : RState3 F) (t : RTarget F) :
    (readTargetSpec items r t).1.fns = r.fns ∧ (readTargetSpec items r t).1.fnLines = r.fnLines := by
  cases t with
  | scalar x =>
    simp only [readTargetSpec, readScalarSpec]
    cases items[r.data]? with
    | none => exact ⟨rfl, rfl⟩
    | some lnd =>
      obtain ⟨ln, d⟩ := lnd
      dsimp only
      cases Value.coerceFromData x d <;> exact ⟨rfl, rfl⟩
  | cell name idx =>
    simp only [readTargetSpec, readCellSpec, evalIdx]
    cases foldIdx callFuel r.env idx with
    | error err => exact ⟨rfl, rfl⟩
    | ok q =>
      obtain ⟨index, env'⟩ := q
      dsimp only
      cases items[(r.put env').data]? with
      | none => exact ⟨rfl, rfl⟩
      | some lnd =>
        obtain ⟨ln, d⟩ := lnd
        dsimp only
        cases Value.coerceFromData name d with
        | error e => exact ⟨rfl, rfl⟩
        | ok v =>
          dsimp only
          cases storeCell name index v (r.put env').arrays <;> exact ⟨rfl, rfl⟩

theorem readTargetsSpec_tab (items : List (Nat × DataElement F)) : ∀ (ts : List (RTarget F)) (r : RState3 F),
    (readTargetsSpec items r ts).1.fns = r.fns ∧ (readTargetsSpec items r ts).1.fnLines = r.fnLines
  | [], r => ⟨rfl, rfl⟩
  | t :: rest, r => by
    have h1 := readTargetSpec_tab items r t
    have hsp : readTargetsSpec items r (t :: rest) =
        match readTargetSpec items r t with
        | (r', .next) => readTargetsSpec items r' rest
        | x => x := rfl
    rw [hsp]
    generalize readTargetSpec items r t = res at h1
    obtain ⟨r', ctl⟩ := res
    cases ctl with
    | next =>
      have h2 := readTargetsSpec_tab items rest r'
      exact ⟨h2.1.trans h1.1, h2.2.trans h1.2⟩
    | _ => exact h1

/-- the entries of the table after a reference step: those before it, or what the statement defines -/
theorem exec_fns (items : List (Nat × DataElement F)) (n j : Nat) :
    ∀ (s : RStmt3 F) (r : RState3 F),
      (∀ name d, alGet name (s.exec items n j r).1.fns = some d → alGet name r.fns = some d ∨ Defines s name d) ∧
      (∀ name m, alGet name (s.exec items n j r).1.fnLines = some m →
        alGet name r.fnLines = some m ∨ (m = n ∧ ∃ d, Defines s name d))
  | .defS f ps body, r => by
    constructor
    · intro name d h
      have h' : alGet name (alSet f { params := ps, body := body } r.fns) = some d := h
      rw [Stmt2L.alGet_alSet_cases] at h'
      by_cases hk : name = f
      · rw [if_pos hk] at h'; cases h'; exact Or.inr ⟨hk, rfl⟩
      · rw [if_neg hk] at h'; exact Or.inl h'
    · intro name m h
      have h' : alGet name (alSet f n r.fnLines) = some m := h
      rw [Stmt2L.alGet_alSet_cases] at h'
      by_cases hk : name = f
      · rw [if_pos hk] at h'; cases h'; exact Or.inr ⟨rfl, _, hk, rfl⟩
      · rw [if_neg hk] at h'; exact Or.inl h'
  | .ifS c t none, r => by
    cases hev : evalE r c with
    | error err => simp only [RStmt3.exec, hev]; exact ⟨fun _ _ h => Or.inl h, fun _ _ h => Or.inl h⟩
    | ok q =>
      obtain ⟨v, r1⟩ := q
      obtain ⟨hf, hl⟩ := evalE_fns hev
      cases hb : v.toBool with
      | false =>
        simp only [RStmt3.exec, hev, hb, Bool.false_eq_true, ↓reduceIte]
        exact ⟨fun _ _ h => Or.inl (by rw [← hf]; exact h), fun _ _ h => Or.inl (by rw [← hl]; exact h)⟩
      | true =>
        simp only [RStmt3.exec, hev, hb, ↓reduceIte]
        have ih := exec_fns items n j t r1
        rw [hf, hl] at ih
        exact ih
  | .ifS c t (some e), r => by
    cases hev : evalE r c with
    | error err => simp only [RStmt3.exec, hev]; exact ⟨fun _ _ h => Or.inl h, fun _ _ h => Or.inl h⟩
    | ok q =>
      obtain ⟨v, r1⟩ := q
      obtain ⟨hf, hl⟩ := evalE_fns hev
      cases hb : v.toBool with
      | true =>
        simp only [RStmt3.exec, hev, hb, ↓reduceIte]
        rw [closeLine3_fst]
        have ih := exec_fns items n j t r1
        rw [hf, hl] at ih
        refine ⟨fun name d h => ?_, fun name m h => ?_⟩
        · rcases ih.1 name d h with h' | h'
          · exact Or.inl h'
          · exact Or.inr (Or.inl h')
        · rcases ih.2 name m h with h' | ⟨h1, d, h2⟩
          · exact Or.inl h'
          · exact Or.inr ⟨h1, d, Or.inl h2⟩
      | false =>
        simp only [RStmt3.exec, hev, hb, Bool.false_eq_true, ↓reduceIte]
        have ih := exec_fns items n j e r1
        rw [hf, hl] at ih
        refine ⟨fun name d h => ?_, fun name m h => ?_⟩
        · rcases ih.1 name d h with h' | h'
          · exact Or.inl h'
          · exact Or.inr (Or.inr h')
        · rcases ih.2 name m h with h' | ⟨h1, d, h2⟩
          · exact Or.inl h'
          · exact Or.inr ⟨h1, d, Or.inr h2⟩
  | .letS x e, r => by
    cases hev : evalE r e with
    | error err => simp only [RStmt3.exec, hev]; exact ⟨fun _ _ h => Or.inl h, fun _ _ h => Or.inl h⟩
    | ok q =>
      obtain ⟨v, r1⟩ := q
      obtain ⟨hf, hl⟩ := evalE_fns hev
      cases hm : v.matchesName x with
      | true =>
        simp only [RStmt3.exec, hev, hm, ↓reduceIte]
        exact ⟨fun _ _ h => Or.inl (by rw [← hf]; exact h), fun _ _ h => Or.inl (by rw [← hl]; exact h)⟩
      | false =>
        simp only [RStmt3.exec, hev, hm, Bool.false_eq_true, ↓reduceIte]
        exact ⟨fun _ _ h => Or.inl (by rw [← hf]; exact h), fun _ _ h => Or.inl (by rw [← hl]; exact h)⟩
  | .printS items', r => by
    cases hp : printText3 r items' false [] with
    | error err => simp only [RStmt3.exec, hp]; exact ⟨fun _ _ h => Or.inl h, fun _ _ h => Or.inl h⟩
    | ok q =>
      obtain ⟨text, r1⟩ := q
      obtain ⟨hf, hl⟩ := printText3_fns' items' r false [] text r1 hp
      simp only [RStmt3.exec, hp]
      exact ⟨fun _ _ h => Or.inl (by rw [← hf]; exact h), fun _ _ h => Or.inl (by rw [← hl]; exact h)⟩
  | .gotoS m, r => ⟨fun _ _ h => Or.inl h, fun _ _ h => Or.inl h⟩
  | .lineS m, r => ⟨fun _ _ h => Or.inl h, fun _ _ h => Or.inl h⟩
  | .endS, r => ⟨fun _ _ h => Or.inl h, fun _ _ h => Or.inl h⟩
  | .forS v a b c, r => by
    cases hna : numE3 r a with
    | error err => simp only [RStmt3.exec, hna]; exact ⟨fun _ _ h => Or.inl h, fun _ _ h => Or.inl h⟩
    | ok q =>
      obtain ⟨x, r1⟩ := q
      obtain ⟨hf1, hl1⟩ := numE3_fns hna
      cases hnb : numE3 r1 b with
      | error err => simp only [RStmt3.exec, hna, hnb]; exact ⟨fun _ _ h => Or.inl h, fun _ _ h => Or.inl h⟩
      | ok q' =>
        obtain ⟨y, r2⟩ := q'
        obtain ⟨hf2, hl2⟩ := numE3_fns hnb
        cases hnc : stepE3 r2 c with
        | error err => simp only [RStmt3.exec, hna, hnb, hnc]; exact ⟨fun _ _ h => Or.inl h, fun _ _ h => Or.inl h⟩
        | ok q'' =>
          obtain ⟨z, r3⟩ := q''
          obtain ⟨hf3, hl3⟩ := stepE3_fns hnc
          obtain ⟨hf4, hl4⟩ := forPush3_fns n j r3 v x y z
          simp only [RStmt3.exec, hna, hnb, hnc]
          exact ⟨fun _ _ h => Or.inl (by rw [← hf1, ← hf2, ← hf3, ← hf4]; exact h),
            fun _ _ h => Or.inl (by rw [← hl1, ← hl2, ← hl3, ← hl4]; exact h)⟩
  | .nextS v, r => by
    cases hv : envOf r.vars v with
    | str x => simp only [RStmt3.exec, hv]; exact ⟨fun _ _ h => Or.inl h, fun _ _ h => Or.inl h⟩
    | num cur =>
      cases hf : findLoop v r.loops with
      | none => simp only [RStmt3.exec, hv, hf]; exact ⟨fun _ _ h => Or.inl h, fun _ _ h => Or.inl h⟩
      | some lr =>
        obtain ⟨l, rest⟩ := lr
        simp only [RStmt3.exec, hv, hf]
        split <;> split <;> exact ⟨fun _ _ h => Or.inl h, fun _ _ h => Or.inl h⟩
  | .gosubS m, r => by
    simp only [RStmt3.exec]
    split <;> exact ⟨fun _ _ h => Or.inl h, fun _ _ h => Or.inl h⟩
  | .returnS, r => by
    cases hr : r.rets with
    | nil => simp only [RStmt3.exec, hr]; exact ⟨fun _ _ h => Or.inl h, fun _ _ h => Or.inl h⟩
    | cons a as =>
      obtain ⟨ln, k⟩ := a
      simp only [RStmt3.exec, hr]
      exact ⟨fun _ _ h => Or.inl h, fun _ _ h => Or.inl h⟩
  | .readS ts, r => by
    obtain ⟨hf, hl⟩ := readTargetsSpec_tab items ts r
    exact ⟨fun _ _ h => Or.inl (by rw [← hf]; exact h), fun _ _ h => Or.inl (by rw [← hl]; exact h)⟩
  | .dataS items', r => ⟨fun _ _ h => Or.inl h, fun _ _ h => Or.inl h⟩
  | .restoreS, r => ⟨fun _ _ h => Or.inl h, fun _ _ h => Or.inl h⟩
  | .dimS name dims, r => by
    cases hfi : evalIdx r dims with
    | error err => simp only [RStmt3.exec, hfi]; exact ⟨fun _ _ h => Or.inl h, fun _ _ h => Or.inl h⟩
    | ok q =>
      obtain ⟨index, r1⟩ := q
      obtain ⟨hf, hl⟩ := evalIdx_fns hfi
      simp only [RStmt3.exec, hfi]
      split
      · exact ⟨fun _ _ h => Or.inl (by rw [← hf]; exact h), fun _ _ h => Or.inl (by rw [← hl]; exact h)⟩
      · split <;>
          exact ⟨fun _ _ h => Or.inl (by rw [← hf]; exact h), fun _ _ h => Or.inl (by rw [← hl]; exact h)⟩
  | .letCellS name idx e, r => by
    cases hfi : evalIdx r idx with
    | error err => simp only [RStmt3.exec, hfi]; exact ⟨fun _ _ h => Or.inl h, fun _ _ h => Or.inl h⟩
    | ok q =>
      obtain ⟨index, r1⟩ := q
      obtain ⟨hf1, hl1⟩ := evalIdx_fns hfi
      cases hev : evalE r1 e with
      | error err => simp only [RStmt3.exec, hfi, hev]; exact ⟨fun _ _ h => Or.inl h, fun _ _ h => Or.inl h⟩
      | ok q' =>
        obtain ⟨v, r2⟩ := q'
        obtain ⟨hf2, hl2⟩ := evalE_fns hev
        simp only [RStmt3.exec, hfi, hev]
        split <;>
          exact ⟨fun _ _ h => Or.inl (by rw [← hf1, ← hf2]; exact h), fun _ _ h => Or.inl (by rw [← hl1, ← hl2]; exact h)⟩

/-! ### along the reference run -/

/-- the function table and the lines of the definitions come from the program -/
def TableOf (p : RProgram3 F) (r : RState3 F) : Prop := FnsOf p r.fns ∧ LinesOf p r.fnLines

theorem tableOf_exec {p : RProgram3 F} {r : RState3 F} (h : TableOf p r) {n j : Nat} {ss : List (RStmt3 F)}
    {s : RStmt3 F} (hl : p.line n = some ss) (hs : ss[j]? = some s) (items : List (Nat × DataElement F)) :
    TableOf p (s.exec items n j r).1 := by
  have hmem : s ∈ ss := List.mem_of_getElem? hs
  obtain ⟨h1, h2⟩ := exec_fns items n j s r
  refine ⟨fun name d hd => ?_, fun name m hm => ?_⟩
  · rcases h1 name d hd with h' | h'
    · exact h.1 name d h'
    · exact ⟨n, ss, s, hl, hmem, h'⟩
  · rcases h2 name m hm with h' | ⟨rfl, d, h'⟩
    · exact h.2 name m h'
    · exact ⟨d, ss, s, hl, hmem, h'⟩

theorem tableOf_step {p : RProgram3 F} {r r' : RState3 F} (h : TableOf p r) (hs : RStep3 p r = .inl r') :
    TableOf p r' := by
  unfold RStep3 at hs
  cases hpc : r.pc with
  | none => rw [hpc] at hs; cases hs; exact h
  | some nj =>
    obtain ⟨n, j⟩ := nj
    rw [hpc] at hs
    simp only at hs
    cases hl : p.line n with
    | none => rw [hl] at hs; cases hs; exact h
    | some ss =>
      rw [hl] at hs
      simp only at hs
      cases hsj : ss[j]? with
      | none => rw [hsj] at hs; cases hs; exact h
      | some s =>
        rw [hsj] at hs
        simp only at hs
        have hT := tableOf_exec h hl hsj (allData3 p)
        generalize RStmt3.exec (allData3 p) n j r s = ex at hs hT
        obtain ⟨r1, ctl⟩ := ex
        cases ctl with
        | next => cases hs; exact hT
        | skipLine => cases hs; exact hT
        | jump m =>
          simp only at hs
          split at hs
          · cases hs; exact hT
          · cases hs
        | stop => cases hs; exact hT
        | resume a b => cases hs; exact hT
        | error e => cases hs
        | errorAt e ln => cases hs

theorem tableOf_steps {p : RProgram3 F} : ∀ (m : Nat) (r r' : RState3 F), TableOf p r → RSteps3 p m r = .inl r' →
    TableOf p r'
  | 0, r, r', h, hs => by cases hs; exact h
  | m + 1, r, r', h, hs => by
    rw [RSteps3] at hs
    cases hst : RStep3 p r with
    | inl r1 =>
      rw [hst] at hs
      exact tableOf_steps m r1 r' (tableOf_step h hst) hs
    | inr x =>
      rw [hst] at hs
      obtain ⟨e, n⟩ := x
      cases hs

theorem tableOf_start (p : RProgram3 F) (g : Nat) : TableOf p (p.start g) :=
  ⟨fun name d h => (by cases h), fun name m h => (by cases h)⟩

end Abasic.Stmt3L
