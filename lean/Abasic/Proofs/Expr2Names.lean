import Abasic.Proofs.Expr2Lemmas
/-
  Helper definitions and lemmas for Abasic/Props/C02Names.lean, part 1:
  what a term `name ( … )` MEANS in a state (`resolve`), and the proof that the
  evaluator's `term` follows exactly that table (`term_resolves`);
  part 2: `normalize` (trees rewritten into what `resolve` says), which keeps the
  rendering (`render2_normalize`) and makes a tree `Resolved` (`resolved_normalize`).
-/
set_option linter.unusedSectionVars false

namespace Abasic.Names
open Abasic Abasic.Ref M Abasic.ExprL Abasic.ExprL2

variable {F : Type}

/-- the three names with a built-in meaning before `(` -/
inductive Builtin where
  | abs | int | rnd
  deriving DecidableEq, Repr

/-- what `name ( … )` means -/
inductive Resolution where
  /-- one of ABS / INT / RND -/
  | builtin (b : Builtin)
  /-- a call of the user-defined function stored as `d` -/
  | call (d : FnDef)
  /-- an element of the array `name` -/
  | cell
  deriving DecidableEq, Repr

/-- The meaning of `name ( … )` given the function table `fns`: the built-in names
    first, then the defined functions, else an array element. -/
def resolveIn (fns : List (Str × FnDef)) (name : Str) : Resolution :=
  if name == Extracted.builtinAbs.toList then .builtin .abs
  else if name == Extracted.builtinInt.toList then .builtin .int
  else if name == Extracted.builtinRnd.toList then .builtin .rnd
  else
    match alGet name fns with
    | some d => .call d
    | none => .cell

/-- the meaning of `name ( … )` in the state `σ` -/
def resolve (σ : St F) (name : Str) : Resolution := resolveIn σ.fns name

variable [NumOps F]

/-- a built-in applied to the parenthesised argument that follows -/
def builtinM (ev : Evals F) : Builtin → M F (Value F)
  | .abs => do
    let x ← numberFunctionArg ev
    pure (.num (NumOps.abs x))
  | .int => do
    let x ← numberFunctionArg ev
    pure (.num (NumOps.floor x))
  | .rnd => do
    let x ← numberFunctionArg ev
    let r ← rnd x
    pure (.num r)

/-- a call of the user function `name`, stored as `d`: the arguments are bound to
    `d.args`, the frame is pushed and the cursor moved to the definition, the
    body is evaluated there, the frame is popped on both paths -/
def callM (ev : Evals F) (name : Str) (d : FnDef) : M F (Value F) := do
  expect .LeftParen
  let bindings ← bindArgs ev d.args.length d.args 0 []
  expect .RightParen
  pushFunctionCall name bindings
  match ← attempt ev.expr with
  | .ok v =>
    popFunctionCall
    pure v
  | .error e =>
    let s ← get
    let e := s.populate e
    popFunctionCall
    throw e

/-- a read of the array `name`: subscripts, the warning about an undeclared
    array, the read (which creates an undeclared array) -/
def cellM' (ev : Evals F) (name : Str) : M F (Value F) := do
  let idx ← arrayIndex ev
  warnUndeclaredArray name
  arrayGet name idx

/-- what the evaluator does for each resolution, from the state with the cursor on `(` -/
def meaning (ev : Evals F) (name : Str) : Resolution → M F (Value F)
  | .builtin b => builtinM ev b
  | .call d => callM ev name d
  | .cell => cellM' ev name

omit [NumOps F] in
theorem resolveIn_reserved (fns : List (Str × FnDef)) (name : Str) (h : reserved name = true) :
    ∃ b, resolveIn fns name = .builtin b := by
  unfold resolveIn
  by_cases h1 : (name == Extracted.builtinAbs.toList) = true
  · exact ⟨.abs, by rw [if_pos h1]⟩
  · by_cases h2 : (name == Extracted.builtinInt.toList) = true
    · exact ⟨.int, by rw [if_neg h1, if_pos h2]⟩
    · by_cases h3 : (name == Extracted.builtinRnd.toList) = true
      · exact ⟨.rnd, by rw [if_neg h1, if_neg h2, if_pos h3]⟩
      · unfold reserved at h
        simp only [Bool.not_eq_true] at h1 h2 h3
        simp [h1, h2, h3] at h

omit [NumOps F] in
theorem resolveIn_unreserved (fns : List (Str × FnDef)) (name : Str) (h : reserved name = false) :
    resolveIn fns name = match alGet name fns with
      | some d => .call d
      | none => .cell := by
  unfold reserved at h
  simp only [Bool.or_eq_false_iff] at h
  unfold resolveIn
  simp only [h.1.1, h.1.2, h.2, Bool.false_eq_true, ↓reduceIte]

/-- `functionCall` follows `resolveIn` -/
theorem functionCall_resolves (ev : Evals F) (name : Str) (σ : St F) :
    functionCall ev name σ =
      match resolveIn σ.fns name with
      | .builtin b => (builtinM ev b >>= fun v => pure (some v)) σ
      | .call d => (callM ev name d >>= fun v => pure (some v)) σ
      | .cell => .ok none σ := by
  unfold functionCall resolveIn
  cases h1 : (name == Extracted.builtinAbs.toList) with
  | true =>
    simp only [↓reduceIte, builtinM, bind, M.bindM, pure, M.pureM]
    cases numberFunctionArg ev σ <;> rfl
  | false =>
    cases h2 : (name == Extracted.builtinInt.toList) with
    | true =>
      simp only [Bool.false_eq_true, ↓reduceIte, builtinM, bind, M.bindM, pure, M.pureM]
      cases numberFunctionArg ev σ <;> rfl
    | false =>
      cases h3 : (name == Extracted.builtinRnd.toList) with
      | true =>
        simp only [Bool.false_eq_true, ↓reduceIte, builtinM, bind, M.bindM, pure, M.pureM]
        cases numberFunctionArg ev σ with
        | err e s => rfl
        | ok x s => dsimp only; cases rnd x s <;> rfl
      | false =>
        simp only [Bool.false_eq_true, ↓reduceIte]
        unfold userFunctionCall
        simp only [bind, M.bindM, M.get]
        cases hd : alGet name σ.fns with
        | none => rfl
        | some d =>
          simp only [callM, bind, M.bindM, pure, M.pureM]
          cases expect Kw.LeftParen σ with
          | err e s => rfl
          | ok u s =>
            dsimp only
            cases bindArgs ev d.args.length d.args 0 [] s with
            | err e s => rfl
            | ok b s =>
              dsimp only
              cases expect Kw.RightParen s with
              | err e s => rfl
              | ok u s =>
                dsimp only
                cases pushFunctionCall name b s with
                | err e s => rfl
                | ok u s =>
                  dsimp only
                  cases attempt ev.expr s with
                  | err e s => rfl
                  | ok r s =>
                    cases r with
                    | ok v =>
                      dsimp only [M.bindM]
                      cases popFunctionCall s <;> rfl
                    | error e =>
                      dsimp only [M.get, M.bindM]
                      cases popFunctionCall s <;> rfl

/-- **`term` on `name ( …`** reads the name, sees the parenthesis, and then does
    what `resolve` says — for every evaluator `ev` for the nested expressions,
    whatever the rest of the line is. -/
theorem term_resolves (ev : Evals F) (σ : St F) (pre rest : List (Token F)) (name : Str)
    (hAt : At σ pre (.symbol name :: .kw .LeftParen :: rest)) :
    term ev σ = meaning ev name (resolve σ name) (mv σ 1 (σ.reads + 1 + 1)) := by
  have hAt1 := at_mv1 hAt (σ.reads + 1)
  unfold term
  rw [bind_ok (nextUnwrapped_eq hAt)]
  simp only
  rw [bind_ok (peekIsKw_cons .LeftParen hAt1), mv_mv]
  simp only [mv_reads, Nat.add_zero]
  have hk : (Token.kw (F := F) Kw.LeftParen).isKw Kw.LeftParen = true := rfl
  simp only [hk, ↓reduceIte]
  have hfc := functionCall_resolves ev name (mv σ 1 (σ.reads + 1 + 1))
  have hfns : (mv σ 1 (σ.reads + 1 + 1)).fns = σ.fns := rfl
  rw [hfns] at hfc
  unfold resolve
  cases hr : resolveIn σ.fns name with
  | builtin b =>
    rw [hr] at hfc
    simp only [meaning]
    simp only [bind, M.bindM] at hfc ⊢
    rw [hfc]
    cases builtinM ev b (mv σ 1 (σ.reads + 1 + 1)) <;> rfl
  | call d =>
    rw [hr] at hfc
    simp only [meaning]
    simp only [bind, M.bindM] at hfc ⊢
    rw [hfc]
    cases callM ev name d (mv σ 1 (σ.reads + 1 + 1)) <;> rfl
  | cell =>
    rw [hr] at hfc
    simp only [meaning]
    simp only [bind, M.bindM] at hfc ⊢
    rw [hfc]
    rfl

omit [NumOps F]

/-! ### `normalize`: every `cell` / `call` node rewritten into what `resolve` says -/

/-- the node `name ( args )` as the evaluator reads it, given the (spec) function
    table: a built-in applied to its one argument; a call when `name` is defined;
    else an array element.  (A built-in name with no or several arguments is a
    syntax error for the evaluator; it is left as it is — see `Arity1`.) -/
def resolveNode (fns : List (Str × FnDefSpec F)) (name : Str) (args : List (Expr2 F)) : Expr2 F :=
  if name == Extracted.builtinAbs.toList then
    (match args with
     | [e] => .abs e
     | _ => .cell name args)
  else if name == Extracted.builtinInt.toList then
    (match args with
     | [e] => .int e
     | _ => .cell name args)
  else if name == Extracted.builtinRnd.toList then
    (match args with
     | [e] => .rnd e
     | _ => .cell name args)
  else
    match alGet name fns with
    | some _ => .call name args
    | none => .cell name args

mutual
def normalize (fns : List (Str × FnDefSpec F)) : Expr2 F → Expr2 F
  | .num x => .num x
  | .str s => .str s
  | .var n => .var n
  | .un op e => .un op (normalize fns e)
  | .bin op l r => .bin op (normalize fns l) (normalize fns r)
  | .paren e => .paren (normalize fns e)
  | .abs e => .abs (normalize fns e)
  | .int e => .int (normalize fns e)
  | .rnd e => .rnd (normalize fns e)
  | .cell name idx => resolveNode fns name (normalizeL fns idx)
  | .call f args => resolveNode fns f (normalizeL fns args)
termination_by e => sizeOf e
def normalizeL (fns : List (Str × FnDefSpec F)) : List (Expr2 F) → List (Expr2 F)
  | [] => []
  | e :: es => normalize fns e :: normalizeL fns es
termination_by es => sizeOf es
end

/-- the function table with every body normalized -/
def normFns (fns : List (Str × FnDefSpec F)) : List (Str × FnDefSpec F) :=
  fns.map fun p => (p.1, { params := p.2.params, body := normalize fns p.2.body })

/-- the environment with every function body normalized -/
def normEnv (env : RefEnv F) : RefEnv F := { env with fns := normFns env.fns }

mutual
/-- a node named like a built-in has exactly one argument (anything else is a
    syntax error for the evaluator: `ABS ( )`, `ABS ( 1 , 2 )`) -/
def Arity1 : Expr2 F → Prop
  | .num _ => True
  | .str _ => True
  | .var _ => True
  | .un _ e => Arity1 e
  | .bin _ l r => Arity1 l ∧ Arity1 r
  | .paren e => Arity1 e
  | .abs e => Arity1 e
  | .int e => Arity1 e
  | .rnd e => Arity1 e
  | .cell name idx => (reserved name = true → idx.length = 1) ∧ Arity1L idx
  | .call f args => (reserved f = true → args.length = 1) ∧ Arity1L args
def Arity1L : List (Expr2 F) → Prop
  | [] => True
  | e :: es => Arity1 e ∧ Arity1L es
end

theorem normalizeL_length (fns : List (Str × FnDefSpec F)) (es : List (Expr2 F)) :
    (normalizeL fns es).length = es.length := by
  induction es with
  | nil => rw [normalizeL]
  | cons e es ih => rw [normalizeL, List.length_cons, List.length_cons, ih]

theorem resolveNode_prec (fns : List (Str × FnDefSpec F)) (name : Str) (args : List (Expr2 F)) :
    (resolveNode fns name args).prec = 8 := by
  unfold resolveNode
  split
  · split <;> rfl
  · split
    · split <;> rfl
    · split
      · split <;> rfl
      · split <;> rfl

theorem beq_eq {a b : Str} (h : (a == b) = true) : a = b := by simpa using h

theorem render2_resolveNode (fns : List (Str × FnDefSpec F)) (name : Str) (args : List (Expr2 F)) :
    render2 (resolveNode fns name args) =
      .symbol name :: .kw .LeftParen :: (renderArgs args ++ [.kw .RightParen]) := by
  unfold resolveNode
  split
  · rename_i h
    have := beq_eq h
    split
    · rw [render2_abs, renderArgs_one, this]
    · rw [render2_cell]
  · split
    · rename_i h
      have := beq_eq h
      split
      · rw [render2_int, renderArgs_one, this]
      · rw [render2_cell]
    · split
      · rename_i h
        have := beq_eq h
        split
        · rw [render2_rnd, renderArgs_one, this]
        · rw [render2_cell]
      · split
        · rw [render2_call]
        · rw [render2_cell]

theorem prec_normalize (fns : List (Str × FnDefSpec F)) (e : Expr2 F) : (normalize fns e).prec = e.prec := by
  cases e <;> rw [normalize] <;> first | rfl | exact resolveNode_prec _ _ _

theorem render2_fixP2_congr (p : Nat) (a b : Expr2 F) (hp : a.prec = b.prec) (hr : render2 a = render2 b) :
    render2 (fixP2 p a) = render2 (fixP2 p b) := by
  unfold fixP2
  rw [hp]
  split
  · rw [render2_paren, render2_paren, hr]
  · exact hr

mutual
/-- normalizing does not change the rendering -/
theorem render2_normalize (fns : List (Str × FnDefSpec F)) : ∀ e : Expr2 F, render2 (normalize fns e) = render2 e
  | .num x => by rw [normalize]
  | .str s => by rw [normalize]
  | .var n => by rw [normalize]
  | .un op e => by
    rw [normalize, render2_un, render2_un]
    exact congrArg _ (render2_fixP2_congr 8 _ _ (prec_normalize fns e) (render2_normalize fns e))
  | .bin op l r => by
    rw [normalize, render2_bin, render2_bin,
      render2_fixP2_congr _ _ _ (prec_normalize fns l) (render2_normalize fns l),
      render2_fixP2_congr _ _ _ (prec_normalize fns r) (render2_normalize fns r)]
  | .paren e => by rw [normalize, render2_paren, render2_paren, render2_normalize fns e]
  | .abs e => by rw [normalize, render2_abs, render2_abs, render2_normalize fns e]
  | .int e => by rw [normalize, render2_int, render2_int, render2_normalize fns e]
  | .rnd e => by rw [normalize, render2_rnd, render2_rnd, render2_normalize fns e]
  | .cell name idx => by rw [normalize, render2_resolveNode, render2_cell, renderArgs_normalizeL fns idx]
  | .call f args => by rw [normalize, render2_resolveNode, render2_call, renderArgs_normalizeL fns args]
termination_by e => sizeOf e
theorem renderArgs_normalizeL (fns : List (Str × FnDefSpec F)) :
    ∀ es : List (Expr2 F), renderArgs (normalizeL fns es) = renderArgs es
  | [] => by rw [normalizeL]
  | [e] => by rw [normalizeL, normalizeL, renderArgs_one, renderArgs_one, render2_normalize fns e]
  | e :: e' :: es => by
    have h := renderArgs_normalizeL fns (e' :: es)
    have e1 : normalizeL fns (e :: e' :: es) = normalize fns e :: normalizeL fns (e' :: es) := by rw [normalizeL]
    have e2 : normalizeL fns (e' :: es) = normalize fns e' :: normalizeL fns es := by rw [normalizeL]
    rw [e1, e2, renderArgs_cons, ← e2, h, render2_normalize fns e, renderArgs_cons]
termination_by es => sizeOf es
end

theorem alGet_map {α β : Type} (g : α → β) (name : Str) (l : List (Str × α)) :
    alGet name (l.map fun p => (p.1, g p.2)) = (alGet name l).map g := by
  induction l with
  | nil => rfl
  | cons p ps ih =>
    obtain ⟨k, v⟩ := p
    simp only [List.map_cons, alGet]
    split
    · rfl
    · exact ih

theorem alGet_normFns (fns : List (Str × FnDefSpec F)) (name : Str) :
    alGet name (normFns fns) =
      (alGet name fns).map fun d => { params := d.params, body := normalize fns d.body } := by
  unfold normFns
  exact alGet_map (fun d : FnDefSpec F => ({ params := d.params, body := normalize fns d.body } : FnDefSpec F)) name fns

theorem resolved_resolveNode (G fns : List (Str × FnDefSpec F)) (name : Str) (args : List (Expr2 F))
    (hG : ∀ nm, alGet nm fns = none → alGet nm G = none)
    (har : reserved name = true → args.length = 1) (hargs : ResolvedL G args) :
    Resolved G (resolveNode fns name args) := by
  unfold resolveNode
  have hone : ∀ (hr : reserved name = true), ∃ e, args = [e] := by
    intro hr
    have := har hr
    match args, this with
    | [e], _ => exact ⟨e, rfl⟩
  have hres : ∀ {c : Str}, (name == c) = true → reserved name = true →
      reserved name = true := fun _ h => h
  cases h1 : (name == Extracted.builtinAbs.toList) with
  | true =>
    have hr : reserved name = true := by unfold reserved; simp [h1]
    obtain ⟨e, rfl⟩ := hone hr
    simp only [↓reduceIte, Resolved]
    simpa only [ResolvedL, and_true] using hargs
  | false =>
    cases h2 : (name == Extracted.builtinInt.toList) with
    | true =>
      have hr : reserved name = true := by unfold reserved; simp [h2]
      obtain ⟨e, rfl⟩ := hone hr
      simp only [Bool.false_eq_true, ↓reduceIte, Resolved]
      simpa only [ResolvedL, and_true] using hargs
    | false =>
      cases h3 : (name == Extracted.builtinRnd.toList) with
      | true =>
        have hr : reserved name = true := by unfold reserved; simp [h3]
        obtain ⟨e, rfl⟩ := hone hr
        simp only [Bool.false_eq_true, ↓reduceIte, Resolved]
        simpa only [ResolvedL, and_true] using hargs
      | false =>
        have hr : reserved name = false := by unfold reserved; simp [h1, h2, h3]
        simp only [Bool.false_eq_true, ↓reduceIte]
        cases hd : alGet name fns with
        | some d => simp only [Resolved]; exact ⟨hr, hargs⟩
        | none => simp only [Resolved]; exact ⟨hr, hG name hd, hargs⟩

mutual
theorem resolved_normalize (G fns : List (Str × FnDefSpec F))
    (hG : ∀ nm, alGet nm fns = none → alGet nm G = none) :
    ∀ e : Expr2 F, Arity1 e → Resolved G (normalize fns e)
  | .num x, _ => by rw [normalize]; simp only [Resolved]
  | .str s, _ => by rw [normalize]; simp only [Resolved]
  | .var n, _ => by rw [normalize]; simp only [Resolved]
  | .un op e, h => by
    rw [normalize]; simp only [Resolved, Arity1] at h ⊢; exact resolved_normalize G fns hG e h
  | .bin op l r, h => by
    rw [normalize]; simp only [Resolved, Arity1] at h ⊢
    exact ⟨resolved_normalize G fns hG l h.1, resolved_normalize G fns hG r h.2⟩
  | .paren e, h => by
    rw [normalize]; simp only [Resolved, Arity1] at h ⊢; exact resolved_normalize G fns hG e h
  | .abs e, h => by
    rw [normalize]; simp only [Resolved, Arity1] at h ⊢; exact resolved_normalize G fns hG e h
  | .int e, h => by
    rw [normalize]; simp only [Resolved, Arity1] at h ⊢; exact resolved_normalize G fns hG e h
  | .rnd e, h => by
    rw [normalize]; simp only [Resolved, Arity1] at h ⊢; exact resolved_normalize G fns hG e h
  | .cell name idx, h => by
    rw [normalize]; simp only [Arity1] at h
    exact resolved_resolveNode G fns name _ hG (by rw [normalizeL_length]; exact h.1)
      (resolvedL_normalizeL G fns hG idx h.2)
  | .call f args, h => by
    rw [normalize]; simp only [Arity1] at h
    exact resolved_resolveNode G fns f _ hG (by rw [normalizeL_length]; exact h.1)
      (resolvedL_normalizeL G fns hG args h.2)
termination_by e => sizeOf e
theorem resolvedL_normalizeL (G fns : List (Str × FnDefSpec F))
    (hG : ∀ nm, alGet nm fns = none → alGet nm G = none) :
    ∀ es : List (Expr2 F), Arity1L es → ResolvedL G (normalizeL fns es)
  | [], _ => by rw [normalizeL]; simp only [ResolvedL]
  | e :: es, h => by
    rw [normalizeL]; simp only [ResolvedL, Arity1L] at h ⊢
    exact ⟨resolved_normalize G fns hG e h.1, resolvedL_normalizeL G fns hG es h.2⟩
termination_by es => sizeOf es
end


end Abasic.Names
