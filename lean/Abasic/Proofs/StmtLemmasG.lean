import Abasic.Proofs.StmtLemmas
import Abasic.Proofs.ExprLemmasG
/-
  C03 (control stack): the statement refinement of Proofs/StmtLemmas.lean again,
  for states whose GOSUB stack need not be empty.

  * `Quiet` is `ExprG.Quiet` (no frame binds a variable; warnings off);
  * `Refines` differs from `StmtL.Refines` in the outcome `stop` only: END calls
    `set_and_goto_immediate_line`, which clears the GOSUB stack unless a
    breakpoint is pending.

  Everything that mentions neither is used from `StmtL` as it is; the proofs
  below are those of StmtLemmas.lean, verbatim except for `end_run`.
-/
namespace Abasic.StmtG
open Abasic Abasic.Ref Abasic.StmtL M
open Abasic.ExprL hiding Quiet expr_eq main
open Abasic.ExprG (Quiet expr_eq main)

variable {F : Type}

/-- A run `res` of the model from `σ` realises the reference result `r`
    (as `StmtL.Refines`, but END may clear a non-empty GOSUB stack). -/
def Refines (res : Res F Unit) (σ : St F) (after eol : Nat) (r : RResult F) : Prop :=
  match r.ctl with
  | .next => ∃ k, σ.reads < k ∧ res = .ok ()
      { σ with vars := r.vars, out := outRecs r.out ++ σ.out, loc := { σ.loc with idx := after }, reads := k }
  | .skipLine => ∃ k, σ.reads < k ∧ res = .ok ()
      { σ with vars := r.vars, out := outRecs r.out ++ σ.out, loc := { σ.loc with idx := eol }, reads := k }
  | .jump n =>
    (σ.lines.has n = true → ∃ k, σ.reads < k ∧ res = .ok ()
      { σ with vars := r.vars, out := outRecs r.out ++ σ.out, bp := none,
               loc := { line := some n, idx := 0 }, reads := k }) ∧
    (σ.lines.has n = false →
      ∃ σ', res = .err { err := .undefinedStatement } σ' ∧ σ'.nesting = σ.nesting)
  | .stop => ∃ k, σ.reads < k ∧ res = .ok ()
      { σ with vars := r.vars, out := outRecs r.out ++ σ.out,
               stack := if σ.bp.isNone then [] else σ.stack, imm := [], loc := {}, reads := k }
  | .error x => ∃ σ', res = .err { err := x } σ' ∧ σ'.nesting = σ.nesting

variable [NumOps F]

/-! ### LET -/

theorem let_run (x : Str) (e : Expr F) (n : Nat) (σ : St F) (pre rest : List (Token F)) (eol : Nat)
    (hAt : At σ pre (renderS (.letS x e) ++ rest)) (hq : Quiet σ) (htr : σ.tracing = false)
    (hd : depth e + 1 ≤ n) (hn : σ.nesting + (depth e + 1) ≤ Extracted.nestingLimit)
    (hE : Ends 6 rest) :
    Refines (stmtBody (evalN n) σ) σ (pre.length + (renderS (.letS x e)).length) eol
      (RStmt.exec σ.vars (.letS x e)) := by
  have hAt0 : At σ pre (.kw .Let :: .symbol x :: .kw .Equals :: (render e ++ rest)) := by
    simpa only [renderS, List.cons_append] using hAt
  have hAt1 := at_mv1 hAt0 (σ.reads + 1)
  have hAt2 := at_mv1 hAt1 (σ.reads + 1 + 1)
  rw [mv_mv] at hAt2
  have hAt3 := at_mv0 hAt2 (σ.reads + 1 + 1 + 1)
  rw [mv_mv] at hAt3
  have hAt4 := at_mv1 hAt3 (σ.reads + 1 + 1 + 1 + 1)
  rw [mv_mv] at hAt4
  have hrun : stmtBody (evalN n) σ =
      ((evalN n).expr >>= fun v => assignValue { name := x, index := none } v)
        (mv σ (1 + 1 + 0 + 1) (σ.reads + 1 + 1 + 1 + 1)) := by
    unfold stmtBody
    rw [bind_ok (traceHere_off htr)]
    unfold dispatch
    rw [bind_ok (next_eq hAt0)]
    show letStatement (evalN n) _ = _
    unfold letStatement
    rw [bind_ok (next_eq hAt1), mv_mv]
    simp only [mv_reads]
    show assignmentStatement (evalN n) x _ = _
    unfold assignmentStatement
    rw [bind_ok (optionalArrayIndex_none hAt2 rfl), mv_mv]
    simp only [mv_reads]
    rw [bind_ok (expect_eq hAt3 rfl), mv_mv]
    rfl
  have hX := expr_eq e (main e).1 n (mv σ (1 + 1 + 0 + 1) (σ.reads + 1 + 1 + 1 + 1)) _ rest hd hn hE hAt4 (hq.mv _ _)
  rw [getVar_mv] at hX
  rw [hrun]
  show Refines _ σ _ eol (RStmt.exec σ.vars (.letS x e))
  cases hev : foldE (getVar σ) e with
  | error err =>
    rw [hev] at hX
    obtain ⟨σ', hσ', hn'⟩ := hX
    have hr : RStmt.exec σ.vars (.letS x e) = { vars := σ.vars, out := [], ctl := .error err } := by
      simp only [RStmt.exec, ← getVar_eq_envOf, hev]
    rw [hr]
    exact ⟨σ', bind_err hσ', hn'⟩
  | ok v =>
    rw [hev] at hX
    obtain ⟨r, hr, hσ'⟩ := hX
    simp only [mv_reads, mv_mv] at hr hσ'
    rw [bind_ok hσ']
    cases hm : v.matchesName x with
    | false =>
      have hr : RStmt.exec σ.vars (.letS x e) = { vars := σ.vars, out := [], ctl := .error .typeMismatch } := by
        simp only [RStmt.exec, ← getVar_eq_envOf, hev, hm, Bool.false_eq_true, ↓reduceIte]
      rw [hr]
      refine ⟨mv σ (1 + 1 + 0 + 1 + (render e).length) r, ?_, rfl⟩
      simp only [assignValue, setVar, hm, Bool.false_eq_true, ↓reduceIte, M.fail]
    | true =>
      have hr' : RStmt.exec σ.vars (.letS x e) = { vars := alSet x v σ.vars, out := [], ctl := .next } := by
        simp only [RStmt.exec, ← getVar_eq_envOf, hev, hm, ↓reduceIte]
      rw [hr']
      refine ⟨r, by omega, ?_⟩
      simp only [assignValue, setVar, hm, ↓reduceIte, M.modify, outRecs, List.map_nil, List.reverse_nil,
        List.nil_append, mv, hAt.2, renderS, List.length_cons]
      congr 3
      omega

theorem goto_run (m : Nat) (n : Nat) (σ : St F) (pre rest : List (Token F)) (after eol : Nat)
    (hAt : At σ pre (renderS (.gotoS m : RStmt F) ++ rest)) (htr : σ.tracing = false)
    (hround : NumOps.toU64 (NumOps.ofNat m : F) = m) :
    Refines (stmtBody (evalN n) σ) σ after eol (RStmt.exec σ.vars (.gotoS m)) := by
  have hAt0 : At σ pre (.kw .Goto :: .num (NumOps.ofNat m) :: rest) := by
    simpa only [renderS, List.cons_append, List.nil_append] using hAt
  have hAt1 := at_mv1 hAt0 (σ.reads + 1)
  have hrun : stmtBody (evalN n) σ = gotoLine m (mv σ (1 + 1) (σ.reads + 1 + 1)) := by
    unfold stmtBody
    rw [bind_ok (traceHere_off htr)]
    unfold dispatch
    rw [bind_ok (next_eq hAt0)]
    show gotoStatement _ = _
    unfold gotoStatement
    rw [bind_ok (next_eq hAt1), mv_mv]
    simp only [mv_reads, hround]
  rw [hrun, gotoLine_eq]
  show Refines _ σ after eol { vars := σ.vars, out := [], ctl := .jump m }
  unfold Refines
  show (σ.lines.has m = true → _) ∧ (σ.lines.has m = false → _)
  constructor
  · intro hh
    have hh' : (mv σ (1 + 1) (σ.reads + 1 + 1)).lines.has m = true := hh
    refine ⟨σ.reads + 1 + 1, by omega, ?_⟩
    rw [hh']
    rfl
  · intro hh
    have hh' : (mv σ (1 + 1) (σ.reads + 1 + 1)).lines.has m = false := hh
    exact ⟨{ mv σ (1 + 1) (σ.reads + 1 + 1) with bp := none }, by rw [hh']; rfl, rfl⟩

theorem end_run (n : Nat) (σ : St F) (pre rest : List (Token F)) (after eol : Nat)
    (hAt : At σ pre (renderS (.endS : RStmt F) ++ rest)) (htr : σ.tracing = false) :
    Refines (stmtBody (evalN n) σ) σ after eol (RStmt.exec σ.vars .endS) := by
  have hAt0 : At σ pre (.kw .End :: rest) := by
    simpa only [renderS, List.cons_append, List.nil_append] using hAt
  show Refines _ σ after eol { vars := σ.vars, out := [], ctl := .stop }
  unfold Refines
  refine ⟨σ.reads + 1, by omega, ?_⟩
  unfold stmtBody
  rw [bind_ok (traceHere_off htr)]
  unfold dispatch
  rw [bind_ok (next_eq hAt0)]
  show setImmediate [] _ = _
  simp only [setImmediate, M.modify, St.setImmediate, mv, outRecs, List.map_nil,
    List.reverse_nil, List.nil_append]
  rfl

theorem printLoop_run (n : Nat) (rest : List (Token F)) (hE : StmtEnd rest) (items : List (PItem F)) :
    ∀ (k : Nat) (σ : St F) (pre : List (Token F)) (semi : Bool) (acc : Str),
      At σ pre (renderItems items ++ rest) → Quiet σ → itemsDepth items ≤ n →
      σ.nesting + itemsDepth items ≤ Extracted.nestingLimit → separated items = true →
      (renderItems items).length < k →
      match printText (getVar σ) items semi acc with
      | .ok text => ∃ r, σ.reads < r ∧ ∃ semi' text',
          printLoop (evalN n) k semi acc σ = .ok (semi', text') (mv σ (renderItems items).length r) ∧
          (if semi' then text' else text' ++ ['\n']) = text
      | .error x => ∃ σ', printLoop (evalN n) k semi acc σ = .err { err := x } σ' ∧
          σ'.nesting = σ.nesting := by
  induction items with
  | nil =>
    intro k σ pre semi acc hAt _ _ _ _ hk
    obtain ⟨k', rfl⟩ : ∃ k', k = k' + 1 := ⟨k - 1, by omega⟩
    have hAt' : At σ pre rest := hAt
    exact ⟨σ.reads + 1, by omega, semi, acc, printLoop_stop hAt' hE, rfl⟩
  | cons i r ih =>
    intro k σ pre semi acc hAt hq hd hn hsep hk
    obtain ⟨k', rfl⟩ : ∃ k', k = k' + 1 := ⟨k - 1, by omega⟩
    have hsep' := sep_tail i r hsep
    cases i with
    | semi =>
      have hAt0 : At σ pre (.kw .Semicolon :: (renderItems r ++ rest)) := hAt
      have hlen : (renderItems (PItem.semi :: r)).length = 1 + (renderItems r).length := by
        simp only [renderItems, PItem.render, List.length_append, List.length_cons, List.length_nil]
      have hI := ih k' (mv σ 1 (σ.reads + 1 + 1)) _ true acc (at_mv1 hAt0 _) (hq.mv _ _) hd hn hsep'
        (by rw [hlen] at hk; omega)
      rw [getVar_mv] at hI
      rw [printLoop_semi hAt0, hlen]
      show match printText (getVar σ) r true acc with | .ok text => _ | .error x => _
      cases hp : printText (getVar σ) r true acc with
      | error x => rw [hp] at hI; exact hI
      | ok text =>
        rw [hp] at hI
        obtain ⟨r', hr', semi', text', hrun, htext⟩ := hI
        simp only [mv_reads, mv_mv] at hr' hrun
        exact ⟨r', by omega, semi', text', hrun, htext⟩
    | comma =>
      have hAt0 : At σ pre (.kw .Comma :: (renderItems r ++ rest)) := hAt
      have hlen : (renderItems (PItem.comma :: r)).length = 1 + (renderItems r).length := by
        simp only [renderItems, PItem.render, List.length_append, List.length_cons, List.length_nil]
      have hI := ih k' (mv σ 1 (σ.reads + 1 + 1)) _ false (acc ++ ['\t']) (at_mv1 hAt0 _) (hq.mv _ _) hd hn hsep'
        (by rw [hlen] at hk; omega)
      rw [getVar_mv] at hI
      rw [printLoop_comma hAt0, hlen]
      show match printText (getVar σ) r false (acc ++ ['\t']) with | .ok text => _ | .error x => _
      cases hp : printText (getVar σ) r false (acc ++ ['\t']) with
      | error x => rw [hp] at hI; exact hI
      | ok text =>
        rw [hp] at hI
        obtain ⟨r', hr', semi', text', hrun, htext⟩ := hI
        simp only [mv_reads, mv_mv] at hr' hrun
        exact ⟨r', by omega, semi', text', hrun, htext⟩
    | expr e =>
      have hAt0 : At σ pre (render e ++ (renderItems r ++ rest)) := by
        simpa only [renderItems, PItem.render, List.append_assoc] using hAt
      have hlen : (renderItems (PItem.expr e :: r)).length = (render e).length + (renderItems r).length := by
        simp only [renderItems, PItem.render, List.length_append]
      have hde : depth e + 1 ≤ n := by simp only [itemsDepth] at hd; omega
      have hdr : itemsDepth r ≤ n := by simp only [itemsDepth] at hd; omega
      have hne : σ.nesting + (depth e + 1) ≤ Extracted.nestingLimit := by simp only [itemsDepth] at hn; omega
      have hnr : σ.nesting + itemsDepth r ≤ Extracted.nestingLimit := by simp only [itemsDepth] at hn; omega
      obtain ⟨t, ts, hts, hpl⟩ := render_head e
      have hAt1 : At σ pre (t :: (ts ++ (renderItems r ++ rest))) := by rw [hts] at hAt0; exact hAt0
      have hX := expr_eq e (main e).1 n (mv σ 0 (σ.reads + 1)) pre _ hde hne
        (sep_follow e r rest hsep hE) (at_mv0 hAt0 _) (hq.mv _ _)
      rw [getVar_mv] at hX
      rw [printLoop_expr hAt1 hpl, hlen]
      show match (match foldE (getVar σ) e with
          | .ok v => printText (getVar σ) r false (acc ++ valueText v)
          | .error err => .error err) with | .ok text => _ | .error x => _
      cases hev : foldE (getVar σ) e with
      | error x =>
        rw [hev] at hX
        obtain ⟨σ', hσ', hn'⟩ := hX
        exact ⟨σ', bind_err hσ', hn'⟩
      | ok v =>
        rw [hev] at hX
        obtain ⟨r1, hr1, hσ1⟩ := hX
        simp only [mv_reads, mv_mv] at hr1 hσ1
        rw [bind_ok hσ1]
        have hI := ih k' (mv σ (0 + (render e).length) r1) _ false (acc ++ valueText v)
          (by have := at_mv hAt0 r1; rwa [Nat.zero_add]) (hq.mv _ _) hdr hnr hsep'
          (by have := render_pos e; rw [hlen] at hk; omega)
        rw [getVar_mv] at hI
        show match printText (getVar σ) r false (acc ++ valueText v) with | .ok text => _ | .error x => _
        cases hp : printText (getVar σ) r false (acc ++ valueText v) with
        | error x => rw [hp] at hI; exact hI
        | ok text =>
          rw [hp] at hI
          obtain ⟨r', hr', semi', text', hrun, htext⟩ := hI
          simp only [mv_reads, mv_mv, Nat.zero_add] at hr' hrun
          rw [Nat.zero_add]
          exact ⟨r', by omega, semi', text', hrun, htext⟩


theorem print_run (items : List (PItem F)) (n : Nat) (σ : St F) (pre rest : List (Token F)) (eol : Nat)
    (hAt : At σ pre (renderS (.printS items) ++ rest)) (hq : Quiet σ) (htr : σ.tracing = false)
    (hd : itemsDepth items ≤ n) (hn : σ.nesting + itemsDepth items ≤ Extracted.nestingLimit)
    (hsep : separated items = true) (hE : StmtEnd rest) :
    Refines (stmtBody (evalN n) σ) σ (pre.length + (renderS (.printS items)).length) eol
      (RStmt.exec σ.vars (.printS items)) := by
  have hAt0 : At σ pre (.kw .Print :: (renderItems items ++ rest)) := by
    simpa only [renderS, List.cons_append] using hAt
  have hAt1 := at_mv1 hAt0 (σ.reads + 1)
  have hL := printLoop_run n rest hE items ((pre ++ [Token.kw Kw.Print] ++ (renderItems items ++ rest)).length + 1)
    (mv σ 1 (σ.reads + 1)) _ false [] hAt1 (hq.mv _ _) hd hn hsep
    (by simp only [List.length_append]; omega)
  rw [getVar_mv] at hL
  have hrun : stmtBody (evalN n) σ =
      (printLoop (evalN n) ((pre ++ [Token.kw Kw.Print] ++ (renderItems items ++ rest)).length + 1) false [] >>=
        fun p => emit (.print (if p.1 then p.2 else p.2 ++ ['\n']))) (mv σ 1 (σ.reads + 1)) := by
    unfold stmtBody
    rw [bind_ok (traceHere_off htr)]
    unfold dispatch
    rw [bind_ok (next_eq hAt0)]
    show printStatement (evalN n) _ = _
    unfold printStatement
    rw [bind_ok (lineBudget_eq hAt1.1)]
  rw [hrun]
  cases hp : printText (getVar σ) items false [] with
  | error x =>
    rw [hp] at hL
    obtain ⟨σ', hσ', hn'⟩ := hL
    have hr : RStmt.exec σ.vars (.printS items) = { vars := σ.vars, out := [], ctl := .error x } := by
      simp only [RStmt.exec, ← getVar_eq_envOf, hp]
    rw [hr]
    exact ⟨σ', bind_err hσ', hn'⟩
  | ok text =>
    rw [hp] at hL
    obtain ⟨r, hr, semi', text', hσ', htext⟩ := hL
    simp only [mv_reads, mv_mv] at hr hσ'
    have hr' : RStmt.exec σ.vars (.printS items) = { vars := σ.vars, out := [text], ctl := .next } := by
      simp only [RStmt.exec, ← getVar_eq_envOf, hp]
    rw [hr', bind_ok hσ']
    refine ⟨r, by omega, ?_⟩
    simp only [emit, M.modify, htext, outRecs, List.map_cons, List.map_nil, List.reverse_cons,
      List.reverse_nil, List.nil_append, List.cons_append, mv, hAt.2, renderS, List.length_cons]
    congr 3
    omega


/-! ### moving a refinement between states -/

omit [NumOps F] in
theorem refines_cast {res : Res F Unit} {σ : St F} {a a' e e' : Nat} {r : RResult F}
    (h : Refines res σ a e r) (ha : a = a') (he : e = e') : Refines res σ a' e' r := by
  subst ha; subst he; exact h

omit [NumOps F] in
/-- the cursor and the read counter of the start state do not matter -/
theorem refines_mv {res : Res F Unit} {σ : St F} {a k after eol : Nat} {r : RResult F}
    (h : Refines res (mv σ a k) after eol r) (hk : σ.reads ≤ k) : Refines res σ after eol r := by
  unfold Refines at h ⊢
  cases hc : r.ctl with
  | next =>
    rw [hc] at h
    obtain ⟨k', hk', hres⟩ := h
    exact ⟨k', by simp only [mv_reads] at hk'; omega, hres⟩
  | skipLine =>
    rw [hc] at h
    obtain ⟨k', hk', hres⟩ := h
    exact ⟨k', by simp only [mv_reads] at hk'; omega, hres⟩
  | jump n =>
    rw [hc] at h
    refine ⟨fun hh => ?_, fun hh => h.2 hh⟩
    obtain ⟨k', hk', hres⟩ := h.1 hh
    exact ⟨k', by simp only [mv_reads] at hk'; omega, hres⟩
  | stop =>
    rw [hc] at h
    obtain ⟨k', hk', hres⟩ := h
    exact ⟨k', by simp only [mv_reads] at hk'; omega, hres⟩
  | error x =>
    rw [hc] at h
    exact h

omit [NumOps F] in
/-- a run one nesting level deeper -/
theorem refines_nested {m : M F Unit} {σ : St F} {after eol : Nat} {r : RResult F}
    (hn : σ.nesting < Extracted.nestingLimit)
    (h : Refines (m (nest σ (σ.nesting + 1))) (nest σ (σ.nesting + 1)) after eol r) :
    Refines (nested m σ) σ after eol r := by
  unfold Refines at h ⊢
  cases hc : r.ctl with
  | next =>
    rw [hc] at h
    obtain ⟨k', hk', hres⟩ := h
    exact ⟨k', hk', by rw [nested_ok hn hres rfl]; rfl⟩
  | skipLine =>
    rw [hc] at h
    obtain ⟨k', hk', hres⟩ := h
    exact ⟨k', hk', by rw [nested_ok hn hres rfl]; rfl⟩
  | jump n =>
    rw [hc] at h
    refine ⟨fun hh => ?_, fun hh => ?_⟩
    · obtain ⟨k', hk', hres⟩ := h.1 hh
      exact ⟨k', hk', by rw [nested_ok hn hres rfl]; rfl⟩
    · obtain ⟨σ', hres, hn'⟩ := h.2 hh
      exact ⟨nest σ' σ.nesting, nested_err hn hres hn', rfl⟩
  | stop =>
    rw [hc] at h
    obtain ⟨k', hk', hres⟩ := h
    exact ⟨k', hk', by rw [nested_ok hn hres rfl]; rfl⟩
  | error x =>
    rw [hc] at h
    obtain ⟨σ', hres, hn'⟩ := h
    exact ⟨nest σ' σ.nesting, nested_err hn hres hn', rfl⟩

omit [NumOps F] in
/-- after a THEN branch that is not followed by ELSE: nothing more happens -/
theorem then_tail_line {res : Res F Unit} {σ : St F} {pre mid rest : List (Token F)} {r : RResult F}
    (hAt : At σ pre (mid ++ rest)) (hNE : NoElseLine σ) (hE : LineEnd rest)
    (hR : Refines res σ (pre.length + mid.length) (pre ++ (mid ++ rest)).length r) :
    Refines (andThen res tailElse) σ (pre.length + mid.length) (pre ++ (mid ++ rest)).length r := by
  have hrest : ∀ t, rest.head? = some t → t.isKw .Else = false := by
    intro t ht; rw [hE t ht]; rfl
  unfold Refines at hR ⊢
  cases hc : r.ctl with
  | next =>
    rw [hc] at hR
    obtain ⟨k, hk, hres⟩ := hR
    refine ⟨k + 1, by omega, ?_⟩
    rw [hres]
    show tailElse _ = _
    rw [tailElse_no (pre := pre ++ mid) (post := rest)
      ⟨by show lineToks σ = _; rw [List.append_assoc]; exact hAt.1,
       by show pre.length + mid.length = _; rw [List.length_append]⟩ hrest]
    rfl
  | skipLine =>
    rw [hc] at hR
    obtain ⟨k, hk, hres⟩ := hR
    refine ⟨k + 1, by omega, ?_⟩
    rw [hres]
    show tailElse _ = _
    rw [tailElse_no (pre := pre ++ (mid ++ rest)) (post := [])
      ⟨by show lineToks σ = _; rw [List.append_nil]; exact hAt.1, rfl⟩
      (fun t ht => by simp at ht)]
    rfl
  | jump n =>
    rw [hc] at hR
    refine ⟨fun hh => ?_, fun hh => ?_⟩
    · obtain ⟨k, hk, hres⟩ := hR.1 hh
      refine ⟨k + 1, by omega, ?_⟩
      rw [hres]
      show tailElse _ = _
      cases hg : σ.lines.get n with
      | none => simp [Lines.has, hg] at hh
      | some ts =>
        rw [tailElse_no (pre := []) (post := ts) ⟨by show σ.lines.get n = some ts; exact hg, rfl⟩ (hNE n ts hg)]
        rfl
    · obtain ⟨σ', hres, hn'⟩ := hR.2 hh
      exact ⟨σ', by rw [hres]; rfl, hn'⟩
  | stop =>
    rw [hc] at hR
    obtain ⟨k, hk, hres⟩ := hR
    refine ⟨k + 1, by omega, ?_⟩
    rw [hres]
    show tailElse _ = _
    rw [tailElse_no (pre := []) (post := []) ⟨rfl, rfl⟩ (fun t ht => by simp at ht)]
    rfl
  | error x =>
    rw [hc] at hR
    obtain ⟨σ', hres, hn'⟩ := hR
    exact ⟨σ', by rw [hres]; rfl, hn'⟩

omit [NumOps F] in
/-- after a THEN branch in front of ELSE: a branch that ran to completion abandons the line -/
theorem then_tail_else {res : Res F Unit} {σ : St F} {pre mid rest : List (Token F)} {r : RResult F}
    (hAt : At σ pre (mid ++ .kw .Else :: rest)) (hNE : NoElseLine σ)
    (hR : Refines res σ (pre.length + mid.length) (pre ++ (mid ++ .kw .Else :: rest)).length r) :
    Refines (andThen res tailElse) σ (pre.length + mid.length) (pre ++ (mid ++ .kw .Else :: rest)).length
      r.closeLine := by
  cases hc : r.ctl with
  | next =>
    rw [closeLine_next hc]
    unfold Refines at hR ⊢
    rw [hc] at hR
    obtain ⟨k, hk, hres⟩ := hR
    refine ⟨k + 1, by omega, ?_⟩
    rw [hres]
    show tailElse _ = _
    rw [tailElse_yes (pre := pre ++ mid) (post := rest)
      ⟨by show lineToks σ = _; rw [List.append_assoc]; exact hAt.1,
       by show pre.length + mid.length = _; rw [List.length_append]⟩, List.append_assoc]
  | skipLine =>
    rw [closeLine_other (by rw [hc]; exact fun h => by cases h)]
    unfold Refines at hR ⊢
    rw [hc] at hR ⊢
    obtain ⟨k, hk, hres⟩ := hR
    refine ⟨k + 1, by omega, ?_⟩
    rw [hres]
    show tailElse _ = _
    rw [tailElse_no (pre := pre ++ (mid ++ .kw .Else :: rest)) (post := [])
      ⟨by show lineToks σ = _; rw [List.append_nil]; exact hAt.1, rfl⟩
      (fun t ht => by simp at ht)]
    rfl
  | jump n =>
    rw [closeLine_other (by rw [hc]; exact fun h => by cases h)]
    unfold Refines at hR ⊢
    rw [hc] at hR ⊢
    refine ⟨fun hh => ?_, fun hh => ?_⟩
    · obtain ⟨k, hk, hres⟩ := hR.1 hh
      refine ⟨k + 1, by omega, ?_⟩
      rw [hres]
      show tailElse _ = _
      cases hg : σ.lines.get n with
      | none => simp [Lines.has, hg] at hh
      | some ts =>
        rw [tailElse_no (pre := []) (post := ts) ⟨by show σ.lines.get n = some ts; exact hg, rfl⟩ (hNE n ts hg)]
        rfl
    · obtain ⟨σ', hres, hn'⟩ := hR.2 hh
      exact ⟨σ', by rw [hres]; rfl, hn'⟩
  | stop =>
    rw [closeLine_other (by rw [hc]; exact fun h => by cases h)]
    unfold Refines at hR ⊢
    rw [hc] at hR ⊢
    obtain ⟨k, hk, hres⟩ := hR
    refine ⟨k + 1, by omega, ?_⟩
    rw [hres]
    show tailElse _ = _
    rw [tailElse_no (pre := []) (post := []) ⟨rfl, rfl⟩ (fun t ht => by simp at ht)]
    rfl
  | error x =>
    rw [closeLine_other (by rw [hc]; exact fun h => by cases h)]
    unfold Refines at hR ⊢
    rw [hc] at hR ⊢
    obtain ⟨σ', hres, hn'⟩ := hR
    exact ⟨σ', by rw [hres]; rfl, hn'⟩

omit [NumOps F] in
theorem refines_not_next {res : Res F Unit} {σ : St F} {a a' e : Nat} {r : RResult F}
    (h : Refines res σ a e r) (hc : r.ctl ≠ .next) : Refines res σ a' e r := by
  unfold Refines at h ⊢
  cases hc' : r.ctl with
  | next => exact absurd hc' hc
  | _ => rw [hc'] at h; exact h

theorem if_cond (c : Expr F) (n : Nat) (σ : St F) (pre post : List (Token F))
    (hAt : At σ pre (.kw .If :: (render c ++ .kw .Then :: post))) (hq : Quiet σ)
    (htr : σ.tracing = false) (hd : depth c + 1 ≤ n)
    (hn : σ.nesting + (depth c + 1) ≤ Extracted.nestingLimit) :
    match foldE (getVar σ) c with
    | .ok v => ∃ r, σ.reads < r ∧
        stmtBody (evalN n) σ = ifRest (evalN n) v.toBool (mv σ (1 + (render c).length + 1) r)
    | .error x => ∃ σ', stmtBody (evalN n) σ = .err { err := x } σ' ∧ σ'.nesting = σ.nesting := by
  have hAt1 := at_mv1 hAt (σ.reads + 1)
  have hrun : stmtBody (evalN n) σ = ifStatement (evalN n) (mv σ 1 (σ.reads + 1)) := by
    unfold stmtBody
    rw [bind_ok (traceHere_off htr)]
    unfold dispatch
    rw [bind_ok (next_eq hAt)]
  have hX := expr_eq c (main c).1 n (mv σ 1 (σ.reads + 1)) _ _ hd hn (ends_then 6 post) hAt1 (hq.mv _ _)
  rw [getVar_mv] at hX
  rw [hrun]
  cases hev : foldE (getVar σ) c with
  | error x =>
    rw [hev] at hX
    obtain ⟨σ', hσ', hn'⟩ := hX
    exact ⟨σ', by unfold ifStatement; exact bind_err hσ', hn'⟩
  | ok v =>
    rw [hev] at hX
    obtain ⟨r, hr, hσ'⟩ := hX
    simp only [mv_reads, mv_mv] at hr hσ'
    refine ⟨r + 1, by omega, ?_⟩
    unfold ifStatement
    rw [bind_ok hσ']
    have hAt2 : At (mv σ (1 + (render c).length) r) (pre ++ [.kw .If] ++ render c) (.kw .Then :: post) := by
      have := at_mv hAt1 r
      rwa [mv_mv] at this
    rw [bind_ok (expect_eq hAt2 rfl), mv_mv]
    simp only [mv_reads]
    cases v.toBool <;> rfl

/-! ### the branch of an IF: a nested statement -/

/-- running the statement `t` as the branch of an IF (`statementOrGoto`), given
    the refinement for `t` itself one level deeper -/
theorem branch_run (t : RStmt F) (n' : Nat) (σ : St F) (a r : Nat) (pre' rest : List (Token F))
    (vars : List (Str × Value F)) (after eol : Nat)
    (hAt : At (mv σ a r) pre' (renderS t ++ rest)) (hr : σ.reads ≤ r)
    (hn : σ.nesting < Extracted.nestingLimit)
    (hI : Refines (stmtBody (evalN n') (nest (mv (mv σ a r) 0 (r + 1)) (σ.nesting + 1)))
            (nest (mv (mv σ a r) 0 (r + 1)) (σ.nesting + 1)) after eol (RStmt.exec vars t)) :
    Refines (statementOrGoto (evalN (n' + 1)) (mv σ a r)) σ after eol (RStmt.exec vars t) := by
  obtain ⟨k, ts, hhead⟩ := renderS_head t
  have hAt' : At (mv σ a r) pre' (.kw k :: (ts ++ rest)) := by rw [hhead] at hAt; exact hAt
  rw [statementOrGoto_kw hAt']
  have h1 : Refines (nested (stmtBody (evalN n')) (mv (mv σ a r) 0 (r + 1))) (mv (mv σ a r) 0 (r + 1))
      after eol (RStmt.exec vars t) := refines_nested hn hI
  exact refines_mv (refines_mv h1 (by simp only [mv_reads]; omega)) hr

/-! ### the statement-level refinement -/

theorem stmt_run : ∀ (s : RStmt F) (n : Nat) (σ : St F) (pre rest : List (Token F)),
    At σ pre (renderS s ++ rest) → Quiet σ → σ.tracing = false → NoElseLine σ →
    sdepth s ≤ n → σ.nesting + sdepth s ≤ Extracted.nestingLimit → s.Covered → EndFor s rest →
    Refines (stmtBody (evalN n) σ) σ (pre.length + (renderS s).length)
      (pre ++ (renderS s ++ rest)).length (RStmt.exec σ.vars s)
  | .letS x e, n, σ, pre, rest, hAt, hq, htr, _, hd, hn, _, hE =>
    let_run x e n σ pre rest _ hAt hq htr hd hn (ends_of_stmtEnd hE.stmtEnd 6)
  | .printS items, n, σ, pre, rest, hAt, hq, htr, _, hd, hn, hcov, hE =>
    print_run items n σ pre rest _ hAt hq htr hd hn hcov hE.stmtEnd
  | .gotoS m, n, σ, pre, rest, hAt, _, htr, _, _, _, hcov, _ =>
    goto_run m n σ pre rest _ _ hAt htr hcov
  | .endS, n, σ, pre, rest, hAt, hq, htr, _, _, _, _, _ =>
    end_run n σ pre rest _ _ hAt htr
  | .ifS c t none, n, σ, pre, rest, hAt, hq, htr, hNE, hd, hn, hcov, hE => by
    have hLE : LineEnd rest := by
      rcases hE with h | h
      · exact h
      · exact absurd h.1 (by simp [RStmt.simple])
    obtain ⟨helse, hcovt⟩ : t.elseFree = true ∧ t.Covered := by simpa only [RStmt.Covered] using hcov
    simp only [sdepth] at hd hn
    obtain ⟨n', rfl⟩ : ∃ n', n = n' + 1 := ⟨n - 1, by omega⟩
    have hAt0 : At σ pre (.kw .If :: (render c ++ .kw .Then :: (renderS t ++ rest))) := by
      simpa only [renderS, List.cons_append, List.append_assoc] using hAt
    have hlen : (renderS (.ifS c t none)).length = 1 + (render c).length + 1 + (renderS t).length := by
      simp only [renderS, List.length_cons, List.length_append]; omega
    have hC := if_cond c (n' + 1) σ pre _ hAt0 hq htr (by omega) (by omega)
    cases hev : foldE (getVar σ) c with
    | error x =>
      rw [hev] at hC
      have hr : RStmt.exec σ.vars (.ifS c t none) = { vars := σ.vars, out := [], ctl := .error x } := by
        simp only [RStmt.exec, ← getVar_eq_envOf, hev]
      rw [hr]
      exact hC
    | ok v =>
      rw [hev] at hC
      obtain ⟨r, hr, hrun⟩ := hC
      have hAt3 := if_at c hAt0 r
      rw [hrun]
      cases hb : v.toBool with
      | true =>
        have hr' : RStmt.exec σ.vars (.ifS c t none) = RStmt.exec σ.vars t := by
          simp only [RStmt.exec, ← getVar_eq_envOf, hev, hb, ↓reduceIte]
        rw [hr']
        show Refines ((statementOrGoto (evalN (n' + 1)) >>= fun _ => tailElse) _) _ _ _ _
        rw [bind_andThen]
        have hI := stmt_run t n' (nest (mv (mv σ (1 + (render c).length + 1) r) 0 (r + 1)) (σ.nesting + 1))
          (pre ++ [.kw .If] ++ render c ++ [.kw .Then]) rest (at_nest (at_mv0 hAt3 _) _)
          ((hq.mv _ _).mv _ _ |>.nest _) htr hNE (by omega)
          (by simp only [nest_nesting]; omega) hcovt (Or.inl hLE)
        have hB := branch_run t n' σ _ r _ rest σ.vars _ _ hAt3 (by omega) (by omega) hI
        have hB' := refines_cast hB
          (a' := pre.length + (renderS (.ifS c t none)).length)
          (e' := (pre ++ (renderS (.ifS c t none) ++ rest)).length)
          (by rw [hlen]; simp only [List.length_append, List.length_cons, List.length_nil]; omega)
          (by simp only [List.length_append, List.length_cons, List.length_nil, hlen]; omega)
        exact then_tail_line hAt hNE hLE hB'
      | false =>
        have hr' : RStmt.exec σ.vars (.ifS c t none) = { vars := σ.vars, out := [], ctl := .skipLine } := by
          simp only [RStmt.exec, ← getVar_eq_envOf, hev, hb, Bool.false_eq_true, ↓reduceIte]
        rw [hr']
        show Refines ((lineBudget >>= fun b => ifSkipLoop (evalN (n' + 1)) b) _) _ _ _ _
        rw [bind_ok (lineBudget_eq hAt3.1)]
        obtain ⟨k, hk⟩ : ∃ k, (pre ++ [Token.kw Kw.If] ++ render c ++ [Token.kw Kw.Then] ++ (renderS t ++ rest)).length + 1
            = (k + 1 + 1) + (renderS t).length :=
          ⟨pre.length + (render c).length + rest.length + 1, by
            simp only [List.length_append, List.length_cons, List.length_nil]; omega⟩
        rw [hk, ifSkipLoop_skip _ (renderS t) (k + 1 + 1) _ _ rest hAt3 (renderS_tokens t helse), mv_mv]
        have hAt4 := at_mv hAt3 (r + (renderS t).length)
        rw [mv_mv] at hAt4
        simp only [mv_reads]
        unfold Refines
        show ∃ k', σ.reads < k' ∧ _
        cases rest with
        | nil =>
          refine ⟨r + (renderS t).length + 1, by omega, ?_⟩
          rw [ifSkipLoop_end hAt4]
          simp only [mv, outRecs, List.map_nil, List.reverse_nil, List.nil_append, hAt.2,
            List.append_nil, List.length_append, hlen]
          congr 3 <;> omega
        | cons t0 post =>
          have ht0 := hLE t0 rfl
          subst ht0
          refine ⟨r + (renderS t).length + 1 + 1, by omega, ?_⟩
          rw [ifSkipLoop_colon hAt4]
          simp only [mv, outRecs, List.map_nil, List.reverse_nil, List.nil_append, hAt.2,
            List.length_append, List.length_cons, List.length_nil, hlen]
          congr 3
          omega
  | .ifS c t (some e), n, σ, pre, rest, hAt, hq, htr, hNE, hd, hn, hcov, hE => by
    have hLE : LineEnd rest := by
      rcases hE with h | h
      · exact h
      · exact absurd h.1 (by simp [RStmt.simple])
    obtain ⟨hsimple, hcovt, hcove⟩ : t.simple = true ∧ t.Covered ∧ e.Covered := by
      simpa only [RStmt.Covered] using hcov
    simp only [sdepth] at hd hn
    obtain ⟨n', rfl⟩ : ∃ n', n = n' + 1 := ⟨n - 1, by omega⟩
    have hAt0 : At σ pre (.kw .If :: (render c ++ .kw .Then ::
        (renderS t ++ .kw .Else :: (renderS e ++ rest)))) := by
      simpa only [renderS, List.cons_append, List.append_assoc] using hAt
    have hlen : (renderS (.ifS c t (some e))).length =
        1 + (render c).length + 1 + (renderS t).length + 1 + (renderS e).length := by
      simp only [renderS, List.length_cons, List.length_append]; omega
    have hC := if_cond c (n' + 1) σ pre _ hAt0 hq htr (by omega) (by omega)
    cases hev : foldE (getVar σ) c with
    | error x =>
      rw [hev] at hC
      have hr : RStmt.exec σ.vars (.ifS c t (some e)) = { vars := σ.vars, out := [], ctl := .error x } := by
        simp only [RStmt.exec, ← getVar_eq_envOf, hev]
      rw [hr]
      exact hC
    | ok v =>
      rw [hev] at hC
      obtain ⟨r, hr, hrun⟩ := hC
      have hAt3 := if_at c hAt0 r
      rw [hrun]
      cases hb : v.toBool with
      | true =>
        have hr' : RStmt.exec σ.vars (.ifS c t (some e)) = (RStmt.exec σ.vars t).closeLine := by
          simp only [RStmt.exec, ← getVar_eq_envOf, hev, hb, ↓reduceIte]
        rw [hr']
        show Refines ((statementOrGoto (evalN (n' + 1)) >>= fun _ => tailElse) _) _ _ _ _
        rw [bind_andThen]
        have hI := stmt_run t n' (nest (mv (mv σ (1 + (render c).length + 1) r) 0 (r + 1)) (σ.nesting + 1))
          (pre ++ [.kw .If] ++ render c ++ [.kw .Then]) (.kw .Else :: (renderS e ++ rest))
          (at_nest (at_mv0 hAt3 _) _)
          ((hq.mv _ _).mv _ _ |>.nest _) htr hNE (by omega)
          (by simp only [nest_nesting]; omega) hcovt (Or.inr ⟨hsimple, stmtEnd_else _⟩)
        have hB := branch_run t n' σ _ r _ _ σ.vars _ _ hAt3 (by omega) (by omega) hI
        have hAtm : At σ pre ((.kw .If :: (render c ++ .kw .Then :: renderS t)) ++
            .kw .Else :: (renderS e ++ rest)) := by
          simpa only [List.cons_append, List.append_assoc] using hAt0
        have hB' := refines_cast hB
          (a' := pre.length + (Token.kw Kw.If :: (render c ++ Token.kw Kw.Then :: renderS t)).length)
          (e' := (pre ++ ((Token.kw Kw.If :: (render c ++ Token.kw Kw.Then :: renderS t)) ++
            Token.kw Kw.Else :: (renderS e ++ rest))).length)
          (by simp only [List.length_append, List.length_cons, List.length_nil]; omega)
          (by simp only [List.length_append, List.length_cons, List.length_nil]; omega)
        have hT := then_tail_else hAtm hNE hB'
        exact refines_cast (refines_not_next hT (closeLine_ctl _)) rfl
          (by simp only [List.length_append, List.length_cons, hlen]; omega)
      | false =>
        have hr' : RStmt.exec σ.vars (.ifS c t (some e)) = RStmt.exec σ.vars e := by
          simp only [RStmt.exec, ← getVar_eq_envOf, hev, hb, Bool.false_eq_true, ↓reduceIte]
        rw [hr']
        show Refines ((lineBudget >>= fun b => ifSkipLoop (evalN (n' + 1)) b) _) _ _ _ _
        rw [bind_ok (lineBudget_eq hAt3.1)]
        obtain ⟨k, hk⟩ : ∃ k, (pre ++ [Token.kw Kw.If] ++ render c ++ [Token.kw Kw.Then] ++
            (renderS t ++ Token.kw Kw.Else :: (renderS e ++ rest))).length + 1
            = (k + 1) + (renderS t).length :=
          ⟨pre.length + (render c).length + (renderS e).length + rest.length + 2 + 1, by
            simp only [List.length_append, List.length_cons, List.length_nil]; omega⟩
        rw [hk, ifSkipLoop_skip _ (renderS t) (k + 1) _ _ _ hAt3
          (renderS_tokens t (simple_elseFree t hsimple)), mv_mv]
        have hAt4 := at_mv hAt3 (r + (renderS t).length)
        rw [mv_mv] at hAt4
        simp only [mv_reads]
        rw [ifSkipLoop_else hAt4, mv_mv]
        simp only [mv_reads]
        have hAt5 := at_mv1 hAt4 (r + (renderS t).length + 1)
        rw [mv_mv] at hAt5
        have hI := stmt_run e n'
          (nest (mv (mv σ (1 + (render c).length + 1 + (renderS t).length + 1) (r + (renderS t).length + 1)) 0
            (r + (renderS t).length + 1 + 1)) (σ.nesting + 1))
          _ rest (at_nest (at_mv0 hAt5 _) _)
          ((hq.mv _ _).mv _ _ |>.nest _) htr hNE (by omega)
          (by simp only [nest_nesting]; omega) hcove (Or.inl hLE)
        have hB := branch_run e n' σ _ (r + (renderS t).length + 1) _ rest σ.vars _ _ hAt5 (by omega) (by omega) hI
        exact refines_cast hB
          (by rw [hlen]; simp only [List.length_append, List.length_cons, List.length_nil]; omega)
          (by simp only [List.length_append, List.length_cons, List.length_nil, hlen]; omega)

end Abasic.StmtG
