import Abasic.Proofs.ExprLemmas
/-
  C03 (control stack): the expression lemmas of Proofs/ExprLemmas.lean again,
  under a weaker side condition on the GOSUB / function stack.

  `ExprL.Quiet σ` demands `σ.stack = []`.  Inside a subroutine the stack holds
  GOSUB frames; they carry no bindings, so variable look-up still falls through
  to `vars`.  `ExprG.Quiet σ` asks only for that: no frame binds anything
  (`findInStack` finds nothing) and warnings are off.  The proofs below are those
  of ExprLemmas.lean from `Quiet` onwards, verbatim except for `A_var`.
-/
namespace Abasic.ExprG
open Abasic Abasic.Ref Abasic.ExprL M

variable {F : Type} [NumOps F]

theorem getVar_mv (σ : St F) (n r : Nat) : getVar (mv σ n r) = getVar σ := rfl
theorem getVar_nest (σ : St F) (k : Nat) : getVar (nest σ k) = getVar σ := rfl

/-- the part of the state that variable look-up consults besides `vars` -/
def Quiet (σ : St F) : Prop := (∀ sym, findInStack sym σ.stack = none) ∧ σ.warnings = false

omit [NumOps F] in
/-- the old condition implies the new one -/
theorem quiet_of_nil {σ : St F} (h : σ.stack = []) (hw : σ.warnings = false) : Quiet σ :=
  ⟨fun _ => by rw [h]; rfl, hw⟩

omit [NumOps F] in
theorem Quiet.mv {σ : St F} (h : Quiet σ) (n r : Nat) : Quiet (ExprL.mv σ n r) := h
omit [NumOps F] in
theorem Quiet.nest {σ : St F} (h : Quiet σ) (k : Nat) : Quiet (ExprL.nest σ k) := h

/-- number of operators of tier `k` on the left spine of `e` -/
def spine (k : Nat) : Expr F → Nat
  | .bin op l _ => if 6 - BinOp.prec op = k then spine k l + 1 else 0
  | _ => 0

/-- atoms, parsed by `parenExpr` -/
def AStmt (e : Expr F) : Prop :=
  ∀ (f : Nat) (σ : St F) (pre rest : List (Token F)),
    depth e ≤ f → σ.nesting + depth e ≤ Extracted.nestingLimit → e.prec = 8 →
    Ends 0 rest → At σ pre (render e ++ rest) → Quiet σ →
    Agrees (parenExpr (evalN f) σ) (foldE (getVar σ) e) σ
      (fun v r => .ok v (mv σ (render e).length r))

/-- any tier at or below the strength of `e` parses `render e` -/
def PStmt (e : Expr F) : Prop :=
  ∀ (f j : Nat) (σ : St F) (pre rest : List (Token F)),
    depth e ≤ f → σ.nesting + depth e ≤ Extracted.nestingLimit → lv e ≤ j → j ≤ 6 →
    Ends j rest → At σ pre (render e ++ rest) → Quiet σ →
    Agrees (tier (evalN f) j σ) (foldE (getVar σ) e) σ
      (fun v r => .ok v (mv σ (render e).length r))

/-- spine statement: the loop of tier `k+1`, started with `spine k e` iterations
    more than `n`, is after `render e` the loop with `n` iterations left -/
def SStmt (e : Expr F) : Prop :=
  ∀ (f k n : Nat) (g : Nat → Nat) (σ : St F) (pre rest : List (Token F)),
    depth e ≤ f → σ.nesting + depth e ≤ Extracted.nestingLimit → lv e ≤ k + 1 → k < 6 →
    Ends k rest → At σ pre (render e ++ rest) → Quiet σ →
    g ((pre ++ (render e ++ rest)).length + 1) = n + spine k e →
    Agrees ((tier (evalN f) k >>= fun v => lineBudget >>= fun b =>
              levelLoop (tier (evalN f) k) (opsAt k) (g b) v) σ)
      (foldE (getVar σ) e) σ
      (fun v r => levelLoop (tier (evalN f) k) (opsAt k) n v (mv σ (render e).length r))

/-- the recursive entry `ev.expr`, one nesting level and one unit of fuel deeper -/
theorem expr_eq (x : Expr F) (hx : PStmt x) (f : Nat) (σ : St F) (pre rest : List (Token F))
    (hd : depth x + 1 ≤ f) (hn : σ.nesting + (depth x + 1) ≤ Extracted.nestingLimit)
    (hE : Ends 6 rest) (hAt : At σ pre (render x ++ rest)) (hq : Quiet σ) :
    Agrees ((evalN f).expr σ) (foldE (getVar σ) x) σ
      (fun v r => .ok v (mv σ (render x).length r)) := by
  obtain ⟨f', rfl⟩ : ∃ f', f = f' + 1 := ⟨f - 1, by omega⟩
  have hP : Agrees (tier (evalN f') 6 (nest σ (σ.nesting + 1))) (foldE (getVar σ) x)
      (nest σ (σ.nesting + 1)) (fun v r => .ok v (mv (nest σ (σ.nesting + 1)) (render x).length r)) :=
    hx f' 6 (nest σ (σ.nesting + 1)) pre rest (by omega) (by simp only [nest_nesting]; omega)
      (by have := prec_bounds x; unfold lv; omega) (Nat.le_refl _) hE (at_nest hAt _) (hq.nest _)
  show Agrees (nested (tier (evalN f') 6) σ) _ _ _
  cases hev : foldE (getVar σ) x with
  | error e =>
    rw [hev] at hP
    obtain ⟨σ', hσ', hn'⟩ := hP
    exact ⟨nest σ' σ.nesting, nested_err (by omega) hσ' hn', rfl⟩
  | ok v =>
    rw [hev] at hP
    obtain ⟨r, hr, hσ'⟩ := hP
    exact ⟨r, hr, nested_ok (by omega) hσ' rfl⟩


/-! ### atoms -/

omit [NumOps F] in
theorem render_num (x : F) : render (.num x : Expr F) = [.num x] := render.eq_1 x
omit [NumOps F] in
theorem render_str (s : Str) : render (.str s : Expr F) = [.str s] := render.eq_2 s
omit [NumOps F] in
theorem render_var (n : Str) : render (.var n : Expr F) = [.symbol n] := render.eq_3 n

theorem A_num (x : F) : AStmt (.num x : Expr F) := by
  intro f σ pre rest _ _ _ _ hAt _
  rw [render_num] at hAt ⊢
  have hAt : At σ pre (.num x :: rest) := hAt
  refine ⟨σ.reads + 1 + 1, by omega, ?_⟩
  unfold parenExpr
  rw [bind_ok (accept_false hAt rfl)]
  simp only [Bool.false_eq_true, ↓reduceIte]
  unfold term
  rw [bind_ok (nextUnwrapped_eq (at_mv0 hAt _)), mv_mv]
  rfl

theorem A_str (s : Str) : AStmt (.str s : Expr F) := by
  intro f σ pre rest _ _ _ _ hAt _
  rw [render_str] at hAt ⊢
  have hAt : At σ pre (.str s :: rest) := hAt
  refine ⟨σ.reads + 1 + 1, by omega, ?_⟩
  unfold parenExpr
  rw [bind_ok (accept_false hAt rfl)]
  simp only [Bool.false_eq_true, ↓reduceIte]
  unfold term
  rw [bind_ok (nextUnwrapped_eq (at_mv0 hAt _)), mv_mv]
  rfl

theorem A_var (n : Str) : AStmt (.var n : Expr F) := by
  intro f σ pre rest _ _ _ hE hAt hq
  rw [render_var] at hAt ⊢
  have hAt : At σ pre (.symbol n :: rest) := hAt
  refine ⟨σ.reads + 1 + 1 + 1, by omega, ?_⟩
  unfold parenExpr
  rw [bind_ok (accept_false hAt rfl)]
  simp only [Bool.false_eq_true, ↓reduceIte]
  unfold term
  rw [bind_ok (nextUnwrapped_eq (at_mv0 hAt _)), mv_mv]
  simp only [mv_reads, Nat.zero_add]
  have hAt2 := at_mv1 hAt (σ.reads + 1 + 1)
  rw [bind_ok (peekIsKw_false .LeftParen hAt2 (fun t ht => (hE t ht).1)), mv_mv]
  simp only [Bool.false_eq_true, ↓reduceIte, bind, M.bindM, M.get, mv_stack, mv_warnings, hq.1, hq.2,
    Bool.false_and, pure, M.pureM, mv_reads]
  rfl


theorem A_paren (x : Expr F) (hx : PStmt x) : AStmt (.paren x) := by
  intro f σ pre rest hd hn _ _ hAt hq
  rw [render_paren] at hAt ⊢
  have hAt : At σ pre (.kw .LeftParen :: (render x ++ (.kw .RightParen :: rest))) := by
    simpa only [List.cons_append, List.append_assoc, List.nil_append] using hAt
  have hd' : depth x + 1 ≤ f := hd
  have hn' : σ.nesting + (depth x + 1) ≤ Extracted.nestingLimit := hn
  have hAt1 := at_mv1 hAt (σ.reads + 1)
  have hX := expr_eq x hx f (mv σ 1 (σ.reads + 1)) _ _ hd' hn' (ends_rparen 6 rest) hAt1 (hq.mv _ _)
  rw [getVar_mv] at hX
  unfold parenExpr
  rw [bind_ok (accept_true hAt rfl)]
  simp only [↓reduceIte]
  show Agrees _ (foldE (getVar σ) x) _ _
  cases hev : foldE (getVar σ) x with
  | error e =>
    rw [hev] at hX
    obtain ⟨σ', hσ', hn''⟩ := hX
    exact ⟨σ', bind_err hσ', hn''⟩
  | ok v =>
    rw [hev] at hX
    obtain ⟨r, hr, hσ'⟩ := hX
    simp only [mv_reads, mv_mv] at hr hσ'
    refine ⟨r + 1, by omega, ?_⟩
    rw [bind_ok hσ']
    have hAt2 : At (mv σ (1 + (render x).length) r) ((pre ++ [.kw .LeftParen]) ++ render x)
        (.kw .RightParen :: rest) := by
      have := at_mv hAt1 r
      rwa [mv_mv] at this
    rw [bind_ok (expect_eq hAt2 rfl), mv_mv]
    simp only [mv_reads, pure_eq]
    congr 1
    apply mv_congr
    simp only [List.length_cons, List.length_append, List.length_nil]
    omega

omit [NumOps F] in
/-- an atom does not begin with a unary operator -/
theorem atom_head (e : Expr F) (h : e.prec = 8) :
    ∃ t ts, render e = t :: ts ∧ UnOp.ofToken t = none := by
  cases e with
  | num x => exact ⟨_, _, render_num x, rfl⟩
  | str s => exact ⟨_, _, render_str s, rfl⟩
  | var n => exact ⟨_, _, render_var n, rfl⟩
  | paren x => exact ⟨_, _, render_paren x, rfl⟩
  | abs x => exact ⟨_, _, render_abs x, rfl⟩
  | int x => exact ⟨_, _, render_int x, rfl⟩
  | un op x => simp [Expr.prec] at h
  | bin op l r => have := prec_op_bounds op; simp only [Expr.prec] at h; omega

/-- an atom at any tier -/
theorem P_atom (e : Expr F) (ha : AStmt e) (he : e.prec = 8) : PStmt e := by
  intro f j σ pre rest hd hn _ _ hE hAt hq
  obtain ⟨t, ts, hts, hun⟩ := atom_head e he
  have hAt0 : At σ pre (t :: (ts ++ rest)) := by rw [hts] at hAt; exact hAt
  have hA := ha f (mv σ 0 (σ.reads + 1)) pre rest hd hn he (hE.mono (Nat.zero_le _)) (at_mv0 hAt _) (hq.mv _ _)
  rw [getVar_mv] at hA
  have h0 : Agrees (tier (evalN f) 0 σ) (foldE (getVar σ) e) σ
      (fun v r => .ok v (mv σ (render e).length r)) := by
    show Agrees (unaryExpr (evalN f) σ) _ _ _
    unfold unaryExpr
    rw [bind_ok (tryNext_none hAt0 (fun t' ht' => by
      simp only [List.head?_cons, Option.some.injEq] at ht'; subst ht'; exact hun))]
    cases hev : foldE (getVar σ) e with
    | error x =>
      rw [hev] at hA
      obtain ⟨σ', hσ', hn'⟩ := hA
      exact ⟨σ', bind_err hσ', hn'⟩
    | ok v =>
      rw [hev] at hA
      obtain ⟨r, hr, hσ'⟩ := hA
      simp only [mv_reads, mv_mv, Nat.zero_add] at hr hσ'
      exact ⟨r, by omega, by rw [bind_ok hσ']; rfl⟩
  exact lift_level _ _ _ _ (pre ++ render e) rest 0 j (Nat.zero_le _) hE (fun r => at_mv hAt r) h0

omit [NumOps F] in
theorem spine_zero {k : Nat} {e : Expr F} (h : lv e ≤ k) : spine k e = 0 := by
  cases e with
  | bin op l r =>
    have := prec_op_bounds op
    simp only [lv, Expr.prec] at h
    simp only [spine]
    rw [if_neg]; omega
  | _ => rfl

/-- the spine statement from the tier statement when `e` has no operator of tier `k+1` on top -/
theorem S_of_P (e : Expr F) (hP : PStmt e) (f k n : Nat) (g : Nat → Nat) (σ : St F)
    (pre rest : List (Token F))
    (hd : depth e ≤ f) (hn : σ.nesting + depth e ≤ Extracted.nestingLimit) (hlv : lv e ≤ k) (hk : k < 6)
    (hE : Ends k rest) (hAt : At σ pre (render e ++ rest)) (hq : Quiet σ)
    (hg : g ((pre ++ (render e ++ rest)).length + 1) = n + spine k e) :
    Agrees ((tier (evalN f) k >>= fun v => lineBudget >>= fun b =>
              levelLoop (tier (evalN f) k) (opsAt k) (g b) v) σ)
      (foldE (getVar σ) e) σ
      (fun v r => levelLoop (tier (evalN f) k) (opsAt k) n v (mv σ (render e).length r)) := by
  have h := hP f k σ pre rest hd hn hlv (Nat.le_of_lt hk) hE hAt hq
  rw [spine_zero hlv, Nat.add_zero] at hg
  cases hev : foldE (getVar σ) e with
  | error x =>
    rw [hev] at h
    obtain ⟨σ', hσ', hn'⟩ := h
    exact ⟨σ', bind_err hσ', hn'⟩
  | ok v =>
    rw [hev] at h
    obtain ⟨r, hr, hσ'⟩ := h
    refine ⟨r, hr, ?_⟩
    rw [bind_ok hσ', bind_ok (lineBudget_eq (σ := mv σ (render e).length r) hAt.1), hg]
    rfl


/-! ### binary operators -/

theorem P_paren (x : Expr F) (hx : PStmt x) : PStmt (.paren x) := P_atom _ (A_paren x hx) rfl

theorem P_fixP (p : Nat) (x : Expr F) (hx : PStmt x) : PStmt (fixP p x) := by
  unfold fixP; split
  · exact P_paren x hx
  · exact hx

theorem S_paren (x : Expr F) (hx : PStmt x) : SStmt (.paren x) := by
  intro f k n g σ pre rest hd hn _ hk hE hAt hq hg
  exact S_of_P _ (P_paren x hx) f k n g σ pre rest hd hn (Nat.zero_le _) hk hE hAt hq hg

theorem S_fixP (p : Nat) (x : Expr F) (hP : PStmt x) (hS : SStmt x) : SStmt (fixP p x) := by
  unfold fixP; split
  · exact S_paren x hP
  · exact hS

omit [NumOps F] in
theorem lv_fixP_left (op : BinOp) (l : Expr F) : lv (fixP (BinOp.prec op) l) ≤ 6 - BinOp.prec op + 1 := by
  have := prec_op_bounds op
  have := prec_fixP (BinOp.prec op) l (by omega)
  unfold lv; omega

omit [NumOps F] in
theorem lv_fixP_right (op : BinOp) (r : Expr F) : lv (fixP (BinOp.prec op + 1) r) ≤ 6 - BinOp.prec op := by
  have := prec_op_bounds op
  have := prec_fixP (BinOp.prec op + 1) r (by omega)
  unfold lv; omega

omit [NumOps F] in
theorem spine_fixP (op : BinOp) (l : Expr F) :
    spine (6 - BinOp.prec op) (fixP (BinOp.prec op) l) = spine (6 - BinOp.prec op) l := by
  unfold fixP; split
  · rename_i h
    have := prec_op_bounds op
    cases l with
    | bin op' a b =>
      have := prec_op_bounds op'
      simp only [Expr.prec] at h
      simp only [spine]
      rw [if_neg]; omega
    | _ => rfl
  · rfl

omit [NumOps F] in
theorem render_length_fixP (p : Nat) (e : Expr F) : (render e).length ≤ (render (fixP p e)).length := by
  unfold fixP; split
  · rw [render_paren]; simp only [List.length_cons, List.length_append]; omega
  · exact Nat.le_refl _

omit [NumOps F] in
theorem spine_le (k : Nat) (e : Expr F) : spine k e ≤ (render e).length := by
  induction e with
  | bin op l r ihl _ =>
    simp only [spine]
    split
    · rw [render_bin]
      have := render_length_fixP (BinOp.prec op) l
      simp only [List.length_append, List.length_cons]; omega
    · omega
  | _ => simp only [spine]; omega

/-- the spine case: `bin op l r` read by the loop of the tier of `op` -/
theorem S_bin_same (op : BinOp) (l r : Expr F) (hPl : PStmt l) (hSl : SStmt l) (hPr : PStmt r)
    (f n : Nat) (g : Nat → Nat) (σ : St F) (pre rest : List (Token F))
    (hd : depth (.bin op l r) ≤ f) (hn : σ.nesting + depth (.bin op l r) ≤ Extracted.nestingLimit)
    (hE : Ends (6 - BinOp.prec op) rest) (hAt : At σ pre (render (.bin op l r) ++ rest)) (hq : Quiet σ)
    (hg : g ((pre ++ (render (.bin op l r) ++ rest)).length + 1) = n + spine (6 - BinOp.prec op) (.bin op l r)) :
    Agrees ((tier (evalN f) (6 - BinOp.prec op) >>= fun v => lineBudget >>= fun b =>
              levelLoop (tier (evalN f) (6 - BinOp.prec op)) (opsAt (6 - BinOp.prec op)) (g b) v) σ)
      (foldE (getVar σ) (.bin op l r)) σ
      (fun v r' => levelLoop (tier (evalN f) (6 - BinOp.prec op)) (opsAt (6 - BinOp.prec op)) n v
        (mv σ (render (.bin op l r)).length r')) := by
  have hb := prec_op_bounds op
  generalize hk : 6 - BinOp.prec op = k at *
  have hk6 : k < 6 := by omega
  rw [depth_bin] at hd hn
  have hdl : depth (fixP (BinOp.prec op) l) ≤ f := Nat.le_trans (Nat.le_max_left _ _) hd
  have hdr : depth (fixP (BinOp.prec op + 1) r) ≤ f := Nat.le_trans (Nat.le_max_right _ _) hd
  have hnl : σ.nesting + depth (fixP (BinOp.prec op) l) ≤ Extracted.nestingLimit :=
    Nat.le_trans (Nat.add_le_add_left (Nat.le_max_left _ _) _) hn
  have hnr : σ.nesting + depth (fixP (BinOp.prec op + 1) r) ≤ Extracted.nestingLimit :=
    Nat.le_trans (Nat.add_le_add_left (Nat.le_max_right _ _) _) hn
  rw [render_bin] at hAt hg ⊢
  generalize hL : fixP (BinOp.prec op) l = L at *
  generalize hR : fixP (BinOp.prec op + 1) r = R at *
  have hAtL : At σ pre (render L ++ (.kw (BinOp.token op) :: (render R ++ rest))) := by
    simpa only [List.append_assoc, List.cons_append] using hAt
  have hEL : Ends k (.kw (BinOp.token op) :: (render R ++ rest)) := hk ▸ ends_op op _
  have hlvL : lv L ≤ k + 1 := by rw [← hL, ← hk]; exact lv_fixP_left op l
  have hlvR : lv R ≤ k := by rw [← hR, ← hk]; exact lv_fixP_right op r
  have hspL : spine k L = spine k l := by rw [← hL, ← hk]; exact spine_fixP op l
  have hsp : spine k (.bin op l r) = spine k l + 1 := by simp only [spine, hk, if_true]
  have hSL : SStmt L := hL ▸ S_fixP _ l hPl hSl
  have hPR : PStmt R := hR ▸ P_fixP _ r hPr
  have hfL : foldE (getVar σ) L = foldE (getVar σ) l := by rw [← hL]; exact foldE_fixP _ _ _
  have hfR : foldE (getVar σ) R = foldE (getVar σ) r := by rw [← hR]; exact foldE_fixP _ _ _
  -- the left operand, with one more iteration in hand
  have hLres := hSL f k (n + 1) g σ pre _ hdl hnl hlvL hk6 hEL hAtL hq
    (by rw [hspL]
        have : pre ++ (render L ++ Token.kw (BinOp.token op) :: (render R ++ rest))
            = pre ++ (render L ++ Token.kw (BinOp.token op) :: render R ++ rest) := by
          simp only [List.append_assoc, List.cons_append]
        rw [this, hg, hsp]; omega)
  rw [hfL] at hLres
  cases hel : foldE (getVar σ) l with
  | error x =>
    rw [hel] at hLres
    obtain ⟨σ', hσ', hn'⟩ := hLres
    simp only [foldE, hel]
    exact ⟨σ', hσ', hn'⟩
  | ok a =>
    rw [hel] at hLres
    obtain ⟨r1, hr1, hσ1⟩ := hLres
    simp only at hσ1
    -- one iteration of the loop
    have hAt1 : At (mv σ (render L).length r1) (pre ++ render L)
        (.kw (BinOp.token op) :: (render R ++ rest)) := at_mv hAtL r1
    have hop : opsAt (F := F) k (.kw (BinOp.token op)) = some op := by
      rw [opsAt_token, if_pos hk.symm]
    have hAt2 := at_mv1 hAt1 (r1 + 1)
    rw [mv_mv] at hAt2
    have hRres := hPR f k (mv σ ((render L).length + 1) (r1 + 1)) _ rest hdr hnr hlvR
      (Nat.le_of_lt hk6) hE hAt2 (hq.mv _ _)
    rw [getVar_mv, hfR] at hRres
    have hstep : ∀ (res : Res F (Value F)),
        (do let r' ← tier (evalN f) k
            let v' ← liftE (op.eval a r')
            levelLoop (tier (evalN f) k) (opsAt k) n v') (mv σ ((render L).length + 1) (r1 + 1)) = res →
        levelLoop (tier (evalN f) k) (opsAt k) (n + 1) a (mv σ (render L).length r1) = res := by
      intro res hres
      rw [← hres]
      conv => lhs; unfold levelLoop
      rw [bind_ok (tryNext_some hAt1 hop), mv_mv]
      rfl
    cases her : foldE (getVar σ) r with
    | error x =>
      rw [her] at hRres
      obtain ⟨σ', hσ', hn'⟩ := hRres
      simp only [foldE, hel, her]
      exact ⟨σ', by rw [hσ1]; exact hstep _ (bind_err hσ'), hn'⟩
    | ok b =>
      rw [her] at hRres
      obtain ⟨r2, hr2, hσ2⟩ := hRres
      simp only [mv_reads, mv_mv] at hr2 hσ2
      simp only [foldE, hel, her]
      cases hev : op.eval a b with
      | error x =>
        refine ⟨mv σ ((render L).length + 1 + (render R).length) r2, ?_, rfl⟩
        rw [hσ1]
        apply hstep
        rw [bind_ok hσ2, hev]
        rfl
      | ok c =>
        refine ⟨r2, by omega, ?_⟩
        rw [hσ1]
        apply hstep
        rw [bind_ok hσ2, hev]
        show levelLoop _ _ n c _ = levelLoop _ _ n c _
        congr 1
        apply mv_congr
        simp only [List.length_append, List.length_cons]
        omega


/-- the tier statement of a binary node from its spine statement -/
theorem P_bin (op : BinOp) (l r : Expr F) (hPl : PStmt l) (hSl : SStmt l) (hPr : PStmt r) :
    PStmt (.bin op l r) := by
  intro f j σ pre rest hd hn hlv hj hE hAt hq
  have hb := prec_op_bounds op
  have hkj : 6 - BinOp.prec op + 1 ≤ j := by simp only [lv, Expr.prec] at hlv; omega
  -- budget bookkeeping
  have hsp := spine_le (6 - BinOp.prec op) (.bin op l r)
  have hlen : (render (.bin op l r)).length ≤ (pre ++ (render (.bin op l r) ++ rest)).length := by
    simp only [List.length_append]; omega
  obtain ⟨n, hn'⟩ : ∃ n, (pre ++ (render (.bin op l r) ++ rest)).length + 1
      = (n + 1) + spine (6 - BinOp.prec op) (.bin op l r) :=
    ⟨(pre ++ (render (.bin op l r) ++ rest)).length - spine (6 - BinOp.prec op) (.bin op l r), by omega⟩
  have h := S_bin_same op l r hPl hSl hPr f (n + 1) id σ pre rest hd hn (hE.mono (by omega)) hAt hq hn'
  have hAt' : ∀ r', At (mv σ (render (.bin op l r)).length r') (pre ++ render (.bin op l r)) rest :=
    fun r' => at_mv hAt r'
  have h1 : Agrees (tier (evalN f) (6 - BinOp.prec op + 1) σ) (foldE (getVar σ) (.bin op l r)) σ
      (fun v r' => .ok v (mv σ (render (.bin op l r)).length r')) := by
    show Agrees ((tier (evalN f) (6 - BinOp.prec op) >>= fun v => lineBudget >>= fun b =>
              levelLoop (tier (evalN f) (6 - BinOp.prec op)) (opsAt (6 - BinOp.prec op)) (id b) v) σ) _ _ _
    cases hev : foldE (getVar σ) (.bin op l r) with
    | error x => rw [hev] at h; exact h
    | ok v =>
      rw [hev] at h
      obtain ⟨r1, hr1, hσ1⟩ := h
      refine ⟨r1 + 1, by omega, ?_⟩
      rw [hσ1]
      simp only
      rw [levelLoop_stop (hAt' r1) (hE.mono hkj), mv_mv]
      rfl
  exact lift_level _ _ _ _ _ rest _ j hkj hE hAt' h1

theorem S_bin (op : BinOp) (l r : Expr F) (hPl : PStmt l) (hSl : SStmt l) (hPr : PStmt r) :
    SStmt (.bin op l r) := by
  intro f k n g σ pre rest hd hn hlv hk hE hAt hq hg
  by_cases hkk : 6 - BinOp.prec op = k
  · subst hkk
    exact S_bin_same op l r hPl hSl hPr f n g σ pre rest hd hn hE hAt hq hg
  · have hlv' : lv (.bin op l r) ≤ k := by
      simp only [lv, Expr.prec] at hlv ⊢; omega
    exact S_of_P _ (P_bin op l r hPl hSl hPr) f k n g σ pre rest hd hn hlv' hk hE hAt hq hg

theorem S_atom (e : Expr F) (hP : PStmt e) (he : lv e = 0) : SStmt e := by
  intro f k n g σ pre rest hd hn _ hk hE hAt hq hg
  exact S_of_P _ hP f k n g σ pre rest hd hn (by omega) hk hE hAt hq hg

/-! ### Stage A -/

/-- the trees of stage A: no unary operator, no ABS / INT -/
def StageA : Expr F → Prop
  | .num _ => True
  | .str _ => True
  | .var _ => True
  | .paren e => StageA e
  | .bin _ l r => StageA l ∧ StageA r
  | .un _ _ => False
  | .abs _ => False
  | .int _ => False

theorem main_A (e : Expr F) (h : StageA e) : PStmt e ∧ SStmt e := by
  induction e with
  | num x => exact ⟨P_atom _ (A_num x) rfl, S_atom _ (P_atom _ (A_num x) rfl) rfl⟩
  | str s => exact ⟨P_atom _ (A_str s) rfl, S_atom _ (P_atom _ (A_str s) rfl) rfl⟩
  | var n => exact ⟨P_atom _ (A_var n) rfl, S_atom _ (P_atom _ (A_var n) rfl) rfl⟩
  | paren x ih => exact ⟨P_paren x (ih h).1, S_paren x (ih h).1⟩
  | bin op l r ihl ihr =>
    have hl := ihl h.1
    have hr := ihr h.2
    exact ⟨P_bin op l r hl.1 hl.2 hr.1, S_bin op l r hl.1 hl.2 hr.1⟩
  | un op x _ => exact absurd h (by simp [StageA])
  | abs x _ => exact absurd h (by simp [StageA])
  | int x _ => exact absurd h (by simp [StageA])

/-! ### unary operators (stage B) -/

omit [NumOps F] in
theorem unop_ofToken (op : UnOp) : UnOp.ofToken (F := F) (.kw (UnOp.token op)) = some op := by
  cases op <;> rfl

omit [NumOps F] in
theorem prec_fixP8 (x : Expr F) : (fixP 8 x).prec = 8 := by
  have h1 := prec_fixP 8 x (Nat.le_refl _)
  have h2 := prec_bounds (fixP 8 x)
  omega

theorem A_fixP8 (x : Expr F) (hP : PStmt x) (hA : AStmt x) : AStmt (fixP 8 x) := by
  unfold fixP; split
  · exact A_paren x hP
  · exact hA

theorem P_un (op : UnOp) (x : Expr F) (hP : PStmt x) (hA : AStmt x) : PStmt (.un op x) := by
  intro f j σ pre rest hd hn _ _ hE hAt hq
  rw [depth_un] at hd hn
  have hAt0 : At σ pre (.kw (UnOp.token op) :: (render (fixP 8 x) ++ rest)) := by
    rw [render_un] at hAt; exact hAt
  have hAt1 := at_mv1 hAt0 (σ.reads + 1)
  have hX := A_fixP8 x hP hA f (mv σ 1 (σ.reads + 1)) _ rest hd hn (prec_fixP8 x)
    (hE.mono (Nat.zero_le _)) hAt1 (hq.mv _ _)
  rw [getVar_mv, foldE_fixP] at hX
  have h0 : Agrees (tier (evalN f) 0 σ) (foldE (getVar σ) (.un op x)) σ
      (fun v r => .ok v (mv σ (render (.un op x)).length r)) := by
    show Agrees (unaryExpr (evalN f) σ) _ _ _
    unfold unaryExpr
    rw [bind_ok (tryNext_some hAt0 (unop_ofToken op))]
    cases hev : foldE (getVar σ) x with
    | error e =>
      rw [hev] at hX
      obtain ⟨σ', hσ', hn'⟩ := hX
      simp only [foldE, hev]
      exact ⟨σ', bind_err hσ', hn'⟩
    | ok v =>
      rw [hev] at hX
      obtain ⟨r, hr, hσ'⟩ := hX
      simp only [mv_reads, mv_mv] at hr hσ'
      simp only [foldE, hev]
      rw [bind_ok hσ']
      cases hop : op.eval v with
      | error e => exact ⟨_, rfl, rfl⟩
      | ok w =>
        refine ⟨r, by omega, ?_⟩
        show Res.ok w _ = Res.ok w _
        congr 1
        apply mv_congr
        rw [render_un, List.length_cons]; omega
  exact lift_level _ _ _ _ (pre ++ render (.un op x)) rest 0 j (Nat.zero_le _) hE (fun r => at_mv hAt r) h0

omit [NumOps F] in
theorem lv_un (op : UnOp) (x : Expr F) : lv (.un op x) = 0 := rfl

theorem A_un (op : UnOp) (x : Expr F) : AStmt (.un op x) := by
  intro f σ pre rest _ _ he
  simp [Expr.prec] at he

theorem A_bin (op : BinOp) (l r : Expr F) : AStmt (.bin op l r) := by
  intro f σ pre rest _ _ he
  have := prec_op_bounds op
  simp only [Expr.prec] at he
  omega


/-! ### ABS / INT (stage C) -/

/-- `numberFunctionArg` on `( render x )` -/
theorem numberFunctionArg_eq (x : Expr F) (hx : PStmt x) (f : Nat) (σ : St F) (pre rest : List (Token F))
    (hd : depth x + 1 ≤ f) (hn : σ.nesting + (depth x + 1) ≤ Extracted.nestingLimit)
    (hAt : At σ pre (.kw .LeftParen :: (render x ++ (.kw .RightParen :: rest)))) (hq : Quiet σ) :
    match foldE (getVar σ) x with
    | .ok (.num y) => ∃ r, σ.reads < r ∧
        numberFunctionArg (evalN f) σ = .ok y (mv σ ((render x).length + 2) r)
    | .ok (.str _) => ∃ σ', numberFunctionArg (evalN f) σ = .err { err := .typeMismatch } σ' ∧
        σ'.nesting = σ.nesting
    | .error e => ∃ σ', numberFunctionArg (evalN f) σ = .err { err := e } σ' ∧ σ'.nesting = σ.nesting := by
  have hAt1 := at_mv1 hAt (σ.reads + 1)
  have hX := expr_eq x hx f (mv σ 1 (σ.reads + 1)) _ _ hd hn (ends_rparen 6 rest) hAt1 (hq.mv _ _)
  rw [getVar_mv] at hX
  unfold numberFunctionArg
  rw [bind_ok (expect_eq hAt rfl)]
  cases hev : foldE (getVar σ) x with
  | error e =>
    rw [hev] at hX
    obtain ⟨σ', hσ', hn''⟩ := hX
    exact ⟨σ', bind_err hσ', hn''⟩
  | ok v =>
    rw [hev] at hX
    obtain ⟨r, hr, hσ'⟩ := hX
    simp only [mv_reads, mv_mv] at hr hσ'
    cases v with
    | str s => exact ⟨mv σ (1 + (render x).length) r, by rw [bind_ok hσ']; rfl, rfl⟩
    | num y =>
      refine ⟨r + 1, by omega, ?_⟩
      rw [bind_ok hσ']
      have hAt2 : At (mv σ (1 + (render x).length) r) ((pre ++ [.kw .LeftParen]) ++ render x)
          (.kw .RightParen :: rest) := by
        have := at_mv hAt1 r
        rwa [mv_mv] at this
      simp only
      rw [bind_ok (expect_eq hAt2 rfl), mv_mv]
      simp only [mv_reads, pure_eq]
      congr 1
      apply mv_congr
      omega

theorem A_abs (x : Expr F) (hx : PStmt x) : AStmt (.abs x) := by
  intro f σ pre rest hd hn _ _ hAt hq
  rw [render_abs] at hAt ⊢
  have hAt : At σ pre (.symbol Extracted.builtinAbs.toList :: .kw .LeftParen ::
      (render x ++ (.kw .RightParen :: rest))) := by
    simpa only [List.cons_append, List.append_assoc, List.nil_append] using hAt
  have hd' : depth x + 1 ≤ f := hd
  have hn' : σ.nesting + (depth x + 1) ≤ Extracted.nestingLimit := hn
  have hAt1 := at_mv1 hAt (σ.reads + 1 + 1)
  have hAt2 := at_mv0 hAt1 (σ.reads + 1 + 1 + 1)
  rw [mv_mv, Nat.add_zero] at hAt2
  have hN := numberFunctionArg_eq x hx f (mv σ 1 (σ.reads + 1 + 1 + 1)) _ _ hd' hn' hAt2 (hq.mv _ _)
  rw [getVar_mv] at hN
  unfold parenExpr
  rw [bind_ok (accept_false hAt rfl)]
  simp only [Bool.false_eq_true, ↓reduceIte]
  unfold term
  rw [bind_ok (nextUnwrapped_eq (at_mv0 hAt _)), mv_mv]
  simp only [mv_reads, Nat.zero_add]
  rw [bind_ok (peekIsKw_cons .LeftParen hAt1), mv_mv]
  simp only [mv_reads, Nat.add_zero]
  have hk : (Token.kw (F := F) Kw.LeftParen).isKw Kw.LeftParen = true := rfl
  simp only [hk, ↓reduceIte]
  unfold functionCall
  simp only [beq_self_eq_true, ↓reduceIte]
  cases hev : foldE (getVar σ) x with
  | error e =>
    rw [hev] at hN
    obtain ⟨σ', hσ', hn''⟩ := hN
    simp only [foldE, hev]
    exact ⟨σ', bind_err (bind_err hσ'), hn''⟩
  | ok v =>
    rw [hev] at hN
    cases v with
    | str s =>
      obtain ⟨σ', hσ', hn''⟩ := hN
      simp only [foldE, hev]
      exact ⟨σ', bind_err (bind_err hσ'), hn''⟩
    | num y =>
      obtain ⟨r, hr, hσ'⟩ := hN
      simp only [mv_reads, mv_mv] at hr hσ'
      simp only [foldE, hev]
      refine ⟨r, by omega, ?_⟩
      have h1 : (numberFunctionArg (evalN f) >>= fun x => pure (some (Value.num (NumOps.abs x))))
          (mv σ 1 (σ.reads + 1 + 1 + 1)) = .ok (some (Value.num (NumOps.abs y))) (mv σ (1 + ((render x).length + 2)) r) := by
        rw [bind_ok hσ']; rfl
      rw [bind_ok h1]
      show Res.ok _ _ = Res.ok _ _
      congr 1
      apply mv_congr
      simp only [List.length_cons, List.length_append, List.length_nil]
      omega

theorem A_int (x : Expr F) (hx : PStmt x) : AStmt (.int x) := by
  intro f σ pre rest hd hn _ _ hAt hq
  rw [render_int] at hAt ⊢
  have hAt : At σ pre (.symbol Extracted.builtinInt.toList :: .kw .LeftParen ::
      (render x ++ (.kw .RightParen :: rest))) := by
    simpa only [List.cons_append, List.append_assoc, List.nil_append] using hAt
  have hd' : depth x + 1 ≤ f := hd
  have hn' : σ.nesting + (depth x + 1) ≤ Extracted.nestingLimit := hn
  have hAt1 := at_mv1 hAt (σ.reads + 1 + 1)
  have hAt2 := at_mv0 hAt1 (σ.reads + 1 + 1 + 1)
  rw [mv_mv, Nat.add_zero] at hAt2
  have hN := numberFunctionArg_eq x hx f (mv σ 1 (σ.reads + 1 + 1 + 1)) _ _ hd' hn' hAt2 (hq.mv _ _)
  rw [getVar_mv] at hN
  unfold parenExpr
  rw [bind_ok (accept_false hAt rfl)]
  simp only [Bool.false_eq_true, ↓reduceIte]
  unfold term
  rw [bind_ok (nextUnwrapped_eq (at_mv0 hAt _)), mv_mv]
  simp only [mv_reads, Nat.zero_add]
  rw [bind_ok (peekIsKw_cons .LeftParen hAt1), mv_mv]
  simp only [mv_reads, Nat.add_zero]
  have hk : (Token.kw (F := F) Kw.LeftParen).isKw Kw.LeftParen = true := rfl
  simp only [hk, ↓reduceIte]
  unfold functionCall
  have hne : (Extracted.builtinInt.toList == Extracted.builtinAbs.toList) = false := by decide
  simp only [hne, Bool.false_eq_true, beq_self_eq_true, ↓reduceIte]
  cases hev : foldE (getVar σ) x with
  | error e =>
    rw [hev] at hN
    obtain ⟨σ', hσ', hn''⟩ := hN
    simp only [foldE, hev]
    exact ⟨σ', bind_err (bind_err hσ'), hn''⟩
  | ok v =>
    rw [hev] at hN
    cases v with
    | str s =>
      obtain ⟨σ', hσ', hn''⟩ := hN
      simp only [foldE, hev]
      exact ⟨σ', bind_err (bind_err hσ'), hn''⟩
    | num y =>
      obtain ⟨r, hr, hσ'⟩ := hN
      simp only [mv_reads, mv_mv] at hr hσ'
      simp only [foldE, hev]
      refine ⟨r, by omega, ?_⟩
      have h1 : (numberFunctionArg (evalN f) >>= fun x => pure (some (Value.num (NumOps.floor x))))
          (mv σ 1 (σ.reads + 1 + 1 + 1)) = .ok (some (Value.num (NumOps.floor y))) (mv σ (1 + ((render x).length + 2)) r) := by
        rw [bind_ok hσ']; rfl
      rw [bind_ok h1]
      show Res.ok _ _ = Res.ok _ _
      congr 1
      apply mv_congr
      simp only [List.length_cons, List.length_append, List.length_nil]
      omega


/-! ### all trees -/

theorem main (e : Expr F) : PStmt e ∧ SStmt e ∧ AStmt e := by
  induction e with
  | num x => exact ⟨P_atom _ (A_num x) rfl, S_atom _ (P_atom _ (A_num x) rfl) rfl, A_num x⟩
  | str s => exact ⟨P_atom _ (A_str s) rfl, S_atom _ (P_atom _ (A_str s) rfl) rfl, A_str s⟩
  | var n => exact ⟨P_atom _ (A_var n) rfl, S_atom _ (P_atom _ (A_var n) rfl) rfl, A_var n⟩
  | paren x ih => exact ⟨P_paren x ih.1, S_paren x ih.1, A_paren x ih.1⟩
  | bin op l r ihl ihr =>
    exact ⟨P_bin op l r ihl.1 ihl.2.1 ihr.1, S_bin op l r ihl.1 ihl.2.1 ihr.1, A_bin op l r⟩
  | un op x ih =>
    have hP := P_un op x ih.1 ih.2.2
    exact ⟨hP, S_atom _ hP rfl, A_un op x⟩
  | abs x ih =>
    have hA := A_abs x ih.1
    exact ⟨P_atom _ hA rfl, S_atom _ (P_atom _ hA rfl) rfl, hA⟩
  | int x ih =>
    have hA := A_int x ih.1
    exact ⟨P_atom _ hA rfl, S_atom _ (P_atom _ hA rfl) rfl, hA⟩


end Abasic.ExprG
