import Abasic.Proofs.WFLift
/-
  `Good` lifted through Stmt.lean and the knot `evalN` (continues Proofs/WFLift.lean).
-/
set_option linter.unusedSectionVars false

namespace Abasic.WF
open Abasic M

variable {F : Type} [NumOps F] {ev : Evals F}

/-! ### Stmt.lean: the expression-level helpers -/

theorem good_optionalArrayIndex (hev : Good ER T ev.expr) : Good ER T (optionalArrayIndex ev) := by
  unfold optionalArrayIndex
  good_auto

macro_rules | `(tactic| good_prim) => `(tactic| good_er good_optionalArrayIndex (by assumption))

theorem good_assignValue (lv : LValue) (v : Value F) : Good ER T (assignValue lv v) := by
  unfold assignValue
  good_auto

macro_rules | `(tactic| good_prim) => `(tactic| good_er good_assignValue _ _)

theorem good_assignmentStatement (hev : Good ER T ev.expr) (name : Str) :
    Good ER T (assignmentStatement ev name) := by
  unfold assignmentStatement
  good_auto

macro_rules | `(tactic| good_prim) => `(tactic| good_er good_assignmentStatement (by assumption) _)

theorem good_letStatement (hev : Good ER T ev.expr) : Good ER T (letStatement ev) := by
  unfold letStatement
  good_auto

theorem good_parseLValue (hev : Good ER T ev.expr) : Good ER T (parseLValue ev) := by
  unfold parseLValue
  good_auto

macro_rules | `(tactic| good_prim) => `(tactic| good_er good_parseLValue (by assumption))

/-! ### statements -/

theorem good_gotoStatement : Good SR T (gotoStatement : M F Unit) := by
  unfold gotoStatement
  good_auto

theorem good_gosubStatement : Good SR T (gosubStatement : M F Unit) := by
  unfold gosubStatement
  good_auto

theorem good_statementOrGoto (hst : Good SR T ev.stmt) : Good SR T (statementOrGoto ev) := by
  unfold statementOrGoto
  have h1 := good_gotoStatement (F := F)
  have h2 := good_nested hst
  good_auto

theorem good_ifSkipLoop (hst : Good SR T ev.stmt) (n : Nat) : Good SR T (ifSkipLoop ev n) := by
  have h1 := good_statementOrGoto hst
  induction n with
  | zero => exact Good.fail rfl
  | succ n ih =>
    unfold ifSkipLoop
    good_auto

theorem good_ifStatement (hev : Good ER T ev.expr) (hst : Good SR T ev.stmt) : Good SR T (ifStatement ev) := by
  unfold ifStatement
  have h1 := good_statementOrGoto hst
  have h2 := good_ifSkipLoop hst
  good_auto
  exact h2 _

theorem good_readLoop (hev : Good ER T ev.expr) (n : Nat) : Good SR T (readLoop ev n) := by
  induction n with
  | zero => exact Good.fail rfl
  | succ n ih =>
    unfold readLoop
    refine Good.bind (Q := T) (good_parseLValue hev).sr fun lv _ => ?_
    refine Good.bind (Q := T) good_nextDataElement.sr fun e _ => ?_
    split
    · exact Good.fail rfl
    · refine Good.bind (Q := T) (Good.liftE (coerce_err_plain _ _)) fun v _ => ?_
      good_auto

theorem good_readStatement (hev : Good ER T ev.expr) : Good SR T (readStatement ev) := by
  unfold readStatement
  have h := good_readLoop hev
  good_auto
  exact h _

theorem good_takeInput :
    Good ER (fun r : Option (List (DataElement F) × Bool) => ∀ items l, r = some (items, l) → items ≠ [])
      (takeInput (F := F)) := by
  unfold takeInput
  refine Good.get_bind' fun s0 hs0 => ?_
  split
  · exact GoodAt.pure hs0 (Fr.refl _) (fun _ _ h => by cases h)
  · rename_i text _
    refine GoodAt.bind (Q := T) (GoodAt.set (hs0.same rfl rfl rfl rfl rfl rfl rfl rfl rfl rfl)
      (er_same rfl rfl rfl rfl rfl rfl)) fun _ s1 hw hr _ _ => ?_
    have hne := (DataRT.parseData_spec (F := F) text).1
    generalize parseData (F := F) text = p at hne
    obtain ⟨items, n⟩ := p
    refine GoodAt.pure hw hr ?_
    intro items' l h
    simp only [Option.some.injEq, Prod.mk.injEq] at h
    rw [← h.1]
    exact hne

theorem rewindAndAwaitInput_post {s0 s : St F} (hs : WFσ s) (hr : SR s0 s) (hb : TokBefore s (.kw .Input)) :
    GoodAt SR T (rewindAndAwaitInput : M F Unit) s0 s := by
  unfold rewindAndAwaitInput
  refine GoodAt.bind (rewindBeforeInput_post hs hr hb) fun _ s1 hw1 hr1 _ _ => ?_
  exact GoodAt.modify (hw1.same rfl rfl rfl rfl rfl rfl rfl rfl rfl rfl) ⟨hr1.nesting, hr1.lines⟩

/-- run an `ER` step inside an `SR` proof, keeping the `ER` fact for the continuation -/
theorem GoodAt.bind_er {α β : Type} {Q : α → Prop} {Q' : β → Prop} {m : M F α} {f : α → M F β}
    {s0 s : St F} (hm : Good ER Q m) (hs : WFσ s) (h0 : SR s0 s)
    (hf : ∀ a s1, WFσ s1 → ER s s1 → Q a → GoodAt SR Q' (f a) s0 s1) :
    GoodAt SR Q' (m >>= f) s0 s := by
  have h1 := hm s hs
  show Post SR Q' s0 (M.bindM m f s)
  unfold M.bindM
  cases hms : m s with
  | ok a s1 =>
    rw [hms] at h1
    exact hf a s1 h1.1 h1.2.1 h1.2.2
  | err e s1 =>
    rw [hms] at h1
    exact ⟨h1.1, Fr.trans h0 (er_sr h1.2.1), h1.2.2⟩

/-- `evaluate_input_statement`, entered with the INPUT token just passed -/
theorem inputStatement_post (hev : Good ER T ev.expr) {s0 s : St F} (hs : WFσ s) (hr : SR s0 s)
    (hb : TokBefore s (.kw .Input)) : GoodAt SR T (inputStatement ev) s0 s := by
  unfold inputStatement
  refine GoodAt.bind_er good_takeInput hs hr fun r s1 hw1 hr1 hq => ?_
  have hb1 := tokBefore_er hr1 hb
  have h01 : SR s0 s1 := Fr.trans hr (er_sr hr1)
  split
  · rename_i items leftover
    refine GoodAt.bind_er (good_parseLValue hev) hw1 h01 fun lv s2 hw2 hr2 _ => ?_
    have hb2 := tokBefore_er hr2 hb1
    have h02 : SR s0 s2 := Fr.trans h01 (er_sr hr2)
    split
    · exact absurd rfl (hq _ _ rfl)
    · rename_i first rest
      dsimp only
      split
      · have : Good SR T (do assignValue lv ‹Value F›; if (!rest.isEmpty || leftover) = true then emit .extraIgnored : M F Unit) := by
          good_auto
        exact this.gat hw2 h02
      · refine GoodAt.bind_er (good_emit .reenter) hw2 h02 fun _ s3 hw3 hr3 _ => ?_
        exact rewindAndAwaitInput_post hw3 (Fr.trans h02 (er_sr hr3)) (tokBefore_er hr3 hb2)
      · rename_i e _ he
        exact GoodAt.fail hw2 h02 (coerce_err_plain _ _ _ he)
  · exact rewindAndAwaitInput_post hw1 h01 hb1

theorem good_dimStatement (hev : Good ER T ev.expr) : Good SR T (dimStatement ev) := by
  unfold dimStatement
  good_auto

theorem good_printLoop (hev : Good ER T ev.expr) (n : Nat) (semi : Bool) (acc : Str) :
    Good SR T (printLoop ev n semi acc) := by
  induction n generalizing semi acc with
  | zero => exact Good.fail rfl
  | succ n ih =>
    unfold printLoop
    good_auto
    all_goals exact ih _ _

theorem good_printStatement (hev : Good ER T ev.expr) : Good SR T (printStatement ev) := by
  unfold printStatement
  refine Good.bind (Q := T) good_lineBudget.sr fun b _ => ?_
  refine Good.bind (Q := T) (good_printLoop hev _ _ _) fun x _ => ?_
  good_auto

theorem good_forStatement (hev : Good ER T ev.expr) : Good SR T (forStatement ev) := by
  unfold forStatement
  good_auto

theorem good_nextStatement : Good SR T (nextStatement : M F Unit) := by
  unfold nextStatement
  good_auto

theorem good_defArgsLoop (n : Nat) (acc : List Str) : Good SR T (defArgsLoop n acc : M F (List Str)) := by
  induction n generalizing acc with
  | zero => exact Good.fail rfl
  | succ n ih =>
    unfold defArgsLoop
    good_auto
    all_goals exact ih _

theorem good_skipToColonLoop (n : Nat) : Good SR T (skipToColonLoop n : M F Unit) := by
  induction n with
  | zero => exact Good.fail rfl
  | succ n ih =>
    unfold skipToColonLoop
    good_auto

theorem good_defStatement : Good SR T (defStatement : M F Unit) := by
  unfold defStatement
  refine Good.bind (Q := T) good_next.sr fun t _ => ?_
  split
  · refine Good.bind (Q := T) (good_expect _).sr fun _ _ => ?_
    refine Good.bind (Q := T) good_lineBudget.sr fun b _ => ?_
    refine Good.bind (Q := T) (good_defArgsLoop b []) fun args _ => ?_
    refine Good.bind (Q := T) (good_expect _).sr fun _ _ => ?_
    refine Good.bind (Q := T) (good_defineFunction _ _) fun _ _ => ?_
    exact good_skipToColonLoop b
  · exact Good.fail rfl

theorem good_breakAtCurrentLocation : Good SR T (breakAtCurrentLocation : M F Unit) := by
  intro s hs
  refine GoodAt.modify (s0 := s) (wf_progBreak (hs.same rfl rfl rfl rfl rfl rfl rfl rfl rfl rfl)) ⟨rfl, rfl⟩

theorem good_traceHere : Good ER T (traceHere : M F Unit) := by
  unfold traceHere
  good_auto

theorem good_restore : Good SR T (M.modify fun s : St F => { s with data := none }) := fun s hs =>
  GoodAt.modify (s0 := s) { hs with data := by intro _ h; cases h } ⟨rfl, rfl⟩

/-- the `match self.program().next_token()` of `evaluate_statement` -/
theorem good_dispatch (hev : Good ER T ev.expr) (hst : Good SR T ev.stmt) : Good SR T (dispatch ev) := by
  intro s hs
  simp only [dispatch, Bind.bind, M.bindM, next_eq hs]
  cases htok : (curToks s)[s.loc.idx]? with
  | none => exact ⟨hs.reads _, ⟨rfl, rfl⟩, trivial⟩
  | some t =>
    have hw1 := hs.adv htok (s.reads + 1)
    have hr1 : SR s { s with reads := s.reads + 1, loc := { s.loc with idx := s.loc.idx + 1 } } := ⟨rfl, rfl⟩
    have hb : TokBefore { s with reads := s.reads + 1, loc := { s.loc with idx := s.loc.idx + 1 } } t :=
      ⟨s.loc.idx, Nat.lt_succ_self _, htok⟩
    have hAssign := fun name => (good_assignmentStatement hev name).sr
    have hDim := good_dimStatement hev
    have hPrint := good_printStatement hev
    have hIf := good_ifStatement hev hst
    have hGoto := good_gotoStatement (F := F)
    have hGosub := good_gosubStatement (F := F)
    have hRet := good_returnFromGosub (F := F)
    have hEnd := good_setImmediate (F := F) []
    have hFor := good_forStatement hev
    have hNext := good_nextStatement (F := F)
    have hRestore := good_restore (F := F)
    have hDef := good_defStatement (F := F)
    have hRead := good_readStatement hev
    have hLet := (good_letStatement hev).sr
    have hBrk := good_breakAtCurrentLocation (F := F)
    have hPure : Good SR T (pure () : M F Unit) := Good.pure trivial
    have hFail : Good SR T (M.fail (.syntax .unexpectedToken) : M F Unit) := Good.fail rfl
    cases t with
    | remark _ => exact hPure.gat hw1 hr1
    | data _ => exact hPure.gat hw1 hr1
    | symbol name => exact (hAssign name).gat hw1 hr1
    | str _ => exact hFail.gat hw1 hr1
    | num _ => exact hFail.gat hw1 hr1
    | kw k =>
      cases k
      case Input => exact inputStatement_post hev hw1 hr1 hb
      all_goals first
        | exact hPure.gat hw1 hr1
        | exact hFail.gat hw1 hr1
        | exact hDim.gat hw1 hr1
        | exact hPrint.gat hw1 hr1
        | exact hIf.gat hw1 hr1
        | exact hGoto.gat hw1 hr1
        | exact hGosub.gat hw1 hr1
        | exact hRet.gat hw1 hr1
        | exact hEnd.gat hw1 hr1
        | exact hFor.gat hw1 hr1
        | exact hNext.gat hw1 hr1
        | exact hRestore.gat hw1 hr1
        | exact hDef.gat hw1 hr1
        | exact hRead.gat hw1 hr1
        | exact hLet.gat hw1 hr1
        | exact hBrk.gat hw1 hr1

theorem good_stmtBody (hev : Good ER T ev.expr) (hst : Good SR T ev.stmt) : Good SR T (stmtBody ev) := by
  unfold stmtBody
  exact Good.bind (Q := T) good_traceHere.sr fun _ _ => good_dispatch hev hst

/-- The knot: at every fuel, expression evaluation is `Good ER` and statement evaluation `Good SR`. -/
theorem good_evalN (n : Nat) : Good ER T (evalN (F := F) n).expr ∧ Good SR T (evalN (F := F) n).stmt := by
  induction n with
  | zero => exact ⟨Good.fail rfl, Good.fail rfl⟩
  | succ n ih => exact ⟨good_exprBody ih.1, good_stmtBody ih.1 ih.2⟩

end Abasic.WF
