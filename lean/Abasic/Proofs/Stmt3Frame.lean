import Abasic.Proofs.ErrKeep
import Abasic.Proofs.ExprFrame
/-
  C03, third layer — the frame `KO`: with warnings off, an expression
  evaluation — calls of user functions included — leaves the output queue alone,
  on the success path and on the error path.
-/
set_option linter.unusedSectionVars false

namespace Abasic.Hoare
open Abasic M

variable {F : Type} [NumOps F]

/-- warnings off: they stay off and nothing is printed -/
def KO (σ σ' : St F) : Prop :=
  σ.warnings = false → σ'.warnings = false ∧ σ'.out = σ.out

theorem ko_same {σ σ' : St F} (h1 : σ'.warnings = σ.warnings) (h2 : σ'.out = σ.out) : KO σ σ' :=
  fun hw => ⟨h1.trans hw, h2⟩

instance : IsFrame (KO (F := F)) where
  refl _ := ko_same rfl rfl
  trans h1 h2 := fun hw =>
    have a := h1 hw
    have b := h2 a.1
    ⟨b.1, b.2.trans a.2⟩

namespace KOF
scoped macro_rules | `(tactic| respects_leaf) => `(tactic| exact ko_same rfl rfl)

theorem ko_vac_w {α : Type} {m : M F α} {σ : St F} (h : σ.warnings = true) : RespectsAt KO m σ :=
  ⟨fun _ _ _ hw => absurd hw (by simp [h]), fun _ _ _ hw => absurd hw (by simp [h])⟩

theorem ko_tokens : Respects KO (tokens (F := F)) := Proofs.XF.any_tokens
scoped macro_rules | `(tactic| respects_prim) => `(tactic| exact ko_tokens)

theorem ko_peek : Respects KO (peek (F := F)) := by
  unfold peek
  respects_tac
scoped macro_rules | `(tactic| respects_prim) => `(tactic| exact ko_peek)

theorem ko_advance : Respects KO (advance (F := F)) := by
  unfold advance
  respects_tac
scoped macro_rules | `(tactic| respects_prim) => `(tactic| exact ko_advance)

theorem ko_next : Respects KO (next (F := F)) := by
  unfold next
  respects_tac
scoped macro_rules | `(tactic| respects_prim) => `(tactic| exact ko_next)

theorem ko_nextUnwrapped : Respects KO (nextUnwrapped (F := F)) := by
  unfold nextUnwrapped
  respects_tac
scoped macro_rules | `(tactic| respects_prim) => `(tactic| exact ko_nextUnwrapped)

theorem ko_expect (k : Kw) : Respects KO (expect (F := F) k) := by
  unfold expect
  respects_tac
scoped macro_rules | `(tactic| respects_prim) => `(tactic| exact ko_expect _)

theorem ko_accept (k : Kw) : Respects KO (accept (F := F) k) := by
  unfold accept
  respects_tac
scoped macro_rules | `(tactic| respects_prim) => `(tactic| exact ko_accept _)

theorem ko_peekIsKw (k : Kw) : Respects KO (peekIsKw (F := F) k) := by
  unfold peekIsKw
  respects_tac
scoped macro_rules | `(tactic| respects_prim) => `(tactic| exact ko_peekIsKw _)

theorem ko_tryNext {α : Type} (f : Token F → Option α) : Respects KO (tryNext f) := by
  unfold tryNext
  respects_tac
scoped macro_rules | `(tactic| respects_prim) => `(tactic| exact ko_tryNext _)

theorem ko_enterNested : Respects KO (enterNested (F := F)) := by
  unfold enterNested
  respects_tac
scoped macro_rules | `(tactic| respects_prim) => `(tactic| exact ko_enterNested)

theorem ko_exitNested : Respects KO (exitNested (F := F)) := by
  unfold exitNested
  respects_tac
scoped macro_rules | `(tactic| respects_prim) => `(tactic| exact ko_exitNested)

theorem ko_nested {α : Type} {m : M F α} (h : Respects KO m) : Respects KO (nested m) := by
  unfold nested
  respects_tac
scoped macro_rules | `(tactic| respects_prim) => `(tactic| with_reducible apply ko_nested)

theorem ko_pushFunctionCall (name : Str) (b : List (Str × Value F)) : Respects KO (pushFunctionCall name b) := by
  unfold pushFunctionCall
  respects_tac
scoped macro_rules | `(tactic| respects_prim) => `(tactic| exact ko_pushFunctionCall _ _)

theorem ko_popFunctionCall : Respects KO (popFunctionCall (F := F)) := by
  unfold popFunctionCall
  respects_tac
scoped macro_rules | `(tactic| respects_prim) => `(tactic| exact ko_popFunctionCall)

theorem ko_ensureArray (name : Str) (k : Nat) : Respects KO (ensureArray (F := F) name k) := by
  unfold ensureArray
  respects_tac
scoped macro_rules | `(tactic| respects_prim) => `(tactic| exact ko_ensureArray _ _)

theorem ko_arrayGet (name : Str) (idx : List Nat) : Respects KO (arrayGet (F := F) name idx) := by
  unfold arrayGet
  respects_tac
scoped macro_rules | `(tactic| respects_prim) => `(tactic| exact ko_arrayGet _ _)

theorem ko_rnd (x : F) : Respects KO (rnd x) := by
  unfold rnd
  respects_tac
scoped macro_rules | `(tactic| respects_prim) => `(tactic| exact ko_rnd _)

theorem ko_lineBudget : Respects KO (lineBudget (F := F)) := by
  unfold lineBudget
  respects_tac
scoped macro_rules | `(tactic| respects_prim) => `(tactic| exact ko_lineBudget)

theorem ko_warn (msg : Str) : Respects KO (warn (F := F) msg) := by
  unfold warn
  apply respects_get_bind
  intro σ
  cases hw : σ.warnings with
  | true => exact ko_vac_w hw
  | false => exact (respects_pure ()).at σ
scoped macro_rules | `(tactic| respects_prim) => `(tactic| exact ko_warn _)

theorem ko_warnUndeclaredArray (name : Str) : Respects KO (warnUndeclaredArray (F := F) name) := by
  unfold warnUndeclaredArray
  respects_tac
scoped macro_rules | `(tactic| respects_prim) => `(tactic| exact ko_warnUndeclaredArray _)

section evaluator
variable (ev : Evals F) (he : Respects KO ev.expr)
include he

theorem ko_arrayIndexLoop (n : Nat) (acc : List Nat) : Respects KO (arrayIndexLoop ev n acc) := by
  induction n generalizing acc with
  | zero => unfold arrayIndexLoop; respects_tac
  | succ n ih => unfold arrayIndexLoop; respects_tac

theorem ko_arrayIndex : Respects KO (arrayIndex ev) := by
  unfold arrayIndex
  have := ko_arrayIndexLoop ev he
  respects_tac

theorem ko_numberFunctionArg : Respects KO (numberFunctionArg ev) := by
  unfold numberFunctionArg
  respects_tac

theorem ko_bindArgs (arity : Nat) (args : List Str) (i : Nat) (acc : List (Str × Value F)) :
    Respects KO (bindArgs ev arity args i acc) := by
  induction args generalizing i acc with
  | nil => unfold bindArgs; respects_tac
  | cons a rest ih => unfold bindArgs; respects_tac

theorem ko_userFunctionCall (name : Str) : Respects KO (userFunctionCall ev name) := by
  unfold userFunctionCall
  have := ko_bindArgs ev he
  respects_tac

theorem ko_functionCall (name : Str) : Respects KO (functionCall ev name) := by
  unfold functionCall
  have := ko_numberFunctionArg ev he
  have := ko_userFunctionCall ev he
  respects_tac

theorem ko_term : Respects KO (term ev) := by
  unfold term
  have := ko_functionCall ev he
  have := ko_arrayIndex ev he
  respects_tac

theorem ko_parenExpr : Respects KO (parenExpr ev) := by
  unfold parenExpr
  have := ko_term ev he
  respects_tac

theorem ko_unaryExpr : Respects KO (unaryExpr ev) := by
  unfold unaryExpr
  have := ko_parenExpr ev he
  respects_tac

omit he in
theorem ko_levelLoop {sub : M F (Value F)} (hs : Respects KO sub) (ops : Token F → Option BinOp)
    (n : Nat) (v : Value F) : Respects KO (levelLoop sub ops n v) := by
  induction n generalizing v with
  | zero => unfold levelLoop; respects_tac
  | succ n ih => unfold levelLoop; respects_tac

omit he in
theorem ko_level {sub : M F (Value F)} (hs : Respects KO sub) (ops : Token F → Option BinOp) :
    Respects KO (level sub ops) := by
  unfold level
  have := ko_levelLoop hs ops
  respects_tac

theorem ko_orExpr : Respects KO (orExpr ev) := by
  unfold orExpr
  exact ko_level (ko_level (ko_level (ko_level (ko_level (ko_level
    (ko_unaryExpr ev he) _) _) _) _) _) _

theorem ko_exprBody : Respects KO (exprBody ev) := by
  unfold exprBody
  exact ko_nested (ko_orExpr ev he)

end evaluator

/-- every fuel level of the expression evaluator respects `KO` -/
theorem ko_evalN_expr (n : Nat) : Respects KO (evalN (F := F) n).expr := by
  induction n with
  | zero => exact respects_fail _
  | succ n ih => exact ko_exprBody _ ih

theorem ko_evalN_arrayIndex (n : Nat) : Respects KO (arrayIndex (evalN (F := F) n)) :=
  ko_arrayIndex _ (ko_evalN_expr n)

end KOF

/-- an expression that fails with warnings off has printed nothing -/
theorem expr_err_out {n : Nat} {σ σ' : St F} {te : TErr} (hw : σ.warnings = false)
    (h : (evalN n).expr σ = .err te σ') : σ'.out = σ.out :=
  (((KOF.ko_evalN_expr n).at σ).2 te σ' h hw).2

theorem arrayIndex_err_out {n : Nat} {σ σ' : St F} {te : TErr} (hw : σ.warnings = false)
    (h : arrayIndex (evalN n) σ = .err te σ') : σ'.out = σ.out :=
  (((KOF.ko_evalN_arrayIndex n).at σ).2 te σ' h hw).2

end Abasic.Hoare
