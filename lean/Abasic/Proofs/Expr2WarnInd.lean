import Abasic.Proofs.Expr2Warn
/-
  The induction of Proofs/Expr2Lemmas.lean (`main2`) redone against `fold3`
  (Proofs/Expr2Warn.lean): the warnings flag of the state is arbitrary, and the
  output queue is tracked exactly.  Everything else is as in Expr2Lemmas: `upd`
  now also sets the queue, `Rel` also links the queue, the flag, the current
  line and the function table of the state with the environment.
-/
set_option linter.unusedSectionVars false

namespace Abasic.ExprL3
open Abasic Abasic.Ref M Abasic.ExprL Abasic.Names
open Abasic.ExprL2 (fixP2 render2_num render2_str render2_var render2_paren renderAt2_eq render2_bin render2_un
  render2_abs render2_int render2_rnd render2_cell render2_call renderArgs_nil renderArgs_one renderArgs_cons
  prec2_bounds lv2 prec_fixP2 prec_fixP2_8 lv_fixP2_left lv_fixP2_right render2_length_fixP2 spine2 spine2_zero
  spine2_fixP2 spine2_le depth2_fixP2 depth2_bin depth2_un resolved_fixP2 ArrLen rngStep_lt)

variable {F : Type}

section spec
variable [NumOps F]

theorem fold3_paren (n : Nat) (env : WEnv F) (e : Expr2 F) : fold3 n env (.paren e) = fold3 n env e := by
  rw [fold3]

theorem fold3_fixP2 (n : Nat) (env : WEnv F) (p : Nat) (e : Expr2 F) :
    fold3 n env (fixP2 p e) = fold3 n env e := by
  unfold fixP2; split
  · exact fold3_paren n env e
  · rfl

/-- what an evaluation does to the environment: globals, frames, function
    table, flag, line are untouched; arrays and generator state stay well-formed -/
structure Step (env env' : WEnv F) : Prop where
  vars : env'.vars = env.vars
  frames : env'.frames = env.frames
  fns : env'.fns = env.fns
  arrs : ArrLen env.arrays → ArrLen env'.arrays
  rng : env.rng < Extracted.rngModulus → env'.rng < Extracted.rngModulus
  warn : env'.warn = env.warn
  line : env'.line = env.line
  sfns : env'.sfns = env.sfns

theorem Step.refl (env : WEnv F) : Step env env := ⟨rfl, rfl, rfl, id, id, rfl, rfl, rfl⟩

theorem Step.trans {a b c : WEnv F} (h1 : Step a b) (h2 : Step b c) : Step a c :=
  ⟨h2.vars.trans h1.vars, h2.frames.trans h1.frames, h2.fns.trans h1.fns,
   fun h => h2.arrs (h1.arrs h), fun h => h2.rng (h1.rng h), h2.warn.trans h1.warn, h2.line.trans h1.line,
   h2.sfns.trans h1.sfns⟩

theorem step_put (w : WEnv F) (r : RefEnv F) (ws : List Out) (h : ExprL2.Step w.toRefEnv r) : Step w (w.put r ws) :=
  ⟨h.vars, h.frames, h.fns, h.arrs, h.rng, rfl, rfl, rfl⟩

theorem step_of_pair {α : Type} {w w' : WEnv F} {res : Except Err (α × RefEnv F)} {ws : List Out} {a : α}
    (hs : ∀ a r, res = .ok (a, r) → ExprL2.Step w.toRefEnv r) (h : pair w res ws = .ok (a, w')) : Step w w' := by
  cases res with
  | error e => cases h
  | ok p =>
    obtain ⟨a', r⟩ := p
    simp only [pair, Except.ok.injEq, Prod.mk.injEq] at h
    rw [← h.2]
    exact step_put w r ws (hs a' r rfl)

theorem fold3_step (n : Nat) (e : Expr2 F) (env env' : WEnv F) (v : Value F)
    (h : fold3 n env e = .ok (v, env')) : Step env env' := by
  rw [fold3_eq] at h
  exact step_of_pair (fun a r hr => ExprL2.fold2_step n e _ r a hr) h

theorem foldIdx3_step (n : Nat) (es : List (Expr2 F)) (env env' : WEnv F) (is : List Nat)
    (h : foldIdx3 n env es = .ok (is, env')) : Step env env' := by
  rw [foldIdx3_eq] at h
  exact step_of_pair (fun a r hr => ExprL2.foldIdx_step n es _ r a hr) h

theorem bindArgs3_step (n : Nat) (as : List (Expr2 F)) (env env' : WEnv F) (ps : List Str)
    (acc b : List (Str × Value F)) (h : bindArgs3 n env ps as acc = .ok (b, env')) : Step env env' := by
  rw [bindArgs3_eq] at h
  exact step_of_pair (fun a r hr => ExprL2.bindArgs2_step n as _ r ps acc a hr) h

end spec

variable [NumOps F]

/-! ### state side -/

/-- `σ` with the cursor `n` tokens further, `r` reads, and the arrays and
    generator state of `env` -/
def upd (σ : St F) (n r : Nat) (env : WEnv F) : St F :=
  { σ with loc := { σ.loc with idx := σ.loc.idx + n }, reads := r, arrays := env.arrays, rng := env.rng, out := env.out }

@[simp] theorem upd_reads (σ : St F) (n r : Nat) (env : WEnv F) : (upd σ n r env).reads = r := rfl
@[simp] theorem upd_nesting (σ : St F) (n r : Nat) (env : WEnv F) : (upd σ n r env).nesting = σ.nesting := rfl
@[simp] theorem upd_stack (σ : St F) (n r : Nat) (env : WEnv F) : (upd σ n r env).stack = σ.stack := rfl
@[simp] theorem upd_warnings (σ : St F) (n r : Nat) (env : WEnv F) : (upd σ n r env).warnings = σ.warnings := rfl
@[simp] theorem upd_vars (σ : St F) (n r : Nat) (env : WEnv F) : (upd σ n r env).vars = σ.vars := rfl
@[simp] theorem upd_fns (σ : St F) (n r : Nat) (env : WEnv F) : (upd σ n r env).fns = σ.fns := rfl
@[simp] theorem upd_lines (σ : St F) (n r : Nat) (env : WEnv F) : (upd σ n r env).lines = σ.lines := rfl
@[simp] theorem upd_arrays (σ : St F) (n r : Nat) (env : WEnv F) : (upd σ n r env).arrays = env.arrays := rfl
@[simp] theorem upd_rng (σ : St F) (n r : Nat) (env : WEnv F) : (upd σ n r env).rng = env.rng := rfl
@[simp] theorem upd_out (σ : St F) (n r : Nat) (env : WEnv F) : (upd σ n r env).out = env.out := rfl
@[simp] theorem upd_idx (σ : St F) (n r : Nat) (env : WEnv F) : (upd σ n r env).loc.idx = σ.loc.idx + n := rfl
@[simp] theorem upd_line (σ : St F) (n r : Nat) (env : WEnv F) : (upd σ n r env).loc.line = σ.loc.line := rfl
@[simp] theorem lineToks_upd (σ : St F) (n r : Nat) (env : WEnv F) : lineToks (upd σ n r env) = lineToks σ := rfl

theorem mv_upd (σ : St F) (a r b r' : Nat) (env : WEnv F) :
    mv (upd σ a r env) b r' = upd σ (a + b) r' env := by
  simp only [mv, upd, Nat.add_assoc]

theorem upd_mv (σ : St F) (a r b r' : Nat) (env : WEnv F) :
    upd (mv σ a r) b r' env = upd σ (a + b) r' env := by
  simp only [mv, upd, Nat.add_assoc]

theorem upd_upd (σ : St F) (a r b r' : Nat) (env env' : WEnv F) :
    upd (upd σ a r env) b r' env' = upd σ (a + b) r' env' := by
  simp only [upd, Nat.add_assoc]

theorem upd_congr (σ : St F) {a b : Nat} (r : Nat) (env : WEnv F) (h : a = b) :
    upd σ a r env = upd σ b r env := by
  subst h; rfl

theorem nest_upd (σ : St F) (k n r : Nat) (env : WEnv F) : nest (upd σ n r env) k = upd (nest σ k) n r env := rfl

theorem at_upd {σ : St F} {pre a b : List (Token F)} (h : At σ pre (a ++ b)) (r : Nat) (env : WEnv F) :
    At (upd σ a.length r env) (pre ++ a) b := by
  obtain ⟨h1, h2⟩ := h
  refine ⟨?_, ?_⟩
  · rw [lineToks_upd, h1, List.append_assoc]
  · rw [upd_idx, h2, List.length_append]

/-- the state's function table points at the spec's definitions: each defined
    function is stored with its parameter list, on a line whose tokens from the
    recorded index are the rendering of the body followed by something that
    ends an expression -/
structure FnsLink (σ : St F) (fns : List (Str × FnDefSpec F)) : Prop where
  undef : ∀ name, alGet name fns = none → alGet name σ.fns = none
  defd : ∀ name d, alGet name fns = some d → ∃ (fd : FnDef) (pre tail : List (Token F)),
    alGet name σ.fns = some fd ∧ fd.args = d.params ∧
    σ.lines.get fd.line = some (pre ++ (render2 d.body ++ tail)) ∧ fd.idx = pre.length ∧ Ends 6 tail

/-- the interpreter state `σ` and the reference environment `env`, with `n`
    units of fuel on the spec side -/
structure Rel (n : Nat) (σ : St F) (env : WEnv F) : Prop where
  vars : σ.vars = env.vars
  frames : σ.stack.map (·.vars) = env.frames
  arrays : σ.arrays = env.arrays
  rng : σ.rng = env.rng
  out : σ.out = env.out
  warn : σ.warnings = env.warn
  line : σ.loc.line = env.line
  sfns : σ.fns = env.sfns
  fns : FnsLink σ env.fns
  cap : σ.stack.length ≤ Extracted.stackLimit
  fuel : Extracted.stackLimit < n + σ.stack.length
  arrs_ok : ArrLen env.arrays
  rng_ok : env.rng < Extracted.rngModulus
  bodies : ∀ name d, alGet name env.fns = some d → Resolved env.fns d.body

theorem Rel.mv {n : Nat} {σ : St F} {env : WEnv F} (h : Rel n σ env) (a r : Nat) : Rel n (ExprL.mv σ a r) env :=
  ⟨h.vars, h.frames, h.arrays, h.rng, h.out, h.warn, h.line, h.sfns, ⟨h.fns.undef, h.fns.defd⟩, h.cap, h.fuel, h.arrs_ok, h.rng_ok, h.bodies⟩

theorem Rel.nest {n : Nat} {σ : St F} {env : WEnv F} (h : Rel n σ env) (k : Nat) : Rel n (ExprL.nest σ k) env :=
  ⟨h.vars, h.frames, h.arrays, h.rng, h.out, h.warn, h.line, h.sfns, ⟨h.fns.undef, h.fns.defd⟩, h.cap, h.fuel, h.arrs_ok, h.rng_ok, h.bodies⟩

theorem Rel.upd {n : Nat} {σ : St F} {env env' : WEnv F} (h : Rel n σ env) (hs : Step env env') (a r : Nat) :
    Rel n (ExprL3.upd σ a r env') env' :=
  ⟨h.vars.trans hs.vars.symm, h.frames.trans hs.frames.symm, rfl, rfl, rfl, h.warn.trans hs.warn.symm,
   h.line.trans hs.line.symm, h.sfns.trans hs.sfns.symm,
   ⟨by rw [hs.fns]; exact h.fns.undef, by rw [hs.fns]; exact h.fns.defd⟩, h.cap, h.fuel,
   hs.arrs h.arrs_ok, hs.rng h.rng_ok, by rw [hs.fns]; exact h.bodies⟩

theorem upd_of_rel {n : Nat} {σ : St F} {env : WEnv F} (h : Rel n σ env) (a r : Nat) :
    ExprL3.upd σ a r env = ExprL.mv σ a r := by
  simp only [ExprL3.upd, ExprL.mv, ← h.arrays, ← h.rng, ← h.out]

/-- where an error raised during an expression is located: nowhere yet (the
    enclosing statement's `populate` will put it just before the cursor of the
    final state), or — when it arose in the body of a user function, where the
    call has already populated it — on the line of a function definition.
    (The middle case never applies to an expression: `fold2_good`.) -/
def LocOK (σ : St F) (te : TErr) : Prop :=
  te.loc = none ∨ te.err = .dataTypeMismatch ∨
    ∃ (l : Loc) (name : Str) (fd : FnDef), te.loc = some l ∧ alGet name σ.fns = some fd ∧ l.line = some fd.line

/-- an error leaves the nesting counter, the stack and the current line alone,
    and is located as `LocOK` says -/
def Keeps (σ : St F) (te : TErr) (σ' : St F) : Prop :=
  σ'.nesting = σ.nesting ∧ σ'.stack = σ.stack ∧ σ'.loc.line = σ.loc.line ∧ LocOK σ te

theorem Keeps.refl (σ : St F) (e : Err) : Keeps σ { err := e } σ := ⟨rfl, rfl, rfl, Or.inl rfl⟩

/-- agreement of a run with the spec's result: on a value, the run is the
    continuation `k` applied to it, to the new environment and to some larger
    read counter; on an error, the run fails with that error -/
def Agrees2 {α β : Type} (res : Res F α) (ev : Except Err (β × WEnv F)) (σ : St F)
    (k : β → WEnv F → Nat → Res F α) : Prop :=
  match ev with
  | .ok p => ∃ r, σ.reads < r ∧ res = k p.1 p.2 r
  | .error x => ∃ te σ', res = .err te σ' ∧ te.err = x ∧ Keeps σ te σ'

theorem lift_level2 (ev : Evals F) (res : Except Err (Value F × WEnv F)) (σ : St F) (len : Nat)
    (pre' rest : List (Token F)) (i j : Nat) (hij : i ≤ j) (hE : Ends j rest)
    (hAt : ∀ env r, At (upd σ len r env) pre' rest)
    (h : Agrees2 (tier ev i σ) res σ (fun v env r => .ok v (upd σ len r env))) :
    Agrees2 (tier ev j σ) res σ (fun v env r => .ok v (upd σ len r env)) := by
  induction j with
  | zero =>
    have : i = 0 := by omega
    subst this; exact h
  | succ j ih =>
    by_cases hi : i = j + 1
    · subst hi; exact h
    · have ih' := ih (by omega) (hE.mono (Nat.le_succ j))
      cases res with
      | error x =>
        obtain ⟨te, σ', hσ', hx, hk⟩ := ih'
        exact ⟨te, σ', by simp only [tier, level]; rw [bind_err hσ'], hx, hk⟩
      | ok p =>
        obtain ⟨r, hr, hσ'⟩ := ih'
        refine ⟨r + 1, by omega, ?_⟩
        simp only [tier, level]
        rw [bind_ok hσ', bind_ok (lineBudget_eq (hAt p.2 r).1), levelLoop_stop (hAt p.2 r) hE, mv_upd]
        rfl


/-! ### the statements proved by induction -/

/-- atoms, parsed by `parenExpr` -/
def AStmt2 (n : Nat) (e : Expr2 F) : Prop :=
  ∀ (f : Nat) (σ : St F) (env : WEnv F) (pre rest : List (Token F)),
    depth2 env.fns n e ≤ f → σ.nesting + depth2 env.fns n e ≤ Extracted.nestingLimit → e.prec = 8 →
    Ends 0 rest → At σ pre (render2 e ++ rest) → Rel n σ env → Resolved env.fns e →
    Agrees2 (parenExpr (evalN f) σ) (fold3 n env e) σ
      (fun v env' r => .ok v (upd σ (render2 e).length r env'))

/-- any tier at or below the strength of `e` parses `render2 e` -/
def PStmt2 (n : Nat) (e : Expr2 F) : Prop :=
  ∀ (f j : Nat) (σ : St F) (env : WEnv F) (pre rest : List (Token F)),
    depth2 env.fns n e ≤ f → σ.nesting + depth2 env.fns n e ≤ Extracted.nestingLimit → lv2 e ≤ j → j ≤ 6 →
    Ends j rest → At σ pre (render2 e ++ rest) → Rel n σ env → Resolved env.fns e →
    Agrees2 (tier (evalN f) j σ) (fold3 n env e) σ
      (fun v env' r => .ok v (upd σ (render2 e).length r env'))

/-- spine statement (see `SStmt`) -/
def SStmt2 (n : Nat) (e : Expr2 F) : Prop :=
  ∀ (f k m : Nat) (g : Nat → Nat) (σ : St F) (env : WEnv F) (pre rest : List (Token F)),
    depth2 env.fns n e ≤ f → σ.nesting + depth2 env.fns n e ≤ Extracted.nestingLimit → lv2 e ≤ k + 1 → k < 6 →
    Ends k rest → At σ pre (render2 e ++ rest) → Rel n σ env → Resolved env.fns e →
    g ((pre ++ (render2 e ++ rest)).length + 1) = m + spine2 k e →
    Agrees2 ((tier (evalN f) k >>= fun v => lineBudget >>= fun b =>
              levelLoop (tier (evalN f) k) (opsAt k) (g b) v) σ)
      (fold3 n env e) σ
      (fun v env' r => levelLoop (tier (evalN f) k) (opsAt k) m v (upd σ (render2 e).length r env'))

/-- the recursive entry `ev.expr`, one nesting level and one unit of fuel deeper -/
theorem expr_eq2 (n : Nat) (x : Expr2 F) (hx : PStmt2 n x) (f : Nat) (σ : St F) (env : WEnv F)
    (pre rest : List (Token F))
    (hd : depth2 env.fns n x + 1 ≤ f) (hn : σ.nesting + (depth2 env.fns n x + 1) ≤ Extracted.nestingLimit)
    (hE : Ends 6 rest) (hAt : At σ pre (render2 x ++ rest)) (hR : Rel n σ env) (hres : Resolved env.fns x) :
    Agrees2 ((evalN f).expr σ) (fold3 n env x) σ
      (fun v env' r => .ok v (upd σ (render2 x).length r env')) := by
  obtain ⟨f', rfl⟩ : ∃ f', f = f' + 1 := ⟨f - 1, by omega⟩
  have hP := hx f' 6 (nest σ (σ.nesting + 1)) env pre rest (by omega) (by simp only [nest_nesting]; omega)
      (by have := prec2_bounds x; unfold lv2; omega) (Nat.le_refl _) hE (at_nest hAt _) (hR.nest _) hres
  show Agrees2 (nested (tier (evalN f') 6) σ) _ _ _
  cases hev : fold3 n env x with
  | error e =>
    rw [hev] at hP
    obtain ⟨te, σ', hσ', hx', hk⟩ := hP
    exact ⟨te, nest σ' σ.nesting, nested_err (by omega) hσ' hk.1, hx', rfl, hk.2.1, hk.2.2⟩
  | ok p =>
    rw [hev] at hP
    obtain ⟨r, hr, hσ'⟩ := hP
    exact ⟨r, hr, nested_ok (by omega) hσ' rfl⟩

/-! ### atoms -/

theorem findInStack_eq (name : Str) (stack : List (Frame F)) :
    findInStack name stack = lookupFrames name (stack.map (·.vars)) := by
  induction stack with
  | nil => rfl
  | cons fr rest ih =>
    simp only [findInStack, List.map_cons, lookupFrames, ih]
    cases alGet name fr.vars <;> rfl

theorem A2_num (n : Nat) (x : F) : AStmt2 n (.num x : Expr2 F) := by
  intro f σ env pre rest _ _ _ _ hAt hR _
  rw [render2_num] at hAt ⊢
  have hAt : At σ pre (.num x :: rest) := hAt
  rw [fold3]
  refine ⟨σ.reads + 1 + 1, by omega, ?_⟩
  unfold parenExpr
  rw [bind_ok (accept_false hAt rfl)]
  simp only [Bool.false_eq_true, ↓reduceIte]
  unfold term
  rw [bind_ok (nextUnwrapped_eq (at_mv0 hAt _)), mv_mv, upd_of_rel hR]
  rfl

theorem A2_str (n : Nat) (s : Str) : AStmt2 n (.str s : Expr2 F) := by
  intro f σ env pre rest _ _ _ _ hAt hR _
  rw [render2_str] at hAt ⊢
  have hAt : At σ pre (.str s :: rest) := hAt
  rw [fold3]
  refine ⟨σ.reads + 1 + 1, by omega, ?_⟩
  unfold parenExpr
  rw [bind_ok (accept_false hAt rfl)]
  simp only [Bool.false_eq_true, ↓reduceIte]
  unfold term
  rw [bind_ok (nextUnwrapped_eq (at_mv0 hAt _)), mv_mv, upd_of_rel hR]
  rfl

theorem lookup_eq {n : Nat} {σ : St F} {env : WEnv F} (hR : Rel n σ env) (name : Str) :
    env.lookup name = match findInStack name σ.stack with
      | some v => v
      | none => getVar σ name := by
  unfold RefEnv.lookup getVar
  rw [findInStack_eq, hR.frames, hR.vars]
  cases lookupFrames name env.frames with
  | some v => rfl
  | none => dsimp only; cases alGet name env.vars <;> rfl

theorem warn_state {n : Nat} {σ : St F} {env : WEnv F} (hR : Rel n σ env) (msg : Str) (a r : Nat)
    (hw : env.warn = true) :
    warn msg (mv σ a r) = .ok () (upd σ a r { env with out := .warning msg env.line :: env.out }) := by
  have hwt : (mv σ a r).warnings = true := by rw [mv_warnings, hR.warn, hw]
  rw [Props.C17.warn_effect, if_pos hwt]
  congr 1
  simp only [upd, mv, ← hR.arrays, ← hR.rng, ← hR.out, ← hR.line]

theorem A2_var (n : Nat) (name : Str) : AStmt2 n (.var name : Expr2 F) := by
  intro f σ env pre rest _ _ _ hE hAt hR _
  rw [render2_var] at hAt ⊢
  have hAt : At σ pre (.symbol name :: rest) := hAt
  rw [fold3]
  refine ⟨σ.reads + 1 + 1 + 1, by omega, ?_⟩
  unfold parenExpr
  rw [bind_ok (accept_false hAt rfl)]
  simp only [Bool.false_eq_true, ↓reduceIte]
  unfold term
  rw [bind_ok (nextUnwrapped_eq (at_mv0 hAt _)), mv_mv]
  simp only [mv_reads, Nat.zero_add]
  have hAt2 := at_mv1 hAt (σ.reads + 1 + 1)
  rw [bind_ok (peekIsKw_false .LeftParen hAt2 (fun t ht => (hE t ht).1)), mv_mv]
  simp only [mv_reads, Nat.add_zero, Bool.false_eq_true, ↓reduceIte, bind, M.bindM, M.get]
  have hfs : findInStack name σ.stack = lookupFrames name env.frames := by rw [findInStack_eq, hR.frames]
  have hlen : ([Token.symbol name] : List (Token F)).length = 1 := rfl
  rw [hlen]
  generalize hτ : mv σ 1 (σ.reads + 1 + 1 + 1) = τ
  have h1 : τ.stack = σ.stack := by rw [← hτ]; rfl
  have h2 : τ.warnings = env.warn := by rw [← hτ]; exact hR.warn
  have h3 : τ.vars = env.vars := by rw [← hτ]; exact hR.vars
  have h4 : getVar τ name = getVar σ name := by rw [← hτ]; rfl
  have h5 : upd σ 1 (σ.reads + 1 + 1 + 1) env = τ := by rw [← hτ]; exact upd_of_rel hR _ _
  rw [h1, hfs, h2, h3, h4]
  unfold readVar3
  rw [lookup_eq hR, hfs]
  cases hl : lookupFrames name env.frames with
  | some v =>
    simp only [Option.isNone_some, Bool.false_and, Bool.false_eq_true, ↓reduceIte]
    rw [h5]
    rfl
  | none =>
    simp only [Option.isNone_none, Bool.true_and]
    cases hc : (env.warn && !alHas name env.vars) with
    | false =>
      simp only [Bool.false_eq_true, ↓reduceIte]
      rw [h5]
      rfl
    | true =>
      simp only [↓reduceIte]
      have hwarn : env.warn = true := by
        cases hx : env.warn
        · rw [hx] at hc; cases hc
        · rfl
      rw [← hτ]
      show (warn (undeclVarMsg name)).bindM (fun _ => pure (getVar σ name)) (mv σ 1 (σ.reads + 1 + 1 + 1)) = _
      simp only [M.bindM, warn_state hR (undeclVarMsg name) 1 (σ.reads + 1 + 1 + 1) hwarn]
      rfl


theorem depth2_paren (fns : List (Str × FnDefSpec F)) (n : Nat) (e : Expr2 F) :
    depth2 fns n (.paren e) = depth2 fns n e + 1 := by rw [depth2]
theorem depth2_abs (fns : List (Str × FnDefSpec F)) (n : Nat) (e : Expr2 F) :
    depth2 fns n (.abs e) = depth2 fns n e + 1 := by rw [depth2]
theorem depth2_int (fns : List (Str × FnDefSpec F)) (n : Nat) (e : Expr2 F) :
    depth2 fns n (.int e) = depth2 fns n e + 1 := by rw [depth2]
theorem depth2_rnd (fns : List (Str × FnDefSpec F)) (n : Nat) (e : Expr2 F) :
    depth2 fns n (.rnd e) = depth2 fns n e + 1 := by rw [depth2]

theorem A2_paren (n : Nat) (x : Expr2 F) (hx : PStmt2 n x) : AStmt2 n (.paren x) := by
  intro f σ env pre rest hd hn _ _ hAt hR hres
  rw [render2_paren] at hAt ⊢
  have hAt : At σ pre (.kw .LeftParen :: (render2 x ++ (.kw .RightParen :: rest))) := by
    simpa only [List.cons_append, List.append_assoc, List.nil_append] using hAt
  rw [depth2_paren] at hd hn
  have hres' : Resolved env.fns x := by simpa only [Resolved] using hres
  have hAt1 := at_mv1 hAt (σ.reads + 1)
  have hX := expr_eq2 n x hx f (mv σ 1 (σ.reads + 1)) env _ _ hd hn (ends_rparen 6 rest) hAt1 (hR.mv _ _) hres'
  unfold parenExpr
  rw [bind_ok (accept_true hAt rfl)]
  simp only [↓reduceIte]
  rw [fold3_paren]
  cases hev : fold3 n env x with
  | error e =>
    rw [hev] at hX
    obtain ⟨te, σ', hσ', hx', hk⟩ := hX
    exact ⟨te, σ', bind_err hσ', hx', hk⟩
  | ok p =>
    rw [hev] at hX
    obtain ⟨r, hr, hσ'⟩ := hX
    simp only [mv_reads, upd_mv] at hr hσ'
    refine ⟨r + 1, by omega, ?_⟩
    rw [bind_ok hσ']
    have hAt2 : At (upd σ (1 + (render2 x).length) r p.2) ((pre ++ [.kw .LeftParen]) ++ render2 x)
        (.kw .RightParen :: rest) := by
      have := at_upd hAt1 r p.2
      rwa [upd_mv] at this
    rw [bind_ok (expect_eq hAt2 rfl), mv_upd]
    simp only [upd_reads, pure_eq]
    congr 1
    apply upd_congr
    simp only [List.length_cons, List.length_append, List.length_nil]
    omega

/-- an atom does not begin with a unary operator -/
theorem atom_head2 (e : Expr2 F) (h : e.prec = 8) :
    ∃ t ts, render2 e = t :: ts ∧ UnOp.ofToken t = none := by
  cases e with
  | num x => exact ⟨_, _, render2_num x, rfl⟩
  | str s => exact ⟨_, _, render2_str s, rfl⟩
  | var n => exact ⟨_, _, render2_var n, rfl⟩
  | paren x => exact ⟨_, _, render2_paren x, rfl⟩
  | abs x => exact ⟨_, _, render2_abs x, rfl⟩
  | int x => exact ⟨_, _, render2_int x, rfl⟩
  | rnd x => exact ⟨_, _, render2_rnd x, rfl⟩
  | cell name idx => exact ⟨_, _, render2_cell name idx, rfl⟩
  | call g args => exact ⟨_, _, render2_call g args, rfl⟩
  | un op x => simp [Expr2.prec] at h
  | bin op l r => have := prec_op_bounds op; simp only [Expr2.prec] at h; omega

/-- an atom at any tier -/
theorem P2_atom (n : Nat) (e : Expr2 F) (ha : AStmt2 n e) (he : e.prec = 8) : PStmt2 n e := by
  intro f j σ env pre rest hd hn _ _ hE hAt hR hres
  obtain ⟨t, ts, hts, hun⟩ := atom_head2 e he
  have hAt0 : At σ pre (t :: (ts ++ rest)) := by rw [hts] at hAt; exact hAt
  have hA := ha f (mv σ 0 (σ.reads + 1)) env pre rest hd hn he (hE.mono (Nat.zero_le _)) (at_mv0 hAt _)
    (hR.mv _ _) hres
  have h0 : Agrees2 (tier (evalN f) 0 σ) (fold3 n env e) σ
      (fun v env' r => .ok v (upd σ (render2 e).length r env')) := by
    show Agrees2 (unaryExpr (evalN f) σ) _ _ _
    unfold unaryExpr
    rw [bind_ok (tryNext_none hAt0 (fun t' ht' => by
      simp only [List.head?_cons, Option.some.injEq] at ht'; subst ht'; exact hun))]
    cases hev : fold3 n env e with
    | error x =>
      rw [hev] at hA
      obtain ⟨te, σ', hσ', hx', hk⟩ := hA
      exact ⟨te, σ', bind_err hσ', hx', hk⟩
    | ok p =>
      rw [hev] at hA
      obtain ⟨r, hr, hσ'⟩ := hA
      simp only [mv_reads, upd_mv, Nat.zero_add] at hr hσ'
      exact ⟨r, by omega, by rw [bind_ok hσ']; rfl⟩
  exact lift_level2 _ _ _ _ (pre ++ render2 e) rest 0 j (Nat.zero_le _) hE (fun env' r => at_upd hAt r env') h0

/-- the spine statement from the tier statement when `e` has no operator of tier `k+1` on top -/
theorem S2_of_P (n : Nat) (e : Expr2 F) (hP : PStmt2 n e) (f k m : Nat) (g : Nat → Nat) (σ : St F)
    (env : WEnv F) (pre rest : List (Token F))
    (hd : depth2 env.fns n e ≤ f) (hn : σ.nesting + depth2 env.fns n e ≤ Extracted.nestingLimit)
    (hlv : lv2 e ≤ k) (hk : k < 6)
    (hE : Ends k rest) (hAt : At σ pre (render2 e ++ rest)) (hR : Rel n σ env) (hres : Resolved env.fns e)
    (hg : g ((pre ++ (render2 e ++ rest)).length + 1) = m + spine2 k e) :
    Agrees2 ((tier (evalN f) k >>= fun v => lineBudget >>= fun b =>
              levelLoop (tier (evalN f) k) (opsAt k) (g b) v) σ)
      (fold3 n env e) σ
      (fun v env' r => levelLoop (tier (evalN f) k) (opsAt k) m v (upd σ (render2 e).length r env')) := by
  have h := hP f k σ env pre rest hd hn hlv (Nat.le_of_lt hk) hE hAt hR hres
  rw [spine2_zero hlv, Nat.add_zero] at hg
  cases hev : fold3 n env e with
  | error x =>
    rw [hev] at h
    obtain ⟨te, σ', hσ', hx', hk'⟩ := h
    exact ⟨te, σ', bind_err hσ', hx', hk'⟩
  | ok p =>
    rw [hev] at h
    obtain ⟨r, hr, hσ'⟩ := h
    refine ⟨r, hr, ?_⟩
    rw [bind_ok hσ', bind_ok (lineBudget_eq (σ := upd σ (render2 e).length r p.2) hAt.1), hg]
    rfl

/-! ### binary operators -/

theorem P2_paren (n : Nat) (x : Expr2 F) (hx : PStmt2 n x) : PStmt2 n (.paren x) :=
  P2_atom n _ (A2_paren n x hx) rfl

theorem P2_fixP (n p : Nat) (x : Expr2 F) (hx : PStmt2 n x) : PStmt2 n (fixP2 p x) := by
  unfold fixP2; split
  · exact P2_paren n x hx
  · exact hx

theorem S2_paren (n : Nat) (x : Expr2 F) (hx : PStmt2 n x) : SStmt2 n (.paren x) := by
  intro f k m g σ env pre rest hd hn _ hk hE hAt hR hres hg
  exact S2_of_P n _ (P2_paren n x hx) f k m g σ env pre rest hd hn (Nat.zero_le _) hk hE hAt hR hres hg

theorem S2_fixP (n p : Nat) (x : Expr2 F) (hP : PStmt2 n x) (hS : SStmt2 n x) : SStmt2 n (fixP2 p x) := by
  unfold fixP2; split
  · exact S2_paren n x hP
  · exact hS


/-- the spine case: `bin op l r` read by the loop of the tier of `op` -/
theorem S2_bin_same (n : Nat) (op : BinOp) (l r : Expr2 F) (hPl : PStmt2 n l) (hSl : SStmt2 n l)
    (hPr : PStmt2 n r)
    (f m : Nat) (g : Nat → Nat) (σ : St F) (env : WEnv F) (pre rest : List (Token F))
    (hd : depth2 env.fns n (.bin op l r) ≤ f)
    (hn : σ.nesting + depth2 env.fns n (.bin op l r) ≤ Extracted.nestingLimit)
    (hE : Ends (6 - BinOp.prec op) rest) (hAt : At σ pre (render2 (.bin op l r) ++ rest))
    (hR : Rel n σ env) (hres : Resolved env.fns (.bin op l r))
    (hg : g ((pre ++ (render2 (.bin op l r) ++ rest)).length + 1)
      = m + spine2 (6 - BinOp.prec op) (.bin op l r)) :
    Agrees2 ((tier (evalN f) (6 - BinOp.prec op) >>= fun v => lineBudget >>= fun b =>
              levelLoop (tier (evalN f) (6 - BinOp.prec op)) (opsAt (6 - BinOp.prec op)) (g b) v) σ)
      (fold3 n env (.bin op l r)) σ
      (fun v env' r' => levelLoop (tier (evalN f) (6 - BinOp.prec op)) (opsAt (6 - BinOp.prec op)) m v
        (upd σ (render2 (.bin op l r)).length r' env')) := by
  have hb := prec_op_bounds op
  generalize hk : 6 - BinOp.prec op = k at *
  have hk6 : k < 6 := by omega
  rw [depth2_bin] at hd hn
  have hdl : depth2 env.fns n (fixP2 (BinOp.prec op) l) ≤ f := Nat.le_trans (Nat.le_max_left _ _) hd
  have hdr : depth2 env.fns n (fixP2 (BinOp.prec op + 1) r) ≤ f := Nat.le_trans (Nat.le_max_right _ _) hd
  have hnl : σ.nesting + depth2 env.fns n (fixP2 (BinOp.prec op) l) ≤ Extracted.nestingLimit :=
    Nat.le_trans (Nat.add_le_add_left (Nat.le_max_left _ _) _) hn
  have hnr : σ.nesting + depth2 env.fns n (fixP2 (BinOp.prec op + 1) r) ≤ Extracted.nestingLimit :=
    Nat.le_trans (Nat.add_le_add_left (Nat.le_max_right _ _) _) hn
  have hres2 : Resolved env.fns l ∧ Resolved env.fns r := by simpa only [Resolved] using hres
  have hresL : Resolved env.fns (fixP2 (BinOp.prec op) l) := (resolved_fixP2 _ _ _).mpr hres2.1
  have hresR : Resolved env.fns (fixP2 (BinOp.prec op + 1) r) := (resolved_fixP2 _ _ _).mpr hres2.2
  have hfL : ∀ env', fold3 n env' (fixP2 (BinOp.prec op) l) = fold3 n env' l := fun _ => fold3_fixP2 _ _ _ _
  have hfR : ∀ env', fold3 n env' (fixP2 (BinOp.prec op + 1) r) = fold3 n env' r := fun _ => fold3_fixP2 _ _ _ _
  rw [render2_bin] at hAt hg ⊢
  generalize hL : fixP2 (BinOp.prec op) l = L at *
  generalize hR' : fixP2 (BinOp.prec op + 1) r = R at *
  have hAtL : At σ pre (render2 L ++ (.kw (BinOp.token op) :: (render2 R ++ rest))) := by
    simpa only [List.append_assoc, List.cons_append] using hAt
  have hEL : Ends k (.kw (BinOp.token op) :: (render2 R ++ rest)) := hk ▸ ends_op op _
  have hlvL : lv2 L ≤ k + 1 := by rw [← hL, ← hk]; exact lv_fixP2_left op l
  have hlvR : lv2 R ≤ k := by rw [← hR', ← hk]; exact lv_fixP2_right op r
  have hspL : spine2 k L = spine2 k l := by rw [← hL, ← hk]; exact spine2_fixP2 op l
  have hsp : spine2 k (.bin op l r) = spine2 k l + 1 := by simp only [spine2, hk, if_true]
  have hSL : SStmt2 n L := hL ▸ S2_fixP n _ l hPl hSl
  have hPR : PStmt2 n R := hR' ▸ P2_fixP n _ r hPr
  -- the left operand, with one more iteration in hand
  have hLres := hSL f k (m + 1) g σ env pre _ hdl hnl hlvL hk6 hEL hAtL hR hresL
    (by rw [hspL]
        have : pre ++ (render2 L ++ Token.kw (BinOp.token op) :: (render2 R ++ rest))
            = pre ++ (render2 L ++ Token.kw (BinOp.token op) :: render2 R ++ rest) := by
          simp only [List.append_assoc, List.cons_append]
        rw [this, hg, hsp]; omega)
  rw [hfL] at hLres
  cases hel : fold3 n env l with
  | error x =>
    rw [hel] at hLres
    obtain ⟨te, σ', hσ', hx', hk'⟩ := hLres
    simp only [fold3, hel]
    exact ⟨te, σ', hσ', hx', hk'⟩
  | ok p =>
    obtain ⟨a, env1⟩ := p
    rw [hel] at hLres
    obtain ⟨r1, hr1, hσ1⟩ := hLres
    simp only at hσ1
    have hs1 : Step env env1 := fold3_step n l env env1 a hel
    -- one iteration of the loop
    have hAt1 : At (upd σ (render2 L).length r1 env1) (pre ++ render2 L)
        (.kw (BinOp.token op) :: (render2 R ++ rest)) := at_upd hAtL r1 env1
    have hop : opsAt (F := F) k (.kw (BinOp.token op)) = some op := by
      rw [opsAt_token, if_pos hk.symm]
    have hAt2 := at_mv1 hAt1 (r1 + 1)
    rw [mv_upd] at hAt2
    have hRres := hPR f k (upd σ ((render2 L).length + 1) (r1 + 1) env1) env1 _ rest
      (by rw [hs1.fns]; exact hdr) (by rw [hs1.fns]; exact hnr) hlvR
      (Nat.le_of_lt hk6) hE hAt2 (hR.upd hs1 _ _) (by rw [hs1.fns]; exact hresR)
    rw [hfR] at hRres
    have hstep : ∀ (res : Res F (Value F)),
        (do let r' ← tier (evalN f) k
            let v' ← liftE (op.eval a r')
            levelLoop (tier (evalN f) k) (opsAt k) m v') (upd σ ((render2 L).length + 1) (r1 + 1) env1) = res →
        levelLoop (tier (evalN f) k) (opsAt k) (m + 1) a (upd σ (render2 L).length r1 env1) = res := by
      intro res hres'
      rw [← hres']
      conv => lhs; unfold levelLoop
      rw [bind_ok (tryNext_some hAt1 hop), mv_upd]
      rfl
    cases her : fold3 n env1 r with
    | error x =>
      rw [her] at hRres
      obtain ⟨te, σ', hσ', hx', hk'⟩ := hRres
      simp only [fold3, hel, her]
      exact ⟨te, σ', by rw [hσ1]; exact hstep _ (bind_err hσ'), hx', hk'⟩
    | ok q =>
      obtain ⟨b, env2⟩ := q
      rw [her] at hRres
      obtain ⟨r2, hr2, hσ2⟩ := hRres
      simp only [upd_reads, upd_upd] at hr2 hσ2
      simp only [fold3, hel, her]
      cases hev : op.eval a b with
      | error x =>
        refine ⟨{ err := x }, upd σ ((render2 L).length + 1 + (render2 R).length) r2 env2, ?_, rfl, rfl, rfl, rfl, Or.inl rfl⟩
        rw [hσ1]
        apply hstep
        rw [bind_ok hσ2, hev]
        rfl
      | ok c =>
        refine ⟨r2, by omega, ?_⟩
        rw [hσ1]
        apply hstep
        rw [bind_ok hσ2, hev]
        show levelLoop _ _ m c _ = levelLoop _ _ m c _
        congr 1
        apply upd_congr
        simp only [List.length_append, List.length_cons]
        omega

/-- the tier statement of a binary node from its spine statement -/
theorem P2_bin (n : Nat) (op : BinOp) (l r : Expr2 F) (hPl : PStmt2 n l) (hSl : SStmt2 n l)
    (hPr : PStmt2 n r) : PStmt2 n (.bin op l r) := by
  intro f j σ env pre rest hd hn hlv hj hE hAt hR hres
  have hb := prec_op_bounds op
  have hkj : 6 - BinOp.prec op + 1 ≤ j := by simp only [lv2, Expr2.prec] at hlv; omega
  have hsp := spine2_le (6 - BinOp.prec op) (.bin op l r)
  have hlen : (render2 (.bin op l r)).length ≤ (pre ++ (render2 (.bin op l r) ++ rest)).length := by
    simp only [List.length_append]; omega
  obtain ⟨m, hm'⟩ : ∃ m, (pre ++ (render2 (.bin op l r) ++ rest)).length + 1
      = (m + 1) + spine2 (6 - BinOp.prec op) (.bin op l r) :=
    ⟨(pre ++ (render2 (.bin op l r) ++ rest)).length - spine2 (6 - BinOp.prec op) (.bin op l r), by omega⟩
  have h := S2_bin_same n op l r hPl hSl hPr f (m + 1) id σ env pre rest hd hn (hE.mono (by omega)) hAt hR hres hm'
  have hAt' : ∀ env' r', At (upd σ (render2 (.bin op l r)).length r' env') (pre ++ render2 (.bin op l r)) rest :=
    fun env' r' => at_upd hAt r' env'
  have h1 : Agrees2 (tier (evalN f) (6 - BinOp.prec op + 1) σ) (fold3 n env (.bin op l r)) σ
      (fun v env' r' => .ok v (upd σ (render2 (.bin op l r)).length r' env')) := by
    show Agrees2 ((tier (evalN f) (6 - BinOp.prec op) >>= fun v => lineBudget >>= fun b =>
              levelLoop (tier (evalN f) (6 - BinOp.prec op)) (opsAt (6 - BinOp.prec op)) (id b) v) σ) _ _ _
    cases hev : fold3 n env (.bin op l r) with
    | error x => rw [hev] at h; exact h
    | ok p =>
      rw [hev] at h
      obtain ⟨r1, hr1, hσ1⟩ := h
      refine ⟨r1 + 1, by omega, ?_⟩
      rw [hσ1]
      simp only
      rw [levelLoop_stop (hAt' p.2 r1) (hE.mono hkj), mv_upd]
      rfl
  exact lift_level2 _ _ _ _ _ rest _ j hkj hE hAt' h1

theorem S2_bin (n : Nat) (op : BinOp) (l r : Expr2 F) (hPl : PStmt2 n l) (hSl : SStmt2 n l)
    (hPr : PStmt2 n r) : SStmt2 n (.bin op l r) := by
  intro f k m g σ env pre rest hd hn hlv hk hE hAt hR hres hg
  by_cases hkk : 6 - BinOp.prec op = k
  · subst hkk
    exact S2_bin_same n op l r hPl hSl hPr f m g σ env pre rest hd hn hE hAt hR hres hg
  · have hlv' : lv2 (.bin op l r) ≤ k := by
      simp only [lv2, Expr2.prec] at hlv ⊢; omega
    exact S2_of_P n _ (P2_bin n op l r hPl hSl hPr) f k m g σ env pre rest hd hn hlv' hk hE hAt hR hres hg

theorem S2_atom (n : Nat) (e : Expr2 F) (hP : PStmt2 n e) (he : lv2 e = 0) : SStmt2 n e := by
  intro f k m g σ env pre rest hd hn _ hk hE hAt hR hres hg
  exact S2_of_P n _ hP f k m g σ env pre rest hd hn (by omega) hk hE hAt hR hres hg

/-! ### unary operators -/

theorem A2_fixP8 (n : Nat) (x : Expr2 F) (hP : PStmt2 n x) (hA : AStmt2 n x) : AStmt2 n (fixP2 8 x) := by
  unfold fixP2; split
  · exact A2_paren n x hP
  · exact hA

theorem P2_un (n : Nat) (op : UnOp) (x : Expr2 F) (hP : PStmt2 n x) (hA : AStmt2 n x) :
    PStmt2 n (.un op x) := by
  intro f j σ env pre rest hd hn _ _ hE hAt hR hres
  rw [depth2_un] at hd hn
  have hAt0 : At σ pre (.kw (UnOp.token op) :: (render2 (fixP2 8 x) ++ rest)) := by
    rw [render2_un] at hAt; exact hAt
  have hAt1 := at_mv1 hAt0 (σ.reads + 1)
  have hres' : Resolved env.fns (fixP2 8 x) :=
    (resolved_fixP2 _ _ _).mpr (by simpa only [Resolved] using hres)
  have hX := A2_fixP8 n x hP hA f (mv σ 1 (σ.reads + 1)) env _ rest hd hn (prec_fixP2_8 x)
    (hE.mono (Nat.zero_le _)) hAt1 (hR.mv _ _) hres'
  rw [fold3_fixP2] at hX
  have h0 : Agrees2 (tier (evalN f) 0 σ) (fold3 n env (.un op x)) σ
      (fun v env' r => .ok v (upd σ (render2 (.un op x)).length r env')) := by
    show Agrees2 (unaryExpr (evalN f) σ) _ _ _
    unfold unaryExpr
    rw [bind_ok (tryNext_some hAt0 (unop_ofToken op))]
    cases hev : fold3 n env x with
    | error e =>
      rw [hev] at hX
      obtain ⟨te, σ', hσ', hx', hk⟩ := hX
      simp only [fold3, hev]
      exact ⟨te, σ', bind_err hσ', hx', hk⟩
    | ok p =>
      obtain ⟨v, env1⟩ := p
      rw [hev] at hX
      obtain ⟨r, hr, hσ'⟩ := hX
      simp only [mv_reads, upd_mv] at hr hσ'
      simp only [fold3, hev]
      rw [bind_ok hσ']
      cases hop : op.eval v with
      | error e => exact ⟨_, _, rfl, rfl, rfl, rfl, rfl, Or.inl rfl⟩
      | ok w =>
        refine ⟨r, by omega, ?_⟩
        show Res.ok w _ = Res.ok w _
        congr 1
        apply upd_congr
        rw [render2_un, List.length_cons]; omega
  exact lift_level2 _ _ _ _ (pre ++ render2 (.un op x)) rest 0 j (Nat.zero_le _) hE
    (fun env' r => at_upd hAt r env') h0

theorem A2_un (n : Nat) (op : UnOp) (x : Expr2 F) : AStmt2 n (.un op x) := by
  intro f σ env pre rest _ _ he
  simp [Expr2.prec] at he

theorem A2_bin (n : Nat) (op : BinOp) (l r : Expr2 F) : AStmt2 n (.bin op l r) := by
  intro f σ env pre rest _ _ he
  have := prec_op_bounds op
  simp only [Expr2.prec] at he
  omega


/-! ### ABS / INT / RND -/

/-- the argument of a numeric built-in -/
def numArg : Except Err (Value F × WEnv F) → Except Err (F × WEnv F)
  | .error e => .error e
  | .ok (.str _, _) => .error .typeMismatch
  | .ok (.num y, env1) => .ok (y, env1)

/-- `numberFunctionArg` on `( render2 x )` -/
theorem numberFunctionArg_eq2 (n : Nat) (x : Expr2 F) (hx : PStmt2 n x) (f : Nat) (σ : St F) (env : WEnv F)
    (pre rest : List (Token F))
    (hd : depth2 env.fns n x + 1 ≤ f) (hn : σ.nesting + (depth2 env.fns n x + 1) ≤ Extracted.nestingLimit)
    (hAt : At σ pre (.kw .LeftParen :: (render2 x ++ (.kw .RightParen :: rest)))) (hR : Rel n σ env)
    (hres : Resolved env.fns x) :
    Agrees2 (numberFunctionArg (evalN f) σ) (numArg (fold3 n env x)) σ
      (fun y env' r => .ok y (upd σ ((render2 x).length + 2) r env')) := by
  have hAt1 := at_mv1 hAt (σ.reads + 1)
  have hX := expr_eq2 n x hx f (mv σ 1 (σ.reads + 1)) env _ _ hd hn (ends_rparen 6 rest) hAt1 (hR.mv _ _) hres
  unfold numberFunctionArg
  rw [bind_ok (expect_eq hAt rfl)]
  cases hev : fold3 n env x with
  | error e =>
    rw [hev] at hX
    obtain ⟨te, σ', hσ', hx', hk⟩ := hX
    exact ⟨te, σ', bind_err hσ', hx', hk⟩
  | ok p =>
    obtain ⟨v, env1⟩ := p
    rw [hev] at hX
    obtain ⟨r, hr, hσ'⟩ := hX
    simp only [mv_reads, upd_mv] at hr hσ'
    cases v with
    | str s => exact ⟨{ err := .typeMismatch }, upd σ (1 + (render2 x).length) r env1, by rw [bind_ok hσ']; rfl, rfl, rfl, rfl, rfl, Or.inl rfl⟩
    | num y =>
      refine ⟨r + 1, by omega, ?_⟩
      rw [bind_ok hσ']
      have hAt2 : At (upd σ (1 + (render2 x).length) r env1) ((pre ++ [.kw .LeftParen]) ++ render2 x)
          (.kw .RightParen :: rest) := by
        have := at_upd hAt1 r env1
        rwa [upd_mv] at this
      simp only
      rw [bind_ok (expect_eq hAt2 rfl), mv_upd]
      simp only [upd_reads, pure_eq]
      congr 1
      apply upd_congr
      omega

theorem numArg_step {n : Nat} {env : WEnv F} {x : Expr2 F} {y : F} {env1 : WEnv F}
    (h : numArg (fold3 n env x) = .ok (y, env1)) : Step env env1 := by
  cases hev : fold3 n env x with
  | error e => rw [hev] at h; cases h
  | ok p =>
    obtain ⟨v, e1⟩ := p
    rw [hev] at h
    cases v with
    | str s => cases h
    | num z => cases h; exact fold3_step n x env _ _ hev

/-- a built-in `sym(x)`: the argument, then `K` -/
theorem A2_builtin (n : Nat) (sym : Str) (K : F → M F (Option (Value F)))
    (post : WEnv F → F → Except Err (Value F × WEnv F))
    (hfc : ∀ ev : Evals F, functionCall ev sym = (numberFunctionArg ev >>= K))
    (hK : ∀ (y : F) (σ' : St F) (env1 : WEnv F), Rel n σ' env1 →
      match post env1 y with
      | .ok q => K y σ' = .ok (some q.1) (upd σ' 0 σ'.reads q.2)
      | .error e => K y σ' = .err { err := e } σ')
    (e x : Expr2 F) (hx : PStmt2 n x)
    (hrender : render2 e = .symbol sym :: .kw .LeftParen :: (render2 x ++ [.kw .RightParen]))
    (hfold : ∀ env, fold3 n env e = match numArg (fold3 n env x) with
        | .error err => .error err
        | .ok q => post q.2 q.1)
    (hdepth : ∀ fns, depth2 fns n e = depth2 fns n x + 1)
    (hresx : ∀ fns, Resolved fns e → Resolved fns x) : AStmt2 n e := by
  intro f σ env pre rest hd hn _ _ hAt hR hres
  rw [hrender] at hAt ⊢
  have hAt : At σ pre (.symbol sym :: .kw .LeftParen :: (render2 x ++ (.kw .RightParen :: rest))) := by
    simpa only [List.cons_append, List.append_assoc, List.nil_append] using hAt
  rw [hdepth] at hd hn
  have hAt1 := at_mv1 hAt (σ.reads + 1 + 1)
  have hAt2 := at_mv0 hAt1 (σ.reads + 1 + 1 + 1)
  rw [mv_mv, Nat.add_zero] at hAt2
  have hN := numberFunctionArg_eq2 n x hx f (mv σ 1 (σ.reads + 1 + 1 + 1)) env _ _ hd hn hAt2 (hR.mv _ _)
    (hresx _ hres)
  unfold parenExpr
  rw [bind_ok (accept_false hAt rfl)]
  simp only [Bool.false_eq_true, ↓reduceIte]
  unfold term
  rw [bind_ok (nextUnwrapped_eq (at_mv0 hAt _)), mv_mv]
  simp only [mv_reads, Nat.zero_add]
  rw [bind_ok (peekIsKw_cons .LeftParen hAt1), mv_mv]
  simp only [mv_reads, Nat.add_zero]
  have hk : (Token.kw (F := F) Kw.LeftParen).isKw Kw.LeftParen = true := rfl
  simp only [hk, ↓reduceIte]
  rw [hfc, hfold]
  cases hev : numArg (fold3 n env x) with
  | error err =>
    rw [hev] at hN
    obtain ⟨te, σ', hσ', hx', hk'⟩ := hN
    exact ⟨te, σ', bind_err (bind_err hσ'), hx', hk'⟩
  | ok q =>
    obtain ⟨y, env1⟩ := q
    rw [hev] at hN
    obtain ⟨r, hr, hσ'⟩ := hN
    simp only [mv_reads, upd_mv] at hr hσ'
    have hR1 : Rel n (upd σ (1 + ((render2 x).length + 2)) r env1) env1 := hR.upd (numArg_step hev) _ _
    have hKy := hK y _ env1 hR1
    simp only
    cases hp : post env1 y with
    | error err =>
      rw [hp] at hKy
      simp only at hKy
      exact ⟨{ err := err }, upd σ (1 + ((render2 x).length + 2)) r env1,
        bind_err (by rw [bind_ok hσ']; exact hKy), rfl, rfl, rfl, rfl, Or.inl rfl⟩
    | ok q =>
      rw [hp] at hKy
      simp only [upd_reads, upd_upd] at hKy
      refine ⟨r, by omega, ?_⟩
      have h1 : (numberFunctionArg (evalN f) >>= K) (mv σ 1 (σ.reads + 1 + 1 + 1))
          = .ok (some q.1) (upd σ (1 + ((render2 x).length + 2) + 0) r q.2) := by
        rw [bind_ok hσ']; exact hKy
      rw [bind_ok h1]
      show Res.ok _ _ = Res.ok _ _
      congr 1
      apply upd_congr
      simp only [List.length_cons, List.length_append, List.length_nil]
      omega

theorem upd_zero_self {n : Nat} {σ : St F} {env : WEnv F} (h : Rel n σ env) : upd σ 0 σ.reads env = σ := by
  rw [upd_of_rel h]; rfl

theorem A2_abs (n : Nat) (x : Expr2 F) (hx : PStmt2 n x) : AStmt2 n (.abs x) := by
  refine A2_builtin n Extracted.builtinAbs.toList (fun y => pure (some (Value.num (NumOps.abs y))))
    (fun env1 y => .ok (.num (NumOps.abs y), env1)) ?_ ?_ _ x hx (render2_abs x) ?_ (fun fns => depth2_abs fns n x)
    (fun fns h => by simpa only [Resolved] using h)
  · intro ev
    unfold functionCall
    simp only [beq_self_eq_true, ↓reduceIte]
  · intro y σ' env1 hR1
    simp only [upd_zero_self hR1]
    rfl
  · intro env
    rw [fold3]
    cases fold3 n env x with
    | error e => rfl
    | ok p => obtain ⟨v, e1⟩ := p; cases v <;> rfl

theorem A2_int (n : Nat) (x : Expr2 F) (hx : PStmt2 n x) : AStmt2 n (.int x) := by
  refine A2_builtin n Extracted.builtinInt.toList (fun y => pure (some (Value.num (NumOps.floor y))))
    (fun env1 y => .ok (.num (NumOps.floor y), env1)) ?_ ?_ _ x hx (render2_int x) ?_ (fun fns => depth2_int fns n x)
    (fun fns h => by simpa only [Resolved] using h)
  · intro ev
    unfold functionCall
    have hne : (Extracted.builtinInt.toList == Extracted.builtinAbs.toList) = false := by decide
    simp only [hne, Bool.false_eq_true, beq_self_eq_true, ↓reduceIte]
  · intro y σ' env1 hR1
    simp only [upd_zero_self hR1]
    rfl
  · intro env
    rw [fold3]
    cases fold3 n env x with
    | error e => rfl
    | ok p => obtain ⟨v, e1⟩ := p; cases v <;> rfl

theorem rnd_pos (x : F) (s : St F) (hs : s.rng < Extracted.rngModulus)
    (hneg : NumOps.lt x NumOps.zero = false) (hz : NumOps.eq x NumOps.zero = false) :
    rnd x s = .ok (rngValue (rngStep s.rng)) { s with rng := rngStep s.rng } := by
  have hs' : s.rng < 2 ^ 33 := Props.C18.constants.1 ▸ hs
  rw [Props.C18.rnd_positive x s hs' hneg hz, ← Props.C18.step_is_lcg]

theorem upd_rng_eq {n : Nat} {σ : St F} {env : WEnv F} (h : Rel n σ env) (s : Nat) :
    upd σ 0 σ.reads { env with rng := s } = { σ with rng := s } := by
  simp only [upd, ← h.arrays, ← h.out, Nat.add_zero]

theorem A2_rnd (n : Nat) (x : Expr2 F) (hx : PStmt2 n x) : AStmt2 n (.rnd x) := by
  refine A2_builtin n Extracted.builtinRnd.toList (fun y => do let r ← rnd y; pure (some (Value.num r)))
    (fun env1 y => rndStep3 env1 y) ?_ ?_ _ x hx (render2_rnd x) ?_ (fun fns => depth2_rnd fns n x)
    (fun fns h => by simpa only [Resolved] using h)
  · intro ev
    unfold functionCall
    have hne1 : (Extracted.builtinRnd.toList == Extracted.builtinAbs.toList) = false := by decide
    have hne2 : (Extracted.builtinRnd.toList == Extracted.builtinInt.toList) = false := by decide
    simp only [hne1, hne2, Bool.false_eq_true, beq_self_eq_true, ↓reduceIte]
  · intro y σ' env1 hR1
    cases hneg : NumOps.lt y (NumOps.zero : F) with
    | true =>
      rw [rndStep3_neg env1 y hneg]
      simp only
      rw [bind_err (Props.C18.rnd_negative y σ' hneg)]
    | false =>
      cases hz : NumOps.eq y (NumOps.zero : F) with
      | true =>
        rw [rndStep3_zero env1 y hneg hz]
        simp only
        rw [bind_ok (Props.C18.rnd_zero y σ' hneg hz), upd_zero_self hR1, hR1.rng]
        rfl
      | false =>
        rw [rndStep3_pos env1 y hneg hz]
        simp only
        rw [bind_ok (rnd_pos y σ' (by rw [hR1.rng]; exact hR1.rng_ok) hneg hz), hR1.rng]
        generalize rngStep env1.rng = s
        generalize (rngValue s : F) = vv
        rw [upd_rng_eq hR1]
        rfl
  · intro env
    rw [fold3]
    cases fold3 n env x with
    | error e => rfl
    | ok p => obtain ⟨v, e1⟩ := p; cases v <;> rfl


/-! ### lists of subscripts / arguments: preliminaries -/

omit [NumOps F] in
/-- a rendering is not empty and does not begin with `)` -/
theorem render2_head (e : Expr2 F) : ∃ t ts, render2 e = t :: ts ∧ t.isKw .RightParen = false := by
  suffices h : ∀ m (e : Expr2 F), sizeOf e ≤ m → ∃ t ts, render2 e = t :: ts ∧ t.isKw .RightParen = false from
    h _ e (Nat.le_refl _)
  intro m
  induction m with
  | zero => intro e he; cases e <;> simp at he
  | succ m ih =>
    intro e he
    cases e with
    | num x => exact ⟨_, _, render2_num x, rfl⟩
    | str s => exact ⟨_, _, render2_str s, rfl⟩
    | var n => exact ⟨_, _, render2_var n, rfl⟩
    | paren x => exact ⟨_, _, render2_paren x, rfl⟩
    | abs x => exact ⟨_, _, render2_abs x, rfl⟩
    | int x => exact ⟨_, _, render2_int x, rfl⟩
    | rnd x => exact ⟨_, _, render2_rnd x, rfl⟩
    | cell name idx => exact ⟨_, _, render2_cell name idx, rfl⟩
    | call g args => exact ⟨_, _, render2_call g args, rfl⟩
    | un op x => exact ⟨_, _, render2_un op x, by cases op <;> rfl⟩
    | bin op l r =>
      rw [render2_bin]
      have hl : ∃ t ts, render2 (fixP2 (BinOp.prec op) l) = t :: ts ∧ t.isKw .RightParen = false := by
        unfold fixP2; split
        · exact ⟨_, _, render2_paren l, rfl⟩
        · exact ih l (by simp only [Expr2.bin.sizeOf_spec] at he; omega)
      obtain ⟨t, ts, hts, ht⟩ := hl
      exact ⟨t, ts ++ _, by rw [hts]; rfl, ht⟩

omit [NumOps F] in
theorem renderArgs_length (es : List (Expr2 F)) : es.length ≤ (renderArgs es).length := by
  induction es with
  | nil => simp
  | cons e es ih =>
    obtain ⟨t, ts, hts, _⟩ := render2_head e
    cases es with
    | nil => rw [renderArgs_one, hts]; simp
    | cons e' es' =>
      rw [renderArgs_cons, hts]
      simp only [List.length_cons, List.length_append] at ih ⊢
      omega

omit [NumOps F] in
theorem opsAt_comma (i : Nat) : opsAt (F := F) i (.kw .Comma) = none := by
  rcases i with _ | _ | _ | _ | _ | _ | j <;> rfl

omit [NumOps F] in
theorem ends_comma (j : Nat) (rest : List (Token F)) : Ends j (.kw .Comma :: rest) := by
  intro t ht
  simp only [List.head?_cons, Option.some.injEq] at ht
  subst ht
  exact ⟨rfl, fun i _ => opsAt_comma i⟩

/-- `ev.expr` on `)`: UNEXPECTED TOKEN -/
theorem expr_rparen (f : Nat) (σ : St F) (pre rest : List (Token F)) (hf : 1 ≤ f)
    (hn : σ.nesting < Extracted.nestingLimit) (hAt : At σ pre (.kw .RightParen :: rest)) :
    ∃ te σ', (evalN f).expr σ = .err te σ' ∧ te.err = .syntax .unexpectedToken ∧ Keeps σ te σ' := by
  obtain ⟨f', rfl⟩ : ∃ f', f = f' + 1 := ⟨f - 1, by omega⟩
  have htier : ∀ j (τ : St F), At τ pre (.kw .RightParen :: rest) →
      ∃ τ', tier (evalN f') j τ = .err { err := .syntax .unexpectedToken } τ' ∧
        Keeps τ { err := .syntax .unexpectedToken } τ' := by
    intro j
    induction j with
    | zero =>
      intro τ hτ
      refine ⟨mv τ 1 (τ.reads + 1 + 1 + 1), ?_, rfl, rfl, rfl, Or.inl rfl⟩
      show unaryExpr (evalN f') τ = _
      unfold unaryExpr
      rw [bind_ok (tryNext_none hτ (fun t' ht' => by
        simp only [List.head?_cons, Option.some.injEq] at ht'; subst ht'; rfl))]
      have hτ1 := at_mv0 hτ (τ.reads + 1)
      have h2 : parenExpr (evalN f') (mv τ 0 (τ.reads + 1))
          = .err { err := .syntax .unexpectedToken } (mv τ 1 (τ.reads + 1 + 1 + 1)) := by
        unfold parenExpr
        rw [bind_ok (accept_false hτ1 rfl)]
        simp only [Bool.false_eq_true, ↓reduceIte]
        unfold term
        rw [bind_ok (nextUnwrapped_eq (at_mv0 hτ1 _)), mv_mv, mv_mv]
        rfl
      rw [bind_err h2]
    | succ j ih =>
      intro τ hτ
      obtain ⟨τ', h1, hk⟩ := ih τ hτ
      exact ⟨τ', by simp only [tier, level]; rw [bind_err h1], hk⟩
  obtain ⟨τ', h1, hk⟩ := htier 6 (nest σ (σ.nesting + 1)) (at_nest hAt _)
  exact ⟨_, nest τ' σ.nesting, nested_err (m := tier (evalN f') 6) hn h1 hk.1, rfl, rfl, hk.2.1, hk.2.2⟩


/-! ### subscripts -/

theorem depthArgs_cons (fns : List (Str × FnDefSpec F)) (n : Nat) (e : Expr2 F) (es : List (Expr2 F)) :
    depthArgs fns n (e :: es) = max (depth2 fns n e + 1) (depthArgs fns n es) := by rw [depthArgs]

theorem depthArgs_pos (fns : List (Str × FnDefSpec F)) (n : Nat) (es : List (Expr2 F)) :
    1 ≤ depthArgs fns n es := by
  cases es with
  | nil => rw [depthArgs]; exact Nat.le_refl _
  | cons e es => rw [depthArgs_cons]; omega

/-- `arrayIndexLoop` on `e₁ , … , eₖ )` -/
theorem idx_loop (n : Nat) : ∀ (es : List (Expr2 F)), es ≠ [] → (∀ x ∈ es, PStmt2 n x) →
    ∀ (f b : Nat) (acc : List Nat) (σ : St F) (env : WEnv F) (pre rest : List (Token F)),
    depthArgs env.fns n es ≤ f → σ.nesting + depthArgs env.fns n es ≤ Extracted.nestingLimit →
    es.length ≤ b → At σ pre (renderArgs es ++ (.kw .RightParen :: rest)) → Rel n σ env →
    ResolvedL env.fns es →
    Agrees2 (arrayIndexLoop (evalN f) b acc σ) (foldIdx3 n env es) σ
      (fun is env' r => .ok (acc ++ is) (upd σ (renderArgs es).length r env')) := by
  intro es
  induction es with
  | nil => intro h; exact absurd rfl h
  | cons x es ih =>
    intro _ hP f b acc σ env pre rest hd hn hb hAt hR hres
    obtain ⟨b', rfl⟩ : ∃ b', b = b' + 1 := ⟨b - 1, by simp only [List.length_cons] at hb; omega⟩
    rw [depthArgs_cons] at hd hn
    simp only [ResolvedL] at hres
    have hPx := hP x (List.mem_cons_self ..)
    rw [foldIdx3, arrayIndexLoop]
    cases es with
    | nil =>
      rw [renderArgs_one] at hAt ⊢
      have hX := expr_eq2 n x hPx f σ env pre _ (by omega) (by omega) (ends_rparen 6 rest) hAt hR hres.1
      cases hev : fold3 n env x with
      | error e =>
        rw [hev] at hX
        obtain ⟨te, σ', hσ', hx', hk⟩ := hX
        exact ⟨te, σ', bind_err hσ', hx', hk⟩
      | ok p =>
        obtain ⟨v, env1⟩ := p
        rw [hev] at hX
        obtain ⟨r, hr, hσ'⟩ := hX
        simp only at hσ'
        rw [bind_ok hσ']
        cases v with
        | str s => exact ⟨{ err := .typeMismatch }, _, rfl, rfl, rfl, rfl, rfl, Or.inl rfl⟩
        | num z =>
          simp only [subscript]
          by_cases hneg : NumOps.toI64 z < 0
          · simp only [hneg, ↓reduceIte]
            exact ⟨{ err := .illegalQuantity }, _, rfl, rfl, rfl, rfl, rfl, Or.inl rfl⟩
          · simp only [hneg, ↓reduceIte]
            refine ⟨r + 1, by omega, ?_⟩
            have hAt1 : At (upd σ (render2 x).length r env1) (pre ++ render2 x) (.kw .RightParen :: rest) :=
              at_upd hAt r env1
            rw [bind_ok (accept_false hAt1 rfl), mv_upd]
            simp only [Bool.false_eq_true, ↓reduceIte, upd_reads, pure_eq, Nat.add_zero]
    | cons y ys =>
      rw [renderArgs_cons] at hAt ⊢
      have hAt : At σ pre (render2 x ++ (.kw .Comma :: (renderArgs (y :: ys) ++ (.kw .RightParen :: rest)))) := by
        simpa only [List.append_assoc, List.cons_append] using hAt
      have hX := expr_eq2 n x hPx f σ env pre _ (by omega) (by omega) (ends_comma 6 _) hAt hR hres.1
      cases hev : fold3 n env x with
      | error e =>
        rw [hev] at hX
        obtain ⟨te, σ', hσ', hx', hk⟩ := hX
        exact ⟨te, σ', bind_err hσ', hx', hk⟩
      | ok p =>
        obtain ⟨v, env1⟩ := p
        rw [hev] at hX
        obtain ⟨r, hr, hσ'⟩ := hX
        simp only at hσ'
        rw [bind_ok hσ']
        have hs1 : Step env env1 := fold3_step n x env env1 v hev
        cases v with
        | str s => exact ⟨{ err := .typeMismatch }, _, rfl, rfl, rfl, rfl, rfl, Or.inl rfl⟩
        | num z =>
          simp only [subscript]
          by_cases hneg : NumOps.toI64 z < 0
          · simp only [hneg, ↓reduceIte]
            exact ⟨{ err := .illegalQuantity }, _, rfl, rfl, rfl, rfl, rfl, Or.inl rfl⟩
          · simp only [hneg, ↓reduceIte]
            have hAt1 : At (upd σ (render2 x).length r env1) (pre ++ render2 x)
                (.kw .Comma :: (renderArgs (y :: ys) ++ (.kw .RightParen :: rest))) := at_upd hAt r env1
            have hAt2 := at_mv1 hAt1 (r + 1)
            rw [mv_upd] at hAt2
            rw [bind_ok (accept_true hAt1 rfl), mv_upd]
            simp only [↓reduceIte, upd_reads]
            have hI := ih (by simp) (fun z hz => hP z (List.mem_cons_of_mem _ hz)) f b'
              (acc ++ [(NumOps.toI64 z).toNat]) (upd σ ((render2 x).length + 1) (r + 1) env1) env1 _ rest
              (by rw [hs1.fns]; omega) (by rw [hs1.fns]; simp only [upd_nesting]; omega)
              (by simp only [List.length_cons] at hb ⊢; omega) hAt2 (hR.upd hs1 _ _)
              (by rw [hs1.fns]; exact hres.2)
            cases h2 : foldIdx3 n env1 (y :: ys) with
            | error e =>
              rw [h2] at hI
              obtain ⟨te, σ', hσ2, hx', hk⟩ := hI
              exact ⟨te, σ', hσ2, hx', hk⟩
            | ok q =>
              obtain ⟨is, env2⟩ := q
              rw [h2] at hI
              obtain ⟨r2, hr2, hσ2⟩ := hI
              simp only [upd_reads, upd_upd] at hr2 hσ2
              refine ⟨r2, by omega, ?_⟩
              rw [hσ2]
              simp only [List.append_assoc, List.cons_append, List.nil_append]
              congr 1
              apply upd_congr
              simp only [List.length_append, List.length_cons]
              omega


/-! ### reading a cell -/

/-- the part of `arrayGet` after the array has been found -/
def cellM (a : ArrayV F) (index : List Nat) : M F (Value F) :=
  match linearIndex index a.dims with
  | .error e => fail e
  | .ok i =>
    match a with
    | .strs _ cells =>
      (match cells[i]? with
       | some v => pure (.str v)
       | none => rpanic "arrays: index out of bounds")
    | .nums _ cells =>
      (match cells[i]? with
       | some v => pure (.num v)
       | none => rpanic "arrays: index out of bounds")

theorem arrayGet_def (name : Str) (index : List Nat) :
    arrayGet (F := F) name index = (do
      ensureArray name index.length
      let s ← get
      match alGet name s.arrays with
      | none => rpanic "arrays: unwrap on None"
      | some a => cellM a index) := rfl

theorem cellM_eq (a : ArrayV F) (is : List Nat) (hlen : a.cellCount = Props.C16.prod a.dims) (s : St F) :
    cellM a is s = match readAt a is with
      | .ok v => .ok v s
      | .error e => .err { err := e } s := by
  unfold cellM readAt
  cases hl : linearIndex is a.dims with
  | error e => rfl
  | ok i =>
    have hb := WF.linearIndex_bound _ _ _ hl
    cases a with
    | strs d cells =>
      have hi : i < cells.length := by
        simp only [ArrayV.cellCount, ArrayV.dims] at hlen hb; omega
      simp only [List.getElem?_eq_getElem hi, List.getD_eq_getElem?_getD, Option.getD_some]
      rfl
    | nums d cells =>
      have hi : i < cells.length := by
        simp only [ArrayV.cellCount, ArrayV.dims] at hlen hb; omega
      simp only [List.getElem?_eq_getElem hi, List.getD_eq_getElem?_getD, Option.getD_some]
      rfl

/-- `arrayGet` computes `readCell` -/
theorem arrayGet_eq (n : Nat) (name : Str) (is : List Nat) (σ : St F) (env : WEnv F) (hR : Rel n σ env) :
    match readCell env.toRefEnv name is with
    | .ok q => arrayGet name is σ = .ok q.1 (upd σ 0 σ.reads { env with toRefEnv := q.2 })
    | .error e => ∃ σ', arrayGet name is σ = .err { err := e } σ' ∧ Keeps σ { err := e } σ' := by
  unfold readCell
  rw [arrayGet_def]
  cases hg : alGet name env.arrays with
  | some a =>
    have hhas : alHas name σ.arrays = true := by unfold alHas; rw [hR.arrays, hg]; rfl
    have h1 : ensureArray name is.length σ = .ok () σ := by
      simp only [ensureArray, bind, M.bindM, M.get, hhas, ↓reduceIte]; rfl
    have hg' : alGet name σ.arrays = some a := by rw [hR.arrays]; exact hg
    rw [bind_ok h1]
    simp only [bind, M.bindM, M.get, hg']
    rw [cellM_eq a is (hR.arrs_ok name a hg)]
    cases readAt a is with
    | error e => exact ⟨σ, rfl, Keeps.refl _ _⟩
    | ok v => simp only [upd_zero_self hR]
  | none =>
    have hhas : alHas name σ.arrays = false := by unfold alHas; rw [hR.arrays, hg]; rfl
    cases hc : ArrayV.create (F := F) name (List.replicate is.length Extracted.defaultArraySize) with
    | error e =>
      refine ⟨σ, ?_, Keeps.refl _ _⟩
      have h1 : ensureArray name is.length σ = .err { err := e } σ := by
        simp only [ensureArray, bind, M.bindM, M.get, hhas, Bool.false_eq_true, ↓reduceIte, hc]; rfl
      rw [bind_err h1]
    | ok a =>
      have h1 : ensureArray name is.length σ = .ok () { σ with arrays := alSet name a σ.arrays } := by
        simp only [ensureArray, bind, M.bindM, M.get, hhas, Bool.false_eq_true, ↓reduceIte, hc]; rfl
      rw [bind_ok h1]
      simp only [bind, M.bindM, M.get, Proofs.XF.alGet_alSet_self]
      rw [cellM_eq a is (Props.C16.create_arrOk _ _ _ hc).cells_len]
      cases readAt a is with
      | error e => exact ⟨_, rfl, rfl, rfl, rfl, Or.inl rfl⟩
      | ok v =>
        simp only
        congr 1
        simp only [upd, ← hR.arrays, ← hR.rng, ← hR.out, Nat.add_zero]

theorem functionCall_unreserved (ev : Evals F) (name : Str) (h : reserved name = false) :
    functionCall ev name = userFunctionCall ev name := by
  unfold reserved at h
  simp only [Bool.or_eq_false_iff] at h
  unfold functionCall
  simp only [h.1.1, h.1.2, h.2, Bool.false_eq_true, ↓reduceIte]

theorem step_warnArr (env : WEnv F) (name : Str) : Step env (warnArr env name) := by
  unfold warnArr
  split
  · exact ⟨rfl, rfl, rfl, id, id, rfl, rfl, rfl⟩
  · exact Step.refl _

theorem warnUndeclaredArray_eq (n : Nat) (name : Str) (σ : St F) (env : WEnv F) (hR : Rel n σ env) :
    warnUndeclaredArray name σ = .ok () (upd σ 0 σ.reads (warnArr env name)) := by
  unfold warnArr
  simp only [warnUndeclaredArray, bind, M.bindM, M.get, hR.warn, hR.arrays]
  cases hc : (env.warn && !alHas name env.arrays) with
  | false =>
    simp only [Bool.false_eq_true, ↓reduceIte]
    rw [upd_zero_self hR]
    rfl
  | true =>
    simp only [↓reduceIte]
    have hwarn : env.warn = true := by
      cases hx : env.warn
      · rw [hx] at hc; cases hc
      · rfl
    exact warn_state hR (undeclArrMsg name) 0 σ.reads hwarn

/-- `arrayIndex` on `( e₁ , … , eₖ )` -/
theorem arrayIndex_agree (n : Nat) (idx : List (Expr2 F)) (hP : ∀ x ∈ idx, PStmt2 n x)
    (f : Nat) (σ : St F) (env : WEnv F) (pre rest : List (Token F))
    (hd : depthArgs env.fns n idx ≤ f) (hn : σ.nesting + depthArgs env.fns n idx ≤ Extracted.nestingLimit)
    (hAt : At σ pre (.kw .LeftParen :: (renderArgs idx ++ (.kw .RightParen :: rest))))
    (hR : Rel n σ env) (hres : ResolvedL env.fns idx) :
    Agrees2 (arrayIndex (evalN f) σ) (foldIdx3 n env idx) σ
      (fun is env' r => .ok is (upd σ ((renderArgs idx).length + 2) r env')) := by
  have hAt3 := at_mv1 hAt (σ.reads + 1)
  unfold arrayIndex
  rw [bind_ok (expect_eq hAt rfl), bind_ok (lineBudget_eq hAt3.1)]
  cases idx with
  | nil =>
    rw [foldIdx3]
    rw [renderArgs_nil] at hAt3
    obtain ⟨te, σ', hσ', hx', hk'⟩ := expr_rparen f (mv σ 1 (σ.reads + 1)) _ rest
      (by have := depthArgs_pos env.fns n ([] : List (Expr2 F)); omega)
      (by have := depthArgs_pos env.fns n ([] : List (Expr2 F)); simp only [mv_nesting]; unfold Extracted.nestingLimit at *; omega)
      hAt3
    refine ⟨te, σ', ?_, hx', hk'⟩
    rw [arrayIndexLoop]
    exact bind_err (bind_err hσ')
  | cons x xs =>
    have hb : (x :: xs).length ≤ ((pre ++ [Token.kw Kw.LeftParen]) ++
        (renderArgs (x :: xs) ++ Token.kw Kw.RightParen :: rest)).length + 1 := by
      have := renderArgs_length (x :: xs)
      simp only [List.length_append] at this ⊢
      omega
    have hL := idx_loop n (x :: xs) (by simp) hP f _ [] (mv σ 1 (σ.reads + 1)) env _ rest
      hd (by simpa only [mv_nesting] using hn) hb hAt3 (hR.mv _ _) hres
    cases hev : foldIdx3 n env (x :: xs) with
    | error e =>
      rw [hev] at hL
      obtain ⟨te, σ', hσ', hx', hk'⟩ := hL
      exact ⟨te, σ', bind_err hσ', hx', hk'⟩
    | ok q =>
      obtain ⟨is, env1⟩ := q
      rw [hev] at hL
      obtain ⟨r, hr, hσ'⟩ := hL
      simp only [mv_reads, upd_mv, List.nil_append] at hr hσ'
      rw [bind_ok hσ']
      have hAt4 : At (upd σ (1 + (renderArgs (x :: xs)).length) r env1)
          ((pre ++ [Token.kw Kw.LeftParen]) ++ renderArgs (x :: xs))
          (.kw .RightParen :: rest) := by
        have := at_upd hAt3 r env1
        rwa [upd_mv] at this
      rw [bind_ok (expect_eq hAt4 rfl), mv_upd]
      refine ⟨r + 1, by omega, ?_⟩
      simp only [upd_reads, pure_eq]
      congr 1
      apply upd_congr
      omega

/-- `name ( e₁ , … , eₖ )` where `name` is neither a built-in nor a defined function -/
theorem cell_core (n : Nat) (name : Str) (idx : List (Expr2 F)) (hP : ∀ x ∈ idx, PStmt2 n x)
    (f : Nat) (σ : St F) (env : WEnv F) (pre rest : List (Token F))
    (hd : depthArgs env.fns n idx ≤ f) (hn : σ.nesting + depthArgs env.fns n idx ≤ Extracted.nestingLimit)
    (hAt : At σ pre (.symbol name :: .kw .LeftParen :: (renderArgs idx ++ (.kw .RightParen :: rest))))
    (hR : Rel n σ env) (hrv : reserved name = false) (hnf : alGet name env.fns = none)
    (hres : ResolvedL env.fns idx) :
    Agrees2 (parenExpr (evalN f) σ)
      (match foldIdx3 n env idx with
       | .error e => .error e
       | .ok q => readCell3 q.2 name q.1) σ
      (fun v env' r => .ok v (upd σ ((renderArgs idx).length + 3) r env')) := by
  have hAt1 := at_mv1 hAt (σ.reads + 1 + 1)
  have hAt2 := at_mv0 hAt1 (σ.reads + 1 + 1 + 1)
  rw [mv_mv, Nat.add_zero] at hAt2
  unfold parenExpr
  rw [bind_ok (accept_false hAt rfl)]
  simp only [Bool.false_eq_true, ↓reduceIte]
  unfold term
  rw [bind_ok (nextUnwrapped_eq (at_mv0 hAt _)), mv_mv]
  simp only [mv_reads, Nat.zero_add]
  rw [bind_ok (peekIsKw_cons .LeftParen hAt1), mv_mv]
  simp only [mv_reads, Nat.add_zero]
  have hk : (Token.kw (F := F) Kw.LeftParen).isKw Kw.LeftParen = true := rfl
  simp only [hk, ↓reduceIte]
  have hfc : functionCall (evalN f) name (mv σ 1 (σ.reads + 1 + 1 + 1))
      = .ok none (mv σ 1 (σ.reads + 1 + 1 + 1)) := by
    rw [functionCall_unreserved _ _ hrv]
    simp only [userFunctionCall, bind, M.bindM, M.get, mv, hR.fns.undef name hnf]
    rfl
  rw [bind_ok hfc]
  simp only
  have hL := arrayIndex_agree n idx hP f (mv σ 1 (σ.reads + 1 + 1 + 1)) env _ rest hd
    (by simpa only [mv_nesting] using hn) hAt2 (hR.mv _ _) hres
  cases hev : foldIdx3 n env idx with
  | error e =>
    rw [hev] at hL
    obtain ⟨te, σ', hσ', hx', hk'⟩ := hL
    exact ⟨te, σ', bind_err hσ', hx', hk'⟩
  | ok q =>
    obtain ⟨is, env1⟩ := q
    rw [hev] at hL
    obtain ⟨r, hr, hσ'⟩ := hL
    simp only [mv_reads, upd_mv] at hr hσ'
    rw [bind_ok hσ']
    have hs1 : Step env env1 := foldIdx3_step n _ env env1 is hev
    have hR1 : Rel n (upd σ (1 + ((renderArgs idx).length + 2)) r env1) env1 := hR.upd hs1 _ _
    rw [bind_ok (warnUndeclaredArray_eq n name _ env1 hR1)]
    simp only [upd_reads, upd_upd]
    have hR2 : Rel n (upd σ (1 + ((renderArgs idx).length + 2) + 0) r (warnArr env1 name)) (warnArr env1 name) :=
      hR.upd (hs1.trans (step_warnArr env1 name)) _ _
    have hG := arrayGet_eq n name is _ _ hR2
    unfold readCell3
    cases hrc : readCell (warnArr env1 name).toRefEnv name is with
    | error e =>
      rw [hrc] at hG
      obtain ⟨σ', hσ2, hk'⟩ := hG
      exact ⟨_, σ', hσ2, rfl, hk'⟩
    | ok q =>
      rw [hrc] at hG
      simp only [upd_reads, upd_upd] at hG
      refine ⟨r, by omega, ?_⟩
      rw [hG]
      obtain ⟨v', r'⟩ := q
      show Res.ok _ _ = Res.ok _ _
      congr 1
      apply upd_congr
      omega


theorem depth2_cell (fns : List (Str × FnDefSpec F)) (n : Nat) (name : Str) (idx : List (Expr2 F)) :
    depth2 fns n (.cell name idx) = depthArgs fns n idx := by rw [depth2]

omit [NumOps F] in
theorem length_call_tokens (t1 t2 t3 : Token F) (l : List (Token F)) :
    (t1 :: t2 :: (l ++ [t3])).length = l.length + 3 := by
  simp only [List.length_cons, List.length_append, List.length_nil]

theorem A2_cell (n : Nat) (name : Str) (idx : List (Expr2 F)) (hP : ∀ x ∈ idx, PStmt2 n x) :
    AStmt2 n (.cell name idx) := by
  intro f σ env pre rest hd hn _ _ hAt hR hres
  rw [render2_cell] at hAt ⊢
  rw [depth2_cell] at hd hn
  simp only [Resolved] at hres
  have hAt' : At σ pre (.symbol name :: .kw .LeftParen :: (renderArgs idx ++ (.kw .RightParen :: rest))) := by
    simpa only [List.cons_append, List.append_assoc, List.nil_append] using hAt
  have h := cell_core n name idx hP f σ env pre rest hd hn hAt' hR hres.1 hres.2.1 hres.2.2
  rw [fold3, length_call_tokens]
  cases hev : foldIdx3 n env idx with
  | error e => rw [hev] at h; exact h
  | ok q => obtain ⟨is, env1⟩ := q; rw [hev] at h; exact h

/-! ### arguments -/

omit [NumOps F] in
theorem bind_assoc' {α β γ : Type} (m : M F α) (g : α → M F β) (h : β → M F γ) :
    (m >>= g) >>= h = m >>= fun a => g a >>= h := by
  funext σ
  simp only [bind, M.bindM]
  cases m σ <;> rfl

omit [NumOps F] in
theorem expect_fail {σ : St F} {pre post : List (Token F)} {t : Token F} {k : Kw}
    (h : At σ pre (t :: post)) (hk : t.isKw k = false) :
    expect k σ = .err { err := .syntax (.expectedToken k) } (mv σ 1 (σ.reads + 1)) := by
  unfold expect
  rw [bind_ok (nextUnwrapped_eq h)]
  simp only [hk, Bool.false_eq_true, ↓reduceIte]
  rfl

omit [NumOps F] in
theorem alSet_cons {β : Type} (k : Str) (v : β) (l : List (Str × β)) : ∃ x xs, alSet k v l = x :: xs := by
  cases l with
  | nil => exact ⟨_, _, rfl⟩
  | cons p ps =>
    obtain ⟨k', v'⟩ := p
    simp only [alSet]
    split
    · exact ⟨_, _, rfl⟩
    · exact ⟨_, _, rfl⟩

/-- `bindArgs` (followed by the closing parenthesis and any continuation `K`) on
    `a₁ , … , aₖ )`, with at least one parameter left and at least one argument -/
theorem bind_loop {α : Type} (n : Nat) (K : List (Str × Value F) → M F α) :
    ∀ (as : List (Expr2 F)), as ≠ [] → (∀ x ∈ as, PStmt2 n x) →
    ∀ (ps : List Str), ps ≠ [] →
    ∀ (f arity i : Nat) (acc : List (Str × Value F)) (σ : St F) (env : WEnv F) (pre rest : List (Token F)),
    arity = i + ps.length →
    depthArgs env.fns n as ≤ f → σ.nesting + depthArgs env.fns n as ≤ Extracted.nestingLimit →
    At σ pre (renderArgs as ++ (.kw .RightParen :: rest)) → Rel n σ env → ResolvedL env.fns as →
    Agrees2 ((bindArgs (evalN f) arity ps i acc >>= fun b => expect .RightParen >>= fun _ => K b) σ)
      (bindArgs3 n env ps as acc) σ
      (fun b env' r => K b (upd σ ((renderArgs as).length + 1) r env')) := by
  intro as
  induction as with
  | nil => intro h; exact absurd rfl h
  | cons a as ih =>
    intro _ hP ps hps f arity i acc σ env pre rest har hd hn hAt hR hres
    obtain ⟨p, ps', rfl⟩ : ∃ p ps', ps = p :: ps' := by
      cases ps with
      | nil => exact absurd rfl hps
      | cons p ps' => exact ⟨p, ps', rfl⟩
    rw [depthArgs_cons] at hd hn
    simp only [ResolvedL] at hres
    have hPa := hP a (List.mem_cons_self ..)
    rw [bindArgs3, bindArgs, bind_assoc']
    cases as with
    | nil =>
      rw [renderArgs_one] at hAt ⊢
      have hX := expr_eq2 n a hPa f σ env pre _ (by omega) (by omega) (ends_rparen 6 rest) hAt hR hres.1
      cases hev : fold3 n env a with
      | error e =>
        rw [hev] at hX
        obtain ⟨te, σ', hσ', hx', hk⟩ := hX
        exact ⟨te, σ', bind_err hσ', hx', hk⟩
      | ok q =>
        obtain ⟨v, env1⟩ := q
        rw [hev] at hX
        obtain ⟨r, hr, hσ'⟩ := hX
        simp only at hσ'
        rw [bind_ok hσ']
        have hAt1 : At (upd σ (render2 a).length r env1) (pre ++ render2 a) (.kw .RightParen :: rest) :=
          at_upd hAt r env1
        cases hm : v.matchesName p with
        | false =>
          simp only [hm, Bool.not_false, ↓reduceIte, Bool.false_eq_true]
          exact ⟨{ err := .typeMismatch }, _, rfl, rfl, rfl, rfl, rfl, Or.inl rfl⟩
        | true =>
          simp only [hm, Bool.not_true, Bool.false_eq_true, ↓reduceIte]
          cases ps' with
          | nil =>
            have hlt : ¬ (i + 1 < arity) := by simp only [List.length_cons, List.length_nil] at har; omega
            simp only [hlt, ↓reduceIte]
            rw [bindArgs3]
            refine ⟨r + 1, by omega, ?_⟩
            rw [bindArgs]
            have h2 : (pure (alSet p v acc) : M F _) (upd σ (render2 a).length r env1)
                = .ok (alSet p v acc) (upd σ (render2 a).length r env1) := rfl
            rw [bind_ok h2, bind_ok (expect_eq hAt1 rfl), mv_upd]
            rfl
          | cons p' ps'' =>
            have hlt : i + 1 < arity := by simp only [List.length_cons] at har; omega
            simp only [hlt, ↓reduceIte]
            rw [bind_assoc']
            obtain ⟨y, ys, hys⟩ := alSet_cons p v acc
            rw [hys, bindArgs3]
            exact ⟨{ err := .syntax (.expectedToken .Comma) }, _,
              bind_err (expect_fail hAt1 rfl), rfl, rfl, rfl, rfl, Or.inl rfl⟩
    | cons a' as' =>
      rw [renderArgs_cons] at hAt ⊢
      have hAt : At σ pre (render2 a ++ (.kw .Comma :: (renderArgs (a' :: as') ++ (.kw .RightParen :: rest)))) := by
        simpa only [List.append_assoc, List.cons_append] using hAt
      have hX := expr_eq2 n a hPa f σ env pre _ (by omega) (by omega) (ends_comma 6 _) hAt hR hres.1
      cases hev : fold3 n env a with
      | error e =>
        rw [hev] at hX
        obtain ⟨te, σ', hσ', hx', hk⟩ := hX
        exact ⟨te, σ', bind_err hσ', hx', hk⟩
      | ok q =>
        obtain ⟨v, env1⟩ := q
        rw [hev] at hX
        obtain ⟨r, hr, hσ'⟩ := hX
        simp only at hσ'
        rw [bind_ok hσ']
        have hs1 : Step env env1 := fold3_step n a env env1 v hev
        have hAt1 : At (upd σ (render2 a).length r env1) (pre ++ render2 a)
            (.kw .Comma :: (renderArgs (a' :: as') ++ (.kw .RightParen :: rest))) := at_upd hAt r env1
        cases hm : v.matchesName p with
        | false =>
          simp only [hm, Bool.not_false, ↓reduceIte, Bool.false_eq_true]
          exact ⟨{ err := .typeMismatch }, _, rfl, rfl, rfl, rfl, rfl, Or.inl rfl⟩
        | true =>
          simp only [hm, Bool.not_true, Bool.false_eq_true, ↓reduceIte]
          cases ps' with
          | nil =>
            have hlt : ¬ (i + 1 < arity) := by simp only [List.length_cons, List.length_nil] at har; omega
            simp only [hlt, ↓reduceIte]
            rw [bindArgs3]
            rw [bindArgs]
            have h2 : (pure (alSet p v acc) : M F _) (upd σ (render2 a).length r env1)
                = .ok (alSet p v acc) (upd σ (render2 a).length r env1) := rfl
            rw [bind_ok h2]
            exact ⟨{ err := .syntax (.expectedToken .RightParen) }, _,
              bind_err (expect_fail hAt1 rfl), rfl, rfl, rfl, rfl, Or.inl rfl⟩
          | cons p' ps'' =>
            have hlt : i + 1 < arity := by simp only [List.length_cons] at har; omega
            simp only [hlt, ↓reduceIte]
            rw [bind_assoc']
            have hAt2 := at_mv1 hAt1 (r + 1)
            rw [mv_upd] at hAt2
            rw [bind_ok (expect_eq hAt1 rfl), mv_upd]
            simp only [upd_reads]
            have hI := ih (by simp) (fun z hz => hP z (List.mem_cons_of_mem _ hz)) (p' :: ps'') (by simp)
              f arity (i + 1) (alSet p v acc) (upd σ ((render2 a).length + 1) (r + 1) env1) env1 _ rest
              (by simp only [List.length_cons] at har ⊢; omega)
              (by rw [hs1.fns]; omega) (by rw [hs1.fns]; simp only [upd_nesting]; omega)
              hAt2 (hR.upd hs1 _ _) (by rw [hs1.fns]; exact hres.2)
            cases h2 : bindArgs3 n env1 (p' :: ps'') (a' :: as') (alSet p v acc) with
            | error e =>
              rw [h2] at hI
              obtain ⟨te, σ', hσ2, hx', hk⟩ := hI
              exact ⟨te, σ', hσ2, hx', hk⟩
            | ok q =>
              obtain ⟨b, env2⟩ := q
              rw [h2] at hI
              obtain ⟨r2, hr2, hσ2⟩ := hI
              simp only [upd_reads, upd_upd] at hr2 hσ2
              refine ⟨r2, by omega, ?_⟩
              rw [hσ2]
              simp only
              congr 1
              apply upd_congr
              simp only [List.length_append, List.length_cons]
              omega


/-- all four shapes of parameter list × argument list -/
theorem call_args {α : Type} (n : Nat) (K : List (Str × Value F) → M F α)
    (as : List (Expr2 F)) (hP : ∀ x ∈ as, PStmt2 n x) (ps : List Str)
    (f : Nat) (σ : St F) (env : WEnv F) (pre rest : List (Token F))
    (hd : depthArgs env.fns n as ≤ f) (hn : σ.nesting + depthArgs env.fns n as ≤ Extracted.nestingLimit)
    (hAt : At σ pre (renderArgs as ++ (.kw .RightParen :: rest))) (hR : Rel n σ env)
    (hres : ResolvedL env.fns as) :
    Agrees2 ((bindArgs (evalN f) ps.length ps 0 [] >>= fun b => expect .RightParen >>= fun _ => K b) σ)
      (bindArgs3 n env ps as []) σ
      (fun b env' r => K b (upd σ ((renderArgs as).length + 1) r env')) := by
  cases as with
  | nil =>
    rw [renderArgs_nil] at hAt ⊢
    have hAt : At σ pre (.kw .RightParen :: rest) := hAt
    cases ps with
    | nil =>
      rw [bindArgs3, bindArgs]
      refine ⟨σ.reads + 1, by omega, ?_⟩
      have h2 : (pure [] : M F (List (Str × Value F))) σ = .ok [] σ := rfl
      rw [bind_ok h2, bind_ok (expect_eq hAt rfl)]
      show K [] _ = K [] (upd σ (0 + 1) (σ.reads + 1) env)
      rw [upd_of_rel hR]
    | cons p ps' =>
      rw [bindArgs3, bindArgs, bind_assoc']
      obtain ⟨te, σ', hσ', hx', hk'⟩ := expr_rparen f σ _ rest
        (by have := depthArgs_pos env.fns n ([] : List (Expr2 F)); omega)
        (by have := depthArgs_pos env.fns n ([] : List (Expr2 F)); unfold Extracted.nestingLimit at *; omega)
        hAt
      exact ⟨te, σ', bind_err hσ', hx', hk'⟩
  | cons a as' =>
    cases ps with
    | nil =>
      rw [bindArgs3, bindArgs]
      have h2 : (pure [] : M F (List (Str × Value F))) σ = .ok [] σ := rfl
      rw [bind_ok h2]
      obtain ⟨t, ts, hts, ht⟩ := render2_head a
      have hAt' : At σ pre (t :: (ts ++ ((match as' with
          | [] => []
          | e' :: es' => Token.kw Kw.Comma :: renderArgs (e' :: es')) ++ (.kw .RightParen :: rest)))) := by
        cases as' with
        | nil => rw [renderArgs_one, hts] at hAt; simpa using hAt
        | cons e' es' =>
          rw [renderArgs_cons, hts] at hAt
          simpa only [List.append_assoc, List.cons_append] using hAt
      exact ⟨{ err := .syntax (.expectedToken .RightParen) }, _, bind_err (expect_fail hAt' ht), rfl, rfl, rfl, rfl, Or.inl rfl⟩
    | cons p ps' =>
      exact bind_loop n K (a :: as') (by simp) hP (p :: ps') (by simp) f _ 0 [] σ env pre rest
        (by simp) hd hn hAt hR hres

/-! ### the call proper -/

omit [NumOps F] in
theorem populate_err (s : St F) (e : TErr) : (s.populate e).err = e.err := by
  unfold St.populate
  split
  · rfl
  · split <;> rfl

/-- `σ` with the frame of a call pushed and the cursor on the definition -/
def pushed (σ : St F) (b : List (Str × Value F)) (line idx : Nat) : St F :=
  { σ with stack := { ret := σ.loc, vars := b } :: σ.stack, loc := { line := some line, idx := idx } }

theorem callBody_eq' (ev : Evals F) (name : Str) (b : List (Str × Value F)) (σ : St F) :
    Proofs.XF.callBody ev name b σ =
      if (σ.stack.length == Extracted.stackLimit) = true then .err { err := .oomStack } σ
      else match alGet name σ.fns with
        | none => .err { err := .panic "function must exist" } σ
        | some d =>
          match ev.expr (pushed σ b d.line d.idx) with
          | .ok v s =>
            (match s.stack with
             | [] => .err { err := .panic "stack must not be empty" } s
             | f :: rest => .ok (some v) { s with stack := rest, loc := f.ret })
          | .err e s =>
            (match s.stack with
             | [] => .err { err := .panic "stack must not be empty" } s
             | f :: rest => .err (s.populate e) { s with stack := rest, loc := f.ret }) :=
  Proofs.XF.callBody_eq ev name b σ

/-- `callBody`: the body of `fname` runs on its stored line with one more frame -/
theorem callBody_agree (n' : Nat) (hbody : ∀ e : Expr2 F, PStmt2 n' e) (fname : Str) (d : FnDefSpec F)
    (f : Nat) (σ : St F) (env : WEnv F) (b : List (Str × Value F))
    (hR : Rel (n' + 1) σ env) (hd : alGet fname env.fns = some d)
    (hdep : depth2 env.fns n' d.body + 1 ≤ f)
    (hn : σ.nesting + (depth2 env.fns n' d.body + 1) ≤ Extracted.nestingLimit) :
    Agrees2 (Proofs.XF.callBody (evalN f) fname b σ)
      (if env.frames.length == Extracted.stackLimit then .error .oomStack
       else match fold3 n' { env with frames := b :: env.frames, line := defLine env.sfns fname } d.body with
         | .error e => .error e
         | .ok q => .ok (q.1, { q.2 with frames := env.frames, line := env.line })) σ
      (fun v env' r => .ok (some v) (upd σ 0 r env')) := by
  obtain ⟨fd, pre_d, tail, hfd, _, hline, hidx, hE⟩ := hR.fns.defd fname d hd
  have hlen : σ.stack.length = env.frames.length := by rw [← hR.frames, List.length_map]
  rw [callBody_eq', hlen]
  by_cases hl : (env.frames.length == Extracted.stackLimit) = true
  · rw [if_pos hl, if_pos hl]
    exact ⟨_, σ, rfl, rfl, Keeps.refl _ _⟩
  · rw [if_neg hl, if_neg hl]
    simp only [hfd]
    have hcap : σ.stack.length + 1 ≤ Extracted.stackLimit := by
      have := hR.cap
      have : σ.stack.length ≠ Extracted.stackLimit := by
        rw [hlen]; simpa using hl
      omega
    have hdl : defLine env.sfns fname = some fd.line := by
      unfold defLine
      rw [← hR.sfns, hfd]
      rfl
    have hRp : Rel n' (pushed σ b fd.line fd.idx)
        { env with frames := b :: env.frames, line := defLine env.sfns fname } := by
      refine ⟨hR.vars, ?_, hR.arrays, hR.rng, hR.out, hR.warn, hdl.symm, hR.sfns, ⟨hR.fns.undef, hR.fns.defd⟩, hcap, ?_,
        hR.arrs_ok, hR.rng_ok, hR.bodies⟩
      · simp only [pushed, List.map_cons, hR.frames]
      · have := hR.fuel
        simp only [pushed, List.length_cons]
        omega
    have hAtp : At (pushed σ b fd.line fd.idx) pre_d (render2 d.body ++ tail) :=
      ⟨by simp only [lineToks, pushed, hline], hidx⟩
    have hX := expr_eq2 n' d.body (hbody _) f (pushed σ b fd.line fd.idx)
      { env with frames := b :: env.frames, line := defLine env.sfns fname } pre_d tail hdep hn hE hAtp hRp
      (hR.bodies fname d hd)
    cases hev : fold3 n' { env with frames := b :: env.frames, line := defLine env.sfns fname } d.body with
    | error e =>
      rw [hev] at hX
      obtain ⟨te, s, hs, hx', hk⟩ := hX
      rw [hs]
      have hst : s.stack = { ret := σ.loc, vars := b } :: σ.stack := hk.2.1
      simp only [hst]
      have hloc : LocOK σ (s.populate te) := by
        unfold St.populate
        split
        · exact hk.2.2.2
        · split
          · rename_i herr
            exact Or.inr (Or.inl herr)
          · exact Or.inr (Or.inr ⟨s.prevLoc, fname, fd, rfl, hfd, hk.2.2.1⟩)
      exact ⟨_, _, rfl, by rw [populate_err]; exact hx', hk.1, rfl, rfl, hloc⟩
    | ok q =>
      obtain ⟨v, env2⟩ := q
      rw [hev] at hX
      obtain ⟨r, hr, hs⟩ := hX
      rw [hs]
      exact ⟨r, hr, rfl⟩

theorem depth2_call_some (fns : List (Str × FnDefSpec F)) (n' : Nat) (g : Str) (args : List (Expr2 F))
    (d : FnDefSpec F) (h : alGet g fns = some d) :
    depth2 fns (n' + 1) (.call g args) = max (depthArgs fns (n' + 1) args) (depth2 fns n' d.body + 1) := by
  rw [depth2]; exact h

theorem depth2_call_ge (fns : List (Str × FnDefSpec F)) (n : Nat) (g : Str) (args : List (Expr2 F)) :
    depthArgs fns n args ≤ depth2 fns n (.call g args) := by
  rw [depth2.eq_def]; exact Nat.le_max_left _ _

omit [NumOps F] in
theorem rel_zero_false {σ : St F} {env : WEnv F} (h : Rel 0 σ env) : False := by
  have := h.cap
  have := h.fuel
  omega

theorem A2_call (n' : Nat) (hbody : ∀ e : Expr2 F, PStmt2 n' e) (g : Str) (args : List (Expr2 F))
    (hP : ∀ x ∈ args, PStmt2 (n' + 1) x) : AStmt2 (n' + 1) (.call g args) := by
  intro f σ env pre rest hd hn _ _ hAt hR hres
  rw [render2_call] at hAt ⊢
  simp only [Resolved] at hres
  have hAt' : At σ pre (.symbol g :: .kw .LeftParen :: (renderArgs args ++ (.kw .RightParen :: rest))) := by
    simpa only [List.cons_append, List.append_assoc, List.nil_append] using hAt
  rw [length_call_tokens]
  cases hdf : alGet g env.fns with
  | none =>
    have hge := depth2_call_ge env.fns (n' + 1) g args
    have h := cell_core (n' + 1) g args hP f σ env pre rest (by omega) (by omega) hAt' hR hres.1 hdf hres.2
    rw [fold3]
    simp only [hdf]
    cases hev : foldIdx3 (n' + 1) env args with
    | error e => rw [hev] at h; exact h
    | ok q => obtain ⟨is, env1⟩ := q; rw [hev] at h; exact h
  | some d =>
    rw [depth2_call_some _ _ _ _ _ hdf] at hd hn
    obtain ⟨fd, pre_d, tail, hfd, hargs, _, _, _⟩ := hR.fns.defd g d hdf
    have hAt1 := at_mv1 hAt' (σ.reads + 1 + 1)
    have hAt2 := at_mv0 hAt1 (σ.reads + 1 + 1 + 1)
    rw [mv_mv, Nat.add_zero] at hAt2
    have hAt3 := at_mv1 hAt2 (σ.reads + 1 + 1 + 1 + 1)
    rw [mv_mv] at hAt3
    unfold parenExpr
    rw [bind_ok (accept_false hAt' rfl)]
    simp only [Bool.false_eq_true, ↓reduceIte]
    unfold term
    rw [bind_ok (nextUnwrapped_eq (at_mv0 hAt' _)), mv_mv]
    simp only [mv_reads, Nat.zero_add]
    rw [bind_ok (peekIsKw_cons .LeftParen hAt1), mv_mv]
    simp only [mv_reads, Nat.add_zero]
    have hk : (Token.kw (F := F) Kw.LeftParen).isKw Kw.LeftParen = true := rfl
    simp only [hk, ↓reduceIte]
    rw [functionCall_unreserved _ _ hres.1]
    have huf : userFunctionCall (evalN f) g (mv σ 1 (σ.reads + 1 + 1 + 1)) =
        (do
          expect .LeftParen
          let bindings ← bindArgs (evalN f) fd.args.length fd.args 0 []
          expect .RightParen
          Proofs.XF.callBody (evalN f) g bindings : M F (Option (Value F))) (mv σ 1 (σ.reads + 1 + 1 + 1)) := by
      have hget : (M.get : M F (St F)) (mv σ 1 (σ.reads + 1 + 1 + 1))
          = .ok (mv σ 1 (σ.reads + 1 + 1 + 1)) (mv σ 1 (σ.reads + 1 + 1 + 1)) := rfl
      have hfd' : alGet g (mv σ 1 (σ.reads + 1 + 1 + 1)).fns = some fd := hfd
      rw [Proofs.XF.userFunctionCall_eq, bind_ok hget]
      simp only [hfd']
    -- the call, as an `Agrees2` about `userFunctionCall`
    have hcall : Agrees2 (userFunctionCall (evalN f) g (mv σ 1 (σ.reads + 1 + 1 + 1)))
        (fold3 (n' + 1) env (.call g args)) σ
        (fun v env' r => .ok (some v) (upd σ ((renderArgs args).length + 3) r env')) := by
      rw [huf, bind_ok (expect_eq hAt2 rfl), mv_mv, hargs]
      simp only [mv_reads]
      have hA := call_args (n' + 1) (fun b => Proofs.XF.callBody (evalN f) g b) args hP d.params f
        (mv σ (1 + 1) (σ.reads + 1 + 1 + 1 + 1)) env _ rest
        (Nat.le_trans (Nat.le_max_left _ _) hd)
        (by simp only [mv_nesting]; exact Nat.le_trans (Nat.add_le_add_left (Nat.le_max_left _ _) _) hn)
        hAt3 (hR.mv _ _) hres.2
      rw [fold3]
      simp only [hdf]
      cases hb : bindArgs3 (n' + 1) env d.params args [] with
      | error e =>
        rw [hb] at hA
        obtain ⟨te, σ', hσ', hx', hk'⟩ := hA
        exact ⟨te, σ', hσ', hx', hk'⟩
      | ok q =>
        obtain ⟨b, env1⟩ := q
        rw [hb] at hA
        obtain ⟨r, hr, hσ'⟩ := hA
        simp only [mv_reads, upd_mv] at hr hσ'
        have hs1 : Step env env1 := bindArgs3_step _ _ _ _ _ _ _ hb
        have hR1 : Rel (n' + 1) (upd σ (1 + 1 + ((renderArgs args).length + 1)) r env1) env1 := hR.upd hs1 _ _
        have hC := callBody_agree n' hbody g d f _ env1 b hR1 (by rw [hs1.fns]; exact hdf)
          (by rw [hs1.fns]; exact Nat.le_trans (Nat.le_max_right _ _) hd)
          (by rw [hs1.fns]; simp only [upd_nesting]
              exact Nat.le_trans (Nat.add_le_add_left (Nat.le_max_right _ _) _) hn)
        rw [hσ']
        simp only
        by_cases hl : (env1.frames.length == Extracted.stackLimit) = true
        · rw [if_pos hl] at hC ⊢
          obtain ⟨te, σ', hσ2, hx', hk'⟩ := hC
          exact ⟨te, σ', hσ2, hx', hk'⟩
        · rw [if_neg hl] at hC ⊢
          cases hbd : fold3 n' { env1 with frames := b :: env1.frames, line := defLine env1.sfns g } d.body with
          | error e =>
            rw [hbd] at hC
            obtain ⟨te, σ', hσ2, hx', hk'⟩ := hC
            exact ⟨te, σ', hσ2, hx', hk'⟩
          | ok q2 =>
            obtain ⟨v, env2⟩ := q2
            rw [hbd] at hC
            obtain ⟨r2, hr2, hσ2⟩ := hC
            simp only [upd_reads, upd_upd] at hr2 hσ2
            refine ⟨r2, by omega, ?_⟩
            rw [hσ2]
            simp only
            congr 1
            apply upd_congr
            omega
    cases hev : fold3 (n' + 1) env (.call g args) with
    | error e =>
      rw [hev] at hcall
      obtain ⟨te, σ', hσ', hx', hk'⟩ := hcall
      exact ⟨te, σ', bind_err hσ', hx', hk'⟩
    | ok q =>
      rw [hev] at hcall
      obtain ⟨r, hr, hσ'⟩ := hcall
      exact ⟨r, hr, by rw [bind_ok hσ']; rfl⟩

/-! ### all trees -/

theorem main3_zero (e : Expr2 F) : PStmt2 0 e ∧ SStmt2 0 e ∧ AStmt2 0 e :=
  ⟨fun _ _ _ _ _ _ _ _ _ _ _ _ hR _ => (rel_zero_false hR).elim,
   fun _ _ _ _ _ _ _ _ _ _ _ _ _ _ hR _ _ => (rel_zero_false hR).elim,
   fun _ _ _ _ _ _ _ _ _ _ hR _ => (rel_zero_false hR).elim⟩

theorem main3_step (n' : Nat) (hbody : ∀ e : Expr2 F, PStmt2 n' e) (e : Expr2 F) :
    PStmt2 (n' + 1) e ∧ SStmt2 (n' + 1) e ∧ AStmt2 (n' + 1) e := by
  suffices h : ∀ m (e : Expr2 F), sizeOf e ≤ m →
      PStmt2 (n' + 1) e ∧ SStmt2 (n' + 1) e ∧ AStmt2 (n' + 1) e from h _ e (Nat.le_refl _)
  intro m
  induction m with
  | zero => intro e he; cases e <;> simp at he
  | succ m ih =>
    intro e he
    have atom : ∀ {e : Expr2 F}, AStmt2 (n' + 1) e → e.prec = 8 →
        PStmt2 (n' + 1) e ∧ SStmt2 (n' + 1) e ∧ AStmt2 (n' + 1) e := fun hA hp =>
      ⟨P2_atom _ _ hA hp, S2_atom _ _ (P2_atom _ _ hA hp) (by unfold lv2; omega), hA⟩
    cases e with
    | num x => exact atom (A2_num _ x) rfl
    | str s => exact atom (A2_str _ s) rfl
    | var v => exact atom (A2_var _ v) rfl
    | paren x =>
      have hx := ih x (by simp only [Expr2.paren.sizeOf_spec] at he; omega)
      exact ⟨P2_paren _ x hx.1, S2_paren _ x hx.1, A2_paren _ x hx.1⟩
    | bin op l r =>
      have hl := ih l (by simp only [Expr2.bin.sizeOf_spec] at he; omega)
      have hr := ih r (by simp only [Expr2.bin.sizeOf_spec] at he; omega)
      exact ⟨P2_bin _ op l r hl.1 hl.2.1 hr.1, S2_bin _ op l r hl.1 hl.2.1 hr.1, A2_bin _ op l r⟩
    | un op x =>
      have hx := ih x (by simp only [Expr2.un.sizeOf_spec] at he; omega)
      have hP := P2_un _ op x hx.1 hx.2.2
      exact ⟨hP, S2_atom _ _ hP rfl, A2_un _ op x⟩
    | abs x =>
      have hx := ih x (by simp only [Expr2.abs.sizeOf_spec] at he; omega)
      exact atom (A2_abs _ x hx.1) rfl
    | int x =>
      have hx := ih x (by simp only [Expr2.int.sizeOf_spec] at he; omega)
      exact atom (A2_int _ x hx.1) rfl
    | rnd x =>
      have hx := ih x (by simp only [Expr2.rnd.sizeOf_spec] at he; omega)
      exact atom (A2_rnd _ x hx.1) rfl
    | cell name idx =>
      have hP : ∀ x ∈ idx, PStmt2 (n' + 1) x := fun x hx =>
        (ih x (by have := List.sizeOf_lt_of_mem hx
                  simp only [Expr2.cell.sizeOf_spec] at he; omega)).1
      exact atom (A2_cell _ name idx hP) rfl
    | call g args =>
      have hP : ∀ x ∈ args, PStmt2 (n' + 1) x := fun x hx =>
        (ih x (by have := List.sizeOf_lt_of_mem hx
                  simp only [Expr2.call.sizeOf_spec] at he; omega)).1
      exact atom (A2_call n' hbody g args hP) rfl

theorem main3 (n : Nat) (e : Expr2 F) : PStmt2 n e ∧ SStmt2 n e ∧ AStmt2 n e := by
  induction n generalizing e with
  | zero => exact main3_zero e
  | succ n' ih => exact main3_step n' (fun e => (ih e).1) e


end Abasic.ExprL3
