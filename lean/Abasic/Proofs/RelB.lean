import Abasic.Proofs.Lift
import Abasic.Props.C16
/-
  Relation B: the GOSUB / function-call stack stays within its cap.
-/
namespace Abasic.Hoare
open Abasic M

variable {F : Type}

/-- if the stack was within the cap before, it is within the cap after -/
def RB (σ σ' : St F) : Prop :=
  σ.stack.length ≤ Extracted.stackLimit → σ'.stack.length ≤ Extracted.stackLimit

instance : IsFrame (RB (F := F)) where
  refl _ := id
  trans h1 h2 := fun h => h2 (h1 h)

theorem rns_sub_RB {σ σ' : St F} (h : RNS σ σ') : RB σ σ' := by
  intro hl; rw [h.2.1]; exact hl

theorem rb_of_stack_eq {σ σ' : St F} (h : σ'.stack = σ.stack) : RB σ σ' := by
  intro hl; rw [h]; exact hl

theorem rb_of_stack_nil {σ σ' : St F} (h : σ'.stack = []) : RB σ σ' := by
  intro _; rw [h]; exact Nat.zero_le _

theorem rb_of_le {σ σ' : St F} (h : σ'.stack.length ≤ σ.stack.length) : RB σ σ' := by
  intro hl; exact Nat.le_trans h hl

namespace RelB
scoped macro_rules | `(tactic| respects_leaf) => `(tactic| exact rb_of_stack_eq rfl)
scoped macro_rules | `(tactic| respects_leaf) => `(tactic| (apply rb_of_le; simp_all))
scoped macro_rules | `(tactic| respects_prim) => `(tactic| (refine Respects.mono (R := RNS) (fun _ _ => rns_sub_RB) ?_; respects_prim))

theorem rb_enterNested : Respects RB (enterNested (F := F)) := by
  unfold enterNested
  respects_tac

theorem rb_exitNested : Respects RB (exitNested (F := F)) := by
  unfold exitNested
  respects_tac

theorem rb_nested {α : Type} {m : M F α} (hm : Respects RB m) : Respects RB (nested m) := by
  unfold nested
  have := rb_enterNested (F := F)
  have := rb_exitNested (F := F)
  respects_tac

theorem setImmediate_stack_le (σ : St F) (ts : List (Token F)) :
    (σ.setImmediate ts).stack.length ≤ σ.stack.length := by
  unfold St.setImmediate
  dsimp only
  split
  · exact Nat.zero_le _
  · exact Nat.le_refl _

theorem rb_setImmediate (ts : List (Token F)) : Respects RB (setImmediate ts) := by
  unfold setImmediate
  apply respects_modify
  intro σ
  exact rb_of_le (setImmediate_stack_le σ ts)

theorem rb_gosubLine (n : Nat) : Respects RB (gosubLine (F := F) n) := by
  apply respects_of_at
  intro σ
  constructor
  · intro a σ' h hl
    cases a
    exact (Abasic.Props.C16.gosub_cap n σ hl).1 σ' h
  · intro e σ' h hl
    rw [(Abasic.Props.C16.gosub_cap n σ hl).2.1 e σ' h]; exact hl

theorem rb_returnFromGosub : Respects RB (returnFromGosub (F := F)) := by
  unfold returnFromGosub
  respects_tac

theorem rb_popFunctionCall : Respects RB (popFunctionCall (F := F)) := by
  unfold popFunctionCall
  respects_tac

theorem rb_pushFunctionCall (name : Str) (b : List (Str × Value F)) : Respects RB (pushFunctionCall name b) := by
  unfold pushFunctionCall
  apply respects_get_bind
  intro σ
  by_cases hcap : (σ.stack.length == Extracted.stackLimit) = true
  · rw [if_pos hcap]; exact (respects_fail _).at σ
  · rw [if_neg hcap]
    cases alGet name σ.fns with
    | none => exact (respects_rpanic _).at σ
    | some d =>
      apply respectsAt_set
      intro hl
      have : σ.stack.length ≠ Extracted.stackLimit := by simpa using hcap
      simp only [List.length_cons]
      omega

theorem rb_progBreak (σ : St F) : RB σ σ.progBreak := by
  apply rb_of_le
  unfold St.progBreak
  exact setImmediate_stack_le _ _

theorem runFromFirst_stack (σ : St F) : σ.runFromFirst.stack = [] := by
  unfold St.runFromFirst St.resetRuntime St.setImmediate
  dsimp only
  split <;> simp

theorem setNumberedLine_stack (σ : St F) (n : Nat) (ts : List (Token F)) : (σ.setNumberedLine n ts).stack = [] := by
  unfold St.setNumberedLine St.setImmediate
  simp

end RelB

open RelB in
instance : HostPrims (RB (F := F)) where
  sub := rns_sub_RB
  nested := rb_nested
  setImmediate := rb_setImmediate
  gosubLine := rb_gosubLine
  returnFromGosub := rb_returnFromGosub
  pushFunctionCall := rb_pushFunctionCall
  popFunctionCall := rb_popFunctionCall
  progBreak := rb_progBreak
  runFromFirst σ := rb_of_stack_nil (runFromFirst_stack σ)
  setNumberedLine σ n ts := rb_of_stack_nil (setNumberedLine_stack σ n ts)

end Abasic.Hoare
