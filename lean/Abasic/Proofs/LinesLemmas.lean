import Abasic.Lines
/- Helper lemmas about the two indexes of `Lines` (program_lines.rs). -/
namespace Abasic.Lines
variable {F : Type}

theorem getMap_setMap (n m : Nat) (v : List (Token F)) (l : List (Nat × List (Token F))) :
    getMap m (setMap n v l) = if m = n then some v else getMap m l := by
  induction l with
  | nil =>
    simp only [setMap, getMap]
    by_cases h : m = n
    · simp [h]
    · have : (n == m) = false := by simp; omega
      simp [h, this]
  | cons p rest ih =>
    obtain ⟨k, v'⟩ := p
    simp only [setMap]
    by_cases hk : k = n
    · subst hk
      simp only [beq_self_eq_true, ↓reduceIte, getMap]
      by_cases h : m = k
      · simp [h]
      · have : (k == m) = false := by simp; omega
        simp [h, this]
    · have hkn : (k == n) = false := by simp; omega
      simp only [hkn, Bool.false_eq_true, ↓reduceIte, getMap, ih]
      by_cases h : m = n
      · subst h
        have : (k == m) = false := by simp; omega
        simp [this]
      · simp [h]

theorem getMap_eraseMap (n m : Nat) (l : List (Nat × List (Token F))) :
    getMap m (eraseMap n l) = if m = n then none else getMap m l := by
  induction l with
  | nil => simp [eraseMap, getMap]
  | cons p rest ih =>
    obtain ⟨k, v'⟩ := p
    simp only [eraseMap]
    by_cases hk : k = n
    · subst hk
      simp only [beq_self_eq_true, ↓reduceIte, ih, getMap]
      by_cases h : m = k
      · simp [h]
      · have : (k == m) = false := by simp; omega
        simp [h, this]
    · have hkn : (k == n) = false := by simp; omega
      simp only [hkn, Bool.false_eq_true, ↓reduceIte, getMap, ih]
      by_cases h : m = n
      · subst h
        have : (k == m) = false := by simp; omega
        simp [this]
      · simp [h]

theorem mem_insertSorted (n m : Nat) (l : List Nat) :
    m ∈ insertSorted n l ↔ m = n ∨ m ∈ l := by
  induction l with
  | nil => simp [insertSorted]
  | cons k rest ih =>
    simp only [insertSorted]
    split
    · simp
    · split
      · rename_i h1 h2
        have : n = k := by simpa using h2
        subst this
        simp
      · simp only [List.mem_cons, ih]
        constructor
        · rintro (h | h | h) <;> simp [h]
        · rintro (h | h | h) <;> simp [h]

theorem sorted_insertSorted (n : Nat) (l : List Nat) (h : l.Pairwise (· < ·)) :
    (insertSorted n l).Pairwise (· < ·) := by
  induction l with
  | nil => simp [insertSorted]
  | cons k rest ih =>
    simp only [insertSorted]
    have hk := List.pairwise_cons.mp h
    split
    · rename_i hlt
      refine List.pairwise_cons.mpr ⟨?_, h⟩
      intro a ha
      rcases List.mem_cons.mp ha with rfl | ha
      · exact hlt
      · exact Nat.lt_trans hlt (hk.1 a ha)
    · split
      · exact h
      · rename_i h1 h2
        have hne : n ≠ k := by simpa using h2
        refine List.pairwise_cons.mpr ⟨?_, ih hk.2⟩
        intro a ha
        rcases (mem_insertSorted n a rest).mp ha with rfl | ha
        · omega
        · exact hk.1 a ha

theorem mem_eraseSorted (n m : Nat) (l : List Nat) :
    m ∈ eraseSorted n l ↔ m ≠ n ∧ m ∈ l := by
  induction l with
  | nil => simp [eraseSorted]
  | cons k rest ih =>
    simp only [eraseSorted]
    split
    · rename_i h
      have : k = n := by simpa using h
      subst this
      simp only [ih, List.mem_cons]
      constructor
      · rintro ⟨h1, h2⟩; exact ⟨h1, Or.inr h2⟩
      · rintro ⟨h1, h2 | h2⟩
        · exact absurd h2 h1
        · exact ⟨h1, h2⟩
    · rename_i h
      have hne : k ≠ n := by simpa using h
      simp only [List.mem_cons, ih]
      constructor
      · rintro (h1 | ⟨h1, h2⟩)
        · subst h1; exact ⟨hne, Or.inl rfl⟩
        · exact ⟨h1, Or.inr h2⟩
      · rintro ⟨h1, h2 | h2⟩
        · exact Or.inl h2
        · exact Or.inr ⟨h1, h2⟩

theorem sorted_eraseSorted (n : Nat) (l : List Nat) (h : l.Pairwise (· < ·)) :
    (eraseSorted n l).Pairwise (· < ·) := by
  induction l with
  | nil => simp [eraseSorted]
  | cons k rest ih =>
    have hk := List.pairwise_cons.mp h
    simp only [eraseSorted]
    split
    · exact ih hk.2
    · refine List.pairwise_cons.mpr ⟨?_, ih hk.2⟩
      intro a ha
      exact hk.1 a ((mem_eraseSorted n a rest).mp ha).2

/-- two strictly ascending lists with the same members are equal -/
theorem sorted_ext (a b : List Nat) (ha : a.Pairwise (· < ·)) (hb : b.Pairwise (· < ·))
    (h : ∀ x, x ∈ a ↔ x ∈ b) : a = b := by
  induction a generalizing b with
  | nil =>
    cases b with
    | nil => rfl
    | cons y ys => exact absurd ((h y).mpr (List.mem_cons_self ..)) (by simp)
  | cons x xs ih =>
    cases b with
    | nil => exact absurd ((h x).mp (List.mem_cons_self ..)) (by simp)
    | cons y ys =>
      have hx := List.pairwise_cons.mp ha
      have hy := List.pairwise_cons.mp hb
      have hxy : x = y := by
        have h1 : x ∈ y :: ys := (h x).mp (List.mem_cons_self ..)
        have h2 : y ∈ x :: xs := (h y).mpr (List.mem_cons_self ..)
        rcases List.mem_cons.mp h1 with e | h1
        · exact e
        · rcases List.mem_cons.mp h2 with e | h2
          · exact e.symm
          · have := hy.1 x h1
            have := hx.1 y h2
            omega
      subst hxy
      congr 1
      apply ih ys hx.2 hy.2
      intro z
      constructor
      · intro hz
        have := (h z).mp (List.mem_cons_of_mem _ hz)
        rcases List.mem_cons.mp this with e | this
        · subst e; exact absurd (hx.1 z hz) (Nat.lt_irrefl _)
        · exact this
      · intro hz
        have := (h z).mpr (List.mem_cons_of_mem _ hz)
        rcases List.mem_cons.mp this with e | this
        · subst e; exact absurd (hy.1 z hz) (Nat.lt_irrefl _)
        · exact this

end Abasic.Lines
