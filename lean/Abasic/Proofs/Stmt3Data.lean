import Abasic.Proofs.Stmt3Toks
/-
  C03, third layer, DATA — Proofs/Data2Lemmas.lean for `RProgram3`: the DATA
  chunks of a stored program are its DATA statements in program order (those in
  the branches of an IF included), and what `next_data_element` does.
-/
set_option linter.unusedSectionVars false

namespace Abasic.Prog3L
open Abasic Abasic.Ref Abasic.ExprL Abasic.StmtL Abasic.ProgL M
open Abasic.Prog2L (dataToks isData dataToks_append dataToks_cons_nodata dataToks_nodata flatItems remItems
  flat_lineChunks flatItems_flatMap remItems_fresh next_spec)

variable {F : Type} [NumOps F]

/-! ### the chunks of a stored program -/

theorem line_of_mem {p : RProgram3 F} (hasc : (p.map (·.1)).Pairwise (· < ·)) :
    ∀ l ∈ p, p.line l.1 = some l.2 := by
  induction p with
  | nil => intro l hl; cases hl
  | cons a rest ih =>
    obtain ⟨k, ss⟩ := a
    simp only [List.map_cons, List.pairwise_cons] at hasc
    intro l hl
    rcases List.mem_cons.mp hl with rfl | hl
    · simp only [RProgram3.line, beq_self_eq_true, ↓reduceIte]
    · have hlt : k < l.1 := hasc.1 l.1 (List.mem_map.mpr ⟨l, hl, rfl⟩)
      have hne : (k == l.1) = false := by simp only [beq_eq_false_iff_ne, ne_eq]; omega
      simp only [RProgram3.line, hne, Bool.false_eq_true, ↓reduceIte]
      exact ih hasc.2 l hl

theorem listTokens_sub {l : Lines F} {p : RProgram3 F} (h : Holds l p) :
    ∀ q : RProgram3 F, (∀ e ∈ q, p.line e.1 = some e.2) →
      (q.map (·.1)).mapM (fun n => (l.get n).map (fun ts => (n, ts))) =
        some (q.map fun e => (e.1, renderLine3 e.2)) := by
  intro q
  induction q with
  | nil => intro _; rfl
  | cons a rest ih =>
    intro hq
    have ha := hq a List.mem_cons_self
    have hr := ih (fun e he => hq e (List.mem_cons_of_mem _ he))
    rw [List.map_cons, List.mapM_cons, hr, h.get, ha]
    rfl

theorem holds_listTokens {l : Lines F} {p : RProgram3 F} (h : Holds l p) (hwf : p.WF) :
    l.listTokens = some (p.map fun e => (e.1, renderLine3 e.2)) := by
  unfold Lines.listTokens
  rw [h.sorted]
  exact listTokens_sub h p (line_of_mem hwf.ascending)

theorem holds_dataChunks {l : Lines F} {p : RProgram3 F} (h : Holds l p) (hwf : p.WF) :
    l.dataChunks = some (progChunks3 p) := by
  unfold Lines.dataChunks progChunks3
  rw [holds_listTokens h hwf]
  simp only [Option.map_some, List.flatMap_map]
  rfl

theorem dataToks_tail (ss : List (RStmt3 F)) : dataToks (renderTail3 ss) = ss.flatMap RStmt3.dataOf := by
  induction ss with
  | nil => rfl
  | cons s rest ih =>
    rw [renderTail3, dataToks_cons_nodata _ rfl, dataToks_append, dataToks_renderS3, ih]
    rfl

theorem dataToks_line (ss : List (RStmt3 F)) : dataToks (renderLine3 ss) = ss.flatMap RStmt3.dataOf := by
  cases ss with
  | nil => rfl
  | cons s rest =>
    rw [renderLine3, dataToks_append, dataToks_renderS3, dataToks_tail]
    rfl

/-- the items of the DATA chunks of a program are its DATA statements in program order -/
theorem flat_progChunks3 (p : RProgram3 F) :
    flatItems (progChunks3 p) = (allData3 p).map fun x => (some x.1, x.2) := by
  unfold progChunks3 allData3
  rw [flatItems_flatMap, List.map_flatMap]
  congr 1
  funext l
  rw [flat_lineChunks, dataToks_line, List.map_map]
  rfl

/-- `next_data_element`: with items left it yields the next one, moves the
    cursor by one and makes the chunk of that item the current one -/
theorem nextData_some {p : RProgram3 F} {σ : St F} {c : Nat} (hh : Holds σ.lines p) (hwf : p.WF)
    (hd : DataRel3 p c σ.data) {ln : Nat} {d : DataElement F} (hc : (allData3 p)[c]? = some (ln, d)) :
    ∃ it' i, nextDataElement σ = .ok (some d) { σ with data := some it' } ∧ DataRel3 p (c + 1) (some it') ∧
      ({ σ with data := some it' } : St F).dataLoc = some { line := some ln, idx := i } := by
  -- the iterator the call works with
  obtain ⟨it, hit, hchunks, hrem⟩ : ∃ it : DataIter F,
      nextDataElement σ = (fun s : St F =>
        (Res.ok (it.next (it.chunks.length + 1)).1 { s with data := some (it.next (it.chunks.length + 1)).2 })) σ ∧
      it.chunks = progChunks3 p ∧ remItems it = ((allData3 p).drop c).map fun x => (some x.1, x.2) := by
    cases hdat : σ.data with
    | some it =>
      rw [hdat] at hd
      refine ⟨it, ?_, hd.1, hd.2⟩
      simp only [nextDataElement, bind, M.bindM, M.get, hdat, pure, M.pureM, M.modify]
    | none =>
      rw [hdat] at hd
      have hc0 : c = 0 := hd
      refine ⟨{ chunks := progChunks3 p }, ?_, rfl, ?_⟩
      · simp only [nextDataElement, bind, M.bindM, M.get, hdat, holds_dataChunks hh hwf, pure, M.pureM, M.modify]
      · rw [remItems_fresh, List.drop_zero, flat_progChunks3, hc0, List.drop_zero]
  have hlt : c < (allData3 p).length := (List.getElem?_eq_some_iff.mp hc).1
  have hdropc : (allData3 p).drop c = (ln, d) :: (allData3 p).drop (c + 1) := by
    rw [List.drop_eq_getElem_cons hlt, (List.getElem?_eq_some_iff.mp hc).2]
  rw [hdropc] at hrem
  obtain ⟨hch, _, hsome⟩ := next_spec (it.chunks.length + 1) it (by omega)
  obtain ⟨h1, h2, h3⟩ := hsome (some ln) d _ hrem
  cases hcur : (it.next (it.chunks.length + 1)).2.chunks[(it.next (it.chunks.length + 1)).2.ci]? with
  | none => rw [hcur] at h3; cases h3
  | some ch =>
    rw [hcur] at h3
    simp only [Option.map_some, Option.some.injEq] at h3
    refine ⟨(it.next (it.chunks.length + 1)).2, ch.1.idx, ?_, ⟨by rw [hch, hchunks], h2⟩, ?_⟩
    · rw [hit, h1]
    · show ((it.next (it.chunks.length + 1)).2.chunks[(it.next (it.chunks.length + 1)).2.ci]?).map (·.1) = _
      rw [hcur]
      simp only [Option.map_some, Option.some.injEq]
      rw [← h3]

/-- `next_data_element` with nothing left -/
theorem nextData_none {p : RProgram3 F} {σ : St F} {c : Nat} (hh : Holds σ.lines p) (hwf : p.WF)
    (hd : DataRel3 p c σ.data) (hc : (allData3 p)[c]? = none) :
    ∃ it', nextDataElement σ = .ok none { σ with data := some it' } := by
  obtain ⟨it, hit, hrem⟩ : ∃ it : DataIter F,
      nextDataElement σ = (fun s : St F =>
        (Res.ok (it.next (it.chunks.length + 1)).1 { s with data := some (it.next (it.chunks.length + 1)).2 })) σ ∧
      remItems it = ((allData3 p).drop c).map fun x => (some x.1, x.2) := by
    cases hdat : σ.data with
    | some it =>
      rw [hdat] at hd
      refine ⟨it, ?_, hd.2⟩
      simp only [nextDataElement, bind, M.bindM, M.get, hdat, pure, M.pureM, M.modify]
    | none =>
      rw [hdat] at hd
      have hc0 : c = 0 := hd
      refine ⟨{ chunks := progChunks3 p }, ?_, ?_⟩
      · simp only [nextDataElement, bind, M.bindM, M.get, hdat, holds_dataChunks hh hwf, pure, M.pureM, M.modify]
      · rw [remItems_fresh, List.drop_zero, flat_progChunks3, hc0, List.drop_zero]
  have hle : (allData3 p).length ≤ c := List.getElem?_eq_none_iff.mp hc
  rw [List.drop_eq_nil_of_le hle] at hrem
  obtain ⟨_, hnone, _⟩ := next_spec (it.chunks.length + 1) it (by omega)
  exact ⟨_, by rw [hit, (hnone hrem).1]⟩

end Abasic.Prog3L
