import Abasic.Proofs.StmtIndep
import Abasic.Proofs.TraceStmt
import Abasic.Proofs.AccFrame
import Abasic.Proofs.RelA
/-
  Counting statement activations (used by C09 `trace_count`).

  THE INSTRUMENTED EVALUATOR.  `evalG` is `evalN` with one change: the recursive
  entry point for statements — `ev.stmt`, which the statement evaluator reaches
  only as `nested ev.stmt` under THEN / ELSE (Proofs/StmtIndep.lean) — first
  appends one `mark` to the analyzer's access log (`tick`), a component of the
  state that nothing in the interpreter reads.  So the number of marks a run of
  the instrumented evaluator appends is, by construction, the number of NESTED
  statement activations of that run (the outermost activation is called
  directly, not through `ev.stmt`, and is not marked).

  PROVED HERE (`sim_evalG`, `sim_stmtBody_top`): the instrumented run is the real
  run plus `c` marks — same value, same error, same state otherwise — and, in
  the same breath, the real run has added exactly `c` (for a nested activation)
  resp. `c + 1` (for the outermost one) copies of the trace block `here σ` to
  the trace records of the output queue, and `c` is at most the room left under
  the nesting cap.
-/
set_option linter.unusedSectionVars false

namespace Abasic.Count
open Abasic M Abasic.Hoare Abasic.Trace

variable {F : Type}

/-- the mark: an entry no analysis produces (empty symbol) -/
def mark : Str × Nat × Nat × Access := ([], 0, 0, .read)

/-- `c` marks appended to the access log -/
def addMarks (c : Nat) (s : St F) : St F := { s with accesses := s.accesses ++ List.replicate c mark }

/-- append one mark -/
def tick : M F Unit := M.modify (addMarks 1)

def marks (c : Nat) : Acc.Add := { accesses := List.replicate c mark }

theorem T_marks (c : Nat) : Acc.T (F := F) (marks c) = addMarks c := by
  funext s
  simp [Acc.T, marks, addMarks]

theorem addMarks_zero (s : St F) : addMarks 0 s = s := by
  cases s; simp [addMarks]

theorem addMarks_add (a b : Nat) (s : St F) : addMarks a (addMarks b s) = addMarks (b + a) s := by
  simp [addMarks, List.append_assoc, List.replicate_append_replicate]

theorem mapRes_zero {α : Type} (r : Res F α) : Acc.mapRes (addMarks 0) r = r := by
  cases r <;> simp [Acc.mapRes, addMarks_zero]

theorem mapRes_add {α : Type} (a b : Nat) (r : Res F α) :
    Acc.mapRes (addMarks a) (Acc.mapRes (addMarks b) r) = Acc.mapRes (addMarks (b + a)) r := by
  cases r <;> simp [Acc.mapRes, addMarks_add]

/-- an action that commutes with every `Acc.T` runs the same from a marked state -/
theorem comm_marks {α : Type} {m : M F α} (hm : ∀ d, Acc.Comm d m) (c : Nat) (s : St F) :
    m (addMarks c s) = Acc.mapRes (addMarks c) (m s) := by
  have := (hm (marks c)).h s
  rw [T_marks] at this
  exact this

theorem final_mapRes {α : Type} (g : St F → St F) (r : Res F α) : (Acc.mapRes g r).final = g r.final := by
  cases r <;> rfl

theorem here_addMarks (c : Nat) (s : St F) : here (addMarks c s) = here s := rfl

/-! ### the simulation predicate -/

/-- the instrumented result `rG` is the real result `r` with `cm` marks appended
    to the log; the real run kept the tracing flag and the program, and added
    exactly `ct` copies of the block `u` to the trace records -/
def Sim1 {α : Type} (u : List Nat) (σ : St F) (cm ct : Nat) (r rG : Res F α) : Prop :=
  rG = Acc.mapRes (addMarks cm) r ∧ r.final.tracing = σ.tracing ∧ r.final.lines = σ.lines ∧
  traces r.final.out = rep ct u ++ traces σ.out

/-- `mG` simulates `m` from every state whose trace block is `u` and whose
    nesting counter is within the cap: `c` marks against `c + off` trace blocks,
    with `c` at most the room under the cap (plus `slack`) -/
def CG {α : Type} (slack off : Nat) (u : List Nat) (m mG : M F α) : Prop :=
  ∀ σ, here σ = u → σ.nesting ≤ Extracted.nestingLimit →
    ∃ c, c + σ.nesting ≤ Extracted.nestingLimit + slack ∧ Sim1 u σ c (c + off) (m σ) (mG σ)

theorem sim1_refl_of_nt {α : Type} {u : List Nat} {σ : St F} {r : Res F α} (h : NT σ r.final) :
    Sim1 u σ 0 0 r r :=
  ⟨(mapRes_zero r).symm, h.1, h.2.1, by rw [h.2.2, rep_zero]; rfl⟩

/-- an uninstrumented action that adds no trace record -/
theorem cg_same {α : Type} {slack : Nat} {u : List Nat} {m : M F α} (h : Respects NT m) : CG slack 0 u m m := by
  intro σ _ hn
  exact ⟨0, by omega, sim1_refl_of_nt (h.final σ)⟩

theorem cg_slack {α : Type} {off : Nat} {u : List Nat} {m mG : M F α} (h : CG 0 off u m mG) : CG 1 off u m mG := by
  intro σ hu hn
  obtain ⟨c, hc, hs⟩ := h σ hu hn
  exact ⟨c, by omega, hs⟩

/-- a common prefix that keeps the trace block, the trace records and the nesting counter -/
theorem cg_bind_pre {α β : Type} {slack : Nat} {u : List Nat} {p : M F α} {f fG : α → M F β}
    (hrx : Respects RX p) (hra : Respects RA p) (hf : ∀ a, CG slack 0 u (f a) (fG a)) :
    CG slack 0 u (p >>= f) (p >>= fG) := by
  intro σ hu hn
  have h1 := hrx.final σ
  have h2 := hra.final σ
  show ∃ c, _ ∧ Sim1 u σ c (c + 0) (M.bindM p f σ) (M.bindM p fG σ)
  unfold M.bindM
  cases hp : p σ with
  | ok a σ1 =>
    rw [hp] at h1 h2
    have hh : here σ1 = u := (here_of_rx h1).trans hu
    have hn1 : σ1.nesting ≤ Extracted.nestingLimit := by
      have : σ1.nesting = σ.nesting := h2
      omega
    obtain ⟨c, hc, e1, e2, e3, e4⟩ := hf a σ1 hh hn1
    have : σ1.nesting = σ.nesting := h2
    have h13 : traces σ1.out = traces σ.out := h1.2.2.1
    exact ⟨c, by omega, e1, e2.trans h1.1, e3.trans h1.2.1, by rw [e4, h13]⟩
  | err e σ1 =>
    rw [hp] at h1
    exact ⟨0, by omega, sim1_refl_of_nt (rx_sub_nt h1)⟩

/-- a common suffix that adds no trace record and commutes with marking -/
theorem cg_bind_post {α β : Type} {slack off : Nat} {u : List Nat} {m mG : M F α} {g : α → M F β}
    (hm : CG slack off u m mG) (hnt : ∀ a, Respects NT (g a)) (hc : ∀ a d, Acc.Comm d (g a)) :
    CG slack off u (m >>= g) (mG >>= g) := by
  intro σ hu hn
  obtain ⟨c, hc', e1, e2, e3, e4⟩ := hm σ hu hn
  refine ⟨c, hc', ?_⟩
  show Sim1 u σ c (c + off) (M.bindM m g σ) (M.bindM mG g σ)
  unfold M.bindM
  rw [e1]
  cases hr : m σ with
  | ok a s1 =>
    rw [hr] at e2 e3 e4
    have hg := (hnt a).final s1
    refine ⟨comm_marks (hc a) c s1, hg.1.trans e2, hg.2.1.trans e3, ?_⟩
    rw [hg.2.2]; exact e4
  | err e s1 =>
    rw [hr] at e2 e3 e4
    exact ⟨rfl, e2, e3, e4⟩

theorem cg_ite {α : Type} {slack off : Nat} {u : List Nat} {c : Prop} [Decidable c] {t e tG eG : M F α}
    (ht : CG slack off u t tG) (he : CG slack off u e eG) :
    CG slack off u (if c then t else e) (if c then tG else eG) := by
  by_cases h : c
  · rw [if_pos h, if_pos h]; exact ht
  · rw [if_neg h, if_neg h]; exact he

variable [NumOps F]

/-- the nested activation: refused at the cap (nothing happens on either side);
    otherwise one level deeper, where one more activation fits -/
theorem cg_nested {u : List Nat} {m mG : M F Unit} (h : CG 1 0 u m mG) : CG 0 0 u (nested m) (nested mG) := by
  intro σ hu hn
  by_cases hcap : σ.nesting = Extracted.nestingLimit
  · have e : ∀ x : M F Unit, nested x σ = .err { err := .oomStack } σ := by
      intro x
      simp [nested, bind, M.bindM, enterNested, M.get, hcap, M.fail]
    rw [e m, e mG]
    exact ⟨0, by omega, sim1_refl_of_nt ⟨rfl, rfl, rfl⟩⟩
  · have hb : (σ.nesting == Extracted.nestingLimit) = false := by simpa using hcap
    have e : ∀ x : M F Unit, nested x σ =
        (match x { σ with nesting := σ.nesting + 1 } with
         | .ok a s => (exitNested >>= fun _ => M.ofExcept (.ok a)) s
         | .err er s => (exitNested >>= fun _ => (M.ofExcept (.error er) : M F Unit)) s) := by
      intro x
      simp only [nested, bind, M.bindM, enterNested, M.get, hb, Bool.false_eq_true, if_false, M.set, M.attempt]
      cases x { σ with nesting := σ.nesting + 1 } <;> rfl
    rw [e m, e mG]
    have hh : here ({ σ with nesting := σ.nesting + 1 } : St F) = u := hu
    have hn1 : ({ σ with nesting := σ.nesting + 1 } : St F).nesting ≤ Extracted.nestingLimit := by
      show σ.nesting + 1 ≤ _
      omega
    obtain ⟨c, hc, e1, e2, e3, e4⟩ := h _ hh hn1
    have hc' : c + σ.nesting ≤ Extracted.nestingLimit + 0 := by
      have : c + (σ.nesting + 1) ≤ Extracted.nestingLimit + 1 := hc
      omega
    refine ⟨c, hc', ?_⟩
    rw [e1]
    have hex : ∀ (r : Except TErr Unit) (d : Acc.Add), Acc.Comm d (exitNested (F := F) >>= fun _ => M.ofExcept r) :=
      fun r d => Acc.Comm.bind Acc.comm_exitNested (fun _ => Acc.Comm.ofExcept r)
    have hout : ∀ (r : Except TErr Unit) (s : St F),
        NT s ((exitNested (F := F) >>= fun _ => M.ofExcept r) s).final := by
      intro r s
      simp only [exitNested, bind, M.bindM, M.get]
      cases s.nesting with
      | zero => exact ⟨rfl, rfl, rfl⟩
      | succ k => cases r <;> exact ⟨rfl, rfl, rfl⟩
    cases hr : m { σ with nesting := σ.nesting + 1 } with
    | ok a s1 =>
      rw [hr] at e2 e3 e4
      have hg := hout (.ok a) s1
      exact ⟨comm_marks (hex (.ok a)) c s1, hg.1.trans e2, hg.2.1.trans e3, by rw [hg.2.2]; exact e4⟩
    | err er s1 =>
      rw [hr] at e2 e3 e4
      have hg := hout (.error er) s1
      exact ⟨comm_marks (hex (.error er)) c s1, hg.1.trans e2, hg.2.1.trans e3, by rw [hg.2.2]; exact e4⟩

open Abasic.Trace.Lift Abasic.Indep

theorem ra_of_rns {α : Type} {m : M F α} (h : Respects RNS m) : Respects RA m :=
  h.mono (fun _ _ => rns_sub_RA)

section stmt
variable (ev evG : Evals F) (hx : evG.expr = ev.expr)
  (he : Respects RX ev.expr) (ha : Respects RA ev.expr) (u : List Nat)
  (hs : CG 1 0 u ev.stmt evG.stmt)
include hx he ha hs

omit hx he ha in
theorem cg_statementOrGoto : CG 0 0 u (statementOrGoto ev) (statementOrGoto evG) := by
  unfold statementOrGoto
  refine cg_bind_pre rx_peek (ra_of_rns rns_peek) (fun t => ?_)
  split
  · exact cg_same nt_gotoStatement
  · exact cg_nested hs

omit hx he ha in
theorem cg_ifSkipLoop (n : Nat) : CG 0 0 u (ifSkipLoop ev n) (ifSkipLoop evG n) := by
  induction n with
  | zero => unfold ifSkipLoop; exact cg_same (respects_fail _)
  | succ n ih =>
    unfold ifSkipLoop
    refine cg_bind_pre rx_next respects_next (fun t => ?_)
    split
    · exact cg_same (respects_pure _)
    · refine cg_ite ?_ (cg_ite (cg_statementOrGoto ev evG u hs) ih)
      exact cg_bind_pre rx_discardRemaining (ra_of_rns rns_discardRemaining) (fun _ => ih)

theorem cg_ifStatement : CG 0 0 u (ifStatement ev) (ifStatement evG) := by
  unfold ifStatement
  rw [hx]
  refine cg_bind_pre he ha (fun c => ?_)
  refine cg_bind_pre (rx_expect _) (respects_expect _) (fun _ => ?_)
  refine cg_ite ?_ ?_
  · refine cg_bind_post (cg_statementOrGoto ev evG u hs) (fun _ => ?_) (fun _ d => ?_)
    · respects_tac
    · exact Acc.Comm.bind (Acc.comm_peekIsKw _) (fun b => by
        cases b
        · exact Acc.Comm.pure _
        · exact Acc.comm_discardRemaining)
  · exact cg_bind_pre rx_lineBudget respects_lineBudget (fun b => cg_ifSkipLoop ev evG u hs b)

omit hx ha hs in
/-- every case of `dispatch` but IF adds no trace record -/
theorem nt_dispatchK (t : Option (Token F)) (ht : t ≠ some (.kw .If)) : Respects NT (dispatchK ev t) := by
  unfold dispatchK
  have := nt_assignmentStatement ev he
  have := nt_dimStatement ev he
  have := nt_printStatement ev he
  have := nt_inputStatement ev he
  have := nt_gotoStatement (F := F)
  have := nt_gosubStatement (F := F)
  have := nt_forStatement ev he
  have := nt_nextStatement (F := F)
  have := nt_defStatement (F := F)
  have := nt_readStatement ev he
  have := nt_letStatement ev he
  respects_tac
  exact absurd rfl ht

theorem cg_dispatch : CG 0 0 u (dispatch ev) (dispatch evG) := by
  rw [dispatch_eq, dispatch_eq]
  refine cg_bind_pre rx_next respects_next (fun t => ?_)
  by_cases ht : t = some (.kw .If)
  · rw [ht, dispatchK_if, dispatchK_if]
    exact cg_ifStatement ev evG hx he ha u hs
  · rw [dispatchK_congr hx t ht]
    exact cg_same (nt_dispatchK ev he t ht)

/-- one statement activation: its own trace block, then `dispatch` -/
theorem cg_stmtBody : CG 0 1 u (stmtBody ev) (stmtBody evG) := by
  intro σ hu hn
  have hh : here ({ σ with out := (here σ).map Out.trace ++ σ.out } : St F) = u := hu
  obtain ⟨c, hc, e1, e2, e3, e4⟩ := cg_dispatch ev evG hx he ha u hs
    ({ σ with out := (here σ).map Out.trace ++ σ.out } : St F) hh hn
  have er : ∀ x : Evals F, stmtBody x σ = dispatch x { σ with out := (here σ).map Out.trace ++ σ.out } := by
    intro x
    unfold stmtBody
    simp only [bind, M.bindM, traceHere_eq]
  rw [er ev, er evG]
  refine ⟨c, hc, e1, e2, e3, ?_⟩
  rw [e4]
  show _ = _ ++ traces σ.out
  rw [traces_append, traces_map_trace, hu, Nat.add_zero, rep_succ', List.append_assoc]

end stmt

/-! ### the instrumented evaluator -/

/-- `evalN` with a `tick` in front of every NESTED statement activation -/
def evalG : Nat → Evals F
  | 0 => { expr := fail .outOfFuel, stmt := fail .outOfFuel }
  | n + 1 => { expr := exprBody (evalG n), stmt := do tick; stmtBody (evalG n) }

/-- expressions are not instrumented -/
theorem evalG_expr (n : Nat) : (evalG (F := F) n).expr = (evalN n).expr := by
  induction n with
  | zero => rfl
  | succ n ih => exact exprBody_congr ih

/-- **The knot.**  At every fuel, from every state within the nesting cap, a
    nested statement activation of the instrumented evaluator is the same
    activation of the real evaluator plus `c` marks (`c ≥ 1` unless the fuel is
    exhausted: it counts itself), where `c` is the number of trace blocks the
    real activation has added, and `c` is at most the room under the cap plus one. -/
theorem sim_evalG (n : Nat) (u : List Nat) : CG 1 0 u (evalN (F := F) n).stmt (evalG n).stmt := by
  induction n with
  | zero => exact cg_same (respects_fail _)
  | succ n ih =>
    have hcg := cg_stmtBody (evalN n) (evalG n) (evalG_expr n) (trace_evalN n).1
      (respects_evalN (R := RA) n).1 u ih
    intro σ hu hn
    obtain ⟨c, hc, e1, e2, e3, e4⟩ := hcg (addMarks 1 σ) hu hn
    have hcomm := comm_marks (m := stmtBody (evalN (F := F) n))
      (fun d => Acc.comm_stmtBody _ (Acc.comm_evalN n).1 (Acc.comm_evalN n).2) 1 σ
    refine ⟨c + 1, by have : (addMarks 1 σ).nesting = σ.nesting := rfl; omega, ?_⟩
    show Sim1 u σ (c + 1) (c + 1 + 0) (stmtBody (evalN n) σ) (M.bindM tick (fun _ => stmtBody (evalG n)) σ)
    have et : M.bindM (tick (F := F)) (fun _ => stmtBody (evalG n)) σ = stmtBody (evalG n) (addMarks 1 σ) := rfl
    rw [et, e1, hcomm, mapRes_add]
    rw [hcomm, final_mapRes] at e2 e3 e4
    refine ⟨by rw [Nat.add_comm], e2, e3, ?_⟩
    exact e4

/-- **The outermost activation** (`stmtBody (evalN fuel)`, as `run_next_statement`
    calls it): the instrumented one is the real one plus `c` marks — one per
    nested activation — and the real one has added `c + 1` trace blocks. -/
theorem sim_stmtBody_top (fuel : Nat) (u : List Nat) :
    CG 0 1 u (stmtBody (evalN (F := F) fuel)) (stmtBody (evalG fuel)) :=
  cg_stmtBody (evalN fuel) (evalG fuel) (evalG_expr fuel) (trace_evalN fuel).1
    (respects_evalN (R := RA) fuel).1 u (sim_evalG fuel u)

end Abasic.Count
