import Abasic.Proofs.Stmt2Arrays
import Abasic.Proofs.ExprFrame
/-
  C03, control stack and DATA — all statements of Ref/Stmt2.lean together:
  `stmt2_run` (the statement evaluator realises `RStmt2.exec`) and `exec2_inv`
  (the reference step keeps the invariants `RInv` of the reference state).
-/
set_option linter.unusedSectionVars false

namespace Abasic.Stmt2L
open Abasic Abasic.Ref Abasic.StmtL Abasic.ProgL Abasic.Prog2L Abasic.Hoare M
open Abasic.ExprL hiding Quiet expr_eq main
open Abasic.ExprG (Quiet expr_eq main)

variable {F : Type} [NumOps F]

/-- **Statement refinement, all statements.** -/
theorem stmt2_run {p : RProgram2 F} {r : RState2 F} {σ : St F} {n j : Nat} {ss : List (RStmt2 F)} {s : RStmt2 F}
    {fuel : Nat} (h : SReady2 p r σ n j ss s fuel) :
    Outcome p σ n ((preToks2 ss j).length + (renderS2 s).length) (renderLine2 ss).length
      (stmtBody (evalN fuel) σ) (s.exec (allData p) n j r).1 (s.exec (allData p) n j r).2 := by
  cases s with
  | base s => exact base_run h
  | forS v a b c => exact for_run h
  | nextS v => exact next_run h
  | gosubS m => exact gosub_run h
  | returnS => exact return_run h
  | readS ts => exact read_run h
  | dataS items => exact data_run h
  | restoreS => exact restore_run h
  | dimS name dims => exact dim_run h
  | letCellS name idx e => exact letCell_run h

/-! ### the invariants of the reference state -/

def Typed (vars : List (Str × Value F)) : Prop := ∀ k v, alGet k vars = some v → v.matchesName k = true

def ArrsOk (arrays : List (Str × ArrayV F)) : Prop :=
  ∀ k a, alGet k arrays = some a → a.cellCount = Props.C16.prod a.dims

theorem alGet_alSet_cases {β : Type} (k k' : Str) (v : β) (l : List (Str × β)) :
    alGet k' (alSet k v l) = if k' = k then some v else alGet k' l := by
  by_cases h : k' = k
  · subst h; rw [if_pos rfl]; exact Props.C03.alGet_alSet _ _ _
  · rw [if_neg h]; exact Proofs.XF.alGet_alSet_ne k k' v l h

theorem typed_alSet {vars : List (Str × Value F)} (h : Typed vars) {k : Str} {v : Value F}
    (hm : v.matchesName k = true) : Typed (alSet k v vars) := by
  intro k' v' hg
  rw [alGet_alSet_cases] at hg
  by_cases hk : k' = k
  · rw [if_pos hk] at hg; cases hg; rw [hk]; exact hm
  · rw [if_neg hk] at hg; exact h k' v' hg

theorem arrsOk_alSet {arrays : List (Str × ArrayV F)} (h : ArrsOk arrays) {k : Str} {a : ArrayV F}
    (ha : a.cellCount = Props.C16.prod a.dims) : ArrsOk (alSet k a arrays) := by
  intro k' a' hg
  rw [alGet_alSet_cases] at hg
  by_cases hk : k' = k
  · rw [if_pos hk] at hg; cases hg; exact ha
  · rw [if_neg hk] at hg; exact h k' a' hg

theorem closeLine_vars (res : RResult F) : res.closeLine.vars = res.vars := by
  unfold RResult.closeLine
  cases res.ctl <;> rfl

theorem exec_typed {vars : List (Str × Value F)} (h : Typed vars) : ∀ s : RStmt F, Typed (RStmt.exec vars s).vars
  | .letS x e => by
    cases he : foldE (envOf vars) e with
    | error err => simp only [RStmt.exec, he]; exact h
    | ok v =>
      cases hm : v.matchesName x with
      | true => simp only [RStmt.exec, he, hm, ↓reduceIte]; exact typed_alSet h hm
      | false => simp only [RStmt.exec, he, hm, Bool.false_eq_true, ↓reduceIte]; exact h
  | .printS items => by
    cases hp : printText (envOf vars) items false [] <;> simp only [RStmt.exec, hp] <;> exact h
  | .gotoS n => by simp only [RStmt.exec]; exact h
  | .endS => by simp only [RStmt.exec]; exact h
  | .ifS c t none => by
    cases he : foldE (envOf vars) c with
    | error err => simp only [RStmt.exec, he]; exact h
    | ok v =>
      cases hb : v.toBool with
      | true => simp only [RStmt.exec, he, hb, ↓reduceIte]; exact exec_typed h t
      | false => simp only [RStmt.exec, he, hb, Bool.false_eq_true, ↓reduceIte]; exact h
  | .ifS c t (some e) => by
    cases he : foldE (envOf vars) c with
    | error err => simp only [RStmt.exec, he]; exact h
    | ok v =>
      cases hb : v.toBool with
      | true => simp only [RStmt.exec, he, hb, ↓reduceIte]; rw [closeLine_vars]; exact exec_typed h t
      | false => simp only [RStmt.exec, he, hb, Bool.false_eq_true, ↓reduceIte]; exact exec_typed h e

theorem readAll_typed (items : List (Nat × DataElement F)) :
    ∀ (ts : List Str) (vars : List (Str × Value F)) (c : Nat), Typed vars → Typed (readAll items ts vars c).1
  | [], vars, c, h => h
  | t :: rest, vars, c, h => by
    cases hc : items[c]? with
    | none => simp only [readAll, hc]; exact h
    | some lnd =>
      obtain ⟨ln, d⟩ := lnd
      cases hco : Value.coerceFromData t d with
      | error e => simp only [readAll, hc, hco]; exact h
      | ok v =>
        have : readAll items (t :: rest) vars c = readAll items rest (alSet t v vars) (c + 1) := by
          simp only [readAll, hc, hco]
        rw [this]
        exact readAll_typed items rest _ _ (typed_alSet h (coerce_matches hco))

theorem cellSet_ok {a a' : ArrayV F} {index : List Nat} {v : Value F} (h : cellSet a index v = .ok a')
    (ha : a.cellCount = Props.C16.prod a.dims) : a'.cellCount = Props.C16.prod a'.dims := by
  unfold cellSet at h
  cases a with
  | strs dims cells =>
    cases v with
    | str x =>
      simp only at h
      cases hl : linearIndex index dims with
      | error e => rw [hl] at h; cases h
      | ok i =>
        rw [hl] at h
        simp only [Except.ok.injEq] at h
        subst h
        simpa [ArrayV.cellCount, ArrayV.dims] using ha
    | num x => cases h
  | nums dims cells =>
    cases v with
    | num x =>
      simp only at h
      cases hl : linearIndex index dims with
      | error e => rw [hl] at h; cases h
      | ok i =>
        rw [hl] at h
        simp only [Except.ok.injEq] at h
        subst h
        simpa [ArrayV.cellCount, ArrayV.dims] using ha
    | str x => cases h

theorem ensureArr_ok {name : Str} {k : Nat} {arrays : List (Str × ArrayV F)} {a : ArrayV F}
    (h : ensureArr name k arrays = .ok a) (hok : ArrsOk arrays) : a.cellCount = Props.C16.prod a.dims := by
  unfold ensureArr at h
  cases hg : alGet name arrays with
  | some a0 => rw [hg] at h; simp only [Except.ok.injEq] at h; subst h; exact hok name a0 hg
  | none => rw [hg] at h; exact (Props.C16.create_spec name _ a h).1

theorem cellStore_ok {name : Str} {index : List Nat} {v : Value F} {arrays arrs : List (Str × ArrayV F)}
    (h : cellStore name index v arrays = .ok arrs) (hok : ArrsOk arrays) : ArrsOk arrs := by
  unfold cellStore at h
  cases hm : v.matchesName name with
  | false => rw [hm] at h; simp at h
  | true =>
    rw [hm] at h
    simp only [Bool.not_true, Bool.false_eq_true, ↓reduceIte] at h
    cases hea : ensureArr name index.length arrays with
    | error e => rw [hea] at h; cases h
    | ok a =>
      rw [hea] at h
      simp only at h
      cases hcs : cellSet a index v with
      | error e => rw [hcs] at h; cases h
      | ok a' =>
        rw [hcs] at h
        simp only [Except.ok.injEq] at h
        subst h
        exact arrsOk_alSet hok (cellSet_ok hcs (ensureArr_ok hea hok))

/-- **The reference step keeps the invariants of the reference state.** -/
theorem exec2_inv (items : List (Nat × DataElement F)) (n j : Nat) {r : RState2 F} (h : RInv r) (s : RStmt2 F) :
    RInv (s.exec items n j r).1 := by
  have ht : Typed r.vars := h.typed
  have ha : ArrsOk r.arrays := h.arrs
  cases s with
  | base s => exact ⟨exec_typed ht s, ha⟩
  | forS v a b c =>
    cases hna : numE (envOf r.vars) a with
    | error err => rw [exec_for_err_a hna]; exact h
    | ok x =>
      cases hnb : numE (envOf r.vars) b with
      | error err => rw [exec_for_err_b hna hnb]; exact h
      | ok y =>
        cases hnc : stepE (envOf r.vars) c with
        | error err => rw [exec_for_err_c hna hnb hnc]; exact h
        | ok z =>
          rw [exec_for hna hnb hnc]
          unfold forPush
          by_cases hcap : ((keptLoops v r.loops).length == Extracted.stackLimit) = true
          · rw [if_pos hcap]; exact h
          · rw [if_neg hcap]
            cases hd : endsWithDollar v with
            | true => simp only [↓reduceIte]; exact h
            | false =>
              simp only [Bool.false_eq_true, ↓reduceIte]
              exact ⟨typed_alSet ht (by simp [Value.matchesName, hd]), ha⟩
  | nextS v =>
    cases hv : envOf r.vars v with
    | str x => simp only [RStmt2.exec, hv]; exact h
    | num cur =>
      have hm : ∀ y : F, (Value.num y : Value F).matchesName v = true := by
        intro y; simp only [Value.matchesName, envOf_num_name h hv, Bool.not_false]
      cases hf : findLoop v r.loops with
      | none => simp only [RStmt2.exec, hv, hf]; exact h
      | some lr =>
        obtain ⟨l, rest⟩ := lr
        simp only [RStmt2.exec, hv, hf]
        split <;> split <;> exact ⟨typed_alSet ht (hm _), ha⟩
  | gosubS m =>
    simp only [RStmt2.exec]
    split
    · exact h
    · exact ⟨ht, ha⟩
  | returnS =>
    cases hr : r.rets with
    | nil => simp only [RStmt2.exec, hr]; exact h
    | cons a as => obtain ⟨ln, k⟩ := a; simp only [RStmt2.exec, hr]; exact ⟨ht, ha⟩
  | readS ts => exact ⟨readAll_typed items ts r.vars r.data ht, ha⟩
  | dataS items' => exact h
  | restoreS => exact ⟨ht, ha⟩
  | dimS name dims =>
    cases hfi : foldSubs (envOf r.vars) dims with
    | error err => rw [exec_dim_err hfi]; exact h
    | ok index =>
      cases hhas : alHas name r.arrays with
      | true => simp only [RStmt2.exec, hfi, hhas, ↓reduceIte]; exact h
      | false =>
        cases hcr : ArrayV.create (F := F) name index with
        | error err => simp only [RStmt2.exec, hfi, hhas, Bool.false_eq_true, ↓reduceIte, hcr]; exact h
        | ok a =>
          simp only [RStmt2.exec, hfi, hhas, Bool.false_eq_true, ↓reduceIte, hcr]
          exact ⟨ht, arrsOk_alSet ha (Props.C16.create_spec name index a hcr).1⟩
  | letCellS name idx e =>
    cases hfi : foldSubs (envOf r.vars) idx with
    | error err => rw [exec_letCell_err1 hfi]; exact h
    | ok index =>
      cases hev : foldE (envOf r.vars) e with
      | error err => rw [exec_letCell_err2 hfi hev]; exact h
      | ok v =>
        rw [exec_letCell hfi hev]
        cases hcs : cellStore name index v r.arrays with
        | error err => exact h
        | ok arrs => exact ⟨ht, cellStore_ok hcs ha⟩

end Abasic.Stmt2L
