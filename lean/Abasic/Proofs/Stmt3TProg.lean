import Abasic.Proofs.Stmt3TAll
/-
  C03 / C08, route (B) of discharging `BaseTurns` — Proofs/Stmt3Prog.lean RE-RUN for programs
  with INPUT statements: the text of that file over the relations of
  Proofs/Stmt3TRel.lean (`ProgT`, `Holds`, `Mem3`, `Outcome3`, … in namespace
  `Abasic.Stmt3T`, which shadow the originals of `Abasic.Prog3L` / `Abasic.Stmt3L`).
  Lemmas of the original that do not mention the program are not repeated; they
  are used from `Abasic.Stmt3L`.  Differences to the original: `Mem3` has the
  field `input` and its `out` ends in `p.base`.  The original header follows.

  C03, third layer — what a turn (`runNextStatement`) does around its one
  statement, for the reference machine of Ref/Prog3.lean (Proofs/Prog2Lemmas.lean
  for `RProgram3`).

  `rns3_stmt` is generic in the statement: it takes the statement-level
  refinement as a hypothesis (`Outcome3`) and does the sequencing for every
  `Ctl2`.  New against Prog2Lemmas.lean: a statement may leave the cursor behind
  the colon that follows it (DEF), and an error may already be located on the
  line of a function definition.
-/
set_option linter.unusedSectionVars false

namespace Abasic.Stmt3T
open Abasic Abasic.Ref Abasic.ExprL Abasic.ExprL2 Abasic.StmtL Abasic.ProgL Abasic.Prog3L Abasic.Stmt3L M
open Abasic.Prog3I (preToksI line_splitI preToks_succI drop_tail_nilI drop_tail_consI line_memI after_lineI renderSI_head lineToks_ofI line_nonemptyI preToksI_zero resume_ltI resume_geI)
open Abasic.Props
open Abasic.Prog2L (Rel2)

variable {F : Type} [NumOps F]

/-! ### the invariant of a running program and where a step lands -/

/-- what the model state shares with the reference state, cursor and run state apart -/
structure Core3 (p : ProgT F) (r : RState3 F) (σ : St F) : Prop where
  env : Env3 p σ
  mem : Mem3 p r σ
  inv : RInv3 r
  nesting : σ.nesting = 0

/-- after the end of the program -/
def Final3 (p : ProgT F) (r : RState3 F) (σ : St F) : Prop :=
  σ.state = .idle ∧ σ.vars = r.vars ∧ σ.arrays = r.arrays ∧ σ.out = outRecs r.out ++ p.base

/-- the cursor against the program counter `(n, j)`: running on line `n`, at the
    first token of statement `j` or (when `j > 0`) on the colon in front of it -/
def Pos3 (p : ProgT F) (n j : Nat) (σ : St F) : Prop :=
  σ.state = .running ∧ σ.loc.line = some n ∧
    ∃ ss, p.q.line n = some ss ∧ j < ss.length ∧
      (σ.loc.idx = (preToksI ss j).length ∨ (0 < j ∧ σ.loc.idx + 1 = (preToksI ss j).length))

/-- **The simulation relation.**  While the program runs: `Core3` and the cursor
    stands where the program counter says.  After the end: idle, with the
    reference variables, arrays and output. -/
def Sim3 (p : ProgT F) (r : RState3 F) (σ : St F) : Prop :=
  match r.pc with
  | none => Final3 p r σ
  | some (n, j) => Core3 p r σ ∧ Pos3 p n j σ

theorem Mem3.pc {p : ProgT F} {r : RState3 F} {σ : St F} (h : Mem3 p r σ) (x : Option (Nat × Nat)) :
    Mem3 p { r with pc := x } σ :=
  ⟨h.vars, h.arrays, h.rng, h.loops, h.stack, h.data, h.out, h.fns, h.fnLines, h.input⟩

theorem Core3.pc {p : ProgT F} {r : RState3 F} {σ : St F} (h : Core3 p r σ) (x : Option (Nat × Nat)) :
    Core3 p { r with pc := x } σ := ⟨h.env, h.mem.pc x, h.inv.pc x, h.nesting⟩

/-- the state a program ends in is `Final3` -/
theorem final3_ended {p : ProgT F} {r : RState3 F} {σ : St F} (hv : σ.vars = r.vars) (ha : σ.arrays = r.arrays)
    (ho : σ.out = outRecs r.out ++ p.base) (x : Nat) : Final3 p r (ended (mv σ 0 x)) :=
  ⟨rfl, hv, ha, ho⟩

theorem core3_mv {p : ProgT F} {r : RState3 F} {σ : St F} (hc : Core3 p r σ) (a k : Nat) (loc : Loc) :
    Core3 p r ({ mv σ a k with loc := loc } : St F) :=
  ⟨⟨hc.env.lines, hc.env.warnings, hc.env.tracing⟩, hc.mem.congr rfl rfl rfl rfl rfl rfl rfl rfl rfl, hc.inv, hc.nesting⟩

/-- at the end of a line the turn moves to the next greater line, or the program ends -/
theorem land_eol3 {p : ProgT F} (hwf : p.q.WF) {r : RState3 F} {σ : St F}
    {pre : List (Token F)} {n : Nat} (hc : Core3 p r σ) (hrun : σ.state = .running)
    (hAt : At σ pre []) (hl : σ.loc.line = some n) :
    ∃ σ', C09.sequence σ = .ok () σ' ∧ Sim3 p { r with pc := (p.q.after n).map fun m => (m, 0) } σ' := by
  cases ha : p.q.after n with
  | none =>
    refine ⟨_, sequence_last hAt hl (by rw [holds_after hc.env.lines, ha]), ?_⟩
    exact final3_ended hc.mem.vars hc.mem.arrays hc.mem.out _
  | some m =>
    refine ⟨_, sequence_line hAt hl (by rw [holds_after hc.env.lines, ha]), ?_⟩
    obtain ⟨ss', hss'⟩ := after_lineI ha
    refine ⟨(core3_mv hc 0 _ _).pc _, hrun, rfl, ss', hss', line_nonemptyI hwf hss', Or.inl ?_⟩
    rw [preToksI_zero]; rfl

/-- **Behind a statement.**  With the cursor right behind statement `k - 1` of
    line `n`, the turn ends on the colon in front of statement `k`, or moves to
    the next line, or ends the program: `RProgram3.resume`. -/
theorem land_after3 {p : ProgT F} (hwf : p.q.WF) {r : RState3 F} {σ : St F} (hc : Core3 p r σ)
    (hrun : σ.state = .running) {n k : Nat} (ha : AddrRel3 p n k σ.loc) :
    ∃ σ', C09.sequence σ = .ok () σ' ∧ Sim3 p { r with pc := p.q.resume n k } σ' := by
  obtain ⟨ss, j0, s, hl, hk, hs, hloc⟩ := ha
  subst hk
  have hline : σ.loc.line = some n := by rw [hloc]
  have hidx : σ.loc.idx = (preToksI ss j0).length + (renderSI s).length := by rw [hloc]
  have hsplit := line_splitI ss j0 s hs
  have hToks := lineToks_ofI hc.env.lines hl hline
  by_cases hj : j0 + 1 < ss.length
  · obtain ⟨s', post, _, htl⟩ := drop_tail_consI hj
    rw [resume_ltI hl hj]
    refine ⟨_, sequence_more (pre := preToksI ss j0 ++ renderSI s) (t := .kw .Colon) (post := renderSI s' ++ post)
      ⟨?_, ?_⟩, ?_⟩
    · rw [hToks, hsplit, htl, List.append_assoc]
    · rw [hidx, List.length_append]
    · refine ⟨⟨⟨hc.env.lines, hc.env.warnings, hc.env.tracing⟩, (hc.mem.pc _).congr rfl rfl rfl rfl rfl rfl rfl rfl rfl,
        hc.inv.pc _, hc.nesting⟩, hrun, hline, ss, hl, hj, Or.inr ⟨Nat.succ_pos _, ?_⟩⟩
      rw [preToks_succI ss j0 s hs hj]
      show σ.loc.idx + 0 + 1 = _
      rw [hidx]
      simp only [List.length_append, List.length_cons, List.length_nil]
  · rw [resume_geI hl hj]
    exact land_eol3 hwf (pre := preToksI ss j0 ++ renderSI s) hc hrun
      ⟨by rw [hToks, hsplit, drop_tail_nilI hj, List.append_nil, List.append_nil],
       by rw [hidx, List.length_append]⟩ hline

/-! ### one turn on a statement -/

/-- the outcome `res` of a turn from `σ` against the outcome of a reference step from `r`:
    the model lands where the reference machine is; or it fails with the same
    error, nothing printed, and `populate_error_location` names the same line —
    or, for an error raised inside the body of a user function, the line of the
    definition of one of the functions defined so far -/
def StepsTo3 (p : ProgT F) (r : RState3 F) (res : Res F Unit) (σ : St F) : RState3 F ⊕ (Err × Nat) → Prop
  | .inl r' => ∃ σ', res = .ok () σ' ∧ Sim3 p r' σ'
  | .inr (e, ln) => ∃ σ' te l, res = .err te σ' ∧ σ'.out = σ.out ∧
      σ'.populate te = { err := e, loc := some l } ∧
      (l.line = some ln ∨ ∃ name m, alGet name r.fnLines = some m ∧ l.line = some m)

/-- an error of a statement started in `σ0` on line `n`, as the turn reports it -/
theorem stepsTo3_err {p : ProgT F} {r : RState3 F} {σ σ0 : St F} {n : Nat} {e : Err} {res : Res F Unit}
    (hm : Mem3 p r σ0) (hline : σ0.loc.line = some n) (hout : σ0.out = σ.out) (hnd : e ≠ .dataTypeMismatch)
    (h : ErrFrom σ0 e res) {f : Unit → M F Unit} {m : M F Unit} (hres : m σ0 = res) :
    StepsTo3 p r ((m >>= f) σ0) σ (.inr (e, n)) := by
  obtain ⟨te, σ', h1, h2, h3, h4, _, h6⟩ := h
  rw [← hres] at h1
  rcases h6 with h6 | ⟨l, name, fd, a, b, c⟩
  · refine ⟨σ', te, σ'.prevLoc, bind_err h1, h3.trans hout, ?_, Or.inl ?_⟩
    · rw [populate_unlocated σ' te h6 (by rw [h2]; exact hnd), h2]
    · show σ'.loc.line = _
      rw [h4, hline]
  · refine ⟨σ', te, l, bind_err h1, h3.trans hout, ?_, Or.inr ⟨name, fd.line, hm.fnLines name fd b, c⟩⟩
    rw [populate_located σ' te a]
    obtain ⟨e', l'⟩ := te
    simp only at a h2
    rw [a, h2]

/-- **A turn with the cursor on a statement is one reference step**, given that
    the statement evaluator does what the reference step of that statement says (`hO`). -/
theorem rns3_stmt {p : ProgT F} {fuel : Nat} (hwf : p.q.WF) {r : RState3 F} {σ : St F}
    (hc : Core3 p r σ) {n j : Nat} {ss : List (RStmtI F)} {s : RStmt3 F}
    (hpc : r.pc = some (n, j)) (hl : p.q.line n = some ss) (hs : ss[j]? = some (.base s))
    (hloc : σ.loc = { line := some n, idx := (preToksI ss j).length })
    (hO : Outcome3 p (mv { σ with state := .running } 0 (σ.reads + 1)) n
      ((preToksI ss j).length + (renderS3 s).length) (renderLineI ss).length
      (stmtBody (evalN fuel) (mv { σ with state := .running } 0 (σ.reads + 1)))
      (s.exec (allDataI p.q) n j r).1 (s.exec (allDataI p.q) n j r).2)
    (hI : RInv3 (s.exec (allDataI p.q) n j r).1) :
    StepsTo3 p r (runNextStatement fuel σ) σ (RStepB p.q r n j s) := by
  have hsplit : renderLineI ss = preToksI ss j ++ (renderS3 s ++ renderTailI (ss.drop (j + 1))) := line_splitI ss j _ hs
  have hline0 : (mv { σ with state := .running } 0 (σ.reads + 1)).loc.line = some n := by
    show σ.loc.line = _; rw [hloc]
  have hToks : lineToks (mv { σ with state := .running } 0 (σ.reads + 1)) =
      some (preToksI ss j ++ (renderS3 s ++ renderTailI (ss.drop (j + 1)))) := by
    rw [← hsplit]
    exact lineToks_ofI (σ := mv { σ with state := .running } 0 (σ.reads + 1)) hc.env.lines hl hline0
  have hAt : At (mv { σ with state := .running } 0 (σ.reads + 1)) (preToksI ss j)
      (renderS3 s ++ renderTailI (ss.drop (j + 1))) :=
    ⟨hToks, by show σ.loc.idx + 0 = _; rw [hloc]; rfl⟩
  obtain ⟨t0, ts0, hhead, _, _⟩ := renderS3_head s
  have hrun := rns_eq fuel σ (pre := preToksI ss j) (t := t0) (post := ts0 ++ renderTailI (ss.drop (j + 1)))
    (by have := hAt; rw [hhead] at this; exact this)
  rw [hrun]
  have henv0 : Env3 p (mv { σ with state := .running } 0 (σ.reads + 1)) :=
    ⟨hc.env.lines, hc.env.warnings, hc.env.tracing⟩
  have hmem0 : Mem3 p r (mv { σ with state := .running } 0 (σ.reads + 1)) :=
    hc.mem.congr rfl rfl rfl rfl rfl rfl rfl rfl rfl
  have hnest0 : (mv { σ with state := .running } 0 (σ.reads + 1)).nesting = 0 := hc.nesting
  generalize hσ0 : mv { σ with state := .running } 0 (σ.reads + 1) = σ0 at hO hAt hToks henv0 hmem0 hline0 hnest0
  have hout0 : σ0.out = σ.out := by rw [← hσ0]; rfl
  have hst0 : σ0.state = .running := by rw [← hσ0]; rfl
  generalize hex : s.exec (allDataI p.q) n j r = ex at hO hI
  obtain ⟨r', ctl⟩ := ex
  simp only at hO hI
  have hcore : ∀ {σ' : St F}, Kept σ0 σ' → Mem3 p r' σ' → Core3 p r' σ' := fun hk hm =>
    ⟨hk.envT henv0, hm, hI, by rw [hk.nesting]; exact hnest0⟩
  cases ctl with
  | next =>
    have hstep : RStepB p.q r n j s = .inl { r' with pc := p.q.resume n (j + 1) } := by
      simp only [RStepB, hex]
    rw [hstep]
    obtain ⟨σ', hres, hk, hm, hline', hidx'⟩ := hO
    rw [bind_ok hres]
    have hc' : Core3 p r' σ' := hcore hk hm
    have hrun' : σ'.state = .running := by rw [hk.state, hst0]
    rcases hidx' with hidx' | ⟨hidx', ts, hts, hcol⟩
    · refine land_after3 hwf hc' hrun' ⟨ss, j, .base s, hl, rfl, hs, ?_⟩
      show σ'.loc = { line := some n, idx := (preToksI ss j).length + (renderS3 s).length }
      rw [← hline', ← hidx']
    · -- the statement has consumed the colon behind it
      have hts' : ts = renderLineI ss := by
        have := hc'.env.lines.get n
        rw [hl, hts] at this
        simpa using this
      rw [hts', hsplit, ← List.append_assoc, ← List.length_append,
        List.getElem?_append_right (Nat.le_refl _), Nat.sub_self] at hcol
      have hj : j + 1 < ss.length := by
        by_cases hj : j + 1 < ss.length
        · exact hj
        · rw [drop_tail_nilI hj] at hcol; cases hcol
      obtain ⟨s', post, hs', htl⟩ := drop_tail_consI hj
      obtain ⟨t1, ts1, hhead1, _, _⟩ := renderSI_head s'
      rw [resume_ltI hl hj]
      have hpre : preToksI ss (j + 1) = preToksI ss j ++ renderS3 s ++ [.kw .Colon] := preToks_succI ss j _ hs hj
      have hAt' : At σ' (preToksI ss (j + 1)) (t1 :: (ts1 ++ post)) := by
        refine ⟨?_, ?_⟩
        · rw [lineToks_ofI hc'.env.lines hl hline', hsplit, htl, hpre, hhead1]
          simp only [List.append_assoc, List.cons_append, List.nil_append]
        · rw [hidx', hpre]
          simp only [List.length_append, List.length_cons, List.length_nil]
      refine ⟨_, sequence_more hAt', ?_⟩
      exact ⟨⟨⟨hc'.env.lines, hc'.env.warnings, hc'.env.tracing⟩,
        (hc'.mem.pc _).congr rfl rfl rfl rfl rfl rfl rfl rfl rfl, hc'.inv.pc _, hc'.nesting⟩,
        hrun', hline', ss, hl, hj, Or.inl hAt'.2⟩
  | skipLine =>
    have hstep : RStepB p.q r n j s = .inl { r' with pc := (p.q.after n).map fun m => (m, 0) } := by
      simp only [RStepB, hex]
    rw [hstep]
    obtain ⟨σ', hres, hk, hm, hloc'⟩ := hO
    rw [bind_ok hres]
    have hc' : Core3 p r' σ' := hcore hk hm
    have hline' : σ'.loc.line = some n := by rw [hloc']
    exact land_eol3 hwf (pre := renderLineI ss) hc' (by rw [hk.state, hst0])
      ⟨by rw [List.append_nil]; exact lineToks_ofI hc'.env.lines hl hline', by rw [hloc']⟩ hline'
  | jump m =>
    have hhas : σ0.lines.has m = p.q.hasLine m := holds_has henv0.lines m
    cases hh : p.q.hasLine m with
    | true =>
      have hstep : RStepB p.q r n j s = .inl { r' with pc := some (m, 0) } := by
        simp only [RStepB, hex, hh, ↓reduceIte]
      rw [hstep]
      obtain ⟨σ', hres, hk, hm, hloc'⟩ := hO.1 (by rw [hhas, hh])
      rw [bind_ok hres]
      have hc' : Core3 p r' σ' := hcore hk hm
      obtain ⟨ss', hss'⟩ : ∃ ss', p.q.line m = some ss' := by
        unfold RProgramI.hasLine at hh
        cases hx : p.q.line m with
        | none => rw [hx] at hh; cases hh
        | some ss' => exact ⟨ss', rfl⟩
      obtain ⟨t1, ts1, hk1, _⟩ := line_head3 hwf hss'
      have hline' : σ'.loc.line = some m := by rw [hloc']
      refine ⟨_, sequence_more (pre := []) (t := t1) (post := ts1)
        ⟨by rw [List.nil_append, ← hk1]; exact lineToks_ofI hc'.env.lines hss' hline', by rw [hloc']; rfl⟩, ?_⟩
      refine ⟨⟨⟨hc'.env.lines, hc'.env.warnings, hc'.env.tracing⟩,
        (hc'.mem.pc _).congr rfl rfl rfl rfl rfl rfl rfl rfl rfl, hI.pc _, hc'.nesting⟩, ?_, hline', ss', hss',
        line_nonemptyI hwf hss', Or.inl ?_⟩
      · show σ'.state = _; rw [hk.state, hst0]
      · rw [preToksI_zero]; show σ'.loc.idx + 0 = 0; rw [hloc']
    | false =>
      have hstep : RStepB p.q r n j s = .inr (.undefinedStatement, n) := by
        simp only [RStepB, hex, hh, Bool.false_eq_true, ↓reduceIte]
      rw [hstep]
      exact stepsTo3_err hmem0 hline0 hout0 (by simp) (hO.2 (by rw [hhas, hh])) rfl
  | stop =>
    have hstep : RStepB p.q r n j s = .inl { r' with pc := none } := by
      simp only [RStepB, hex]
    rw [hstep]
    obtain ⟨σ', hres, hk, hv, ha, ho, hloc', himm⟩ := hO
    rw [bind_ok hres]
    exact ⟨_, sequence_imm hloc' himm, final3_ended hv ha ho _⟩
  | resume m k =>
    have hstep : RStepB p.q r n j s = .inl { r' with pc := p.q.resume m k } := by
      simp only [RStepB, hex]
    rw [hstep]
    obtain ⟨σ', hres, hk, hm, haddr⟩ := hO
    rw [bind_ok hres]
    have hc' : Core3 p r' σ' := hcore hk hm
    exact land_after3 hwf hc' (by rw [hk.state, hst0]) haddr
  | error e =>
    have hstep : RStepB p.q r n j s = .inr (e, n) := by
      simp only [RStepB, hex]
    rw [hstep]
    exact stepsTo3_err hmem0 hline0 hout0 hO.1 hO.2 rfl
  | errorAt e ln =>
    have hstep : RStepB p.q r n j s = .inr (e, ln) := by
      simp only [RStepB, hex]
    rw [hstep]
    obtain ⟨he, σ', i, hres, hdl, hout', _⟩ := hO
    subst he
    exact ⟨σ', _, _, bind_err hres, by rw [hout', hout0], populate_dtm3 σ' hdl, Or.inl rfl⟩

end Abasic.Stmt3T
