import Abasic.Proofs.Lift
/-
  Relation L (extra, C16): the FOR-loop stack stays within its cap.  The two
  operations that change it (`startLoop`, `endLoop`) are covered by `RNS`.
-/
namespace Abasic.Hoare
open Abasic M

variable {F : Type}

def RL (σ σ' : St F) : Prop :=
  σ.loops.length ≤ Extracted.stackLimit → σ'.loops.length ≤ Extracted.stackLimit

instance : IsFrame (RL (F := F)) where
  refl _ := id
  trans h1 h2 := fun h => h2 (h1 h)

theorem rns_sub_RL {σ σ' : St F} (h : RNS σ σ') : RL σ σ' := h.2.2

theorem rl_of_loops_eq {σ σ' : St F} (h : σ'.loops = σ.loops) : RL σ σ' := by
  intro hl; rw [h]; exact hl

theorem rl_of_loops_nil {σ σ' : St F} (h : σ'.loops = []) : RL σ σ' := by
  intro _; rw [h]; exact Nat.zero_le _

namespace RelL
scoped macro_rules | `(tactic| respects_leaf) => `(tactic| exact rl_of_loops_eq rfl)
scoped macro_rules | `(tactic| respects_prim) => `(tactic| (refine Respects.mono (R := RNS) (fun _ _ => rns_sub_RL) ?_; respects_prim))

theorem rl_enterNested : Respects RL (enterNested (F := F)) := by
  unfold enterNested
  respects_tac

theorem rl_exitNested : Respects RL (exitNested (F := F)) := by
  unfold exitNested
  respects_tac

theorem rl_nested {α : Type} {m : M F α} (hm : Respects RL m) : Respects RL (nested m) := by
  unfold nested
  have := rl_enterNested (F := F)
  have := rl_exitNested (F := F)
  respects_tac

theorem rl_setImmediate (ts : List (Token F)) : Respects RL (setImmediate ts) := by
  unfold setImmediate
  respects_tac

theorem rl_gosubLine (n : Nat) : Respects RL (gosubLine (F := F) n) := by
  unfold gosubLine
  respects_tac

theorem rl_returnFromGosub : Respects RL (returnFromGosub (F := F)) := by
  unfold returnFromGosub
  respects_tac

theorem rl_pushFunctionCall (name : Str) (b : List (Str × Value F)) : Respects RL (pushFunctionCall name b) := by
  unfold pushFunctionCall
  respects_tac

theorem rl_popFunctionCall : Respects RL (popFunctionCall (F := F)) := by
  unfold popFunctionCall
  respects_tac

theorem runFromFirst_loops (σ : St F) : σ.runFromFirst.loops = [] := by
  unfold St.runFromFirst St.resetRuntime St.setImmediate
  dsimp only
  split <;> rfl

end RelL

open RelL in
instance : HostPrims (RL (F := F)) where
  sub := rns_sub_RL
  nested := rl_nested
  setImmediate := rl_setImmediate
  gosubLine := rl_gosubLine
  returnFromGosub := rl_returnFromGosub
  pushFunctionCall := rl_pushFunctionCall
  popFunctionCall := rl_popFunctionCall
  progBreak _ := rl_of_loops_eq rfl
  runFromFirst σ := rl_of_loops_nil (runFromFirst_loops σ)
  setNumberedLine _ _ _ := rl_of_loops_nil rfl

end Abasic.Hoare
