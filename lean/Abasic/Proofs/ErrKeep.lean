import Abasic.Proofs.Hoare
import Abasic.Proofs.StmtLemmas
/-
  Where an error leaves the cursor.

  The statement refinement (`StmtL.Refines`) says which error a failing
  statement reports but hides the state it fails in.  For error attribution
  (`populate_error_location` reads `loc.line` of that state) we need more:

  * `KQ` — a frame (Hoare.lean) respected by expression evaluation, LET and the
    PRINT loop when no user function is defined and warnings are off: the
    current line and the output queue are left alone (on both paths);
  * `stmt_errkeep` — a covered statement that fails, fails on the line it
    started on and has printed nothing.
-/
set_option linter.unusedSectionVars false

namespace Abasic.Hoare
open Abasic M

variable {F : Type}

/-- no user functions, warnings off: the line of the cursor and the output queue stay -/
def KQ (σ σ' : St F) : Prop :=
  σ.fns = [] → σ.warnings = false →
    σ'.fns = [] ∧ σ'.warnings = false ∧ σ'.loc.line = σ.loc.line ∧ σ'.out = σ.out

theorem kq_same {σ σ' : St F} (h1 : σ'.fns = σ.fns) (h2 : σ'.warnings = σ.warnings)
    (h3 : σ'.loc.line = σ.loc.line) (h4 : σ'.out = σ.out) : KQ σ σ' :=
  fun hf hw => ⟨h1.trans hf, h2.trans hw, h3, h4⟩

instance : IsFrame (KQ (F := F)) where
  refl _ := kq_same rfl rfl rfl rfl
  trans h1 h2 := fun hf hw =>
    have a := h1 hf hw
    have b := h2 a.1 a.2.1
    ⟨b.1, b.2.1, b.2.2.1.trans a.2.2.1, b.2.2.2.trans a.2.2.2⟩

macro_rules | `(tactic| respects_leaf) => `(tactic| exact kq_same rfl rfl rfl rfl)

theorem kq_vac_w {α : Type} {m : M F α} {σ : St F} (h : σ.warnings = true) : RespectsAt KQ m σ :=
  ⟨fun _ _ _ _ hw => absurd hw (by simp [h]), fun _ _ _ _ hw => absurd hw (by simp [h])⟩

theorem kq_vac_f {α : Type} {m : M F α} {σ : St F} (h : σ.fns ≠ []) : RespectsAt KQ m σ :=
  ⟨fun _ _ _ hf _ => absurd hf h, fun _ _ _ hf _ => absurd hf h⟩

/-! ### Program.lean -/

theorem kq_tokensForLine (l : Option Nat) : Respects KQ (tokensForLine (F := F) l) := by
  apply respects_of_at; intro σ
  cases l with
  | none => exact respectsAt_of_eq_ok (a := σ.imm) (σ' := σ) rfl (kq_same rfl rfl rfl rfl)
  | some n =>
    cases h : σ.lines.get n with
    | some ts =>
      refine respectsAt_of_eq_ok (a := ts) (σ' := σ) ?_ (kq_same rfl rfl rfl rfl)
      simp only [tokensForLine, h]
    | none =>
      refine respectsAt_of_eq_err (e := { err := .panic "tokens_for_line: unwrap on None" }) (σ' := σ) ?_
        (kq_same rfl rfl rfl rfl)
      simp only [tokensForLine, h]

theorem kq_tokens : Respects KQ (tokens (F := F)) := by
  apply respects_of_at; intro σ
  exact (kq_tokensForLine σ.loc.line).at σ
macro_rules | `(tactic| respects_prim) => `(tactic| exact kq_tokens)

theorem kq_peek : Respects KQ (peek (F := F)) := by
  unfold peek
  respects_tac
macro_rules | `(tactic| respects_prim) => `(tactic| exact kq_peek)

theorem kq_advance : Respects KQ (advance (F := F)) := by
  unfold advance
  respects_tac
macro_rules | `(tactic| respects_prim) => `(tactic| exact kq_advance)

theorem kq_next : Respects KQ (next (F := F)) := by
  unfold next
  respects_tac
macro_rules | `(tactic| respects_prim) => `(tactic| exact kq_next)

theorem kq_nextUnwrapped : Respects KQ (nextUnwrapped (F := F)) := by
  unfold nextUnwrapped
  respects_tac
macro_rules | `(tactic| respects_prim) => `(tactic| exact kq_nextUnwrapped)

theorem kq_expect (k : Kw) : Respects KQ (expect (F := F) k) := by
  unfold expect
  respects_tac
macro_rules | `(tactic| respects_prim) => `(tactic| exact kq_expect _)

theorem kq_accept (k : Kw) : Respects KQ (accept (F := F) k) := by
  unfold accept
  respects_tac
macro_rules | `(tactic| respects_prim) => `(tactic| exact kq_accept _)

theorem kq_peekIsKw (k : Kw) : Respects KQ (peekIsKw (F := F) k) := by
  unfold peekIsKw
  respects_tac
macro_rules | `(tactic| respects_prim) => `(tactic| exact kq_peekIsKw _)

theorem kq_tryNext {α : Type} (f : Token F → Option α) : Respects KQ (tryNext f) := by
  unfold tryNext
  respects_tac
macro_rules | `(tactic| respects_prim) => `(tactic| exact kq_tryNext _)

theorem kq_setVar (name : Str) (v : Value F) : Respects KQ (setVar name v) := by
  unfold setVar
  respects_tac
macro_rules | `(tactic| respects_prim) => `(tactic| exact kq_setVar _ _)

theorem kq_enterNested : Respects KQ (enterNested (F := F)) := by
  unfold enterNested
  respects_tac
macro_rules | `(tactic| respects_prim) => `(tactic| exact kq_enterNested)

theorem kq_exitNested : Respects KQ (exitNested (F := F)) := by
  unfold exitNested
  respects_tac
macro_rules | `(tactic| respects_prim) => `(tactic| exact kq_exitNested)

theorem kq_nested {α : Type} {m : M F α} (h : Respects KQ m) : Respects KQ (nested m) := by
  unfold nested
  respects_tac
macro_rules | `(tactic| respects_prim) => `(tactic| with_reducible apply kq_nested)

/-! ### Arrays.lean / Expr.lean -/

variable [NumOps F]

theorem kq_ensureArray (name : Str) (k : Nat) : Respects KQ (ensureArray (F := F) name k) := by
  unfold ensureArray
  respects_tac
macro_rules | `(tactic| respects_prim) => `(tactic| exact kq_ensureArray _ _)

theorem kq_arrayGet (name : Str) (idx : List Nat) : Respects KQ (arrayGet (F := F) name idx) := by
  unfold arrayGet
  respects_tac
macro_rules | `(tactic| respects_prim) => `(tactic| exact kq_arrayGet _ _)

theorem kq_arraySet (name : Str) (idx : List Nat) (v : Value F) : Respects KQ (arraySet name idx v) := by
  unfold arraySet
  respects_tac
macro_rules | `(tactic| respects_prim) => `(tactic| exact kq_arraySet _ _ _)

theorem kq_rnd (x : F) : Respects KQ (rnd x) := by
  unfold rnd
  respects_tac
macro_rules | `(tactic| respects_prim) => `(tactic| exact kq_rnd _)

theorem kq_lineBudget : Respects KQ (lineBudget (F := F)) := by
  unfold lineBudget
  respects_tac
macro_rules | `(tactic| respects_prim) => `(tactic| exact kq_lineBudget)

theorem kq_warn (msg : Str) : Respects KQ (warn (F := F) msg) := by
  unfold warn
  apply respects_get_bind
  intro σ
  cases hw : σ.warnings with
  | true => exact kq_vac_w hw
  | false => exact (respects_pure ()).at σ
macro_rules | `(tactic| respects_prim) => `(tactic| exact kq_warn _)

theorem kq_warnUndeclaredArray (name : Str) : Respects KQ (warnUndeclaredArray (F := F) name) := by
  unfold warnUndeclaredArray
  respects_tac
macro_rules | `(tactic| respects_prim) => `(tactic| exact kq_warnUndeclaredArray _)

section evaluator
variable (ev : Evals F) (he : Respects KQ ev.expr)
include he

theorem kq_arrayIndexLoop (n : Nat) (acc : List Nat) : Respects KQ (arrayIndexLoop ev n acc) := by
  induction n generalizing acc with
  | zero => unfold arrayIndexLoop; respects_tac
  | succ n ih => unfold arrayIndexLoop; respects_tac

theorem kq_arrayIndex : Respects KQ (arrayIndex ev) := by
  unfold arrayIndex
  have := kq_arrayIndexLoop ev he
  respects_tac

theorem kq_numberFunctionArg : Respects KQ (numberFunctionArg ev) := by
  unfold numberFunctionArg
  respects_tac

theorem kq_userFunctionCall (name : Str) : Respects KQ (userFunctionCall ev name) := by
  unfold userFunctionCall
  apply respects_get_bind
  intro σ
  by_cases hf : σ.fns = []
  · rw [hf]
    exact (respects_pure none).at σ
  · exact kq_vac_f hf

theorem kq_functionCall (name : Str) : Respects KQ (functionCall ev name) := by
  unfold functionCall
  have := kq_numberFunctionArg ev he
  have := kq_userFunctionCall ev he
  respects_tac

theorem kq_term : Respects KQ (term ev) := by
  unfold term
  have := kq_functionCall ev he
  have := kq_arrayIndex ev he
  respects_tac

theorem kq_parenExpr : Respects KQ (parenExpr ev) := by
  unfold parenExpr
  have := kq_term ev he
  respects_tac

theorem kq_unaryExpr : Respects KQ (unaryExpr ev) := by
  unfold unaryExpr
  have := kq_parenExpr ev he
  respects_tac

omit he in
theorem kq_levelLoop {sub : M F (Value F)} (hs : Respects KQ sub) (ops : Token F → Option BinOp)
    (n : Nat) (v : Value F) : Respects KQ (levelLoop sub ops n v) := by
  induction n generalizing v with
  | zero => unfold levelLoop; respects_tac
  | succ n ih => unfold levelLoop; respects_tac

omit he in
theorem kq_level {sub : M F (Value F)} (hs : Respects KQ sub) (ops : Token F → Option BinOp) :
    Respects KQ (level sub ops) := by
  unfold level
  have := kq_levelLoop hs ops
  respects_tac

theorem kq_orExpr : Respects KQ (orExpr ev) := by
  unfold orExpr
  exact kq_level (kq_level (kq_level (kq_level (kq_level (kq_level
    (kq_unaryExpr ev he) _) _) _) _) _) _

theorem kq_exprBody : Respects KQ (exprBody ev) := by
  unfold exprBody
  exact kq_nested (kq_orExpr ev he)

/-! ### Stmt.lean: LET and the PRINT loop -/

theorem kq_optionalArrayIndex : Respects KQ (optionalArrayIndex ev) := by
  unfold optionalArrayIndex
  have := kq_arrayIndex ev he
  respects_tac

omit he in
theorem kq_assignValue (lv : LValue) (v : Value F) : Respects KQ (assignValue lv v) := by
  unfold assignValue
  respects_tac

theorem kq_assignmentStatement (name : Str) : Respects KQ (assignmentStatement ev name) := by
  unfold assignmentStatement
  have := kq_optionalArrayIndex ev he
  have := kq_assignValue (F := F)
  respects_tac

theorem kq_letStatement : Respects KQ (letStatement ev) := by
  unfold letStatement
  have := kq_assignmentStatement ev he
  respects_tac

theorem kq_printLoop (n : Nat) (semi : Bool) (acc : Str) : Respects KQ (printLoop ev n semi acc) := by
  induction n generalizing semi acc with
  | zero => unfold printLoop; respects_tac
  | succ n ih => unfold printLoop; respects_tac

end evaluator

/-- every fuel level of the expression evaluator respects `KQ` -/
theorem kq_evalN_expr (n : Nat) : Respects KQ (evalN (F := F) n).expr := by
  induction n with
  | zero => exact respects_fail _
  | succ n ih => exact kq_exprBody _ ih

end Abasic.Hoare

/-! ### a failing covered statement fails where it started -/

namespace Abasic.StmtL
open Abasic Abasic.Ref Abasic.ExprL Abasic.Hoare M

variable {F : Type}

/-- on the error path the line of the cursor and the output queue are those of the start -/
def ErrKeep (res : Res F Unit) (σ : St F) : Prop :=
  ∀ e σ', res = .err e σ' → σ'.loc.line = σ.loc.line ∧ σ'.out = σ.out

/-- the reference results the model answers with an error -/
def Fails (σ : St F) (r : RResult F) : Prop :=
  (∃ x, r.ctl = .error x) ∨ (∃ n, r.ctl = .jump n ∧ σ.lines.has n = false)

theorem refines_succeeds {res : Res F Unit} {σ : St F} {a e : Nat} {r : RResult F}
    (h : Refines res σ a e r) (hf : ¬ Fails σ r) : ∃ s, res = .ok () s := by
  unfold Refines at h
  cases hc : r.ctl with
  | next => rw [hc] at h; obtain ⟨k, _, hk⟩ := h; exact ⟨_, hk⟩
  | skipLine => rw [hc] at h; obtain ⟨k, _, hk⟩ := h; exact ⟨_, hk⟩
  | jump n =>
    rw [hc] at h
    cases hh : σ.lines.has n with
    | true => obtain ⟨k, _, hk⟩ := h.1 hh; exact ⟨_, hk⟩
    | false => exact absurd (Or.inr ⟨n, hc, hh⟩) hf
  | stop => rw [hc] at h; obtain ⟨k, _, hk⟩ := h; exact ⟨_, hk⟩
  | error x => exact absurd (Or.inl ⟨x, hc⟩) hf

theorem refines_fails {res : Res F Unit} {σ : St F} {a e : Nat} {r : RResult F}
    (h : Refines res σ a e r) (hf : Fails σ r) :
    ∃ x s, res = .err { err := x } s ∧ s.nesting = σ.nesting := by
  unfold Refines at h
  rcases hf with ⟨x, hc⟩ | ⟨n, hc, hh⟩
  · rw [hc] at h; obtain ⟨s, hs, hn⟩ := h; exact ⟨x, s, hs, hn⟩
  · rw [hc] at h; obtain ⟨s, hs, hn⟩ := h.2 hh; exact ⟨_, s, hs, hn⟩

theorem errKeep_of_ok {res : Res F Unit} {σ s : St F} (h : res = .ok () s) : ErrKeep res σ := by
  intro e σ' h'; rw [h] at h'; cases h'

theorem fails_closeLine {σ : St F} {r : RResult F} (h : Fails σ r.closeLine) : Fails σ r := by
  cases hc : r.ctl with
  | next =>
    rw [closeLine_next hc] at h
    rcases h with ⟨x, hx⟩ | ⟨n, hx, _⟩ <;> cases hx
  | skipLine => rwa [closeLine_other (by rw [hc]; exact fun h => by cases h)] at h
  | jump n => rwa [closeLine_other (by rw [hc]; exact fun h => by cases h)] at h
  | stop => rwa [closeLine_other (by rw [hc]; exact fun h => by cases h)] at h
  | error x => rwa [closeLine_other (by rw [hc]; exact fun h => by cases h)] at h

variable [NumOps F]

theorem let_errkeep (x : Str) (e : Expr F) (n : Nat) (σ : St F) (pre rest : List (Token F))
    (hAt : At σ pre (renderS (.letS x e) ++ rest)) (htr : σ.tracing = false)
    (hf : σ.fns = []) (hw : σ.warnings = false) : ErrKeep (stmtBody (evalN n) σ) σ := by
  have hAt0 : At σ pre (.kw .Let :: .symbol x :: .kw .Equals :: (render e ++ rest)) := by
    simpa only [renderS, List.cons_append] using hAt
  have hrun : stmtBody (evalN n) σ = letStatement (evalN n) (mv σ 1 (σ.reads + 1)) := by
    unfold stmtBody
    rw [bind_ok (traceHere_off htr)]
    unfold dispatch
    rw [bind_ok (next_eq hAt0)]
  intro er σ' h
  rw [hrun] at h
  have hk := ((kq_letStatement _ (kq_evalN_expr n)).at _).2 er σ' h
  exact (hk hf hw).2.2

theorem print_errkeep (items : List (PItem F)) (n : Nat) (σ : St F) (pre rest : List (Token F))
    (hAt : At σ pre (renderS (.printS items) ++ rest)) (htr : σ.tracing = false)
    (hf : σ.fns = []) (hw : σ.warnings = false) : ErrKeep (stmtBody (evalN n) σ) σ := by
  have hAt0 : At σ pre (.kw .Print :: (renderItems items ++ rest)) := by
    simpa only [renderS, List.cons_append] using hAt
  have hAt1 := at_mv1 hAt0 (σ.reads + 1)
  have hrun : stmtBody (evalN n) σ =
      (printLoop (evalN n) ((pre ++ [Token.kw Kw.Print] ++ (renderItems items ++ rest)).length + 1) false [] >>=
        fun p => emit (.print (if p.1 then p.2 else p.2 ++ ['\n']))) (mv σ 1 (σ.reads + 1)) := by
    unfold stmtBody
    rw [bind_ok (traceHere_off htr)]
    unfold dispatch
    rw [bind_ok (next_eq hAt0)]
    show printStatement (evalN n) _ = _
    unfold printStatement
    rw [bind_ok (lineBudget_eq hAt1.1)]
  intro er σ' h
  rw [hrun] at h
  cases hp : printLoop (evalN n) ((pre ++ [Token.kw Kw.Print] ++ (renderItems items ++ rest)).length + 1)
      false [] (mv σ 1 (σ.reads + 1)) with
  | ok a s =>
    rw [bind_ok hp] at h
    cases h
  | err e2 s =>
    rw [bind_err hp] at h
    cases h
    have hk := ((kq_printLoop _ (kq_evalN_expr n) _ _ _).at _).2 _ _ hp
    exact (hk hf hw).2.2

theorem goto_errkeep (m : Nat) (n : Nat) (σ : St F) (pre rest : List (Token F))
    (hAt : At σ pre (renderS (.gotoS m : RStmt F) ++ rest)) (htr : σ.tracing = false)
    (hround : NumOps.toU64 (NumOps.ofNat m : F) = m) : ErrKeep (stmtBody (evalN n) σ) σ := by
  have hAt0 : At σ pre (.kw .Goto :: .num (NumOps.ofNat m) :: rest) := by
    simpa only [renderS, List.cons_append, List.nil_append] using hAt
  have hAt1 := at_mv1 hAt0 (σ.reads + 1)
  have hrun : stmtBody (evalN n) σ = gotoLine m (mv σ (1 + 1) (σ.reads + 1 + 1)) := by
    unfold stmtBody
    rw [bind_ok (traceHere_off htr)]
    unfold dispatch
    rw [bind_ok (next_eq hAt0)]
    show gotoStatement _ = _
    unfold gotoStatement
    rw [bind_ok (next_eq hAt1), mv_mv]
    simp only [mv_reads, hround]
  intro er σ' h
  rw [hrun, gotoLine_eq] at h
  split at h
  · cases h
  · cases h
    exact ⟨rfl, rfl⟩

theorem not_fails_of_ctl {σ : St F} {r : RResult F}
    (h : r.ctl = .next ∨ r.ctl = .skipLine ∨ r.ctl = .stop) : ¬ Fails σ r := by
  intro hF
  rcases hF with ⟨x, hx⟩ | ⟨m, hx, _⟩ <;> rcases h with h | h | h <;> rw [h] at hx <;> cases hx

/-- the branch of an IF fails where its statement fails -/
theorem branch_errkeep (t : RStmt F) (n' : Nat) (σ : St F) (pre' rest : List (Token F))
    (hAt : At σ pre' (renderS t ++ rest)) (hn : σ.nesting < Extracted.nestingLimit)
    (x : Err) (s : St F)
    (hI : stmtBody (evalN n') (nest (mv σ 0 (σ.reads + 1)) (σ.nesting + 1)) = .err { err := x } s)
    (hs : s.nesting = σ.nesting + 1) :
    statementOrGoto (evalN (n' + 1)) σ = .err { err := x } (nest s σ.nesting) := by
  obtain ⟨k, ts, hhead⟩ := renderS_head t
  have hAt' : At σ pre' (.kw k :: (ts ++ rest)) := by rw [hhead] at hAt; exact hAt
  rw [statementOrGoto_kw hAt']
  exact nested_err (σ := mv σ 0 (σ.reads + 1)) hn hI hs

theorem stmt_errkeep : ∀ (s : RStmt F) (n : Nat) (σ : St F) (pre rest : List (Token F)),
    At σ pre (renderS s ++ rest) → Quiet σ → σ.tracing = false → σ.fns = [] → NoElseLine σ →
    sdepth s ≤ n → σ.nesting + sdepth s ≤ Extracted.nestingLimit → s.Covered → EndFor s rest →
    ErrKeep (stmtBody (evalN n) σ) σ
  | .letS x e, n, σ, pre, rest, hAt, hq, htr, hf, _, _, _, _, _ =>
    let_errkeep x e n σ pre rest hAt htr hf hq.2
  | .printS items, n, σ, pre, rest, hAt, hq, htr, hf, _, _, _, _, _ =>
    print_errkeep items n σ pre rest hAt htr hf hq.2
  | .gotoS m, n, σ, pre, rest, hAt, _, htr, _, _, _, _, hcov, _ =>
    goto_errkeep m n σ pre rest hAt htr hcov
  | .endS, n, σ, pre, rest, hAt, hq, htr, _, _, _, _, _, _ => by
    have h := end_run n σ pre rest 0 0 hAt htr hq.1
    obtain ⟨s, hs⟩ := refines_succeeds h (not_fails_of_ctl (Or.inr (Or.inr rfl)))
    exact errKeep_of_ok hs
  | .ifS c t none, n, σ, pre, rest, hAt, hq, htr, hf, hNE, hd, hn, hcov, hE => by
    have hR := stmt_run (.ifS c t none) n σ pre rest hAt hq htr hNE hd hn hcov hE
    by_cases hF' : ¬ Fails σ (RStmt.exec σ.vars (.ifS c t none))
    · obtain ⟨s, hs⟩ := refines_succeeds hR hF'
      exact errKeep_of_ok hs
    have hF := Classical.not_not.mp hF'
    clear hF'
    have hLE : LineEnd rest := by
      rcases hE with h | h
      · exact h
      · exact absurd h.1 (by simp [RStmt.simple])
    obtain ⟨helse, hcovt⟩ : t.elseFree = true ∧ t.Covered := by simpa only [RStmt.Covered] using hcov
    simp only [sdepth] at hd hn
    obtain ⟨n', rfl⟩ : ∃ n', n = n' + 1 := ⟨n - 1, by omega⟩
    have hAt0 : At σ pre (.kw .If :: (render c ++ .kw .Then :: (renderS t ++ rest))) := by
      simpa only [renderS, List.cons_append, List.append_assoc] using hAt
    have hAt1 := at_mv1 hAt0 (σ.reads + 1)
    cases hev : foldE (getVar σ) c with
    | error x =>
      have hrun : stmtBody (evalN (n' + 1)) σ = ifStatement (evalN (n' + 1)) (mv σ 1 (σ.reads + 1)) := by
        unfold stmtBody
        rw [bind_ok (traceHere_off htr)]
        unfold dispatch
        rw [bind_ok (next_eq hAt0)]
      have hX := expr_eq c (main c).1 (n' + 1) (mv σ 1 (σ.reads + 1)) _ _ (by omega) (by simp only [mv_nesting]; omega)
        (ends_then 6 _) hAt1 (hq.mv _ _)
      rw [getVar_mv, hev] at hX
      obtain ⟨σ', hσ', _⟩ := hX
      intro er s h
      rw [hrun] at h
      unfold ifStatement at h
      rw [bind_err hσ'] at h
      cases h
      have hk := ((kq_evalN_expr (n' + 1)).at _).2 _ _ hσ'
      exact (hk hf hq.2).2.2
    | ok v =>
      have hC := if_cond c (n' + 1) σ pre _ hAt0 hq htr (by omega) (by omega)
      rw [hev] at hC
      obtain ⟨r, hr, hrun⟩ := hC
      have hAt3 := if_at c hAt0 r
      cases hb : v.toBool with
      | false =>
        have hr' : RStmt.exec σ.vars (.ifS c t none) = { vars := σ.vars, out := [], ctl := .skipLine } := by
          simp only [RStmt.exec, ← getVar_eq_envOf, hev, hb, Bool.false_eq_true, ↓reduceIte]
        rw [hr'] at hF
        exact absurd hF (not_fails_of_ctl (Or.inr (Or.inl rfl)))
      | true =>
        have hr' : RStmt.exec σ.vars (.ifS c t none) = RStmt.exec σ.vars t := by
          simp only [RStmt.exec, ← getVar_eq_envOf, hev, hb, ↓reduceIte]
        rw [hr'] at hF
        have hI := stmt_run t n' (nest (mv (mv σ (1 + (render c).length + 1) r) 0 (r + 1)) (σ.nesting + 1))
          (pre ++ [.kw .If] ++ render c ++ [.kw .Then]) rest (at_nest (at_mv0 hAt3 _) _)
          ((hq.mv _ _).mv _ _ |>.nest _) htr hNE (by omega)
          (by simp only [nest_nesting]; omega) hcovt (Or.inl hLE)
        have hK := stmt_errkeep t n' (nest (mv (mv σ (1 + (render c).length + 1) r) 0 (r + 1)) (σ.nesting + 1))
          (pre ++ [.kw .If] ++ render c ++ [.kw .Then]) rest (at_nest (at_mv0 hAt3 _) _)
          ((hq.mv _ _).mv _ _ |>.nest _) htr hf hNE (by omega)
          (by simp only [nest_nesting]; omega) hcovt (Or.inl hLE)
        obtain ⟨x, s, hs, hsn⟩ := refines_fails hI hF
        have hres := branch_errkeep t n' (mv σ (1 + (render c).length + 1) r) _ rest hAt3
          (by simp only [mv_nesting]; omega) x s hs hsn
        have hwhole : ifRest (evalN (n' + 1)) true (mv σ (1 + (render c).length + 1) r) =
            .err { err := x } (nest s σ.nesting) := by
          show (statementOrGoto (evalN (n' + 1)) >>= fun _ => tailElse) _ = _
          exact bind_err hres
        intro er s' h
        rw [hrun, hb, hwhole] at h
        cases h
        exact hK _ s hs
  | .ifS c t (some e), n, σ, pre, rest, hAt, hq, htr, hf, hNE, hd, hn, hcov, hE => by
    have hR := stmt_run (.ifS c t (some e)) n σ pre rest hAt hq htr hNE hd hn hcov hE
    by_cases hF' : ¬ Fails σ (RStmt.exec σ.vars (.ifS c t (some e)))
    · obtain ⟨s, hs⟩ := refines_succeeds hR hF'
      exact errKeep_of_ok hs
    have hF := Classical.not_not.mp hF'
    clear hF'
    have hLE : LineEnd rest := by
      rcases hE with h | h
      · exact h
      · exact absurd h.1 (by simp [RStmt.simple])
    obtain ⟨hsimple, hcovt, hcove⟩ : t.simple = true ∧ t.Covered ∧ e.Covered := by
      simpa only [RStmt.Covered] using hcov
    simp only [sdepth] at hd hn
    obtain ⟨n', rfl⟩ : ∃ n', n = n' + 1 := ⟨n - 1, by omega⟩
    have hAt0 : At σ pre (.kw .If :: (render c ++ .kw .Then ::
        (renderS t ++ .kw .Else :: (renderS e ++ rest)))) := by
      simpa only [renderS, List.cons_append, List.append_assoc] using hAt
    have hAt1 := at_mv1 hAt0 (σ.reads + 1)
    cases hev : foldE (getVar σ) c with
    | error x =>
      have hrun : stmtBody (evalN (n' + 1)) σ = ifStatement (evalN (n' + 1)) (mv σ 1 (σ.reads + 1)) := by
        unfold stmtBody
        rw [bind_ok (traceHere_off htr)]
        unfold dispatch
        rw [bind_ok (next_eq hAt0)]
      have hX := expr_eq c (main c).1 (n' + 1) (mv σ 1 (σ.reads + 1)) _ _ (by omega) (by simp only [mv_nesting]; omega)
        (ends_then 6 _) hAt1 (hq.mv _ _)
      rw [getVar_mv, hev] at hX
      obtain ⟨σ', hσ', _⟩ := hX
      intro er s h
      rw [hrun] at h
      unfold ifStatement at h
      rw [bind_err hσ'] at h
      cases h
      have hk := ((kq_evalN_expr (n' + 1)).at _).2 _ _ hσ'
      exact (hk hf hq.2).2.2
    | ok v =>
      have hC := if_cond c (n' + 1) σ pre _ hAt0 hq htr (by omega) (by omega)
      rw [hev] at hC
      obtain ⟨r, hr, hrun⟩ := hC
      have hAt3 := if_at c hAt0 r
      cases hb : v.toBool with
      | true =>
        have hr' : RStmt.exec σ.vars (.ifS c t (some e)) = (RStmt.exec σ.vars t).closeLine := by
          simp only [RStmt.exec, ← getVar_eq_envOf, hev, hb, ↓reduceIte]
        rw [hr'] at hF
        have hF' := fails_closeLine hF
        have hI := stmt_run t n' (nest (mv (mv σ (1 + (render c).length + 1) r) 0 (r + 1)) (σ.nesting + 1))
          (pre ++ [.kw .If] ++ render c ++ [.kw .Then]) (.kw .Else :: (renderS e ++ rest))
          (at_nest (at_mv0 hAt3 _) _)
          ((hq.mv _ _).mv _ _ |>.nest _) htr hNE (by omega)
          (by simp only [nest_nesting]; omega) hcovt (Or.inr ⟨hsimple, stmtEnd_else _⟩)
        have hK := stmt_errkeep t n' (nest (mv (mv σ (1 + (render c).length + 1) r) 0 (r + 1)) (σ.nesting + 1))
          (pre ++ [.kw .If] ++ render c ++ [.kw .Then]) (.kw .Else :: (renderS e ++ rest))
          (at_nest (at_mv0 hAt3 _) _)
          ((hq.mv _ _).mv _ _ |>.nest _) htr hf hNE (by omega)
          (by simp only [nest_nesting]; omega) hcovt (Or.inr ⟨hsimple, stmtEnd_else _⟩)
        obtain ⟨x, s, hs, hsn⟩ := refines_fails hI hF'
        have hres := branch_errkeep t n' (mv σ (1 + (render c).length + 1) r) _ _ hAt3
          (by simp only [mv_nesting]; omega) x s hs hsn
        have hwhole : ifRest (evalN (n' + 1)) true (mv σ (1 + (render c).length + 1) r) =
            .err { err := x } (nest s σ.nesting) := by
          show (statementOrGoto (evalN (n' + 1)) >>= fun _ => tailElse) _ = _
          exact bind_err hres
        intro er s' h
        rw [hrun, hb, hwhole] at h
        cases h
        exact hK _ s hs
      | false =>
        have hr' : RStmt.exec σ.vars (.ifS c t (some e)) = RStmt.exec σ.vars e := by
          simp only [RStmt.exec, ← getVar_eq_envOf, hev, hb, Bool.false_eq_true, ↓reduceIte]
        rw [hr'] at hF
        have hAt4 := at_mv hAt3 (r + (renderS t).length)
        rw [mv_mv] at hAt4
        have hAt5 := at_mv1 hAt4 (r + (renderS t).length + 1)
        rw [mv_mv] at hAt5
        have hI := stmt_run e n'
          (nest (mv (mv σ (1 + (render c).length + 1 + (renderS t).length + 1) (r + (renderS t).length + 1)) 0
            (r + (renderS t).length + 1 + 1)) (σ.nesting + 1))
          _ rest (at_nest (at_mv0 hAt5 _) _)
          ((hq.mv _ _).mv _ _ |>.nest _) htr hNE (by omega)
          (by simp only [nest_nesting]; omega) hcove (Or.inl hLE)
        have hK := stmt_errkeep e n'
          (nest (mv (mv σ (1 + (render c).length + 1 + (renderS t).length + 1) (r + (renderS t).length + 1)) 0
            (r + (renderS t).length + 1 + 1)) (σ.nesting + 1))
          _ rest (at_nest (at_mv0 hAt5 _) _)
          ((hq.mv _ _).mv _ _ |>.nest _) htr hf hNE (by omega)
          (by simp only [nest_nesting]; omega) hcove (Or.inl hLE)
        obtain ⟨x, s, hs, hsn⟩ := refines_fails hI hF
        have hres := branch_errkeep e n'
          (mv σ (1 + (render c).length + 1 + (renderS t).length + 1) (r + (renderS t).length + 1)) _ rest hAt5
          (by simp only [mv_nesting]; omega) x s hs hsn
        intro er s' h
        rw [hrun, hb] at h
        change (lineBudget >>= fun b => ifSkipLoop (evalN (n' + 1)) b) _ = _ at h
        rw [bind_ok (lineBudget_eq hAt3.1)] at h
        obtain ⟨k, hk⟩ : ∃ k, (pre ++ [Token.kw Kw.If] ++ render c ++ [Token.kw Kw.Then] ++
            (renderS t ++ Token.kw Kw.Else :: (renderS e ++ rest))).length + 1
            = (k + 1) + (renderS t).length :=
          ⟨pre.length + (render c).length + (renderS e).length + rest.length + 2 + 1, by
            simp only [List.length_append, List.length_cons, List.length_nil]; omega⟩
        rw [hk, ifSkipLoop_skip _ (renderS t) (k + 1) _ _ _ hAt3
          (renderS_tokens t (simple_elseFree t hsimple)), mv_mv] at h
        simp only [mv_reads] at h
        rw [ifSkipLoop_else hAt4, mv_mv] at h
        simp only [mv_reads] at h
        rw [hres] at h
        cases h
        exact hK _ s hs

end Abasic.StmtL
