import Abasic.Proofs.LinesLemmas
/-
  A normal form for the program store.

  `Lines.map` models a `HashMap` as an association list; its order records the
  history of insertions and carries no meaning.  `canon l` re-arranges the token
  map in ascending key order (first binding of a key wins, as `getMap` reads it);
  it keeps `get`, `sorted` and everything computed from them, and two stores have
  the same normal form exactly when they have the same ordered index and the same
  `get`.  `lnorm σ` normalises the store of a state.
-/
namespace Abasic
variable {F : Type}

namespace Lines

/-- insert / overwrite a binding in a key-ascending association list -/
def insertKV (k : Nat) (v : List (Token F)) : List (Nat × List (Token F)) → List (Nat × List (Token F))
  | [] => [(k, v)]
  | (k', v') :: rest =>
    if k < k' then (k, v) :: (k', v') :: rest
    else if k = k' then (k, v) :: rest
    else (k', v') :: insertKV k v rest

/-- the bindings in ascending key order; of several bindings of a key the first wins -/
def canonMap (m : List (Nat × List (Token F))) : List (Nat × List (Token F)) :=
  m.foldr (fun p acc => insertKV p.1 p.2 acc) []

def canon (l : Lines F) : Lines F := { map := canonMap l.map, sorted := l.sorted }

def KeySorted (m : List (Nat × List (Token F))) : Prop := (m.map Prod.fst).Pairwise (· < ·)

theorem getMap_insertKV (k n : Nat) (v : List (Token F)) (m : List (Nat × List (Token F))) :
    getMap n (insertKV k v m) = if n = k then some v else getMap n m := by
  induction m with
  | nil =>
    simp only [insertKV, getMap]
    by_cases h : n = k
    · simp [h]
    · have : (k == n) = false := by simpa using fun e : k = n => h e.symm
      simp [h, this]
  | cons p rest ih =>
    obtain ⟨k', v'⟩ := p
    simp only [insertKV]
    by_cases h1 : k < k'
    · rw [if_pos h1]
      simp only [getMap]
      by_cases h : n = k
      · simp [h]
      · have : (k == n) = false := by simpa using fun e : k = n => h e.symm
        simp [h, this]
    · rw [if_neg h1]
      by_cases h2 : k = k'
      · rw [if_pos h2]
        subst h2
        simp only [getMap]
        by_cases h : n = k
        · simp [h]
        · have : (k == n) = false := by simpa using fun e : k = n => h e.symm
          simp [h, this]
      · rw [if_neg h2]
        simp only [getMap, ih]
        by_cases h : n = k
        · subst h
          have : (k' == n) = false := by simpa using fun e : k' = n => h2 e.symm
          simp [this]
        · simp [h]

theorem getMap_canonMap (n : Nat) (m : List (Nat × List (Token F))) :
    getMap n (canonMap m) = getMap n m := by
  induction m with
  | nil => rfl
  | cons p rest ih =>
    obtain ⟨k, v⟩ := p
    show getMap n (insertKV k v (canonMap rest)) = _
    rw [getMap_insertKV, ih]
    simp only [getMap]
    by_cases h : n = k
    · simp [h]
    · have : (k == n) = false := by simpa using fun e : k = n => h e.symm
      simp [h, this]

theorem keys_insertKV (k x : Nat) (v : List (Token F)) (m : List (Nat × List (Token F))) :
    x ∈ (insertKV k v m).map Prod.fst ↔ x = k ∨ x ∈ m.map Prod.fst := by
  induction m with
  | nil => simp [insertKV]
  | cons p rest ih =>
    obtain ⟨k', v'⟩ := p
    simp only [insertKV]
    by_cases h1 : k < k'
    · rw [if_pos h1]; simp
    · rw [if_neg h1]
      by_cases h2 : k = k'
      · rw [if_pos h2]; subst h2; simp
      · rw [if_neg h2]
        simp only [List.map_cons, List.mem_cons, ih]
        constructor
        · rintro (h | h | h)
          · exact .inr (.inl h)
          · exact .inl h
          · exact .inr (.inr h)
        · rintro (h | h | h)
          · exact .inr (.inl h)
          · exact .inl h
          · exact .inr (.inr h)

theorem keySorted_insertKV (k : Nat) (v : List (Token F)) (m : List (Nat × List (Token F)))
    (h : KeySorted m) : KeySorted (insertKV k v m) := by
  induction m with
  | nil => simp [insertKV, KeySorted]
  | cons p rest ih =>
    obtain ⟨k', v'⟩ := p
    have hc := List.pairwise_cons.mp (show ((k' :: rest.map Prod.fst).Pairwise (· < ·)) from h)
    simp only [insertKV]
    by_cases h1 : k < k'
    · rw [if_pos h1]
      show ((k :: k' :: rest.map Prod.fst).Pairwise (· < ·))
      refine List.pairwise_cons.mpr ⟨?_, h⟩
      intro x hx
      rcases List.mem_cons.mp hx with rfl | hx
      · exact h1
      · exact Nat.lt_trans h1 (hc.1 x hx)
    · rw [if_neg h1]
      by_cases h2 : k = k'
      · rw [if_pos h2]; subst h2
        exact h
      · rw [if_neg h2]
        show ((k' :: (insertKV k v rest).map Prod.fst).Pairwise (· < ·))
        refine List.pairwise_cons.mpr ⟨?_, ih hc.2⟩
        intro x hx
        rcases (keys_insertKV k x v rest).mp hx with rfl | hx
        · omega
        · exact hc.1 x hx

theorem keySorted_canonMap (m : List (Nat × List (Token F))) : KeySorted (canonMap m) := by
  induction m with
  | nil => simp [canonMap, KeySorted]
  | cons p rest ih => exact keySorted_insertKV p.1 p.2 _ ih

theorem getMap_none_of_not_key (n : Nat) (m : List (Nat × List (Token F)))
    (h : n ∉ m.map Prod.fst) : getMap n m = none := by
  induction m with
  | nil => rfl
  | cons p rest ih =>
    obtain ⟨k, v⟩ := p
    simp only [List.map_cons, List.mem_cons, not_or] at h
    have : (k == n) = false := by simpa using fun e : k = n => h.1 e.symm
    simp only [getMap, this, Bool.false_eq_true, if_false]
    exact ih h.2

/-- key-ascending association lists are determined by what `getMap` reads from them -/
theorem keySorted_ext (a b : List (Nat × List (Token F))) (ha : KeySorted a) (hb : KeySorted b)
    (h : ∀ n, getMap n a = getMap n b) : a = b := by
  induction a generalizing b with
  | nil =>
    cases b with
    | nil => rfl
    | cons q b' =>
      obtain ⟨k, v⟩ := q
      have := h k
      simp [getMap] at this
  | cons p a' ih =>
    obtain ⟨k, v⟩ := p
    have hca := List.pairwise_cons.mp (show ((k :: a'.map Prod.fst).Pairwise (· < ·)) from ha)
    cases b with
    | nil =>
      have := h k
      simp [getMap] at this
    | cons q b' =>
      obtain ⟨k', v'⟩ := q
      have hcb := List.pairwise_cons.mp (show ((k' :: b'.map Prod.fst).Pairwise (· < ·)) from hb)
      have hk : k = k' := by
        rcases Nat.lt_trichotomy k k' with hlt | heq | hgt
        · exfalso
          have h1 := h k
          have hne : (k' == k) = false := by simpa using (show k' ≠ k by omega)
          have hnot : k ∉ b'.map Prod.fst := fun hm => by have := hcb.1 k hm; omega
          simp [getMap, hne, getMap_none_of_not_key k b' hnot] at h1
        · exact heq
        · exfalso
          have h1 := h k'
          have hne : (k == k') = false := by simpa using (show k ≠ k' by omega)
          have hnot : k' ∉ a'.map Prod.fst := fun hm => by have := hca.1 k' hm; omega
          simp [getMap, hne, getMap_none_of_not_key k' a' hnot] at h1
      subst hk
      have hv : v = v' := by
        have := h k
        simpa [getMap] using this
      subst hv
      have hrest : a' = b' := by
        apply ih b' hca.2 hcb.2
        intro n
        by_cases hn : n = k
        · subst hn
          rw [getMap_none_of_not_key n a' (fun hm => by have := hca.1 n hm; omega),
            getMap_none_of_not_key n b' (fun hm => by have := hcb.1 n hm; omega)]
        · have := h n
          have hne : (k == n) = false := by simpa using fun e : k = n => hn e.symm
          simpa [getMap, hne] using this
      rw [hrest]

theorem canonMap_of_keySorted (m : List (Nat × List (Token F))) (h : KeySorted m) : canonMap m = m :=
  keySorted_ext _ _ (keySorted_canonMap m) h (fun n => getMap_canonMap n m)

@[simp] theorem canon_sorted (l : Lines F) : l.canon.sorted = l.sorted := rfl

@[simp] theorem canon_get (l : Lines F) (n : Nat) : l.canon.get n = l.get n := getMap_canonMap n l.map

@[simp] theorem canon_has (l : Lines F) (n : Nat) : l.canon.has n = l.has n := by
  simp only [Lines.has, canon_get]

@[simp] theorem canon_first (l : Lines F) : l.canon.first = l.first := rfl

@[simp] theorem canon_after (l : Lines F) (n : Nat) : l.canon.after n = l.after n := rfl

@[simp] theorem canon_listTokens (l : Lines F) : l.canon.listTokens = l.listTokens := by
  simp only [Lines.listTokens, canon_sorted, canon_get]

theorem canon_idem (l : Lines F) : l.canon.canon = l.canon := by
  simp only [canon, canonMap_of_keySorted _ (keySorted_canonMap l.map)]

/-- two stores have the same normal form iff they have the same ordered index and the same map -/
theorem canon_eq_iff (l l' : Lines F) :
    l.canon = l'.canon ↔ l.sorted = l'.sorted ∧ ∀ n, l.get n = l'.get n := by
  constructor
  · intro h
    refine ⟨(by show l.canon.sorted = l'.canon.sorted; rw [h]), fun n => ?_⟩
    rw [← canon_get l, ← canon_get l', h]
  · rintro ⟨h1, h2⟩
    have hm : canonMap l.map = canonMap l'.map :=
      keySorted_ext _ _ (keySorted_canonMap _) (keySorted_canonMap _)
        (fun n => by rw [getMap_canonMap, getMap_canonMap]; exact h2 n)
    simp only [canon, hm, h1]

theorem get_set' (l : Lines F) (n m : Nat) (ts : List (Token F)) :
    (l.set n ts).get m = if m = n then (if ts.isEmpty then none else some ts) else l.get m := by
  unfold Lines.set Lines.get
  by_cases he : ts.isEmpty
  · simp only [he, ↓reduceIte, getMap_eraseMap]
  · simp only [he, Bool.false_eq_true, ↓reduceIte, getMap_setMap]

/-- an edit of the store commutes with normalisation (up to normalisation) -/
theorem canon_set_congr (l l' : Lines F) (h : l.canon = l'.canon) (n : Nat) (ts : List (Token F)) :
    (l.set n ts).canon = (l'.set n ts).canon := by
  obtain ⟨h1, h2⟩ := (canon_eq_iff l l').mp h
  rw [canon_eq_iff]
  refine ⟨?_, fun m => by rw [get_set', get_set', h2 m]⟩
  unfold Lines.set
  split <;> simp only [h1]

end Lines

variable [NumOps F]

@[simp] theorem Lines.canon_list (l : Lines F) : l.canon.list = l.list := by
  simp only [Lines.list, Lines.canon_listTokens]

omit [NumOps F] in
@[simp] theorem Lines.canon_dataChunks (l : Lines F) : l.canon.dataChunks = l.dataChunks := by
  simp only [Lines.dataChunks, Lines.canon_listTokens]

end Abasic
