import Abasic.Interp
/-
  Where the evaluator uses its two recursive entry points.

  Every function of Expr.lean and Stmt.lean takes the pair `ev : Evals F`
  (`ev.expr` = `evaluate_expression`, `ev.stmt` = `evaluate_statement`, the two
  places where the Rust code recurses on the native stack).  Proved here, by
  unfolding each definition once:

  * `*_congr` — every function of Expr.lean, and every statement function other
    than `statementOrGoto`, `ifSkipLoop`, `ifStatement`, `dispatch`, `stmtBody`,
    depends on `ev` only through `ev.expr`: it never calls the statement
    evaluator;
  * `dispatchK` / `dispatch_eq` — `dispatch` is `next` followed by a case split
    on the token; `dispatchK_congr`: every case but IF is independent of
    `ev.stmt`.

  So `ev.stmt` is reachable from `stmtBody ev` only through
  `dispatch → ifStatement → (ifSkipLoop →) statementOrGoto → nested ev.stmt`.
-/
set_option linter.unusedSectionVars false

namespace Abasic.Indep
open Abasic M

variable {F : Type} [NumOps F] {ev ev' : Evals F}

theorem arrayIndexLoop_congr (h : ev.expr = ev'.expr) : arrayIndexLoop ev = arrayIndexLoop ev' := by
  funext n
  induction n with
  | zero => funext acc; simp only [arrayIndexLoop]
  | succ n ih => funext acc; simp only [arrayIndexLoop, h, ih]

theorem arrayIndex_congr (h : ev.expr = ev'.expr) : arrayIndex ev = arrayIndex ev' := by
  unfold arrayIndex
  rw [arrayIndexLoop_congr h]

theorem numberFunctionArg_congr (h : ev.expr = ev'.expr) : numberFunctionArg ev = numberFunctionArg ev' := by
  unfold numberFunctionArg
  rw [h]

theorem bindArgs_congr (h : ev.expr = ev'.expr) : bindArgs ev = bindArgs ev' := by
  funext arity args
  induction args with
  | nil => funext i acc; simp only [bindArgs]
  | cons a rest ih => funext i acc; simp only [bindArgs, h, ih]

theorem userFunctionCall_congr (h : ev.expr = ev'.expr) : userFunctionCall ev = userFunctionCall ev' := by
  funext name
  unfold userFunctionCall
  rw [bindArgs_congr h, h]

theorem functionCall_congr (h : ev.expr = ev'.expr) : functionCall ev = functionCall ev' := by
  funext name
  unfold functionCall
  rw [numberFunctionArg_congr h, userFunctionCall_congr h]

theorem term_congr (h : ev.expr = ev'.expr) : term ev = term ev' := by
  unfold term
  rw [functionCall_congr h, arrayIndex_congr h]

theorem parenExpr_congr (h : ev.expr = ev'.expr) : parenExpr ev = parenExpr ev' := by
  unfold parenExpr
  rw [term_congr h, h]

theorem unaryExpr_congr (h : ev.expr = ev'.expr) : unaryExpr ev = unaryExpr ev' := by
  unfold unaryExpr
  rw [parenExpr_congr h]

theorem orExpr_congr (h : ev.expr = ev'.expr) : orExpr ev = orExpr ev' := by
  unfold orExpr
  rw [unaryExpr_congr h]

/-- `evaluate_expression` never calls the statement evaluator -/
theorem exprBody_congr (h : ev.expr = ev'.expr) : exprBody ev = exprBody ev' := by
  unfold exprBody
  rw [orExpr_congr h]

/-! ### Stmt.lean -/

theorem optionalArrayIndex_congr (h : ev.expr = ev'.expr) : optionalArrayIndex ev = optionalArrayIndex ev' := by
  unfold optionalArrayIndex
  rw [arrayIndex_congr h]

theorem assignmentStatement_congr (h : ev.expr = ev'.expr) : assignmentStatement ev = assignmentStatement ev' := by
  funext name
  unfold assignmentStatement
  rw [optionalArrayIndex_congr h, h]

theorem letStatement_congr (h : ev.expr = ev'.expr) : letStatement ev = letStatement ev' := by
  unfold letStatement
  rw [assignmentStatement_congr h]

theorem parseLValue_congr (h : ev.expr = ev'.expr) : parseLValue ev = parseLValue ev' := by
  unfold parseLValue
  rw [optionalArrayIndex_congr h]

theorem readLoop_congr (h : ev.expr = ev'.expr) : readLoop ev = readLoop ev' := by
  funext n
  induction n with
  | zero => simp only [readLoop]
  | succ n ih => simp only [readLoop, parseLValue_congr h, ih]

theorem readStatement_congr (h : ev.expr = ev'.expr) : readStatement ev = readStatement ev' := by
  unfold readStatement
  rw [readLoop_congr h]

theorem inputStatement_congr (h : ev.expr = ev'.expr) : inputStatement ev = inputStatement ev' := by
  unfold inputStatement
  rw [parseLValue_congr h]

theorem dimStatement_congr (h : ev.expr = ev'.expr) : dimStatement ev = dimStatement ev' := by
  unfold dimStatement
  rw [parseLValue_congr h]

theorem printLoop_congr (h : ev.expr = ev'.expr) : printLoop ev = printLoop ev' := by
  funext n
  induction n with
  | zero => funext semi acc; simp only [printLoop]
  | succ n ih => funext semi acc; simp only [printLoop, h, ih]

theorem printStatement_congr (h : ev.expr = ev'.expr) : printStatement ev = printStatement ev' := by
  unfold printStatement
  rw [printLoop_congr h]

theorem forStatement_congr (h : ev.expr = ev'.expr) : forStatement ev = forStatement ev' := by
  unfold forStatement
  rw [h]

/-! ### `dispatch` -/

/-- the case split of `dispatch` on the token `next` returned -/
def dispatchK (ev : Evals F) : Option (Token F) → M F Unit
  | none => pure ()
  | some (.remark _) => pure ()
  | some (.data _) => pure ()
  | some (.symbol name) => assignmentStatement ev name
  | some (.kw k) =>
    match k with
    | .Stop => breakAtCurrentLocation
    | .Dim => dimStatement ev
    | .Print => printStatement ev
    | .QuestionMark => printStatement ev
    | .Input => inputStatement ev
    | .If => ifStatement ev
    | .Goto => gotoStatement
    | .Gosub => gosubStatement
    | .Return => returnFromGosub
    | .End => setImmediate []
    | .For => forStatement ev
    | .Next => nextStatement
    | .Restore => modify fun s => { s with data := none }
    | .Def => defStatement
    | .Read => readStatement ev
    | .Colon => pure ()
    | .Let => letStatement ev
    | _ => fail (.syntax .unexpectedToken)
  | some _ => fail (.syntax .unexpectedToken)

theorem dispatch_eq (ev : Evals F) : dispatch ev = (next >>= dispatchK ev) := by
  unfold dispatch
  congr 1

theorem dispatchK_if (ev : Evals F) : dispatchK ev (some (.kw .If)) = ifStatement ev := rfl

/-- every case of `dispatch` but IF is independent of `ev.stmt` -/
theorem dispatchK_congr (h : ev.expr = ev'.expr) (t : Option (Token F)) (ht : t ≠ some (.kw .If)) :
    dispatchK ev t = dispatchK ev' t := by
  unfold dispatchK
  rw [assignmentStatement_congr h, dimStatement_congr h, printStatement_congr h, inputStatement_congr h,
    forStatement_congr h, readStatement_congr h, letStatement_congr h]
  split
  · rfl
  · rfl
  · rfl
  · rfl
  · split <;> first | rfl | exact absurd rfl ht
  · rfl

/-! ### the statement evaluator re-enters itself only through `statementOrGoto` -/

/-- the ELSE search uses `ev` only in `statementOrGoto ev` -/
theorem ifSkipLoop_congr (hs : statementOrGoto ev = statementOrGoto ev') : ifSkipLoop ev = ifSkipLoop ev' := by
  funext n
  induction n with
  | zero => simp only [ifSkipLoop]
  | succ n ih => simp only [ifSkipLoop, hs, ih]

/-- IF uses `ev` only in the condition (`ev.expr`) and in `statementOrGoto ev`
    (after THEN, or at the ELSE the search finds) -/
theorem ifStatement_congr (h : ev.expr = ev'.expr) (hs : statementOrGoto ev = statementOrGoto ev') :
    ifStatement ev = ifStatement ev' := by
  unfold ifStatement
  rw [h, hs, ifSkipLoop_congr hs]

theorem dispatchK_congr' (h : ev.expr = ev'.expr) (hs : statementOrGoto ev = statementOrGoto ev')
    (t : Option (Token F)) : dispatchK ev t = dispatchK ev' t := by
  by_cases ht : t = some (.kw .If)
  · rw [ht, dispatchK_if, dispatchK_if, ifStatement_congr h hs]
  · exact dispatchK_congr h t ht

theorem dispatch_congr (h : ev.expr = ev'.expr) (hs : statementOrGoto ev = statementOrGoto ev') :
    dispatch ev = dispatch ev' := by
  rw [dispatch_eq, dispatch_eq]
  congr 1
  funext t
  exact dispatchK_congr' h hs t

/-- **The statement evaluator depends on its recursive entry point `ev.stmt`
    only through `statementOrGoto ev`** — whose definition is
    `match ← peek with | some (.num _) => gotoStatement | _ => nested ev.stmt` —
    and `statementOrGoto` occurs only in `ifStatement` (after THEN) and in
    `ifSkipLoop` (at ELSE). -/
theorem stmtBody_congr (h : ev.expr = ev'.expr) (hs : statementOrGoto ev = statementOrGoto ev') :
    stmtBody ev = stmtBody ev' := by
  unfold stmtBody
  rw [dispatch_congr h hs]

/-- the only use of `ev.stmt` in `statementOrGoto` is the nested activation -/
theorem statementOrGoto_congr (hs : nested ev.stmt = nested ev'.stmt) :
    statementOrGoto ev = statementOrGoto ev' := by
  unfold statementOrGoto
  rw [hs]

end Abasic.Indep
