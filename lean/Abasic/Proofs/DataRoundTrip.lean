import Abasic.Proofs.ListFixLemmas
/-
  Helper lemmas for C14 (`list_fixpoint`), DATA part: `trim`, the DATA item
  parser step by step, the invariants of its output (`StrItemOK`), and the round
  trip "render the items, parse them again".
-/
namespace Abasic.DataRT
open Abasic.Props.C14
open Abasic
open Abasic.Props.C13

/-! ### `trimStart` and `trim` -/

theorem trimStart_ws (c : Char) (cs : Str) (h : isUnicodeWs c = true) : trimStart (c :: cs) = trimStart cs := by
  simp only [trimStart, h, if_true]

theorem trimStart_nws (c : Char) (cs : Str) (h : isUnicodeWs c = false) : trimStart (c :: cs) = c :: cs := by
  simp only [trimStart, h, Bool.false_eq_true, if_false]

theorem trimStart_append (t u : Str) :
    trimStart (t ++ u) = if (trimStart t).isEmpty then trimStart u else trimStart t ++ u := by
  induction t with
  | nil => rfl
  | cons c t ih =>
    cases hc : isUnicodeWs c with
    | true => rw [List.cons_append, trimStart_ws c _ hc, trimStart_ws c _ hc]; exact ih
    | false => rw [List.cons_append, trimStart_nws c _ hc, trimStart_nws c _ hc]; rfl

theorem trimStart_idem (s : Str) : trimStart (trimStart s) = trimStart s := by
  induction s with
  | nil => rfl
  | cons c s ih =>
    cases hc : isUnicodeWs c with
    | true => rw [trimStart_ws c _ hc]; exact ih
    | false => rw [trimStart_nws c _ hc, trimStart_nws c _ hc]

theorem trimStart_head (s : Str) (h : Char) (m : Str) (e : trimStart s = h :: m) : isUnicodeWs h = false := by
  induction s with
  | nil => cases e
  | cons c s ih =>
    cases hc : isUnicodeWs c with
    | true => rw [trimStart_ws c _ hc] at e; exact ih e
    | false =>
      rw [trimStart_nws c _ hc] at e
      injection e with e1 _
      rw [← e1]; exact hc

theorem trimStart_mem (s : Str) (c : Char) (h : c ∈ trimStart s) : c ∈ s := by
  induction s with
  | nil => cases h
  | cons d s ih =>
    cases hd : isUnicodeWs d with
    | true => rw [trimStart_ws d _ hd] at h; exact List.mem_cons_of_mem _ (ih h)
    | false => rw [trimStart_nws d _ hd] at h; exact h

theorem trim_mem (s : Str) (c : Char) (h : c ∈ trim s) : c ∈ s := by
  unfold trim at h
  exact trimStart_mem s c (List.mem_reverse.mp (trimStart_mem _ c (List.mem_reverse.mp h)))

/-- trimming at the end keeps a non-blank first character -/
theorem trimEnd_head (h : Char) (a : Str) (hh : isUnicodeWs h = false) :
    ∃ m, (trimStart (h :: a).reverse).reverse = h :: m := by
  rw [List.reverse_cons, trimStart_append]
  have e1 : trimStart [h] = [h] := trimStart_nws h [] hh
  by_cases he : (trimStart a.reverse).isEmpty = true
  · rw [if_pos he, e1]; exact ⟨[], rfl⟩
  · rw [if_neg he]; exact ⟨(trimStart a.reverse).reverse, by simp⟩

theorem trim_of_trimStart_nil (s : Str) (h : trimStart s = []) : trim s = [] := by
  unfold trim; rw [h]; rfl

theorem trim_of_trimStart_cons (s : Str) (h : Char) (a : Str) (e : trimStart s = h :: a) :
    ∃ m, trim s = h :: m := by
  unfold trim; rw [e]; exact trimEnd_head h a (trimStart_head s h a e)

theorem trim_isEmpty (s : Str) : (trim s).isEmpty = (trimStart s).isEmpty := by
  cases e : trimStart s with
  | nil => rw [trim_of_trimStart_nil s e]
  | cons h a => obtain ⟨m, hm⟩ := trim_of_trimStart_cons s h a e; rw [hm]; rfl

/-- no blank at either end -/
def Trimmed (t : Str) : Prop := trimStart t = t ∧ trimStart t.reverse = t.reverse

theorem trimmed_trim (s : Str) : Trimmed (trim s) := by
  constructor
  · cases e : trimStart s with
    | nil => rw [trim_of_trimStart_nil s e]; rfl
    | cons h a =>
      obtain ⟨m, hm⟩ := trim_of_trimStart_cons s h a e
      rw [hm]; exact trimStart_nws h m (trimStart_head s h a e)
  · unfold trim; rw [List.reverse_reverse]; exact trimStart_idem _

theorem trim_of_trimmed (t : Str) (h : Trimmed t) : trim t = t := by
  unfold trim; rw [h.1, h.2, List.reverse_reverse]

theorem trimmed_head (h : Char) (tl : Str) (ht : Trimmed (h :: tl)) : isUnicodeWs h = false :=
  trimStart_head _ h tl ht.1

theorem trim_ws_cons (w : Char) (t : Str) (hw : isUnicodeWs w = true) : trim (w :: t) = trim t := by
  unfold trim; rw [trimStart_ws w t hw]

theorem trim_append_ws (w : Char) (t : Str) (hw : isUnicodeWs w = true) : trim (t ++ [w]) = trim t := by
  unfold trim
  rw [trimStart_append]
  have e1 : trimStart [w] = [] := by rw [trimStart_ws w [] hw]; rfl
  by_cases he : (trimStart t).isEmpty = true
  · rw [if_pos he, e1, List.isEmpty_iff.mp he]
  · rw [if_neg he, List.reverse_append]
    simp only [List.reverse_cons, List.reverse_nil, List.nil_append, List.cons_append]
    rw [trimStart_ws w _ hw]

theorem trim_nonempty_of_head (h : Char) (a : Str) (hh : isUnicodeWs h = false) :
    (trim (h :: a)).isEmpty = false := by
  obtain ⟨m, hm⟩ := trim_of_trimStart_cons (h :: a) h a (trimStart_nws h a hh)
  rw [hm]; rfl

theorem trim_nil : trim [] = [] := rfl

/-! ### the parser, step by step -/

variable {F : Type} [NumOps F]

/-- the element `push_current_element` makes of the unquoted text `cur` -/
def rawElem (cur : Str) : DataElement F :=
  match NumOps.parse (F := F) (trim cur) with
  | some x => .num x
  | none => .str (trim cur)

theorem pc_raw (E : List (DataElement F)) (n : Nat) (cur : Str) (c : Char)
    (h1 : c ≠ ':') (h2 : c ≠ ',') (h3 : c ≠ '"' ∨ (trim cur).isEmpty = false) :
    DataParser.parseChar (F := F) ⟨false, E, n, cur, false⟩ c = ⟨false, E, n + c.utf8Size, cur ++ [c], false⟩ := by
  have e1 : (c == ':') = false := beq_false_of_ne h1
  have e2 : (c == ',') = false := beq_false_of_ne h2
  by_cases hq : c = '"'
  · subst hq
    have : (trim cur).isEmpty = false := by
      rcases h3 with h3 | h3
      · exact absurd rfl h3
      · exact h3
    simp [DataParser.parseChar, this]
  · have e3 : (c == '"') = false := beq_false_of_ne hq
    simp [DataParser.parseChar, e1, e2, e3]

theorem pc_open (E : List (DataElement F)) (n : Nat) (cur : Str) (h : (trim cur).isEmpty = true) :
    DataParser.parseChar (F := F) ⟨false, E, n, cur, false⟩ '"' = ⟨true, E, n + '"'.utf8Size, [], false⟩ := by
  simp [DataParser.parseChar, h]

theorem pc_comma_push (E : List (DataElement F)) (n : Nat) (cur : Str) (h : (trim cur).isEmpty = false) :
    DataParser.parseChar (F := F) ⟨false, E, n, cur, false⟩ ',' =
      ⟨false, E ++ [rawElem cur], n + ','.utf8Size, [], false⟩ := by
  cases hp : NumOps.parse (F := F) (trim cur) <;>
    simp [DataParser.parseChar, DataParser.pushCurrent, h, rawElem, hp]

theorem pc_comma_skip (E : List (DataElement F)) (n : Nat) (cur : Str) (h : (trim cur).isEmpty = true) :
    DataParser.parseChar (F := F) ⟨false, E, n, cur, false⟩ ',' = ⟨false, E, n + ','.utf8Size, cur, false⟩ := by
  simp [DataParser.parseChar, h]

theorem pc_quoted (E : List (DataElement F)) (n : Nat) (cur : Str) (c : Char) (h : c ≠ '"') :
    DataParser.parseChar (F := F) ⟨true, E, n, cur, false⟩ c = ⟨true, E, n + c.utf8Size, cur ++ [c], false⟩ := by
  have e3 : (c == '"') = false := beq_false_of_ne h
  simp [DataParser.parseChar, e3]

theorem pc_close (E : List (DataElement F)) (n : Nat) (cur : Str) :
    DataParser.parseChar (F := F) ⟨true, E, n, cur, false⟩ '"' =
      ⟨false, E ++ [.str cur], n + '"'.utf8Size, [], false⟩ := by
  simp [DataParser.parseChar, DataParser.pushCurrent]

/-- `finish` on an unfinished parser outside quotes -/
def finElems (E : List (DataElement F)) (cur : Str) : List (DataElement F) :=
  if !(trim cur).isEmpty then E ++ [rawElem cur] else if E.isEmpty then E ++ [rawElem cur] else E

theorem finish_raw (E : List (DataElement F)) (n : Nat) (cur : Str) :
    ∃ cur', DataParser.finish (F := F) ⟨false, E, n, cur, false⟩ = ⟨false, finElems E cur, n, cur', true⟩ := by
  by_cases h1 : (trim cur).isEmpty = true
  · by_cases h2 : E.isEmpty = true
    · exact ⟨[], by
        cases hp : NumOps.parse (F := F) (trim cur) <;>
          simp [DataParser.finish, DataParser.pushCurrent, finElems, h1, h2, rawElem, hp]⟩
    · exact ⟨cur, by simp [DataParser.finish, finElems, h1, h2]⟩
  · exact ⟨[], by
      cases hp : NumOps.parse (F := F) (trim cur) <;>
        simp [DataParser.finish, DataParser.pushCurrent, finElems, h1, rawElem, hp]⟩

theorem pc_colon (E : List (DataElement F)) (n : Nat) (cur : Str) :
    ∃ cur', DataParser.parseChar (F := F) ⟨false, E, n, cur, false⟩ ':' = ⟨false, finElems E cur, n, cur', true⟩ := by
  obtain ⟨cur', h⟩ := finish_raw (F := F) E n cur
  refine ⟨cur', ?_⟩
  simp only [DataParser.parseChar]
  simp [h]

theorem run_nil (p : DataParser F) : DataParser.run p [] = p := rfl

theorem run_cons (p : DataParser F) (c : Char) (cs : Str) :
    DataParser.run p (c :: cs) =
      if (DataParser.parseChar p c).finished then DataParser.parseChar p c
      else DataParser.run (DataParser.parseChar p c) cs := rfl

/-! ### rendering the items and parsing them again -/

/-- an item text that is listed without quotes: not blank at either end, not starting
    with a quote, free of commas and colons -/
def RawText (t : Str) : Prop :=
  ∃ h tl, t = h :: tl ∧ Trimmed t ∧ h ≠ '"' ∧ ∀ c ∈ t, c ≠ ',' ∧ c ≠ ':'

/-- what the round trip needs of one item -/
def ItemOK : DataElement F → Prop
  | .str s => s.contains '"' = true → RawText s ∧ NumOps.parse (F := F) s = none
  | .num x => RawText (NumOps.render x) ∧ NumOps.parse (F := F) (NumOps.render x) = some x

theorem len8_cons (c : Char) (t : Str) : len8 (c :: t) = c.utf8Size + len8 t := rfl

theorem run_raw (E : List (DataElement F)) (t : Str) : ∀ (n : Nat) (cur rest : Str),
    (∀ c ∈ t, c ≠ ',' ∧ c ≠ ':') →
    (∀ a b, t = a ++ '"' :: b → (trim (cur ++ a)).isEmpty = false) →
    DataParser.run (F := F) ⟨false, E, n, cur, false⟩ (t ++ rest) =
      DataParser.run ⟨false, E, n + len8 t, cur ++ t, false⟩ rest := by
  induction t with
  | nil => intro n cur rest _ _; simp [len8]
  | cons c t ih =>
    intro n cur rest hc hq
    have hcc := hc c (List.mem_cons_self ..)
    have h3 : c ≠ '"' ∨ (trim cur).isEmpty = false := by
      by_cases e : c = '"'
      · subst e
        have := hq [] t rfl
        rw [List.append_nil] at this
        exact Or.inr this
      · exact Or.inl e
    rw [List.cons_append, run_cons, pc_raw E n cur c hcc.2 hcc.1 h3]
    simp only [Bool.false_eq_true, if_false]
    rw [ih (n + c.utf8Size) (cur ++ [c]) rest (fun x hx => hc x (List.mem_cons_of_mem _ hx))
      (fun a b e => by
        have := hq (c :: a) b (by rw [e]; rfl)
        rw [List.append_assoc]; exact this)]
    rw [len8_cons, Nat.add_assoc, List.append_assoc]; rfl

theorem run_quoted (E : List (DataElement F)) (s : Str) : ∀ (n : Nat) (cur rest : Str),
    (∀ c ∈ s, c ≠ '"') →
    DataParser.run (F := F) ⟨true, E, n, cur, false⟩ (s ++ rest) =
      DataParser.run ⟨true, E, n + len8 s, cur ++ s, false⟩ rest := by
  induction s with
  | nil => intro n cur rest _; simp [len8]
  | cons c s ih =>
    intro n cur rest hc
    rw [List.cons_append, run_cons, pc_quoted E n cur c (hc c (List.mem_cons_self ..))]
    simp only [Bool.false_eq_true, if_false]
    rw [ih (n + c.utf8Size) (cur ++ [c]) rest (fun x hx => hc x (List.mem_cons_of_mem _ hx))]
    rw [len8_cons, Nat.add_assoc, List.append_assoc]; rfl

theorem contains_false_iff (s : Str) (h : s.contains '"' = false) : ∀ c ∈ s, c ≠ '"' := by
  intro c hc e
  subst e
  have : s.contains '"' = true := List.contains_iff_mem.mpr hc
  rw [h] at this; cases this

theorem isUnicodeWs_space : isUnicodeWs ' ' = true := by decide

/-- the parser after the rendering of a raw item text -/
theorem run_rawText (E : List (DataElement F)) (n : Nat) (t rest : Str) (ht : RawText t) :
    DataParser.run (F := F) ⟨false, E, n, [], false⟩ (' ' :: t ++ rest) =
      DataParser.run ⟨false, E, n + len8 (' ' :: t), ' ' :: t, false⟩ rest := by
  obtain ⟨h, tl, e, htr, hq, hc⟩ := ht
  rw [List.cons_append, run_cons, pc_raw E n [] ' ' (by decide) (by decide) (Or.inl (by decide))]
  simp only [Bool.false_eq_true, if_false, List.nil_append]
  rw [run_raw E t (n + ' '.utf8Size) [' '] rest hc ?_]
  · rw [len8_cons, Nat.add_assoc]; rfl
  · intro a b eab
    cases a with
    | nil =>
      rw [e] at eab
      injection eab with e1 _
      exact absurd e1 hq
    | cons x a =>
      rw [e] at eab
      injection eab with e1 _
      subst e1
      rw [List.singleton_append, trim_ws_cons ' ' _ isUnicodeWs_space]
      exact trim_nonempty_of_head h a (trimmed_head h tl (e ▸ htr))

theorem rawElem_rawText (t : Str) (ht : RawText t) (pre post : Str)
    (hpre : ∀ c ∈ pre, isUnicodeWs c = true) (hpost : post = [] ∨ post = [' ']) :
    trim (pre ++ t ++ post) = t := by
  obtain ⟨h, tl, e, htr, _, _⟩ := ht
  have h2 : trim (pre ++ t) = trim t := by
    induction pre with
    | nil => rfl
    | cons w pre ih =>
      rw [List.cons_append, trim_ws_cons w _ (hpre w (List.mem_cons_self ..))]
      exact ih (fun c hc => hpre c (List.mem_cons_of_mem _ hc))
  have h1 : trim (pre ++ t ++ post) = trim (pre ++ t) := by
    rcases hpost with rfl | rfl
    · rw [List.append_nil]
    · exact trim_append_ws ' ' _ isUnicodeWs_space
  rw [h1, h2, trim_of_trimmed t htr]

/-- One rendered item, seen from the parser: after `' ' :: render item` the parser is in
    a state from which a comma, the end of the text, or ` :` each complete the item. -/
theorem run_item (E : List (DataElement F)) (n : Nat) (item : DataElement F) (hok : ItemOK item) :
    ∃ (E' : List (DataElement F)) (cur' : Str),
      (∀ rest, DataParser.run (F := F) ⟨false, E, n, [], false⟩ (' ' :: item.render ++ rest) =
        DataParser.run ⟨false, E', n + len8 (' ' :: item.render), cur', false⟩ rest) ∧
      (∀ m, DataParser.parseChar (F := F) ⟨false, E', m, cur', false⟩ ',' =
        ⟨false, E ++ [item], m + ','.utf8Size, [], false⟩) ∧
      finElems E' cur' = E ++ [item] ∧ finElems E' (cur' ++ [' ']) = E ++ [item] := by
  have raw : ∀ t, item.render = t → RawText t → rawElem (F := F) (' ' :: t) = item →
      rawElem (F := F) (' ' :: t ++ [' ']) = item →
      ∃ (E' : List (DataElement F)) (cur' : Str),
      (∀ rest, DataParser.run (F := F) ⟨false, E, n, [], false⟩ (' ' :: item.render ++ rest) =
        DataParser.run ⟨false, E', n + len8 (' ' :: item.render), cur', false⟩ rest) ∧
      (∀ m, DataParser.parseChar (F := F) ⟨false, E', m, cur', false⟩ ',' =
        ⟨false, E ++ [item], m + ','.utf8Size, [], false⟩) ∧
      finElems E' cur' = E ++ [item] ∧ finElems E' (cur' ++ [' ']) = E ++ [item] := by
    intro t et ht he1 he2
    have ht' := ht
    obtain ⟨h, tl, e, htr, _, _⟩ := ht'
    have tr1 : trim (' ' :: t) = t := by
      have := rawElem_rawText t ht [' '] [] (by intro c hc; simp at hc; subst hc; decide) (Or.inl rfl)
      simpa using this
    have tr2 : trim (' ' :: t ++ [' ']) = t := by
      have := rawElem_rawText t ht [' '] [' '] (by intro c hc; simp at hc; subst hc; decide) (Or.inr rfl)
      simpa using this
    have ne1 : (trim (' ' :: t)).isEmpty = false := by rw [tr1, e]; rfl
    have ne2 : (trim (' ' :: t ++ [' '])).isEmpty = false := by rw [tr2, e]; rfl
    refine ⟨E, ' ' :: t, ?_, ?_, ?_, ?_⟩
    · intro rest; rw [et]; exact run_rawText E n t rest ht
    · intro m; rw [pc_comma_push E m _ ne1, he1]
    · simp only [finElems, ne1, Bool.not_false, if_true, he1]
    · simp only [finElems, List.cons_append] at ne2 ⊢
      simp only [ne2, Bool.not_false, if_true]
      rw [← List.cons_append, he2]
  cases item with
  | num x =>
    obtain ⟨ht, hp⟩ := hok
    apply raw (NumOps.render x) rfl ht
    · have := rawElem_rawText _ ht [' '] [] (by intro c hc; simp at hc; subst hc; decide) (Or.inl rfl)
      simp only [List.singleton_append, List.append_nil] at this
      simp only [rawElem, this, hp]
    · have := rawElem_rawText _ ht [' '] [' '] (by intro c hc; simp at hc; subst hc; decide) (Or.inr rfl)
      simp only [List.singleton_append] at this
      simp only [rawElem, this, hp]
  | str s =>
    cases hq : s.contains '"' with
    | true =>
      obtain ⟨ht, hp⟩ := hok hq
      have er : (DataElement.str s : DataElement F).render = s := by
        show (if s.contains '"' = true then s else _) = _
        rw [if_pos hq]
      apply raw s er ht
      · have := rawElem_rawText _ ht [' '] [] (by intro c hc; simp at hc; subst hc; decide) (Or.inl rfl)
        simp only [List.singleton_append, List.append_nil] at this
        simp only [rawElem, this, hp]
      · have := rawElem_rawText _ ht [' '] [' '] (by intro c hc; simp at hc; subst hc; decide) (Or.inr rfl)
        simp only [List.singleton_append] at this
        simp only [rawElem, this, hp]
    | false =>
      have er : (DataElement.str s : DataElement F).render = '"' :: s ++ ['"'] := by
        show (if s.contains '"' = true then s else _) = _
        rw [if_neg (by rw [hq]; simp)]
      have hnq := contains_false_iff s hq
      refine ⟨E ++ [.str s], [], ?_, ?_, ?_, ?_⟩
      · intro rest
        rw [er]
        have e0 : ' ' :: ('"' :: s ++ ['"']) ++ rest = ' ' :: '"' :: (s ++ '"' :: rest) := by simp
        rw [e0, run_cons, pc_raw E n [] ' ' (by decide) (by decide) (Or.inl (by decide))]
        simp only [Bool.false_eq_true, if_false, List.nil_append]
        rw [run_cons, pc_open E _ [' '] (by decide)]
        simp only [Bool.false_eq_true, if_false]
        rw [run_quoted E s _ [] ('"' :: rest) hnq, run_cons, pc_close]
        simp only [Bool.false_eq_true, if_false, List.nil_append]
        congr 2
        simp only [Abasic.Props.C13.len8_append, len8]
        omega
      · intro m
        rw [pc_comma_skip _ m [] (by decide)]
      · simp [finElems, trim_nil]
      · have t1 : trim [' '] = [] := by decide
        simp [finElems, t1]

theorem renderData_single (i : DataElement F) : renderData [i] = i.render := rfl

theorem renderData_cons_cons (i j : DataElement F) (rest : List (DataElement F)) :
    renderData (i :: j :: rest) = i.render ++ (',' :: ' ' :: renderData (j :: rest)) := by
  simp [renderData, joinWith]

theorem space_size : ' '.utf8Size = 1 := by decide
theorem comma_size : ','.utf8Size = 1 := by decide

/-- all items rendered, then the end of the text -/
theorem run_items_end (items : List (DataElement F)) (hne : items ≠ []) (hok : ∀ i ∈ items, ItemOK i) :
    ∀ (E : List (DataElement F)) (n : Nat),
    (DataParser.run (F := F) ⟨false, E, n, [], false⟩ (' ' :: renderData items)).finish.elements = E ++ items ∧
    (DataParser.run (F := F) ⟨false, E, n, [], false⟩ (' ' :: renderData items)).finish.chomped =
      n + len8 (' ' :: renderData items) := by
  induction items with
  | nil => exact absurd rfl hne
  | cons i rest ih =>
    intro E n
    obtain ⟨E', cur', hrun, hcomma, hf1, _⟩ := run_item E n i (hok i (List.mem_cons_self ..))
    cases rest with
    | nil =>
      have := hrun []
      rw [List.append_nil] at this
      rw [renderData_single, this, run_nil]
      obtain ⟨cur'', hfin⟩ := finish_raw (F := F) E' (n + len8 (' ' :: i.render)) cur'
      rw [hfin]
      exact ⟨hf1, rfl⟩
    | cons j rest' =>
      have e0 : ' ' :: renderData (i :: j :: rest') = ' ' :: i.render ++ (',' :: (' ' :: renderData (j :: rest'))) := by
        rw [renderData_cons_cons]; rfl
      rw [e0, hrun, run_cons, hcomma]
      simp only [Bool.false_eq_true, if_false]
      obtain ⟨g1, g2⟩ := ih (by simp) (fun x hx => hok x (List.mem_cons_of_mem _ hx)) (E ++ [i])
        (n + len8 (' ' :: i.render) + ','.utf8Size)
      refine ⟨by rw [g1]; simp, ?_⟩
      rw [g2]
      simp only [len8_cons, Abasic.Props.C13.len8_append, comma_size, space_size]
      omega

/-- all items rendered, then ` :` and whatever follows -/
theorem run_items_colon (items : List (DataElement F)) (hne : items ≠ []) (hok : ∀ i ∈ items, ItemOK i)
    (R2 : Str) : ∀ (E : List (DataElement F)) (n : Nat),
    (DataParser.run (F := F) ⟨false, E, n, [], false⟩ (' ' :: renderData items ++ ' ' :: ':' :: R2)).finished = true ∧
    (DataParser.run (F := F) ⟨false, E, n, [], false⟩ (' ' :: renderData items ++ ' ' :: ':' :: R2)).elements =
      E ++ items ∧
    (DataParser.run (F := F) ⟨false, E, n, [], false⟩ (' ' :: renderData items ++ ' ' :: ':' :: R2)).chomped =
      n + len8 (' ' :: renderData items ++ [' ']) := by
  induction items with
  | nil => exact absurd rfl hne
  | cons i rest ih =>
    intro E n
    obtain ⟨E', cur', hrun, hcomma, _, hf2⟩ := run_item E n i (hok i (List.mem_cons_self ..))
    cases rest with
    | nil =>
      rw [renderData_single, hrun, run_cons,
        pc_raw E' _ cur' ' ' (by decide) (by decide) (Or.inl (by decide))]
      simp only [Bool.false_eq_true, if_false]
      obtain ⟨cur'', hc⟩ := pc_colon (F := F) E' (n + len8 (' ' :: i.render) + ' '.utf8Size) (cur' ++ [' '])
      rw [run_cons, hc]
      simp only [if_true]
      refine ⟨trivial, hf2, ?_⟩
      simp only [Abasic.Props.C13.len8_append, space_size, len8]
      omega
    | cons j rest' =>
      have e0 : ' ' :: renderData (i :: j :: rest') ++ ' ' :: ':' :: R2 =
          ' ' :: i.render ++ (',' :: (' ' :: renderData (j :: rest') ++ ' ' :: ':' :: R2)) := by
        rw [renderData_cons_cons]; simp
      rw [e0, hrun, run_cons, hcomma]
      simp only [Bool.false_eq_true, if_false]
      obtain ⟨g0, g1, g2⟩ := ih (by simp) (fun x hx => hok x (List.mem_cons_of_mem _ hx)) (E ++ [i])
        (n + len8 (' ' :: i.render) + ','.utf8Size)
      refine ⟨g0, by rw [g1]; simp, ?_⟩
      rw [g2, renderData_cons_cons]
      simp only [List.cons_append, Abasic.Props.C13.len8_append, comma_size, space_size, len8]
      omega

theorem dropBytes_len8_append (a b : Str) : dropBytes (len8 a) (a ++ b) = b := by
  induction a with
  | nil => exact Abasic.Props.C12.dropBytes_zero b
  | cons c a ih =>
    have hp := Char.utf8Size_pos c
    obtain ⟨m, hm⟩ : ∃ m, len8 (c :: a) = m + 1 := ⟨len8 (c :: a) - 1, by rw [len8_cons]; omega⟩
    rw [hm, List.cons_append]
    simp only [dropBytes]
    have : m + 1 - c.utf8Size = len8 a := by rw [len8_cons] at hm; omega
    rw [this]; exact ih

theorem finish_finished (p : DataParser F) (h : p.finished = true) : p.finish = p := by
  simp [DataParser.finish, h]

/-- `DataOK items`: the items are what the round trip can reproduce. -/
def DataOK (items : List (DataElement F)) : Prop := items ≠ [] ∧ ∀ i ∈ items, ItemOK i

/-- the rendered items, at the end of the line, parse back to the items -/
theorem parseData_listed_end (items : List (DataElement F)) (h : DataOK items) :
    parseData (F := F) (' ' :: renderData items) = (items, len8 (' ' :: renderData items)) := by
  obtain ⟨g1, g2⟩ := run_items_end items h.1 h.2 [] 0
  unfold parseData
  show ((DataParser.run (F := F) ⟨false, [], 0, [], false⟩ (' ' :: renderData items)).finish.elements,
        (DataParser.run (F := F) ⟨false, [], 0, [], false⟩ (' ' :: renderData items)).finish.chomped) = _
  rw [g1, g2]; simp

/-- the rendered items, followed by ` :`, parse back to the items; the colon is not consumed -/
theorem parseData_listed_colon (items : List (DataElement F)) (h : DataOK items) (R2 : Str) :
    parseData (F := F) (' ' :: renderData items ++ ' ' :: ':' :: R2) =
      (items, len8 (' ' :: renderData items ++ [' '])) := by
  obtain ⟨g0, g1, g2⟩ := run_items_colon items h.1 h.2 R2 [] 0
  unfold parseData
  show ((DataParser.run (F := F) ⟨false, [], 0, [], false⟩ (' ' :: renderData items ++ ' ' :: ':' :: R2)).finish.elements,
        (DataParser.run (F := F) ⟨false, [], 0, [], false⟩ (' ' :: renderData items ++ ' ' :: ':' :: R2)).finish.chomped) = _
  rw [finish_finished _ g0, g1, g2]; simp

/-! ### what the parser produces (any input) -/

/-- the part of `ItemOK` that holds of every parser output: a string item that is listed
    without quotes is a `RawText` that is not a number; a number item is the result of
    parsing some text -/
def StrOK : DataElement F → Prop
  | .str s => s.contains '"' = true → RawText s ∧ NumOps.parse (F := F) s = none
  | .num x => ∃ s, NumOps.parse (F := F) s = some x

theorem strOK_quoted (cur : Str) (h : ∀ c ∈ cur, c ≠ '"') : StrOK (F := F) (.str cur) := by
  intro hq
  have := List.contains_iff_mem.mp hq
  exact absurd rfl (h _ this)

theorem strOK_rawElem (cur : Str) (h1 : ∀ c ∈ cur, c ≠ ',' ∧ c ≠ ':')
    (h2 : ∀ h m, trimStart cur = h :: m → h ≠ '"') : StrOK (F := F) (rawElem cur) := by
  unfold rawElem
  cases hp : NumOps.parse (F := F) (trim cur) with
  | some x => exact ⟨trim cur, hp⟩
  | none =>
    intro hq
    cases e : trimStart cur with
    | nil => rw [trim_of_trimStart_nil cur e] at hq; cases hq
    | cons h a =>
      obtain ⟨m, hm⟩ := trim_of_trimStart_cons cur h a e
      exact ⟨⟨h, m, hm, trimmed_trim cur, h2 h a e, fun c hc => h1 c (trim_mem cur c hc)⟩, hp⟩

/-- invariant of the parser state -/
def PInv (p : DataParser F) : Prop :=
  (∀ i ∈ p.elements, StrOK i) ∧
  (p.finished = false →
    (p.inQuote = true → ∀ c ∈ p.cur, c ≠ '"') ∧
    (p.inQuote = false → (∀ c ∈ p.cur, c ≠ ',' ∧ c ≠ ':') ∧ ∀ h m, trimStart p.cur = h :: m → h ≠ '"')) ∧
  (p.finished = true → p.elements ≠ [])

theorem finElems_cases (E : List (DataElement F)) (cur : Str) :
    finElems E cur = E ++ [rawElem cur] ∨ (finElems E cur = E ∧ E ≠ []) := by
  unfold finElems
  by_cases h1 : (trim cur).isEmpty = true
  · by_cases h2 : E.isEmpty = true
    · left; simp [h1, h2]
    · right
      refine ⟨by simp [h1, h2], ?_⟩
      intro e; rw [e] at h2; exact h2 rfl
  · left; simp [h1]

theorem all_append_one {α : Type} (P : α → Prop) (E : List α) (x : α) (h : ∀ i ∈ E, P i) (hx : P x) :
    ∀ i ∈ E ++ [x], P i := by
  intro i hi
  rcases List.mem_append.mp hi with hi | hi
  · exact h i hi
  · simp only [List.mem_singleton] at hi
    subst hi; exact hx

theorem finish_quoted (E : List (DataElement F)) (n : Nat) (cur : Str) :
    ∃ E' cur', DataParser.finish (F := F) ⟨true, E, n, cur, false⟩ = ⟨true, E', n, cur', true⟩ ∧
      (E' = E ++ [.str cur] ∨ (E' = E ∧ E ≠ [])) := by
  by_cases h1 : (trim cur).isEmpty = true
  · by_cases h2 : E.isEmpty = true
    · exact ⟨E ++ [.str cur], [], by simp [DataParser.finish, DataParser.pushCurrent, h1, h2], Or.inl rfl⟩
    · refine ⟨E, cur, by simp [DataParser.finish, h1, h2], Or.inr ⟨rfl, ?_⟩⟩
      intro e; rw [e] at h2; exact h2 rfl
  · exact ⟨E ++ [.str cur], [], by simp [DataParser.finish, DataParser.pushCurrent, h1], Or.inl rfl⟩

/-- one character: the invariant is kept, and the byte count advances unless the
    character is the terminating colon -/
theorem parseChar_spec (p : DataParser F) (c : Char) (hi : PInv p) (hf : p.finished = false) :
    PInv (p.parseChar c) ∧
    (((p.parseChar c).finished = false ∧ (p.parseChar c).chomped = p.chomped + c.utf8Size) ∨
     ((p.parseChar c).finished = true ∧ c = ':' ∧ (p.parseChar c).chomped = p.chomped)) := by
  obtain ⟨q, E, n, cur, f⟩ := p
  simp only at hf
  subst hf
  obtain ⟨i1, i2, _⟩ := hi
  simp only at i1
  obtain ⟨i2q, i2r⟩ := i2 rfl
  simp only at i2q i2r
  cases q with
  | true =>
    have hq := i2q rfl
    by_cases hc : c = '"'
    · subst hc
      rw [pc_close]
      refine ⟨⟨all_append_one _ E _ i1 (strOK_quoted cur hq), fun _ => ⟨(fun h => by cases h), fun _ => ⟨?_, ?_⟩⟩,
        (fun h => by cases h)⟩, Or.inl ⟨rfl, rfl⟩⟩
      · intro x hx; cases hx
      · intro h m e; cases e
    · rw [pc_quoted E n cur c hc]
      refine ⟨⟨i1, fun _ => ⟨fun _ => ?_, (fun h => by cases h)⟩, (fun h => by cases h)⟩, Or.inl ⟨rfl, rfl⟩⟩
      intro x hx
      rcases List.mem_append.mp hx with hx | hx
      · exact hq x hx
      · simp only [List.mem_singleton] at hx
        subst hx; exact hc
  | false =>
    obtain ⟨hr1, hr2⟩ := i2r rfl
    by_cases hcol : c = ':'
    · subst hcol
      obtain ⟨cur', e⟩ := pc_colon (F := F) E n cur
      rw [e]
      refine ⟨⟨?_, (fun h => by cases h), fun _ => ?_⟩, Or.inr ⟨rfl, rfl, rfl⟩⟩
      · simp only
        rcases finElems_cases E cur with h | ⟨h, _⟩
        · rw [h]; exact all_append_one _ E _ i1 (strOK_rawElem cur hr1 hr2)
        · rw [h]; exact i1
      · simp only
        rcases finElems_cases E cur with h | ⟨h, hne⟩
        · rw [h]; simp
        · rw [h]; exact hne
    · by_cases hcom : c = ','
      · subst hcom
        by_cases ht : (trim cur).isEmpty = true
        · rw [pc_comma_skip E n cur ht]
          exact ⟨⟨i1, fun _ => ⟨(fun h => by cases h), fun _ => ⟨hr1, hr2⟩⟩, (fun h => by cases h)⟩, Or.inl ⟨rfl, rfl⟩⟩
        · have ht' : (trim cur).isEmpty = false := by simpa using ht
          rw [pc_comma_push E n cur ht']
          refine ⟨⟨all_append_one _ E _ i1 (strOK_rawElem cur hr1 hr2),
            fun _ => ⟨(fun h => by cases h), fun _ => ⟨?_, ?_⟩⟩, (fun h => by cases h)⟩, Or.inl ⟨rfl, rfl⟩⟩
          · intro x hx; cases hx
          · intro h m e; cases e
      · by_cases hquo : c = '"'
        · subst hquo
          by_cases ht : (trim cur).isEmpty = true
          · rw [pc_open E n cur ht]
            refine ⟨⟨i1, fun _ => ⟨fun _ => ?_, (fun h => by cases h)⟩, (fun h => by cases h)⟩, Or.inl ⟨rfl, rfl⟩⟩
            intro x hx; cases hx
          · have ht' : (trim cur).isEmpty = false := by simpa using ht
            rw [pc_raw E n cur '"' (by decide) (by decide) (Or.inr ht')]
            refine ⟨⟨i1, fun _ => ⟨(fun h => by cases h), fun _ => ⟨?_, ?_⟩⟩, (fun h => by cases h)⟩, Or.inl ⟨rfl, rfl⟩⟩
            · intro x hx
              rcases List.mem_append.mp hx with hx | hx
              · exact hr1 x hx
              · simp only [List.mem_singleton] at hx
                subst hx; exact ⟨by decide, by decide⟩
            · intro h m e
              simp only at e
              rw [trimStart_append] at e
              rw [trim_isEmpty] at ht'
              rw [ht'] at e
              simp only [Bool.false_eq_true, if_false] at e
              cases e2 : trimStart cur with
              | nil => rw [e2] at ht'; cases ht'
              | cons h2 m2 =>
                rw [e2] at e
                injection e with e3 _
                rw [← e3]; exact hr2 h2 m2 e2
        · rw [pc_raw E n cur c hcol hcom (Or.inl hquo)]
          refine ⟨⟨i1, fun _ => ⟨(fun h => by cases h), fun _ => ⟨?_, ?_⟩⟩, (fun h => by cases h)⟩, Or.inl ⟨rfl, rfl⟩⟩
          · intro x hx
            rcases List.mem_append.mp hx with hx | hx
            · exact hr1 x hx
            · simp only [List.mem_singleton] at hx
              subst hx; exact ⟨hcom, hcol⟩
          · intro h m e
            simp only at e
            rw [trimStart_append] at e
            cases e2 : trimStart cur with
            | nil =>
              rw [e2] at e
              simp only [List.isEmpty_nil, if_true] at e
              cases hw : isUnicodeWs c with
              | true => rw [trimStart_ws c [] hw] at e; cases e
              | false =>
                rw [trimStart_nws c [] hw] at e
                injection e with e3 _
                rw [← e3]; exact hquo
            | cons h2 m2 =>
              rw [e2] at e
              simp only [List.isEmpty_cons, Bool.false_eq_true, if_false] at e
              injection e with e3 _
              rw [← e3]; exact hr2 h2 m2 e2

theorem run_spec (s : Str) : ∀ (p : DataParser F), PInv p → p.finished = false →
    PInv (p.run s) ∧
    (((p.run s).finished = false ∧ (p.run s).chomped = p.chomped + len8 s) ∨
     ((p.run s).finished = true ∧ ∃ a b, s = a ++ ':' :: b ∧ (p.run s).chomped = p.chomped + len8 a)) := by
  induction s with
  | nil => intro p hi hf; exact ⟨hi, Or.inl ⟨hf, by simp [run_nil, len8]⟩⟩
  | cons c s ih =>
    intro p hi hf
    obtain ⟨g1, g2⟩ := parseChar_spec p c hi hf
    rw [run_cons]
    rcases g2 with ⟨f1, c1⟩ | ⟨f1, hc, c1⟩
    · rw [f1]
      simp only [Bool.false_eq_true, if_false]
      obtain ⟨k1, k2⟩ := ih _ g1 f1
      refine ⟨k1, ?_⟩
      rcases k2 with ⟨f2, c2⟩ | ⟨f2, a, b, e, c2⟩
      · exact Or.inl ⟨f2, by rw [c2, c1, len8_cons]; omega⟩
      · exact Or.inr ⟨f2, c :: a, b, by rw [e]; rfl, by rw [c2, c1, len8_cons]; omega⟩
    · rw [f1]
      simp only [if_true]
      exact ⟨g1, Or.inr ⟨f1, [], s, by rw [hc]; rfl, by rw [c1]; simp [len8]⟩⟩

theorem finish_chomped (p : DataParser F) : p.finish.chomped = p.chomped := by
  unfold DataParser.finish
  split
  · rfl
  · simp only
    split
    · rfl
    · split <;> rfl

theorem finish_spec (p : DataParser F) (hi : PInv p) :
    (∀ i ∈ p.finish.elements, StrOK i) ∧ p.finish.elements ≠ [] := by
  cases hf : p.finished with
  | true =>
    rw [finish_finished p hf]
    exact ⟨hi.1, hi.2.2 hf⟩
  | false =>
    obtain ⟨q, E, n, cur, f⟩ := p
    simp only at hf
    subst hf
    obtain ⟨i1, i2, _⟩ := hi
    simp only at i1
    obtain ⟨i2q, i2r⟩ := i2 rfl
    simp only at i2q i2r
    cases q with
    | true =>
      obtain ⟨E', cur', e, h⟩ := finish_quoted (F := F) E n cur
      rw [e]
      simp only
      rcases h with h | ⟨h, hne⟩
      · rw [h]; exact ⟨all_append_one _ E _ i1 (strOK_quoted cur (i2q rfl)), by simp⟩
      · rw [h]; exact ⟨i1, hne⟩
    | false =>
      obtain ⟨hr1, hr2⟩ := i2r rfl
      obtain ⟨cur', e⟩ := finish_raw (F := F) E n cur
      rw [e]
      simp only
      rcases finElems_cases E cur with h | ⟨h, hne⟩
      · rw [h]; exact ⟨all_append_one _ E _ i1 (strOK_rawElem cur hr1 hr2), by simp⟩
      · rw [h]; exact ⟨i1, hne⟩

/-- What `parseData` returns on any text: at least one item, every string item that
    will be listed without quotes is a raw text, and the unconsumed rest is empty or
    starts with the colon. -/
theorem parseData_spec (s : Str) :
    (parseData (F := F) s).1 ≠ [] ∧ (∀ i ∈ (parseData (F := F) s).1, StrOK i) ∧
    (dropBytes (parseData (F := F) s).2 s = [] ∨ ∃ b, dropBytes (parseData (F := F) s).2 s = ':' :: b) := by
  have hinit : PInv (F := F) ⟨false, [], 0, [], false⟩ := by
    refine ⟨(fun i hi => by cases hi), fun _ => ⟨(fun h => by cases h), fun _ => ⟨(fun c hc => by cases hc), ?_⟩⟩,
      (fun h => by cases h)⟩
    intro h m e; cases e
  obtain ⟨g1, g2⟩ := run_spec s (⟨false, [], 0, [], false⟩ : DataParser F) hinit rfl
  obtain ⟨k1, k2⟩ := finish_spec _ g1
  have e1 : (parseData (F := F) s).1 = (DataParser.run (F := F) ⟨false, [], 0, [], false⟩ s).finish.elements := rfl
  have e2 : (parseData (F := F) s).2 = (DataParser.run (F := F) ⟨false, [], 0, [], false⟩ s).finish.chomped := rfl
  rw [e1, e2, finish_chomped]
  refine ⟨k2, k1, ?_⟩
  rcases g2 with ⟨_, c⟩ | ⟨_, a, b, e, c⟩
  · left
    rw [c]
    simp only [Nat.zero_add]
    have := dropBytes_len8_append s []
    rw [List.append_nil] at this
    exact this
  · right
    rw [c]
    simp only [Nat.zero_add]
    refine ⟨b, ?_⟩
    conv => lhs; rw [e]
    exact dropBytes_len8_append a (':' :: b)

end Abasic.DataRT
