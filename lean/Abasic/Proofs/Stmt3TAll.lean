import Abasic.Proofs.Stmt3TDef
/-
  C03 / C08, route (B) — Proofs/Stmt3All.lean for programs with INPUT
  statements: `stmt_ok` (every statement of Ref/Stmt3.lean satisfies `StmtOK`
  also on the lines of a `ProgT`) and `stmt3_run` (the statement evaluator
  realises `RStmt3.exec` for a `base` statement `j` of line `n`).
-/
set_option linter.unusedSectionVars false

namespace Abasic.Stmt3T
open Abasic Abasic.Ref Abasic.ExprL Abasic.ExprL2 Abasic.StmtL Abasic.ProgL Abasic.Prog3L Abasic.Stmt3L Abasic.Hoare M
open Abasic.Prog3I (preToksI line_splitI lineToks_ofI)
open Abasic.Prog2L (Rel2)

variable {F : Type} [NumOps F]

/-- **Every statement** satisfies the statement theorem (`StmtOK`), by recursion
    on the branches of IF. -/
theorem stmt_ok (p : ProgT F) (n j : Nat) : ∀ s : RStmt3 F, StmtOK p n j s
  | .letS x e => let_ok x e
  | .printS items => print_ok items
  | .gotoS m => goto_ok m
  | .endS => end_ok
  | .lineS m => fun _ _ _ _ _ _ _ _ _ _ hl => by cases hl
  | .forS v a b c => for_ok v a b c
  | .nextS v => next_ok v
  | .gosubS m => gosub_ok m
  | .returnS => return_ok
  | .readS ts => read_ok ts
  | .dataS items => data_ok items
  | .restoreS => restore_ok
  | .dimS name dims => dim_ok name dims
  | .letCellS name idx e => letCell_ok name idx e
  | .defS f ps body => def_ok f ps body
  | .ifS c t none => if_ok c t none (branch_of_stmt t fun _ => stmt_ok p n j t) (fun e h => by cases h)
  | .ifS c t (some e) =>
    if_ok c t (some e) (branch_of_stmt t fun _ => stmt_ok p n j t)
      (fun e' h => by cases h; exact branch_of_stmt e fun _ => stmt_ok p n j e)

/-- The hypotheses of the statement theorem (`SReady3` of Stmt3All.lean): the
    statement `s` is the `base` statement `j` of line `n`; the other statements
    of the line (and of the program) may be INPUTs. -/
structure SReady3 (p : ProgT F) (r : RState3 F) (σ : St F) (n j : Nat) (ss : List (RStmtI F))
    (s : RStmt3 F) (fuel : Nat) : Prop where
  wf : p.q.WF
  env : Env3 p σ
  mem : Mem3 p r σ
  inv : RInv3 r
  nesting : σ.nesting = 0
  line : p.q.line n = some ss
  stmt : ss[j]? = some (.base s)
  locline : σ.loc.line = some n
  idx : σ.loc.idx = (preToksI ss j).length
  covered : s.Covered
  bodies : ∀ name d, alGet name r.fns = some d → Resolved r.fns d.body
  resolved : ResolvedS r.fns s
  fuel : sdepth3 r.fns s ≤ fuel
  nest : sdepth3 r.fns s ≤ Extracted.nestingLimit

section ready
variable {p : ProgT F} {r : RState3 F} {σ : St F} {n j : Nat} {ss : List (RStmtI F)} {s : RStmt3 F} {fuel : Nat}

theorem SReady3.sync (h : SReady3 p r σ n j ss s fuel) : Sync p r σ := ⟨h.wf, h.env, h.mem, h.inv, h.bodies⟩

theorem SReady3.at (h : SReady3 p r σ n j ss s fuel) :
    At σ (preToksI ss j) (renderS3 s ++ renderTailI (ss.drop (j + 1))) :=
  ⟨by rw [lineToks_ofI h.env.lines h.line h.locline, line_splitI ss j _ h.stmt]; rfl, h.idx⟩

theorem SReady3.pos (h : SReady3 p r σ n j ss s fuel) :
    Pos p σ n j s (preToksI ss j) (renderTailI (ss.drop (j + 1)))
      ((preToksI ss j).length + (renderS3 s).length) (renderLineI ss).length :=
  ⟨h.locline, h.at, rfl, by rw [line_splitI ss j _ h.stmt]; rfl, fun _ => ⟨ss, j, .base s, h.line, rfl, h.stmt, rfl⟩⟩

end ready

/-- **Statement refinement, all statements of Ref/Stmt3.lean, on a line that may hold INPUTs.** -/
theorem stmt3_run {p : ProgT F} {r : RState3 F} {σ : St F} {n j : Nat} {ss : List (RStmtI F)} {s : RStmt3 F}
    {fuel : Nat} (h : SReady3 p r σ n j ss s fuel) :
    Outcome3 p σ n ((preToksI ss j).length + (renderS3 s).length) (renderLineI ss).length
      (stmtBody (evalN fuel) σ) (s.exec (allDataI p.q) n j r).1 (s.exec (allDataI p.q) n j r).2 :=
  stmt_ok p n j s fuel σ r _ _ _ _ h.sync h.pos (Or.inl (tail_lineEnd3 ss j)) h.covered.1 h.covered.2 h.resolved h.fuel
    (by rw [h.nesting, Nat.zero_add]; exact h.nest)

end Abasic.Stmt3T
