import Abasic.Proofs.Stmt3TBase
/-
  C03 / C08, route (B) of discharging `BaseTurns` — Proofs/Stmt3If.lean RE-RUN for programs
  with INPUT statements: the text of that file over the relations of
  Proofs/Stmt3TRel.lean (`ProgT`, `Holds`, `Mem3`, `Outcome3`, … in namespace
  `Abasic.Stmt3T`, which shadow the originals of `Abasic.Prog3L` / `Abasic.Stmt3L`).
  Lemmas of the original that do not mention the program are not repeated; they
  are used from `Abasic.Stmt3L`.  Differences to the original: `Mem3` has the
  field `input` and its `out` ends in `p.base`.  The original header follows.

  C03, third layer — the statement evaluator on the statements of Ref/Stmt3.lean.

  Part 3: the branch of an IF (`statementOrGoto`: a line number, or a nested
  activation of the statement evaluator) and IF itself, for arbitrary branches.
-/
set_option linter.unusedSectionVars false

namespace Abasic.Stmt3T
open Abasic Abasic.Ref Abasic.ExprL Abasic.ExprL2 Abasic.StmtL Abasic.ProgL Abasic.Prog3L Abasic.Stmt3L Abasic.Hoare M
open Abasic.Prog3I (HoldsI AddrRelI RetRelI LoopRelI DataRelI progChunksI preToksI line_splitI preToks_succI drop_tail_nilI drop_tail_consI line_memI mem_lineI after_lineI first_lineI holds_afterI holds_firstI renderSI_head lineToks_ofI line_nonemptyI preToksI_zero resume_ltI resume_geI)
open Abasic.Prog2L (Rel2)

variable {F : Type} [NumOps F]

section stmts
variable {p : ProgT F} {n j : Nat}

/-- a statement as the branch of an IF -/
theorem branch_of_stmt (s : RStmt3 F) (h : s.isLine = false → StmtOK p n j s) : BranchOK p n j s := by
  intro fuel σ r pre rest after eol hS hP hE hcov hres hd hn
  cases hl : s.isLine with
  | true =>
    obtain ⟨m, rfl⟩ : ∃ m, s = .lineS m := by
      cases s <;> first | exact ⟨_, rfl⟩ | cases hl
    have hAt0 : At σ pre (.num (NumOps.ofNat m) :: rest) := by
      simpa only [renderS3, List.cons_append, List.nil_append] using hP.cur
    obtain ⟨k1, h1⟩ := statementOrGoto_num (ev := evalN fuel) hAt0
    have hAt1 := at_mv0 hAt0 k1
    obtain ⟨k2, h2⟩ := next_ex hAt1
    have hround : NumOps.toU64 (NumOps.ofNat m : F) = m := hcov
    have hrun : statementOrGoto (evalN fuel) σ = gotoLine m (mv (mv σ 0 k1) 1 k2) := by
      rw [h1]
      unfold gotoStatement
      rw [bind_ok h2]
      simp only [hround]
    rw [hrun]
    exact gotoLine_outcome ((hS.mv _ _).mv _ _) ((start_mv _ _ _).trans (start_mv _ _ _)) _ _ _
  | false =>
    obtain ⟨f', rfl⟩ : ∃ f', fuel = f' + 1 := ⟨fuel - 1, by omega⟩
    obtain ⟨t, ts, hhead, hnn⟩ := renderS3_head_nonnum s hl
    have hAt0 : At σ pre (t :: (ts ++ rest)) := by
      have := hP.cur
      rwa [hhead] at this
    obtain ⟨k1, h1⟩ := statementOrGoto_other (ev := evalN (f' + 1)) hAt0 hnn
    rw [h1]
    show Outcome3 p σ n after eol (nested (stmtBody (evalN f')) (mv σ 0 k1)) _ _
    refine outcome_start (outcome_nested (by show σ.nesting < _; omega) ?_) (start_mv σ 0 k1)
    refine h hl f' (nest (mv σ 0 k1) ((mv σ 0 k1).nesting + 1)) r pre rest after eol ((hS.mv _ _).nest _) ?_ hE hl hcov hres
      (by omega) (by show σ.nesting + 1 + _ ≤ _; omega)
    exact ⟨hP.locline, at_nest (at_mv0 hP.cur _) _, hP.hafter, hP.heol, hP.addr⟩

/-! ### IF -/

/-- IF up to and including THEN -/
theorem if_cond3 {σ : St F} {r : RState3 F} (hS : Sync p r σ) (c : Expr2 F) (fuel : Nat) (pre post : List (Token F))
    (hAt : At σ pre (.kw .If :: (render2 c ++ .kw .Then :: post))) (hres : Resolved r.fns c)
    (hd : edepth r.fns c ≤ fuel) (hn : σ.nesting + edepth r.fns c ≤ Extracted.nestingLimit) :
    match fold2 callFuel r.env c with
    | .ok (v, env') => ∃ τ, stmtBody (evalN fuel) σ = ifRest (evalN fuel) v.toBool τ ∧ Sync p (r.put env') τ ∧
        Start σ τ ∧ At τ (pre ++ [Token.kw Kw.If] ++ render2 c ++ [Token.kw Kw.Then]) post
    | .error x => x ≠ .dataTypeMismatch ∧ ErrFrom σ x (stmtBody (evalN fuel) σ) := by
  obtain ⟨k1, h1⟩ := next_ex hAt
  have hAt1 := at_mv1 hAt k1
  have hrun : stmtBody (evalN fuel) σ = ifStatement (evalN fuel) (mv σ 1 k1) := by
    unfold stmtBody
    rw [bind_ok (traceHere_off hS.env.tracing)]
    unfold dispatch
    rw [bind_ok h1]
  have hX := expr3_run (hS.mv 1 k1) c fuel _ _ hres hd hn (ends_then 6 post) hAt1
  rw [hrun]
  cases hev : fold2 callFuel r.env c with
  | error x =>
    rw [hev] at hX
    refine ⟨hX.1, ?_⟩
    unfold ifStatement
    exact (hX.2.bind).start (start_mv _ _ _)
  | ok q =>
    obtain ⟨v, env'⟩ := q
    rw [hev] at hX
    obtain ⟨rd, hσ1, hS1⟩ := hX
    have hAt2 := at_upd hAt1 rd env'
    obtain ⟨k2, h2⟩ := expect_ex (k := .Then) hAt2 rfl
    refine ⟨mv (upd (mv σ 1 k1) (render2 c).length rd env') 1 k2, ?_, hS1.mv _ _,
      ⟨⟨rfl, rfl, rfl, rfl, rfl⟩, rfl, rfl, rfl⟩, at_mv1 hAt2 k2⟩
    unfold ifStatement
    rw [bind_ok hσ1, bind_ok h2]
    cases v.toBool <;> rfl

theorem if_ok (c : Expr2 F) (t : RStmt3 F) (eo : Option (RStmt3 F)) (ht : BranchOK p n j t)
    (he : ∀ e, eo = some e → BranchOK p n j e) : StmtOK p n j (.ifS c t eo) := by
  intro fuel σ r pre rest after eol hS hP hE _ hcov hres hd hn
  have hLE : LineEnd3 rest := hE.lineEnd3 rfl
  have hline := hP.locline
  cases eo with
  | none =>
    obtain ⟨helse, hcovt⟩ : t.elseFree = true ∧ t.CoveredB := hcov
    obtain ⟨hresc, hrest⟩ : Resolved r.fns c ∧ ResolvedS r.fns t := hres
    simp only [sdepth3] at hd hn
    have hAt0 : At σ pre (.kw .If :: (render2 c ++ .kw .Then :: (renderS3 t ++ rest))) := by
      simpa only [renderS3, List.cons_append, List.append_assoc] using hP.cur
    have hlen : (renderS3 (.ifS c t none)).length = 1 + (render2 c).length + 1 + (renderS3 t).length := by
      simp only [renderS3, List.length_cons, List.length_append]; omega
    have hC := if_cond3 hS c fuel pre _ hAt0 hresc (by omega) (by omega)
    cases hev : fold2 callFuel r.env c with
    | error x =>
      rw [hev] at hC
      rw [exec_if_err hev]
      exact hC
    | ok q =>
      obtain ⟨v, env'⟩ := q
      rw [hev] at hC
      obtain ⟨τ, hrun, hSτ, hst, hAtτ⟩ := hC
      rw [hrun]
      have hgτ : τ.lines.get n = some ((pre ++ [Token.kw Kw.If] ++ render2 c ++ [Token.kw Kw.Then]) ++ (renderS3 t ++ rest)) :=
        get_of_at (by rw [hst.line]; exact hline) hAtτ
      cases hb : v.toBool with
      | true =>
        have hex : (RStmt3.ifS c t none).exec (allDataI p.q) n j r = t.exec (allDataI p.q) n j (r.put env') := by
          simp only [RStmt3.exec, evalE, hev, hb, ↓reduceIte]
        rw [hex]
        show Outcome3 p σ n after eol ((statementOrGoto (evalN fuel) >>= fun _ => tailElse) τ) _ _
        rw [bind_andThen]
        have hPt : Pos p τ n j t (pre ++ [Token.kw Kw.If] ++ render2 c ++ [Token.kw Kw.Then]) rest after eol :=
          ⟨by rw [hst.line]; exact hline, hAtτ,
           by rw [hP.hafter, hlen]; simp only [List.length_append, List.length_cons, List.length_nil]; omega,
           by rw [hP.heol]; simp only [renderS3, List.length_append, List.length_cons, List.length_nil]; omega,
           hP.addr⟩
        have hB := ht fuel τ (r.put env') _ rest after eol hSτ hPt (Or.inl hLE) hcovt hrest
          (by show sdepth3 r.fns t + 1 ≤ fuel; omega)
          (by show τ.nesting + (sdepth3 r.fns t + 1) ≤ _; rw [hst.kept.nesting]; omega)
        refine outcome_start ?_ hst
        refine tail_line (pre := (pre ++ [Token.kw Kw.If] ++ render2 c ++ [Token.kw Kw.Then]) ++ renderS3 t) (rest := rest)
          (by rw [hst.kept.lines]; exact hS.env.lines) hS.wf
          (by rw [hgτ]; simp only [List.append_assoc, List.cons_append, List.nil_append]) ?_ ?_ hLE hB
        · rw [hP.hafter, hlen]; simp only [List.length_append, List.length_cons, List.length_nil]; omega
        · rw [hP.heol]; simp only [renderS3, List.length_append, List.length_cons, List.length_nil]; omega
      | false =>
        have hex : (RStmt3.ifS c t none).exec (allDataI p.q) n j r = (r.put env', .skipLine) := by
          simp only [RStmt3.exec, evalE, hev, hb, Bool.false_eq_true, ↓reduceIte]
        rw [hex]
        show Outcome3 p σ n after eol ((lineBudget >>= fun b => ifSkipLoop (evalN fuel) b) τ) _ _
        rw [bind_ok (lineBudget_eq hAtτ.1)]
        obtain ⟨k, hk⟩ : ∃ k, (pre ++ [Token.kw Kw.If] ++ render2 c ++ [Token.kw Kw.Then] ++ (renderS3 t ++ rest)).length + 1
            = (k + 1 + 1) + (renderS3 t).length :=
          ⟨pre.length + (render2 c).length + rest.length + 1, by
            simp only [List.length_append, List.length_cons, List.length_nil]; omega⟩
        rw [hk, ifSkipLoop_skip _ (renderS3 t) (k + 1 + 1) _ _ rest hAtτ (renderS3_tokens t helse)]
        have hAt4 := at_mv hAtτ (τ.reads + (renderS3 t).length)
        have heol : eol = ((pre ++ [Token.kw Kw.If] ++ render2 c ++ [Token.kw Kw.Then] ++ renderS3 t) ++ rest).length := by
          rw [hP.heol]; simp only [renderS3, List.length_append, List.length_cons, List.length_nil]; omega
        rcases hLE with rfl | ⟨t0, post, rfl, _⟩
        · rw [ifSkipLoop_end hAt4]
          refine ⟨_, rfl, ?_, (hSτ.mem.congr rfl rfl rfl rfl rfl rfl rfl rfl rfl), ?_⟩
          · exact ⟨hst.kept.lines, hst.kept.warnings, hst.kept.tracing, hst.kept.nesting, hst.kept.state⟩
          · show ({ line := τ.loc.line, idx := τ.loc.idx + (renderS3 t).length + 0 } : Loc) = _
            rw [hst.line, hline, hAtτ.2, heol]
            simp only [List.length_append, List.append_nil, Nat.add_zero]
        · rw [ifSkipLoop_colon hAt4]
          refine ⟨_, rfl, ?_, (hSτ.mem.congr rfl rfl rfl rfl rfl rfl rfl rfl rfl), ?_⟩
          · exact ⟨hst.kept.lines, hst.kept.warnings, hst.kept.tracing, hst.kept.nesting, hst.kept.state⟩
          · show ({ line := τ.loc.line, idx := _ } : Loc) = _
            rw [hst.line, hline, heol]
  | some e =>
    obtain ⟨hcl, hcovt, hcove⟩ : t.closes = true ∧ t.CoveredB ∧ e.CoveredB := hcov
    obtain ⟨hresc, hrest, hrese⟩ : Resolved r.fns c ∧ ResolvedS r.fns t ∧ ResolvedS r.fns e := hres
    simp only [sdepth3] at hd hn
    have hAt0 : At σ pre (.kw .If :: (render2 c ++ .kw .Then :: (renderS3 t ++ .kw .Else :: (renderS3 e ++ rest)))) := by
      simpa only [renderS3, List.cons_append, List.append_assoc] using hP.cur
    have hlen : (renderS3 (.ifS c t (some e))).length =
        1 + (render2 c).length + 1 + (renderS3 t).length + 1 + (renderS3 e).length := by
      simp only [renderS3, List.length_cons, List.length_append]; omega
    have hC := if_cond3 hS c fuel pre _ hAt0 hresc (by omega) (by omega)
    cases hev : fold2 callFuel r.env c with
    | error x =>
      rw [hev] at hC
      rw [exec_if_err hev]
      exact hC
    | ok q =>
      obtain ⟨v, env'⟩ := q
      rw [hev] at hC
      obtain ⟨τ, hrun, hSτ, hst, hAtτ⟩ := hC
      rw [hrun]
      have hlτ : τ.loc.line = some n := by rw [hst.line]; exact hline
      have hgτ : τ.lines.get n = some ((pre ++ [Token.kw Kw.If] ++ render2 c ++ [Token.kw Kw.Then]) ++
          (renderS3 t ++ .kw .Else :: (renderS3 e ++ rest))) := get_of_at hlτ hAtτ
      have heol : eol = ((pre ++ [Token.kw Kw.If] ++ render2 c ++ [Token.kw Kw.Then]) ++
          (renderS3 t ++ Token.kw Kw.Else :: (renderS3 e ++ rest))).length := by
        rw [hP.heol]; simp only [renderS3, List.length_append, List.length_cons, List.length_nil]; omega
      cases hb : v.toBool with
      | true =>
        have hex : (RStmt3.ifS c t (some e)).exec (allDataI p.q) n j r =
            closeLine3 ((t.exec (allDataI p.q) n j (r.put env')).1, (t.exec (allDataI p.q) n j (r.put env')).2) := by
          simp only [RStmt3.exec, evalE, hev, hb, ↓reduceIte]
        rw [hex]
        show Outcome3 p σ n after eol ((statementOrGoto (evalN fuel) >>= fun _ => tailElse) τ) _ _
        rw [bind_andThen]
        have hPt : Pos p τ n j t (pre ++ [Token.kw Kw.If] ++ render2 c ++ [Token.kw Kw.Then]) (.kw .Else :: (renderS3 e ++ rest))
            ((pre ++ [Token.kw Kw.If] ++ render2 c ++ [Token.kw Kw.Then]).length + (renderS3 t).length) eol :=
          ⟨hlτ, hAtτ, rfl, heol, fun h => (lineEnd3_else_false h).elim⟩
        have hB := ht fuel τ (r.put env') _ _ _ eol hSτ hPt (Or.inr ⟨hcl, _, rfl⟩) hcovt hrest
          (by show sdepth3 r.fns t + 1 ≤ fuel; omega)
          (by show τ.nesting + (sdepth3 r.fns t + 1) ≤ _; rw [hst.kept.nesting]; omega)
        refine outcome_start ?_ hst
        exact tail_else (pre := (pre ++ [Token.kw Kw.If] ++ render2 c ++ [Token.kw Kw.Then]) ++ renderS3 t)
          (rest := renderS3 e ++ rest)
          (by rw [hst.kept.lines]; exact hS.env.lines) hS.wf
          (by rw [hgτ]; simp only [List.append_assoc, List.cons_append, List.nil_append])
          (by simp only [List.length_append]) (by rw [heol]; simp only [List.append_assoc, List.cons_append, List.nil_append]) hB
      | false =>
        have hex : (RStmt3.ifS c t (some e)).exec (allDataI p.q) n j r = e.exec (allDataI p.q) n j (r.put env') := by
          simp only [RStmt3.exec, evalE, hev, hb, Bool.false_eq_true, ↓reduceIte]
        rw [hex]
        show Outcome3 p σ n after eol ((lineBudget >>= fun b => ifSkipLoop (evalN fuel) b) τ) _ _
        rw [bind_ok (lineBudget_eq hAtτ.1)]
        obtain ⟨k, hk⟩ : ∃ k, (pre ++ [Token.kw Kw.If] ++ render2 c ++ [Token.kw Kw.Then] ++
            (renderS3 t ++ Token.kw Kw.Else :: (renderS3 e ++ rest))).length + 1
            = (k + 1) + (renderS3 t).length :=
          ⟨pre.length + (render2 c).length + (renderS3 e).length + rest.length + 2 + 1, by
            simp only [List.length_append, List.length_cons, List.length_nil]; omega⟩
        rw [hk, ifSkipLoop_skip _ (renderS3 t) (k + 1) _ _ _ hAtτ (renderS3_tokens t (closes_elseFree t hcl))]
        have hAt4 := at_mv hAtτ (τ.reads + (renderS3 t).length)
        rw [ifSkipLoop_else hAt4]
        have hAt5 := at_mv1 hAt4 ((mv τ (renderS3 t).length (τ.reads + (renderS3 t).length)).reads + 1)
        have hst5 : Start σ (mv (mv τ (renderS3 t).length (τ.reads + (renderS3 t).length)) 1
            ((mv τ (renderS3 t).length (τ.reads + (renderS3 t).length)).reads + 1)) :=
          hst.trans ((start_mv _ _ _).trans (start_mv _ _ _))
        have hPe : Pos p (mv (mv τ (renderS3 t).length (τ.reads + (renderS3 t).length)) 1
            ((mv τ (renderS3 t).length (τ.reads + (renderS3 t).length)).reads + 1)) n j e
            (pre ++ [Token.kw Kw.If] ++ render2 c ++ [Token.kw Kw.Then] ++ renderS3 t ++ [Token.kw Kw.Else]) rest after eol :=
          ⟨hlτ, hAt5,
           by rw [hP.hafter, hlen]; simp only [List.length_append, List.length_cons, List.length_nil]; omega,
           by rw [hP.heol]; simp only [renderS3, List.length_append, List.length_cons, List.length_nil]; omega,
           hP.addr⟩
        have hB := he e rfl fuel _ (r.put env') _ rest after eol ((hSτ.mv _ _).mv _ _) hPe (Or.inl hLE) hcove hrese
          (by show sdepth3 r.fns e + 1 ≤ fuel; omega)
          (by show τ.nesting + (sdepth3 r.fns e + 1) ≤ _; rw [hst.kept.nesting]; omega)
        exact outcome_start hB hst5

end stmts

end Abasic.Stmt3T
