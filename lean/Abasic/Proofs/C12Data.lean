import Abasic.Proofs.DataLemmas
/-
  Helper lemmas for C12Close.lean: where the payload of a DATA statement ends
  (`dataRest`), and that a blank outside quotes never moves that end (`dataRest_blank`).
-/
namespace Abasic
variable {F : Type} [NumOps F]

/-! ### `trim` and emptiness -/

theorem trim_isEmpty_iff (a : Str) : (trim a).isEmpty = true ↔ AllWs a := by
  rw [List.isEmpty_iff]
  exact ⟨trim_eq_nil a, trim_of_allWs a⟩

theorem allWs_snoc (a : Str) (c : Char) : AllWs (a ++ [c]) ↔ AllWs a ∧ isUnicodeWs c = true := by
  constructor
  · intro h
    exact ⟨fun x hx => h x (List.mem_append_left _ hx), h c (by simp)⟩
  · intro ⟨h1, h2⟩ x hx
    rcases List.mem_append.mp hx with hx | hx
    · exact h1 x hx
    · have : x = c := by simpa using hx
      rw [this]; exact h2

/-- whether an item is blank so far depends, after one more character, only on whether it
    was blank before -/
theorem trim_isEmpty_snoc (a b : Str) (c : Char) (h : (trim a).isEmpty = (trim b).isEmpty) :
    (trim (a ++ [c])).isEmpty = (trim (b ++ [c])).isEmpty := by
  rw [Bool.eq_iff_iff] at h ⊢
  rw [trim_isEmpty_iff, trim_isEmpty_iff] at h
  rw [trim_isEmpty_iff, trim_isEmpty_iff, allWs_snoc, allWs_snoc, h]

/-! ### where the payload ends -/

/-- What `chomp_next_token` leaves after a DATA statement with the text `pl` behind the
    keyword: `parse_data_until_colon` reports the number of bytes it consumed. -/
def dataRest (F : Type) [NumOps F] (pl : Str) : Str := dropBytes (parseData (F := F) pl).2 pl

theorem parseData_unfinished (s : Str) (h : (DataParser.run ({} : DataParser F) s).finished = false) :
    (parseData (F := F) s).2 = len8 s := by
  unfold parseData
  simp only
  rw [DataParser.finish_chomped, DataParser.run_chomped _ _ rfl h]
  simp

/-- no unquoted colon: the payload is everything -/
theorem dataRest_unfinished (s : Str) (h : (DataParser.run ({} : DataParser F) s).finished = false) :
    dataRest F s = [] := by
  unfold dataRest
  rw [parseData_unfinished s h]
  have := dropBytes_len8 s []
  rw [List.append_nil] at this
  exact this

/-- the payload ends at the first unquoted colon -/
theorem dataRest_colon (a x : Str) (hf : (DataParser.run ({} : DataParser F) a).finished = false)
    (hq : (DataParser.run ({} : DataParser F) a).inQuote = false) :
    dataRest F (a ++ ':' :: x) = ':' :: x := by
  unfold dataRest
  rw [parseData_colon a x hf hq]
  exact dropBytes_len8 a _

/-- What follows a DATA payload is nothing or starts with the terminating colon. -/
theorem dataRest_nil_or_colon (pl : Str) : dataRest F pl = [] ∨ ∃ r, dataRest F pl = ':' :: r := by
  cases hfin : (DataParser.run ({} : DataParser F) pl).finished with
  | false => exact Or.inl (dataRest_unfinished pl hfin)
  | true =>
    obtain ⟨a, x, e, h1, h2, _⟩ := DataParser.run_finished_cases pl ({} : DataParser F) rfl hfin
    rw [e]
    exact Or.inr ⟨x, dataRest_colon a x h1 h2⟩

namespace DataParser

/-- Two unfinished parser states that agree on what decides how the text is cut up:
    inside/outside quotes, and whether the current item is blank so far. -/
def Shape (p p' : DataParser F) : Prop :=
  p.finished = false ∧ p'.finished = false ∧ p.inQuote = p'.inQuote ∧
  (trim p.cur).isEmpty = (trim p'.cur).isEmpty

theorem Shape.parseChar {p p' : DataParser F} (h : Shape p p') (c : Char) :
    ((p.parseChar c).finished = true ∧ (p'.parseChar c).finished = true) ∨
    Shape (p.parseChar c) (p'.parseChar c) := by
  by_cases hcol : p.inQuote = false ∧ c = ':'
  · obtain ⟨hq, hc⟩ := hcol
    subst hc
    left
    rw [parseChar_colon p hq, parseChar_colon p' (h.2.2.1 ▸ hq)]
    exact ⟨finish_finished _, finish_finished _⟩
  · right
    have hcol' : ¬ (p'.inQuote = false ∧ c = ':') := by rw [← h.2.2.1]; exact hcol
    refine ⟨(parseChar_unfinished p c h.1 hcol).1, (parseChar_unfinished p' c h.2.1 hcol').1, ?_⟩
    obtain ⟨q, els, ch, cur, fin⟩ := p
    obtain ⟨q', els', ch', cur', fin'⟩ := p'
    obtain ⟨h1, h2, h3, h4⟩ := h
    simp only at h1 h2 h3 h4 hcol
    subst h1; subst h2; subst h3
    have hsn := trim_isEmpty_snoc cur cur' c h4
    have hnil : trim ([] : Str) = [] := rfl
    cases q with
    | true =>
      unfold DataParser.parseChar
      by_cases h3 : (c == '"') = true <;> simp [h3, pushCurrent, hnil, hsn]
    | false =>
      have hc : (c == ':') = false := by
        apply beq_false_of_ne; intro e; exact hcol ⟨rfl, e⟩
      unfold DataParser.parseChar
      cases he : (trim cur).isEmpty <;> (have he' := h4.symm; rw [he] at he') <;>
      by_cases h2 : (c == ',') = true <;> by_cases h3 : (c == '"') = true <;>
      simp [hc, h2, h3, pushCurrent, hnil, hsn, he, he']

theorem Shape.run (s : Str) : ∀ {p p' : DataParser F}, Shape p p' → (run p s).finished = false →
    Shape (run p s) (run p' s) := by
  induction s with
  | nil => intro p p' h _; exact h
  | cons c cs ih =>
    intro p p' h hf
    rw [run_cons] at hf ⊢
    rw [run_cons]
    rcases h.parseChar c with ⟨h1, _⟩ | hs
    · rw [if_pos h1] at hf; rw [h1] at hf; cases hf
    · have h1 : ¬ (p.parseChar c).finished = true := by rw [hs.1]; simp
      have h2 : ¬ (p'.parseChar c).finished = true := by rw [hs.2.1]; simp
      rw [if_neg h1] at hf
      rw [if_neg h1, if_neg h2]
      exact ih hs hf

/-- a blank outside quotes keeps the shape -/
theorem shape_blank (p : DataParser F) (w : Char) (hw : isBasicWs w = true) (hq : p.inQuote = false)
    (hf : p.finished = false) : Shape p (p.parseChar w) := by
  rw [parseChar_blank p w hw hq hf]
  refine ⟨hf, hf, rfl, ?_⟩
  simp only
  rw [trim_append_ws p.cur w (isUnicodeWs_of_isBasicWs w hw)]

end DataParser

/-- A blank outside quotes never moves the end of a DATA payload: what is left after the
    statement is the same. -/
theorem dataRest_blank (a s : Str) (w : Char) (hw : isBasicWs w = true)
    (hf : (DataParser.run ({} : DataParser F) a).finished = false)
    (hq : (DataParser.run ({} : DataParser F) a).inQuote = false) :
    dataRest F (a ++ w :: s) = dataRest F (a ++ s) := by
  have hsh := DataParser.shape_blank _ w hw hq hf
  have hwf : ((DataParser.run ({} : DataParser F) a).parseChar w).finished = false := hsh.2.1
  have hrun : ∀ y, DataParser.run ({} : DataParser F) (a ++ w :: y) =
      DataParser.run ((DataParser.run ({} : DataParser F) a).parseChar w) y := by
    intro y
    rw [DataParser.run_append a _ hf, DataParser.run_cons, hwf]
    simp
  cases hfin : (DataParser.run (DataParser.run ({} : DataParser F) a) s).finished with
  | false =>
    have h1 : (DataParser.run ({} : DataParser F) (a ++ s)).finished = false := by
      rw [DataParser.run_append a _ hf]; exact hfin
    have h2 : (DataParser.run ({} : DataParser F) (a ++ w :: s)).finished = false := by
      rw [hrun]; exact (DataParser.Shape.run s hsh hfin).2.1
    rw [dataRest_unfinished _ h1, dataRest_unfinished _ h2]
  | true =>
    obtain ⟨a0, x, e, h1, h2, _⟩ := DataParser.run_finished_cases s _ hf hfin
    have hs := DataParser.Shape.run a0 hsh h1
    subst e
    have e1 : a ++ (a0 ++ ':' :: x) = (a ++ a0) ++ ':' :: x := by simp
    have e2 : a ++ w :: (a0 ++ ':' :: x) = (a ++ w :: a0) ++ ':' :: x := by simp
    rw [e1, e2]
    rw [dataRest_colon (a ++ a0) x (by rw [DataParser.run_append a _ hf]; exact h1)
      (by rw [DataParser.run_append a _ hf]; exact h2)]
    rw [dataRest_colon (a ++ w :: a0) x (by rw [hrun]; exact hs.2.1)
      (by rw [hrun, ← hs.2.2.1]; exact h2)]

end Abasic
