import Abasic.Ref.Stmt
import Abasic.Proofs.ExprLemmas
/-
  Helper lemmas for the statement-level refinement (Abasic/Props/C03Stmt.lean).
-/
namespace Abasic.StmtL
open Abasic Abasic.Ref Abasic.ExprL M

variable {F : Type}

/-! ### tokens of a rendered expression -/

/-- a token that neither ends a statement nor separates PRINT items -/
def Plain (t : Token F) : Prop :=
  t.isKw .Colon = false ∧ t.isKw .Else = false ∧ t.isKw .Semicolon = false ∧ t.isKw .Comma = false

theorem plain_binop (op : BinOp) : Plain (Token.kw (F := F) (BinOp.token op)) := by
  cases op with
  | cmp c => cases c <;> exact ⟨rfl, rfl, rfl, rfl⟩
  | _ => exact ⟨rfl, rfl, rfl, rfl⟩

theorem plain_unop (op : UnOp) : Plain (Token.kw (F := F) (UnOp.token op)) := by
  cases op <;> exact ⟨rfl, rfl, rfl, rfl⟩

theorem plain_paren (e : Expr F) (ih : ∀ t ∈ render e, Plain t) :
    ∀ t ∈ (Token.kw .LeftParen :: (render e ++ [Token.kw .RightParen])), Plain t := by
  intro t ht
  simp only [List.mem_cons, List.mem_append, List.not_mem_nil, or_false] at ht
  rcases ht with rfl | ht | rfl
  · exact ⟨rfl, rfl, rfl, rfl⟩
  · exact ih t ht
  · exact ⟨rfl, rfl, rfl, rfl⟩

theorem plain_fixP (p : Nat) (e : Expr F) (ih : ∀ t ∈ render e, Plain t) :
    ∀ t ∈ render (fixP p e), Plain t := by
  unfold fixP; split
  · rw [render_paren]; exact plain_paren e ih
  · exact ih

theorem plain_render (e : Expr F) : ∀ t ∈ render e, Plain t := by
  induction e with
  | num x => intro t ht; rw [render_num] at ht; simp only [List.mem_singleton] at ht; subst ht; exact ⟨rfl, rfl, rfl, rfl⟩
  | str s => intro t ht; rw [render_str] at ht; simp only [List.mem_singleton] at ht; subst ht; exact ⟨rfl, rfl, rfl, rfl⟩
  | var n => intro t ht; rw [render_var] at ht; simp only [List.mem_singleton] at ht; subst ht; exact ⟨rfl, rfl, rfl, rfl⟩
  | paren x ih => rw [render_paren]; exact plain_paren x ih
  | abs x ih =>
    rw [render_abs]; intro t ht
    rcases List.mem_cons.mp ht with rfl | ht
    · exact ⟨rfl, rfl, rfl, rfl⟩
    · exact plain_paren x ih t ht
  | int x ih =>
    rw [render_int]; intro t ht
    rcases List.mem_cons.mp ht with rfl | ht
    · exact ⟨rfl, rfl, rfl, rfl⟩
    · exact plain_paren x ih t ht
  | un op x ih =>
    rw [render_un]; intro t ht
    rcases List.mem_cons.mp ht with rfl | ht
    · exact plain_unop op
    · exact plain_fixP 8 x ih t ht
  | bin op l r ihl ihr =>
    rw [render_bin]; intro t ht
    rcases List.mem_append.mp ht with ht | ht
    · exact plain_fixP _ l ihl t ht
    · rcases List.mem_cons.mp ht with rfl | ht
      · exact plain_binop op
      · exact plain_fixP _ r ihr t ht

theorem render_pos (e : Expr F) : 0 < (render e).length := by
  cases e with
  | num x => rw [render_num]; exact Nat.zero_lt_one
  | str s => rw [render_str]; exact Nat.zero_lt_one
  | var n => rw [render_var]; exact Nat.zero_lt_one
  | paren x => rw [render_paren]; exact Nat.succ_pos _
  | abs x => rw [render_abs]; exact Nat.succ_pos _
  | int x => rw [render_int]; exact Nat.succ_pos _
  | un op x => rw [render_un]; exact Nat.succ_pos _
  | bin op l r => rw [render_bin, List.length_append, List.length_cons]; omega

theorem render_head (e : Expr F) : ∃ t ts, render e = t :: ts ∧ Plain t := by
  cases h : render e with
  | nil => have := render_pos e; rw [h] at this; exact absurd this (Nat.lt_irrefl _)
  | cons t ts => exact ⟨t, ts, rfl, plain_render e t (by rw [h]; exact List.mem_cons_self)⟩

/-! ### what may follow a statement -/

/-- end of line, `:` or `ELSE` -/
def StmtEnd (rest : List (Token F)) : Prop :=
  ∀ t, rest.head? = some t → t = .kw .Colon ∨ t = .kw .Else

/-- end of line or `:` -/
def LineEnd (rest : List (Token F)) : Prop :=
  ∀ t, rest.head? = some t → t = .kw .Colon

theorem LineEnd.stmtEnd {rest : List (Token F)} (h : LineEnd rest) : StmtEnd rest :=
  fun t ht => Or.inl (h t ht)

theorem stmtEnd_else (rest : List (Token F)) : StmtEnd (.kw .Else :: rest) := by
  intro t ht
  simp only [List.head?_cons, Option.some.injEq] at ht
  exact Or.inr ht.symm

theorem opsAt_colon (i : Nat) : opsAt (F := F) i (.kw .Colon) = none := by
  rcases i with _ | _ | _ | _ | _ | _ | j <;> rfl
theorem opsAt_else (i : Nat) : opsAt (F := F) i (.kw .Else) = none := by
  rcases i with _ | _ | _ | _ | _ | _ | j <;> rfl
theorem opsAt_semi (i : Nat) : opsAt (F := F) i (.kw .Semicolon) = none := by
  rcases i with _ | _ | _ | _ | _ | _ | j <;> rfl
theorem opsAt_comma (i : Nat) : opsAt (F := F) i (.kw .Comma) = none := by
  rcases i with _ | _ | _ | _ | _ | _ | j <;> rfl
theorem opsAt_then (i : Nat) : opsAt (F := F) i (.kw .Then) = none := by
  rcases i with _ | _ | _ | _ | _ | _ | j <;> rfl

theorem ends_of_stmtEnd {rest : List (Token F)} (h : StmtEnd rest) (j : Nat) : Ends j rest := by
  intro t ht
  rcases h t ht with rfl | rfl
  · exact ⟨rfl, fun i _ => opsAt_colon i⟩
  · exact ⟨rfl, fun i _ => opsAt_else i⟩

theorem ends_then (j : Nat) (rest : List (Token F)) : Ends j (.kw .Then :: rest) := by
  intro t ht
  simp only [List.head?_cons, Option.some.injEq] at ht
  subst ht
  exact ⟨rfl, fun i _ => opsAt_then i⟩

theorem ends_semi (j : Nat) (rest : List (Token F)) : Ends j (.kw .Semicolon :: rest) := by
  intro t ht
  simp only [List.head?_cons, Option.some.injEq] at ht
  subst ht
  exact ⟨rfl, fun i _ => opsAt_semi i⟩

theorem ends_comma (j : Nat) (rest : List (Token F)) : Ends j (.kw .Comma :: rest) := by
  intro t ht
  simp only [List.head?_cons, Option.some.injEq] at ht
  subst ht
  exact ⟨rfl, fun i _ => opsAt_comma i⟩

/-! ### the refinement relation -/

/-- PRINT records as they sit in `St.out` (newest first) -/
def outRecs (out : List Str) : List Out := (out.map Out.print).reverse

/-- A run `res` of the model from `σ` realises the reference result `r`.
    `after` is the cursor position just behind the statement, `eol` the length
    of the line.  Nothing but the named fields changes; `reads` grows. -/
def Refines (res : Res F Unit) (σ : St F) (after eol : Nat) (r : RResult F) : Prop :=
  match r.ctl with
  | .next => ∃ k, σ.reads < k ∧ res = .ok ()
      { σ with vars := r.vars, out := outRecs r.out ++ σ.out, loc := { σ.loc with idx := after }, reads := k }
  | .skipLine => ∃ k, σ.reads < k ∧ res = .ok ()
      { σ with vars := r.vars, out := outRecs r.out ++ σ.out, loc := { σ.loc with idx := eol }, reads := k }
  | .jump n =>
    (σ.lines.has n = true → ∃ k, σ.reads < k ∧ res = .ok ()
      { σ with vars := r.vars, out := outRecs r.out ++ σ.out, bp := none,
               loc := { line := some n, idx := 0 }, reads := k }) ∧
    (σ.lines.has n = false →
      ∃ σ', res = .err { err := .undefinedStatement } σ' ∧ σ'.nesting = σ.nesting)
  | .stop => ∃ k, σ.reads < k ∧ res = .ok ()
      { σ with vars := r.vars, out := outRecs r.out ++ σ.out, imm := [], loc := {}, reads := k }
  | .error x => ∃ σ', res = .err { err := x } σ' ∧ σ'.nesting = σ.nesting

variable [NumOps F]

theorem getVar_eq_envOf (σ : St F) : getVar σ = envOf σ.vars := rfl

/-! ### small steps -/

omit [NumOps F] in
theorem traceHere_off {σ : St F} (h : σ.tracing = false) : traceHere σ = .ok () σ := by
  simp [traceHere, bind, M.bindM, M.get, h, pure, M.pureM]

theorem optionalArrayIndex_none {ev : Evals F} {σ : St F} {pre post : List (Token F)} {t : Token F}
    (h : At σ pre (t :: post)) (ht : t.isKw .LeftParen = false) :
    optionalArrayIndex ev σ = .ok none (mv σ 0 (σ.reads + 1)) := by
  unfold optionalArrayIndex
  rw [bind_ok (peekIsKw_cons .LeftParen h)]
  simp only [ht, Bool.false_eq_true, ↓reduceIte]
  rfl


/-! ### LET -/

theorem let_run (x : Str) (e : Expr F) (n : Nat) (σ : St F) (pre rest : List (Token F)) (eol : Nat)
    (hAt : At σ pre (renderS (.letS x e) ++ rest)) (hq : Quiet σ) (htr : σ.tracing = false)
    (hd : depth e + 1 ≤ n) (hn : σ.nesting + (depth e + 1) ≤ Extracted.nestingLimit)
    (hE : Ends 6 rest) :
    Refines (stmtBody (evalN n) σ) σ (pre.length + (renderS (.letS x e)).length) eol
      (RStmt.exec σ.vars (.letS x e)) := by
  have hAt0 : At σ pre (.kw .Let :: .symbol x :: .kw .Equals :: (render e ++ rest)) := by
    simpa only [renderS, List.cons_append] using hAt
  have hAt1 := at_mv1 hAt0 (σ.reads + 1)
  have hAt2 := at_mv1 hAt1 (σ.reads + 1 + 1)
  rw [mv_mv] at hAt2
  have hAt3 := at_mv0 hAt2 (σ.reads + 1 + 1 + 1)
  rw [mv_mv] at hAt3
  have hAt4 := at_mv1 hAt3 (σ.reads + 1 + 1 + 1 + 1)
  rw [mv_mv] at hAt4
  have hrun : stmtBody (evalN n) σ =
      ((evalN n).expr >>= fun v => assignValue { name := x, index := none } v)
        (mv σ (1 + 1 + 0 + 1) (σ.reads + 1 + 1 + 1 + 1)) := by
    unfold stmtBody
    rw [bind_ok (traceHere_off htr)]
    unfold dispatch
    rw [bind_ok (next_eq hAt0)]
    show letStatement (evalN n) _ = _
    unfold letStatement
    rw [bind_ok (next_eq hAt1), mv_mv]
    simp only [mv_reads]
    show assignmentStatement (evalN n) x _ = _
    unfold assignmentStatement
    rw [bind_ok (optionalArrayIndex_none hAt2 rfl), mv_mv]
    simp only [mv_reads]
    rw [bind_ok (expect_eq hAt3 rfl), mv_mv]
    rfl
  have hX := expr_eq e (main e).1 n (mv σ (1 + 1 + 0 + 1) (σ.reads + 1 + 1 + 1 + 1)) _ rest hd hn hE hAt4 (hq.mv _ _)
  rw [getVar_mv] at hX
  rw [hrun]
  show Refines _ σ _ eol (RStmt.exec σ.vars (.letS x e))
  cases hev : foldE (getVar σ) e with
  | error err =>
    rw [hev] at hX
    obtain ⟨σ', hσ', hn'⟩ := hX
    have hr : RStmt.exec σ.vars (.letS x e) = { vars := σ.vars, out := [], ctl := .error err } := by
      simp only [RStmt.exec, ← getVar_eq_envOf, hev]
    rw [hr]
    exact ⟨σ', bind_err hσ', hn'⟩
  | ok v =>
    rw [hev] at hX
    obtain ⟨r, hr, hσ'⟩ := hX
    simp only [mv_reads, mv_mv] at hr hσ'
    rw [bind_ok hσ']
    cases hm : v.matchesName x with
    | false =>
      have hr : RStmt.exec σ.vars (.letS x e) = { vars := σ.vars, out := [], ctl := .error .typeMismatch } := by
        simp only [RStmt.exec, ← getVar_eq_envOf, hev, hm, Bool.false_eq_true, ↓reduceIte]
      rw [hr]
      refine ⟨mv σ (1 + 1 + 0 + 1 + (render e).length) r, ?_, rfl⟩
      simp only [assignValue, setVar, hm, Bool.false_eq_true, ↓reduceIte, M.fail]
    | true =>
      have hr' : RStmt.exec σ.vars (.letS x e) = { vars := alSet x v σ.vars, out := [], ctl := .next } := by
        simp only [RStmt.exec, ← getVar_eq_envOf, hev, hm, ↓reduceIte]
      rw [hr']
      refine ⟨r, by omega, ?_⟩
      simp only [assignValue, setVar, hm, ↓reduceIte, M.modify, outRecs, List.map_nil, List.reverse_nil,
        List.nil_append, mv, hAt.2, renderS, List.length_cons]
      congr 3
      omega


/-! ### GOTO, END -/

omit [NumOps F] in
theorem gotoLine_eq (m : Nat) (σ : St F) :
    gotoLine m σ =
      if σ.lines.has m then .ok () { σ with bp := none, loc := { line := some m, idx := 0 } }
      else .err { err := .undefinedStatement } { σ with bp := none } := by
  cases hh : σ.lines.has m <;>
    simp [gotoLine, bind, M.bindM, M.modify, M.get, M.set, M.fail, hh]

theorem goto_run (m : Nat) (n : Nat) (σ : St F) (pre rest : List (Token F)) (after eol : Nat)
    (hAt : At σ pre (renderS (.gotoS m : RStmt F) ++ rest)) (htr : σ.tracing = false)
    (hround : NumOps.toU64 (NumOps.ofNat m : F) = m) :
    Refines (stmtBody (evalN n) σ) σ after eol (RStmt.exec σ.vars (.gotoS m)) := by
  have hAt0 : At σ pre (.kw .Goto :: .num (NumOps.ofNat m) :: rest) := by
    simpa only [renderS, List.cons_append, List.nil_append] using hAt
  have hAt1 := at_mv1 hAt0 (σ.reads + 1)
  have hrun : stmtBody (evalN n) σ = gotoLine m (mv σ (1 + 1) (σ.reads + 1 + 1)) := by
    unfold stmtBody
    rw [bind_ok (traceHere_off htr)]
    unfold dispatch
    rw [bind_ok (next_eq hAt0)]
    show gotoStatement _ = _
    unfold gotoStatement
    rw [bind_ok (next_eq hAt1), mv_mv]
    simp only [mv_reads, hround]
  rw [hrun, gotoLine_eq]
  show Refines _ σ after eol { vars := σ.vars, out := [], ctl := .jump m }
  unfold Refines
  show (σ.lines.has m = true → _) ∧ (σ.lines.has m = false → _)
  constructor
  · intro hh
    have hh' : (mv σ (1 + 1) (σ.reads + 1 + 1)).lines.has m = true := hh
    refine ⟨σ.reads + 1 + 1, by omega, ?_⟩
    rw [hh']
    rfl
  · intro hh
    have hh' : (mv σ (1 + 1) (σ.reads + 1 + 1)).lines.has m = false := hh
    exact ⟨{ mv σ (1 + 1) (σ.reads + 1 + 1) with bp := none }, by rw [hh']; rfl, rfl⟩

theorem end_run (n : Nat) (σ : St F) (pre rest : List (Token F)) (after eol : Nat)
    (hAt : At σ pre (renderS (.endS : RStmt F) ++ rest)) (htr : σ.tracing = false)
    (hstack : σ.stack = []) :
    Refines (stmtBody (evalN n) σ) σ after eol (RStmt.exec σ.vars .endS) := by
  have hAt0 : At σ pre (.kw .End :: rest) := by
    simpa only [renderS, List.cons_append, List.nil_append] using hAt
  show Refines _ σ after eol { vars := σ.vars, out := [], ctl := .stop }
  unfold Refines
  refine ⟨σ.reads + 1, by omega, ?_⟩
  unfold stmtBody
  rw [bind_ok (traceHere_off htr)]
  unfold dispatch
  rw [bind_ok (next_eq hAt0)]
  show setImmediate [] _ = _
  simp only [setImmediate, M.modify, St.setImmediate, mv, hstack, ite_self, outRecs, List.map_nil,
    List.reverse_nil, List.nil_append]


/-! ### PRINT -/

theorem printLoop_semi {ev : Evals F} {k : Nat} {semi : Bool} {acc : Str} {σ : St F}
    {pre post : List (Token F)} (h : At σ pre (.kw .Semicolon :: post)) :
    printLoop ev (k + 1) semi acc σ = printLoop ev k true acc (mv σ 1 (σ.reads + 1 + 1)) := by
  have h1 : (Token.kw (F := F) .Semicolon).isKw .Colon = false := rfl
  have h2 : (Token.kw (F := F) .Semicolon).isKw .Else = false := rfl
  have h3 : (Token.kw (F := F) .Semicolon).isKw .Semicolon = true := rfl
  rw [printLoop]
  rw [bind_ok (peek_eq h)]
  simp only [List.head?_cons, h1, h2, h3, Bool.or_false, Bool.false_eq_true, ↓reduceIte]
  rw [bind_ok (next_eq (at_mv0 h _)), mv_mv]
  rfl

theorem printLoop_comma {ev : Evals F} {k : Nat} {semi : Bool} {acc : Str} {σ : St F}
    {pre post : List (Token F)} (h : At σ pre (.kw .Comma :: post)) :
    printLoop ev (k + 1) semi acc σ = printLoop ev k false (acc ++ ['\t']) (mv σ 1 (σ.reads + 1 + 1)) := by
  have h1 : (Token.kw (F := F) .Comma).isKw .Colon = false := rfl
  have h2 : (Token.kw (F := F) .Comma).isKw .Else = false := rfl
  have h3 : (Token.kw (F := F) .Comma).isKw .Semicolon = false := rfl
  have h4 : (Token.kw (F := F) .Comma).isKw .Comma = true := rfl
  rw [printLoop]
  rw [bind_ok (peek_eq h)]
  simp only [List.head?_cons, h1, h2, h3, h4, Bool.or_false, Bool.false_eq_true, ↓reduceIte]
  rw [bind_ok (next_eq (at_mv0 h _)), mv_mv]
  rfl

theorem printLoop_expr {ev : Evals F} {k : Nat} {semi : Bool} {acc : Str} {σ : St F}
    {pre post : List (Token F)} {t : Token F} (h : At σ pre (t :: post)) (hp : Plain t) :
    printLoop ev (k + 1) semi acc σ =
      (ev.expr >>= fun v => printLoop ev k false (acc ++ valueText v)) (mv σ 0 (σ.reads + 1)) := by
  obtain ⟨h1, h2, h3, h4⟩ := hp
  rw [printLoop]
  rw [bind_ok (peek_eq h)]
  simp only [List.head?_cons, h1, h2, h3, h4, Bool.or_false, Bool.false_eq_true, ↓reduceIte]

theorem printLoop_stop {ev : Evals F} {k : Nat} {semi : Bool} {acc : Str} {σ : St F}
    {pre rest : List (Token F)} (h : At σ pre rest) (hE : StmtEnd rest) :
    printLoop ev (k + 1) semi acc σ = .ok (semi, acc) (mv σ 0 (σ.reads + 1)) := by
  rw [printLoop]
  rw [bind_ok (peek_eq h)]
  cases hr : rest.head? with
  | none => rfl
  | some t =>
    rcases hE t hr with rfl | rfl
    · rfl
    · rfl

/-- nesting / fuel needed by the expressions of a PRINT list -/
def itemsDepth : List (PItem F) → Nat
  | [] => 0
  | .expr e :: rest => max (depth e + 1) (itemsDepth rest)
  | _ :: rest => itemsDepth rest

omit [NumOps F] in
theorem sep_tail (i : PItem F) (r : List (PItem F)) (h : separated (i :: r) = true) :
    separated r = true := by
  cases i with
  | semi => exact h
  | comma => exact h
  | expr e =>
    cases r with
    | nil => rfl
    | cons j r' =>
      cases j with
      | expr e' => exact absurd h (by simp [separated])
      | semi => exact h
      | comma => exact h

omit [NumOps F] in
theorem sep_follow (e : Expr F) (r : List (PItem F)) (rest : List (Token F))
    (h : separated (.expr e :: r) = true) (hE : StmtEnd rest) :
    Ends 6 (renderItems r ++ rest) := by
  cases r with
  | nil => exact ends_of_stmtEnd hE 6
  | cons j r' =>
    cases j with
    | expr e' => exact absurd h (by simp [separated])
    | semi => exact ends_semi 6 _
    | comma => exact ends_comma 6 _

theorem printLoop_run (n : Nat) (rest : List (Token F)) (hE : StmtEnd rest) (items : List (PItem F)) :
    ∀ (k : Nat) (σ : St F) (pre : List (Token F)) (semi : Bool) (acc : Str),
      At σ pre (renderItems items ++ rest) → Quiet σ → itemsDepth items ≤ n →
      σ.nesting + itemsDepth items ≤ Extracted.nestingLimit → separated items = true →
      (renderItems items).length < k →
      match printText (getVar σ) items semi acc with
      | .ok text => ∃ r, σ.reads < r ∧ ∃ semi' text',
          printLoop (evalN n) k semi acc σ = .ok (semi', text') (mv σ (renderItems items).length r) ∧
          (if semi' then text' else text' ++ ['\n']) = text
      | .error x => ∃ σ', printLoop (evalN n) k semi acc σ = .err { err := x } σ' ∧
          σ'.nesting = σ.nesting := by
  induction items with
  | nil =>
    intro k σ pre semi acc hAt _ _ _ _ hk
    obtain ⟨k', rfl⟩ : ∃ k', k = k' + 1 := ⟨k - 1, by omega⟩
    have hAt' : At σ pre rest := hAt
    exact ⟨σ.reads + 1, by omega, semi, acc, printLoop_stop hAt' hE, rfl⟩
  | cons i r ih =>
    intro k σ pre semi acc hAt hq hd hn hsep hk
    obtain ⟨k', rfl⟩ : ∃ k', k = k' + 1 := ⟨k - 1, by omega⟩
    have hsep' := sep_tail i r hsep
    cases i with
    | semi =>
      have hAt0 : At σ pre (.kw .Semicolon :: (renderItems r ++ rest)) := hAt
      have hlen : (renderItems (PItem.semi :: r)).length = 1 + (renderItems r).length := by
        simp only [renderItems, PItem.render, List.length_append, List.length_cons, List.length_nil]
      have hI := ih k' (mv σ 1 (σ.reads + 1 + 1)) _ true acc (at_mv1 hAt0 _) (hq.mv _ _) hd hn hsep'
        (by rw [hlen] at hk; omega)
      rw [getVar_mv] at hI
      rw [printLoop_semi hAt0, hlen]
      show match printText (getVar σ) r true acc with | .ok text => _ | .error x => _
      cases hp : printText (getVar σ) r true acc with
      | error x => rw [hp] at hI; exact hI
      | ok text =>
        rw [hp] at hI
        obtain ⟨r', hr', semi', text', hrun, htext⟩ := hI
        simp only [mv_reads, mv_mv] at hr' hrun
        exact ⟨r', by omega, semi', text', hrun, htext⟩
    | comma =>
      have hAt0 : At σ pre (.kw .Comma :: (renderItems r ++ rest)) := hAt
      have hlen : (renderItems (PItem.comma :: r)).length = 1 + (renderItems r).length := by
        simp only [renderItems, PItem.render, List.length_append, List.length_cons, List.length_nil]
      have hI := ih k' (mv σ 1 (σ.reads + 1 + 1)) _ false (acc ++ ['\t']) (at_mv1 hAt0 _) (hq.mv _ _) hd hn hsep'
        (by rw [hlen] at hk; omega)
      rw [getVar_mv] at hI
      rw [printLoop_comma hAt0, hlen]
      show match printText (getVar σ) r false (acc ++ ['\t']) with | .ok text => _ | .error x => _
      cases hp : printText (getVar σ) r false (acc ++ ['\t']) with
      | error x => rw [hp] at hI; exact hI
      | ok text =>
        rw [hp] at hI
        obtain ⟨r', hr', semi', text', hrun, htext⟩ := hI
        simp only [mv_reads, mv_mv] at hr' hrun
        exact ⟨r', by omega, semi', text', hrun, htext⟩
    | expr e =>
      have hAt0 : At σ pre (render e ++ (renderItems r ++ rest)) := by
        simpa only [renderItems, PItem.render, List.append_assoc] using hAt
      have hlen : (renderItems (PItem.expr e :: r)).length = (render e).length + (renderItems r).length := by
        simp only [renderItems, PItem.render, List.length_append]
      have hde : depth e + 1 ≤ n := by simp only [itemsDepth] at hd; omega
      have hdr : itemsDepth r ≤ n := by simp only [itemsDepth] at hd; omega
      have hne : σ.nesting + (depth e + 1) ≤ Extracted.nestingLimit := by simp only [itemsDepth] at hn; omega
      have hnr : σ.nesting + itemsDepth r ≤ Extracted.nestingLimit := by simp only [itemsDepth] at hn; omega
      obtain ⟨t, ts, hts, hpl⟩ := render_head e
      have hAt1 : At σ pre (t :: (ts ++ (renderItems r ++ rest))) := by rw [hts] at hAt0; exact hAt0
      have hX := expr_eq e (main e).1 n (mv σ 0 (σ.reads + 1)) pre _ hde hne
        (sep_follow e r rest hsep hE) (at_mv0 hAt0 _) (hq.mv _ _)
      rw [getVar_mv] at hX
      rw [printLoop_expr hAt1 hpl, hlen]
      show match (match foldE (getVar σ) e with
          | .ok v => printText (getVar σ) r false (acc ++ valueText v)
          | .error err => .error err) with | .ok text => _ | .error x => _
      cases hev : foldE (getVar σ) e with
      | error x =>
        rw [hev] at hX
        obtain ⟨σ', hσ', hn'⟩ := hX
        exact ⟨σ', bind_err hσ', hn'⟩
      | ok v =>
        rw [hev] at hX
        obtain ⟨r1, hr1, hσ1⟩ := hX
        simp only [mv_reads, mv_mv] at hr1 hσ1
        rw [bind_ok hσ1]
        have hI := ih k' (mv σ (0 + (render e).length) r1) _ false (acc ++ valueText v)
          (by have := at_mv hAt0 r1; rwa [Nat.zero_add]) (hq.mv _ _) hdr hnr hsep'
          (by have := render_pos e; rw [hlen] at hk; omega)
        rw [getVar_mv] at hI
        show match printText (getVar σ) r false (acc ++ valueText v) with | .ok text => _ | .error x => _
        cases hp : printText (getVar σ) r false (acc ++ valueText v) with
        | error x => rw [hp] at hI; exact hI
        | ok text =>
          rw [hp] at hI
          obtain ⟨r', hr', semi', text', hrun, htext⟩ := hI
          simp only [mv_reads, mv_mv, Nat.zero_add] at hr' hrun
          rw [Nat.zero_add]
          exact ⟨r', by omega, semi', text', hrun, htext⟩


theorem print_run (items : List (PItem F)) (n : Nat) (σ : St F) (pre rest : List (Token F)) (eol : Nat)
    (hAt : At σ pre (renderS (.printS items) ++ rest)) (hq : Quiet σ) (htr : σ.tracing = false)
    (hd : itemsDepth items ≤ n) (hn : σ.nesting + itemsDepth items ≤ Extracted.nestingLimit)
    (hsep : separated items = true) (hE : StmtEnd rest) :
    Refines (stmtBody (evalN n) σ) σ (pre.length + (renderS (.printS items)).length) eol
      (RStmt.exec σ.vars (.printS items)) := by
  have hAt0 : At σ pre (.kw .Print :: (renderItems items ++ rest)) := by
    simpa only [renderS, List.cons_append] using hAt
  have hAt1 := at_mv1 hAt0 (σ.reads + 1)
  have hL := printLoop_run n rest hE items ((pre ++ [Token.kw Kw.Print] ++ (renderItems items ++ rest)).length + 1)
    (mv σ 1 (σ.reads + 1)) _ false [] hAt1 (hq.mv _ _) hd hn hsep
    (by simp only [List.length_append]; omega)
  rw [getVar_mv] at hL
  have hrun : stmtBody (evalN n) σ =
      (printLoop (evalN n) ((pre ++ [Token.kw Kw.Print] ++ (renderItems items ++ rest)).length + 1) false [] >>=
        fun p => emit (.print (if p.1 then p.2 else p.2 ++ ['\n']))) (mv σ 1 (σ.reads + 1)) := by
    unfold stmtBody
    rw [bind_ok (traceHere_off htr)]
    unfold dispatch
    rw [bind_ok (next_eq hAt0)]
    show printStatement (evalN n) _ = _
    unfold printStatement
    rw [bind_ok (lineBudget_eq hAt1.1)]
  rw [hrun]
  cases hp : printText (getVar σ) items false [] with
  | error x =>
    rw [hp] at hL
    obtain ⟨σ', hσ', hn'⟩ := hL
    have hr : RStmt.exec σ.vars (.printS items) = { vars := σ.vars, out := [], ctl := .error x } := by
      simp only [RStmt.exec, ← getVar_eq_envOf, hp]
    rw [hr]
    exact ⟨σ', bind_err hσ', hn'⟩
  | ok text =>
    rw [hp] at hL
    obtain ⟨r, hr, semi', text', hσ', htext⟩ := hL
    simp only [mv_reads, mv_mv] at hr hσ'
    have hr' : RStmt.exec σ.vars (.printS items) = { vars := σ.vars, out := [text], ctl := .next } := by
      simp only [RStmt.exec, ← getVar_eq_envOf, hp]
    rw [hr', bind_ok hσ']
    refine ⟨r, by omega, ?_⟩
    simp only [emit, M.modify, htext, outRecs, List.map_cons, List.map_nil, List.reverse_cons,
      List.reverse_nil, List.nil_append, List.cons_append, mv, hAt.2, renderS, List.length_cons]
    congr 3
    omega


/-! ### moving a refinement between states -/

omit [NumOps F] in
theorem refines_cast {res : Res F Unit} {σ : St F} {a a' e e' : Nat} {r : RResult F}
    (h : Refines res σ a e r) (ha : a = a') (he : e = e') : Refines res σ a' e' r := by
  subst ha; subst he; exact h

omit [NumOps F] in
/-- the cursor and the read counter of the start state do not matter -/
theorem refines_mv {res : Res F Unit} {σ : St F} {a k after eol : Nat} {r : RResult F}
    (h : Refines res (mv σ a k) after eol r) (hk : σ.reads ≤ k) : Refines res σ after eol r := by
  unfold Refines at h ⊢
  cases hc : r.ctl with
  | next =>
    rw [hc] at h
    obtain ⟨k', hk', hres⟩ := h
    exact ⟨k', by simp only [mv_reads] at hk'; omega, hres⟩
  | skipLine =>
    rw [hc] at h
    obtain ⟨k', hk', hres⟩ := h
    exact ⟨k', by simp only [mv_reads] at hk'; omega, hres⟩
  | jump n =>
    rw [hc] at h
    refine ⟨fun hh => ?_, fun hh => h.2 hh⟩
    obtain ⟨k', hk', hres⟩ := h.1 hh
    exact ⟨k', by simp only [mv_reads] at hk'; omega, hres⟩
  | stop =>
    rw [hc] at h
    obtain ⟨k', hk', hres⟩ := h
    exact ⟨k', by simp only [mv_reads] at hk'; omega, hres⟩
  | error x =>
    rw [hc] at h
    exact h

omit [NumOps F] in
/-- a run one nesting level deeper -/
theorem refines_nested {m : M F Unit} {σ : St F} {after eol : Nat} {r : RResult F}
    (hn : σ.nesting < Extracted.nestingLimit)
    (h : Refines (m (nest σ (σ.nesting + 1))) (nest σ (σ.nesting + 1)) after eol r) :
    Refines (nested m σ) σ after eol r := by
  unfold Refines at h ⊢
  cases hc : r.ctl with
  | next =>
    rw [hc] at h
    obtain ⟨k', hk', hres⟩ := h
    exact ⟨k', hk', by rw [nested_ok hn hres rfl]; rfl⟩
  | skipLine =>
    rw [hc] at h
    obtain ⟨k', hk', hres⟩ := h
    exact ⟨k', hk', by rw [nested_ok hn hres rfl]; rfl⟩
  | jump n =>
    rw [hc] at h
    refine ⟨fun hh => ?_, fun hh => ?_⟩
    · obtain ⟨k', hk', hres⟩ := h.1 hh
      exact ⟨k', hk', by rw [nested_ok hn hres rfl]; rfl⟩
    · obtain ⟨σ', hres, hn'⟩ := h.2 hh
      exact ⟨nest σ' σ.nesting, nested_err hn hres hn', rfl⟩
  | stop =>
    rw [hc] at h
    obtain ⟨k', hk', hres⟩ := h
    exact ⟨k', hk', by rw [nested_ok hn hres rfl]; rfl⟩
  | error x =>
    rw [hc] at h
    obtain ⟨σ', hres, hn'⟩ := h
    exact ⟨nest σ' σ.nesting, nested_err hn hres hn', rfl⟩

/-! ### what IF does after its THEN branch -/

/-- `if ← peekIsKw .Else then discardRemaining` -/
def tailElse : M F Unit := peekIsKw .Else >>= fun b => if b then discardRemaining else pure ()

/-- sequencing on results -/
def andThen (res : Res F Unit) (f : M F Unit) : Res F Unit :=
  match res with
  | .ok _ s => f s
  | .err e s => .err e s

omit [NumOps F] in
theorem bind_andThen (m f : M F Unit) (σ : St F) : (m >>= fun _ => f) σ = andThen (m σ) f := by
  cases h : m σ <;> simp only [bind, M.bindM, andThen, h]

/-- no stored line begins with ELSE -/
def NoElseLine (σ : St F) : Prop :=
  ∀ n ts, σ.lines.get n = some ts → ∀ t, ts.head? = some t → t.isKw .Else = false

omit [NumOps F] in
theorem discardRemaining_eq {σ : St F} {ts : List (Token F)} (h : lineToks σ = some ts) :
    discardRemaining σ = .ok () { σ with loc := { σ.loc with idx := ts.length } } := by
  unfold discardRemaining
  rw [bind_ok (tokens_eq h)]
  rfl

omit [NumOps F] in
theorem tailElse_no {σ : St F} {pre post : List (Token F)} (h : At σ pre post)
    (hk : ∀ t, post.head? = some t → t.isKw .Else = false) :
    tailElse σ = .ok () (mv σ 0 (σ.reads + 1)) := by
  unfold tailElse
  rw [bind_ok (peekIsKw_false .Else h hk)]
  rfl

omit [NumOps F] in
theorem tailElse_yes {σ : St F} {pre post : List (Token F)} (h : At σ pre (.kw .Else :: post)) :
    tailElse σ = .ok ()
      { σ with loc := { σ.loc with idx := (pre ++ .kw .Else :: post).length }, reads := σ.reads + 1 } := by
  unfold tailElse
  rw [bind_ok (peekIsKw_cons .Else h)]
  have hk : (Token.kw (F := F) .Else).isKw .Else = true := rfl
  simp only [hk, ↓reduceIte]
  rw [discardRemaining_eq (ts := pre ++ .kw .Else :: post) (by rw [lineToks_mv]; exact h.1)]
  rfl

omit [NumOps F] in
/-- after a THEN branch that is not followed by ELSE: nothing more happens -/
theorem then_tail_line {res : Res F Unit} {σ : St F} {pre mid rest : List (Token F)} {r : RResult F}
    (hAt : At σ pre (mid ++ rest)) (hNE : NoElseLine σ) (hE : LineEnd rest)
    (hR : Refines res σ (pre.length + mid.length) (pre ++ (mid ++ rest)).length r) :
    Refines (andThen res tailElse) σ (pre.length + mid.length) (pre ++ (mid ++ rest)).length r := by
  have hrest : ∀ t, rest.head? = some t → t.isKw .Else = false := by
    intro t ht; rw [hE t ht]; rfl
  unfold Refines at hR ⊢
  cases hc : r.ctl with
  | next =>
    rw [hc] at hR
    obtain ⟨k, hk, hres⟩ := hR
    refine ⟨k + 1, by omega, ?_⟩
    rw [hres]
    show tailElse _ = _
    rw [tailElse_no (pre := pre ++ mid) (post := rest)
      ⟨by show lineToks σ = _; rw [List.append_assoc]; exact hAt.1,
       by show pre.length + mid.length = _; rw [List.length_append]⟩ hrest]
    rfl
  | skipLine =>
    rw [hc] at hR
    obtain ⟨k, hk, hres⟩ := hR
    refine ⟨k + 1, by omega, ?_⟩
    rw [hres]
    show tailElse _ = _
    rw [tailElse_no (pre := pre ++ (mid ++ rest)) (post := [])
      ⟨by show lineToks σ = _; rw [List.append_nil]; exact hAt.1, rfl⟩
      (fun t ht => by simp at ht)]
    rfl
  | jump n =>
    rw [hc] at hR
    refine ⟨fun hh => ?_, fun hh => ?_⟩
    · obtain ⟨k, hk, hres⟩ := hR.1 hh
      refine ⟨k + 1, by omega, ?_⟩
      rw [hres]
      show tailElse _ = _
      cases hg : σ.lines.get n with
      | none => simp [Lines.has, hg] at hh
      | some ts =>
        rw [tailElse_no (pre := []) (post := ts) ⟨by show σ.lines.get n = some ts; exact hg, rfl⟩ (hNE n ts hg)]
        rfl
    · obtain ⟨σ', hres, hn'⟩ := hR.2 hh
      exact ⟨σ', by rw [hres]; rfl, hn'⟩
  | stop =>
    rw [hc] at hR
    obtain ⟨k, hk, hres⟩ := hR
    refine ⟨k + 1, by omega, ?_⟩
    rw [hres]
    show tailElse _ = _
    rw [tailElse_no (pre := []) (post := []) ⟨rfl, rfl⟩ (fun t ht => by simp at ht)]
    rfl
  | error x =>
    rw [hc] at hR
    obtain ⟨σ', hres, hn'⟩ := hR
    exact ⟨σ', by rw [hres]; rfl, hn'⟩


omit [NumOps F] in
theorem closeLine_next {r : RResult F} (hc : r.ctl = .next) : r.closeLine = { r with ctl := .skipLine } := by
  unfold RResult.closeLine; rw [hc]

omit [NumOps F] in
theorem closeLine_other {r : RResult F} (hc : r.ctl ≠ .next) : r.closeLine = r := by
  unfold RResult.closeLine
  cases h : r.ctl with
  | next => exact absurd h hc
  | _ => rfl

omit [NumOps F] in
/-- after a THEN branch in front of ELSE: a branch that ran to completion abandons the line -/
theorem then_tail_else {res : Res F Unit} {σ : St F} {pre mid rest : List (Token F)} {r : RResult F}
    (hAt : At σ pre (mid ++ .kw .Else :: rest)) (hNE : NoElseLine σ)
    (hR : Refines res σ (pre.length + mid.length) (pre ++ (mid ++ .kw .Else :: rest)).length r) :
    Refines (andThen res tailElse) σ (pre.length + mid.length) (pre ++ (mid ++ .kw .Else :: rest)).length
      r.closeLine := by
  cases hc : r.ctl with
  | next =>
    rw [closeLine_next hc]
    unfold Refines at hR ⊢
    rw [hc] at hR
    obtain ⟨k, hk, hres⟩ := hR
    refine ⟨k + 1, by omega, ?_⟩
    rw [hres]
    show tailElse _ = _
    rw [tailElse_yes (pre := pre ++ mid) (post := rest)
      ⟨by show lineToks σ = _; rw [List.append_assoc]; exact hAt.1,
       by show pre.length + mid.length = _; rw [List.length_append]⟩, List.append_assoc]
  | skipLine =>
    rw [closeLine_other (by rw [hc]; exact fun h => by cases h)]
    unfold Refines at hR ⊢
    rw [hc] at hR ⊢
    obtain ⟨k, hk, hres⟩ := hR
    refine ⟨k + 1, by omega, ?_⟩
    rw [hres]
    show tailElse _ = _
    rw [tailElse_no (pre := pre ++ (mid ++ .kw .Else :: rest)) (post := [])
      ⟨by show lineToks σ = _; rw [List.append_nil]; exact hAt.1, rfl⟩
      (fun t ht => by simp at ht)]
    rfl
  | jump n =>
    rw [closeLine_other (by rw [hc]; exact fun h => by cases h)]
    unfold Refines at hR ⊢
    rw [hc] at hR ⊢
    refine ⟨fun hh => ?_, fun hh => ?_⟩
    · obtain ⟨k, hk, hres⟩ := hR.1 hh
      refine ⟨k + 1, by omega, ?_⟩
      rw [hres]
      show tailElse _ = _
      cases hg : σ.lines.get n with
      | none => simp [Lines.has, hg] at hh
      | some ts =>
        rw [tailElse_no (pre := []) (post := ts) ⟨by show σ.lines.get n = some ts; exact hg, rfl⟩ (hNE n ts hg)]
        rfl
    · obtain ⟨σ', hres, hn'⟩ := hR.2 hh
      exact ⟨σ', by rw [hres]; rfl, hn'⟩
  | stop =>
    rw [closeLine_other (by rw [hc]; exact fun h => by cases h)]
    unfold Refines at hR ⊢
    rw [hc] at hR ⊢
    obtain ⟨k, hk, hres⟩ := hR
    refine ⟨k + 1, by omega, ?_⟩
    rw [hres]
    show tailElse _ = _
    rw [tailElse_no (pre := []) (post := []) ⟨rfl, rfl⟩ (fun t ht => by simp at ht)]
    rfl
  | error x =>
    rw [closeLine_other (by rw [hc]; exact fun h => by cases h)]
    unfold Refines at hR ⊢
    rw [hc] at hR ⊢
    obtain ⟨σ', hres, hn'⟩ := hR
    exact ⟨σ', by rw [hres]; rfl, hn'⟩

/-! ### the skip loop of a false IF -/

omit [NumOps F] in
theorem next_none {σ : St F} {pre : List (Token F)} (h : At σ pre []) :
    next σ = .ok none (mv σ 0 (σ.reads + 1)) := by
  unfold next
  rw [bind_ok (peek_eq h)]
  rfl

theorem statementOrGoto_kw {ev : Evals F} {σ : St F} {pre post : List (Token F)} {k : Kw}
    (h : At σ pre (.kw k :: post)) :
    statementOrGoto ev σ = nested ev.stmt (mv σ 0 (σ.reads + 1)) := by
  unfold statementOrGoto
  rw [bind_ok (peek_eq h)]
  rfl

theorem ifSkipLoop_skip (ev : Evals F) (mid : List (Token F)) :
    ∀ (k : Nat) (σ : St F) (pre post : List (Token F)), At σ pre (mid ++ post) →
      (∀ t ∈ mid, t.isKw .Colon = false ∧ t.isKw .Else = false) →
      ifSkipLoop ev (k + mid.length) σ = ifSkipLoop ev k (mv σ mid.length (σ.reads + mid.length)) := by
  induction mid with
  | nil => intro k σ pre post _ _; rfl
  | cons t mid ih =>
    intro k σ pre post hAt hp
    have hAt0 : At σ pre (t :: (mid ++ post)) := hAt
    obtain ⟨h1, h2⟩ := hp t List.mem_cons_self
    show ifSkipLoop ev (k + mid.length + 1) σ = _
    rw [ifSkipLoop, bind_ok (next_eq hAt0)]
    simp only [h1, h2, Bool.false_eq_true, ↓reduceIte]
    rw [ih k _ _ post (at_mv1 hAt0 _) (fun t' ht' => hp t' (List.mem_cons_of_mem _ ht')), mv_mv]
    simp only [mv_reads, List.length_cons]
    congr 1
    simp only [mv]
    congr 1
    · congr 1; omega
    · omega

theorem ifSkipLoop_end {ev : Evals F} {k : Nat} {σ : St F} {pre : List (Token F)} (h : At σ pre []) :
    ifSkipLoop ev (k + 1) σ = .ok () (mv σ 0 (σ.reads + 1)) := by
  rw [ifSkipLoop, bind_ok (next_none h)]
  rfl

theorem ifSkipLoop_colon {ev : Evals F} {k : Nat} {σ : St F} {pre post : List (Token F)}
    (h : At σ pre (.kw .Colon :: post)) :
    ifSkipLoop ev (k + 1 + 1) σ = .ok ()
      { σ with loc := { σ.loc with idx := (pre ++ .kw .Colon :: post).length }, reads := σ.reads + 1 + 1 } := by
  have hk : (Token.kw (F := F) .Colon).isKw .Colon = true := rfl
  rw [ifSkipLoop, bind_ok (next_eq h)]
  simp only [hk, ↓reduceIte]
  rw [bind_ok (discardRemaining_eq (ts := pre ++ .kw .Colon :: post) (by rw [lineToks_mv]; exact h.1))]
  rw [ifSkipLoop_end (pre := pre ++ .kw .Colon :: post)
    ⟨by show lineToks σ = _; rw [List.append_nil]; exact h.1, rfl⟩]
  rfl

theorem ifSkipLoop_else {ev : Evals F} {k : Nat} {σ : St F} {pre post : List (Token F)}
    (h : At σ pre (.kw .Else :: post)) :
    ifSkipLoop ev (k + 1) σ = statementOrGoto ev (mv σ 1 (σ.reads + 1)) := by
  have h1 : (Token.kw (F := F) .Else).isKw .Colon = false := rfl
  have h2 : (Token.kw (F := F) .Else).isKw .Else = true := rfl
  rw [ifSkipLoop, bind_ok (next_eq h)]
  simp only [h1, h2, Bool.false_eq_true, ↓reduceIte]


/-! ### statements: tokens, depth -/

/-- nesting levels / recursion fuel a statement needs: one per parenthesis level
    of an expression plus one for the expression itself, one per IF -/
def sdepth : RStmt F → Nat
  | .letS _ e => depth e + 1
  | .printS items => itemsDepth items
  | .gotoS _ => 0
  | .endS => 0
  | .ifS c t none => max (depth c + 1) (sdepth t + 1)
  | .ifS c t (some e) => max (depth c + 1) (max (sdepth t + 1) (sdepth e + 1))

theorem renderS_head (s : RStmt F) : ∃ k ts, renderS s = .kw k :: ts := by
  match s with
  | .letS _ _ => exact ⟨_, _, by rw [renderS]⟩
  | .printS _ => exact ⟨_, _, by rw [renderS]⟩
  | .gotoS _ => exact ⟨_, _, by rw [renderS]⟩
  | .endS => exact ⟨_, _, by rw [renderS]⟩
  | .ifS _ _ none => exact ⟨_, _, by rw [renderS]⟩
  | .ifS _ _ (some _) => exact ⟨_, _, by rw [renderS]⟩

omit [NumOps F] in
theorem simple_elseFree (s : RStmt F) (h : s.simple = true) : s.elseFree = true := by
  match s with
  | .letS _ _ => rfl
  | .printS _ => rfl
  | .gotoS _ => rfl
  | .endS => rfl
  | .ifS _ _ none => simp [RStmt.simple] at h
  | .ifS _ _ (some _) => simp [RStmt.simple] at h

omit [NumOps F] in
theorem items_tokens (items : List (PItem F)) :
    ∀ t ∈ renderItems items, t.isKw .Colon = false ∧ t.isKw .Else = false := by
  induction items with
  | nil => intro t ht; simp [renderItems] at ht
  | cons i r ih =>
    intro t ht
    rw [renderItems] at ht
    rcases List.mem_append.mp ht with ht | ht
    · cases i with
      | expr e => exact ⟨(plain_render e t ht).1, (plain_render e t ht).2.1⟩
      | semi => simp only [PItem.render, List.mem_singleton] at ht; subst ht; exact ⟨rfl, rfl⟩
      | comma => simp only [PItem.render, List.mem_singleton] at ht; subst ht; exact ⟨rfl, rfl⟩
    · exact ih t ht

theorem renderS_tokens : ∀ (s : RStmt F), s.elseFree = true →
    ∀ t ∈ renderS s, t.isKw .Colon = false ∧ t.isKw .Else = false
  | .letS x e, _ => by
    intro t ht
    simp only [renderS, List.mem_cons] at ht
    rcases ht with rfl | rfl | rfl | ht
    · exact ⟨rfl, rfl⟩
    · exact ⟨rfl, rfl⟩
    · exact ⟨rfl, rfl⟩
    · exact ⟨(plain_render e t ht).1, (plain_render e t ht).2.1⟩
  | .printS items, _ => by
    intro t ht
    simp only [renderS, List.mem_cons] at ht
    rcases ht with rfl | ht
    · exact ⟨rfl, rfl⟩
    · exact items_tokens items t ht
  | .gotoS n, _ => by
    intro t ht
    simp only [renderS, List.mem_cons, List.not_mem_nil, or_false] at ht
    rcases ht with rfl | rfl
    · exact ⟨rfl, rfl⟩
    · exact ⟨rfl, rfl⟩
  | .endS, _ => by
    intro t ht
    simp only [renderS, List.mem_cons, List.not_mem_nil, or_false] at ht
    subst ht
    exact ⟨rfl, rfl⟩
  | .ifS c s' none, h => by
    intro t ht
    simp only [renderS, List.mem_cons, List.mem_append] at ht
    rcases ht with rfl | ht | rfl | ht
    · exact ⟨rfl, rfl⟩
    · exact ⟨(plain_render c t ht).1, (plain_render c t ht).2.1⟩
    · exact ⟨rfl, rfl⟩
    · exact renderS_tokens s' (by simpa only [RStmt.elseFree] using h) t ht
  | .ifS _ _ (some _), h => by simp [RStmt.elseFree] at h

/-- what may follow a statement: end of line or `:`; after a statement that is not an IF also `ELSE` -/
def EndFor (s : RStmt F) (rest : List (Token F)) : Prop :=
  LineEnd rest ∨ (s.simple = true ∧ StmtEnd rest)

omit [NumOps F] in
theorem EndFor.stmtEnd {s : RStmt F} {rest : List (Token F)} (h : EndFor s rest) : StmtEnd rest := by
  rcases h with h | h
  · exact h.stmtEnd
  · exact h.2

omit [NumOps F] in
theorem refines_not_next {res : Res F Unit} {σ : St F} {a a' e : Nat} {r : RResult F}
    (h : Refines res σ a e r) (hc : r.ctl ≠ .next) : Refines res σ a' e r := by
  unfold Refines at h ⊢
  cases hc' : r.ctl with
  | next => exact absurd hc' hc
  | _ => rw [hc'] at h; exact h

omit [NumOps F] in
theorem closeLine_ctl (r : RResult F) : r.closeLine.ctl ≠ .next := by
  cases hc : r.ctl with
  | next => rw [closeLine_next hc]; exact fun h => by cases h
  | _ => rw [closeLine_other (by rw [hc]; exact fun h => by cases h), hc]; exact fun h => by cases h

/-! ### IF: the condition -/

omit [NumOps F] in
theorem if_at {σ : St F} {pre post : List (Token F)} (c : Expr F)
    (hAt : At σ pre (.kw .If :: (render c ++ .kw .Then :: post))) (r : Nat) :
    At (mv σ (1 + (render c).length + 1) r) (pre ++ [.kw .If] ++ render c ++ [.kw .Then]) post := by
  have h1 := at_mv1 hAt r
  have h2 := at_mv h1 r
  have h3 := at_mv1 h2 r
  rw [mv_mv, mv_mv] at h3
  exact h3

/-- the two branches of `ifStatement` after the condition and THEN -/
def ifRest (ev : Evals F) (b : Bool) : M F Unit :=
  if b then statementOrGoto ev >>= fun _ => tailElse
  else lineBudget >>= fun b => ifSkipLoop ev b

theorem if_cond (c : Expr F) (n : Nat) (σ : St F) (pre post : List (Token F))
    (hAt : At σ pre (.kw .If :: (render c ++ .kw .Then :: post))) (hq : Quiet σ)
    (htr : σ.tracing = false) (hd : depth c + 1 ≤ n)
    (hn : σ.nesting + (depth c + 1) ≤ Extracted.nestingLimit) :
    match foldE (getVar σ) c with
    | .ok v => ∃ r, σ.reads < r ∧
        stmtBody (evalN n) σ = ifRest (evalN n) v.toBool (mv σ (1 + (render c).length + 1) r)
    | .error x => ∃ σ', stmtBody (evalN n) σ = .err { err := x } σ' ∧ σ'.nesting = σ.nesting := by
  have hAt1 := at_mv1 hAt (σ.reads + 1)
  have hrun : stmtBody (evalN n) σ = ifStatement (evalN n) (mv σ 1 (σ.reads + 1)) := by
    unfold stmtBody
    rw [bind_ok (traceHere_off htr)]
    unfold dispatch
    rw [bind_ok (next_eq hAt)]
  have hX := expr_eq c (main c).1 n (mv σ 1 (σ.reads + 1)) _ _ hd hn (ends_then 6 post) hAt1 (hq.mv _ _)
  rw [getVar_mv] at hX
  rw [hrun]
  cases hev : foldE (getVar σ) c with
  | error x =>
    rw [hev] at hX
    obtain ⟨σ', hσ', hn'⟩ := hX
    exact ⟨σ', by unfold ifStatement; exact bind_err hσ', hn'⟩
  | ok v =>
    rw [hev] at hX
    obtain ⟨r, hr, hσ'⟩ := hX
    simp only [mv_reads, mv_mv] at hr hσ'
    refine ⟨r + 1, by omega, ?_⟩
    unfold ifStatement
    rw [bind_ok hσ']
    have hAt2 : At (mv σ (1 + (render c).length) r) (pre ++ [.kw .If] ++ render c) (.kw .Then :: post) := by
      have := at_mv hAt1 r
      rwa [mv_mv] at this
    rw [bind_ok (expect_eq hAt2 rfl), mv_mv]
    simp only [mv_reads]
    cases v.toBool <;> rfl


/-! ### the branch of an IF: a nested statement -/

/-- running the statement `t` as the branch of an IF (`statementOrGoto`), given
    the refinement for `t` itself one level deeper -/
theorem branch_run (t : RStmt F) (n' : Nat) (σ : St F) (a r : Nat) (pre' rest : List (Token F))
    (vars : List (Str × Value F)) (after eol : Nat)
    (hAt : At (mv σ a r) pre' (renderS t ++ rest)) (hr : σ.reads ≤ r)
    (hn : σ.nesting < Extracted.nestingLimit)
    (hI : Refines (stmtBody (evalN n') (nest (mv (mv σ a r) 0 (r + 1)) (σ.nesting + 1)))
            (nest (mv (mv σ a r) 0 (r + 1)) (σ.nesting + 1)) after eol (RStmt.exec vars t)) :
    Refines (statementOrGoto (evalN (n' + 1)) (mv σ a r)) σ after eol (RStmt.exec vars t) := by
  obtain ⟨k, ts, hhead⟩ := renderS_head t
  have hAt' : At (mv σ a r) pre' (.kw k :: (ts ++ rest)) := by rw [hhead] at hAt; exact hAt
  rw [statementOrGoto_kw hAt']
  have h1 : Refines (nested (stmtBody (evalN n')) (mv (mv σ a r) 0 (r + 1))) (mv (mv σ a r) 0 (r + 1))
      after eol (RStmt.exec vars t) := refines_nested hn hI
  exact refines_mv (refines_mv h1 (by simp only [mv_reads]; omega)) hr

/-! ### the statement-level refinement -/

theorem stmt_run : ∀ (s : RStmt F) (n : Nat) (σ : St F) (pre rest : List (Token F)),
    At σ pre (renderS s ++ rest) → Quiet σ → σ.tracing = false → NoElseLine σ →
    sdepth s ≤ n → σ.nesting + sdepth s ≤ Extracted.nestingLimit → s.Covered → EndFor s rest →
    Refines (stmtBody (evalN n) σ) σ (pre.length + (renderS s).length)
      (pre ++ (renderS s ++ rest)).length (RStmt.exec σ.vars s)
  | .letS x e, n, σ, pre, rest, hAt, hq, htr, _, hd, hn, _, hE =>
    let_run x e n σ pre rest _ hAt hq htr hd hn (ends_of_stmtEnd hE.stmtEnd 6)
  | .printS items, n, σ, pre, rest, hAt, hq, htr, _, hd, hn, hcov, hE =>
    print_run items n σ pre rest _ hAt hq htr hd hn hcov hE.stmtEnd
  | .gotoS m, n, σ, pre, rest, hAt, _, htr, _, _, _, hcov, _ =>
    goto_run m n σ pre rest _ _ hAt htr hcov
  | .endS, n, σ, pre, rest, hAt, hq, htr, _, _, _, _, _ =>
    end_run n σ pre rest _ _ hAt htr hq.1
  | .ifS c t none, n, σ, pre, rest, hAt, hq, htr, hNE, hd, hn, hcov, hE => by
    have hLE : LineEnd rest := by
      rcases hE with h | h
      · exact h
      · exact absurd h.1 (by simp [RStmt.simple])
    obtain ⟨helse, hcovt⟩ : t.elseFree = true ∧ t.Covered := by simpa only [RStmt.Covered] using hcov
    simp only [sdepth] at hd hn
    obtain ⟨n', rfl⟩ : ∃ n', n = n' + 1 := ⟨n - 1, by omega⟩
    have hAt0 : At σ pre (.kw .If :: (render c ++ .kw .Then :: (renderS t ++ rest))) := by
      simpa only [renderS, List.cons_append, List.append_assoc] using hAt
    have hlen : (renderS (.ifS c t none)).length = 1 + (render c).length + 1 + (renderS t).length := by
      simp only [renderS, List.length_cons, List.length_append]; omega
    have hC := if_cond c (n' + 1) σ pre _ hAt0 hq htr (by omega) (by omega)
    cases hev : foldE (getVar σ) c with
    | error x =>
      rw [hev] at hC
      have hr : RStmt.exec σ.vars (.ifS c t none) = { vars := σ.vars, out := [], ctl := .error x } := by
        simp only [RStmt.exec, ← getVar_eq_envOf, hev]
      rw [hr]
      exact hC
    | ok v =>
      rw [hev] at hC
      obtain ⟨r, hr, hrun⟩ := hC
      have hAt3 := if_at c hAt0 r
      rw [hrun]
      cases hb : v.toBool with
      | true =>
        have hr' : RStmt.exec σ.vars (.ifS c t none) = RStmt.exec σ.vars t := by
          simp only [RStmt.exec, ← getVar_eq_envOf, hev, hb, ↓reduceIte]
        rw [hr']
        show Refines ((statementOrGoto (evalN (n' + 1)) >>= fun _ => tailElse) _) _ _ _ _
        rw [bind_andThen]
        have hI := stmt_run t n' (nest (mv (mv σ (1 + (render c).length + 1) r) 0 (r + 1)) (σ.nesting + 1))
          (pre ++ [.kw .If] ++ render c ++ [.kw .Then]) rest (at_nest (at_mv0 hAt3 _) _)
          ((hq.mv _ _).mv _ _ |>.nest _) htr hNE (by omega)
          (by simp only [nest_nesting]; omega) hcovt (Or.inl hLE)
        have hB := branch_run t n' σ _ r _ rest σ.vars _ _ hAt3 (by omega) (by omega) hI
        have hB' := refines_cast hB
          (a' := pre.length + (renderS (.ifS c t none)).length)
          (e' := (pre ++ (renderS (.ifS c t none) ++ rest)).length)
          (by rw [hlen]; simp only [List.length_append, List.length_cons, List.length_nil]; omega)
          (by simp only [List.length_append, List.length_cons, List.length_nil, hlen]; omega)
        exact then_tail_line hAt hNE hLE hB'
      | false =>
        have hr' : RStmt.exec σ.vars (.ifS c t none) = { vars := σ.vars, out := [], ctl := .skipLine } := by
          simp only [RStmt.exec, ← getVar_eq_envOf, hev, hb, Bool.false_eq_true, ↓reduceIte]
        rw [hr']
        show Refines ((lineBudget >>= fun b => ifSkipLoop (evalN (n' + 1)) b) _) _ _ _ _
        rw [bind_ok (lineBudget_eq hAt3.1)]
        obtain ⟨k, hk⟩ : ∃ k, (pre ++ [Token.kw Kw.If] ++ render c ++ [Token.kw Kw.Then] ++ (renderS t ++ rest)).length + 1
            = (k + 1 + 1) + (renderS t).length :=
          ⟨pre.length + (render c).length + rest.length + 1, by
            simp only [List.length_append, List.length_cons, List.length_nil]; omega⟩
        rw [hk, ifSkipLoop_skip _ (renderS t) (k + 1 + 1) _ _ rest hAt3 (renderS_tokens t helse), mv_mv]
        have hAt4 := at_mv hAt3 (r + (renderS t).length)
        rw [mv_mv] at hAt4
        simp only [mv_reads]
        unfold Refines
        show ∃ k', σ.reads < k' ∧ _
        cases rest with
        | nil =>
          refine ⟨r + (renderS t).length + 1, by omega, ?_⟩
          rw [ifSkipLoop_end hAt4]
          simp only [mv, outRecs, List.map_nil, List.reverse_nil, List.nil_append, hAt.2,
            List.append_nil, List.length_append, hlen]
          congr 3 <;> omega
        | cons t0 post =>
          have ht0 := hLE t0 rfl
          subst ht0
          refine ⟨r + (renderS t).length + 1 + 1, by omega, ?_⟩
          rw [ifSkipLoop_colon hAt4]
          simp only [mv, outRecs, List.map_nil, List.reverse_nil, List.nil_append, hAt.2,
            List.length_append, List.length_cons, List.length_nil, hlen]
          congr 3
          omega
  | .ifS c t (some e), n, σ, pre, rest, hAt, hq, htr, hNE, hd, hn, hcov, hE => by
    have hLE : LineEnd rest := by
      rcases hE with h | h
      · exact h
      · exact absurd h.1 (by simp [RStmt.simple])
    obtain ⟨hsimple, hcovt, hcove⟩ : t.simple = true ∧ t.Covered ∧ e.Covered := by
      simpa only [RStmt.Covered] using hcov
    simp only [sdepth] at hd hn
    obtain ⟨n', rfl⟩ : ∃ n', n = n' + 1 := ⟨n - 1, by omega⟩
    have hAt0 : At σ pre (.kw .If :: (render c ++ .kw .Then ::
        (renderS t ++ .kw .Else :: (renderS e ++ rest)))) := by
      simpa only [renderS, List.cons_append, List.append_assoc] using hAt
    have hlen : (renderS (.ifS c t (some e))).length =
        1 + (render c).length + 1 + (renderS t).length + 1 + (renderS e).length := by
      simp only [renderS, List.length_cons, List.length_append]; omega
    have hC := if_cond c (n' + 1) σ pre _ hAt0 hq htr (by omega) (by omega)
    cases hev : foldE (getVar σ) c with
    | error x =>
      rw [hev] at hC
      have hr : RStmt.exec σ.vars (.ifS c t (some e)) = { vars := σ.vars, out := [], ctl := .error x } := by
        simp only [RStmt.exec, ← getVar_eq_envOf, hev]
      rw [hr]
      exact hC
    | ok v =>
      rw [hev] at hC
      obtain ⟨r, hr, hrun⟩ := hC
      have hAt3 := if_at c hAt0 r
      rw [hrun]
      cases hb : v.toBool with
      | true =>
        have hr' : RStmt.exec σ.vars (.ifS c t (some e)) = (RStmt.exec σ.vars t).closeLine := by
          simp only [RStmt.exec, ← getVar_eq_envOf, hev, hb, ↓reduceIte]
        rw [hr']
        show Refines ((statementOrGoto (evalN (n' + 1)) >>= fun _ => tailElse) _) _ _ _ _
        rw [bind_andThen]
        have hI := stmt_run t n' (nest (mv (mv σ (1 + (render c).length + 1) r) 0 (r + 1)) (σ.nesting + 1))
          (pre ++ [.kw .If] ++ render c ++ [.kw .Then]) (.kw .Else :: (renderS e ++ rest))
          (at_nest (at_mv0 hAt3 _) _)
          ((hq.mv _ _).mv _ _ |>.nest _) htr hNE (by omega)
          (by simp only [nest_nesting]; omega) hcovt (Or.inr ⟨hsimple, stmtEnd_else _⟩)
        have hB := branch_run t n' σ _ r _ _ σ.vars _ _ hAt3 (by omega) (by omega) hI
        have hAtm : At σ pre ((.kw .If :: (render c ++ .kw .Then :: renderS t)) ++
            .kw .Else :: (renderS e ++ rest)) := by
          simpa only [List.cons_append, List.append_assoc] using hAt0
        have hB' := refines_cast hB
          (a' := pre.length + (Token.kw Kw.If :: (render c ++ Token.kw Kw.Then :: renderS t)).length)
          (e' := (pre ++ ((Token.kw Kw.If :: (render c ++ Token.kw Kw.Then :: renderS t)) ++
            Token.kw Kw.Else :: (renderS e ++ rest))).length)
          (by simp only [List.length_append, List.length_cons, List.length_nil]; omega)
          (by simp only [List.length_append, List.length_cons, List.length_nil]; omega)
        have hT := then_tail_else hAtm hNE hB'
        exact refines_cast (refines_not_next hT (closeLine_ctl _)) rfl
          (by simp only [List.length_append, List.length_cons, hlen]; omega)
      | false =>
        have hr' : RStmt.exec σ.vars (.ifS c t (some e)) = RStmt.exec σ.vars e := by
          simp only [RStmt.exec, ← getVar_eq_envOf, hev, hb, Bool.false_eq_true, ↓reduceIte]
        rw [hr']
        show Refines ((lineBudget >>= fun b => ifSkipLoop (evalN (n' + 1)) b) _) _ _ _ _
        rw [bind_ok (lineBudget_eq hAt3.1)]
        obtain ⟨k, hk⟩ : ∃ k, (pre ++ [Token.kw Kw.If] ++ render c ++ [Token.kw Kw.Then] ++
            (renderS t ++ Token.kw Kw.Else :: (renderS e ++ rest))).length + 1
            = (k + 1) + (renderS t).length :=
          ⟨pre.length + (render c).length + (renderS e).length + rest.length + 2 + 1, by
            simp only [List.length_append, List.length_cons, List.length_nil]; omega⟩
        rw [hk, ifSkipLoop_skip _ (renderS t) (k + 1) _ _ _ hAt3
          (renderS_tokens t (simple_elseFree t hsimple)), mv_mv]
        have hAt4 := at_mv hAt3 (r + (renderS t).length)
        rw [mv_mv] at hAt4
        simp only [mv_reads]
        rw [ifSkipLoop_else hAt4, mv_mv]
        simp only [mv_reads]
        have hAt5 := at_mv1 hAt4 (r + (renderS t).length + 1)
        rw [mv_mv] at hAt5
        have hI := stmt_run e n'
          (nest (mv (mv σ (1 + (render c).length + 1 + (renderS t).length + 1) (r + (renderS t).length + 1)) 0
            (r + (renderS t).length + 1 + 1)) (σ.nesting + 1))
          _ rest (at_nest (at_mv0 hAt5 _) _)
          ((hq.mv _ _).mv _ _ |>.nest _) htr hNE (by omega)
          (by simp only [nest_nesting]; omega) hcove (Or.inl hLE)
        have hB := branch_run e n' σ _ (r + (renderS t).length + 1) _ rest σ.vars _ _ hAt5 (by omega) (by omega) hI
        exact refines_cast hB
          (by rw [hlen]; simp only [List.length_append, List.length_cons, List.length_nil]; omega)
          (by simp only [List.length_append, List.length_cons, List.length_nil, hlen]; omega)

end Abasic.StmtL
