import Abasic.Proofs.Stmt3TRel
/-
  C03 / C08, route (B) of discharging `BaseTurns` — Proofs/Stmt3Lemmas.lean RE-RUN for programs
  with INPUT statements: the text of that file over the relations of
  Proofs/Stmt3TRel.lean (`ProgT`, `Holds`, `Mem3`, `Outcome3`, … in namespace
  `Abasic.Stmt3T`, which shadow the originals of `Abasic.Prog3L` / `Abasic.Stmt3L`).
  Lemmas of the original that do not mention the program are not repeated; they
  are used from `Abasic.Stmt3L`.  Differences to the original: `Mem3` has the
  field `input` and its `out` ends in `p.base`.  The original header follows.

  C03, third layer — the statement evaluator on the statements of Ref/Stmt3.lean.

  Part 1: the hypotheses of the statement lemmas (`Sync`: the model state
  realises the reference state; `Pos`: where the statement stands), the
  interface to the expression evaluator (`expr3_run`, `idx3_run`: what
  `eval_render2` says, in terms of `Sync`), errors (`ErrFrom`), and how an
  `Outcome3` is moved between states, through `nested`, and past the ELSE test
  that follows a THEN branch.
-/
set_option linter.unusedSectionVars false

namespace Abasic.Stmt3T
open Abasic Abasic.Ref Abasic.ExprL Abasic.ExprL2 Abasic.StmtL Abasic.ProgL Abasic.Prog3L Abasic.Stmt3L Abasic.Hoare M
open Abasic.Prog3I (HoldsI AddrRelI RetRelI LoopRelI DataRelI progChunksI preToksI line_splitI preToks_succI drop_tail_nilI drop_tail_consI line_memI mem_lineI after_lineI first_lineI holds_afterI holds_firstI renderSI_head lineToks_ofI line_nonemptyI preToksI_zero resume_ltI resume_geI)
open Abasic.Prog2L (Rel2)

variable {F : Type} [NumOps F]

/-! ### states that differ in the cursor, the counters and the run state only -/

/-- `σ'` has the memory, the function table, the store and the flags of `σ` -/
structure Same (σ σ' : St F) : Prop where
  vars : σ'.vars = σ.vars
  arrays : σ'.arrays = σ.arrays
  rng : σ'.rng = σ.rng
  loops : σ'.loops = σ.loops
  stack : σ'.stack = σ.stack
  data : σ'.data = σ.data
  out : σ'.out = σ.out
  fns : σ'.fns = σ.fns
  lines : σ'.lines = σ.lines
  warnings : σ'.warnings = σ.warnings
  tracing : σ'.tracing = σ.tracing
  input : σ'.input = σ.input

theorem Same.refl (σ : St F) : Same σ σ := ⟨rfl, rfl, rfl, rfl, rfl, rfl, rfl, rfl, rfl, rfl, rfl, rfl⟩

theorem Same.trans {a b c : St F} (h1 : Same a b) (h2 : Same b c) : Same a c :=
  ⟨h2.vars.trans h1.vars, h2.arrays.trans h1.arrays, h2.rng.trans h1.rng, h2.loops.trans h1.loops,
   h2.stack.trans h1.stack, h2.data.trans h1.data, h2.out.trans h1.out, h2.fns.trans h1.fns,
   h2.lines.trans h1.lines, h2.warnings.trans h1.warnings, h2.tracing.trans h1.tracing, h2.input.trans h1.input⟩

theorem same_mv (σ : St F) (a r : Nat) : Same σ (mv σ a r) := ⟨rfl, rfl, rfl, rfl, rfl, rfl, rfl, rfl, rfl, rfl, rfl, rfl⟩
theorem same_nest (σ : St F) (k : Nat) : Same σ (nest σ k) := ⟨rfl, rfl, rfl, rfl, rfl, rfl, rfl, rfl, rfl, rfl, rfl, rfl⟩

/-! ### the hypotheses of the statement lemmas -/

/-- the model state `σ` realises the reference state `r` (cursor, counters and run state apart) -/
structure Sync (p : ProgT F) (r : RState3 F) (σ : St F) : Prop where
  wf : p.q.WF
  env : Env3 p σ
  mem : Mem3 p r σ
  inv : RInv3 r
  /-- the bodies of the defined functions use names consistently with the table (`Resolved`) -/
  bodies : ∀ name d, alGet name r.fns = some d → Resolved r.fns d.body

theorem Sync.same {p : ProgT F} {r : RState3 F} {σ σ' : St F} (h : Sync p r σ) (hs : Same σ σ') :
    Sync p r σ' where
  wf := h.wf
  env := ⟨by rw [hs.lines]; exact h.env.lines, hs.warnings.trans h.env.warnings, hs.tracing.trans h.env.tracing⟩
  mem := h.mem.congr hs.vars hs.arrays hs.rng hs.loops hs.stack hs.data hs.out hs.fns hs.lines hs.input
  inv := h.inv
  bodies := h.bodies

theorem Sync.mv {p : ProgT F} {r : RState3 F} {σ : St F} (h : Sync p r σ) (a k : Nat) : Sync p r (mv σ a k) :=
  h.same (same_mv σ a k)

theorem Sync.nest {p : ProgT F} {r : RState3 F} {σ : St F} (h : Sync p r σ) (k : Nat) : Sync p r (nest σ k) :=
  h.same (same_nest σ k)

/-- the relation of Proofs/Expr2Lemmas.lean between a model state and a reference environment -/
theorem Sync.rel {p : ProgT F} {r : RState3 F} {σ : St F} (h : Sync p r σ) : Rel callFuel σ r.env where
  vars := h.mem.vars
  frames := frames_rets h.mem.stack
  arrays := h.mem.arrays
  rng := h.mem.rng
  warnings := h.env.warnings
  fns := h.mem.fns
  cap := by rw [← h.mem.stack.length]; exact h.inv.rets
  fuel := callFuel_ok _
  arrs_ok := h.inv.arrs
  rng_ok := h.inv.rng
  bodies := h.bodies

/-- after an evaluation: the new arrays and generator state on both sides -/
theorem Sync.put {p : ProgT F} {r : RState3 F} {σ : St F} (h : Sync p r σ) {env' : RefEnv F}
    (hs : Step r.env env') (a k : Nat) : Sync p (r.put env') (upd σ a k env') where
  wf := h.wf
  env := ⟨h.env.lines, h.env.warnings, h.env.tracing⟩
  mem := {
    vars := h.mem.vars
    arrays := rfl
    rng := rfl
    loops := h.mem.loops
    stack := h.mem.stack
    data := h.mem.data
    out := h.mem.out
    fns := ⟨h.mem.fns.undef, h.mem.fns.defd⟩
    fnLines := h.mem.fnLines, input := h.mem.input }
  inv := ⟨h.inv.typed, hs.arrs h.inv.arrs, hs.rng h.inv.rng, h.inv.rets⟩
  bodies := h.bodies

/-! ### expressions -/

/-- **The expression interface.**  With the cursor in front of the rendering of
    `e`, the recursive entry of the expression evaluator returns the value
    `fold2` gives, in the state with the cursor behind the rendering and the
    arrays and generator state of the new environment — again in `Sync` with the
    reference state that has taken them over; an error of `fold2` is the error
    of the run. -/
theorem expr3_run {p : ProgT F} {r : RState3 F} {σ : St F} (hS : Sync p r σ) (e : Expr2 F) (f : Nat)
    (pre rest : List (Token F)) (hres : Resolved r.fns e) (hd : edepth r.fns e ≤ f)
    (hn : σ.nesting + edepth r.fns e ≤ Extracted.nestingLimit) (hE : Ends 6 rest)
    (hAt : At σ pre (render2 e ++ rest)) :
    match fold2 callFuel r.env e with
    | .ok (v, env') => ∃ rd, (evalN f).expr σ = .ok v (upd σ (render2 e).length rd env') ∧
        Sync p (r.put env') (upd σ (render2 e).length rd env')
    | .error x => x ≠ .dataTypeMismatch ∧ ErrFrom σ x ((evalN f).expr σ) := by
  have hX := expr_eq2 callFuel e (main2 callFuel e).1 f σ r.env pre rest hd hn hE hAt hS.rel hres
  cases hev : fold2 callFuel r.env e with
  | ok q =>
    obtain ⟨v, env'⟩ := q
    rw [hev] at hX
    obtain ⟨rd, _, hσ⟩ := hX
    exact ⟨rd, hσ, hS.put (fold2_step callFuel e r.env env' v hev) _ _⟩
  | error x =>
    rw [hev] at hX
    obtain ⟨te, σ', hσ', hx, hk⟩ := hX
    have hg := fold2_good callFuel e r.env x (by rw [frames_len]; exact hS.inv.rets) (callFuel_ok _) hev
    refine ⟨hg.2, te, σ', hσ', hx, expr_err_out hS.env.warnings hσ', hk.2.2.1, hk.1, ?_⟩
    exact inFn_of_locOK hk.2.2.2 (by rw [hx]; exact hg.2)

/-- **Subscripts.**  `( e₁ , … , eₖ )` read by `arrayIndex` is `foldIdx`. -/
theorem idx3_run {p : ProgT F} {r : RState3 F} {σ : St F} (hS : Sync p r σ) (idx : List (Expr2 F)) (f : Nat)
    (pre rest : List (Token F)) (hres : ResolvedL r.fns idx) (hd : depthArgs r.fns callFuel idx ≤ f)
    (hn : σ.nesting + depthArgs r.fns callFuel idx ≤ Extracted.nestingLimit)
    (hAt : At σ pre (.kw .LeftParen :: (renderArgs idx ++ (.kw .RightParen :: rest)))) :
    match foldIdx callFuel r.env idx with
    | .ok (is, env') => ∃ rd, arrayIndex (evalN f) σ = .ok is (upd σ ((renderArgs idx).length + 2) rd env') ∧
        Sync p (r.put env') (upd σ ((renderArgs idx).length + 2) rd env')
    | .error x => x ≠ .dataTypeMismatch ∧ ErrFrom σ x (arrayIndex (evalN f) σ) := by
  have hX := arrayIndex_agree callFuel idx (fun x _ => (main2 callFuel x).1) f σ r.env pre rest hd hn hAt hS.rel hres
  cases hev : foldIdx callFuel r.env idx with
  | ok q =>
    obtain ⟨is, env'⟩ := q
    rw [hev] at hX
    obtain ⟨rd, _, hσ⟩ := hX
    exact ⟨rd, hσ, hS.put (foldIdx_step callFuel idx r.env env' is hev) _ _⟩
  | error x =>
    rw [hev] at hX
    obtain ⟨te, σ', hσ', hx, hk⟩ := hX
    have hg := foldIdx_good callFuel idx r.env x (by rw [frames_len]; exact hS.inv.rets) (callFuel_ok _) hev
    refine ⟨hg.2, te, σ', hσ', hx, arrayIndex_err_out hS.env.warnings hσ', hk.2.2.1, hk.1, ?_⟩
    exact inFn_of_locOK hk.2.2.2 (by rw [hx]; exact hg.2)

/-! ### where a statement stands -/

/-- The statement `s` (statement `j` of line `n`, or a branch of the IF that is)
    stands between `pre` and `rest` on the current line; `after` and `eol` are
    the positions behind it and at the end of the line; the position behind it
    is the return address of statement `j` when `s` ends the statement. -/
structure Pos (p : ProgT F) (σ : St F) (n j : Nat) (s : RStmt3 F) (pre rest : List (Token F))
    (after eol : Nat) : Prop where
  locline : σ.loc.line = some n
  cur : At σ pre (renderS3 s ++ rest)
  hafter : after = pre.length + (renderS3 s).length
  heol : eol = (pre ++ (renderS3 s ++ rest)).length
  addr : LineEnd3 rest → AddrRel3 p n (j + 1) { line := some n, idx := after }

theorem Pos.after_le {p : ProgT F} {σ : St F} {n j : Nat} {s : RStmt3 F} {pre rest : List (Token F)}
    {after eol : Nat} (h : Pos p σ n j s pre rest after eol) : after + rest.length = eol := by
  rw [h.hafter, h.heol]
  simp only [List.length_append]
  omega

/-! ### moving an outcome between states -/

theorem outcome_start {p : ProgT F} {σ σ1 : St F} {n after eol : Nat} {res : Res F Unit} {r' : RState3 F}
    {c : Ctl2} (h : Outcome3 p σ1 n after eol res r' c) (hs : Start σ σ1) : Outcome3 p σ n after eol res r' c := by
  cases c with
  | next =>
    obtain ⟨σ', h1, h2, h3, h4⟩ := h
    exact ⟨σ', h1, hs.kept.trans h2, h3, h4⟩
  | skipLine =>
    obtain ⟨σ', h1, h2, h3, h4⟩ := h
    exact ⟨σ', h1, hs.kept.trans h2, h3, h4⟩
  | jump m =>
    refine ⟨fun hh => ?_, fun hh => ?_⟩
    · obtain ⟨σ', h1, h2, h3, h4⟩ := h.1 (by rw [hs.kept.lines]; exact hh)
      exact ⟨σ', h1, hs.kept.trans h2, h3, h4⟩
    · exact (h.2 (by rw [hs.kept.lines]; exact hh)).start hs
  | stop =>
    obtain ⟨σ', h1, h2, h3⟩ := h
    exact ⟨σ', h1, hs.kept.trans h2, h3⟩
  | resume m k =>
    obtain ⟨σ', h1, h2, h3, h4⟩ := h
    exact ⟨σ', h1, hs.kept.trans h2, h3, h4⟩
  | error e => exact ⟨h.1, h.2.start hs⟩
  | errorAt e ln =>
    obtain ⟨he, σ', i, h1, h2, h3, h4⟩ := h
    exact ⟨he, σ', i, h1, h2, h3.trans hs.out, h4.trans hs.kept.nesting⟩

theorem mem_nest {p : ProgT F} {r : RState3 F} {σ : St F} (h : Mem3 p r σ) (k : Nat) : Mem3 p r (nest σ k) :=
  h.congr rfl rfl rfl rfl rfl rfl rfl rfl rfl

/-- a run one nesting level deeper -/
theorem outcome_nested {p : ProgT F} {m : M F Unit} {σ : St F} {n after eol : Nat} {r' : RState3 F} {c : Ctl2}
    (hn : σ.nesting < Extracted.nestingLimit)
    (h : Outcome3 p (nest σ (σ.nesting + 1)) n after eol (m (nest σ (σ.nesting + 1))) r' c) :
    Outcome3 p σ n after eol (nested m σ) r' c := by
  have hok : ∀ {σ' : St F}, m (nest σ (σ.nesting + 1)) = .ok () σ' → Kept (nest σ (σ.nesting + 1)) σ' →
      nested m σ = .ok () (nest σ' σ.nesting) := fun h1 h2 => nested_ok hn h1 h2.nesting
  cases c with
  | next =>
    obtain ⟨σ', h1, h2, h3, h4⟩ := h
    exact ⟨_, hok h1 h2, kept_nest h2, mem_nest h3 _, h4⟩
  | skipLine =>
    obtain ⟨σ', h1, h2, h3, h4⟩ := h
    exact ⟨_, hok h1 h2, kept_nest h2, mem_nest h3 _, h4⟩
  | jump k =>
    refine ⟨fun hh => ?_, fun hh => ?_⟩
    · obtain ⟨σ', h1, h2, h3, h4⟩ := h.1 hh
      exact ⟨_, hok h1 h2, kept_nest h2, mem_nest h3 _, h4⟩
    · exact ErrFrom.nested hn (h.2 hh)
  | stop =>
    obtain ⟨σ', h1, h2, h3⟩ := h
    exact ⟨_, hok h1 h2, kept_nest h2, h3⟩
  | resume a b =>
    obtain ⟨σ', h1, h2, h3, h4⟩ := h
    exact ⟨_, hok h1 h2, kept_nest h2, mem_nest h3 _, h4⟩
  | error e => exact ⟨h.1, ErrFrom.nested hn h.2⟩
  | errorAt e ln =>
    obtain ⟨he, σ', i, h1, h2, h3, h4⟩ := h
    exact ⟨he, nest σ' σ.nesting, i, nested_err hn h1 h4, h2, h3, rfl⟩

/-! ### the line under the cursor -/

/-- the tokens behind statement `j0` of a line: nothing, or a colon and the first token of the next statement -/
theorem tail_lineEnd3 (ss : List (RStmtI F)) (j0 : Nat) : LineEnd3 (renderTailI (ss.drop (j0 + 1))) := by
  by_cases hj : j0 + 1 < ss.length
  · obtain ⟨s', post, _, htl⟩ := drop_tail_consI hj
    obtain ⟨t, ts, hhead, hne, _⟩ := renderSI_head s'
    right
    exact ⟨t, ts ++ post, by rw [htl, hhead]; rfl, hne⟩
  · left
    exact drop_tail_nilI hj

/-- a return address / loop address is followed by the end of the line or a colon -/
theorem addr_at {p : ProgT F} {σ : St F} (hh : Holds σ.lines p) {m k : Nat} (ha : AddrRel3 p m k σ.loc) :
    ∃ pre post, At σ pre post ∧ LineEnd3 post := by
  obtain ⟨ss, j0, s, hl, _, hs, hloc⟩ := ha
  refine ⟨preToksI ss j0 ++ renderSI s, renderTailI (ss.drop (j0 + 1)), ?_, tail_lineEnd3 ss j0⟩
  refine at_of (n := m) (by rw [hloc]) ?_ (by rw [hloc, List.length_append])
  rw [hh.get, hl, Option.map_some, line_splitI ss j0 s hs, List.append_assoc]

theorem line_head3 {p : ProgT F} (hwf : p.q.WF) {n : Nat} {ss : List (RStmtI F)} (h : p.q.line n = some ss) :
    ∃ t ts, renderLineI ss = t :: ts ∧ t.isKw .Else = false := by
  have := hwf.nonempty _ (line_memI h)
  cases ss with
  | nil => exact absurd rfl this
  | cons a rest =>
    obtain ⟨t, ts, hk, hne, _⟩ := renderSI_head a
    exact ⟨t, ts ++ renderTailI rest, by rw [renderLineI, hk]; rfl, hne⟩

theorem noElse_compile3 {p : ProgT F} (hwf : p.q.WF) {σ : St F} (h : Holds σ.lines p) : NoElseLine σ := by
  intro n ts hg t ht
  rw [h.get] at hg
  cases hl : p.q.line n with
  | none => rw [hl] at hg; cases hg
  | some ss =>
    rw [hl] at hg
    simp only [Option.map_some, Option.some.injEq] at hg
    obtain ⟨t', ts', hk, hne⟩ := line_head3 hwf hl
    rw [← hg, hk] at ht
    simp only [List.head?_cons, Option.some.injEq] at ht
    subst ht
    exact hne

/-! ### the ELSE test behind a THEN branch -/

theorem mem_mv {p : ProgT F} {r : RState3 F} {σ : St F} (h : Mem3 p r σ) (a k : Nat) : Mem3 p r (mv σ a k) :=
  h.congr rfl rfl rfl rfl rfl rfl rfl rfl rfl

/-- behind a THEN branch that is not followed by ELSE: nothing more happens -/
theorem tail_line {p : ProgT F} {σ : St F} {n after eol : Nat} {res : Res F Unit} {r' : RState3 F} {c : Ctl2}
    (hh : Holds σ.lines p) (hwf : p.q.WF) {pre rest : List (Token F)}
    (hg : σ.lines.get n = some (pre ++ rest)) (ha : after = pre.length) (he : eol = (pre ++ rest).length)
    (hLE : LineEnd3 rest) (hO : Outcome3 p σ n after eol res r' c) :
    Outcome3 p σ n after eol (andThen res tailElse) r' c := by
  have hNE := noElse_compile3 hwf hh
  cases c with
  | next =>
    obtain ⟨σ', h1, h2, h3, h4, h5⟩ := hO
    have hg' : σ'.lines.get n = some (pre ++ rest) := by rw [h2.lines]; exact hg
    rcases h5 with h5 | ⟨h5, ts0, hts0, hc0⟩
    · refine ⟨mv σ' 0 (σ'.reads + 1), ?_, kept_mv h2 _ _, mem_mv h3 _ _, h4, Or.inl h5⟩
      rw [h1]
      show tailElse σ' = _
      exact tailElse_no (at_of h4 hg' (by rw [h5, ha])) hLE.noElse
    · rcases hLE with rfl | ⟨t, ts, rfl, hne⟩
      · rw [hg'] at hts0
        cases hts0
        rw [List.append_nil, List.getElem?_eq_none (by omega)] at hc0
        cases hc0
      · refine ⟨mv σ' 0 (σ'.reads + 1), ?_, kept_mv h2 _ _, mem_mv h3 _ _, h4, Or.inr ⟨h5, ts0, hts0, hc0⟩⟩
        rw [h1]
        show tailElse σ' = _
        refine tailElse_no (pre := pre ++ [.kw .Colon]) (post := t :: ts) (at_of h4 ?_ ?_) ?_
        · rw [hg']; simp only [List.append_assoc, List.cons_append, List.nil_append]
        · rw [h5, ha]; simp only [List.length_append, List.length_cons, List.length_nil]
        · intro t' ht'
          simp only [List.head?_cons, Option.some.injEq] at ht'
          subst ht'
          exact hne
  | skipLine =>
    obtain ⟨σ', h1, h2, h3, h4⟩ := hO
    have hg' : σ'.lines.get n = some (pre ++ rest) := by rw [h2.lines]; exact hg
    refine ⟨mv σ' 0 (σ'.reads + 1), ?_, kept_mv h2 _ _, mem_mv h3 _ _, ?_⟩
    · rw [h1]
      show tailElse σ' = _
      refine tailElse_no (pre := pre ++ rest) (post := []) (at_of (by rw [h4]) ?_ (by rw [h4, he])) ?_
      · rw [List.append_nil]; exact hg'
      · intro t ht; cases ht
    · show ({ line := σ'.loc.line, idx := σ'.loc.idx + 0 } : Loc) = _
      rw [h4]
      rfl
  | jump m =>
    refine ⟨fun hhas => ?_, fun hhas => ?_⟩
    · obtain ⟨σ', h1, h2, h3, h4⟩ := hO.1 hhas
      refine ⟨mv σ' 0 (σ'.reads + 1), ?_, kept_mv h2 _ _, mem_mv h3 _ _, ?_⟩
      · rw [h1]
        show tailElse σ' = _
        cases hgm : σ.lines.get m with
        | none => simp [Lines.has, hgm] at hhas
        | some ts =>
          refine tailElse_no (pre := []) (post := ts) (at_of (n := m) (by rw [h4]) ?_ (by rw [h4]; rfl)) (hNE m ts hgm)
          rw [h2.lines, List.nil_append]; exact hgm
      · show ({ line := σ'.loc.line, idx := σ'.loc.idx + 0 } : Loc) = _
        rw [h4]
    · obtain ⟨te, σ', h1, h2⟩ := hO.2 hhas
      exact ⟨te, σ', by rw [h1]; rfl, h2⟩
  | stop =>
    obtain ⟨σ', h1, h2, h3, h4, h5, h6, h7⟩ := hO
    refine ⟨mv σ' 0 (σ'.reads + 1), ?_, kept_mv h2 _ _, h3, h4, h5, ?_, h7⟩
    · rw [h1]
      show tailElse σ' = _
      refine tailElse_no (pre := []) (post := []) ⟨?_, by rw [h6]; rfl⟩ (fun t ht => by cases ht)
      unfold lineToks
      rw [h6, h7]
      rfl
    · show ({ line := σ'.loc.line, idx := σ'.loc.idx + 0 } : Loc) = _
      rw [h6]
  | resume a b =>
    obtain ⟨σ', h1, h2, h3, h4⟩ := hO
    obtain ⟨pre', post', hAt', hLE'⟩ := addr_at (σ := σ') (by rw [h2.lines]; exact hh) h4
    refine ⟨mv σ' 0 (σ'.reads + 1), ?_, kept_mv h2 _ _, mem_mv h3 _ _, ?_⟩
    · rw [h1]
      show tailElse σ' = _
      exact tailElse_no hAt' hLE'.noElse
    · show AddrRel3 p a b { line := σ'.loc.line, idx := σ'.loc.idx + 0 }
      exact h4
  | error e =>
    obtain ⟨hnd, te, σ', h1, h2⟩ := hO
    exact ⟨hnd, te, σ', by rw [h1]; rfl, h2⟩
  | errorAt e ln =>
    obtain ⟨he', σ', i, h1, h2⟩ := hO
    exact ⟨he', σ', i, by rw [h1]; rfl, h2⟩

/-- behind a THEN branch in front of ELSE: a branch that ran to completion abandons the line -/
theorem tail_else {p : ProgT F} {σ : St F} {n after eol : Nat} {res : Res F Unit} {r' : RState3 F} {c : Ctl2}
    (hh : Holds σ.lines p) (hwf : p.q.WF) {pre rest : List (Token F)}
    (hg : σ.lines.get n = some (pre ++ .kw .Else :: rest)) (ha : after = pre.length)
    (he : eol = (pre ++ .kw .Else :: rest).length) (hO : Outcome3 p σ n after eol res r' c) {a' : Nat} :
    Outcome3 p σ n a' eol (andThen res tailElse) (closeLine3 (r', c)).1 (closeLine3 (r', c)).2 := by
  have hNE := noElse_compile3 hwf hh
  cases c with
  | next =>
    rw [closeLine3_next]
    obtain ⟨σ', h1, h2, h3, h4, h5⟩ := hO
    have hg' : σ'.lines.get n = some (pre ++ .kw .Else :: rest) := by rw [h2.lines]; exact hg
    rcases h5 with h5 | ⟨h5, ts0, hts0, hc0⟩
    · refine ⟨{ σ' with loc := { σ'.loc with idx := (pre ++ .kw .Else :: rest).length }, reads := σ'.reads + 1 }, ?_,
        ⟨h2.lines, h2.warnings, h2.tracing, h2.nesting, h2.state⟩, h3.congr rfl rfl rfl rfl rfl rfl rfl rfl rfl, ?_⟩
      · rw [h1]
        show tailElse σ' = _
        exact tailElse_yes (at_of h4 hg' (by rw [h5, ha]))
      · show ({ line := σ'.loc.line, idx := _ } : Loc) = _
        rw [h4, he]
    · rw [hg'] at hts0
      cases hts0
      rw [ha, List.getElem?_append_right (Nat.le_refl _), Nat.sub_self] at hc0
      cases hc0
  | skipLine =>
    rw [closeLine3_other (by simp)]
    obtain ⟨σ', h1, h2, h3, h4⟩ := hO
    have hg' : σ'.lines.get n = some (pre ++ .kw .Else :: rest) := by rw [h2.lines]; exact hg
    refine ⟨mv σ' 0 (σ'.reads + 1), ?_, kept_mv h2 _ _, mem_mv h3 _ _, ?_⟩
    · rw [h1]
      show tailElse σ' = _
      refine tailElse_no (pre := pre ++ .kw .Else :: rest) (post := []) (at_of (by rw [h4]) ?_ (by rw [h4, he])) ?_
      · rw [List.append_nil]; exact hg'
      · intro t ht; cases ht
    · show ({ line := σ'.loc.line, idx := σ'.loc.idx + 0 } : Loc) = _
      rw [h4]
      rfl
  | jump m =>
    rw [closeLine3_other (by simp)]
    refine ⟨fun hhas => ?_, fun hhas => ?_⟩
    · obtain ⟨σ', h1, h2, h3, h4⟩ := hO.1 hhas
      refine ⟨mv σ' 0 (σ'.reads + 1), ?_, kept_mv h2 _ _, mem_mv h3 _ _, ?_⟩
      · rw [h1]
        show tailElse σ' = _
        cases hgm : σ.lines.get m with
        | none => simp [Lines.has, hgm] at hhas
        | some ts =>
          refine tailElse_no (pre := []) (post := ts) (at_of (n := m) (by rw [h4]) ?_ (by rw [h4]; rfl)) (hNE m ts hgm)
          rw [h2.lines, List.nil_append]; exact hgm
      · show ({ line := σ'.loc.line, idx := σ'.loc.idx + 0 } : Loc) = _
        rw [h4]
    · obtain ⟨te, σ', h1, h2⟩ := hO.2 hhas
      exact ⟨te, σ', by rw [h1]; rfl, h2⟩
  | stop =>
    rw [closeLine3_other (by simp)]
    obtain ⟨σ', h1, h2, h3, h4, h5, h6, h7⟩ := hO
    refine ⟨mv σ' 0 (σ'.reads + 1), ?_, kept_mv h2 _ _, h3, h4, h5, ?_, h7⟩
    · rw [h1]
      show tailElse σ' = _
      refine tailElse_no (pre := []) (post := []) ⟨?_, by rw [h6]; rfl⟩ (fun t ht => by cases ht)
      unfold lineToks
      rw [h6, h7]
      rfl
    · show ({ line := σ'.loc.line, idx := σ'.loc.idx + 0 } : Loc) = _
      rw [h6]
  | resume a b =>
    rw [closeLine3_other (by simp)]
    obtain ⟨σ', h1, h2, h3, h4⟩ := hO
    obtain ⟨pre', post', hAt', hLE'⟩ := addr_at (σ := σ') (by rw [h2.lines]; exact hh) h4
    refine ⟨mv σ' 0 (σ'.reads + 1), ?_, kept_mv h2 _ _, mem_mv h3 _ _, ?_⟩
    · rw [h1]
      show tailElse σ' = _
      exact tailElse_no hAt' hLE'.noElse
    · show AddrRel3 p a b { line := σ'.loc.line, idx := σ'.loc.idx + 0 }
      exact h4
  | error e =>
    rw [closeLine3_other (by simp)]
    obtain ⟨hnd, te, σ', h1, h2⟩ := hO
    exact ⟨hnd, te, σ', by rw [h1]; rfl, h2⟩
  | errorAt e ln =>
    rw [closeLine3_other (by simp)]
    obtain ⟨he', σ', i, h1, h2⟩ := hO
    exact ⟨he', σ', i, by rw [h1]; rfl, h2⟩

end Abasic.Stmt3T
