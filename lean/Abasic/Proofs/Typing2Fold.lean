import Abasic.Proofs.Typing2
/-
  `fold2_typed`: the spec evaluator of the full expression language respects the
  static types of `typeOf2` (see Typing2.lean for the definitions).
-/
set_option linter.unusedSectionVars false

namespace Abasic.Props.C06
open Abasic Abasic.Ref Abasic.ExprL Abasic.ExprL2

variable {F : Type} [NumOps F]

/-! ### small facts -/

theorem kindOf_of_matches {v : Value F} {name : Str} (h : v.matchesName name = true) :
    kindOf v = VT.ofName name := by
  rw [suffix_rule_agrees] at h
  simpa using h

theorem matches_of_kindOf {v : Value F} {name : Str} (h : kindOf v = VT.ofName name) :
    v.matchesName name = true := by
  rw [suffix_rule_agrees]
  simpa using h

theorem alGet_alSet_cases' {β : Type} (k k' : Str) (v : β) (l : List (Str × β)) :
    alGet k' (alSet k v l) = if k' = k then some v else alGet k' l := by
  rw [alGet_alSet]
  by_cases h : k' = k
  · subst h; simp
  · rw [if_neg h]
    have : (k == k') = false := by
      simp only [beq_eq_false_iff_ne, ne_eq]
      exact fun h' => h h'.symm
    simp [this]

theorem bindTyped_nil : BindTyped ([] : List (Str × Value F)) := by
  intro k v h
  simp [alGet] at h

theorem bindTyped_alSet {l : List (Str × Value F)} (h : BindTyped l) {k : Str} {v : Value F}
    (hm : v.matchesName k = true) : BindTyped (alSet k v l) := by
  intro k' v' hg
  rw [alGet_alSet_cases'] at hg
  by_cases hk : k' = k
  · rw [if_pos hk] at hg; cases hg; rw [hk]; exact hm
  · rw [if_neg hk] at hg; exact h k' v' hg

theorem lookupFrames_typed (name : Str) : ∀ (frames : List (List (Str × Value F))) (v : Value F),
    (∀ fr ∈ frames, BindTyped fr) → lookupFrames name frames = some v → v.matchesName name = true
  | [], v, _, h => by simp [lookupFrames] at h
  | f :: rest, v, hf, h => by
    simp only [lookupFrames] at h
    cases hg : alGet name f with
    | some w =>
      rw [hg] at h
      cases h
      exact hf f (List.mem_cons_self ..) name _ hg
    | none =>
      rw [hg] at h
      exact lookupFrames_typed name rest v (fun fr hfr => hf fr (List.mem_cons_of_mem _ hfr)) h

theorem lookup_typed {sig : Sig} {env : RefEnv F} (henv : EnvTyped sig env) (name : Str) :
    kindOf (env.lookup name) = VT.ofName name := by
  apply kindOf_of_matches
  unfold RefEnv.lookup
  cases hl : lookupFrames name env.frames with
  | some v => exact lookupFrames_typed name _ v henv.frames hl
  | none =>
    cases hg : alGet name env.vars with
    | some v => exact henv.vars name v hg
    | none => exact defaultFor_matches name

theorem RunErr2.illegalQuantity : RunErr2 .illegalQuantity :=
  .inl (.inr (.inr (.inr (.inr (.inr (.inr (.inr (.inr rfl))))))))
theorem RunErr2.badSubscript : RunErr2 .badSubscript :=
  .inl (.inr (.inr (.inr (.inr (.inr (.inr (.inl rfl)))))))
theorem RunErr2.oomArray : RunErr2 .oomArray :=
  .inl (.inr (.inr (.inr (.inr (.inr (.inl rfl))))))
theorem RunErr2.oomStack : RunErr2 .oomStack :=
  .inl (.inr (.inr (.inr (.inr (.inl rfl)))))
theorem RunErr2.divisionByZero : RunErr2 .divisionByZero := .inl (.inl rfl)
theorem RunErr2.unimplemented : RunErr2 .unimplemented := .inr (.inl rfl)
theorem RunErr2.outOfFuel : RunErr2 .outOfFuel := .inr (.inr rfl)

theorem subscript_typed {v : Value F} (hk : kindOf v = .num) {x : Err} (h : subscript v = .error x) :
    RunErr2 x := by
  cases v with
  | str s => cases hk
  | num z =>
    simp only [subscript] at h
    split at h
    · cases h; exact RunErr2.illegalQuantity
    · cases h

theorem readAt_typed (a : ArrayV F) (idx : List Nat) :
    (∀ v, readAt a idx = .ok v → kindOf v = if ArrayV.isStrs a then .str else .num) ∧
    (∀ x, readAt a idx = .error x → x = .badSubscript) := by
  unfold readAt
  cases hl : linearIndex idx a.dims with
  | error e =>
    refine ⟨fun v h => (by cases h), fun x h => ?_⟩
    simp only [Except.error.injEq] at h
    subst h
    exact linearIndex_err hl
  | ok i =>
    cases a with
    | strs d c => exact ⟨fun v h => (by cases h; rfl), fun x h => (by cases h)⟩
    | nums d c => exact ⟨fun v h => (by cases h; rfl), fun x h => (by cases h)⟩

theorem envTyped_arrays {sig : Sig} {env env' : RefEnv F} (henv : EnvTyped sig env)
    (hv : env'.vars = env.vars) (hf : env'.frames = env.frames) (hfn : env'.fns = env.fns)
    (ha : ArrKind env'.arrays) : EnvTyped sig env' :=
  ⟨by rw [hv]; exact henv.vars, by rw [hf]; exact henv.frames, ha, by rw [hfn]; exact henv.fns⟩

/-- what a typed evaluation may result in -/
def Post (sig : Sig) (t : VT) : Except Err (Value F × RefEnv F) → Prop
  | .ok (v, env') => kindOf v = t ∧ EnvTyped sig env'
  | .error x => RunErr2 x

theorem readCell_typed {sig : Sig} {env : RefEnv F} (henv : EnvTyped sig env) (name : Str) (idx : List Nat) :
    Post sig (VT.ofName name) (readCell env name idx) := by
  unfold readCell
  cases hg : alGet name env.arrays with
  | some a =>
    simp only
    have hk := henv.arrays name a hg
    cases hr : readAt a idx with
    | error e =>
      have := (readAt_typed a idx).2 e hr
      subst this
      exact RunErr2.badSubscript
    | ok v =>
      refine ⟨?_, henv⟩
      rw [(readAt_typed a idx).1 v hr, hk]
      rfl
  | none =>
    simp only
    cases hc : ArrayV.create (F := F) name (List.replicate idx.length Extracted.defaultArraySize) with
    | error e =>
      rcases create_err hc with h | h <;> subst h
      · exact RunErr2.badSubscript
      · exact RunErr2.oomArray
    | ok a =>
      have hk := create_kind hc
      simp only
      cases hr : readAt a idx with
      | error e =>
        have := (readAt_typed a idx).2 e hr
        subst this
        exact RunErr2.badSubscript
      | ok v =>
        refine ⟨?_, envTyped_arrays henv rfl rfl rfl (arrKind_alSet henv.arrays hk)⟩
        rw [(readAt_typed a idx).1 v hr, hk]
        rfl

theorem rndStep_typed {sig : Sig} {env : RefEnv F} (henv : EnvTyped sig env) (x : F) :
    Post sig .num (rndStep env x) := by
  unfold rndStep
  split
  · exact RunErr2.unimplemented
  · split
    · exact ⟨rfl, henv⟩
    · exact ⟨rfl, envTyped_arrays henv rfl rfl rfl henv.arrays⟩

/-- … for subscripts -/
def PostI (sig : Sig) : Except Err (List Nat × RefEnv F) → Prop
  | .ok (_, env') => EnvTyped sig env'
  | .error x => RunErr2 x

/-- … for arguments -/
def PostB (sig : Sig) : Except Err (List (Str × Value F) × RefEnv F) → Prop
  | .ok (b, env') => BindTyped b ∧ EnvTyped sig env'
  | .error x => RunErr2 x

theorem numArgT_ok {r : Except Err VT} {t : VT} (h : numArgT r = .ok t) : r = .ok .num ∧ t = .num := by
  cases r with
  | error x => cases h
  | ok a =>
    cases a with
    | str => cases h
    | num => cases h; exact ⟨rfl, rfl⟩

theorem typeIdx_cons (sig : Sig) (e : Expr2 F) (es : List (Expr2 F)) :
    typeIdx sig (e :: es) =
      match typeOf2 sig e with
      | .error x => .error x
      | .ok .str => .error .typeMismatch
      | .ok .num =>
        match es with
        | [] => .ok ()
        | e' :: es' => typeIdx sig (e' :: es') := by
  cases es <;> rw [typeIdx] <;>
    (cases h : typeOf2 sig e with
     | error x => rfl
     | ok a => cases a <;> rfl)

mutual
theorem fold2_post (sig : Sig) : ∀ (n : Nat) (e : Expr2 F) (env : RefEnv F) (t : VT),
    EnvTyped sig env → typeOf2 sig e = .ok t → Post sig t (fold2 n env e)
  | n, .num x, env, t, henv, ht => by
    rw [typeOf2] at ht; cases ht; rw [fold2]; exact ⟨rfl, henv⟩
  | n, .str s, env, t, henv, ht => by
    rw [typeOf2] at ht; cases ht; rw [fold2]; exact ⟨rfl, henv⟩
  | n, .var s, env, t, henv, ht => by
    rw [typeOf2] at ht; cases ht; rw [fold2]; exact ⟨lookup_typed henv s, henv⟩
  | n, .paren e, env, t, henv, ht => by
    rw [typeOf2] at ht; rw [fold2]; exact fold2_post sig n e env t henv ht
  | n, .un op e, env, t, henv, ht => by
    rw [typeOf2] at ht
    cases hte : typeOf2 sig e with
    | error y => rw [hte] at ht; cases ht
    | ok a =>
      rw [hte] at ht; simp only at ht
      have ih := fold2_post sig n e env a henv hte
      rw [fold2]
      cases h1 : fold2 n env e with
      | error x => rw [h1] at ih; exact ih
      | ok r =>
        obtain ⟨v, env1⟩ := r
        rw [h1] at ih
        simp only
        obtain ⟨hk, henv1⟩ := ih
        have hag := unop_agrees op v
        rw [hk] at hag
        cases hu : unaryRule op a with
        | none => rw [hu] at ht; cases ht
        | some t' =>
          rw [hu] at ht; cases ht
          cases hop : op.eval v with
          | error x =>
            have hx := hag.2.2 x hop; subst hx
            rw [hag.1.1 hop] at hu; cases hu
          | ok w =>
            have := hag.2.1 w hop
            rw [hu] at this; simp only [Option.some.injEq] at this
            exact ⟨this.symm, henv1⟩
  | n, .bin op l r, env, t, henv, ht => by
    rw [typeOf2] at ht
    cases htl : typeOf2 sig l with
    | error y => rw [htl] at ht; cases ht
    | ok a =>
      rw [htl] at ht; simp only at ht
      cases htr : typeOf2 sig r with
      | error y => rw [htr] at ht; cases ht
      | ok b =>
        rw [htr] at ht; simp only at ht
        have ihl := fold2_post sig n l env a henv htl
        rw [fold2]
        cases h1 : fold2 n env l with
        | error x => rw [h1] at ihl; exact ihl
        | ok r1 =>
          obtain ⟨va, env1⟩ := r1
          rw [h1] at ihl
          simp only
          obtain ⟨hka, henv1⟩ := ihl
          have ihr := fold2_post sig n r env1 b henv1 htr
          cases h2 : fold2 n env1 r with
          | error x => rw [h2] at ihr; exact ihr
          | ok r2 =>
            obtain ⟨vb, env2⟩ := r2
            rw [h2] at ihr
            simp only
            obtain ⟨hkb, henv2⟩ := ihr
            have hag := binop_agrees op va vb
            rw [hka, hkb] at hag
            cases hu : tierRule (tierOf op) a b with
            | none => rw [hu] at ht; cases ht
            | some t' =>
              rw [hu] at ht; cases ht
              cases hop : op.eval va vb with
              | error x =>
                rcases hag.2.2 x hop with hx | hx
                · subst hx
                  rw [hag.1.1 hop] at hu; cases hu
                · subst hx; exact RunErr2.divisionByZero
              | ok w =>
                have := hag.2.1 w hop
                rw [hu] at this; simp only [Option.some.injEq] at this
                exact ⟨this.symm, henv2⟩
  | n, .abs e, env, t, henv, ht => by
    rw [typeOf2] at ht
    obtain ⟨hte, rfl⟩ := numArgT_ok ht
    have ih := fold2_post sig n e env .num henv hte
    rw [fold2]
    cases h1 : fold2 n env e with
    | error x => rw [h1] at ih; exact ih
    | ok r =>
      obtain ⟨v, env1⟩ := r
      rw [h1] at ih
      obtain ⟨hk, henv1⟩ := ih
      cases v with
      | str s => cases hk
      | num y => exact ⟨rfl, henv1⟩
  | n, .int e, env, t, henv, ht => by
    rw [typeOf2] at ht
    obtain ⟨hte, rfl⟩ := numArgT_ok ht
    have ih := fold2_post sig n e env .num henv hte
    rw [fold2]
    cases h1 : fold2 n env e with
    | error x => rw [h1] at ih; exact ih
    | ok r =>
      obtain ⟨v, env1⟩ := r
      rw [h1] at ih
      obtain ⟨hk, henv1⟩ := ih
      cases v with
      | str s => cases hk
      | num y => exact ⟨rfl, henv1⟩
  | n, .rnd e, env, t, henv, ht => by
    rw [typeOf2] at ht
    obtain ⟨hte, rfl⟩ := numArgT_ok ht
    have ih := fold2_post sig n e env .num henv hte
    rw [fold2]
    cases h1 : fold2 n env e with
    | error x => rw [h1] at ih; exact ih
    | ok r =>
      obtain ⟨v, env1⟩ := r
      rw [h1] at ih
      obtain ⟨hk, henv1⟩ := ih
      cases v with
      | str s => cases hk
      | num y => exact rndStep_typed henv1 y
  | n, .cell name idx, env, t, henv, ht => by
    rw [typeOf2] at ht
    cases hti : typeIdx sig idx with
    | error y => rw [hti] at ht; cases ht
    | ok u =>
      rw [hti] at ht; cases ht
      have ih := foldIdx_post sig n idx env henv hti
      rw [fold2]
      cases h1 : foldIdx n env idx with
      | error x => rw [h1] at ih; exact ih
      | ok r =>
        obtain ⟨is, env1⟩ := r
        rw [h1] at ih
        exact readCell_typed ih name is
  | n, .call g args, env, t, henv, ht => by
    rw [typeOf2] at ht
    have hfn := henv.fns g
    rw [fold2]
    cases hs : sig g with
    | none =>
      rw [hs] at ht hfn
      cases hg : alGet g env.fns with
      | some d => rw [hg] at hfn; exact hfn.elim
      | none =>
        simp only at ht ⊢
        cases hti : typeIdx sig args with
        | error y => rw [hti] at ht; cases ht
        | ok u =>
          rw [hti] at ht; cases ht
          have ih := foldIdx_post sig n args env henv hti
          cases h1 : foldIdx n env args with
          | error x => rw [h1] at ih; exact ih
          | ok r =>
            obtain ⟨is, env1⟩ := r
            rw [h1] at ih
            exact readCell_typed ih g is
    | some s =>
      rw [hs] at ht hfn
      cases hg : alGet g env.fns with
      | none => rw [hg] at hfn; exact hfn.elim
      | some d =>
        rw [hg] at hfn
        simp only at hfn ht ⊢
        obtain ⟨hps, hbody⟩ := hfn
        cases hta : typeArgs sig true s.1 args with
        | error y => rw [hta] at ht; cases ht
        | ok u =>
          rw [hta] at ht; cases ht
          rw [hps] at hta
          have ih := bindArgs2_post sig n args env d.params [] true henv bindTyped_nil hta
          cases h1 : bindArgs2 n env d.params args [] with
          | error x => rw [h1] at ih; exact ih
          | ok r =>
            obtain ⟨b, env1⟩ := r
            rw [h1] at ih
            obtain ⟨hb, henv1⟩ := ih
            simp only
            split
            · exact RunErr2.oomStack
            · cases n with
              | zero => exact RunErr2.outOfFuel
              | succ n' =>
                simp only
                have henv1' : EnvTyped sig { env1 with frames := b :: env1.frames } :=
                  ⟨henv1.vars, fun fr hfr => by
                    rcases List.mem_cons.1 hfr with h | h
                    · rw [h]; exact hb
                    · exact henv1.frames fr h, henv1.arrays, henv1.fns⟩
                have ih2 := fold2_post sig n' d.body _ _ henv1' hbody
                cases h2 : fold2 n' { env1 with frames := b :: env1.frames } d.body with
                | error x => rw [h2] at ih2; exact ih2
                | ok r2 =>
                  obtain ⟨v, env2⟩ := r2
                  rw [h2] at ih2
                  exact ⟨ih2.1, ⟨ih2.2.vars, henv1.frames, ih2.2.arrays, ih2.2.fns⟩⟩
termination_by n e => (n, sizeOf e)
theorem foldIdx_post (sig : Sig) : ∀ (n : Nat) (es : List (Expr2 F)) (env : RefEnv F),
    EnvTyped sig env → typeIdx sig es = .ok () → PostI sig (foldIdx n env es)
  | n, [], env, henv, ht => by rw [typeIdx] at ht; cases ht
  | n, e :: es, env, henv, ht => by
    rw [typeIdx_cons] at ht
    cases hte : typeOf2 sig e with
    | error y => rw [hte] at ht; cases ht
    | ok a =>
      rw [hte] at ht
      cases a with
      | str => cases ht
      | num =>
        simp only at ht
        have ih := fold2_post sig n e env .num henv hte
        rw [foldIdx]
        cases h1 : fold2 n env e with
        | error x => rw [h1] at ih; exact ih
        | ok r =>
          obtain ⟨v, env1⟩ := r
          rw [h1] at ih
          obtain ⟨hk, henv1⟩ := ih
          simp only
          cases hsub : subscript v with
          | error x => exact subscript_typed hk hsub
          | ok i =>
            simp only
            cases es with
            | nil => exact henv1
            | cons e' es' =>
              simp only at ht ⊢
              have ih2 := foldIdx_post sig n (e' :: es') env1 henv1 ht
              cases h2 : foldIdx n env1 (e' :: es') with
              | error x => rw [h2] at ih2; exact ih2
              | ok r2 =>
                obtain ⟨is, env2⟩ := r2
                rw [h2] at ih2
                exact ih2
termination_by n es => (n, sizeOf es)
theorem bindArgs2_post (sig : Sig) : ∀ (n : Nat) (as : List (Expr2 F)) (env : RefEnv F) (ps : List Str)
    (acc : List (Str × Value F)) (first : Bool),
    EnvTyped sig env → BindTyped acc → typeArgs sig first (ps.map VT.ofName) as = .ok () →
    PostB sig (bindArgs2 n env ps as acc)
  | n, [], env, [], acc, first, henv, hacc, ht => by rw [bindArgs2]; exact ⟨hacc, henv⟩
  | n, [], env, p :: ps, acc, first, henv, hacc, ht => by
    rw [List.map_cons, typeArgs] at ht
    cases first <;> cases ht
  | n, a :: as, env, [], acc, first, henv, hacc, ht => by
    rw [List.map_nil, typeArgs] at ht; cases ht
  | n, a :: as, env, p :: ps, acc, first, henv, hacc, ht => by
    rw [List.map_cons, typeArgs] at ht
    cases hta : typeOf2 sig a with
    | error y => rw [hta] at ht; cases ht
    | ok t =>
      rw [hta] at ht
      simp only at ht
      by_cases htp : t = VT.ofName p
      · subst htp
        simp only [beq_self_eq_true, if_true] at ht
        have ih := fold2_post sig n a env _ henv hta
        rw [bindArgs2]
        cases h1 : fold2 n env a with
        | error x => rw [h1] at ih; exact ih
        | ok r =>
          obtain ⟨v, env1⟩ := r
          rw [h1] at ih
          obtain ⟨hk, henv1⟩ := ih
          have hm := matches_of_kindOf hk
          simp only [hm, if_true]
          exact bindArgs2_post sig n as env1 ps _ false henv1 (bindTyped_alSet hacc hm) ht
      · have : (t == VT.ofName p) = false := by simpa using htp
        rw [this] at ht
        cases ht
termination_by n as => (n, sizeOf as)
end

/-! ### the statements -/

/-- **Typed trees of the full language have typed values.**  In an environment
    that agrees with the signatures, a tree of static type `t` evaluates to a
    value of kind `t` and leaves such an environment, or fails with a run-time
    error of `RunErr2`. -/
theorem fold2_typed (sig : Sig) : ∀ (n : Nat) (e : Expr2 F) (env : RefEnv F) (t : VT),
    EnvTyped sig env → typeOf2 sig e = .ok t →
    (∀ v env', fold2 n env e = .ok (v, env') → kindOf v = t ∧ EnvTyped sig env') ∧
    (∀ x, fold2 n env e = .error x → RunErr2 x) := by
  intro n e env t henv ht
  have h := fold2_post sig n e env t henv ht
  exact ⟨fun v env' hf => by rw [hf] at h; exact h, fun x hf => by rw [hf] at h; exact h⟩

theorem foldIdx_typed (sig : Sig) : ∀ (n : Nat) (es : List (Expr2 F)) (env : RefEnv F),
    EnvTyped sig env → typeIdx sig es = .ok () →
    (∀ is env', foldIdx n env es = .ok (is, env') → EnvTyped sig env') ∧
    (∀ x, foldIdx n env es = .error x → RunErr2 x) := by
  intro n es env henv ht
  have h := foldIdx_post sig n es env henv ht
  exact ⟨fun v env' hf => by rw [hf] at h; exact h, fun x hf => by rw [hf] at h; exact h⟩

/-- (`first` is arbitrary: whether `typeArgs` succeeds does not depend on it) -/
theorem bindArgs2_typed (sig : Sig) : ∀ (n : Nat) (as : List (Expr2 F)) (env : RefEnv F) (ps : List Str)
    (acc : List (Str × Value F)) (first : Bool),
    EnvTyped sig env → BindTyped acc → typeArgs sig first (ps.map VT.ofName) as = .ok () →
    (∀ b env', bindArgs2 n env ps as acc = .ok (b, env') → BindTyped b ∧ EnvTyped sig env') ∧
    (∀ x, bindArgs2 n env ps as acc = .error x → RunErr2 x) := by
  intro n as env ps acc first henv hacc ht
  have h := bindArgs2_post sig n as env ps acc first henv hacc ht
  exact ⟨fun v env' hf => by rw [hf] at h; exact h, fun x hf => by rw [hf] at h; exact h⟩

/-- (S1) a typed tree never evaluates to a static error -/
theorem fold2_typed_not_static (sig : Sig) (n : Nat) (e : Expr2 F) (env : RefEnv F) (t : VT)
    (henv : EnvTyped sig env) (ht : typeOf2 sig e = .ok t) :
    ∀ x, fold2 n env e = .error x →
      x ≠ .typeMismatch ∧ (∀ s, x ≠ .syntax s) ∧ x ≠ .undefinedStatement :=
  fun x h => ((fold2_typed sig n e env t henv ht).2 x h).not_static

/-! ### (S2) the static errors -/

theorem numArgT_error {r : Except Err VT} {x : Err} (h : numArgT r = .error x) :
    x = .typeMismatch ∨ r = .error x := by
  cases r with
  | error y => simp only [numArgT, Except.error.injEq] at h; subst h; exact .inr rfl
  | ok a =>
    cases a with
    | str => simp only [numArgT, Except.error.injEq] at h; exact .inl h.symm
    | num => cases h

mutual
theorem typeOf2_error (sig : Sig) : ∀ (e : Expr2 F) (x : Err),
    typeOf2 sig e = .error x → x = .typeMismatch ∨ ∃ s, x = .syntax s
  | .num _, x, h => by rw [typeOf2] at h; cases h
  | .str _, x, h => by rw [typeOf2] at h; cases h
  | .var _, x, h => by rw [typeOf2] at h; cases h
  | .paren e, x, h => by rw [typeOf2] at h; exact typeOf2_error sig e x h
  | .un op e, x, h => by
    rw [typeOf2] at h
    cases hte : typeOf2 sig e with
    | error y => rw [hte] at h; cases h; exact typeOf2_error sig e _ hte
    | ok a =>
      rw [hte] at h; simp only at h
      cases hu : unaryRule op a with
      | none => rw [hu] at h; cases h; exact .inl rfl
      | some t => rw [hu] at h; cases h
  | .bin op l r, x, h => by
    rw [typeOf2] at h
    cases htl : typeOf2 sig l with
    | error y => rw [htl] at h; cases h; exact typeOf2_error sig l _ htl
    | ok a =>
      rw [htl] at h; simp only at h
      cases htr : typeOf2 sig r with
      | error y => rw [htr] at h; cases h; exact typeOf2_error sig r _ htr
      | ok b =>
        rw [htr] at h; simp only at h
        cases hu : tierRule (tierOf op) a b with
        | none => rw [hu] at h; cases h; exact .inl rfl
        | some t => rw [hu] at h; cases h
  | .abs e, x, h => by
    rw [typeOf2] at h
    rcases numArgT_error h with h | h
    · exact .inl h
    · exact typeOf2_error sig e x h
  | .int e, x, h => by
    rw [typeOf2] at h
    rcases numArgT_error h with h | h
    · exact .inl h
    · exact typeOf2_error sig e x h
  | .rnd e, x, h => by
    rw [typeOf2] at h
    rcases numArgT_error h with h | h
    · exact .inl h
    · exact typeOf2_error sig e x h
  | .cell name idx, x, h => by
    rw [typeOf2] at h
    cases hti : typeIdx sig idx with
    | error y => rw [hti] at h; cases h; exact typeIdx_error sig idx _ hti
    | ok u => rw [hti] at h; cases h
  | .call g args, x, h => by
    rw [typeOf2] at h
    cases hs : sig g with
    | none =>
      rw [hs] at h; simp only at h
      cases hti : typeIdx sig args with
      | error y => rw [hti] at h; cases h; exact typeIdx_error sig args _ hti
      | ok u => rw [hti] at h; cases h
    | some s =>
      rw [hs] at h; simp only at h
      cases hta : typeArgs sig true s.1 args with
      | error y => rw [hta] at h; cases h; exact typeArgs_error sig true s.1 args _ hta
      | ok u => rw [hta] at h; cases h
termination_by e => sizeOf e
theorem typeIdx_error (sig : Sig) : ∀ (es : List (Expr2 F)) (x : Err),
    typeIdx sig es = .error x → x = .typeMismatch ∨ ∃ s, x = .syntax s
  | [], x, h => by rw [typeIdx] at h; cases h; exact .inr ⟨_, rfl⟩
  | e :: es, x, h => by
    rw [typeIdx_cons] at h
    cases hte : typeOf2 sig e with
    | error y => rw [hte] at h; cases h; exact typeOf2_error sig e _ hte
    | ok a =>
      rw [hte] at h
      cases a with
      | str => cases h; exact .inl rfl
      | num =>
        simp only at h
        cases es with
        | nil => cases h
        | cons e' es' => exact typeIdx_error sig (e' :: es') x h
termination_by es => sizeOf es
theorem typeArgs_error (sig : Sig) : ∀ (first : Bool) (ps : List VT) (as : List (Expr2 F)) (x : Err),
    typeArgs sig first ps as = .error x → x = .typeMismatch ∨ ∃ s, x = .syntax s
  | first, [], [], x, h => by rw [typeArgs] at h; cases h
  | first, [], _ :: _, x, h => by rw [typeArgs] at h; cases h; exact .inr ⟨_, rfl⟩
  | first, _ :: _, [], x, h => by
    rw [typeArgs] at h
    cases first <;> cases h <;> exact .inr ⟨_, rfl⟩
  | first, p :: ps, a :: as, x, h => by
    rw [typeArgs] at h
    cases hta : typeOf2 sig a with
    | error y => rw [hta] at h; cases h; exact typeOf2_error sig a _ hta
    | ok t =>
      rw [hta] at h; simp only at h
      cases hb : t == p with
      | true => rw [hb] at h; exact typeArgs_error sig false ps as x h
      | false => rw [hb] at h; cases h; exact .inl rfl
termination_by _ _ as => sizeOf as
end

/-! ### (S3) the signatures read off a table -/

theorem sigOfSpec_none {fns : List (Str × FnDefSpec F)} {f : Str} (h : alGet f fns = none) :
    sigOfSpec fns f = none := by
  unfold sigOfSpec; rw [h]

theorem sigOfSpec_some {fns : List (Str × FnDefSpec F)} {f : Str} {d : FnDefSpec F} (h : alGet f fns = some d) :
    sigOfSpec fns f = some (d.params.map VT.ofName, VT.ofName f) := by
  unfold sigOfSpec; rw [h]

/-- a table agrees with its own signatures iff every body is typed as its name announces -/
theorem fnsTyped_sigOfSpec (fns : List (Str × FnDefSpec F)) :
    FnsTyped (sigOfSpec fns) fns ↔
      ∀ f d, alGet f fns = some d → typeOf2 (sigOfSpec fns) d.body = .ok (VT.ofName f) := by
  constructor
  · intro h f d hg
    have hf := h f
    rw [sigOfSpec_some hg, hg] at hf
    exact hf.2
  · intro h f
    cases hg : alGet f fns with
    | none => rw [sigOfSpec_none hg]; trivial
    | some d => rw [sigOfSpec_some hg]; exact ⟨rfl, h f d hg⟩

/-! ### (S4) the hypotheses are needed -/

/-- `FnsTyped` is needed: the check believed `F` to be a function of one string
    (so `F("A")` is typed), but at run time `F` is undefined, `F("A")` is read as an
    array cell and the string subscript is a TYPE MISMATCH. -/
example :
    typeOf2 (F := Unit) (fun _ => some ([.str], .num)) (.call ['F'] [.str ['A']]) = .ok .num ∧
    fold2 (F := Unit) 33 ⟨[], [], [], 0, []⟩ (.call ['F'] [.str ['A']]) = .error .typeMismatch ∧
    ¬ FnsTyped (F := Unit) (fun _ => some ([.str], .num)) [] := by
  refine ⟨?_, ?_, ?_⟩
  · simp [typeOf2, typeArgs, VT.ofName, endsWithDollar]
  · simp [fold2, foldIdx, alGet, subscript]
  · intro h
    have := h ['F']
    simp [alGet] at this

/-- `EnvTyped.vars` is needed: with a string stored under the numeric name `A`,
    the typed tree `-A` evaluates to TYPE MISMATCH. -/
example :
    typeOf2 (F := Unit) (fun _ => none) (.un .neg (.var ['A'])) = .ok .num ∧
    fold2 (F := Unit) 33 ⟨[(['A'], .str [])], [], [], 0, []⟩ (.un .neg (.var ['A'])) = .error .typeMismatch := by
  refine ⟨?_, ?_⟩
  · simp [typeOf2, unaryRule, VT.ofName, endsWithDollar]
  · simp [fold2, RefEnv.lookup, lookupFrames, alGet, UnOp.eval]

end Abasic.Props.C06

section
open Abasic.Props.C06
end
