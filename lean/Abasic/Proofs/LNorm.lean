import Abasic.Proofs.Transp
import Abasic.Proofs.LinesNorm
/-
  Relation N: the order of the token map of the program store is unobservable.

  `lnorm σ` puts the store of `σ` into its normal form (`Lines.canon`, Proofs/LinesNorm.lean).
  `LSim m` is the two-run statement: from lnorm-equal states `m` yields the same
  value / the same error and lnorm-equal states.  As for the flags (Proofs/Transp.lean, of
  which this file is a transcription) the working notion is the one-sided `LComm m`.
-/
namespace Abasic.Hoare
open Abasic M

variable {F : Type}

def lnorm (σ : St F) : St F := { σ with lines := σ.lines.canon }

theorem lnorm_idem (σ : St F) : lnorm (lnorm σ) = lnorm σ := by
  simp only [lnorm, Lines.canon_idem]

/-- same outcome, lnorm-equal final states -/
def LResSim {α : Type} : Res F α → Res F α → Prop
  | .ok a s, .ok b t => a = b ∧ lnorm s = lnorm t
  | .err e s, .err e' t => e = e' ∧ lnorm s = lnorm t
  | _, _ => False

def LSim {α : Type} (m : M F α) : Prop :=
  ∀ σ₁ σ₂, lnorm σ₁ = lnorm σ₂ → LResSim (m σ₁) (m σ₂)

theorem lresSim_iff {α : Type} (r₁ r₂ : Res F α) : LResSim r₁ r₂ ↔ r₁.mapSt lnorm = r₂.mapSt lnorm := by
  cases r₁ <;> cases r₂ <;> simp [LResSim, Res.mapSt]

theorem LResSim.refl {α : Type} (r : Res F α) : LResSim r r := (lresSim_iff r r).2 rfl
theorem LResSim.symm {α : Type} {r₁ r₂ : Res F α} (h : LResSim r₁ r₂) : LResSim r₂ r₁ :=
  (lresSim_iff _ _).2 ((lresSim_iff _ _).1 h).symm
theorem LResSim.trans {α : Type} {r₁ r₂ r₃ : Res F α} (h : LResSim r₁ r₂) (h' : LResSim r₂ r₃) : LResSim r₁ r₃ :=
  (lresSim_iff _ _).2 (((lresSim_iff _ _).1 h).trans ((lresSim_iff _ _).1 h'))

/-- `m₁` on the erased state computes the erased result of `m₂` -/
def LComm2 {α : Type} (m₁ m₂ : M F α) (σ : St F) : Prop := m₁ (lnorm σ) = (m₂ σ).mapSt lnorm

def LComm {α : Type} (m : M F α) : Prop := ∀ σ, LComm2 m m σ

section rules
variable {α β : Type}

theorem LComm.at {m : M F α} (h : LComm m) (σ : St F) : LComm2 m m σ := h σ
theorem lcomm_of_at {m : M F α} (h : ∀ σ, LComm2 m m σ) : LComm m := h
theorem lcomm2_of_comm {m : M F α} {σ : St F} (h : LComm m) : LComm2 m m σ := h σ

/-- `LComm` implies `LSim` -/
theorem LComm.sim {m : M F α} (h : LComm m) : LSim m := by
  intro σ₁ σ₂ he
  rw [lresSim_iff, ← h σ₁, ← h σ₂, he]

/-- `LSim`, one-sided: the characterisation by the erased state -/
theorem lsim_iff {m : M F α} : LSim m ↔ ∀ σ, (m (lnorm σ)).mapSt lnorm = (m σ).mapSt lnorm := by
  constructor
  · intro h σ
    exact (lresSim_iff _ _).1 (h (lnorm σ) σ (lnorm_idem σ))
  · intro h σ₁ σ₂ he
    rw [lresSim_iff, ← h σ₁, ← h σ₂, he]

theorem lsim_pure (a : α) : LSim (pure a : M F α) := fun _ _ h => ⟨rfl, h⟩
theorem lsim_fail (e : Err) : LSim (M.fail e : M F α) := fun _ _ h => ⟨rfl, h⟩
theorem lsim_rpanic (s : String) : LSim (M.rpanic s : M F α) := fun _ _ h => ⟨rfl, h⟩

/-- the bind rule for `LSim` -/
theorem lsim_bind {m : M F α} {f : α → M F β} (hm : LSim m) (hf : ∀ a, LSim (f a)) : LSim (m >>= f) := by
  intro σ₁ σ₂ he
  have h := hm σ₁ σ₂ he
  show LResSim (M.bindM m f σ₁) (M.bindM m f σ₂)
  unfold M.bindM
  cases h₁ : m σ₁ with
  | ok a s =>
    cases h₂ : m σ₂ with
    | ok b t =>
      rw [h₁, h₂] at h
      obtain ⟨rfl, hs⟩ := h
      exact hf a s t hs
    | err e t => rw [h₁, h₂] at h; exact h.elim
  | err e s =>
    cases h₂ : m σ₂ with
    | ok b t => rw [h₁, h₂] at h; exact h.elim
    | err e' t => rw [h₁, h₂] at h; exact h

theorem lsim_modify {f : St F → St F} (h : ∀ σ₁ σ₂ : St F, lnorm σ₁ = lnorm σ₂ → lnorm (f σ₁) = lnorm (f σ₂)) :
    LSim (M.modify f) := fun σ₁ σ₂ he => ⟨rfl, h σ₁ σ₂ he⟩

theorem lsim_ite {c : Prop} [Decidable c] {t e : M F α} (ht : LSim t) (he : LSim e) : LSim (if c then t else e) := by
  by_cases h : c
  · rw [if_pos h]; exact ht
  · rw [if_neg h]; exact he

theorem lsim_postprocess {m : M F α} (hm : LSim m) : LSim (postprocess m) := by
  intro σ₁ σ₂ he
  have h := hm σ₁ σ₂ he
  unfold postprocess
  cases h₁ : m σ₁ with
  | ok a s =>
    cases h₂ : m σ₂ with
    | ok b t => rw [h₁, h₂] at h; exact h
    | err e t => rw [h₁, h₂] at h; exact h.elim
  | err e s =>
    cases h₂ : m σ₂ with
    | ok b t => rw [h₁, h₂] at h; exact h.elim
    | err e' t =>
      rw [h₁, h₂] at h
      obtain ⟨rfl, hs⟩ := h
      have hp : s.populate e = t.populate e := by
        have h1 : (lnorm s).populate e = s.populate e := rfl
        have h2 : (lnorm t).populate e = t.populate e := rfl
        rw [← h1, ← h2, hs]
      refine ⟨hp, ?_⟩
      show lnorm { s with state := .idle } = lnorm { t with state := .idle }
      have h1 : lnorm { s with state := .idle } = { lnorm s with state := .idle } := rfl
      have h2 : lnorm { t with state := .idle } = { lnorm t with state := .idle } := rfl
      rw [h1, h2, hs]

/-! ### `LComm`: global rules -/

theorem lcomm_pure (a : α) : LComm (pure a : M F α) := fun _ => rfl
theorem lcomm_pureM (a : α) : LComm (M.pureM a : M F α) := fun _ => rfl
theorem lcomm_fail (e : Err) : LComm (M.fail e : M F α) := fun _ => rfl
theorem lcomm_throw (e : TErr) : LComm (M.throw e : M F α) := fun _ => rfl
theorem lcomm_rpanic (s : String) : LComm (M.rpanic s : M F α) := fun _ => rfl

theorem lcomm2_bind {m₁ m₂ : M F α} {f : α → M F β} {σ : St F}
    (hm : LComm2 m₁ m₂ σ) (hf : ∀ a, LComm (f a)) : LComm2 (m₁ >>= f) (m₂ >>= f) σ := by
  show M.bindM m₁ f (lnorm σ) = (M.bindM m₂ f σ).mapSt lnorm
  unfold M.bindM
  have hm' : m₁ (lnorm σ) = (m₂ σ).mapSt lnorm := hm
  rw [hm']
  cases m₂ σ with
  | ok a s => exact hf a s
  | err e s => rfl

theorem lcomm2_bind_het {m₁ m₂ : M F α} {f₁ f₂ : α → M F β} {σ : St F}
    (hm : LComm2 m₁ m₂ σ) (hf : ∀ a σ', LComm2 (f₁ a) (f₂ a) σ') : LComm2 (m₁ >>= f₁) (m₂ >>= f₂) σ := by
  show M.bindM m₁ f₁ (lnorm σ) = (M.bindM m₂ f₂ σ).mapSt lnorm
  unfold M.bindM
  have hm' : m₁ (lnorm σ) = (m₂ σ).mapSt lnorm := hm
  rw [hm']
  cases m₂ σ with
  | ok a s => exact hf a s
  | err e s => rfl

theorem lcomm_bind {m : M F α} {f : α → M F β} (hm : LComm m) (hf : ∀ a, LComm (f a)) : LComm (m >>= f) :=
  fun σ => lcomm2_bind (hm σ) hf

theorem lcomm_attempt {m : M F α} (hm : LComm m) : LComm (M.attempt m) := by
  intro σ
  show M.attempt m (lnorm σ) = (M.attempt m σ).mapSt lnorm
  unfold M.attempt
  have hm' : m (lnorm σ) = (m σ).mapSt lnorm := hm σ
  rw [hm']
  cases m σ <;> rfl

theorem lcomm_ofExcept (r : Except TErr α) : LComm (M.ofExcept r : M F α) := by
  cases r <;> exact fun _ => rfl

theorem lcomm_liftE (r : Except Err α) : LComm (liftE r : M F α) := by
  cases r <;> exact fun _ => rfl

theorem lcomm_modify {f : St F → St F} (h : ∀ σ, f (lnorm σ) = lnorm (f σ)) : LComm (M.modify f) := by
  intro σ
  show Res.ok () (f (lnorm σ)) = Res.ok () (lnorm (f σ))
  rw [h]

theorem lcomm_get_bind {f : St F → M F β} (h : ∀ σ, LComm2 (f (lnorm σ)) (f σ) σ) : LComm (M.get >>= f) := h

/-! ### rules at one state -/

theorem lcomm2_get_bind {f₁ f₂ : St F → M F β} {σ : St F} (h : LComm2 (f₁ (lnorm σ)) (f₂ σ) σ) :
    LComm2 (M.get >>= f₁) (M.get >>= f₂) σ := h

theorem lcomm2_set {s₁ s₂ σ : St F} (h : s₁ = lnorm s₂) : LComm2 (M.set s₁) (M.set s₂) σ := by
  show Res.ok () s₁ = Res.ok () (lnorm s₂)
  rw [h]

theorem lcomm2_modify {f₁ f₂ : St F → St F} {σ : St F} (h : f₁ (lnorm σ) = lnorm (f₂ σ)) :
    LComm2 (M.modify f₁) (M.modify f₂) σ := by
  show Res.ok () (f₁ (lnorm σ)) = Res.ok () (lnorm (f₂ σ))
  rw [h]

theorem lcomm2_ite {c : Prop} [Decidable c] {t₁ t₂ e₁ e₂ : M F α} {σ : St F}
    (ht : c → LComm2 t₁ t₂ σ) (he : ¬ c → LComm2 e₁ e₂ σ) :
    LComm2 (if c then t₁ else e₁) (if c then t₂ else e₂) σ := by
  by_cases h : c
  · rw [if_pos h, if_pos h]; exact ht h
  · rw [if_neg h, if_neg h]; exact he h

theorem lcomm2_pure (a : α) {σ : St F} : LComm2 (pure a : M F α) (pure a) σ := rfl
theorem lcomm2_fail (e : Err) {σ : St F} : LComm2 (M.fail e : M F α) (M.fail e) σ := rfl
theorem lcomm2_throw (e : TErr) {σ : St F} : LComm2 (M.throw e : M F α) (M.throw e) σ := rfl
theorem lcomm2_rpanic (s : String) {σ : St F} : LComm2 (M.rpanic s : M F α) (M.rpanic s) σ := rfl

end rules

/-! ### `lnorm` and the projections (all by `rfl`, usable by `dsimp`) -/

@[simp] theorem lnorm_lines (σ : St F) : (lnorm σ).lines = σ.lines.canon := rfl
@[simp] theorem lnorm_imm (σ : St F) : (lnorm σ).imm = σ.imm := rfl
@[simp] theorem lnorm_loc (σ : St F) : (lnorm σ).loc = σ.loc := rfl
@[simp] theorem lnorm_bp (σ : St F) : (lnorm σ).bp = σ.bp := rfl
@[simp] theorem lnorm_stack (σ : St F) : (lnorm σ).stack = σ.stack := rfl
@[simp] theorem lnorm_loops (σ : St F) : (lnorm σ).loops = σ.loops := rfl
@[simp] theorem lnorm_data (σ : St F) : (lnorm σ).data = σ.data := rfl
@[simp] theorem lnorm_fns (σ : St F) : (lnorm σ).fns = σ.fns := rfl
@[simp] theorem lnorm_nesting (σ : St F) : (lnorm σ).nesting = σ.nesting := rfl
@[simp] theorem lnorm_input (σ : St F) : (lnorm σ).input = σ.input := rfl
@[simp] theorem lnorm_state (σ : St F) : (lnorm σ).state = σ.state := rfl
@[simp] theorem lnorm_rng (σ : St F) : (lnorm σ).rng = σ.rng := rfl
@[simp] theorem lnorm_vars (σ : St F) : (lnorm σ).vars = σ.vars := rfl
@[simp] theorem lnorm_arrays (σ : St F) : (lnorm σ).arrays = σ.arrays := rfl
@[simp] theorem lnorm_accesses (σ : St F) : (lnorm σ).accesses = σ.accesses := rfl
@[simp] theorem lnorm_reads (σ : St F) : (lnorm σ).reads = σ.reads := rfl
@[simp] theorem lnorm_warnings (σ : St F) : (lnorm σ).warnings = σ.warnings := rfl
@[simp] theorem lnorm_tracing (σ : St F) : (lnorm σ).tracing = σ.tracing := rfl
@[simp] theorem lnorm_out (σ : St F) : (lnorm σ).out = σ.out := rfl
@[simp] theorem lnorm_getVar [NumOps F] (σ : St F) (n : Str) : getVar (lnorm σ) n = getVar σ n := rfl
@[simp] theorem lnorm_populate (σ : St F) (e : TErr) : (lnorm σ).populate e = σ.populate e := rfl
@[simp] theorem lnorm_prevLoc (σ : St F) : (lnorm σ).prevLoc = σ.prevLoc := rfl

/-! ### the tactic -/

open Lean Elab Tactic Meta in
/-- apply a local hypothesis whose conclusion is `LComm …` -/
elab "lcomm_hyp" : tactic => withMainContext do
  let g ← getMainGoal
  for d in (← getLCtx) do
    if d.isImplementationDetail then continue
    let ty ← instantiateMVars d.type
    if ty.getForallBody.getAppFn.isConstOf ``Abasic.Hoare.LComm then
      let saved ← saveState
      try
        let gs ← withReducible (g.apply d.toExpr)
        replaceMainGoal gs
        return
      catch _ => saved.restore
  throwError "lcomm_hyp: no applicable hypothesis"

syntax "lcomm_prim" : tactic
syntax "lcomm_leaf" : tactic

macro_rules | `(tactic| lcomm_leaf) => `(tactic| rfl)

macro "lcomm_norm" : tactic => `(tactic| first
  | dsimp only [lnorm_lines, lnorm_imm, lnorm_loc, lnorm_bp, lnorm_stack,
      lnorm_loops, lnorm_data, lnorm_fns, lnorm_nesting, lnorm_input, lnorm_state, lnorm_rng, lnorm_vars, lnorm_arrays,
      lnorm_accesses, lnorm_reads, lnorm_warnings, lnorm_tracing, lnorm_out, lnorm_getVar, lnorm_populate, lnorm_prevLoc]
  | simp only [Lines.canon_get, Lines.canon_has, Lines.canon_after, Lines.canon_first, Lines.canon_dataChunks,
      Lines.canon_list])

macro "lcomm_step" : tactic => `(tactic| first
  | assumption
  | lcomm_hyp
  | respects_intro
  | with_reducible exact lcomm_pure _
  | with_reducible exact lcomm_pureM _
  | with_reducible exact lcomm_fail _
  | with_reducible exact lcomm_throw _
  | with_reducible exact lcomm_rpanic _
  | with_reducible exact lcomm_ofExcept _
  | with_reducible exact lcomm_liftE _
  | with_reducible exact lcomm2_pure _
  | with_reducible exact lcomm2_fail _
  | with_reducible exact lcomm2_throw _
  | with_reducible exact lcomm2_rpanic _
  | lcomm_prim
  | (with_reducible apply lcomm_get_bind)
  | (with_reducible apply lcomm2_get_bind)
  | with_reducible apply lcomm_bind
  | with_reducible apply lcomm_attempt
  | with_reducible apply lcomm_modify
  | with_reducible apply lcomm2_set
  | with_reducible apply lcomm2_modify
  | with_reducible apply lcomm2_bind
  | lcomm_norm
  | apply lcomm2_ite
  | split
  | with_reducible apply lcomm2_of_comm
  | lcomm_leaf)

macro "lcomm_tac" : tactic => `(tactic| repeat' lcomm_step)

end Abasic.Hoare
