import Abasic.Proofs.Stmt3TIf
/-
  C03 / C08, route (B) of discharging `BaseTurns` — Proofs/Stmt3Ctl.lean RE-RUN for programs
  with INPUT statements: the text of that file over the relations of
  Proofs/Stmt3TRel.lean (`ProgT`, `Holds`, `Mem3`, `Outcome3`, … in namespace
  `Abasic.Stmt3T`, which shadow the originals of `Abasic.Prog3L` / `Abasic.Stmt3L`).
  Lemmas of the original that do not mention the program are not repeated; they
  are used from `Abasic.Stmt3L`.  Differences to the original: `Mem3` has the
  field `input` and its `out` ends in `p.base`.  The original header follows.

  C03, third layer — the statement evaluator on the statements of Ref/Stmt3.lean.

  Part 4: GOSUB, RETURN, DATA, RESTORE, NEXT, FOR.
-/
set_option linter.unusedSectionVars false

namespace Abasic.Stmt3T
open Abasic Abasic.Ref Abasic.ExprL Abasic.ExprL2 Abasic.StmtL Abasic.ProgL Abasic.Prog3L Abasic.Stmt3L Abasic.Hoare M
open Abasic.Prog3I (HoldsI AddrRelI RetRelI LoopRelI DataRelI progChunksI preToksI line_splitI preToks_succI drop_tail_nilI drop_tail_consI line_memI mem_lineI after_lineI first_lineI holds_afterI holds_firstI renderSI_head lineToks_ofI line_nonemptyI preToksI_zero resume_ltI resume_geI)
open Abasic.Prog2L (Rel2)

variable {F : Type} [NumOps F]

section stmts
variable {p : ProgT F} {n j : Nat}

/-- the cursor behind a statement of `k` tokens that is not followed by ELSE: the return address -/
theorem pos_addr {σ : St F} {s : RStmt3 F} {pre rest : List (Token F)} {after eol : Nat}
    (hP : Pos p σ n j s pre rest after eol) (hE : EndFor3 s rest) (hc : s.closes = false) (k : Nat)
    (hk : (renderS3 s).length = k) :
    AddrRel3 p n (j + 1) { line := σ.loc.line, idx := σ.loc.idx + k } := by
  have := hP.addr (hE.lineEnd3 hc)
  rw [hP.locline, hP.cur.2, ← hk, ← hP.hafter]
  exact this

/-! ### GOSUB / RETURN -/

theorem gosub_ok (m : Nat) : StmtOK p n j (.gosubS m) := by
  intro fuel σ r pre rest after eol hS hP hE _ hcov _ _ _
  have hAt0 : At σ pre (.kw .Gosub :: .num (NumOps.ofNat m) :: rest) := by
    simpa only [renderS3, List.cons_append, List.nil_append] using hP.cur
  obtain ⟨k1, h1⟩ := next_ex hAt0
  have hAt1 := at_mv1 hAt0 k1
  obtain ⟨k2, h2⟩ := next_ex hAt1
  have hround : NumOps.toU64 (NumOps.ofNat m : F) = m := hcov
  have hrun : stmtBody (evalN fuel) σ = gosubLine m (mv (mv σ 1 k1) 1 k2) := by
    unfold stmtBody
    rw [bind_ok (traceHere_off hS.env.tracing)]
    unfold dispatch
    rw [bind_ok h1]
    show gosubStatement _ = _
    unfold gosubStatement
    rw [bind_ok h2]
    simp only [hround]
  rw [hrun]
  have hst : Start σ (mv (mv σ 1 k1) 1 k2) := ⟨⟨rfl, rfl, rfl, rfl, rfl⟩, rfl, rfl, rfl⟩
  have hlen : r.rets.length = σ.stack.length := hS.mem.stack.length
  have haddr : AddrRel3 p n (j + 1) (mv (mv σ 1 k1) 1 k2).loc := by
    have := pos_addr hP hE rfl 2 (by simp only [renderS3, List.length_cons, List.length_nil])
    show AddrRel3 p n (j + 1) { line := σ.loc.line, idx := σ.loc.idx + 1 + 1 }
    exact this
  by_cases hcap : σ.stack.length = Extracted.stackLimit
  · have hex : (RStmt3.gosubS m : RStmt3 F).exec (allDataI p.q) n j r = (r, .error .oomStack) := by
      simp only [RStmt3.exec, hlen, hcap, beq_self_eq_true, ↓reduceIte]
    rw [hex]
    refine ⟨by simp, errFrom_at hst ?_⟩
    simp only [gosubLine, bind, M.bindM, M.get, mv_stack, hcap, beq_self_eq_true, ↓reduceIte, M.fail]
  · have hb : (σ.stack.length == Extracted.stackLimit) = false := by simpa using hcap
    have hex : (RStmt3.gosubS m : RStmt3 F).exec (allDataI p.q) n j r =
        ({ r with rets := (n, j + 1) :: r.rets }, .jump m) := by
      simp only [RStmt3.exec, hlen, hb, Bool.false_eq_true, ↓reduceIte]
    rw [hex]
    have hg : gosubLine m (mv (mv σ 1 k1) 1 k2) =
        (gotoLine m >>= fun _ => M.modify fun s : St F =>
          { s with stack := { ret := (mv (mv σ 1 k1) 1 k2).loc, vars := [] } :: s.stack })
          (mv (mv σ 1 k1) 1 k2) := by
      simp only [gosubLine, bind, M.bindM, M.get, mv_stack, hb, Bool.false_eq_true, ↓reduceIte]
    rw [hg]
    refine ⟨fun hh => ?_, fun hh => ?_⟩
    · have hh' : (mv (mv σ 1 k1) 1 k2).lines.has m = true := hh
      have hgo : gotoLine m (mv (mv σ 1 k1) 1 k2) =
          .ok () { mv (mv σ 1 k1) 1 k2 with bp := none, loc := { line := some m, idx := 0 } } := by
        rw [gotoLine_eq, hh']; rfl
      rw [bind_ok hgo]
      refine ⟨_, rfl, ⟨rfl, rfl, rfl, rfl, rfl⟩, ?_, rfl⟩
      have hM := hS.mem
      exact { vars := hM.vars, arrays := hM.arrays, rng := hM.rng, loops := hM.loops
              stack := Rel2.cons ⟨rfl, haddr⟩ hM.stack
              data := hM.data, out := hM.out, fns := ⟨hM.fns.undef, hM.fns.defd⟩, fnLines := hM.fnLines, input := hM.input }
    · have hh' : (mv (mv σ 1 k1) 1 k2).lines.has m = false := hh
      have hgo : gotoLine m (mv (mv σ 1 k1) 1 k2) =
          .err { err := .undefinedStatement } { mv (mv σ 1 k1) 1 k2 with bp := none } := by
        rw [gotoLine_eq, hh']; rfl
      rw [bind_err hgo]
      exact errFrom_at (τ := { mv (mv σ 1 k1) 1 k2 with bp := none }) ⟨⟨rfl, rfl, rfl, rfl, rfl⟩, rfl, rfl, rfl⟩ rfl

theorem return_ok : StmtOK p n j (.returnS) := by
  intro fuel σ r pre rest after eol hS hP _ _ _ _ _ _
  have hAt0 : At σ pre (.kw .Return :: rest) := by
    simpa only [renderS3, List.cons_append, List.nil_append] using hP.cur
  obtain ⟨k1, h1⟩ := next_ex hAt0
  have hrun : stmtBody (evalN fuel) σ = returnFromGosub (mv σ 1 k1) := by
    unfold stmtBody
    rw [bind_ok (traceHere_off hS.env.tracing)]
    unfold dispatch
    rw [bind_ok h1]
  rw [hrun]
  have hst := hS.mem.stack
  cases hr : r.rets with
  | nil =>
    rw [hr] at hst
    cases hst' : σ.stack with
    | cons f fs => rw [hst'] at hst; cases hst
    | nil =>
      have hex : (RStmt3.returnS : RStmt3 F).exec (allDataI p.q) n j r = (r, .error .returnWithoutGosub) := by
        simp only [RStmt3.exec, hr]
      rw [hex]
      refine ⟨by simp, errFrom_at (τ := { mv σ 1 k1 with bp := none }) ⟨⟨rfl, rfl, rfl, rfl, rfl⟩, rfl, rfl, rfl⟩ ?_⟩
      simp only [returnFromGosub, bind, M.bindM, M.modify, M.get, mv_stack, hst', M.fail]
  | cons a as =>
    obtain ⟨ln, k⟩ := a
    rw [hr] at hst
    cases hst' : σ.stack with
    | nil => rw [hst'] at hst; cases hst
    | cons f fs =>
      rw [hst'] at hst
      cases hst with
      | cons hd tl =>
        have hex : (RStmt3.returnS : RStmt3 F).exec (allDataI p.q) n j r = ({ r with rets := as }, .resume ln k) := by
          simp only [RStmt3.exec, hr]
        rw [hex]
        have hM := hS.mem
        refine ⟨{ mv σ 1 k1 with bp := none, stack := fs, loc := f.ret }, ?_, ⟨rfl, rfl, rfl, rfl, rfl⟩, ?_, hd.2⟩
        · simp only [returnFromGosub, bind, M.bindM, M.modify, M.get, mv_stack, hst', M.set]
        · exact { vars := hM.vars, arrays := hM.arrays, rng := hM.rng, loops := hM.loops, stack := tl
                  data := hM.data, out := hM.out, fns := ⟨hM.fns.undef, hM.fns.defd⟩, fnLines := hM.fnLines, input := hM.input }

/-! ### DATA, RESTORE -/

theorem data_ok (items : List (DataElement F)) : StmtOK p n j (.dataS items) := by
  intro fuel σ r pre rest after eol hS hP _ _ _ _ _ _
  have hAt0 : At σ pre (.data items :: rest) := by
    simpa only [renderS3, List.cons_append, List.nil_append] using hP.cur
  obtain ⟨k1, h1⟩ := next_ex hAt0
  have hrun : stmtBody (evalN fuel) σ = .ok () (mv σ 1 k1) := by
    unfold stmtBody
    rw [bind_ok (traceHere_off hS.env.tracing)]
    unfold dispatch
    rw [bind_ok h1]
    rfl
  rw [hrun]
  show Outcome3 p σ n _ _ _ r .next
  refine ⟨_, rfl, ⟨rfl, rfl, rfl, rfl, rfl⟩, hS.mem.congr rfl rfl rfl rfl rfl rfl rfl rfl rfl, hP.locline, Or.inl ?_⟩
  show σ.loc.idx + 1 = after
  rw [hP.hafter, hP.cur.2]
  simp only [renderS3, List.length_cons, List.length_nil]

theorem restore_ok : StmtOK p n j (.restoreS) := by
  intro fuel σ r pre rest after eol hS hP _ _ _ _ _ _
  have hAt0 : At σ pre (.kw .Restore :: rest) := by
    simpa only [renderS3, List.cons_append, List.nil_append] using hP.cur
  obtain ⟨k1, h1⟩ := next_ex hAt0
  have hrun : stmtBody (evalN fuel) σ = .ok () { mv σ 1 k1 with data := none } := by
    unfold stmtBody
    rw [bind_ok (traceHere_off hS.env.tracing)]
    unfold dispatch
    rw [bind_ok h1]
    rfl
  rw [hrun]
  show Outcome3 p σ n _ _ _ { r with data := 0 } .next
  have hM := hS.mem
  refine ⟨_, rfl, ⟨rfl, rfl, rfl, rfl, rfl⟩, ?_, hP.locline, Or.inl ?_⟩
  · exact { vars := hM.vars, arrays := hM.arrays, rng := hM.rng, loops := hM.loops, stack := hM.stack
            data := rfl, out := hM.out, fns := ⟨hM.fns.undef, hM.fns.defd⟩, fnLines := hM.fnLines, input := hM.input }
  · show σ.loc.idx + 1 = after
    rw [hP.hafter, hP.cur.2]
    simp only [renderS3, List.length_cons, List.length_nil]

/-! ### NEXT -/

theorem next_ok (v : Str) : StmtOK p n j (.nextS v) := by
  intro fuel σ r pre rest after eol hS hP _ _ _ _ _ _
  have hAt0 : At σ pre (.kw .Next :: .symbol v :: rest) := by
    simpa only [renderS3, List.cons_append, List.nil_append] using hP.cur
  obtain ⟨k1, h1⟩ := next_ex hAt0
  have hAt1 := at_mv1 hAt0 k1
  obtain ⟨k2, h2⟩ := next_ex hAt1
  have hrun : stmtBody (evalN fuel) σ = endLoop v (mv (mv σ 1 k1) 1 k2) := by
    unfold stmtBody
    rw [bind_ok (traceHere_off hS.env.tracing)]
    unfold dispatch
    rw [bind_ok h1]
    show nextStatement _ = _
    unfold nextStatement
    rw [bind_ok h2]
  rw [hrun]
  have hst : Start σ (mv (mv σ 1 k1) 1 k2) := ⟨⟨rfl, rfl, rfl, rfl, rfl⟩, rfl, rfl, rfl⟩
  have hM := hS.mem
  have hgv : getVar (mv (mv σ 1 k1) 1 k2) v = envOf r.vars v := by
    show getVar σ v = _
    rw [getVar_eq_envOf, hM.vars]
  cases hv : envOf r.vars v with
  | str x =>
    have hex : (RStmt3.nextS v : RStmt3 F).exec (allDataI p.q) n j r = (r, .error .typeMismatch) := by
      simp only [RStmt3.exec, hv]
    rw [hex]
    rw [hv] at hgv
    refine ⟨by simp, errFrom_at hst ?_⟩
    simp only [endLoop, bind, M.bindM, M.get, hgv, M.fail]
  | num cur =>
    rw [hv] at hgv
    have hrel := removeLoop_rel (v := v) hM.loops
    cases hf : findLoop v r.loops with
    | none =>
      have hex : (RStmt3.nextS v : RStmt3 F).exec (allDataI p.q) n j r = (r, .error .nextWithoutFor) := by
        simp only [RStmt3.exec, hv, hf]
      rw [hex]
      cases hr : removeLoop v σ.loops with
      | some x => rw [hf, hr] at hrel; exact hrel.elim
      | none =>
        have hr' : removeLoop v (mv (mv σ 1 k1) 1 k2).loops = none := hr
        refine ⟨by simp, errFrom_at hst ?_⟩
        simp only [endLoop, bind, M.bindM, M.get, hgv, hr', M.fail]
    | some lr =>
      obtain ⟨l, lrest⟩ := lr
      cases hr : removeLoop v σ.loops with
      | none => rw [hf, hr] at hrel; exact hrel.elim
      | some ir =>
        obtain ⟨info, mrest⟩ := ir
        rw [hf, hr] at hrel
        obtain ⟨hli, hrest⟩ := hrel
        obtain ⟨hsym, hto, hstep, haddr⟩ := hli
        have hr' : removeLoop v (mv (mv σ 1 k1) 1 k2).loops = some (info, mrest) := hr
        have hm : (Value.num (NumOps.add cur info.stepV) : Value F).matchesName v = true := by
          simp only [Value.matchesName, envOf_num_name3 hS.inv.typed hv, Bool.not_false]
        cases hc : Props.C03.nextAgain cur info with
        | true =>
          have hex : (RStmt3.nextS v : RStmt3 F).exec (allDataI p.q) n j r =
              ({ r with vars := alSet v (.num (NumOps.add cur l.step)) r.vars, loops := l :: lrest },
                .resume l.line l.idx) := by
            have hc' := hc
            unfold Props.C03.nextAgain at hc'
            rw [hstep, hto] at hc'
            simp only [RStmt3.exec, hv, hf, hc', ↓reduceIte]
          rw [hex, Props.C03.next_uses_stored_again v _ cur info mrest hgv hr' hm hc]
          refine ⟨_, rfl, ⟨rfl, rfl, rfl, rfl, rfl⟩, ?_, haddr⟩
          exact { vars := by show alSet v _ σ.vars = _; rw [hM.vars, hstep]
                  arrays := hM.arrays, rng := hM.rng
                  loops := Rel2.cons ⟨hsym, hto, hstep, haddr⟩ hrest
                  stack := hM.stack, data := hM.data, out := hM.out
                  fns := ⟨hM.fns.undef, hM.fns.defd⟩, fnLines := hM.fnLines, input := hM.input }
        | false =>
          have hex : (RStmt3.nextS v : RStmt3 F).exec (allDataI p.q) n j r =
              ({ r with vars := alSet v (.num (NumOps.add cur l.step)) r.vars, loops := lrest }, .next) := by
            have hc' := hc
            unfold Props.C03.nextAgain at hc'
            rw [hstep, hto] at hc'
            simp only [RStmt3.exec, hv, hf, hc', Bool.false_eq_true, ↓reduceIte]
          rw [hex, Props.C03.next_uses_stored_done v _ cur info mrest hgv hr' hm hc]
          refine ⟨_, rfl, ⟨rfl, rfl, rfl, rfl, rfl⟩, ?_, hP.locline, Or.inl ?_⟩
          · exact { vars := by show alSet v _ σ.vars = _; rw [hM.vars, hstep]
                    arrays := hM.arrays, rng := hM.rng, loops := hrest
                    stack := hM.stack, data := hM.data, out := hM.out
                    fns := ⟨hM.fns.undef, hM.fns.defd⟩, fnLines := hM.fnLines, input := hM.input }
          · show σ.loc.idx + 1 + 1 = after
            rw [hP.hafter, hP.cur.2]
            simp only [renderS3, List.length_cons, List.length_nil]

/-! ### FOR -/

/-- `startLoop` with the cursor behind the FOR statement -/
theorem startLoop_outcome {σ τ : St F} {r : RState3 F} (hS : Sync p r τ) (hst : Start σ τ) {after eol : Nat}
    (hidx : τ.loc.idx = after) (hline : τ.loc.line = some n) (haddr : AddrRel3 p n (j + 1) τ.loc) (v : Str) (x y z : F) :
    Outcome3 p σ n after eol (startLoop v x y z τ) (forPush3 n j r v x y z).1 (forPush3 n j r v x y z).2 := by
  refine outcome_start ?_ hst
  have hM := hS.mem
  have hrel := afterRemove_rel v hM.loops
  have hlen : (keptLoops v r.loops).length = (Props.C16.afterRemove v τ.loops).length := hrel.length
  rw [Props.C16.startLoop_eq]
  by_cases hcap : (Props.C16.afterRemove v τ.loops).length = Extracted.stackLimit
  · have hex : forPush3 n j r v x y z = (r, .error .oomStack) := by
      simp only [forPush3, hlen, hcap, beq_self_eq_true, ↓reduceIte]
    rw [hex, if_pos hcap]
    exact ⟨by simp, errFrom_fail rfl rfl rfl rfl⟩
  · have hb : ((Props.C16.afterRemove v τ.loops).length == Extracted.stackLimit) = false := by simpa using hcap
    rw [if_neg hcap]
    cases hd : endsWithDollar v with
    | true =>
      have hex : forPush3 n j r v x y z = (r, .error .typeMismatch) := by
        simp only [forPush3, hlen, hb, hd, Bool.false_eq_true, ↓reduceIte]
      have hm : ((Value.num x : Value F).matchesName v = true) = False := by
        simp only [Value.matchesName, hd, Bool.not_true, Bool.false_eq_true]
      rw [hex]
      simp only [hm, ↓reduceIte]
      exact ⟨by simp, errFrom_fail rfl rfl rfl rfl⟩
    | false =>
      have hex : forPush3 n j r v x y z =
          ({ r with vars := alSet v (.num x) r.vars,
                    loops := { var := v, line := n, idx := j + 1, limit := y, step := z } :: keptLoops v r.loops },
           .next) := by
        simp only [forPush3, hlen, hb, hd, Bool.false_eq_true, ↓reduceIte]
      have hm : ((Value.num x : Value F).matchesName v = true) = True := by
        simp only [Value.matchesName, hd, Bool.not_false]
      rw [hex]
      simp only [hm, ↓reduceIte]
      refine ⟨_, rfl, ⟨rfl, rfl, rfl, rfl, rfl⟩, ?_, hline, Or.inl hidx⟩
      exact { vars := by show alSet v _ τ.vars = _; rw [hM.vars]
              arrays := hM.arrays, rng := hM.rng
              loops := Rel2.cons ⟨rfl, rfl, rfl, haddr⟩ hrel
              stack := hM.stack, data := hM.data, out := hM.out
              fns := ⟨hM.fns.undef, hM.fns.defd⟩, fnLines := hM.fnLines, input := hM.input }

/-- a numeric expression inside a statement: the continuation `K` runs on its value -/
theorem num3_run {α : Type} {σ : St F} {r : RState3 F} (hS : Sync p r σ) (e : Expr2 F) (fuel : Nat)
    (pre rest : List (Token F)) (hres : Resolved r.fns e) (hd : edepth r.fns e ≤ fuel)
    (hn : σ.nesting + edepth r.fns e ≤ Extracted.nestingLimit) (hE : Ends 6 rest)
    (hAt : At σ pre (render2 e ++ rest)) (K : F → M F α) :
    match numE3 r e with
    | .ok (x, r1) => ∃ τ, ((evalN fuel).expr >>= fun v =>
          match v with
          | .str _ => fail .typeMismatch
          | .num x => K x) σ = K x τ ∧ Sync p r1 τ ∧ Start σ τ ∧ At τ (pre ++ render2 e) rest ∧ r1.fns = r.fns
    | .error err => err ≠ .dataTypeMismatch ∧ ErrFrom σ err (((evalN fuel).expr >>= fun v =>
          match v with
          | .str _ => fail .typeMismatch
          | .num x => K x) σ) := by
  have hX := expr3_run hS e fuel pre rest hres hd hn hE hAt
  cases hev : fold2 callFuel r.env e with
  | error err =>
    rw [hev] at hX
    have : numE3 r e = .error err := by simp only [numE3, evalE, hev]
    rw [this]
    exact ⟨hX.1, hX.2.bind⟩
  | ok q =>
    obtain ⟨v, env'⟩ := q
    rw [hev] at hX
    obtain ⟨rd, hσ1, hS1⟩ := hX
    cases v with
    | str s =>
      have : numE3 r e = .error .typeMismatch := by simp only [numE3, evalE, hev]
      rw [this]
      refine ⟨by simp, errFrom_at (start_upd σ (render2 e).length rd env') ?_⟩
      rw [bind_ok hσ1]
      rfl
    | num x =>
      have : numE3 r e = .ok (x, r.put env') := by simp only [numE3, evalE, hev]
      rw [this]
      exact ⟨_, by rw [bind_ok hσ1], hS1, start_upd _ _ _ _, at_upd hAt rd env', rfl⟩

theorem for_ok (v : Str) (a b : Expr2 F) (c : Option (Expr2 F)) : StmtOK p n j (.forS v a b c) := by
  intro fuel σ r pre rest after eol hS hP hE _ _ hres hd hn
  have hLE : LineEnd3 rest := hE.lineEnd3 rfl
  -- the part common to both forms
  have hcommon : ∀ (post : List (Token F)),
      At σ pre (.kw .For :: .symbol v :: .kw .Equals :: (render2 a ++ .kw .To :: (render2 b ++ post))) →
      Ends 6 post → Resolved r.fns a → Resolved r.fns b →
      edepth r.fns a ≤ fuel → edepth r.fns b ≤ fuel →
      σ.nesting + edepth r.fns a ≤ Extracted.nestingLimit → σ.nesting + edepth r.fns b ≤ Extracted.nestingLimit →
      match numE3 r a with
      | .error err => err ≠ .dataTypeMismatch ∧ ErrFrom σ err (stmtBody (evalN fuel) σ)
      | .ok (x, r1) =>
        match numE3 r1 b with
        | .error err => err ≠ .dataTypeMismatch ∧ ErrFrom σ err (stmtBody (evalN fuel) σ)
        | .ok (y, r2) => ∃ τ, stmtBody (evalN fuel) σ = forTail (evalN fuel) v x y τ ∧ Sync p r2 τ ∧ Start σ τ ∧
            At τ (pre ++ [.kw .For] ++ [.symbol v] ++ [.kw .Equals] ++ render2 a ++ [.kw .To] ++ render2 b) post ∧
            r2.fns = r.fns := by
    intro post hAt0 hpost hra hrb hda hdb hna hnb
    obtain ⟨k1, h1⟩ := next_ex hAt0
    have hAt1 := at_mv1 hAt0 k1
    obtain ⟨k2, h2⟩ := next_ex hAt1
    have hAt2 := at_mv1 hAt1 k2
    obtain ⟨k3, h3⟩ := expect_ex (k := .Equals) hAt2 rfl
    have hAt3 := at_mv1 hAt2 k3
    have hst3 : Start σ (mv (mv (mv σ 1 k1) 1 k2) 1 k3) := ⟨⟨rfl, rfl, rfl, rfl, rfl⟩, rfl, rfl, rfl⟩
    have hrun : stmtBody (evalN fuel) σ =
        ((evalN fuel).expr >>= fun va =>
          match va with
          | .str _ => fail .typeMismatch
          | .num x => do
            expect .To
            match ← (evalN fuel).expr with
            | .str _ => fail .typeMismatch
            | .num y => forTail (evalN fuel) v x y) (mv (mv (mv σ 1 k1) 1 k2) 1 k3) := by
      unfold stmtBody
      rw [bind_ok (traceHere_off hS.env.tracing)]
      unfold dispatch
      rw [bind_ok h1]
      show forStatement (evalN fuel) _ = _
      unfold forStatement
      rw [bind_ok h2]
      show (expect .Equals >>= fun _ => _) _ = _
      rw [bind_ok h3]
      rfl
    rw [hrun]
    have hA := num3_run (((hS.mv 1 k1).mv 1 k2).mv 1 k3) a fuel _ _ hra hda hna (Stmt2L.ends_to 6 _) hAt3
      (fun x => do
        expect .To
        match ← (evalN fuel).expr with
        | .str _ => fail .typeMismatch
        | .num y => forTail (evalN fuel) v x y)
    cases hna' : numE3 r a with
    | error err =>
      rw [hna'] at hA
      exact ⟨hA.1, hA.2.start hst3⟩
    | ok q =>
      obtain ⟨x, r1⟩ := q
      rw [hna'] at hA
      obtain ⟨τ1, hrun1, hS1, hst1, hAtτ1, hf1⟩ := hA
      rw [hrun1]
      obtain ⟨k4, h4⟩ := expect_ex (k := .To) hAtτ1 rfl
      have hAt4 := at_mv1 hAtτ1 k4
      show match numE3 r1 b with | .error err => _ | .ok (y, r2) => _
      have hB := num3_run (hS1.mv 1 k4) b fuel _ _ (by rw [hf1]; exact hrb) (by rw [hf1]; exact hdb)
        (by rw [hf1]; show τ1.nesting + _ ≤ _; rw [hst1.kept.nesting]; exact hnb) hpost hAt4
        (fun y => forTail (evalN fuel) v x y)
      have hst4 : Start σ (mv τ1 1 k4) := hst3.trans (hst1.trans (start_mv _ _ _))
      cases hnb' : numE3 r1 b with
      | error err =>
        rw [hnb'] at hB
        refine ⟨hB.1, ?_⟩
        show ErrFrom σ err ((expect .To >>= fun _ => _) τ1)
        rw [bind_ok h4]
        exact hB.2.start hst4
      | ok q' =>
        obtain ⟨y, r2⟩ := q'
        rw [hnb'] at hB
        obtain ⟨τ2, hrun2, hS2, hst2, hAtτ2, hf2⟩ := hB
        refine ⟨τ2, ?_, hS2, hst4.trans hst2, hAtτ2, hf2.trans hf1⟩
        show (expect .To >>= fun _ => _) τ1 = _
        rw [bind_ok h4]
        exact hrun2
  have hlineσ := hP.locline
  cases c with
  | none =>
    obtain ⟨hra, hrb⟩ : Resolved r.fns a ∧ Resolved r.fns b := hres
    simp only [sdepth3] at hd hn
    have hAt0 : At σ pre (.kw .For :: .symbol v :: .kw .Equals ::
        (render2 a ++ .kw .To :: (render2 b ++ rest))) := by
      simpa only [renderS3, List.cons_append, List.append_assoc] using hP.cur
    have hH := hcommon rest hAt0 (hE.ends 6) hra hrb (by omega) (by omega) (by omega) (by omega)
    cases hna' : numE3 r a with
    | error err =>
      rw [hna'] at hH
      have hex : (RStmt3.forS v a b none).exec (allDataI p.q) n j r = (r, .error err) := by
        simp only [RStmt3.exec, hna']
      rw [hex]; exact hH
    | ok q =>
      obtain ⟨x, r1⟩ := q
      rw [hna'] at hH
      cases hnb' : numE3 r1 b with
      | error err =>
        simp only [hnb'] at hH
        have hex : (RStmt3.forS v a b none).exec (allDataI p.q) n j r = (r, .error err) := by
          simp only [RStmt3.exec, hna', hnb']
        rw [hex]; exact hH
      | ok q' =>
        obtain ⟨y, r2⟩ := q'
        simp only [hnb'] at hH
        obtain ⟨τ, hrun, hSτ, hst, hAtτ, _⟩ := hH
        have hex : (RStmt3.forS v a b none).exec (allDataI p.q) n j r = forPush3 n j r2 v x y NumOps.one := by
          simp only [RStmt3.exec, hna', hnb', stepE3]
        rw [hex, hrun]
        obtain ⟨k5, h5⟩ := accept_end_ex (k := .Step) hAtτ (Stmt2L.lineEnd_not hLE.lineEnd (by decide))
        have hft : forTail (evalN fuel) v x y τ = startLoop v x y NumOps.one (mv τ 0 k5) := by
          unfold forTail
          rw [bind_ok h5]
          rfl
        rw [hft]
        have hAt5 := at_mv0 hAtτ k5
        have hidx : (mv τ 0 k5).loc.idx = after := by
          rw [hP.hafter]
          exact (idx_after hP.cur hAt5 (by show lineToks τ = lineToks σ; exact lineToks_start hst hlineσ)).trans (by
            simp only [renderS3, List.length_cons, List.length_append])
        have hline5 : (mv τ 0 k5).loc.line = some n := by show τ.loc.line = _; rw [hst.line]; exact hlineσ
        refine startLoop_outcome (hSτ.mv 0 k5) (hst.trans (start_mv _ _ _)) hidx hline5 ?_ v x y NumOps.one
        have := hP.addr hLE
        rw [← hidx] at this
        rw [show (mv τ 0 k5).loc = { line := some n, idx := (mv τ 0 k5).loc.idx } from by
          rw [← hline5]]
        exact this
  | some c =>
    obtain ⟨hra, hrb, hrc⟩ : Resolved r.fns a ∧ Resolved r.fns b ∧ Resolved r.fns c := hres
    simp only [sdepth3] at hd hn
    have hAt0 : At σ pre (.kw .For :: .symbol v :: .kw .Equals ::
        (render2 a ++ .kw .To :: (render2 b ++ (.kw .Step :: (render2 c ++ rest))))) := by
      simpa only [renderS3, List.cons_append, List.append_assoc] using hP.cur
    have hH := hcommon _ hAt0 (Stmt2L.ends_step 6 _) hra hrb (by omega) (by omega) (by omega) (by omega)
    cases hna' : numE3 r a with
    | error err =>
      rw [hna'] at hH
      have hex : (RStmt3.forS v a b (some c)).exec (allDataI p.q) n j r = (r, .error err) := by
        simp only [RStmt3.exec, hna']
      rw [hex]; exact hH
    | ok q =>
      obtain ⟨x, r1⟩ := q
      rw [hna'] at hH
      cases hnb' : numE3 r1 b with
      | error err =>
        simp only [hnb'] at hH
        have hex : (RStmt3.forS v a b (some c)).exec (allDataI p.q) n j r = (r, .error err) := by
          simp only [RStmt3.exec, hna', hnb']
        rw [hex]; exact hH
      | ok q' =>
        obtain ⟨y, r2⟩ := q'
        simp only [hnb'] at hH
        obtain ⟨τ, hrun, hSτ, hst, hAtτ, hf2⟩ := hH
        rw [hrun]
        obtain ⟨k5, h5⟩ := accept_true_ex (k := .Step) hAtτ rfl
        have hAt5 := at_mv1 hAtτ k5
        have hft : forTail (evalN fuel) v x y τ =
            ((evalN fuel).expr >>= fun vc =>
              match vc with
              | .str _ => fail .typeMismatch
              | .num z => startLoop v x y z) (mv τ 1 k5) := by
          unfold forTail
          rw [bind_ok h5]
          rfl
        rw [hft]
        have hst5 : Start σ (mv τ 1 k5) := hst.trans (start_mv _ _ _)
        have hC := num3_run (hSτ.mv 1 k5) c fuel _ _ (by rw [hf2]; exact hrc) (by rw [hf2]; omega)
          (by rw [hf2]; show τ.nesting + _ ≤ _; rw [hst.kept.nesting]; omega) (hE.ends 6) hAt5
          (fun z => startLoop v x y z)
        cases hnc' : numE3 r2 c with
        | error err =>
          rw [hnc'] at hC
          have hex : (RStmt3.forS v a b (some c)).exec (allDataI p.q) n j r = (r, .error err) := by
            simp only [RStmt3.exec, hna', hnb', stepE3, hnc']
          rw [hex]
          exact ⟨hC.1, hC.2.start hst5⟩
        | ok q'' =>
          obtain ⟨z, r3⟩ := q''
          rw [hnc'] at hC
          obtain ⟨τ3, hrun3, hS3, hst3, hAtτ3, _⟩ := hC
          have hex : (RStmt3.forS v a b (some c)).exec (allDataI p.q) n j r = forPush3 n j r3 v x y z := by
            simp only [RStmt3.exec, hna', hnb', stepE3, hnc']
          rw [hex, hrun3]
          have hstA : Start σ τ3 := hst5.trans hst3
          have hidx : τ3.loc.idx = after := by
            rw [hP.hafter]
            exact (idx_after hP.cur hAtτ3 (lineToks_start hstA hlineσ)).trans (by
              simp only [renderS3, List.length_cons, List.length_append])
          have hline3 : τ3.loc.line = some n := by rw [hstA.line]; exact hlineσ
          refine startLoop_outcome hS3 hstA hidx hline3 ?_ v x y z
          have := hP.addr hLE
          rw [← hidx] at this
          rw [show τ3.loc = { line := some n, idx := τ3.loc.idx } from by rw [← hline3]]
          exact this

end stmts

end Abasic.Stmt3T
