import Abasic.Proofs.WF
/-
  `Good` lifted from the primitives (Proofs/WF.lean) through every function of
  Expr.lean and Stmt.lean, and the knot `evalN`.

  Expression-level functions are `Good ER`, statements `Good SR`.  Three proofs look
  at states: `userFunctionCall` (the function exists when it is pushed, the stack is
  not empty when it is popped, the cursor is back where it was), `inputStatement`
  (the INPUT token is still before the cursor when the statement rewinds) and
  `dispatch` (which establishes that for `inputStatement`).
-/
set_option linter.unusedSectionVars false

namespace Abasic.WF
open Abasic M

variable {F : Type}

/-! ### more rules -/

section
variable {R : St F → St F → Prop} {α β : Type}

/-- reading the state without relating it to anything -/
theorem Good.get_bind0 {Q : β → Prop} {f : St F → M F β} (hf : ∀ s0, Good R Q (f s0)) :
    Good R Q (M.get >>= f) :=
  fun s hs => hf s s hs

/-- a state transformer that touches nothing the invariant or the frames mention -/
def Inert (f : St F → St F) : Prop :=
  ∀ s, (f s).lines = s.lines ∧ (f s).loc = s.loc ∧ (f s).bp = s.bp ∧ (f s).stack = s.stack ∧
    (f s).loops = s.loops ∧ (f s).fns = s.fns ∧ (f s).data = s.data ∧ (f s).arrays = s.arrays ∧
    (f s).rng = s.rng ∧ (f s).nesting = s.nesting ∧ (f s).imm = s.imm

theorem good_modify_inert {f : St F → St F} (h : Inert f) : Good ER T (M.modify f) := by
  intro s hs
  obtain ⟨h1, h2, h3, h4, h5, h6, h7, h8, h9, h10, h11⟩ := h s
  exact ⟨hs.same h1 h2 h3 h4 h5 h6 h7 h8 h9 h10, er_same h10 h4 h6 h1 h11 h2, trivial⟩

theorem wf_inert {f : St F → St F} (h : Inert f) {s : St F} (hs : WFσ s) : WFσ (f s) := by
  obtain ⟨h1, h2, h3, h4, h5, h6, h7, h8, h9, h10, h11⟩ := h s
  exact hs.same h1 h2 h3 h4 h5 h6 h7 h8 h9 h10

end

macro "inert" : tactic => `(tactic| exact fun _ => ⟨rfl, rfl, rfl, rfl, rfl, rfl, rfl, rfl, rfl, rfl, rfl⟩)

/-! ### the tactic -/

syntax "good_prim" : tactic

/-- try a lemma stated for `ER` at both frames -/
macro "good_er " l:term : tactic => `(tactic| with_reducible first | exact $l | exact Good.sr $l)

macro_rules | `(tactic| good_prim) => `(tactic| first
  | with_reducible assumption
  | with_reducible exact Good.sr (by assumption)
  | with_reducible exact Good.triv (by assumption)
  | with_reducible exact Good.sr (Good.triv (by assumption))
  | with_reducible exact Good.pure trivial
  | ((with_reducible apply Good.fail) <;> rfl)
  | good_er good_peek
  | good_er good_next
  | good_er good_hasNext
  | good_er good_nextUnwrapped
  | good_er good_expect _
  | good_er good_accept _
  | good_er good_peekIsKw _
  | good_er good_tryNext _
  | good_er good_lineBudget
  | good_er good_tokens
  | good_er good_emit _
  | good_er good_setVar _ _
  | good_er good_nextDataElement
  | good_er good_ensureArray _ _
  | good_er good_arrayGet _ _
  | good_er good_arraySet _ _ _
  | good_er good_arrayCreate _ _
  | good_er good_rnd _
  | with_reducible exact good_discardRemaining
  | with_reducible exact good_setImmediate _
  | with_reducible exact good_continueFromBreakpoint
  | with_reducible exact good_startLoop _ _ _ _
  | with_reducible exact good_endLoop _
  | with_reducible exact good_gotoLine _
  | with_reducible exact good_gosubLine _
  | with_reducible exact good_returnFromGosub
  | with_reducible exact good_defineFunction _ _
  | with_reducible exact good_nextLine)

macro "good_step" : tactic => `(tactic| first
  | good_prim
  | (with_reducible refine Good.bind (Q := T) ?_ (fun _ _ => ?_); good_prim)
  | (with_reducible refine Good.get_bind0 fun _ => ?_)
  | split
  | dsimp only)

macro "good_auto" : tactic => `(tactic| repeat' good_step)

/-! ### errors of the pure helpers -/

section
variable [NumOps F]

theorem unop_err_plain (o : UnOp) (v : Value F) (e : Err) (h : o.eval v = .error e) : plain e = true := by
  cases o <;> cases v <;> simp [UnOp.eval] at h <;> (subst h; rfl)

theorem binop_err_plain (o : BinOp) (l r : Value F) (e : Err) (h : o.eval l r = .error e) : plain e = true := by
  cases o <;> cases l <;> cases r <;> simp only [BinOp.eval] at h <;>
    first
    | (cases h; done)
    | (simp only [Except.error.injEq] at h; subst h; rfl)
    | (split at h <;> first | (cases h; done) | (simp only [Except.error.injEq] at h; subst h; rfl))

theorem coerce_err_plain (name : Str) (d : DataElement F) (e : Err)
    (h : Value.coerceFromData name d = .error e) : plain e = true := by
  unfold Value.coerceFromData at h
  split at h <;> cases d <;> simp only [Except.error.injEq] at h <;> first | (cases h; done) | (subst h; rfl)

end

/-! ### Expr.lean -/

section
variable [NumOps F]

theorem good_warn (msg : Str) : Good ER T (warn msg : M F Unit) := by
  unfold warn
  good_auto

macro_rules | `(tactic| good_prim) => `(tactic| good_er good_warn _)

theorem good_warnUndeclaredArray (name : Str) : Good ER T (warnUndeclaredArray name : M F Unit) := by
  unfold warnUndeclaredArray
  good_auto

macro_rules | `(tactic| good_prim) => `(tactic| good_er good_warnUndeclaredArray _)

variable {ev : Evals F}

theorem good_arrayIndexLoop (hev : Good ER T ev.expr) (n : Nat) (acc : List Nat) :
    Good ER T (arrayIndexLoop ev n acc) := by
  induction n generalizing acc with
  | zero => exact Good.fail rfl
  | succ n ih =>
    unfold arrayIndexLoop
    good_auto
    exact ih _

macro_rules | `(tactic| good_prim) => `(tactic| good_er good_arrayIndexLoop (by assumption) _ _)

theorem good_arrayIndex (hev : Good ER T ev.expr) : Good ER T (arrayIndex ev) := by
  unfold arrayIndex
  good_auto

macro_rules | `(tactic| good_prim) => `(tactic| good_er good_arrayIndex (by assumption))

theorem good_numberFunctionArg (hev : Good ER T ev.expr) : Good ER T (numberFunctionArg ev) := by
  unfold numberFunctionArg
  good_auto

macro_rules | `(tactic| good_prim) => `(tactic| good_er good_numberFunctionArg (by assumption))

theorem good_bindArgs (hev : Good ER T ev.expr) (arity : Nat) (args : List Str) (i : Nat)
    (acc : List (Str × Value F)) : Good ER T (bindArgs ev arity args i acc) := by
  induction args generalizing i acc with
  | nil => exact Good.pure trivial
  | cons a rest ih =>
    unfold bindArgs
    good_auto
    all_goals exact ih _ _

/-- `populate_error_location` keeps an error ok -/
theorem populate_eok {s : St F} (hs : WFσ s) {e : TErr} (he : EOk s.lines e) : EOk s.lines (s.populate e) := by
  unfold St.populate
  split
  · exact he
  · split
    · refine ⟨he.plain, ?_⟩
      intro loc hl
      simp only [St.dataLoc] at hl
      split at hl
      · cases hl
      · rename_i it hd
        simp only [Option.map_eq_some_iff] at hl
        obtain ⟨c, hc, rfl⟩ := hl
        exact hs.data it hd c (List.mem_of_getElem? hc)
    · refine ⟨he.plain, ?_⟩
      intro loc hl
      simp only [Option.some.injEq] at hl
      subst hl
      intro n hn
      obtain ⟨ts, hg, hi⟩ := hs.loc n hn
      exact ⟨ts, hg, by show s.loc.idx - 1 ≤ ts.length; omega⟩

/-- `evaluate_user_defined_function_call`: the function pushed is the one looked up, the
    frame popped is the one pushed, and the cursor ends where it was. -/
theorem good_userFunctionCall (hev : Good ER T ev.expr) (name : Str) :
    Good ER T (userFunctionCall ev name) := by
  unfold userFunctionCall
  refine Good.get_bind' fun s0 hs0 => ?_
  split
  · exact GoodAt.pure hs0 (Fr.refl _) trivial
  · rename_i d hd
    refine GoodAt.bind (Q := T) ((good_expect _).gat hs0 (Fr.refl _)) fun _ s1 hw1 hr1 _ _ => ?_
    refine GoodAt.bind (Q := T) ((good_bindArgs hev _ _ _ _).gat hw1 hr1) fun bindings s2 hw2 hr2 _ _ => ?_
    refine GoodAt.bind (Q := T) ((good_expect _).gat hw2 hr2) fun _ s3 hw3 hr3 _ _ => ?_
    have hfn : alGet name s3.fns = some d := by rw [hr3.fns]; exact hd
    obtain ⟨k', hmem⟩ := alGet_mem hfn
    unfold GoodAt
    simp only [Bind.bind, M.bindM, pushFunctionCall, M.get]
    by_cases hcap : (s3.stack.length == Extracted.stackLimit) = true
    · rw [if_pos hcap]
      exact ⟨hw3, hr3, eok_fail rfl⟩
    · rw [if_neg hcap]
      simp only [hfn, M.set, M.attempt]
      have hw4 : WFσ { s3 with stack := { ret := s3.loc, vars := bindings } :: s3.stack,
                               loc := { line := some d.line, idx := d.idx } } := by
        refine { hw3 with stack := ?_, loc := hw3.fns _ hmem }
        intro f hf
        rcases List.mem_cons.mp hf with rfl | hf
        · exact hw3.loc
        · exact hw3.stack f hf
      have h5 := hev _ hw4
      cases hres : ev.expr { s3 with stack := { ret := s3.loc, vars := bindings } :: s3.stack,
                                     loc := { line := some d.line, idx := d.idx } } with
      | ok v s5 =>
        rw [hres] at h5
        obtain ⟨hw5, hr5, _⟩ := h5
        have hst : s5.stack = { ret := s3.loc, vars := bindings } :: s3.stack := hr5.stack
        simp only [popFunctionCall, Bind.bind, M.bindM, M.get, hst, M.set, Pure.pure, M.pureM]
        refine ⟨{ hw5 with stack := ?_, loc := ?_ }, ?_, trivial⟩
        · exact hw5.stack { ret := s3.loc, vars := bindings } (by rw [hst]; exact List.mem_cons_self ..)
        · intro f hf
          exact hw5.stack f (by rw [hst]; exact List.mem_cons_of_mem _ hf)
        · exact ⟨hr5.nesting.trans hr3.nesting, hr3.stack, hr5.fns.trans hr3.fns, hr5.lines.trans hr3.lines,
            hr5.imm.trans hr3.imm, hr3.line, hr3.idx⟩
      | err e s5 =>
        rw [hres] at h5
        obtain ⟨hw5, hr5, he5⟩ := h5
        have hst : s5.stack = { ret := s3.loc, vars := bindings } :: s3.stack := hr5.stack
        simp only [popFunctionCall, Bind.bind, M.bindM, M.get, hst, M.set, M.throw]
        refine ⟨{ hw5 with stack := ?_, loc := ?_ }, ?_, populate_eok hw5 he5⟩
        · exact hw5.stack { ret := s3.loc, vars := bindings } (by rw [hst]; exact List.mem_cons_self ..)
        · intro f hf
          exact hw5.stack f (by rw [hst]; exact List.mem_cons_of_mem _ hf)
        · exact ⟨hr5.nesting.trans hr3.nesting, hr3.stack, hr5.fns.trans hr3.fns, hr5.lines.trans hr3.lines,
            hr5.imm.trans hr3.imm, hr3.line, hr3.idx⟩

macro_rules | `(tactic| good_prim) => `(tactic| good_er good_userFunctionCall (by assumption) _)

theorem good_functionCall (hev : Good ER T ev.expr) (name : Str) : Good ER T (functionCall ev name) := by
  unfold functionCall
  good_auto

macro_rules | `(tactic| good_prim) => `(tactic| good_er good_functionCall (by assumption) _)

theorem good_term (hev : Good ER T ev.expr) : Good ER T (term ev) := by
  unfold term
  good_auto

macro_rules | `(tactic| good_prim) => `(tactic| good_er good_term (by assumption))

theorem good_parenExpr (hev : Good ER T ev.expr) : Good ER T (parenExpr ev) := by
  unfold parenExpr
  good_auto

macro_rules | `(tactic| good_prim) => `(tactic| good_er good_parenExpr (by assumption))

theorem good_unaryExpr (hev : Good ER T ev.expr) : Good ER T (unaryExpr ev) := by
  unfold unaryExpr
  refine Good.bind (Q := T) (good_tryNext _) fun op _ => ?_
  refine Good.bind (Q := T) (good_parenExpr hev) fun v _ => ?_
  split
  · exact Good.liftE (unop_err_plain _ _)
  · exact Good.pure trivial

theorem good_levelLoop {sub : M F (Value F)} (hsub : Good ER T sub) (ops : Token F → Option BinOp)
    (n : Nat) (v : Value F) : Good ER T (levelLoop sub ops n v) := by
  induction n generalizing v with
  | zero => exact Good.fail rfl
  | succ n ih =>
    unfold levelLoop
    refine Good.bind (Q := T) (good_tryNext _) fun op _ => ?_
    split
    · exact Good.pure trivial
    · refine Good.bind (Q := T) hsub fun r _ => ?_
      refine Good.bind (Q := T) (Good.liftE (binop_err_plain _ _ _)) fun v' _ => ?_
      exact ih _

theorem good_level {sub : M F (Value F)} (hsub : Good ER T sub) (ops : Token F → Option BinOp) :
    Good ER T (level sub ops) := by
  unfold level
  refine Good.bind hsub fun v _ => ?_
  refine Good.bind good_lineBudget fun b _ => ?_
  exact good_levelLoop hsub ops b v

theorem good_exprBody (hev : Good ER T ev.expr) : Good ER T (exprBody ev) := by
  unfold exprBody orExpr
  exact good_nested (good_level (good_level (good_level (good_level (good_level (good_level
    (good_unaryExpr hev) _) _) _) _) _) _)

end

end Abasic.WF
