import Abasic.Proofs.Stmt3Input
/-
  C03 / C08 — discharging `BaseTurns` (Props/C03Input.lean), route (B): the
  statement development of Proofs/Stmt3*.lean RE-RUN for programs whose lines
  hold statements of Ref/Stmt3.lean AND `INPUT x` (`RProgramI`).

  The statement lemmas of Stmt3Base / If / Ctl / Arr / Def look at the program
  only through the relations `Sync`, `Pos`, `Outcome3`, `Mem3` (return
  addresses, loop addresses, DATA chunks, the store `Holds`).  This file
  redefines those relations for a `ProgT`:

  * `ProgT`     — an `RProgramI` together with the output emitted before the
                  last reply was taken (`base`, newest first): `Mem3.out` is
                  `σ.out = outRecs r.out ++ p.base` — the PRINT records of the
                  reference state IN FRONT OF the older records;
  * `Mem3`      — as in Stmt3Rel.lean, plus `input : σ.input = none` (no
                  statement of Ref/Stmt3.lean touches a pending reply);
  * `Holds`, `AddrRel3`, `RetRel3`, `LoopRel3`, `DataRel3` — the relations of
                  Proofs/Stmt3Input.lean (`HoldsI`, `AddrRelI`, …) under the
                  names the statement lemmas use.

  The files Stmt3TLemmas … Stmt3TProg are the files Stmt3Lemmas … Stmt3Prog
  with these definitions in place of the originals (namespace `Abasic.Stmt3T`;
  the definitions that do not mention the program — `Kept`, `ErrFrom`, `Start`,
  `LineEnd3`, `EndFor3`, … — are the originals).  What is new in substance is
  here: an INPUT statement holds no DATA item (`dataToks_renderSI`), begins
  with a token that is neither `:` nor ELSE (`renderSI_head`), and a line with
  INPUT statements splits around a statement like any other (`line_splitI`).
-/
set_option linter.unusedSectionVars false

namespace Abasic.Stmt3T
open Abasic Abasic.Ref Abasic.ExprL Abasic.ExprL2 Abasic.StmtL Abasic.ProgL Abasic.Prog3L M
open Abasic.Prog3I (HoldsI AddrRelI RetRelI LoopRelI DataRelI progChunksI preToksI line_splitI preToks_succI
  drop_tail_nilI drop_tail_consI line_memI mem_lineI after_lineI first_lineI holds_afterI holds_firstI
  renderSI_head lineToks_ofI line_nonemptyI preToksI_zero resume_ltI resume_geI)
open Abasic.Prog2L (Rel2 dataToks isData dataToks_append dataToks_cons_nodata dataToks_nodata flatItems remItems
  flat_lineChunks flatItems_flatMap remItems_fresh next_spec)

variable {F : Type} [NumOps F]

/-- a program with INPUT statements, and the output records emitted before the
    last reply was taken (newest first) -/
structure ProgT (F : Type) where
  q : RProgramI F
  base : List Out

/-! ### the relations of Stmt3Store.lean / Stmt3Rel.lean -/

abbrev Holds (l : Lines F) (p : ProgT F) : Prop := HoldsI l p.q
abbrev AddrRel3 (p : ProgT F) (n j : Nat) (loc : Loc) : Prop := AddrRelI p.q n j loc
abbrev RetRel3 (p : ProgT F) (a : Nat × Nat) (f : Frame F) : Prop := RetRelI p.q a f
abbrev LoopRel3 (p : ProgT F) (l : RLoop F) (i : LoopInfo F) : Prop := LoopRelI p.q l i
abbrev progChunks3 (p : ProgT F) : List (Loc × List (DataElement F)) := progChunksI p.q
abbrev DataRel3 (p : ProgT F) (c : Nat) (d : Option (DataIter F)) : Prop := DataRelI p.q c d

theorem holds_has {l : Lines F} {p : ProgT F} (h : Holds l p) (n : Nat) : l.has n = p.q.hasLine n := by
  unfold Lines.has RProgramI.hasLine
  rw [h.get]
  cases p.q.line n <;> rfl

theorem holds_after {l : Lines F} {p : ProgT F} (h : Holds l p) (n : Nat) : l.after n = p.q.after n :=
  holds_afterI h n

structure Mem3 (p : ProgT F) (r : RState3 F) (σ : St F) : Prop where
  vars : σ.vars = r.vars
  arrays : σ.arrays = r.arrays
  rng : σ.rng = r.rng
  loops : Rel2 (LoopRel3 p) r.loops σ.loops
  stack : Rel2 (RetRel3 p) r.rets σ.stack
  data : DataRel3 p r.data σ.data
  out : σ.out = outRecs r.out ++ p.base
  fns : FnsLink σ r.fns
  fnLines : ∀ name fd, alGet name σ.fns = some fd → alGet name r.fnLines = some fd.line
  input : σ.input = none

structure Env3 (p : ProgT F) (σ : St F) : Prop where
  lines : Holds σ.lines p
  warnings : σ.warnings = false
  tracing : σ.tracing = false

theorem _root_.Abasic.Prog3L.Kept.envT {p : ProgT F} {σ σ' : St F} (h : Kept σ σ') (he : Env3 p σ) : Env3 p σ' :=
  ⟨by rw [h.lines]; exact he.lines, by rw [h.warnings]; exact he.warnings, by rw [h.tracing]; exact he.tracing⟩

/-- `Mem3` looks at these components of the model state only -/
theorem Mem3.congr {p : ProgT F} {r : RState3 F} {σ σ' : St F} (h : Mem3 p r σ)
    (h1 : σ'.vars = σ.vars) (h2 : σ'.arrays = σ.arrays) (h3 : σ'.rng = σ.rng) (h4 : σ'.loops = σ.loops)
    (h5 : σ'.stack = σ.stack) (h6 : σ'.data = σ.data) (h7 : σ'.out = σ.out) (h8 : σ'.fns = σ.fns)
    (h9 : σ'.lines = σ.lines) (h10 : σ'.input = σ.input := by rfl) : Mem3 p r σ' where
  vars := h1.trans h.vars
  arrays := h2.trans h.arrays
  rng := h3.trans h.rng
  loops := by rw [h4]; exact h.loops
  stack := by rw [h5]; exact h.stack
  data := by rw [h6]; exact h.data
  out := h7.trans h.out
  fns := ⟨fun name hn => by rw [h8]; exact h.fns.undef name hn, fun name d hd => by
    obtain ⟨fd, pre, tail, a, b, c, d', e⟩ := h.fns.defd name d hd
    exact ⟨fd, pre, tail, by rw [h8]; exact a, b, by rw [h9]; exact c, d', e⟩⟩
  fnLines := by rw [h8]; exact h.fnLines
  input := h10.trans h.input

/-- The run `res` of one statement activation from `σ` (cursor on line `n`)
    against the reference result `(r', ctl)` (`Outcome3` of Stmt3Rel.lean). -/
def Outcome3 (p : ProgT F) (σ : St F) (n after eol : Nat) (res : Res F Unit) (r' : RState3 F) : Ctl2 → Prop
  | .next => ∃ σ', res = .ok () σ' ∧ Kept σ σ' ∧ Mem3 p r' σ' ∧ σ'.loc.line = some n ∧
      (σ'.loc.idx = after ∨ (σ'.loc.idx = after + 1 ∧ ColonAt σ' n after))
  | .skipLine => ∃ σ', res = .ok () σ' ∧ Kept σ σ' ∧ Mem3 p r' σ' ∧ σ'.loc = { line := some n, idx := eol }
  | .jump m =>
    (σ.lines.has m = true →
      ∃ σ', res = .ok () σ' ∧ Kept σ σ' ∧ Mem3 p r' σ' ∧ σ'.loc = { line := some m, idx := 0 }) ∧
    (σ.lines.has m = false → ErrFrom σ .undefinedStatement res)
  | .stop => ∃ σ', res = .ok () σ' ∧ Kept σ σ' ∧ σ'.vars = r'.vars ∧ σ'.arrays = r'.arrays ∧
      σ'.out = outRecs r'.out ++ p.base ∧ σ'.loc = {} ∧ σ'.imm = []
  | .resume m k => ∃ σ', res = .ok () σ' ∧ Kept σ σ' ∧ Mem3 p r' σ' ∧ AddrRel3 p m k σ'.loc
  | .error e => e ≠ .dataTypeMismatch ∧ ErrFrom σ e res
  | .errorAt e ln => e = .dataTypeMismatch ∧
      ∃ σ' i, res = .err { err := e } σ' ∧ σ'.dataLoc = some { line := some ln, idx := i } ∧ σ'.out = σ.out ∧
        σ'.nesting = σ.nesting

/-! ### the stack is invisible to variable look-up -/

theorem frames_rets {p : ProgT F} {rets : List (Nat × Nat)} {stack : List (Frame F)}
    (h : Rel2 (RetRel3 p) rets stack) : stack.map (·.vars) = rets.map fun _ => [] := by
  induction h with
  | nil => rfl
  | cons hd _ ih => simp only [List.map_cons, hd.1, ih]

/-! ### loops -/

theorem removeLoop_rel {p : ProgT F} {v : Str} {rl : List (RLoop F)} {ml : List (LoopInfo F)}
    (h : Rel2 (LoopRel3 p) rl ml) :
    match findLoop v rl, removeLoop v ml with
    | none, none => True
    | some (l, rest), some (i, mrest) => LoopRel3 p l i ∧ Rel2 (LoopRel3 p) rest mrest
    | _, _ => False := by
  induction h with
  | nil => simp [findLoop, removeLoop]
  | @cons l i rl' ml' hd tl ih =>
    simp only [findLoop, removeLoop, hd.1]
    by_cases hv : (l.var == v) = true
    · simp only [hv, ↓reduceIte]
      exact ⟨hd, tl⟩
    · simp only [hv, Bool.false_eq_true, ↓reduceIte]
      exact ih

theorem afterRemove_rel {p : ProgT F} (v : Str) {rl : List (RLoop F)} {ml : List (LoopInfo F)}
    (h : Rel2 (LoopRel3 p) rl ml) :
    Rel2 (LoopRel3 p) (keptLoops v rl) (Props.C16.afterRemove v ml) := by
  have := removeLoop_rel (v := v) h
  unfold keptLoops Props.C16.afterRemove
  cases h1 : findLoop v rl with
  | none =>
    cases h2 : removeLoop v ml with
    | none => exact h
    | some x => rw [h1, h2] at this; exact this.elim
  | some x =>
    cases h2 : removeLoop v ml with
    | none => rw [h1, h2] at this; exact this.elim
    | some y => rw [h1, h2] at this; exact this.2

/-! ### DATA (Stmt3Data.lean) -/

theorem line_of_mem {q : RProgramI F} (hasc : (q.map (·.1)).Pairwise (· < ·)) :
    ∀ l ∈ q, q.line l.1 = some l.2 := by
  induction q with
  | nil => intro l hl; cases hl
  | cons a rest ih =>
    obtain ⟨k, ss⟩ := a
    simp only [List.map_cons, List.pairwise_cons] at hasc
    intro l hl
    rcases List.mem_cons.mp hl with rfl | hl
    · simp only [RProgramI.line, beq_self_eq_true, ↓reduceIte]
    · have hlt : k < l.1 := hasc.1 l.1 (List.mem_map.mpr ⟨l, hl, rfl⟩)
      have hne : (k == l.1) = false := by simp only [beq_eq_false_iff_ne, ne_eq]; omega
      simp only [RProgramI.line, hne, Bool.false_eq_true, ↓reduceIte]
      exact ih hasc.2 l hl

theorem listTokens_sub {l : Lines F} {q : RProgramI F} (h : HoldsI l q) :
    ∀ q' : RProgramI F, (∀ e ∈ q', q.line e.1 = some e.2) →
      (q'.map (·.1)).mapM (fun n => (l.get n).map (fun ts => (n, ts))) =
        some (q'.map fun e => (e.1, renderLineI e.2)) := by
  intro q'
  induction q' with
  | nil => intro _; rfl
  | cons a rest ih =>
    intro hq
    have ha := hq a List.mem_cons_self
    have hr := ih (fun e he => hq e (List.mem_cons_of_mem _ he))
    rw [List.map_cons, List.mapM_cons, hr, h.get, ha]
    rfl

theorem holds_listTokens {l : Lines F} {p : ProgT F} (h : Holds l p) (hwf : p.q.WF) :
    l.listTokens = some (p.q.map fun e => (e.1, renderLineI e.2)) := by
  unfold Lines.listTokens
  rw [h.sorted]
  exact listTokens_sub h p.q (line_of_mem hwf.ascending)

theorem holds_dataChunks {l : Lines F} {p : ProgT F} (h : Holds l p) (hwf : p.q.WF) :
    l.dataChunks = some (progChunks3 p) := by
  unfold Lines.dataChunks progChunks3 progChunksI
  rw [holds_listTokens h hwf]
  simp only [Option.map_some, List.flatMap_map]
  rfl

/-- the DATA items among the tokens of a statement are those of the statement: an INPUT holds none -/
theorem dataToks_renderSI (s : RStmtI F) : dataToks (renderSI s) = s.dataOf := by
  cases s with
  | base s => exact dataToks_renderS3 s
  | input t => cases t; rfl

theorem dataToks_tail (ss : List (RStmtI F)) : dataToks (renderTailI ss) = ss.flatMap RStmtI.dataOf := by
  induction ss with
  | nil => rfl
  | cons s rest ih =>
    rw [renderTailI, dataToks_cons_nodata _ rfl, dataToks_append, dataToks_renderSI, ih]
    rfl

theorem dataToks_line (ss : List (RStmtI F)) : dataToks (renderLineI ss) = ss.flatMap RStmtI.dataOf := by
  cases ss with
  | nil => rfl
  | cons s rest =>
    rw [renderLineI, dataToks_append, dataToks_renderSI, dataToks_tail]
    rfl

/-- the items of the DATA chunks of a program are its DATA statements in program order -/
theorem flat_progChunks3 (p : ProgT F) :
    flatItems (progChunks3 p) = (allDataI p.q).map fun x => (some x.1, x.2) := by
  unfold progChunks3 progChunksI allDataI
  rw [flatItems_flatMap, List.map_flatMap]
  congr 1
  funext l
  rw [flat_lineChunks, dataToks_line, List.map_map]
  rfl

theorem nextData_some {p : ProgT F} {σ : St F} {c : Nat} (hh : Holds σ.lines p) (hwf : p.q.WF)
    (hd : DataRel3 p c σ.data) {ln : Nat} {d : DataElement F} (hc : (allDataI p.q)[c]? = some (ln, d)) :
    ∃ it' i, nextDataElement σ = .ok (some d) { σ with data := some it' } ∧ DataRel3 p (c + 1) (some it') ∧
      ({ σ with data := some it' } : St F).dataLoc = some { line := some ln, idx := i } := by
  obtain ⟨it, hit, hchunks, hrem⟩ : ∃ it : DataIter F,
      nextDataElement σ = (fun s : St F =>
        (Res.ok (it.next (it.chunks.length + 1)).1 { s with data := some (it.next (it.chunks.length + 1)).2 })) σ ∧
      it.chunks = progChunks3 p ∧ remItems it = ((allDataI p.q).drop c).map fun x => (some x.1, x.2) := by
    cases hdat : σ.data with
    | some it =>
      rw [hdat] at hd
      refine ⟨it, ?_, hd.1, hd.2⟩
      simp only [nextDataElement, bind, M.bindM, M.get, hdat, pure, M.pureM, M.modify]
    | none =>
      rw [hdat] at hd
      have hc0 : c = 0 := hd
      refine ⟨{ chunks := progChunks3 p }, ?_, rfl, ?_⟩
      · simp only [nextDataElement, bind, M.bindM, M.get, hdat, holds_dataChunks hh hwf, pure, M.pureM, M.modify]
      · rw [remItems_fresh, List.drop_zero, flat_progChunks3, hc0, List.drop_zero]
  have hlt : c < (allDataI p.q).length := (List.getElem?_eq_some_iff.mp hc).1
  have hdropc : (allDataI p.q).drop c = (ln, d) :: (allDataI p.q).drop (c + 1) := by
    rw [List.drop_eq_getElem_cons hlt, (List.getElem?_eq_some_iff.mp hc).2]
  rw [hdropc] at hrem
  obtain ⟨hch, _, hsome⟩ := next_spec (it.chunks.length + 1) it (by omega)
  obtain ⟨h1, h2, h3⟩ := hsome (some ln) d _ hrem
  cases hcur : (it.next (it.chunks.length + 1)).2.chunks[(it.next (it.chunks.length + 1)).2.ci]? with
  | none => rw [hcur] at h3; cases h3
  | some ch =>
    rw [hcur] at h3
    simp only [Option.map_some, Option.some.injEq] at h3
    refine ⟨(it.next (it.chunks.length + 1)).2, ch.1.idx, ?_, ⟨by rw [hch, hchunks], h2⟩, ?_⟩
    · rw [hit, h1]
    · show ((it.next (it.chunks.length + 1)).2.chunks[(it.next (it.chunks.length + 1)).2.ci]?).map (·.1) = _
      rw [hcur]
      simp only [Option.map_some, Option.some.injEq]
      rw [← h3]

theorem nextData_none {p : ProgT F} {σ : St F} {c : Nat} (hh : Holds σ.lines p) (hwf : p.q.WF)
    (hd : DataRel3 p c σ.data) (hc : (allDataI p.q)[c]? = none) :
    ∃ it', nextDataElement σ = .ok none { σ with data := some it' } := by
  obtain ⟨it, hit, hrem⟩ : ∃ it : DataIter F,
      nextDataElement σ = (fun s : St F =>
        (Res.ok (it.next (it.chunks.length + 1)).1 { s with data := some (it.next (it.chunks.length + 1)).2 })) σ ∧
      remItems it = ((allDataI p.q).drop c).map fun x => (some x.1, x.2) := by
    cases hdat : σ.data with
    | some it =>
      rw [hdat] at hd
      refine ⟨it, ?_, hd.2⟩
      simp only [nextDataElement, bind, M.bindM, M.get, hdat, pure, M.pureM, M.modify]
    | none =>
      rw [hdat] at hd
      have hc0 : c = 0 := hd
      refine ⟨{ chunks := progChunks3 p }, ?_, ?_⟩
      · simp only [nextDataElement, bind, M.bindM, M.get, hdat, holds_dataChunks hh hwf, pure, M.pureM, M.modify]
      · rw [remItems_fresh, List.drop_zero, flat_progChunks3, hc0, List.drop_zero]
  have hle : (allDataI p.q).length ≤ c := List.getElem?_eq_none_iff.mp hc
  rw [List.drop_eq_nil_of_le hle] at hrem
  obtain ⟨_, hnone, _⟩ := next_spec (it.chunks.length + 1) it (by omega)
  exact ⟨_, by rw [hit, (hnone hrem).1]⟩

end Abasic.Stmt3T
