import Abasic.Proofs.Transp
/-
  `Comm` (erasing the flags commutes with running) for the primitives and, by
  the structural rules, for every function of the evaluator.
-/
set_option linter.unusedSectionVars false

namespace Abasic.Hoare
open Abasic M

variable {F : Type}

/-! ### Program.lean -/

theorem comm_tokensForLine (l : Option Nat) : Comm (tokensForLine (F := F) l) := by
  intro σ
  cases l with
  | none => rfl
  | some n =>
    show tokensForLine (some n) (erase σ) = (tokensForLine (some n) σ).mapSt erase
    simp only [tokensForLine, erase_lines]
    cases σ.lines.get n <;> rfl

theorem comm_tokens : Comm (tokens (F := F)) := by
  intro σ
  exact comm_tokensForLine σ.loc.line σ
macro_rules | `(tactic| comm_prim) => `(tactic| exact comm_tokens)

theorem comm_peek : Comm (peek (F := F)) := by
  unfold peek
  comm_tac
macro_rules | `(tactic| comm_prim) => `(tactic| exact comm_peek)

theorem comm_advance : Comm (advance (F := F)) := by
  unfold advance
  comm_tac
macro_rules | `(tactic| comm_prim) => `(tactic| exact comm_advance)

theorem comm_next : Comm (next (F := F)) := by
  unfold next
  comm_tac
macro_rules | `(tactic| comm_prim) => `(tactic| exact comm_next)

theorem comm_hasNext : Comm (hasNext (F := F)) := by
  unfold hasNext
  comm_tac
macro_rules | `(tactic| comm_prim) => `(tactic| exact comm_hasNext)

theorem comm_nextUnwrapped : Comm (nextUnwrapped (F := F)) := by
  unfold nextUnwrapped
  comm_tac
macro_rules | `(tactic| comm_prim) => `(tactic| exact comm_nextUnwrapped)

theorem comm_expect (k : Kw) : Comm (expect (F := F) k) := by
  unfold expect
  comm_tac
macro_rules | `(tactic| comm_prim) => `(tactic| exact comm_expect _)

theorem comm_accept (k : Kw) : Comm (accept (F := F) k) := by
  unfold accept
  comm_tac
macro_rules | `(tactic| comm_prim) => `(tactic| exact comm_accept _)

theorem comm_peekIsKw (k : Kw) : Comm (peekIsKw (F := F) k) := by
  unfold peekIsKw
  comm_tac
macro_rules | `(tactic| comm_prim) => `(tactic| exact comm_peekIsKw _)

theorem comm_tryNext {α : Type} (f : Token F → Option α) : Comm (tryNext f) := by
  unfold tryNext
  comm_tac
macro_rules | `(tactic| comm_prim) => `(tactic| exact comm_tryNext _)

theorem comm_discardRemaining : Comm (discardRemaining (F := F)) := by
  unfold discardRemaining
  comm_tac
macro_rules | `(tactic| comm_prim) => `(tactic| exact comm_discardRemaining)

theorem comm_rewindBeforeInput : Comm (rewindBeforeInput (F := F)) := by
  unfold rewindBeforeInput
  comm_tac
macro_rules | `(tactic| comm_prim) => `(tactic| exact comm_rewindBeforeInput)

theorem comm_setImmediate (ts : List (Token F)) : Comm (setImmediate ts) := by
  unfold setImmediate
  comm_tac
macro_rules | `(tactic| comm_prim) => `(tactic| exact comm_setImmediate _)

theorem comm_continueFromBreakpoint : Comm (continueFromBreakpoint (F := F)) := by
  unfold continueFromBreakpoint
  comm_tac
macro_rules | `(tactic| comm_prim) => `(tactic| exact comm_continueFromBreakpoint)

theorem comm_setVar (name : Str) (v : Value F) : Comm (setVar name v) := by
  unfold setVar
  comm_tac
macro_rules | `(tactic| comm_prim) => `(tactic| exact comm_setVar _ _)

theorem comm_startLoop (sym : Str) (a b c : F) : Comm (startLoop sym a b c) := by
  unfold startLoop
  comm_tac
macro_rules | `(tactic| comm_prim) => `(tactic| exact comm_startLoop _ _ _ _)

theorem comm_endLoop [NumOps F] (sym : Str) : Comm (endLoop (F := F) sym) := by
  unfold endLoop
  comm_tac
macro_rules | `(tactic| comm_prim) => `(tactic| exact comm_endLoop _)

theorem comm_gotoLine (n : Nat) : Comm (gotoLine (F := F) n) := by
  unfold gotoLine
  comm_tac
macro_rules | `(tactic| comm_prim) => `(tactic| exact comm_gotoLine _)

theorem comm_gosubLine (n : Nat) : Comm (gosubLine (F := F) n) := by
  unfold gosubLine
  comm_tac
macro_rules | `(tactic| comm_prim) => `(tactic| exact comm_gosubLine _)

theorem comm_returnFromGosub : Comm (returnFromGosub (F := F)) := by
  unfold returnFromGosub
  comm_tac
macro_rules | `(tactic| comm_prim) => `(tactic| exact comm_returnFromGosub)

theorem comm_defineFunction (name : Str) (args : List Str) : Comm (defineFunction (F := F) name args) := by
  unfold defineFunction
  comm_tac
macro_rules | `(tactic| comm_prim) => `(tactic| exact comm_defineFunction _ _)

theorem comm_pushFunctionCall (name : Str) (b : List (Str × Value F)) : Comm (pushFunctionCall name b) := by
  unfold pushFunctionCall
  comm_tac
macro_rules | `(tactic| comm_prim) => `(tactic| exact comm_pushFunctionCall _ _)

theorem comm_popFunctionCall : Comm (popFunctionCall (F := F)) := by
  unfold popFunctionCall
  comm_tac
macro_rules | `(tactic| comm_prim) => `(tactic| exact comm_popFunctionCall)

theorem comm_nextDataElement : Comm (nextDataElement (F := F)) := by
  unfold nextDataElement
  comm_tac
macro_rules | `(tactic| comm_prim) => `(tactic| exact comm_nextDataElement)

theorem comm_nextLine : Comm (nextLine (F := F)) := by
  unfold nextLine
  comm_tac
macro_rules | `(tactic| comm_prim) => `(tactic| exact comm_nextLine)

theorem comm_enterNested : Comm (enterNested (F := F)) := by
  unfold enterNested
  comm_tac
macro_rules | `(tactic| comm_prim) => `(tactic| exact comm_enterNested)

theorem comm_exitNested : Comm (exitNested (F := F)) := by
  unfold exitNested
  comm_tac
macro_rules | `(tactic| comm_prim) => `(tactic| exact comm_exitNested)

theorem comm_nested {α : Type} {m : M F α} (hm : Comm m) : Comm (nested m) := by
  unfold nested
  comm_tac
macro_rules | `(tactic| comm_prim) => `(tactic| with_reducible apply comm_nested)

/-- `emit` of a record that survives erasure -/
theorem comm_emit (o : Out) (h : keepOut o = true) : Comm (emit (F := F) o) := by
  unfold emit
  apply comm_modify
  intro σ
  simp only [erase, List.filter_cons, h, if_true]

macro_rules | `(tactic| comm_prim) => `(tactic| exact comm_emit _ rfl)

/-! ### Arrays.lean -/

variable [NumOps F]

theorem comm_ensureArray (name : Str) (k : Nat) : Comm (ensureArray (F := F) name k) := by
  unfold ensureArray
  comm_tac
macro_rules | `(tactic| comm_prim) => `(tactic| exact comm_ensureArray _ _)

theorem comm_arrayGet (name : Str) (idx : List Nat) : Comm (arrayGet (F := F) name idx) := by
  unfold arrayGet
  comm_tac
macro_rules | `(tactic| comm_prim) => `(tactic| exact comm_arrayGet _ _)

theorem comm_arraySet (name : Str) (idx : List Nat) (v : Value F) : Comm (arraySet name idx v) := by
  unfold arraySet
  comm_tac
macro_rules | `(tactic| comm_prim) => `(tactic| exact comm_arraySet _ _ _)

theorem comm_arrayCreate (name : Str) (idx : List Nat) : Comm (arrayCreate (F := F) name idx) := by
  unfold arrayCreate
  comm_tac
macro_rules | `(tactic| comm_prim) => `(tactic| exact comm_arrayCreate _ _)

theorem comm_rnd (x : F) : Comm (rnd x) := by
  unfold rnd
  comm_tac
macro_rules | `(tactic| comm_prim) => `(tactic| exact comm_rnd _)

/-! ### the three flag-reading primitives -/

omit [NumOps F] in
/-- `warn`: on the erased state it does nothing; on the state it at most appends a
    Warning record, which erasure drops. -/
theorem comm_warn (msg : Str) : Comm (warn (F := F) msg) := by
  intro σ
  show warn msg (erase σ) = (warn msg σ).mapSt erase
  cases h : σ.warnings with
  | false =>
    simp [warn, bind, M.bindM, M.get, h, pure, M.pureM, Res.mapSt]
  | true =>
    simp [warn, bind, M.bindM, M.get, h, pure, M.pureM, Res.mapSt, emit, M.modify, erase, keepOut]
macro_rules | `(tactic| comm_prim) => `(tactic| exact comm_warn _)

omit [NumOps F] in
theorem comm_warnUndeclaredArray (name : Str) : Comm (warnUndeclaredArray (F := F) name) := by
  intro σ
  show warnUndeclaredArray name (erase σ) = (warnUndeclaredArray name σ).mapSt erase
  have hl : warnUndeclaredArray name (erase σ) = .ok () (erase σ) := by
    simp [warnUndeclaredArray, bind, M.bindM, M.get, pure, M.pureM]
  rw [hl]
  by_cases hc : (σ.warnings && !alHas name σ.arrays) = true
  · have : warnUndeclaredArray name σ = warn ("Use of undeclared array '".toList ++ name ++ "'.".toList) σ := by
      simp only [warnUndeclaredArray, bind, M.bindM, M.get, hc, if_true]
    rw [this, ← comm_warn _ σ]
    simp [warn, bind, M.bindM, M.get, pure, M.pureM]
  · have : warnUndeclaredArray name σ = .ok () σ := by
      simp only [warnUndeclaredArray, bind, M.bindM, M.get, hc]
      rfl
    rw [this]; rfl
macro_rules | `(tactic| comm_prim) => `(tactic| exact comm_warnUndeclaredArray _)

omit [NumOps F] in
theorem comm_traceHere : Comm (traceHere (F := F)) := by
  intro σ
  show traceHere (erase σ) = (traceHere σ).mapSt erase
  cases h : σ.tracing with
  | false =>
    simp [traceHere, bind, M.bindM, M.get, h, pure, M.pureM, Res.mapSt]
  | true =>
    cases hl : σ.loc.line with
    | none => simp [traceHere, bind, M.bindM, M.get, h, hl, pure, M.pureM, Res.mapSt]
    | some n =>
      simp [traceHere, bind, M.bindM, M.get, h, hl, pure, M.pureM, Res.mapSt, emit, M.modify, erase, keepOut]
macro_rules | `(tactic| comm_prim) => `(tactic| exact comm_traceHere)

/-- the guard around a warning does not matter -/
theorem comm2_warn_guard (c₁ c₂ : Prop) [Decidable c₁] [Decidable c₂] (msg : Str) (σ : St F) :
    Comm2 (if c₁ then warn msg else pure ()) (if c₂ then warn msg else pure ()) σ := by
  have hw : warn msg (erase σ) = .ok () (erase σ) := by
    simp [warn, bind, M.bindM, M.get, pure, M.pureM]
  have hl : (if c₁ then warn msg else pure ()) (erase σ) = .ok () (erase σ) := by
    by_cases h : c₁
    · rw [if_pos h]; exact hw
    · rw [if_neg h]; rfl
  show (if c₁ then warn msg else pure ()) (erase σ) = Res.mapSt erase ((if c₂ then warn msg else pure ()) σ)
  rw [hl]
  by_cases h : c₂
  · rw [if_pos h, ← comm_warn msg σ, hw]
  · rw [if_neg h]; rfl
macro_rules | `(tactic| comm_prim) => `(tactic| exact comm2_warn_guard _ _ _ _)

theorem comm2_warn_guard_bind {β : Type} (c₁ c₂ : Prop) [Decidable c₁] [Decidable c₂] (msg : Str) (k : M F β)
    (hk : Comm k) (σ : St F) :
    Comm2 (if c₁ then warn msg >>= fun _ => k else k) (if c₂ then warn msg >>= fun _ => k else k) σ := by
  have hw : warn msg (erase σ) = .ok () (erase σ) := by
    simp [warn, bind, M.bindM, M.get, pure, M.pureM]
  have hwk : (warn msg >>= fun _ => k) (erase σ) = k (erase σ) := by
    show M.bindM (warn msg) (fun _ => k) (erase σ) = k (erase σ)
    unfold M.bindM
    rw [hw]
  have hl : (if c₁ then warn msg >>= fun _ => k else k) (erase σ) = k (erase σ) := by
    by_cases h : c₁
    · rw [if_pos h]; exact hwk
    · rw [if_neg h]
  show (if c₁ then warn msg >>= fun _ => k else k) (erase σ) =
    Res.mapSt erase ((if c₂ then warn msg >>= fun _ => k else k) σ)
  rw [hl]
  by_cases h : c₂
  · rw [if_pos h, ← hwk]
    exact comm2_bind (comm_warn msg σ) (fun _ => hk)
  · rw [if_neg h]; exact hk σ
macro_rules | `(tactic| comm_prim) => `(tactic| refine comm2_warn_guard_bind _ _ _ _ ?_ _)

theorem comm_takeInput : Comm (takeInput (F := F)) := by
  unfold takeInput
  comm_tac
macro_rules | `(tactic| comm_prim) => `(tactic| exact comm_takeInput)

omit [NumOps F] in
theorem comm_rewindAndAwaitInput : Comm (rewindAndAwaitInput (F := F)) := by
  unfold rewindAndAwaitInput
  comm_tac
macro_rules | `(tactic| comm_prim) => `(tactic| exact comm_rewindAndAwaitInput)

/-! ### Expr.lean / Stmt.lean -/

omit [NumOps F] in
theorem comm_lineBudget : Comm (lineBudget (F := F)) := by
  unfold lineBudget
  comm_tac
macro_rules | `(tactic| comm_prim) => `(tactic| exact comm_lineBudget)

section evaluator
variable (ev : Evals F) (he : Comm ev.expr)
include he

theorem comm_arrayIndexLoop (n : Nat) (acc : List Nat) : Comm (arrayIndexLoop ev n acc) := by
  induction n generalizing acc with
  | zero => unfold arrayIndexLoop; comm_tac
  | succ n ih => unfold arrayIndexLoop; comm_tac

theorem comm_arrayIndex : Comm (arrayIndex ev) := by
  unfold arrayIndex
  have := comm_arrayIndexLoop ev he
  comm_tac

theorem comm_numberFunctionArg : Comm (numberFunctionArg ev) := by
  unfold numberFunctionArg
  comm_tac

theorem comm_bindArgs (arity : Nat) (args : List Str) (i : Nat) (acc : List (Str × Value F)) :
    Comm (bindArgs ev arity args i acc) := by
  induction args generalizing i acc with
  | nil => unfold bindArgs; comm_tac
  | cons a rest ih => unfold bindArgs; comm_tac

theorem comm_userFunctionCall (name : Str) : Comm (userFunctionCall ev name) := by
  unfold userFunctionCall
  have := comm_bindArgs ev he
  comm_tac

theorem comm_functionCall (name : Str) : Comm (functionCall ev name) := by
  unfold functionCall
  have := comm_numberFunctionArg ev he
  have := comm_userFunctionCall ev he
  comm_tac

theorem comm_term : Comm (term ev) := by
  unfold term
  have := comm_functionCall ev he
  have := comm_arrayIndex ev he
  comm_tac

theorem comm_parenExpr : Comm (parenExpr ev) := by
  unfold parenExpr
  have := comm_term ev he
  comm_tac

theorem comm_unaryExpr : Comm (unaryExpr ev) := by
  unfold unaryExpr
  have := comm_parenExpr ev he
  comm_tac

omit he in
theorem comm_levelLoop {sub : M F (Value F)} (hs : Comm sub) (ops : Token F → Option BinOp)
    (n : Nat) (v : Value F) : Comm (levelLoop sub ops n v) := by
  induction n generalizing v with
  | zero => unfold levelLoop; comm_tac
  | succ n ih => unfold levelLoop; comm_tac

omit he in
theorem comm_level {sub : M F (Value F)} (hs : Comm sub) (ops : Token F → Option BinOp) :
    Comm (level sub ops) := by
  unfold level
  have := comm_levelLoop hs ops
  comm_tac

theorem comm_orExpr : Comm (orExpr ev) := by
  unfold orExpr
  exact comm_level (comm_level (comm_level (comm_level (comm_level (comm_level
    (comm_unaryExpr ev he) _) _) _) _) _) _

theorem comm_exprBody : Comm (exprBody ev) := by
  unfold exprBody
  exact comm_nested (comm_orExpr ev he)

/-! ### Stmt.lean -/

theorem comm_optionalArrayIndex : Comm (optionalArrayIndex ev) := by
  unfold optionalArrayIndex
  have := comm_arrayIndex ev he
  comm_tac

omit he in
theorem comm_assignValue (lv : LValue) (v : Value F) : Comm (assignValue lv v) := by
  unfold assignValue
  comm_tac

theorem comm_assignmentStatement (name : Str) : Comm (assignmentStatement ev name) := by
  unfold assignmentStatement
  have := comm_optionalArrayIndex ev he
  have := comm_assignValue (F := F)
  comm_tac

theorem comm_letStatement : Comm (letStatement ev) := by
  unfold letStatement
  have := comm_assignmentStatement ev he
  comm_tac

theorem comm_parseLValue : Comm (parseLValue ev) := by
  unfold parseLValue
  have := comm_optionalArrayIndex ev he
  comm_tac

omit he in
theorem comm_gotoStatement : Comm (gotoStatement (F := F)) := by
  unfold gotoStatement
  comm_tac

omit he in
theorem comm_gosubStatement : Comm (gosubStatement (F := F)) := by
  unfold gosubStatement
  comm_tac

variable (hs : Comm ev.stmt)
include hs

omit he in
theorem comm_statementOrGoto : Comm (statementOrGoto ev) := by
  unfold statementOrGoto
  have := comm_gotoStatement (F := F)
  comm_tac

omit he in
theorem comm_ifSkipLoop (n : Nat) : Comm (ifSkipLoop ev n) := by
  have := comm_statementOrGoto ev hs
  induction n with
  | zero => unfold ifSkipLoop; comm_tac
  | succ n ih => unfold ifSkipLoop; comm_tac

theorem comm_ifStatement : Comm (ifStatement ev) := by
  unfold ifStatement
  have := comm_statementOrGoto ev hs
  have := comm_ifSkipLoop ev hs
  comm_tac

omit hs in
theorem comm_readLoop (n : Nat) : Comm (readLoop ev n) := by
  have := comm_parseLValue ev he
  have := comm_assignValue (F := F)
  induction n with
  | zero => unfold readLoop; comm_tac
  | succ n ih => unfold readLoop; comm_tac

omit hs in
theorem comm_readStatement : Comm (readStatement ev) := by
  unfold readStatement
  have := comm_readLoop ev he
  comm_tac

omit hs in
theorem comm_inputStatement : Comm (inputStatement ev) := by
  unfold inputStatement
  have := comm_parseLValue ev he
  have := comm_assignValue (F := F)
  comm_tac

omit hs in
theorem comm_dimStatement : Comm (dimStatement ev) := by
  unfold dimStatement
  have := comm_parseLValue ev he
  comm_tac

omit hs in
theorem comm_printLoop (n : Nat) (semi : Bool) (acc : Str) : Comm (printLoop ev n semi acc) := by
  induction n generalizing semi acc with
  | zero => unfold printLoop; comm_tac
  | succ n ih => unfold printLoop; comm_tac

omit hs in
theorem comm_printStatement : Comm (printStatement ev) := by
  unfold printStatement
  have := comm_printLoop ev he
  comm_tac

omit hs in
theorem comm_forStatement : Comm (forStatement ev) := by
  unfold forStatement
  comm_tac

omit he hs in
theorem comm_nextStatement : Comm (nextStatement (F := F)) := by
  unfold nextStatement
  comm_tac

omit he hs in
theorem comm_defArgsLoop (n : Nat) (acc : List Str) : Comm (defArgsLoop (F := F) n acc) := by
  induction n generalizing acc with
  | zero => unfold defArgsLoop; comm_tac
  | succ n ih => unfold defArgsLoop; comm_tac

omit he hs in
theorem comm_skipToColonLoop (n : Nat) : Comm (skipToColonLoop (F := F) n) := by
  induction n with
  | zero => unfold skipToColonLoop; comm_tac
  | succ n ih => unfold skipToColonLoop; comm_tac

omit he hs in
theorem comm_defStatement : Comm (defStatement (F := F)) := by
  unfold defStatement
  have := comm_defArgsLoop (F := F)
  have := comm_skipToColonLoop (F := F)
  comm_tac

omit he hs in
theorem comm_breakAtCurrentLocation : Comm (breakAtCurrentLocation (F := F)) := by
  unfold breakAtCurrentLocation
  comm_tac

theorem comm_dispatch : Comm (dispatch ev) := by
  unfold dispatch
  have := comm_assignmentStatement ev he
  have := comm_dimStatement ev he
  have := comm_printStatement ev he
  have := comm_inputStatement ev he
  have := comm_ifStatement ev he hs
  have := comm_gotoStatement (F := F)
  have := comm_gosubStatement (F := F)
  have := comm_forStatement ev he
  have := comm_nextStatement (F := F)
  have := comm_defStatement (F := F)
  have := comm_readStatement ev he
  have := comm_letStatement ev he
  have := comm_breakAtCurrentLocation (F := F)
  comm_tac

theorem comm_stmtBody : Comm (stmtBody ev) := by
  unfold stmtBody
  have := comm_dispatch ev he hs
  comm_tac

end evaluator

/-- The knot: every fuel level commutes with erasure. -/
theorem comm_evalN (n : Nat) :
    Comm (evalN (F := F) n).expr ∧ Comm (evalN (F := F) n).stmt := by
  induction n with
  | zero => exact ⟨comm_fail _, comm_fail _⟩
  | succ n ih => exact ⟨comm_exprBody _ ih.1, comm_stmtBody _ ih.1 ih.2⟩


/-! ### Interp.lean: the host API -/

omit [NumOps F] in
theorem comm_returnToIdle : Comm (returnToIdle (F := F)) := by
  unfold returnToIdle
  comm_tac
macro_rules | `(tactic| comm_prim) => `(tactic| exact comm_returnToIdle)

theorem comm_runNextStatement (fuel : Nat) : Comm (runNextStatement (F := F) fuel) := by
  unfold runNextStatement
  have := (comm_evalN (F := F) fuel)
  have := comm_stmtBody _ this.1 this.2
  comm_tac

theorem sim_runNextStatement (fuel : Nat) : Sim (runNextStatement (F := F) fuel) :=
  (comm_runNextStatement fuel).sim

omit [NumOps F] in
theorem filter_prints (ls : List Str) (l : List Out) :
    ((ls.map Out.print).reverse ++ l).filter keepOut = (ls.map Out.print).reverse ++ l.filter keepOut := by
  rw [List.filter_append]
  congr 1
  rw [List.filter_eq_self]
  intro o ho
  simp only [List.mem_reverse, List.mem_map] at ho
  obtain ⟨x, _, rfl⟩ := ho
  rfl

/-- every command is `Sim`; TRACE / NOTRACE are the two that are not `Comm` -/
theorem sim_maybeProcessCommand (fuel : Nat) (line : Str) : Sim (maybeProcessCommand (F := F) fuel line) := by
  unfold maybeProcessCommand
  have hrun := comm_runNextStatement (F := F)
  split
  · exact sim_pure _
  · apply Comm.sim
    have hres : Comm (M.modify fun s : St F => ({ s with input := none, vars := [], arrays := [] }).runFromFirst) := by
      apply comm_modify
      intro σ
      show St.runFromFirst _ = erase (St.runFromFirst _)
      unfold St.runFromFirst
      dsimp only
      show (match σ.lines.first with | some n => _ | none => _) = erase (match σ.lines.first with | some n => _ | none => _)
      cases σ.lines.first <;> rfl
    comm_tac
  · apply Comm.sim
    apply comm_get_bind
    intro σ
    comm_norm
    cases σ.lines.list with
    | none => exact comm2_rpanic _
    | some ls =>
      apply comm2_bind _ (fun _ => comm_pure _)
      apply comm2_set
      show _ = erase _
      unfold erase
      dsimp only
      rw [filter_prints]
  · apply Comm.sim; comm_tac
  · apply Comm.sim; comm_tac
  · exact sim_bind (sim_modify fun σ₁ σ₂ h => h) (fun _ => sim_pure _)
  · exact sim_bind (sim_modify fun σ₁ σ₂ h => h) (fun _ => sim_pure _)
  · apply Comm.sim; comm_tac
  · apply Comm.sim; comm_tac

omit [NumOps F] in
theorem erase_state_eq {σ₁ σ₂ : St F} (h : erase σ₁ = erase σ₂) : σ₁.state = σ₂.state :=
  show (erase σ₁).state = (erase σ₂).state from congrArg St.state h

theorem sim_evaluateImpl (fuel : Nat) (line : Str) : Sim (evaluateImpl (F := F) fuel line) := by
  have hbody : ∀ st : IState, Sim (if (st != .idle) = true then (M.rpanic "assertion failed: state == Idle" : M F Unit)
      else do
        setImmediate []
        if ← maybeProcessCommand fuel line then pure ()
        else
          let (num, skip) : Option Nat × Nat :=
            match parseLineNumber line with
            | some (n, e) => (some n, e)
            | none => (none, 0)
          match tokenize (F := F) line skip with
          | .error e => M.fail (.syntax (.tokenization e))
          | .ok ts =>
            match num with
            | some n => M.modify fun s => s.setNumberedLine n ts
            | none => do
              setImmediate ts
              runNextStatement fuel) := by
    intro st
    apply sim_ite (sim_rpanic _)
    apply sim_bind (comm_setImmediate _).sim
    intro _
    apply sim_bind (sim_maybeProcessCommand fuel line)
    intro b
    apply sim_ite (sim_pure _)
    dsimp only
    split
    · exact sim_fail _
    · split
      · apply Comm.sim
        apply comm_modify
        intro σ
        rfl
      · apply Comm.sim
        have := comm_runNextStatement (F := F) fuel
        comm_tac
  intro σ₁ σ₂ he
  have h := hbody σ₁.state σ₁ σ₂ he
  have hst := erase_state_eq he
  show ResSim (evaluateImpl fuel line σ₁) (evaluateImpl fuel line σ₂)
  have e1 : evaluateImpl fuel line σ₁ = (if (σ₁.state != .idle) = true then (M.rpanic "assertion failed: state == Idle" : M F Unit)
      else do
        setImmediate []
        if ← maybeProcessCommand fuel line then pure ()
        else
          let (num, skip) : Option Nat × Nat :=
            match parseLineNumber line with
            | some (n, e) => (some n, e)
            | none => (none, 0)
          match tokenize (F := F) line skip with
          | .error e => M.fail (.syntax (.tokenization e))
          | .ok ts =>
            match num with
            | some n => M.modify fun s => s.setNumberedLine n ts
            | none => do
              setImmediate ts
              runNextStatement fuel) σ₁ := rfl
  have e2 : evaluateImpl fuel line σ₂ = (if (σ₁.state != .idle) = true then (M.rpanic "assertion failed: state == Idle" : M F Unit)
      else do
        setImmediate []
        if ← maybeProcessCommand fuel line then pure ()
        else
          let (num, skip) : Option Nat × Nat :=
            match parseLineNumber line with
            | some (n, e) => (some n, e)
            | none => (none, 0)
          match tokenize (F := F) line skip with
          | .error e => M.fail (.syntax (.tokenization e))
          | .ok ts =>
            match num with
            | some n => M.modify fun s => s.setNumberedLine n ts
            | none => do
              setImmediate ts
              runNextStatement fuel) σ₂ := by rw [hst]; rfl
  rw [e1, e2]
  exact h

theorem sim_startEvaluating (fuel : Nat) (line : Str) : Sim (startEvaluating (F := F) fuel line) :=
  sim_postprocess (sim_evaluateImpl fuel line)

theorem sim_continueEvaluating (fuel : Nat) : Sim (continueEvaluating (F := F) fuel) := by
  intro σ₁ σ₂ he
  have hst := erase_state_eq he
  have h1 : ∀ σ : St F, continueEvaluating fuel σ =
      (if (σ.state != .running) = true then (M.rpanic "assertion failed: state == Running" : M F Unit)
       else postprocess (runNextStatement fuel)) σ := fun _ => rfl
  rw [h1 σ₁, h1 σ₂, ← hst]
  exact sim_ite (sim_rpanic _) (sim_postprocess (sim_runNextStatement fuel)) σ₁ σ₂ he

omit [NumOps F] in
theorem comm_provideInput (text : Str) : Comm (provideInput (F := F) text) := by
  unfold provideInput
  comm_tac

omit [NumOps F] in
theorem comm_randomize (seed : Nat) : Comm (randomize (F := F) seed) := by
  unfold randomize
  comm_tac

end Abasic.Hoare
