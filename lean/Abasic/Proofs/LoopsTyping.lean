import Abasic.Props.C06Prog
import Abasic.Props.C03Full
/-
  C06 for the control stack and DATA (Abasic/Props/C06Loops.lean), spec side:

  * `typeOfS2 s lineExists` — the static check of a statement of `RStmt2`
      (Ref/Stmt2.lean): `base s` as `typeOfS`; FOR v = a TO b [STEP c]: `v` a
      numeric name, `a`, `b`, `c` typed numbers; NEXT v: `v` a numeric name;
      GOSUB n: line `n` exists; DIM a(e…): the subscripts typed numbers;
      `LET a(e…) = e`: subscripts numbers, `e` of the type of the name `a`;
      RETURN, READ, DATA, RESTORE: nothing.
    `Typed2 le s` — the same as a judgement; `typeOfS2_ok_iff`.
  * `RunErr` — the errors a checked statement may still end in.
  * `exec2_typed` — a checked statement, run by the reference step
      `RStmt2.exec` in a state that satisfies `TInv` (`RInv`: variables hold values
      of the kind their name announces; `ArrKind`: so do arrays), ends in `RunErr`
      errors only (READ: also DATA TYPE MISMATCH, reported as `errorAt`), jumps
      only to lines the check has seen, and keeps `TInv`.
  * `typeOfP2`, `rsteps2_typed` — whole programs on the reference machine `RSteps2`.
-/
set_option linter.unusedSectionVars false

namespace Abasic.Props.C06
open Abasic Abasic.Ref Abasic.ExprL Abasic.StmtL Abasic.ProgL Abasic.Prog2L Abasic.Stmt2L

variable {F : Type} [NumOps F]

/-! ### the static check -/

/-- the expression is typed, and its type is "number" -/
def typeNum (e : Expr F) : Except Err Unit :=
  match typeOf e with
  | .error x => .error x
  | .ok .num => .ok ()
  | .ok .str => .error .typeMismatch

/-- every expression of the list is a typed number; the first error otherwise -/
def typeNums : List (Expr F) → Except Err Unit
  | [] => .ok ()
  | e :: rest =>
    match typeNum e with
    | .error x => .error x
    | .ok _ => typeNums rest

/-- the optional STEP of a FOR -/
def typeStep : Option (Expr F) → Except Err Unit
  | none => .ok ()
  | some c => typeNum c

/-- What the analyzer checks on a statement of `RStmt2`; the first error in token order. -/
def typeOfS2 : RStmt2 F → (lineExists : Nat → Bool) → Except Err Unit
  | .base s, le => typeOfS s le
  | .forS v a b c, _ =>
    if VT.ofName v = .num then
      match typeNum a with
      | .error x => .error x
      | .ok _ =>
        match typeNum b with
        | .error x => .error x
        | .ok _ => typeStep c
    else .error .typeMismatch
  | .nextS v, _ => if VT.ofName v = .num then .ok () else .error .typeMismatch
  | .gosubS n, le => if le n then .ok () else .error .undefinedStatement
  | .returnS, _ => .ok ()
  | .readS _, _ => .ok ()
  | .dataS _, _ => .ok ()
  | .restoreS, _ => .ok ()
  | .dimS _ dims, _ => typeNums dims
  | .letCellS name idx e, _ =>
    match typeNums idx with
    | .error x => .error x
    | .ok _ =>
      match typeOf e with
      | .error x => .error x
      | .ok t => if VT.ofName name = t then .ok () else .error .typeMismatch

/-- **The typing judgement** for the statements of `RStmt2`, against the set `le`
    of existing line numbers. -/
def Typed2 (le : Nat → Bool) : RStmt2 F → Prop
  | .base s => typeOfS s le = .ok ()
  | .forS v a b c =>
    VT.ofName v = .num ∧ typeOf a = .ok .num ∧ typeOf b = .ok .num ∧ ∀ e, c = some e → typeOf e = .ok .num
  | .nextS v => VT.ofName v = .num
  | .gosubS n => le n = true
  | .dimS _ dims => ∀ e ∈ dims, typeOf e = .ok .num
  | .letCellS name idx e => (∀ i ∈ idx, typeOf i = .ok .num) ∧ typeOf e = .ok (VT.ofName name)
  | _ => True

theorem typeNum_ok_iff (e : Expr F) : typeNum e = .ok () ↔ typeOf e = .ok .num := by
  unfold typeNum
  cases h : typeOf e with
  | error x => simp
  | ok t => cases t <;> simp

theorem typeNums_ok_iff (es : List (Expr F)) : typeNums es = .ok () ↔ ∀ e ∈ es, typeOf e = .ok .num := by
  induction es with
  | nil => simp [typeNums]
  | cons e rest ih =>
    cases h : typeNum e with
    | error x =>
      have : ¬ typeOf e = .ok .num := fun h' => by rw [(typeNum_ok_iff e).2 h'] at h; cases h
      simp [typeNums, h, this]
    | ok u =>
      have := (typeNum_ok_iff e).1 h
      simp only [typeNums, h, ih, List.mem_cons, forall_eq_or_imp, this, true_and]

theorem typeStep_ok_iff (c : Option (Expr F)) : typeStep c = .ok () ↔ ∀ e, c = some e → typeOf e = .ok .num := by
  cases c with
  | none => simp [typeStep]
  | some e => simp [typeStep, typeNum_ok_iff]

/-- the check passes iff the statement is typed -/
theorem typeOfS2_ok_iff (le : Nat → Bool) (s : RStmt2 F) : typeOfS2 s le = .ok () ↔ Typed2 le s := by
  cases s with
  | base s => exact Iff.rfl
  | forS v a b c =>
    simp only [typeOfS2, Typed2]
    by_cases hv : VT.ofName v = .num
    · rw [if_pos hv]
      cases ha : typeNum a with
      | error x =>
        have : ¬ typeOf a = .ok .num := fun h' => by rw [(typeNum_ok_iff a).2 h'] at ha; cases ha
        simp [this]
      | ok u =>
        have ha' := (typeNum_ok_iff a).1 ha
        cases hb : typeNum b with
        | error x =>
          have : ¬ typeOf b = .ok .num := fun h' => by rw [(typeNum_ok_iff b).2 h'] at hb; cases hb
          simp [this]
        | ok u =>
          have hb' := (typeNum_ok_iff b).1 hb
          simp only [typeStep_ok_iff, hv, ha', hb', true_and]
    · rw [if_neg hv]; simp [hv]
  | nextS v =>
    simp only [typeOfS2, Typed2]
    by_cases hv : VT.ofName v = .num <;> simp [hv]
  | gosubS n =>
    simp only [typeOfS2, Typed2]
    cases le n <;> simp
  | returnS => simp [typeOfS2, Typed2]
  | readS ts => simp [typeOfS2, Typed2]
  | dataS items => simp [typeOfS2, Typed2]
  | restoreS => simp [typeOfS2, Typed2]
  | dimS name dims => simp only [typeOfS2, Typed2]; exact typeNums_ok_iff dims
  | letCellS name idx e =>
    simp only [typeOfS2, Typed2]
    cases hi : typeNums idx with
    | error x =>
      have : ¬ ∀ i ∈ idx, typeOf i = .ok .num := fun h' => by rw [(typeNums_ok_iff idx).2 h'] at hi; cases hi
      simp [this]
    | ok u =>
      have hi' := (typeNums_ok_iff idx).1 hi
      cases he : typeOf e with
      | error x => simp [hi']
      | ok t =>
        by_cases ht : VT.ofName name = t
        · simp only [ht, ↓reduceIte, true_iff]; exact ⟨hi', trivial⟩
        · have : ¬ t = VT.ofName name := fun h => ht h.symm
          simp [ht, this]

theorem typeNum_error (e : Expr F) (x : Err) (h : typeNum e = .error x) : x = .typeMismatch := by
  unfold typeNum at h
  cases he : typeOf e with
  | error y => rw [he] at h; simp only [Except.error.injEq] at h; subst h; exact typeOf_error e _ he
  | ok t => rw [he] at h; cases t <;> simp at h; exact h.symm

theorem typeNums_error (es : List (Expr F)) (x : Err) (h : typeNums es = .error x) : x = .typeMismatch := by
  induction es with
  | nil => cases h
  | cons e rest ih =>
    cases he : typeNum e with
    | error y => simp only [typeNums, he, Except.error.injEq] at h; subst h; exact typeNum_error e _ he
    | ok u => simp only [typeNums, he] at h; exact ih h

/-- the static errors: TYPE MISMATCH and UNDEF'D STATEMENT -/
theorem typeOfS2_error (le : Nat → Bool) (s : RStmt2 F) (x : Err) (h : typeOfS2 s le = .error x) :
    x = .typeMismatch ∨ x = .undefinedStatement := by
  cases s with
  | base s => exact typeOfS_error le s x h
  | forS v a b c =>
    simp only [typeOfS2] at h
    by_cases hv : VT.ofName v = .num
    · rw [if_pos hv] at h
      cases ha : typeNum a with
      | error y => rw [ha] at h; simp only [Except.error.injEq] at h; subst h; exact .inl (typeNum_error a _ ha)
      | ok u =>
        rw [ha] at h
        cases hb : typeNum b with
        | error y => rw [hb] at h; simp only [Except.error.injEq] at h; subst h; exact .inl (typeNum_error b _ hb)
        | ok u =>
          rw [hb] at h
          cases c with
          | none => cases h
          | some c => exact .inl (typeNum_error c _ h)
    · rw [if_neg hv] at h; simp only [Except.error.injEq] at h; exact .inl h.symm
  | nextS v =>
    simp only [typeOfS2] at h
    by_cases hv : VT.ofName v = .num
    · rw [if_pos hv] at h; cases h
    · rw [if_neg hv] at h; simp only [Except.error.injEq] at h; exact .inl h.symm
  | gosubS n =>
    simp only [typeOfS2] at h
    cases hl : le n with
    | true => rw [hl] at h; cases h
    | false => rw [hl] at h; simp only [Bool.false_eq_true, ↓reduceIte, Except.error.injEq] at h; exact .inr h.symm
  | returnS => cases h
  | readS ts => cases h
  | dataS items => cases h
  | restoreS => cases h
  | dimS name dims => exact .inl (typeNums_error dims x h)
  | letCellS name idx e =>
    simp only [typeOfS2] at h
    cases hi : typeNums idx with
    | error y => rw [hi] at h; simp only [Except.error.injEq] at h; subst h; exact .inl (typeNums_error idx _ hi)
    | ok u =>
      rw [hi] at h
      cases he : typeOf e with
      | error y => rw [he] at h; simp only [Except.error.injEq] at h; subst h; exact .inl (typeOf_error e _ he)
      | ok t =>
        rw [he] at h
        by_cases ht : VT.ofName name = t
        · simp only [if_pos ht] at h; cases h
        · simp only [if_neg ht, Except.error.injEq] at h; exact .inl h.symm

/-! ### the errors that remain -/

/-- the run-time errors the property allows a checked program: value- and
    history-dependent failures, none of them a syntax error, TYPE MISMATCH or
    UNDEF'D STATEMENT -/
def RunErr (e : Err) : Prop :=
  e = .divisionByZero ∨ e = .nextWithoutFor ∨ e = .returnWithoutGosub ∨ e = .outOfData ∨ e = .oomStack ∨
  e = .oomArray ∨ e = .badSubscript ∨ e = .redimensionedArray ∨ e = .illegalQuantity

/-- `RunErr` plus the error of READ: a string item for a numeric variable -/
def RunErrD (e : Err) : Prop := RunErr e ∨ e = .dataTypeMismatch

theorem RunErr.not_static {e : Err} (h : RunErr e) :
    e ≠ .typeMismatch ∧ (∀ se, e ≠ .syntax se) ∧ e ≠ .undefinedStatement := by
  rcases h with h | h | h | h | h | h | h | h | h <;> subst h <;> simp

theorem RunErrD.not_static {e : Err} (h : RunErrD e) :
    e ≠ .typeMismatch ∧ (∀ se, e ≠ .syntax se) ∧ e ≠ .undefinedStatement := by
  rcases h with h | h
  · exact h.not_static
  · subst h; simp

/-! ### the invariant -/

def ArrayV.isStrs : ArrayV F → Bool
  | .strs _ _ => true
  | .nums _ _ => false

/-- an array holds cells of the kind its name announces -/
def ArrKind (arrays : List (Str × ArrayV F)) : Prop :=
  ∀ k a, alGet k arrays = some a → ArrayV.isStrs a = endsWithDollar k

/-- **The name-suffix typing invariant** of a reference state: variables
    (`RInv.typed`, the `WellTyped` of `sound_program`) and arrays hold what
    their names announce; `RInv.arrs`: the cell count of an array is the product
    of its dimensions. -/
structure TInv (r : RState2 F) : Prop where
  inv : RInv r
  kind : ArrKind r.arrays

theorem tinv_start (p : RProgram2 F) : TInv p.start :=
  ⟨C03.rinv_start p, fun k a h => by simp [RProgram2.start, alGet] at h⟩

theorem arrKind_alSet {arrays : List (Str × ArrayV F)} (h : ArrKind arrays) {k : Str} {a : ArrayV F}
    (ha : ArrayV.isStrs a = endsWithDollar k) : ArrKind (alSet k a arrays) := by
  intro k' a' hg
  rw [alGet_alSet_cases] at hg
  by_cases hk : k' = k
  · rw [if_pos hk] at hg; cases hg; rw [hk]; exact ha
  · rw [if_neg hk] at hg; exact h k' a' hg

theorem create_kind {name : Str} {index : List Nat} {a : ArrayV F} (h : ArrayV.create (F := F) name index = .ok a) :
    ArrayV.isStrs a = endsWithDollar name := by
  unfold ArrayV.create at h
  split at h
  · cases h
  · split at h
    · cases h
    · split at h
      · cases h
      · cases hd : endsWithDollar name with
        | true => rw [hd] at h; simp only [↓reduceIte, Except.ok.injEq] at h; subst h; rfl
        | false => rw [hd] at h; simp only [Bool.false_eq_true, ↓reduceIte, Except.ok.injEq] at h; subst h; rfl

omit [NumOps F] in
theorem dimSizes_err {e : Err} : ∀ (index : List Nat) (t : Nat) (ds : List Nat),
    dimSizes index t ds = .error e → e = .oomArray
  | [], t, ds, h => by simp [dimSizes] at h
  | m :: rest, t, ds, h => by
    simp only [dimSizes] at h
    split at h
    · simp only [Except.error.injEq] at h; exact h.symm
    · split at h
      · simp only [Except.error.injEq] at h; exact h.symm
      · exact dimSizes_err rest _ _ h

theorem create_err {name : Str} {index : List Nat} {e : Err} (h : ArrayV.create (F := F) name index = .error e) :
    e = .badSubscript ∨ e = .oomArray := by
  unfold ArrayV.create at h
  split at h
  · simp only [Except.error.injEq] at h; exact .inl h.symm
  · split at h
    · rename_i e' hd
      simp only [Except.error.injEq] at h; subst h
      exact .inr (dimSizes_err _ _ _ hd)
    · split at h
      · simp only [Except.error.injEq] at h; exact .inr h.symm
      · split at h <;> cases h

/-! ### arrays keep their kind -/

theorem cellSet_kind {a a' : ArrayV F} {index : List Nat} {v : Value F} (h : cellSet a index v = .ok a') :
    ArrayV.isStrs a' = ArrayV.isStrs a := by
  unfold cellSet at h
  cases a with
  | strs dims cells =>
    cases v with
    | str x =>
      simp only at h
      cases hl : linearIndex index dims with
      | error e => rw [hl] at h; cases h
      | ok i => rw [hl] at h; simp only [Except.ok.injEq] at h; subst h; rfl
    | num x => cases h
  | nums dims cells =>
    cases v with
    | num x =>
      simp only at h
      cases hl : linearIndex index dims with
      | error e => rw [hl] at h; cases h
      | ok i => rw [hl] at h; simp only [Except.ok.injEq] at h; subst h; rfl
    | str x => cases h

theorem ensureArr_kind {name : Str} {k : Nat} {arrays : List (Str × ArrayV F)} {a : ArrayV F}
    (h : ensureArr name k arrays = .ok a) (hok : ArrKind arrays) : ArrayV.isStrs a = endsWithDollar name := by
  unfold ensureArr at h
  cases hg : alGet name arrays with
  | some a0 => rw [hg] at h; simp only [Except.ok.injEq] at h; subst h; exact hok name a0 hg
  | none => rw [hg] at h; exact create_kind h

theorem cellStore_kind {name : Str} {index : List Nat} {v : Value F} {arrays arrs : List (Str × ArrayV F)}
    (h : cellStore name index v arrays = .ok arrs) (hok : ArrKind arrays) : ArrKind arrs := by
  unfold cellStore at h
  cases hm : v.matchesName name with
  | false => rw [hm] at h; simp at h
  | true =>
    rw [hm] at h
    simp only [Bool.not_true, Bool.false_eq_true, ↓reduceIte] at h
    cases hea : ensureArr name index.length arrays with
    | error e => rw [hea] at h; cases h
    | ok a =>
      rw [hea] at h
      simp only at h
      cases hcs : cellSet a index v with
      | error e => rw [hcs] at h; cases h
      | ok a' =>
        rw [hcs] at h
        simp only [Except.ok.injEq] at h
        subst h
        exact arrKind_alSet hok ((cellSet_kind hcs).trans (ensureArr_kind hea hok))

/-- the reference step keeps the kinds of the arrays -/
theorem exec2_kind (items : List (Nat × DataElement F)) (n j : Nat) {r : RState2 F} (ha : ArrKind r.arrays)
    (s : RStmt2 F) : ArrKind (s.exec items n j r).1.arrays := by
  cases s with
  | base s => exact ha
  | forS v a b c =>
    cases hna : numE (envOf r.vars) a with
    | error err => rw [exec_for_err_a hna]; exact ha
    | ok x =>
      cases hnb : numE (envOf r.vars) b with
      | error err => rw [exec_for_err_b hna hnb]; exact ha
      | ok y =>
        cases hnc : stepE (envOf r.vars) c with
        | error err => rw [exec_for_err_c hna hnb hnc]; exact ha
        | ok z =>
          rw [exec_for hna hnb hnc]
          unfold forPush
          split
          · exact ha
          · split <;> exact ha
  | nextS v =>
    cases hv : envOf r.vars v with
    | str x => simp only [RStmt2.exec, hv]; exact ha
    | num cur =>
      cases hf : findLoop v r.loops with
      | none => simp only [RStmt2.exec, hv, hf]; exact ha
      | some lr =>
        obtain ⟨l, rest⟩ := lr
        simp only [RStmt2.exec, hv, hf]
        split <;> split <;> exact ha
  | gosubS m =>
    simp only [RStmt2.exec]
    split <;> exact ha
  | returnS =>
    cases hr : r.rets with
    | nil => simp only [RStmt2.exec, hr]; exact ha
    | cons a as => obtain ⟨ln, k⟩ := a; simp only [RStmt2.exec, hr]; exact ha
  | readS ts => exact ha
  | dataS items' => exact ha
  | restoreS => exact ha
  | dimS name dims =>
    cases hfi : foldSubs (envOf r.vars) dims with
    | error err => rw [exec_dim_err hfi]; exact ha
    | ok index =>
      cases hhas : alHas name r.arrays with
      | true => simp only [RStmt2.exec, hfi, hhas, ↓reduceIte]; exact ha
      | false =>
        cases hcr : ArrayV.create (F := F) name index with
        | error err => simp only [RStmt2.exec, hfi, hhas, Bool.false_eq_true, ↓reduceIte, hcr]; exact ha
        | ok a =>
          simp only [RStmt2.exec, hfi, hhas, Bool.false_eq_true, ↓reduceIte, hcr]
          exact arrKind_alSet ha (create_kind hcr)
  | letCellS name idx e =>
    cases hfi : foldSubs (envOf r.vars) idx with
    | error err => rw [exec_letCell_err1 hfi]; exact ha
    | ok index =>
      cases hev : foldE (envOf r.vars) e with
      | error err => rw [exec_letCell_err2 hfi hev]; exact ha
      | ok v =>
        rw [exec_letCell hfi hev]
        cases hcs : cellStore name index v r.arrays with
        | error err => exact ha
        | ok arrs => exact cellStore_kind hcs ha

/-- the reference step keeps the typing invariant (of any statement, checked or not) -/
theorem exec2_tinv (items : List (Nat × DataElement F)) (n j : Nat) {r : RState2 F} (h : TInv r) (s : RStmt2 F) :
    TInv (s.exec items n j r).1 :=
  ⟨exec2_inv items n j h.inv s, exec2_kind items n j h.kind s⟩

/-! ### a checked statement on the reference semantics -/

theorem numE_typed {env : Str → Value F} (henv : WellTypedEnv env) {e : Expr F} (h : typeOf e = .ok .num) :
    (∃ x, numE env e = .ok x) ∨ numE env e = .error .divisionByZero := by
  rcases (fold_typeOf env henv e).1 .num h with ⟨v, hv, hk⟩ | hdz
  · cases v with
    | num x => exact .inl ⟨x, by simp only [numE, hv]⟩
    | str x => cases hk
  · exact .inr (by simp only [numE, hdz])

theorem stepE_typed {env : Str → Value F} (henv : WellTypedEnv env) {c : Option (Expr F)}
    (h : ∀ e, c = some e → typeOf e = .ok .num) :
    (∃ x, stepE env c = .ok x) ∨ stepE env c = .error .divisionByZero := by
  cases c with
  | none => exact .inl ⟨_, rfl⟩
  | some e => exact numE_typed henv (h e rfl)

theorem foldSubs_typed {env : Str → Value F} (henv : WellTypedEnv env) :
    ∀ (es : List (Expr F)), (∀ e ∈ es, typeOf e = .ok .num) →
      (∃ is, foldSubs env es = .ok is) ∨ foldSubs env es = .error .divisionByZero ∨
        foldSubs env es = .error .illegalQuantity
  | [], _ => .inl ⟨[], rfl⟩
  | e :: rest, h => by
    rcases numE_typed henv (h e List.mem_cons_self) with ⟨x, hx⟩ | hdz
    · by_cases hneg : NumOps.toI64 x < 0
      · exact .inr (.inr (by simp only [foldSubs, hx, hneg, ↓reduceIte]))
      · rcases foldSubs_typed henv rest (fun e' he' => h e' (List.mem_cons_of_mem _ he')) with ⟨is, his⟩ | h' | h'
        · exact .inl ⟨(NumOps.toI64 x).toNat :: is, by simp only [foldSubs, hx, hneg, ↓reduceIte, his]⟩
        · exact .inr (.inl (by simp only [foldSubs, hx, hneg, ↓reduceIte, h']))
        · exact .inr (.inr (by simp only [foldSubs, hx, hneg, ↓reduceIte, h']))
    · exact .inr (.inl (by simp only [foldSubs, hdz]))

/-- READ: OUT OF DATA, or DATA TYPE MISMATCH reported for the line of the item -/
theorem readAll_errs (items : List (Nat × DataElement F)) :
    ∀ (ts : List Str) (vars : List (Str × Value F)) (c : Nat),
      (readAll items ts vars c).2.2 = .next ∨ (readAll items ts vars c).2.2 = .error .outOfData ∨
        ∃ ln, (readAll items ts vars c).2.2 = .errorAt .dataTypeMismatch ln
  | [], vars, c => Or.inl rfl
  | t :: rest, vars, c => by
    cases hc : items[c]? with
    | none => exact Or.inr (Or.inl (by simp only [readAll, hc]))
    | some lnd =>
      obtain ⟨ln, d⟩ := lnd
      cases hco : Value.coerceFromData t d with
      | error e =>
        have := coerce_err hco
        subst this
        exact Or.inr (Or.inr ⟨ln, by simp only [readAll, hc, hco]⟩)
      | ok v =>
        have : readAll items (t :: rest) vars c = readAll items rest (alSet t v vars) (c + 1) := by
          simp only [readAll, hc, hco]
        rw [this]
        exact readAll_errs items rest _ _

omit [NumOps F] in
theorem linearIndexAux_err {e : Err} : ∀ (index dims : List Nat) (lin stride : Nat),
    linearIndexAux index dims lin stride = .error e → e = .badSubscript
  | [], [], _, _, h => by simp [linearIndexAux] at h
  | [], _ :: _, _, _, h => by simp only [linearIndexAux, Except.error.injEq] at h; exact h.symm
  | _ :: _, [], _, _, h => by simp only [linearIndexAux, Except.error.injEq] at h; exact h.symm
  | i :: is, d :: ds, lin, stride, h => by
    simp only [linearIndexAux] at h
    split at h
    · simp only [Except.error.injEq] at h; exact h.symm
    · exact linearIndexAux_err is ds _ _ h

omit [NumOps F] in
theorem linearIndex_err {index dims : List Nat} {e : Err} (h : linearIndex index dims = .error e) :
    e = .badSubscript := by
  unfold linearIndex at h
  split at h
  · simp only [Except.error.injEq] at h; exact h.symm
  · exact linearIndexAux_err _ _ _ _ h

theorem cellSet_err {a : ArrayV F} {index : List Nat} {v : Value F} {e : Err} (h : cellSet a index v = .error e)
    (hk : ArrayV.isStrs a = (kindOf v == .str)) : e = .badSubscript := by
  unfold cellSet at h
  cases a with
  | strs dims cells =>
    cases v with
    | str x =>
      simp only at h
      cases hl : linearIndex index dims with
      | error e' => rw [hl] at h; simp only [Except.error.injEq] at h; subst h; exact linearIndex_err hl
      | ok i => rw [hl] at h; cases h
    | num x => simp [ArrayV.isStrs, kindOf] at hk
  | nums dims cells =>
    cases v with
    | num x =>
      simp only at h
      cases hl : linearIndex index dims with
      | error e' => rw [hl] at h; simp only [Except.error.injEq] at h; subst h; exact linearIndex_err hl
      | ok i => rw [hl] at h; cases h
    | str x => simp [ArrayV.isStrs, kindOf] at hk

theorem ofName_num_iff (v : Str) : VT.ofName v = .num ↔ endsWithDollar v = false := by
  unfold VT.ofName
  cases endsWithDollar v <;> simp

theorem cellStore_err {name : Str} {index : List Nat} {v : Value F} {arrays : List (Str × ArrayV F)} {e : Err}
    (h : cellStore name index v arrays = .error e) (hok : ArrKind arrays) (hv : kindOf v = VT.ofName name) :
    e = .badSubscript ∨ e = .oomArray := by
  have hm : v.matchesName name = true := by rw [suffix_rule_agrees, hv]; simp
  unfold cellStore at h
  rw [hm] at h
  simp only [Bool.not_true, Bool.false_eq_true, ↓reduceIte] at h
  cases hea : ensureArr name index.length arrays with
  | error e' =>
    rw [hea] at h
    simp only [Except.error.injEq] at h
    subst h
    unfold ensureArr at hea
    cases hg : alGet name arrays with
    | some a0 => rw [hg] at hea; cases hea
    | none => rw [hg] at hea; exact create_err hea
  | ok a =>
    rw [hea] at h
    simp only at h
    cases hcs : cellSet a index v with
    | ok a' => rw [hcs] at h; cases h
    | error e' =>
      rw [hcs] at h
      simp only [Except.error.injEq] at h
      subst h
      refine .inl (cellSet_err hcs ?_)
      rw [ensureArr_kind hea hok, hv]
      unfold VT.ofName
      cases endsWithDollar name <;> rfl

/-- what the reference step of a checked statement can do -/
structure Exec2OK (le : Nat → Bool) (res : RState2 F × Ctl2) : Prop where
  /-- an error reported for the line of the statement is one of `RunErr` -/
  err : ∀ x, res.2 = .error x → RunErr x
  /-- an error reported for another line is READ's DATA TYPE MISMATCH -/
  errAt : ∀ x ln, res.2 = .errorAt x ln → x = .dataTypeMismatch
  /-- a jump goes to a line the check has seen -/
  jump : ∀ m, res.2 = .jump m → le m = true

theorem exec2OK_of {le : Nat → Bool} {res : RState2 F × Ctl2} {c : Ctl2} (hc : res.2 = c)
    (h1 : ∀ x, c = .error x → RunErr x) (h2 : ∀ x ln, c = .errorAt x ln → x = .dataTypeMismatch)
    (h3 : ∀ m, c = .jump m → le m = true) : Exec2OK le res :=
  ⟨fun x hx => h1 x (hc ▸ hx), fun x ln hx => h2 x ln (hc ▸ hx), fun m hm => h3 m (hc ▸ hm)⟩

theorem exec2OK_err {le : Nat → Bool} {res : RState2 F × Ctl2} {e : Err} (hc : res.2 = .error e) (he : RunErr e) :
    Exec2OK le res :=
  exec2OK_of hc (fun x hx => by cases hx; exact he) (fun x ln hx => by cases hx) (fun m hm => by cases hm)

theorem exec2OK_plain {le : Nat → Bool} {res : RState2 F × Ctl2}
    (hc : res.2 = .next ∨ (∃ m k, res.2 = .resume m k)) : Exec2OK le res := by
  rcases hc with hc | ⟨m, k, hc⟩
  · exact exec2OK_of hc (fun x hx => by cases hx) (fun x ln hx => by cases hx) (fun m hm => by cases hm)
  · exact exec2OK_of hc (fun x hx => by cases hx) (fun x ln hx => by cases hx) (fun m hm => by cases hm)

theorem runErr_dz : RunErr .divisionByZero := .inl rfl

/-- **Soundness on the reference semantics** for the statements of `RStmt2`: a
    typed statement run from a state satisfying the name-suffix invariant ends, if
    it fails, in one of the `RunErr` errors — or, for READ, in DATA TYPE MISMATCH,
    which the reference semantics reports as `errorAt` (for the line of the DATA
    statement) —, never in TYPE MISMATCH, a syntax error or UNDEF'D STATEMENT. -/
theorem exec2_typed (le : Nat → Bool) (items : List (Nat × DataElement F)) (n j : Nat) {r : RState2 F}
    (hinv : TInv r) (s : RStmt2 F) (hty : Typed2 le s) : Exec2OK le (s.exec items n j r) := by
  have henv : WellTypedEnv (envOf r.vars) := wellTypedEnv_envOf hinv.inv.typed
  cases s with
  | base s =>
    have hok := exec_typed le r.vars hinv.inv.typed s hty
    refine exec2OK_of (c := Ctl2.ofCtl (RStmt.exec r.vars s).ctl) rfl (fun x hx => ?_) (fun x ln hx => ?_)
      (fun m hm => ?_)
    · have := hok.err x (ofCtl_error hx); subst this; exact runErr_dz
    · cases hc : (RStmt.exec r.vars s).ctl <;> rw [hc] at hx <;> cases hx
    · apply hok.jump
      cases hc : (RStmt.exec r.vars s).ctl <;> rw [hc] at hm <;> cases hm
      rfl
  | forS v a b c =>
    obtain ⟨hv, hta, htb, htc⟩ := hty
    rcases numE_typed henv hta with ⟨x, hx⟩ | hdz
    · rcases numE_typed henv htb with ⟨y, hy⟩ | hdz
      · rcases stepE_typed henv htc with ⟨z, hz⟩ | hdz
        · rw [exec_for hx hy hz]
          unfold forPush
          split
          · exact exec2OK_err rfl (.inr (.inr (.inr (.inr (.inl rfl)))))
          · rw [(ofName_num_iff v).1 hv]
            exact exec2OK_plain (.inl rfl)
        · rw [exec_for_err_c hx hy hdz]; exact exec2OK_err rfl runErr_dz
      · rw [exec_for_err_b hx hdz]; exact exec2OK_err rfl runErr_dz
    · rw [exec_for_err_a hdz]; exact exec2OK_err rfl runErr_dz
  | nextS v =>
    have hd : endsWithDollar v = false := (ofName_num_iff v).1 hty
    cases hv : envOf r.vars v with
    | str x =>
      have := henv v
      rw [hv] at this
      simp [Value.matchesName, hd] at this
    | num cur =>
      cases hf : findLoop v r.loops with
      | none =>
        exact exec2OK_err (e := .nextWithoutFor) (by simp only [RStmt2.exec, hv, hf]) (.inr (.inl rfl))
      | some lr =>
        obtain ⟨l, rest⟩ := lr
        simp only [RStmt2.exec, hv, hf]
        split <;> split
        · exact exec2OK_plain (.inr ⟨_, _, rfl⟩)
        · exact exec2OK_plain (.inl rfl)
        · exact exec2OK_plain (.inr ⟨_, _, rfl⟩)
        · exact exec2OK_plain (.inl rfl)
  | gosubS m =>
    simp only [RStmt2.exec]
    split
    · exact exec2OK_err rfl (.inr (.inr (.inr (.inr (.inl rfl)))))
    · exact exec2OK_of rfl (fun x hx => by cases hx) (fun x ln hx => by cases hx)
        (fun m' hm => by cases hm; exact hty)
  | returnS =>
    cases hr : r.rets with
    | nil =>
      exact exec2OK_err (e := .returnWithoutGosub) (by simp only [RStmt2.exec, hr]) (.inr (.inr (.inl rfl)))
    | cons a as =>
      obtain ⟨ln, k⟩ := a
      exact exec2OK_plain (.inr ⟨ln, k, by simp only [RStmt2.exec, hr]⟩)
  | readS ts =>
    have hc : ((RStmt2.readS ts).exec items n j r).2 = (readAll items ts r.vars r.data).2.2 := rfl
    rcases readAll_errs items ts r.vars r.data with h | h | ⟨ln, h⟩
    · exact exec2OK_plain (.inl (hc.trans h))
    · exact exec2OK_err (hc.trans h) (.inr (.inr (.inr (.inl rfl))))
    · exact exec2OK_of (hc.trans h) (fun x hx => by cases hx) (fun x ln' hx => by cases hx; rfl)
        (fun m hm => by cases hm)
  | dataS items' => exact exec2OK_plain (.inl rfl)
  | restoreS => exact exec2OK_plain (.inl rfl)
  | dimS name dims =>
    rcases foldSubs_typed henv dims hty with ⟨index, hfi⟩ | hfi | hfi
    · cases hhas : alHas name r.arrays with
      | true =>
        exact exec2OK_err (e := .redimensionedArray) (by simp only [RStmt2.exec, hfi, hhas, ↓reduceIte])
          (.inr (.inr (.inr (.inr (.inr (.inr (.inr (.inl rfl))))))))
      | false =>
        cases hcr : ArrayV.create (F := F) name index with
        | error err =>
          refine exec2OK_err (e := err)
            (by simp only [RStmt2.exec, hfi, hhas, Bool.false_eq_true, ↓reduceIte, hcr]) ?_
          rcases create_err hcr with rfl | rfl
          · exact .inr (.inr (.inr (.inr (.inr (.inr (.inl rfl))))))
          · exact .inr (.inr (.inr (.inr (.inr (.inl rfl)))))
        | ok a =>
          exact exec2OK_plain (.inl (by simp only [RStmt2.exec, hfi, hhas, Bool.false_eq_true, ↓reduceIte, hcr]))
    · rw [exec_dim_err hfi]; exact exec2OK_err rfl runErr_dz
    · rw [exec_dim_err hfi]
      exact exec2OK_err rfl (.inr (.inr (.inr (.inr (.inr (.inr (.inr (.inr rfl))))))))
  | letCellS name idx e =>
    obtain ⟨hti, hte⟩ := hty
    rcases foldSubs_typed henv idx hti with ⟨index, hfi⟩ | hfi | hfi
    · rcases (fold_typeOf (envOf r.vars) henv e).1 _ hte with ⟨v, hv, hk⟩ | hdz
      · rw [exec_letCell hfi hv]
        cases hcs : cellStore name index v r.arrays with
        | ok arrs => exact exec2OK_plain (.inl rfl)
        | error err =>
          refine exec2OK_err (e := err) rfl ?_
          rcases cellStore_err hcs hinv.kind hk with rfl | rfl
          · exact .inr (.inr (.inr (.inr (.inr (.inr (.inl rfl))))))
          · exact .inr (.inr (.inr (.inr (.inr (.inl rfl)))))
      · rw [exec_letCell_err2 hfi hdz]; exact exec2OK_err rfl runErr_dz
    · rw [exec_letCell_err1 hfi]; exact exec2OK_err rfl runErr_dz
    · rw [exec_letCell_err1 hfi]
      exact exec2OK_err rfl (.inr (.inr (.inr (.inr (.inr (.inr (.inr (.inr rfl))))))))

/-! ### whole programs on the reference machine -/

/-- the statements of line `ln`, in order; the first static error, with the line -/
def typeOfStmts2 (le : Nat → Bool) (ln : Nat) : List (RStmt2 F) → Except (Err × Nat) Unit
  | [] => .ok ()
  | s :: rest =>
    match typeOfS2 s le with
    | .ok _ => typeOfStmts2 le ln rest
    | .error x => .error (x, ln)

/-- the lines, in order -/
def typeOfLines2 (le : Nat → Bool) : RProgram2 F → Except (Err × Nat) Unit
  | [] => .ok ()
  | l :: rest =>
    match typeOfStmts2 le l.1 l.2 with
    | .ok _ => typeOfLines2 le rest
    | .error x => .error x

/-- **The static check of a program** over the extended statement set: every
    statement of every line passes `typeOfS2`, the targets of GOTO and GOSUB being
    looked up among the lines of the program itself. -/
def typeOfP2 (p : RProgram2 F) : Except (Err × Nat) Unit := typeOfLines2 p.hasLine p

theorem typeOfStmts2_ok_iff (le : Nat → Bool) (ln : Nat) (ss : List (RStmt2 F)) :
    typeOfStmts2 le ln ss = .ok () ↔ ∀ s ∈ ss, typeOfS2 s le = .ok () := by
  induction ss with
  | nil => simp [typeOfStmts2]
  | cons s rest ih =>
    cases hs : typeOfS2 s le with
    | ok u => simp only [typeOfStmts2, hs, ih, List.mem_cons, forall_eq_or_imp, true_and]
    | error x => simp [typeOfStmts2, hs]

theorem typeOfLines2_ok_iff (le : Nat → Bool) (p : RProgram2 F) :
    typeOfLines2 le p = .ok () ↔ ∀ l ∈ p, ∀ s ∈ l.2, typeOfS2 s le = .ok () := by
  induction p with
  | nil => simp [typeOfLines2]
  | cons l rest ih =>
    cases hs : typeOfStmts2 le l.1 l.2 with
    | ok u =>
      have := (typeOfStmts2_ok_iff le l.1 l.2).1 hs
      simp only [typeOfLines2, hs, ih, List.mem_cons, forall_eq_or_imp]
      exact ⟨fun h => ⟨this, h⟩, fun h => h.2⟩
    | error x =>
      have : ¬ ∀ s ∈ l.2, typeOfS2 s le = .ok () := fun h => by
        rw [(typeOfStmts2_ok_iff le l.1 l.2).2 h] at hs; cases hs
      simp [typeOfLines2, hs, this]

/-- the check passes iff every statement of every line is typed -/
theorem typeOfP2_ok_iff (p : RProgram2 F) :
    typeOfP2 p = .ok () ↔ ∀ l ∈ p, ∀ s ∈ l.2, Typed2 p.hasLine s := by
  unfold typeOfP2
  rw [typeOfLines2_ok_iff]
  constructor
  · intro h l hl s hs; exact (typeOfS2_ok_iff _ s).1 (h l hl s hs)
  · intro h l hl s hs; exact (typeOfS2_ok_iff _ s).2 (h l hl s hs)

theorem typeOfStmts2_error {le : Nat → Bool} {ln : Nat} {ss : List (RStmt2 F)} {x : Err} {k : Nat}
    (h : typeOfStmts2 le ln ss = .error (x, k)) : (x = .typeMismatch ∨ x = .undefinedStatement) ∧ k = ln := by
  induction ss with
  | nil => cases h
  | cons s rest ih =>
    cases hs : typeOfS2 s le with
    | ok u => simp only [typeOfStmts2, hs] at h; exact ih h
    | error y =>
      simp only [typeOfStmts2, hs, Except.error.injEq, Prod.mk.injEq] at h
      obtain ⟨rfl, rfl⟩ := h
      exact ⟨typeOfS2_error le s y hs, rfl⟩

theorem TInv.pc {r : RState2 F} (h : TInv r) (x : Option (Nat × Nat)) : TInv { r with pc := x } :=
  ⟨h.inv.pc x, h.kind⟩

/-- **One reference step of a checked program** keeps the typing invariant and
    can stop only with a `RunErr` error or DATA TYPE MISMATCH. -/
theorem rstep2_typed {p : RProgram2 F} (hty : typeOfP2 p = .ok ()) (r : RState2 F) (hinv : TInv r) :
    (∀ r', RStep2 p r = .inl r' → TInv r') ∧
    (∀ e ln, RStep2 p r = .inr (e, ln) → RunErrD e) := by
  cases hpc : r.pc with
  | none =>
    rw [C03.rstep2_ended hpc]
    exact ⟨fun r' h => by cases h; exact hinv, fun e ln h => by cases h⟩
  | some nj =>
    obtain ⟨n, j⟩ := nj
    cases hl : p.line n with
    | none =>
      have : RStep2 p r = .inl { r with pc := none } := by simp only [RStep2, hpc, hl]
      rw [this]
      exact ⟨fun r' h => by cases h; exact hinv.pc _, fun e ln h => by cases h⟩
    | some ss =>
      cases hs : ss[j]? with
      | none =>
        have : RStep2 p r = .inl { r with pc := none } := by simp only [RStep2, hpc, hl, hs]
        rw [this]
        exact ⟨fun r' h => by cases h; exact hinv.pc _, fun e ln h => by cases h⟩
      | some s =>
        have hsty : Typed2 p.hasLine s :=
          (typeOfP2_ok_iff p).1 hty _ (Prog2L.line_mem hl) s (List.mem_of_getElem? hs)
        have hok := exec2_typed p.hasLine (allData p) n j hinv s hsty
        have hi := exec2_tinv (allData p) n j hinv s
        cases hctl : (s.exec (allData p) n j r).2 with
        | next =>
          have : RStep2 p r = .inl { (s.exec (allData p) n j r).1 with pc := p.resume n (j + 1) } := by
            simp only [RStep2, hpc, hl, hs, hctl]
          rw [this]
          exact ⟨fun r' h => by cases h; exact hi.pc _, fun e ln h => by cases h⟩
        | skipLine =>
          have : RStep2 p r = .inl { (s.exec (allData p) n j r).1 with pc := (p.after n).map fun m => (m, 0) } := by
            simp only [RStep2, hpc, hl, hs, hctl]
          rw [this]
          exact ⟨fun r' h => by cases h; exact hi.pc _, fun e ln h => by cases h⟩
        | jump m =>
          have : RStep2 p r = .inl { (s.exec (allData p) n j r).1 with pc := some (m, 0) } := by
            simp only [RStep2, hpc, hl, hs, hctl, hok.jump m hctl, ↓reduceIte]
          rw [this]
          exact ⟨fun r' h => by cases h; exact hi.pc _, fun e ln h => by cases h⟩
        | stop =>
          have : RStep2 p r = .inl { (s.exec (allData p) n j r).1 with pc := none } := by
            simp only [RStep2, hpc, hl, hs, hctl]
          rw [this]
          exact ⟨fun r' h => by cases h; exact hi.pc _, fun e ln h => by cases h⟩
        | resume m k =>
          have : RStep2 p r = .inl { (s.exec (allData p) n j r).1 with pc := p.resume m k } := by
            simp only [RStep2, hpc, hl, hs, hctl]
          rw [this]
          exact ⟨fun r' h => by cases h; exact hi.pc _, fun e ln h => by cases h⟩
        | error x =>
          have : RStep2 p r = .inr (x, n) := by simp only [RStep2, hpc, hl, hs, hctl]
          rw [this]
          refine ⟨fun r' h => (by cases h), fun e ln h => ?_⟩
          simp only [Sum.inr.injEq, Prod.mk.injEq] at h
          rw [← h.1]
          exact .inl (hok.err x hctl)
        | errorAt x ln' =>
          have : RStep2 p r = .inr (x, ln') := by simp only [RStep2, hpc, hl, hs, hctl]
          rw [this]
          refine ⟨fun r' h => (by cases h), fun e ln h => ?_⟩
          simp only [Sum.inr.injEq, Prod.mk.injEq] at h
          rw [← h.1]
          exact .inr (hok.errAt x ln' hctl)

theorem rsteps2_typed {p : RProgram2 F} (hty : typeOfP2 p = .ok ()) :
    ∀ (n : Nat) (r : RState2 F), TInv r →
      (∀ r', RSteps2 p n r = .inl r' → TInv r') ∧
      (∀ e ln out, RSteps2 p n r = .inr (e, ln, out) → RunErrD e)
  | 0, r, hinv => ⟨fun r' h => by cases h; exact hinv, fun e ln out h => by cases h⟩
  | n + 1, r, hinv => by
    obtain ⟨h1, h2⟩ := rstep2_typed hty r hinv
    cases hstep : RStep2 p r with
    | inl r1 =>
      rw [C03.rsteps2_ok n hstep]
      exact rsteps2_typed hty n r1 (h1 r1 hstep)
    | inr eln =>
      obtain ⟨e, ln⟩ := eln
      rw [C03.rsteps2_err n hstep]
      refine ⟨fun r' h => (by cases h), fun e' ln' out h => ?_⟩
      simp only [Sum.inr.injEq, Prod.mk.injEq] at h
      rw [← h.1]
      exact h2 e ln hstep

end Abasic.Props.C06
