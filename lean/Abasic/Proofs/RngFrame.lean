import Abasic.Proofs.Hoare
import Abasic.Props.C18
/-
  Frame for C18 (the random generator):

  * `Orbit r0 r` : `r` is reached from `r0` by some number of steps of the
    documented recurrence `lcg`;
  * `RO σ σ'` : the generator state of `σ'` lies on the orbit of the generator
    state of `σ`, and is reduced (`< 2^33`) if that of `σ` was.

  Every primitive except `rnd` leaves `rng` alone; `rnd` makes zero or one step.
  The generic lifting of Proofs/Lift.lean cannot be used (its base relation `RNS`
  says nothing about `rng`, and `rnd`/`randomize` respect `RNS`), so the walk
  through the evaluator is repeated here for the fixed relation `RO`.
-/
set_option linter.unusedSectionVars false

namespace Abasic.Props.C18
open Abasic

/-- `r` is on the forward orbit of `r0` under the documented recurrence -/
def Orbit (r0 r : Nat) : Prop := ∃ k, r = iterate lcg k r0

theorem iterate_add (f : Nat → Nat) (a b s : Nat) :
    iterate f (a + b) s = iterate f b (iterate f a s) := by
  induction a generalizing s with
  | zero => rw [Nat.zero_add]; rfl
  | succ a ih =>
    rw [Nat.add_right_comm]
    show iterate f (a + b) (f s) = iterate f b (iterate f a (f s))
    exact ih (f s)

theorem iterate_succ' (f : Nat → Nat) (k s : Nat) : iterate f (k + 1) s = f (iterate f k s) := by
  rw [iterate_add]; rfl

theorem Orbit.refl (r : Nat) : Orbit r r := ⟨0, rfl⟩

theorem Orbit.trans {a b c : Nat} (h1 : Orbit a b) (h2 : Orbit b c) : Orbit a c := by
  obtain ⟨k1, e1⟩ := h1
  obtain ⟨k2, e2⟩ := h2
  exact ⟨k1 + k2, by rw [e2, e1, iterate_add]⟩

theorem iterate_one (f : Nat → Nat) (s : Nat) : iterate f 1 s = f s := rfl

theorem Orbit.step (r : Nat) : Orbit r (lcg r) := ⟨1, (iterate_one lcg r).symm⟩

theorem Orbit.lt {a b : Nat} (h : Orbit a b) (ha : a < 2 ^ 33) : b < 2 ^ 33 := by
  obtain ⟨k, e⟩ := h
  cases k with
  | zero =>
    have e' : b = a := e
    rw [e']; exact ha
  | succ k =>
    have e' : b = lcg (iterate lcg k a) := by rw [e, iterate_succ']
    rw [e']; exact lcg_lt _

end Abasic.Props.C18

namespace Abasic.Rng
open Abasic M Abasic.Hoare Abasic.Props.C18

variable {F : Type}

/-- the generator moves only along the orbit (and stays reduced) -/
def RO (σ σ' : St F) : Prop :=
  Orbit σ.rng σ'.rng ∧ (σ.rng < 2 ^ 33 → σ'.rng < 2 ^ 33)

theorem ro_same {σ σ' : St F} (h : σ'.rng = σ.rng) : RO σ σ' :=
  ⟨h ▸ Orbit.refl _, fun hs => h ▸ hs⟩

instance : IsFrame (RO (F := F)) where
  refl _ := ro_same rfl
  trans h1 h2 := ⟨h1.1.trans h2.1, fun h => h2.2 (h1.2 h)⟩

namespace Lift
scoped macro_rules | `(tactic| respects_leaf) => `(tactic| exact ro_same rfl)

/-! ### primitives (Program.lean) -/

theorem ro_tokensForLine (l : Option Nat) : Respects RO (tokensForLine (F := F) l) := by
  apply respects_of_at; intro σ
  cases l with
  | none => exact respectsAt_of_eq_ok (a := σ.imm) (σ' := σ) rfl (IsFrame.refl σ)
  | some n =>
    cases h : σ.lines.get n with
    | some ts =>
      refine respectsAt_of_eq_ok (a := ts) (σ' := σ) ?_ (IsFrame.refl σ)
      simp only [tokensForLine, h]
    | none =>
      refine respectsAt_of_eq_err (e := { err := .panic "tokens_for_line: unwrap on None" }) (σ' := σ) ?_ (IsFrame.refl σ)
      simp only [tokensForLine, h]

theorem ro_tokens : Respects RO (tokens (F := F)) := by
  apply respects_of_at; intro σ
  exact (ro_tokensForLine σ.loc.line).at σ
scoped macro_rules | `(tactic| respects_prim) => `(tactic| exact ro_tokens)

theorem ro_peek : Respects RO (peek (F := F)) := by unfold peek; respects_tac
scoped macro_rules | `(tactic| respects_prim) => `(tactic| exact ro_peek)

theorem ro_advance : Respects RO (advance (F := F)) := by unfold advance; respects_tac
scoped macro_rules | `(tactic| respects_prim) => `(tactic| exact ro_advance)

theorem ro_discardRemaining : Respects RO (discardRemaining (F := F)) := by
  unfold discardRemaining; respects_tac
scoped macro_rules | `(tactic| respects_prim) => `(tactic| exact ro_discardRemaining)

theorem ro_rewindBeforeInput : Respects RO (rewindBeforeInput (F := F)) := by
  unfold rewindBeforeInput; respects_tac
scoped macro_rules | `(tactic| respects_prim) => `(tactic| exact ro_rewindBeforeInput)

theorem ro_next : Respects RO (next (F := F)) := by unfold next; respects_tac
scoped macro_rules | `(tactic| respects_prim) => `(tactic| exact ro_next)

theorem ro_hasNext : Respects RO (hasNext (F := F)) := by unfold hasNext; respects_tac
scoped macro_rules | `(tactic| respects_prim) => `(tactic| exact ro_hasNext)

theorem ro_nextUnwrapped : Respects RO (nextUnwrapped (F := F)) := by unfold nextUnwrapped; respects_tac
scoped macro_rules | `(tactic| respects_prim) => `(tactic| exact ro_nextUnwrapped)

theorem ro_expect (k : Kw) : Respects RO (expect (F := F) k) := by unfold expect; respects_tac
scoped macro_rules | `(tactic| respects_prim) => `(tactic| exact ro_expect _)

theorem ro_accept (k : Kw) : Respects RO (accept (F := F) k) := by unfold accept; respects_tac
scoped macro_rules | `(tactic| respects_prim) => `(tactic| exact ro_accept _)

theorem ro_peekIsKw (k : Kw) : Respects RO (peekIsKw (F := F) k) := by unfold peekIsKw; respects_tac
scoped macro_rules | `(tactic| respects_prim) => `(tactic| exact ro_peekIsKw _)

theorem ro_tryNext {α : Type} (f : Token F → Option α) : Respects RO (tryNext f) := by
  unfold tryNext; respects_tac
scoped macro_rules | `(tactic| respects_prim) => `(tactic| exact ro_tryNext _)

theorem ro_setImmediate (ts : List (Token F)) : Respects RO (setImmediate ts) := by
  unfold setImmediate St.setImmediate; respects_tac
scoped macro_rules | `(tactic| respects_prim) => `(tactic| exact ro_setImmediate _)

theorem ro_continueFromBreakpoint : Respects RO (continueFromBreakpoint (F := F)) := by
  unfold continueFromBreakpoint; respects_tac
scoped macro_rules | `(tactic| respects_prim) => `(tactic| exact ro_continueFromBreakpoint)

theorem ro_setVar (name : Str) (v : Value F) : Respects RO (setVar name v) := by
  unfold setVar; respects_tac
scoped macro_rules | `(tactic| respects_prim) => `(tactic| exact ro_setVar _ _)

theorem ro_startLoop (sym : Str) (a b c : F) : Respects RO (startLoop sym a b c) := by
  unfold startLoop; respects_tac
scoped macro_rules | `(tactic| respects_prim) => `(tactic| exact ro_startLoop _ _ _ _)

theorem ro_endLoop [NumOps F] (sym : Str) : Respects RO (endLoop (F := F) sym) := by
  unfold endLoop; respects_tac
scoped macro_rules | `(tactic| respects_prim) => `(tactic| exact ro_endLoop _)

theorem ro_gotoLine (n : Nat) : Respects RO (gotoLine (F := F) n) := by
  unfold gotoLine; respects_tac
scoped macro_rules | `(tactic| respects_prim) => `(tactic| exact ro_gotoLine _)

theorem ro_gosubLine (n : Nat) : Respects RO (gosubLine (F := F) n) := by
  unfold gosubLine; respects_tac
scoped macro_rules | `(tactic| respects_prim) => `(tactic| exact ro_gosubLine _)

theorem ro_returnFromGosub : Respects RO (returnFromGosub (F := F)) := by
  unfold returnFromGosub; respects_tac
scoped macro_rules | `(tactic| respects_prim) => `(tactic| exact ro_returnFromGosub)

theorem ro_defineFunction (name : Str) (args : List Str) : Respects RO (defineFunction (F := F) name args) := by
  unfold defineFunction; respects_tac
scoped macro_rules | `(tactic| respects_prim) => `(tactic| exact ro_defineFunction _ _)

theorem ro_pushFunctionCall (name : Str) (b : List (Str × Value F)) : Respects RO (pushFunctionCall name b) := by
  unfold pushFunctionCall; respects_tac
scoped macro_rules | `(tactic| respects_prim) => `(tactic| exact ro_pushFunctionCall _ _)

theorem ro_popFunctionCall : Respects RO (popFunctionCall (F := F)) := by
  unfold popFunctionCall; respects_tac
scoped macro_rules | `(tactic| respects_prim) => `(tactic| exact ro_popFunctionCall)

theorem ro_nextDataElement : Respects RO (nextDataElement (F := F)) := by
  unfold nextDataElement; respects_tac
scoped macro_rules | `(tactic| respects_prim) => `(tactic| exact ro_nextDataElement)

theorem ro_nextLine : Respects RO (nextLine (F := F)) := by
  unfold nextLine; respects_tac
scoped macro_rules | `(tactic| respects_prim) => `(tactic| exact ro_nextLine)

theorem ro_emit (o : Out) : Respects RO (emit (F := F) o) := by
  unfold emit; respects_tac
scoped macro_rules | `(tactic| respects_prim) => `(tactic| exact ro_emit _)

theorem ro_enterNested : Respects RO (enterNested (F := F)) := by unfold enterNested; respects_tac
theorem ro_exitNested : Respects RO (exitNested (F := F)) := by unfold exitNested; respects_tac

theorem ro_nested {α : Type} {m : M F α} (hm : Respects RO m) : Respects RO (nested m) := by
  unfold nested
  have := ro_enterNested (F := F)
  have := ro_exitNested (F := F)
  respects_tac
scoped macro_rules | `(tactic| respects_prim) => `(tactic| with_reducible apply ro_nested)

theorem ro_lineBudget : Respects RO (lineBudget (F := F)) := by unfold lineBudget; respects_tac
scoped macro_rules | `(tactic| respects_prim) => `(tactic| exact ro_lineBudget)

theorem ro_warn (msg : Str) : Respects RO (warn (F := F) msg) := by unfold warn; respects_tac
scoped macro_rules | `(tactic| respects_prim) => `(tactic| exact ro_warn _)

theorem ro_warnUndeclaredArray (name : Str) : Respects RO (warnUndeclaredArray (F := F) name) := by
  unfold warnUndeclaredArray; respects_tac
scoped macro_rules | `(tactic| respects_prim) => `(tactic| exact ro_warnUndeclaredArray _)

theorem ro_rewindAndAwaitInput : Respects RO (rewindAndAwaitInput (F := F)) := by
  unfold rewindAndAwaitInput; respects_tac
scoped macro_rules | `(tactic| respects_prim) => `(tactic| exact ro_rewindAndAwaitInput)

theorem ro_returnToIdle : Respects RO (returnToIdle (F := F)) := by
  unfold returnToIdle; respects_tac
scoped macro_rules | `(tactic| respects_prim) => `(tactic| exact ro_returnToIdle)

theorem ro_breakAtCurrentLocation : Respects RO (breakAtCurrentLocation (F := F)) := by
  unfold breakAtCurrentLocation St.progBreak St.setImmediate; respects_tac
scoped macro_rules | `(tactic| respects_prim) => `(tactic| exact ro_breakAtCurrentLocation)

theorem ro_provideInput (text : Str) : Respects RO (provideInput (F := F) text) := by
  unfold provideInput; respects_tac

theorem ro_traceHere : Respects RO (traceHere (F := F)) := by
  unfold traceHere; respects_tac
scoped macro_rules | `(tactic| respects_prim) => `(tactic| exact ro_traceHere)

/-! ### primitives (Arrays.lean) -/

variable [NumOps F]

theorem ro_ensureArray (name : Str) (k : Nat) : Respects RO (ensureArray (F := F) name k) := by
  unfold ensureArray; respects_tac
scoped macro_rules | `(tactic| respects_prim) => `(tactic| exact ro_ensureArray _ _)

theorem ro_arrayGet (name : Str) (idx : List Nat) : Respects RO (arrayGet (F := F) name idx) := by
  unfold arrayGet; respects_tac
scoped macro_rules | `(tactic| respects_prim) => `(tactic| exact ro_arrayGet _ _)

theorem ro_arraySet (name : Str) (idx : List Nat) (v : Value F) : Respects RO (arraySet name idx v) := by
  unfold arraySet; respects_tac
scoped macro_rules | `(tactic| respects_prim) => `(tactic| exact ro_arraySet _ _ _)

theorem ro_arrayCreate (name : Str) (idx : List Nat) : Respects RO (arrayCreate (F := F) name idx) := by
  unfold arrayCreate; respects_tac
scoped macro_rules | `(tactic| respects_prim) => `(tactic| exact ro_arrayCreate _ _)

theorem ro_takeInput : Respects RO (takeInput (F := F)) := by
  unfold takeInput; respects_tac
scoped macro_rules | `(tactic| respects_prim) => `(tactic| exact ro_takeInput)

/-- the one primitive that moves the generator: zero or one step of `lcg` -/
theorem rnd_cases (x : F) (σ : St F) :
    (∃ e, rnd x σ = .err e σ) ∨ (∃ v, rnd x σ = .ok v σ) ∨
    (∃ v, rnd x σ = .ok v { σ with rng := lcg σ.rng }) := by
  have hstep := step_is_lcg σ.rng
  unfold rngStep at hstep
  unfold rnd
  simp only [bind, M.bindM, M.get]
  by_cases h1 : NumOps.lt x (NumOps.zero : F) = true
  · rw [if_pos h1]; exact .inl ⟨_, rfl⟩
  · rw [if_neg h1]
    by_cases h2 : NumOps.eq x (NumOps.zero : F) = true
    · rw [if_pos h2]; exact .inr (.inl ⟨_, rfl⟩)
    · rw [if_neg h2]
      by_cases h3 : Extracted.rngMultiplier * σ.rng + Extracted.rngIncrement ≥ 2 ^ 64
      · rw [if_pos h3]; exact .inl ⟨_, rfl⟩
      · rw [if_neg h3, hstep]; exact .inr (.inr ⟨_, rfl⟩)

theorem ro_step (σ : St F) : RO σ { σ with rng := lcg σ.rng } :=
  ⟨Orbit.step _, fun _ => lcg_lt _⟩

theorem ro_rnd (x : F) : Respects RO (rnd x) := by
  apply respects_of_at; intro σ
  rcases rnd_cases x σ with ⟨e, h⟩ | ⟨v, h⟩ | ⟨v, h⟩
  · exact respectsAt_of_eq_err h (IsFrame.refl σ)
  · exact respectsAt_of_eq_ok h (IsFrame.refl σ)
  · exact respectsAt_of_eq_ok h (ro_step σ)
scoped macro_rules | `(tactic| respects_prim) => `(tactic| exact ro_rnd _)

/-! ### Expr.lean -/

section evaluator
variable (ev : Evals F) (he : Respects RO ev.expr)
include he

theorem ro_arrayIndexLoop (n : Nat) (acc : List Nat) : Respects RO (arrayIndexLoop ev n acc) := by
  induction n generalizing acc with
  | zero => unfold arrayIndexLoop; respects_tac
  | succ n ih => unfold arrayIndexLoop; respects_tac

theorem ro_arrayIndex : Respects RO (arrayIndex ev) := by
  unfold arrayIndex
  have := ro_arrayIndexLoop ev he
  respects_tac

theorem ro_numberFunctionArg : Respects RO (numberFunctionArg ev) := by
  unfold numberFunctionArg
  respects_tac

theorem ro_bindArgs (arity : Nat) (args : List Str) (i : Nat) (acc : List (Str × Value F)) :
    Respects RO (bindArgs ev arity args i acc) := by
  induction args generalizing i acc with
  | nil => unfold bindArgs; respects_tac
  | cons a rest ih => unfold bindArgs; respects_tac

theorem ro_userFunctionCall (name : Str) : Respects RO (userFunctionCall ev name) := by
  unfold userFunctionCall
  have := ro_bindArgs ev he
  respects_tac

theorem ro_functionCall (name : Str) : Respects RO (functionCall ev name) := by
  unfold functionCall
  have := ro_numberFunctionArg ev he
  have := ro_userFunctionCall ev he
  respects_tac

theorem ro_term : Respects RO (term ev) := by
  unfold term
  have := ro_functionCall ev he
  have := ro_arrayIndex ev he
  respects_tac

theorem ro_parenExpr : Respects RO (parenExpr ev) := by
  unfold parenExpr
  have := ro_term ev he
  respects_tac

theorem ro_unaryExpr : Respects RO (unaryExpr ev) := by
  unfold unaryExpr
  have := ro_parenExpr ev he
  respects_tac

omit he in
theorem ro_levelLoop {sub : M F (Value F)} (hs : Respects RO sub) (ops : Token F → Option BinOp)
    (n : Nat) (v : Value F) : Respects RO (levelLoop sub ops n v) := by
  induction n generalizing v with
  | zero => unfold levelLoop; respects_tac
  | succ n ih => unfold levelLoop; respects_tac

omit he in
theorem ro_level {sub : M F (Value F)} (hs : Respects RO sub) (ops : Token F → Option BinOp) :
    Respects RO (level sub ops) := by
  unfold level
  have := ro_levelLoop hs ops
  respects_tac

theorem ro_orExpr : Respects RO (orExpr ev) := by
  unfold orExpr
  exact ro_level (ro_level (ro_level (ro_level (ro_level (ro_level (ro_unaryExpr ev he) _) _) _) _) _) _

theorem ro_exprBody : Respects RO (exprBody ev) := by
  unfold exprBody
  exact ro_nested (ro_orExpr ev he)

/-! ### Stmt.lean -/

theorem ro_optionalArrayIndex : Respects RO (optionalArrayIndex ev) := by
  unfold optionalArrayIndex
  have := ro_arrayIndex ev he
  respects_tac

omit he in
theorem ro_assignValue (lv : LValue) (v : Value F) : Respects RO (assignValue lv v) := by
  unfold assignValue
  respects_tac

theorem ro_assignmentStatement (name : Str) : Respects RO (assignmentStatement ev name) := by
  unfold assignmentStatement
  have := ro_optionalArrayIndex ev he
  have := ro_assignValue (F := F)
  respects_tac

theorem ro_letStatement : Respects RO (letStatement ev) := by
  unfold letStatement
  have := ro_assignmentStatement ev he
  respects_tac

theorem ro_parseLValue : Respects RO (parseLValue ev) := by
  unfold parseLValue
  have := ro_optionalArrayIndex ev he
  respects_tac

omit he in
theorem ro_gotoStatement : Respects RO (gotoStatement (F := F)) := by
  unfold gotoStatement
  respects_tac

omit he in
theorem ro_gosubStatement : Respects RO (gosubStatement (F := F)) := by
  unfold gosubStatement
  respects_tac

variable (hs : Respects RO ev.stmt)
include hs

omit he in
theorem ro_statementOrGoto : Respects RO (statementOrGoto ev) := by
  unfold statementOrGoto
  have := ro_gotoStatement (F := F)
  respects_tac

omit he in
theorem ro_ifSkipLoop (n : Nat) : Respects RO (ifSkipLoop ev n) := by
  have := ro_statementOrGoto ev hs
  induction n with
  | zero => unfold ifSkipLoop; respects_tac
  | succ n ih => unfold ifSkipLoop; respects_tac

theorem ro_ifStatement : Respects RO (ifStatement ev) := by
  unfold ifStatement
  have := ro_statementOrGoto ev hs
  have := ro_ifSkipLoop ev hs
  respects_tac

omit hs in
theorem ro_readLoop (n : Nat) : Respects RO (readLoop ev n) := by
  have := ro_parseLValue ev he
  have := ro_assignValue (F := F)
  induction n with
  | zero => unfold readLoop; respects_tac
  | succ n ih => unfold readLoop; respects_tac

omit hs in
theorem ro_readStatement : Respects RO (readStatement ev) := by
  unfold readStatement
  have := ro_readLoop ev he
  respects_tac

omit hs in
theorem ro_inputStatement : Respects RO (inputStatement ev) := by
  unfold inputStatement
  have := ro_parseLValue ev he
  have := ro_assignValue (F := F)
  respects_tac

omit hs in
theorem ro_dimStatement : Respects RO (dimStatement ev) := by
  unfold dimStatement
  have := ro_parseLValue ev he
  respects_tac

omit hs in
theorem ro_printLoop (n : Nat) (semi : Bool) (acc : Str) : Respects RO (printLoop ev n semi acc) := by
  induction n generalizing semi acc with
  | zero => unfold printLoop; respects_tac
  | succ n ih => unfold printLoop; respects_tac

omit hs in
theorem ro_printStatement : Respects RO (printStatement ev) := by
  unfold printStatement
  have := ro_printLoop ev he
  respects_tac

omit hs in
theorem ro_forStatement : Respects RO (forStatement ev) := by
  unfold forStatement
  respects_tac

omit he hs in
theorem ro_nextStatement : Respects RO (nextStatement (F := F)) := by
  unfold nextStatement
  respects_tac

omit he hs in
theorem ro_defArgsLoop (n : Nat) (acc : List Str) : Respects RO (defArgsLoop (F := F) n acc) := by
  induction n generalizing acc with
  | zero => unfold defArgsLoop; respects_tac
  | succ n ih => unfold defArgsLoop; respects_tac

omit he hs in
theorem ro_skipToColonLoop (n : Nat) : Respects RO (skipToColonLoop (F := F) n) := by
  induction n with
  | zero => unfold skipToColonLoop; respects_tac
  | succ n ih => unfold skipToColonLoop; respects_tac

omit he hs in
theorem ro_defStatement : Respects RO (defStatement (F := F)) := by
  unfold defStatement
  have := ro_defArgsLoop (F := F)
  have := ro_skipToColonLoop (F := F)
  respects_tac

theorem ro_dispatch : Respects RO (dispatch ev) := by
  unfold dispatch
  have := ro_assignmentStatement ev he
  have := ro_dimStatement ev he
  have := ro_printStatement ev he
  have := ro_inputStatement ev he
  have := ro_ifStatement ev he hs
  have := ro_gotoStatement (F := F)
  have := ro_gosubStatement (F := F)
  have := ro_forStatement ev he
  have := ro_nextStatement (F := F)
  have := ro_defStatement (F := F)
  have := ro_readStatement ev he
  have := ro_letStatement ev he
  respects_tac

theorem ro_stmtBody : Respects RO (stmtBody ev) := by
  unfold stmtBody
  have := ro_dispatch ev he hs
  respects_tac

end evaluator

/-- The knot: every fuel level respects `RO`. -/
theorem ro_evalN (n : Nat) :
    Respects RO (evalN (F := F) n).expr ∧ Respects RO (evalN (F := F) n).stmt := by
  induction n with
  | zero => exact ⟨respects_fail _, respects_fail _⟩
  | succ n ih => exact ⟨ro_exprBody _ ih.1, ro_stmtBody _ ih.1 ih.2⟩

/-! ### Interp.lean: the host API -/

theorem ro_runNextStatement (fuel : Nat) : Respects RO (runNextStatement (F := F) fuel) := by
  unfold runNextStatement
  have := (ro_evalN (F := F) fuel)
  have := ro_stmtBody _ this.1 this.2
  respects_tac

theorem ro_runFromFirst (σ : St F) : RO σ σ.runFromFirst := by
  apply ro_same
  unfold St.runFromFirst
  dsimp only
  split <;> rfl

theorem ro_maybeProcessCommand (fuel : Nat) (line : Str) :
    Respects RO (maybeProcessCommand (F := F) fuel line) := by
  unfold maybeProcessCommand
  have := ro_runNextStatement (F := F)
  have hrun : Respects RO (M.modify fun s : St F =>
      ({ s with input := none, vars := [], arrays := [] }).runFromFirst) := by
    apply respects_modify
    intro σ
    exact IsFrame.trans (b := { σ with input := none, vars := [], arrays := [] })
      (ro_same rfl) (ro_runFromFirst _)
  respects_tac

theorem ro_evaluateImpl (fuel : Nat) (line : Str) : Respects RO (evaluateImpl (F := F) fuel line) := by
  unfold evaluateImpl
  have := ro_runNextStatement (F := F)
  have := ro_maybeProcessCommand (F := F)
  have hset : ∀ n ts, Respects RO (M.modify fun s : St F => s.setNumberedLine n ts) := by
    intro n ts
    apply respects_modify
    intro σ
    exact ro_same rfl
  respects_tac

theorem ro_startEvaluating (fuel : Nat) (line : Str) : Respects RO (startEvaluating (F := F) fuel line) := by
  unfold startEvaluating
  exact respects_postprocess (fun σ => ro_same rfl) (ro_evaluateImpl fuel line)

theorem ro_continueEvaluating (fuel : Nat) : Respects RO (continueEvaluating (F := F) fuel) := by
  unfold continueEvaluating
  have := respects_postprocess (R := RO) (fun σ => ro_same rfl) (ro_runNextStatement (F := F) fuel)
  respects_tac

end Lift
end Abasic.Rng
