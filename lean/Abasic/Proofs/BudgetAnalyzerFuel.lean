import Abasic.Proofs.BudgetAnalyzer
import Abasic.Proofs.BudgetEval
/-
  The analyzer's evaluator never runs out of fuel or budget either: the same
  development as Abasic/Proofs/BudgetEval.lean for `aEvalN` and the analyzer's
  loops `aArrayIndexLoop`, `aLevelLoop`, `aReadLoop`, `aPrintLoop` (and
  `defArgsLoop` inside `aDef`), with the error condition `NF d`.
-/
set_option linter.unusedSectionVars false

namespace Abasic.Budget
open Abasic M

variable {F : Type} [NumOps F]

structure AEvOKd (d : Nat) (ev : AEvals F) : Prop where
  expr : SatS (NF d) ev.expr
  stmt : Sat (NF (d + 1)) Fr ev.stmt

theorem AEvOKd.exprSat {d : Nat} {ev : AEvals F} (h : AEvOKd d ev) : Sat (NF d) Fr ev.expr := h.expr.sat

section aexpr
variable {d : Nat} {ev : AEvals F}

theorem aArrayIndexLoop_wp2 (hev : AEvOKd d ev) : ∀ (n1 n2 arity : Nat) (σ : St F),
    rem σ < n1 → rem σ < n2 →
    wp2 (NF d) (aArrayIndexLoop ev n1 arity) (aArrayIndexLoop ev n2 arity) (fun _ σ' => FrS σ σ') σ := by
  intro n1
  induction n1 with
  | zero => intro n2 arity σ h; omega
  | succ n1 ih =>
    intro n2 arity σ h1 h2
    cases n2 with
    | zero => omega
    | succ n2 =>
      unfold aArrayIndexLoop
      refine wp2_bind (R := Fr) (hev.expr σ) ?_
      intro t σ1 hs1
      refine ⟨hs1.1, ?_⟩
      refine wp2_bind (R := Fr) (sat_checkNumber (E := NF d) t σ1) ?_
      intro _ σ2 hf2
      refine ⟨hf2, ?_⟩
      refine wp2_bind (R := Fr) (wp_accept _ σ2) ?_
      rintro b σ3 ⟨hf3, hlt3⟩
      refine ⟨hf3, ?_⟩
      cases b with
      | false =>
        simp only [Bool.false_eq_true, if_false]
        exact wp2_refl (wp_pure (hs1.trans_fr (hf2.trans hf3)))
      | true =>
        simp only [if_true]
        have hlt := hlt3 rfl
        have := hs1.2
        have := hf2.rem_le
        refine wp2_mono (ih n2 _ σ3 (by omega) (by omega)) ?_
        intro _ σ4 h4
        exact hs1.trans (Fr.trans_frS (hf2.trans hf3) h4)

theorem satS_aArrayIndex (hev : AEvOKd d ev) : SatS (NF d) (aArrayIndex ev) := by
  intro σ
  unfold aArrayIndex
  refine wp_bind (R := Fr) (wp_expect _ σ) ?_
  intro _ σ1 h1
  refine ⟨h1.1, ?_⟩
  refine wp_bind (R := Fr) (wp_lineBudget σ1) ?_
  rintro b σ2 ⟨rfl, hb⟩
  refine ⟨Fr.refl _, ?_⟩
  refine wp_bind (R := Fr) (aArrayIndexLoop_wp2 hev b b 0 σ2 hb hb).2 ?_
  intro idx σ3 h3
  refine ⟨h3.1, ?_⟩
  refine wp_bind_sat (R := Fr) (sat_expect _) ?_
  intro _ σ4 h4
  exact wp_pure (h1.trans_fr (h3.1.trans h4))

theorem sat_aArrayIndexD (hev : AEvOKd d ev) : Sat (NF d) Fr (aArrayIndex ev) := (satS_aArrayIndex hev).sat

theorem sat_aNumberFunctionArgD (hev : AEvOKd d ev) : Sat (NF d) Fr (aNumberFunctionArg ev) := by
  have := hev.exprSat
  unfold aNumberFunctionArg; sat_start; w_auto

theorem sat_aBindArgsD (hev : AEvOKd d ev) (arity : Nat) (args : List Str) :
    ∀ i : Nat, Sat (NF d) Fr (aBindArgs ev arity args i) := by
  have := hev.exprSat
  induction args with
  | nil => intro i; unfold aBindArgs; sat_start; w_auto
  | cons a rest ih => intro i; unfold aBindArgs; sat_start; w_auto

theorem sat_aUserFunctionCallD (hev : AEvOKd d ev) (name : Str) (loc : Loc) :
    Sat (NF d) Fr (aUserFunctionCall ev name loc) := by
  have := sat_aBindArgsD hev
  unfold aUserFunctionCall; sat_start; w_auto

theorem sat_aFunctionCallD (hev : AEvOKd d ev) (name : Str) (loc : Loc) :
    Sat (NF d) Fr (aFunctionCall ev name loc) := by
  have := sat_aNumberFunctionArgD hev
  have := sat_aUserFunctionCallD hev
  unfold aFunctionCall; sat_start; w_auto

theorem satS_aTerm (hev : AEvOKd d ev) : SatS (NF d) (aTerm ev) := by
  have := sat_aFunctionCallD hev
  have := sat_aArrayIndexD hev
  unfold aTerm
  refine SatS.bind_left (fun σ => wp_nextUnwrapped σ) fun t => ?_
  sat_start; w_auto

theorem satS_aParen (hev : AEvOKd d ev) : SatS (NF d) (aParen ev) := by
  unfold aParen
  refine SatS.bind_right (sat_accept _) fun b => ?_
  split
  · refine SatS.bind_left hev.expr fun v => ?_
    sat_start; w_auto
  · exact satS_aTerm hev

theorem satS_aUnary (hev : AEvOKd d ev) : SatS (NF d) (aUnary ev) := by
  unfold aUnary
  refine SatS.bind_right (sat_tryNext _) fun op => ?_
  refine SatS.bind_left (satS_aParen hev) fun t => ?_
  sat_start; w_auto

end aexpr

section alevel
variable {E : EPost F} [Compat E Fr]

theorem aLevelLoop_wp2 {sub : M F VT} (hsub : Sat E Fr sub) (ops : Token F → Option BinOp) (tier : ATier) :
    ∀ (n1 n2 : Nat) (v : VT) (σ : St F), rem σ < n1 → rem σ < n2 →
    wp2 E (aLevelLoop sub ops tier n1 v) (aLevelLoop sub ops tier n2 v) (fun _ σ' => Fr σ σ') σ := by
  intro n1
  induction n1 with
  | zero => intro n2 v σ h; omega
  | succ n1 ih =>
    intro n2 v σ h1 h2
    cases n2 with
    | zero => omega
    | succ n2 =>
      unfold aLevelLoop
      refine wp2_bind (R := Fr) (wp_tryNext ops σ) ?_
      rintro o σ1 ⟨hf1, hlt1⟩
      refine ⟨hf1, ?_⟩
      cases o with
      | none => exact wp2_refl (wp_pure hf1)
      | some op =>
        dsimp only
        have hlt := hlt1 (by intro h; cases h)
        refine wp2_bind (R := Fr) (hsub σ1) ?_
        intro r σ2 hf2
        refine ⟨hf2, ?_⟩
        have := hf2.rem_le
        cases tier with
        | arith =>
          dsimp only
          refine wp2_bind (R := Fr) (sat_checkNumber (E := E) v σ2) ?_
          intro _ σ3 hf3
          refine ⟨hf3, ?_⟩
          refine wp2_bind (R := Fr) (sat_checkNumber (E := E) r σ3) ?_
          intro _ σ4 hf4
          refine ⟨hf4, ?_⟩
          have := hf3.rem_le
          have := hf4.rem_le
          refine wp2_mono (ih n2 v σ4 (by omega) (by omega)) ?_
          intro _ σ5 h5
          exact hf1.trans (hf2.trans (hf3.trans (hf4.trans h5)))
        | cmp =>
          dsimp only
          refine wp2_bind (R := Fr) (sat_check (E := E) v r σ2) ?_
          intro _ σ3 hf3
          refine ⟨hf3, ?_⟩
          have := hf3.rem_le
          refine wp2_mono (ih n2 .num σ3 (by omega) (by omega)) ?_
          intro _ σ5 h5
          exact hf1.trans (hf2.trans (hf3.trans h5))
        | logic =>
          dsimp only
          refine wp2_mono (ih n2 .num σ2 (by omega) (by omega)) ?_
          intro _ σ5 h5
          exact hf1.trans (hf2.trans h5)

theorem satS_aLevel {sub : M F VT} (hsub : SatS E sub) (ops : Token F → Option BinOp) (tier : ATier) :
    SatS E (aLevel sub ops tier) := by
  intro σ
  unfold aLevel
  refine wp_bind (R := Fr) (hsub σ) ?_
  intro v σ1 h1
  refine ⟨h1.1, ?_⟩
  refine wp_bind (R := Fr) (wp_lineBudget σ1) ?_
  rintro b σ2 ⟨rfl, hb⟩
  refine ⟨Fr.refl _, ?_⟩
  exact wp_mono (aLevelLoop_wp2 hsub.sat ops tier b b v σ2 hb hb).2 fun _ _ h => h1.trans_fr h

end alevel

section astmt
variable {d : Nat} {ev : AEvals F}

theorem satS_aOrExpr (hev : AEvOKd d ev) : SatS (NF d) (aOrExpr ev) := by
  unfold aOrExpr
  exact satS_aLevel (satS_aLevel (satS_aLevel (satS_aLevel (satS_aLevel (satS_aLevel
    (satS_aUnary hev) _ _) _ _) _ _) _ _) _ _) _ _

theorem satS_aExprBody (hev : AEvOKd (d + 1) ev) : SatS (NF d) (aExprBody ev) := by
  intro σ
  unfold aExprBody
  refine wp_nested (wp_mono (satS_aOrExpr hev { σ with nesting := σ.nesting + 1 }) ?_)
  intro v σ' hs
  refine ⟨hs.1.nesting, ⟨hs.1.line, hs.1.lines, hs.1.imm, hs.1.idx, hs.1.stack, rfl⟩, hs.2⟩

theorem sat_aOptionalArrayIndexD (hev : AEvOKd d ev) : Sat (NF d) Fr (aOptionalArrayIndex ev) := by
  have := sat_aArrayIndexD hev
  unfold aOptionalArrayIndex; sat_start; w_auto

theorem sat_aAssignValueD (lv : ALValue) (r : VT) : Sat (NF d) Fr (aAssignValue (F := F) lv r) := by
  unfold aAssignValue; sat_start; w_auto

theorem sat_aAssignmentD (hev : AEvOKd d ev) (name : Str) : Sat (NF d) Fr (aAssignment ev name) := by
  have := sat_aOptionalArrayIndexD hev
  have := hev.exprSat
  have := sat_aAssignValueD (F := F) (d := d)
  unfold aAssignment; sat_start; w_auto

theorem sat_aLetD (hev : AEvOKd d ev) : Sat (NF d) Fr (aLet ev) := by
  have := sat_aAssignmentD hev
  unfold aLet; sat_start; w_auto

theorem sat_aParseLValueD (hev : AEvOKd d ev) : Sat (NF d) Fr (aParseLValue ev) := by
  have := sat_aOptionalArrayIndexD hev
  unfold aParseLValue; sat_start; w_auto

theorem aReadLoop_wp2 (hev : AEvOKd d ev) : ∀ (n1 n2 : Nat) (σ : St F), rem σ < n1 → rem σ < n2 →
    wp2 (NF d) (aReadLoop ev n1) (aReadLoop ev n2) (fun _ σ' => Fr σ σ') σ := by
  intro n1
  induction n1 with
  | zero => intro n2 σ h; omega
  | succ n1 ih =>
    intro n2 σ h1 h2
    cases n2 with
    | zero => omega
    | succ n2 =>
      unfold aReadLoop
      refine wp2_bind (R := Fr) (sat_aParseLValueD hev σ) ?_
      intro lv σ1 hf1
      refine ⟨hf1, ?_⟩
      refine wp2_bind (R := Fr) (sat_aAssignValueD (d := d) lv _ σ1) ?_
      intro _ σ2 hf2
      refine ⟨hf2, ?_⟩
      refine wp2_bind (R := Fr) (wp_accept _ σ2) ?_
      rintro b σ3 ⟨hf3, hlt3⟩
      refine ⟨hf3, ?_⟩
      have hall : Fr σ σ3 := hf1.trans (hf2.trans hf3)
      cases b with
      | false =>
        simp only [Bool.false_eq_true, if_false]
        exact wp2_refl (wp_pure hall)
      | true =>
        simp only [if_true]
        have hlt := hlt3 rfl
        have := (hf1.trans hf2).rem_le
        refine wp2_mono (ih n2 σ3 (by omega) (by omega)) ?_
        intro _ σ4 h4
        exact hall.trans h4

theorem sat_aReadD (hev : AEvOKd d ev) : Sat (NF d) Fr (lineBudget >>= fun b => aReadLoop ev b) := by
  intro σ
  refine wp_bind (R := Fr) (wp_lineBudget σ) ?_
  rintro b σ1 ⟨rfl, hb⟩
  exact ⟨Fr.refl _, (aReadLoop_wp2 hev b b σ1 hb hb).2⟩

theorem sat_aGotoOrGosubD : Sat (NF d) Fr (aGotoOrGosub (F := F)) := by
  unfold aGotoOrGosub; sat_start; w_auto

theorem sat_aNestedStmt (hev : AEvOKd d ev) : Sat (NF d) Fr (nested ev.stmt) := by
  intro σ
  refine wp_nested (wp_mono (hev.stmt { σ with nesting := σ.nesting + 1 }) ?_)
  intro _ σ' hs
  exact ⟨hs.nesting, ⟨hs.line, hs.lines, hs.imm, hs.idx, hs.stack, rfl⟩⟩

theorem sat_aStatementOrGotoD (hev : AEvOKd d ev) : Sat (NF d) Fr (aStatementOrGoto ev) := by
  have := sat_aGotoOrGosubD (F := F) (d := d)
  have := sat_aNestedStmt hev
  unfold aStatementOrGoto; sat_start; w_auto

theorem sat_aIfD (hev : AEvOKd d ev) : Sat (NF d) Fr (aIf ev) := by
  have := hev.exprSat
  have := sat_aStatementOrGotoD hev
  unfold aIf; sat_start; w_auto

theorem aPrintLoop_wp2 (hev : AEvOKd d ev) : ∀ (n1 n2 : Nat) (σ : St F), rem σ < n1 → rem σ < n2 →
    wp2 (NF d) (aPrintLoop ev n1) (aPrintLoop ev n2) (fun _ σ' => Fr σ σ') σ := by
  intro n1
  induction n1 with
  | zero => intro n2 σ h; omega
  | succ n1 ih =>
    intro n2 σ h1 h2
    cases n2 with
    | zero => omega
    | succ n2 =>
      unfold aPrintLoop
      refine wp2_bind (R := Fr) (wp_peek σ) ?_
      rintro o σ1 ⟨rfl, rfl⟩
      refine ⟨fr_rd σ, ?_⟩
      cases hc : cur σ with
      | none => exact wp2_refl (wp_pure (fr_rd σ))
      | some t =>
        dsimp only
        split
        · exact wp2_refl (wp_pure (fr_rd σ))
        · split
          · refine wp2_bind (R := Fr) (wp_next (rd σ)) ?_
            rintro o2 σ2 ⟨hf2, ho2, hlt2⟩
            refine ⟨hf2, ?_⟩
            have hlt : rem σ2 < rem σ := hlt2 (by rw [ho2, cur_rd, hc]; intro h; cases h)
            refine wp2_mono (ih n2 σ2 (by omega) (by omega)) ?_
            intro _ σ3 h3
            exact (fr_rd σ).trans (hf2.trans h3)
          · refine wp2_bind (R := Fr) (hev.expr (rd σ)) ?_
            intro v σ2 hs2
            refine ⟨hs2.1, ?_⟩
            have : rem σ2 < rem σ := hs2.2
            refine wp2_mono (ih n2 σ2 (by omega) (by omega)) ?_
            intro _ σ3 h3
            exact (fr_rd σ).trans (hs2.1.trans h3)

theorem sat_aPrintD (hev : AEvOKd d ev) : Sat (NF d) Fr (lineBudget >>= fun b => aPrintLoop ev b) := by
  intro σ
  refine wp_bind (R := Fr) (wp_lineBudget σ) ?_
  rintro b σ1 ⟨rfl, hb⟩
  exact ⟨Fr.refl _, (aPrintLoop_wp2 hev b b σ1 hb hb).2⟩

theorem sat_aForD (hev : AEvOKd d ev) : Sat (NF d) Fr (aFor ev) := by
  have := hev.exprSat
  unfold aFor; sat_start; w_auto

theorem sat_aNextD : Sat (NF d) Fr (aNext (F := F)) := by
  unfold aNext; sat_start; w_auto

/-- `lineBudget` followed by the parameter list of DEF, then anything that keeps the frame -/
theorem sat_defArgsThen {α : Type} {k : List Str → M F α} (hk : ∀ args, Sat (NF d) Fr (k args)) :
    Sat (NF d) Fr (lineBudget >>= fun b => defArgsLoop b [] >>= k) := by
  intro σ
  refine wp_bind (R := Fr) (wp_lineBudget σ) ?_
  rintro b σ1 ⟨rfl, hb⟩
  refine ⟨Fr.refl _, ?_⟩
  refine wp_bind (R := Fr) (defArgsLoop_wp2 (E := NF d) b b [] σ1 hb hb).2 ?_
  intro args σ2 hf2
  exact ⟨hf2, wp_mono (hk args σ2) fun _ _ h => hf2.trans h⟩

theorem sat_aDefD (hev : AEvOKd d ev) : Sat (NF d) Fr (aDef ev) := by
  have := hev.exprSat
  unfold aDef
  sat_start
  refine W.bind sat_next fun o _ => ?_
  split
  · refine W.bind sat_prevLoc fun loc _ => ?_
    refine W.bind (sat_logAccess _ _ _) fun _ _ => ?_
    refine W.bind (sat_expect _) fun _ _ => ?_
    refine W.of_sat (sat_defArgsThen fun args => ?_)
    sat_start; w_auto
  · w_auto

theorem sat_aStmtTailD (hev : AEvOKd d ev) (o : Option (Token F)) :
    Sat (NF d) Fr (match o with
      | none => pure ()
      | some (.remark _) => pure ()
      | some (.data _) => pure ()
      | some (.symbol name) => aAssignment ev name
      | some (.kw k) =>
        match k with
        | .Stop => pure ()
        | .Dim => do
          let lv ← aParseLValue ev
          logAccess lv.name lv.loc .write
        | .Print => do
          let b ← lineBudget
          aPrintLoop ev b
        | .QuestionMark => do
          let b ← lineBudget
          aPrintLoop ev b
        | .Input => do
          let lv ← aParseLValue ev
          logAccess lv.name lv.loc .write
        | .If => aIf ev
        | .Goto => aGotoOrGosub
        | .Gosub => aGotoOrGosub
        | .Return => pure ()
        | .End => pure ()
        | .For => aFor ev
        | .Next => aNext
        | .Restore => modify fun s => { s with data := none }
        | .Def => aDef ev
        | .Read => do
          let b ← lineBudget
          aReadLoop ev b
        | .Colon => pure ()
        | .Let => aLet ev
        | _ => fail (.syntax .unexpectedToken)
      | some _ => fail (.syntax .unexpectedToken) : M F Unit) := by
  have := sat_aAssignmentD hev
  have := sat_aParseLValueD hev
  have := sat_aPrintD hev
  have := sat_aIfD hev
  have := sat_aGotoOrGosubD (F := F) (d := d)
  have := sat_aForD hev
  have := sat_aNextD (F := F) (d := d)
  have := sat_aDefD hev
  have := sat_aReadD hev
  have := sat_aLetD hev
  sat_start; w_auto

theorem sat_aStmtBodyD (hev : AEvOKd d ev) : Sat (NF d) Fr (aStmtBody ev) := by
  unfold aStmtBody
  exact Sat.bind sat_next fun o => sat_aStmtTailD hev o

end astmt

theorem AEvOKd.mono {d d' : Nat} {ev : AEvals F} (h : d ≤ d') (hev : AEvOKd d ev) : AEvOKd d' ev :=
  ⟨fun σ => wp_mono_d h (hev.expr σ), fun σ => wp_mono_d (Nat.succ_le_succ h) (hev.stmt σ)⟩

/-- the invariant of the analyzer's recursion fuel (as `evOK_evalN`) -/
theorem aEvOKd_aEvalN (n : Nat) : AEvOKd (Extracted.nestingLimit + 2 - n) (aEvalN (F := F) n) := by
  induction n with
  | zero =>
    constructor
    · intro σ h1 h2; omega
    · intro σ h1 h2; omega
  | succ n ih =>
    have ih' : AEvOKd (Extracted.nestingLimit + 2 - (n + 1) + 1) (aEvalN (F := F) n) := ih.mono (by omega)
    exact ⟨satS_aExprBody ih', sat_aStmtBodyD ih'⟩

end Abasic.Budget
