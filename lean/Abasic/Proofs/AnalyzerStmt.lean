import Abasic.Props.C06More
import Abasic.Proofs.StmtLemmas
/-
  Helper lemmas for C06 at the statement level (Abasic/Props/C06Stmt.lean):
  the statement analyzer of Analyzer.lean (`aStmtBody`, `aLet`, `aAssignment`,
  `aPrintLoop`, `aIf`, `aGotoOrGosub`, `aStatementOrGoto`) on the token cursor.

  * `SAgrees`   — agreement of a `Unit`-valued analyzer run with a static verdict
                  `Except Err Unit` (the statement analogue of `AnaL.AAgrees`);
  * moving such an agreement between start states (`sagrees_mv`) and one nesting
    level up (`sagrees_nested`);
  * one equation per cursor step of the statement analyzer: the dispatch of
    `aStmtBody` on the first keyword, `aOptionalArrayIndex`, `aAssignValue`,
    `aGotoOrGosub`, `aStatementOrGoto`, one iteration of `aPrintLoop`.
-/
set_option linter.unusedSectionVars false

namespace Abasic.AnaS
open Abasic Abasic.Ref Abasic.ExprL Abasic.AnaL Abasic.StmtL M Abasic.Props.C06

variable {F : Type}

/-- agreement of a statement-analyzer run with the spec's static verdict: on
    acceptance, the run is the continuation `k` applied to some larger read
    counter; on an error, the run fails with that error and leaves the nesting
    counter alone. -/
def SAgrees (res : Res F Unit) (ty : Except Err Unit) (σ : St F) (k : Nat → Res F Unit) : Prop :=
  match ty with
  | .ok _ => ∃ r, σ.reads < r ∧ res = k r
  | .error x => ∃ σ', res = .err { err := x } σ' ∧ σ'.nesting = σ.nesting

/-- the cursor and the read counter of the start state do not matter -/
theorem sagrees_mv {res : Res F Unit} {ty : Except Err Unit} {σ : St F} {a k0 : Nat}
    {k : Nat → Res F Unit} (h : SAgrees res ty (mv σ a k0) k) (hk : σ.reads ≤ k0) :
    SAgrees res ty σ k := by
  cases ty with
  | ok u =>
    obtain ⟨r, hr, hres⟩ := h
    exact ⟨r, by simp only [mv_reads] at hr; omega, hres⟩
  | error x => exact h

/-- … nor does the access log -/
theorem sagrees_lg {res : Res F Unit} {ty : Except Err Unit} {σ : St F} {a : List Acc}
    {k : Nat → Res F Unit} (h : SAgrees res ty (lg σ a) k) : SAgrees res ty σ k := by
  cases ty with
  | ok u => exact h
  | error x => exact h

/-- an agreement established from a later state `S` of the same run (larger read
    counter, same nesting counter), with the continuation rewritten -/
theorem sagrees_from {res : Res F Unit} {ty : Except Err Unit} {σ S : St F}
    {k k' : Nat → Res F Unit} (h : SAgrees res ty S k) (hr : σ.reads ≤ S.reads)
    (hn : S.nesting = σ.nesting) (hk : ∀ r, k r = k' r) : SAgrees res ty σ k' := by
  cases ty with
  | ok u =>
    obtain ⟨r, hr', hres⟩ := h
    exact ⟨r, by omega, by rw [hres, hk]⟩
  | error x =>
    obtain ⟨σ', hσ', hn'⟩ := h
    exact ⟨σ', hσ', by rw [hn', hn]⟩

/-- `accept k` when the next token (if any) is not `k` -/
theorem accept_no {σ : St F} {pre post : List (Token F)} {k : Kw}
    (h : At σ pre post) (hk : ∀ t, post.head? = some t → t.isKw k = false) :
    accept k σ = .ok false (mv σ 0 (σ.reads + 1)) := by
  unfold accept
  rw [bind_ok (peek_eq h)]
  cases hp : post.head? with
  | none => rfl
  | some t => simp only [hk t hp]; rfl

variable [NumOps F]

/-- a run one nesting level deeper -/
theorem sagrees_nested {m : M F Unit} {ty : Except Err Unit} {σ : St F} (len : Nat) (acc : List Acc)
    (hn : σ.nesting < Extracted.nestingLimit)
    (h : SAgrees (m (nest σ (σ.nesting + 1))) ty (nest σ (σ.nesting + 1))
      (fun r => .ok () (lg (mv (nest σ (σ.nesting + 1)) len r) acc))) :
    SAgrees (nested m σ) ty σ (fun r => .ok () (lg (mv σ len r) acc)) := by
  cases ty with
  | error e =>
    obtain ⟨σ', hσ', hn'⟩ := h
    exact ⟨nest σ' σ.nesting, nested_err hn hσ' hn', rfl⟩
  | ok v =>
    obtain ⟨r, hr, hσ'⟩ := h
    exact ⟨r, hr, nested_ok hn hσ' rfl⟩

/-! ### the dispatch of `aStmtBody` -/

theorem aStmtBody_let {ev : AEvals F} {σ : St F} {pre post : List (Token F)}
    (h : At σ pre (.kw .Let :: post)) :
    aStmtBody ev σ = aLet ev (mv σ 1 (σ.reads + 1)) := by
  unfold aStmtBody
  rw [bind_ok (next_eq h)]

theorem aStmtBody_print {ev : AEvals F} {σ : St F} {pre post : List (Token F)}
    (h : At σ pre (.kw .Print :: post)) :
    aStmtBody ev σ = (lineBudget >>= fun b => aPrintLoop ev b) (mv σ 1 (σ.reads + 1)) := by
  unfold aStmtBody
  rw [bind_ok (next_eq h)]

theorem aStmtBody_goto {ev : AEvals F} {σ : St F} {pre post : List (Token F)}
    (h : At σ pre (.kw .Goto :: post)) :
    aStmtBody ev σ = aGotoOrGosub (mv σ 1 (σ.reads + 1)) := by
  unfold aStmtBody
  rw [bind_ok (next_eq h)]

theorem aStmtBody_end {ev : AEvals F} {σ : St F} {pre post : List (Token F)}
    (h : At σ pre (.kw .End :: post)) :
    aStmtBody ev σ = .ok () (mv σ 1 (σ.reads + 1)) := by
  unfold aStmtBody
  rw [bind_ok (next_eq h)]
  rfl

theorem aStmtBody_if {ev : AEvals F} {σ : St F} {pre post : List (Token F)}
    (h : At σ pre (.kw .If :: post)) :
    aStmtBody ev σ = aIf ev (mv σ 1 (σ.reads + 1)) := by
  unfold aStmtBody
  rw [bind_ok (next_eq h)]

/-! ### LET -/

theorem aOptionalArrayIndex_none {ev : AEvals F} {σ : St F} {pre post : List (Token F)} {t : Token F}
    (h : At σ pre (t :: post)) (ht : t.isKw .LeftParen = false) :
    aOptionalArrayIndex ev σ = .ok none (mv σ 0 (σ.reads + 1)) := by
  unfold aOptionalArrayIndex
  rw [bind_ok (peekIsKw_cons .LeftParen h)]
  simp only [ht, Bool.false_eq_true, ↓reduceIte]
  rfl

/-- the assignment check accepted: the write is logged -/
theorem aAssignValue_ok (x : Str) (ln i : Nat) (a : Option Nat) (σ : St F) :
    aAssignValue { name := x, loc := { line := some ln, idx := i }, arity := a } (VT.ofName x) σ =
      .ok () (lg σ [(x, ln, i, .write)]) := by
  unfold aAssignValue
  rw [bind_ok (logAccess_eq _ _ _ _ _)]
  show (VT.check (F := F) (VT.ofName x) (VT.ofName x) >>= _) _ = _
  rw [bind_ok (check_same _ _)]
  rfl

/-- the assignment check rejected: TYPE MISMATCH (the write has been logged already) -/
theorem aAssignValue_err (x : Str) (ln i : Nat) (a : Option Nat) (t : VT) (ht : VT.ofName x ≠ t) (σ : St F) :
    aAssignValue { name := x, loc := { line := some ln, idx := i }, arity := a } t σ =
      .err { err := .typeMismatch } (lg σ [(x, ln, i, .write)]) := by
  unfold aAssignValue
  rw [bind_ok (logAccess_eq _ _ _ _ _)]
  show (VT.check (F := F) (VT.ofName x) t >>= _) _ = _
  rw [bind_err (check_diff ht _)]

/-! ### GOTO -/

theorem aGotoOrGosub_eq {σ : St F} {pre post : List (Token F)} {x : F}
    (h : At σ pre (.num x :: post)) :
    aGotoOrGosub σ =
      if σ.lines.has (NumOps.toU64 x) then .ok () (mv σ 1 (σ.reads + 1))
      else .err { err := .undefinedStatement } (mv σ 1 (σ.reads + 1)) := by
  unfold aGotoOrGosub
  rw [bind_ok (next_eq h)]
  have hl : (mv σ 1 (σ.reads + 1)).lines = σ.lines := rfl
  simp only [bind, M.bindM, M.get, hl]
  cases σ.lines.has (NumOps.toU64 x) <;> rfl

/-! ### the branch of an IF -/

theorem aStatementOrGoto_kw {ev : AEvals F} {σ : St F} {pre post : List (Token F)} {k : Kw}
    (h : At σ pre (.kw k :: post)) :
    aStatementOrGoto ev σ = nested ev.stmt (mv σ 0 (σ.reads + 1)) := by
  unfold aStatementOrGoto
  rw [bind_ok (peek_eq h)]
  rfl

/-! ### one iteration of `aPrintLoop` -/

theorem aPrintLoop_semi {ev : AEvals F} {k : Nat} {σ : St F}
    {pre post : List (Token F)} (h : At σ pre (.kw .Semicolon :: post)) :
    aPrintLoop ev (k + 1) σ = aPrintLoop ev k (mv σ 1 (σ.reads + 1 + 1)) := by
  have h1 : (Token.kw (F := F) .Semicolon).isKw .Colon = false := rfl
  have h2 : (Token.kw (F := F) .Semicolon).isKw .Else = false := rfl
  have h3 : (Token.kw (F := F) .Semicolon).isKw .Semicolon = true := rfl
  rw [aPrintLoop]
  rw [bind_ok (peek_eq h)]
  simp only [List.head?_cons, h1, h2, h3, Bool.or_false, Bool.true_or, Bool.false_eq_true, ↓reduceIte]
  rw [bind_ok (next_eq (at_mv0 h _)), mv_mv]
  rfl

theorem aPrintLoop_comma {ev : AEvals F} {k : Nat} {σ : St F}
    {pre post : List (Token F)} (h : At σ pre (.kw .Comma :: post)) :
    aPrintLoop ev (k + 1) σ = aPrintLoop ev k (mv σ 1 (σ.reads + 1 + 1)) := by
  have h1 : (Token.kw (F := F) .Comma).isKw .Colon = false := rfl
  have h2 : (Token.kw (F := F) .Comma).isKw .Else = false := rfl
  have h3 : (Token.kw (F := F) .Comma).isKw .Semicolon = false := rfl
  have h4 : (Token.kw (F := F) .Comma).isKw .Comma = true := rfl
  rw [aPrintLoop]
  rw [bind_ok (peek_eq h)]
  simp only [List.head?_cons, h1, h2, h3, h4, Bool.or_false, Bool.or_true, Bool.false_eq_true, ↓reduceIte]
  rw [bind_ok (next_eq (at_mv0 h _)), mv_mv]
  rfl

theorem aPrintLoop_expr {ev : AEvals F} {k : Nat} {σ : St F}
    {pre post : List (Token F)} {t : Token F} (h : At σ pre (t :: post)) (hp : Plain t) :
    aPrintLoop ev (k + 1) σ =
      (ev.expr >>= fun _ => aPrintLoop ev k) (mv σ 0 (σ.reads + 1)) := by
  obtain ⟨h1, h2, h3, h4⟩ := hp
  rw [aPrintLoop]
  rw [bind_ok (peek_eq h)]
  simp only [List.head?_cons, h1, h2, h3, h4, Bool.or_false, Bool.false_eq_true, ↓reduceIte]

theorem aPrintLoop_stop {ev : AEvals F} {k : Nat} {σ : St F}
    {pre rest : List (Token F)} (h : At σ pre rest) (hE : StmtEnd rest) :
    aPrintLoop ev (k + 1) σ = .ok () (mv σ 0 (σ.reads + 1)) := by
  rw [aPrintLoop]
  rw [bind_ok (peek_eq h)]
  cases hr : rest.head? with
  | none => rfl
  | some t =>
    rcases hE t hr with rfl | rfl
    · rfl
    · rfl

end Abasic.AnaS
