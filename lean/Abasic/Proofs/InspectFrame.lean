import Abasic.Proofs.ExprFrame
/-
  A second frame for expression evaluations and PRINT (used by C07
  `inspect_returns` / `inspect_then_cont`), complementing `XF.RX`:

  `RQ σ σ'` — the token index of the cursor has not moved backwards, the
  analyzer's access log is untouched, the read counter has not decreased, and
  the output queue has only GROWN, by `Out.print` / `Out.warning` records put
  on top of it (`OutExt`).

  `Respects RQ` is lifted through every function of Expr.lean — a user function
  call moves the cursor to the DEF line and back: the frame pushed by the call
  holds the return location, and `XF.RX` (stack restored) shows that it is the
  one popped — and through PRINT.
-/
set_option linter.unusedSectionVars false

namespace Abasic.Proofs.XQ
open Abasic Abasic.Hoare Abasic.Proofs.XF M

variable {F : Type} [NumOps F]

/-- the records an inspection can put on the queue -/
def isPW : Out → Bool
  | .print _ => true
  | .warning _ _ => true
  | _ => false

/-- `o'` is `o` with `Out.print` / `Out.warning` records put on top -/
def OutExt (o o' : List Out) : Prop := ∃ extra, o' = extra ++ o ∧ ∀ x ∈ extra, isPW x = true

theorem OutExt.refl (o : List Out) : OutExt o o := ⟨[], rfl, fun _ h => by cases h⟩

theorem OutExt.trans {a b c : List Out} (h1 : OutExt a b) (h2 : OutExt b c) : OutExt a c := by
  obtain ⟨e1, rfl, p1⟩ := h1
  obtain ⟨e2, rfl, p2⟩ := h2
  refine ⟨e2 ++ e1, by rw [List.append_assoc], fun x hx => ?_⟩
  rcases List.mem_append.1 hx with h | h
  · exact p2 x h
  · exact p1 x h

theorem OutExt.cons {o : List Out} (x : Out) (h : isPW x = true) : OutExt o (x :: o) :=
  ⟨[x], rfl, fun y hy => by
    rcases List.mem_singleton.1 hy with rfl
    exact h⟩

structure RQ (σ σ' : St F) : Prop where
  idx : σ.loc.idx ≤ σ'.loc.idx
  accesses : σ'.accesses = σ.accesses
  out : OutExt σ.out σ'.out
  reads : σ.reads ≤ σ'.reads

instance : IsFrame (RQ (F := F)) where
  refl _ := ⟨Nat.le_refl _, rfl, OutExt.refl _, Nat.le_refl _⟩
  trans h1 h2 := ⟨Nat.le_trans h1.idx h2.idx, h2.accesses.trans h1.accesses, h1.out.trans h2.out,
    Nat.le_trans h1.reads h2.reads⟩

theorem rq_mk {σ σ' : St F} (h1 : σ.loc.idx ≤ σ'.loc.idx) (h2 : σ'.accesses = σ.accesses)
    (h3 : σ'.out = σ.out) (h4 : σ.reads ≤ σ'.reads) : RQ σ σ' :=
  ⟨h1, h2, by rw [h3]; exact OutExt.refl _, h4⟩

macro_rules | `(tactic| respects_leaf) => `(tactic| first | exact rq_mk (Nat.le_refl _) rfl rfl (Nat.le_refl _) | exact rq_mk (Nat.le_succ _) rfl rfl (Nat.le_refl _) | exact rq_mk (Nat.le_refl _) rfl rfl (Nat.le_succ _))

/-! ### Program.lean -/

theorem rq_tokens : Respects RQ (tokens (F := F)) := any_tokens
macro_rules | `(tactic| respects_prim) => `(tactic| exact rq_tokens)

theorem rq_peek : Respects RQ (peek (F := F)) := by
  unfold peek
  respects_tac
macro_rules | `(tactic| respects_prim) => `(tactic| exact rq_peek)

theorem rq_advance : Respects RQ (advance (F := F)) := by
  unfold advance
  respects_tac
macro_rules | `(tactic| respects_prim) => `(tactic| exact rq_advance)

theorem rq_next : Respects RQ (next (F := F)) := by
  unfold next
  respects_tac
macro_rules | `(tactic| respects_prim) => `(tactic| exact rq_next)

theorem rq_hasNext : Respects RQ (hasNext (F := F)) := by
  unfold hasNext
  respects_tac
macro_rules | `(tactic| respects_prim) => `(tactic| exact rq_hasNext)

theorem rq_nextUnwrapped : Respects RQ (nextUnwrapped (F := F)) := by
  unfold nextUnwrapped
  respects_tac
macro_rules | `(tactic| respects_prim) => `(tactic| exact rq_nextUnwrapped)

theorem rq_expect (k : Kw) : Respects RQ (expect (F := F) k) := by
  unfold expect
  respects_tac
macro_rules | `(tactic| respects_prim) => `(tactic| exact rq_expect _)

theorem rq_accept (k : Kw) : Respects RQ (accept (F := F) k) := by
  unfold accept
  respects_tac
macro_rules | `(tactic| respects_prim) => `(tactic| exact rq_accept _)

theorem rq_peekIsKw (k : Kw) : Respects RQ (peekIsKw (F := F) k) := by
  unfold peekIsKw
  respects_tac
macro_rules | `(tactic| respects_prim) => `(tactic| exact rq_peekIsKw _)

theorem rq_tryNext {α : Type} (f : Token F → Option α) : Respects RQ (tryNext f) := by
  unfold tryNext
  respects_tac
macro_rules | `(tactic| respects_prim) => `(tactic| exact rq_tryNext _)

theorem rq_emit (o : Out) (h : isPW o = true) : Respects RQ (emit (F := F) o) := by
  unfold emit
  apply respects_modify
  intro σ
  exact ⟨Nat.le_refl _, rfl, OutExt.cons o h, Nat.le_refl _⟩
macro_rules | `(tactic| respects_prim) => `(tactic| exact rq_emit _ rfl)

theorem rq_enterNested : Respects RQ (enterNested (F := F)) := by
  unfold enterNested
  respects_tac
macro_rules | `(tactic| respects_prim) => `(tactic| exact rq_enterNested)

theorem rq_exitNested : Respects RQ (exitNested (F := F)) := by
  unfold exitNested
  respects_tac
macro_rules | `(tactic| respects_prim) => `(tactic| exact rq_exitNested)

theorem rq_nested {α : Type} {m : M F α} (hm : Respects RQ m) : Respects RQ (nested m) := by
  unfold nested
  respects_tac

/-! ### Arrays.lean / Expr.lean -/

theorem rq_lineBudget : Respects RQ (lineBudget (F := F)) := by
  unfold lineBudget
  respects_tac
macro_rules | `(tactic| respects_prim) => `(tactic| exact rq_lineBudget)

theorem rq_warn (msg : Str) : Respects RQ (warn (F := F) msg) := by
  unfold warn
  respects_tac
macro_rules | `(tactic| respects_prim) => `(tactic| exact rq_warn _)

theorem rq_warnUndeclaredArray (name : Str) : Respects RQ (warnUndeclaredArray (F := F) name) := by
  unfold warnUndeclaredArray
  respects_tac
macro_rules | `(tactic| respects_prim) => `(tactic| exact rq_warnUndeclaredArray _)

theorem rq_ensureArray (name : Str) (k : Nat) : Respects RQ (ensureArray (F := F) name k) := by
  unfold ensureArray
  respects_tac
macro_rules | `(tactic| respects_prim) => `(tactic| exact rq_ensureArray _ _)

theorem rq_arrayGet (name : Str) (idx : List Nat) : Respects RQ (arrayGet (F := F) name idx) := by
  unfold arrayGet
  respects_tac
macro_rules | `(tactic| respects_prim) => `(tactic| exact rq_arrayGet _ _)

theorem rq_rndG (big : Nat) (prodf modf : Nat → Nat) (x : F) : Respects RQ (rndG big prodf modf x) := by
  unfold rndG
  respects_tac

theorem rq_rnd (x : F) : Respects RQ (rnd x) := by
  rw [rnd_eq]; exact rq_rndG _ _ _ _
macro_rules | `(tactic| respects_prim) => `(tactic| exact rq_rnd _)

section evaluator
variable (ev : Evals F) (he : Respects RX ev.expr) (hq : Respects RQ ev.expr)
include he hq

/-- the call proper: the cursor comes back to where it was -/
theorem rq_callBody (name : Str) (b : List (Str × Value F)) : Respects RQ (callBody ev name b) := by
  apply respects_of_at
  intro σ
  have key : RQ σ (callBody ev name b σ).final := by
    rw [callBody_eq]
    by_cases hl : (σ.stack.length == Extracted.stackLimit) = true
    · rw [if_pos hl]; exact IsFrame.refl σ
    · rw [if_neg hl]
      cases hd : alGet name σ.fns with
      | none => exact IsFrame.refl σ
      | some d =>
        dsimp only
        have hx := he.final { σ with stack := { ret := σ.loc, vars := b } :: σ.stack,
                                     loc := { line := some d.line, idx := d.idx } }
        have hy := hq.final { σ with stack := { ret := σ.loc, vars := b } :: σ.stack,
                                     loc := { line := some d.line, idx := d.idx } }
        cases hr : ev.expr { σ with stack := { ret := σ.loc, vars := b } :: σ.stack,
                                    loc := { line := some d.line, idx := d.idx } } with
        | ok v s =>
          rw [hr] at hx hy
          have hs : s.stack = { ret := σ.loc, vars := b } :: σ.stack := hx.stack
          dsimp only
          rw [hs]
          exact ⟨Nat.le_refl _, hy.accesses, hy.out, hy.reads⟩
        | err e s =>
          rw [hr] at hx hy
          have hs : s.stack = { ret := σ.loc, vars := b } :: σ.stack := hx.stack
          dsimp only
          rw [hs]
          exact ⟨Nat.le_refl _, hy.accesses, hy.out, hy.reads⟩
  constructor
  · intro a s hs; rw [hs] at key; exact key
  · intro a s hs; rw [hs] at key; exact key

omit he in
theorem rq_arrayIndexLoop (n : Nat) (acc : List Nat) : Respects RQ (arrayIndexLoop ev n acc) := by
  induction n generalizing acc with
  | zero => unfold arrayIndexLoop; respects_tac
  | succ n ih => unfold arrayIndexLoop; respects_tac

omit he in
theorem rq_arrayIndex : Respects RQ (arrayIndex ev) := by
  unfold arrayIndex
  have := rq_arrayIndexLoop ev hq
  respects_tac

omit he in
theorem rq_numberFunctionArg : Respects RQ (numberFunctionArg ev) := by
  unfold numberFunctionArg
  respects_tac

omit he in
theorem rq_bindArgs (arity : Nat) (args : List Str) (i : Nat) (acc : List (Str × Value F)) :
    Respects RQ (bindArgs ev arity args i acc) := by
  induction args generalizing i acc with
  | nil => unfold bindArgs; respects_tac
  | cons a rest ih => unfold bindArgs; respects_tac

theorem rq_userFunctionCall (name : Str) : Respects RQ (userFunctionCall ev name) := by
  rw [userFunctionCall_eq]
  have := rq_bindArgs ev hq
  have := rq_callBody ev he hq
  respects_tac

theorem rq_functionCall (name : Str) : Respects RQ (functionCall ev name) := by
  unfold functionCall
  have := rq_numberFunctionArg ev hq
  have := rq_userFunctionCall ev he hq
  respects_tac

theorem rq_term : Respects RQ (term ev) := by
  unfold term
  have := rq_functionCall ev he hq
  have := rq_arrayIndex ev hq
  respects_tac

theorem rq_parenExpr : Respects RQ (parenExpr ev) := by
  unfold parenExpr
  have := rq_term ev he hq
  respects_tac

theorem rq_unaryExpr : Respects RQ (unaryExpr ev) := by
  unfold unaryExpr
  have := rq_parenExpr ev he hq
  respects_tac

omit he hq in
theorem rq_levelLoop {sub : M F (Value F)} (hs : Respects RQ sub) (ops : Token F → Option BinOp)
    (n : Nat) (v : Value F) : Respects RQ (levelLoop sub ops n v) := by
  induction n generalizing v with
  | zero => unfold levelLoop; respects_tac
  | succ n ih => unfold levelLoop; respects_tac

omit he hq in
theorem rq_level {sub : M F (Value F)} (hs : Respects RQ sub) (ops : Token F → Option BinOp) :
    Respects RQ (level sub ops) := by
  unfold level
  have := rq_levelLoop hs ops
  respects_tac

theorem rq_orExpr : Respects RQ (orExpr ev) := by
  unfold orExpr
  exact rq_level (rq_level (rq_level (rq_level (rq_level (rq_level
    (rq_unaryExpr ev he hq) _) _) _) _) _) _

theorem rq_exprBody : Respects RQ (exprBody ev) := by
  unfold exprBody
  exact rq_nested (rq_orExpr ev he hq)

omit he in
theorem rq_printLoop (n : Nat) (semi : Bool) (acc : Str) : Respects RQ (printLoop ev n semi acc) := by
  induction n generalizing semi acc with
  | zero => unfold printLoop; respects_tac
  | succ n ih => unfold printLoop; respects_tac

omit he in
theorem rq_printStatement : Respects RQ (printStatement ev) := by
  unfold printStatement
  have := rq_printLoop ev hq
  respects_tac

end evaluator

/-- every expression evaluation, at every fuel, respects the frame -/
theorem rq_evalN_expr (n : Nat) : Respects RQ (evalN (F := F) n).expr := by
  induction n with
  | zero => exact respects_fail _
  | succ n ih => exact rq_exprBody _ (rx_evalN_expr n) ih

end Abasic.Proofs.XQ
