import Abasic.Tokenizer
/-
  Facts about the DATA item parser (`DataParser`): how a run ends, that what follows the
  terminating colon is never looked at, and byte counting.
-/
namespace Abasic
variable {F : Type} [NumOps F]

theorem len8_append (a b : Str) : len8 (a ++ b) = len8 a + len8 b := by
  induction a with
  | nil => simp [len8]
  | cons x xs ih => simp only [List.cons_append, len8, ih]; omega

namespace DataParser

theorem pushCurrent_fields (p : DataParser F) :
    p.pushCurrent.inQuote = p.inQuote ∧ p.pushCurrent.chomped = p.chomped ∧
    p.pushCurrent.finished = p.finished ∧ p.pushCurrent.cur = [] := by
  unfold pushCurrent; exact ⟨rfl, rfl, rfl, rfl⟩

theorem finish_finished (p : DataParser F) : p.finish.finished = true := by
  unfold finish
  by_cases h : p.finished = true
  · rw [if_pos h]; exact h
  · rw [if_neg h]

theorem finish_chomped (p : DataParser F) : p.finish.chomped = p.chomped := by
  unfold finish
  by_cases h : p.finished = true
  · rw [if_pos h]
  · rw [if_neg h]
    simp only
    split
    · exact (pushCurrent_fields p).2.1
    · split
      · exact (pushCurrent_fields p).2.1
      · rfl

theorem finish_of_finished (p : DataParser F) (h : p.finished = true) : p.finish = p := by
  unfold finish; rw [if_pos h]

/-- An unquoted colon finishes the run; nothing else does. -/
theorem parseChar_colon (p : DataParser F) (hq : p.inQuote = false) :
    p.parseChar ':' = p.finish := by
  unfold parseChar
  simp only [hq, Bool.not_false, ↓reduceIte, beq_self_eq_true, finish_finished, Bool.not_true,
    Bool.false_eq_true]

theorem parseChar_unfinished (p : DataParser F) (c : Char) (hf : p.finished = false)
    (h : ¬ (p.inQuote = false ∧ c = ':')) :
    (p.parseChar c).finished = false ∧ (p.parseChar c).chomped = p.chomped + c.utf8Size := by
  have hpf := (pushCurrent_fields p).2.2.1
  unfold parseChar
  cases hq : p.inQuote with
  | false =>
    have hc : (c == ':') = false := by
      apply beq_false_of_ne; intro e; exact h ⟨hq, e⟩
    simp only [Bool.not_false, ↓reduceIte, hc, Bool.false_eq_true]
    by_cases h1 : (c == ',') = true
    · simp only [h1, ↓reduceIte]
      by_cases h2 : (!(trim p.cur).isEmpty) = true
      · simp only [h2, ↓reduceIte, hpf, hf, Bool.not_false, (pushCurrent_fields p).2.1, and_self]
      · simp only [h2, ↓reduceIte, hf, Bool.not_false, Bool.false_eq_true, and_self]
    · simp only [h1, Bool.false_eq_true, ↓reduceIte]
      by_cases h2 : (c == '"') = true
      · simp only [h2, ↓reduceIte]
        by_cases h3 : (trim p.cur).isEmpty = true
        · simp only [h3, ↓reduceIte, hf, Bool.not_false, and_self]
        · simp only [h3, Bool.false_eq_true, ↓reduceIte, hf, Bool.not_false, and_self]
      · simp only [h2, Bool.false_eq_true, ↓reduceIte, hf, Bool.not_false, and_self]
  | true =>
    simp only [Bool.not_true, Bool.false_eq_true, ↓reduceIte]
    by_cases h2 : (c == '"') = true
    · simp only [h2, ↓reduceIte, hpf, hf, Bool.not_false, (pushCurrent_fields p).2.1, and_self]
    · simp only [h2, Bool.false_eq_true, ↓reduceIte, hf, Bool.not_false, and_self]

theorem run_nil (p : DataParser F) : run p [] = p := rfl

theorem run_cons (p : DataParser F) (c : Char) (cs : Str) :
    run p (c :: cs) = if (p.parseChar c).finished then p.parseChar c else run (p.parseChar c) cs := rfl

/-- While the run has not finished, it can be continued. -/
theorem run_append (a : Str) : ∀ (p : DataParser F), (run p a).finished = false →
    ∀ y, run p (a ++ y) = run (run p a) y := by
  induction a with
  | nil => intro p _ y; rfl
  | cons c cs ih =>
    intro p h y
    rw [run_cons] at h
    rw [List.cons_append, run_cons, run_cons]
    by_cases hf : (p.parseChar c).finished = true
    · rw [if_pos hf] at h; rw [hf] at h; cases h
    · rw [if_neg hf] at h
      rw [if_neg hf, if_neg hf]
      exact ih _ h y

/-- Every character of an unfinished run is counted. -/
theorem run_chomped (a : Str) : ∀ (p : DataParser F), p.finished = false → (run p a).finished = false →
    (run p a).chomped = p.chomped + len8 a := by
  induction a with
  | nil => intro p _ _; simp [run, len8]
  | cons c cs ih =>
    intro p hp h
    rw [run_cons] at h ⊢
    by_cases hf : (p.parseChar c).finished = true
    · rw [if_pos hf] at h; rw [hf] at h; cases h
    · rw [if_neg hf] at h
      rw [if_neg hf]
      have hf' : (p.parseChar c).finished = false := by simpa using hf
      have hne : ¬ (p.inQuote = false ∧ c = ':') := by
        intro ⟨hq, hc⟩
        subst hc
        rw [parseChar_colon p hq, finish_finished] at hf'
        cases hf'
      rw [ih _ hf' h, (parseChar_unfinished p c hp hne).2]
      simp only [len8]; omega

/-- A finished run stopped at an unquoted colon. -/
theorem run_finished_cases (s : Str) : ∀ (p : DataParser F), p.finished = false → (run p s).finished = true →
    ∃ a x, s = a ++ ':' :: x ∧ (run p a).finished = false ∧ (run p a).inQuote = false ∧
      run p s = (run p a).finish := by
  induction s with
  | nil => intro p hp h; rw [run_nil, hp] at h; cases h
  | cons c cs ih =>
    intro p hp h
    by_cases hc : p.inQuote = false ∧ c = ':'
    · obtain ⟨hq, hc⟩ := hc
      subst hc
      refine ⟨[], cs, rfl, hp, hq, ?_⟩
      rw [run_cons, parseChar_colon p hq, finish_finished, if_pos rfl]; rfl
    · have hu := (parseChar_unfinished p c hp hc).1
      rw [run_cons, hu] at h
      simp only [Bool.false_eq_true, ↓reduceIte] at h
      obtain ⟨a, x, e, h1, h2, h3⟩ := ih _ hu h
      refine ⟨c :: a, x, by rw [e]; rfl, ?_, ?_, ?_⟩
      · rw [run_cons, hu]; simpa using h1
      · rw [run_cons, hu]; simpa using h2
      · rw [run_cons, hu, run_cons, hu]; simpa using h3

end DataParser

theorem dropBytes_len8 (a x : Str) : dropBytes (len8 a) (a ++ x) = x := by
  induction a with
  | nil => cases x <;> simp [len8, dropBytes]
  | cons c cs ih =>
    have hpos : 0 < c.utf8Size := Char.utf8Size_pos c
    obtain ⟨n, hn⟩ : ∃ n, len8 (c :: cs) = n + 1 := ⟨len8 (c :: cs) - 1, by simp only [len8]; omega⟩
    rw [hn, List.cons_append, dropBytes]
    have : n + 1 - c.utf8Size = len8 cs := by simp only [len8] at hn; omega
    rw [this, ih]

/-- The items and the byte count when the text has an unquoted colon after `a`: what
    follows the colon is irrelevant. -/
theorem parseData_colon (a x : Str) (hf : (DataParser.run ({} : DataParser F) a).finished = false)
    (hq : (DataParser.run ({} : DataParser F) a).inQuote = false) :
    parseData (F := F) (a ++ ':' :: x) =
      ((DataParser.run ({} : DataParser F) a).finish.elements, len8 a) := by
  unfold parseData
  have h1 : DataParser.run ({} : DataParser F) (a ++ ':' :: x) = (DataParser.run ({} : DataParser F) a).finish := by
    rw [DataParser.run_append a _ hf, DataParser.run_cons, DataParser.parseChar_colon _ hq,
      DataParser.finish_finished, if_pos rfl]
  simp only
  rw [h1, DataParser.finish_of_finished _ (DataParser.finish_finished _), DataParser.finish_chomped,
    DataParser.run_chomped a _ rfl hf]
  simp

/-- If what `parse_data_until_colon` leaves starts at a given colon, the run up to there is
    unfinished and outside quotes. -/
theorem parseData_stop (a r : Str)
    (h : dropBytes (parseData (F := F) (a ++ ':' :: r)).2 (a ++ ':' :: r) = ':' :: r) :
    (DataParser.run ({} : DataParser F) a).finished = false ∧
    (DataParser.run ({} : DataParser F) a).inQuote = false := by
  cases hfin : (DataParser.run ({} : DataParser F) (a ++ ':' :: r)).finished with
  | false =>
    -- ran to the end: everything is dropped
    have hn : (parseData (F := F) (a ++ ':' :: r)).2 = len8 (a ++ ':' :: r) := by
      unfold parseData
      simp only
      rw [DataParser.finish_chomped, DataParser.run_chomped _ _ rfl hfin]
      simp
    rw [hn] at h
    have := dropBytes_len8 (a ++ ':' :: r) []
    rw [List.append_nil] at this
    rw [this] at h
    cases h
  | true =>
    obtain ⟨a0, x, e, h1, h2, h3⟩ := DataParser.run_finished_cases _ ({} : DataParser F) rfl hfin
    have hn : (parseData (F := F) (a ++ ':' :: r)).2 = len8 a0 := by
      unfold parseData
      simp only
      rw [h3, DataParser.finish_of_finished _ (DataParser.finish_finished _), DataParser.finish_chomped,
        DataParser.run_chomped a0 _ rfl h1]
      simp
    rw [hn, e, dropBytes_len8] at h
    injection h with _ h
    subst h
    have : a0 = a := by
      have e' : a ++ [':'] ++ x = a0 ++ [':'] ++ x := by simpa using e
      have := List.append_cancel_right e'
      exact (List.append_cancel_right this).symm
    subst this
    exact ⟨h1, h2⟩


/-! ### blanks and `trim` -/

theorem isUnicodeWs_of_isBasicWs (w : Char) (hw : isBasicWs w = true) : isUnicodeWs w = true := by
  simp only [isBasicWs, isAsciiWs, Bool.and_eq_true, Bool.or_eq_true, beq_iff_eq] at hw
  rcases hw.1 with (((rfl | rfl) | rfl) | rfl) | rfl <;> decide

theorem isBasicWs_cases (w : Char) (hw : isBasicWs w = true) : w ≠ ':' ∧ w ≠ ',' ∧ w ≠ '"' := by
  simp only [isBasicWs, isAsciiWs, Bool.and_eq_true, Bool.or_eq_true, beq_iff_eq] at hw
  rcases hw.1 with (((rfl | rfl) | rfl) | rfl) | rfl <;> decide

def AllWs (a : Str) : Prop := ∀ x ∈ a, isUnicodeWs x = true

theorem trimStart_allWs (a b : Str) (h : AllWs a) : trimStart (a ++ b) = trimStart b := by
  induction a with
  | nil => rfl
  | cons c cs ih =>
    simp only [List.cons_append, trimStart, h c (List.mem_cons_self ..), ↓reduceIte]
    exact ih (fun x hx => h x (List.mem_cons_of_mem _ hx))

theorem trimStart_eq_nil (a : Str) (h : trimStart a = []) : AllWs a := by
  induction a with
  | nil => intro x hx; cases hx
  | cons c cs ih =>
    simp only [trimStart] at h
    by_cases hc : isUnicodeWs c = true
    · rw [if_pos hc] at h
      intro x hx
      rcases List.mem_cons.mp hx with rfl | hx
      · exact hc
      · exact ih h x hx
    · rw [if_neg hc] at h; cases h

theorem trimStart_head (a : Str) (c : Char) (t : Str) (h : trimStart a = c :: t) : isUnicodeWs c = false := by
  induction a with
  | nil => cases h
  | cons d ds ih =>
    simp only [trimStart] at h
    by_cases hd : isUnicodeWs d = true
    · rw [if_pos hd] at h; exact ih h
    · rw [if_neg hd] at h
      injection h with h1 _
      subst h1
      simpa using hd

theorem trimStart_append_of_ne (a b : Str) (h : trimStart a ≠ []) : trimStart (a ++ b) = trimStart a ++ b := by
  induction a with
  | nil => exact absurd rfl h
  | cons c cs ih =>
    simp only [trimStart] at h
    simp only [List.cons_append, trimStart]
    by_cases hc : isUnicodeWs c = true
    · rw [if_pos hc] at h; rw [if_pos hc, if_pos hc]; exact ih h
    · rw [if_neg hc, if_neg hc]; rfl

theorem trim_eq_nil (a : Str) (h : trim a = []) : AllWs a := by
  unfold trim at h
  have h1 : trimStart (trimStart a).reverse = [] := by simpa using h
  have h2 := trimStart_eq_nil _ h1
  cases hs : trimStart a with
  | nil => exact trimStart_eq_nil a hs
  | cons c t =>
    rw [hs] at h2
    have := h2 c (by simp)
    rw [trimStart_head a c t hs] at this
    cases this

theorem trim_of_allWs (a : Str) (h : AllWs a) : trim a = [] := by
  have := trimStart_allWs a [] h
  simp only [List.append_nil] at this
  unfold trim; rw [this]; rfl

/-- `str::trim` drops a trailing blank -/
theorem trim_append_ws (a : Str) (w : Char) (hw : isUnicodeWs w = true) : trim (a ++ [w]) = trim a := by
  cases hs : trimStart a with
  | nil =>
    have ha := trimStart_eq_nil a hs
    rw [trim_of_allWs a ha, trim_of_allWs]
    intro x hx
    rcases List.mem_append.mp hx with hx | hx
    · exact ha x hx
    · have : x = w := by simpa using hx
      rw [this]; exact hw
  | cons c t =>
    unfold trim
    rw [trimStart_append_of_ne a [w] (by rw [hs]; intro h; cases h)]
    simp only [List.reverse_append, List.reverse_cons, List.reverse_nil, List.nil_append,
      List.cons_append, trimStart, hw, ↓reduceIte]

namespace DataParser

/-- Two parser states that agree on everything the items depend on, up to blanks in
    front of the current unquoted item. -/
def Sim (p p' : DataParser F) : Prop :=
  p.inQuote = p'.inQuote ∧ p.elements = p'.elements ∧ p.finished = p'.finished ∧
  (p.inQuote = true → p.cur = p'.cur) ∧
  (p.inQuote = false → ∀ s, trimStart (p.cur ++ s) = trimStart (p'.cur ++ s))

theorem Sim.parseChar {p p' : DataParser F} (h : Sim p p') (c : Char) : Sim (p.parseChar c) (p'.parseChar c) := by
  obtain ⟨q, els, ch, cur, fin⟩ := p
  obtain ⟨q', els', ch', cur', fin'⟩ := p'
  obtain ⟨h1, h2, h3, h4, h5⟩ := h
  simp only at h1 h2 h3 h4 h5
  subst h1; subst h2; subst h3
  cases q with
  | true =>
    have := h4 rfl
    subst this
    unfold DataParser.parseChar Sim
    by_cases hc : (c == '"') = true <;> cases fin <;> simp [hc, pushCurrent]
  | false =>
    have hs := h5 rfl
    have ht : trim cur' = trim cur := by
      have := hs []
      simp only [List.append_nil] at this
      unfold trim; rw [this]
    unfold DataParser.parseChar Sim
    by_cases he : trim cur = [] <;> by_cases hl : els = [] <;>
    by_cases h1 : (c == ':') = true <;> by_cases h2 : (c == ',') = true <;>
    by_cases h3 : (c == '"') = true <;> cases fin <;>
    simp [h1, h2, h3, finish, pushCurrent, ht, he, hl, hs]

theorem Sim.finish_elements {p p' : DataParser F} (h : Sim p p') : p.finish.elements = p'.finish.elements := by
  obtain ⟨q, els, ch, cur, fin⟩ := p
  obtain ⟨q', els', ch', cur', fin'⟩ := p'
  obtain ⟨h1, h2, h3, h4, h5⟩ := h
  simp only at h1 h2 h3 h4 h5
  subst h1; subst h2; subst h3
  cases q with
  | true =>
    have := h4 rfl
    subst this
    by_cases he : trim cur = [] <;> by_cases hl : els = [] <;> cases fin <;>
    simp [finish, pushCurrent, he, hl]
  | false =>
    have hs := h5 rfl
    have ht : trim cur' = trim cur := by
      have := hs []
      simp only [List.append_nil] at this
      unfold trim; rw [this]
    by_cases he : trim cur = [] <;> by_cases hl : els = [] <;> cases fin <;>
    simp [finish, pushCurrent, ht, he, hl]

theorem Sim.run {p p' : DataParser F} (h : Sim p p') (s : Str) : Sim (run p s) (run p' s) := by
  induction s generalizing p p' with
  | nil => exact h
  | cons c cs ih =>
    have hc := h.parseChar c
    rw [run_cons, run_cons, ← hc.2.2.1]
    by_cases hf : (p.parseChar c).finished = true
    · rw [if_pos hf, if_pos hf]; exact hc
    · rw [if_neg hf, if_neg hf]; exact ih hc

/-- a blank outside quotes is appended to the current item -/
theorem parseChar_blank (p : DataParser F) (w : Char) (hw : isBasicWs w = true) (hq : p.inQuote = false)
    (hf : p.finished = false) :
    p.parseChar w = { p with cur := p.cur ++ [w], chomped := p.chomped + w.utf8Size } := by
  obtain ⟨h1, h2, h3⟩ := isBasicWs_cases w hw
  obtain ⟨q, els, ch, cur, fin⟩ := p
  simp only at hq hf
  subst hq; subst hf
  simp [DataParser.parseChar, h1, h2, h3]

/-- a blank in front of an item: the states stay similar -/
theorem sim_blank_start (p : DataParser F) (w : Char) (hw : isBasicWs w = true) (hq : p.inQuote = false)
    (hf : p.finished = false) (he : trim p.cur = []) : Sim (p.parseChar w) p := by
  rw [parseChar_blank p w hw hq hf]
  refine ⟨rfl, rfl, rfl, ?_, ?_⟩
  · intro h; simp only at h; rw [hq] at h; cases h
  · intro _ s
    have ha := trim_eq_nil _ he
    have ha' : AllWs (p.cur ++ [w]) := by
      intro x hx
      rcases List.mem_append.mp hx with hx | hx
      · exact ha x hx
      · have : x = w := by simpa using hx
        rw [this]; exact isUnicodeWs_of_isBasicWs w hw
    simp only
    rw [trimStart_allWs _ s ha', trimStart_allWs _ s ha]

/-- a blank at the end of an item, i.e. in front of a separator: similar after the separator -/
theorem sim_blank_end (p : DataParser F) (w t : Char) (hw : isBasicWs w = true) (hq : p.inQuote = false)
    (hf : p.finished = false) (ht : t = ',' ∨ t = ':') :
    Sim ((p.parseChar w).parseChar t) (p.parseChar t) := by
  rw [parseChar_blank p w hw hq hf]
  have hu := isUnicodeWs_of_isBasicWs w hw
  obtain ⟨q, els, ch, cur, fin⟩ := p
  simp only at hq hf
  subst hq; subst hf
  have htr := trim_append_ws cur w hu
  have hall : trim cur = [] → ∀ s, trimStart (cur ++ w :: s) = trimStart (cur ++ s) := by
    intro he s
    have e : cur ++ w :: s = (cur ++ [w]) ++ s := by simp
    rw [e]
    have ha := trim_eq_nil _ he
    have ha' : AllWs (cur ++ [w]) := by
      intro x hx
      rcases List.mem_append.mp hx with hx | hx
      · exact ha x hx
      · have : x = w := by simpa using hx
        rw [this]; exact hu
    rw [trimStart_allWs _ s ha', trimStart_allWs _ s ha]
  unfold Sim DataParser.parseChar
  by_cases he : trim cur = [] <;> by_cases hl : els = [] <;> rcases ht with rfl | rfl <;>
  simp [finish, pushCurrent, htr, he, hl, hall]

theorem blank_end_finish (p : DataParser F) (w : Char) (hw : isBasicWs w = true) (hq : p.inQuote = false)
    (hf : p.finished = false) : (p.parseChar w).finish.elements = p.finish.elements := by
  rw [parseChar_blank p w hw hq hf]
  have hu := isUnicodeWs_of_isBasicWs w hw
  obtain ⟨q, els, ch, cur, fin⟩ := p
  simp only at hq hf
  subst hq; subst hf
  have htr := trim_append_ws cur w hu
  by_cases he : trim cur = [] <;> by_cases hl : els = [] <;>
  simp [finish, pushCurrent, htr, he, hl]

end DataParser

end Abasic
