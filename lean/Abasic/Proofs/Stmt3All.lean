import Abasic.Proofs.Stmt3Def
/-
  C03, third layer — all statements of Ref/Stmt3.lean together:
  `stmt_ok` (every statement satisfies `StmtOK`), `stmt3_run` (the statement
  evaluator realises `RStmt3.exec` for statement `j` of line `n`) and
  `exec3_inv` (the reference step keeps the invariants `RInv3`).
-/
set_option linter.unusedSectionVars false

namespace Abasic.Stmt3L
open Abasic Abasic.Ref Abasic.ExprL Abasic.ExprL2 Abasic.StmtL Abasic.ProgL Abasic.Prog3L Abasic.Hoare M
open Abasic.Prog2L (Rel2)

variable {F : Type} [NumOps F]

/-- **Every statement** satisfies the statement theorem (`StmtOK`), by recursion
    on the branches of IF. -/
theorem stmt_ok (p : RProgram3 F) (n j : Nat) : ∀ s : RStmt3 F, StmtOK p n j s
  | .letS x e => let_ok x e
  | .printS items => print_ok items
  | .gotoS m => goto_ok m
  | .endS => end_ok
  | .lineS m => fun _ _ _ _ _ _ _ _ _ _ hl => by cases hl
  | .forS v a b c => for_ok v a b c
  | .nextS v => next_ok v
  | .gosubS m => gosub_ok m
  | .returnS => return_ok
  | .readS ts => read_ok ts
  | .dataS items => data_ok items
  | .restoreS => restore_ok
  | .dimS name dims => dim_ok name dims
  | .letCellS name idx e => letCell_ok name idx e
  | .defS f ps body => def_ok f ps body
  | .ifS c t none => if_ok c t none (branch_of_stmt t fun _ => stmt_ok p n j t) (fun e h => by cases h)
  | .ifS c t (some e) =>
    if_ok c t (some e) (branch_of_stmt t fun _ => stmt_ok p n j t)
      (fun e' h => by cases h; exact branch_of_stmt e fun _ => stmt_ok p n j e)

/-- every statement in branch position -/
theorem branch_ok (p : RProgram3 F) (n j : Nat) (s : RStmt3 F) : BranchOK p n j s :=
  branch_of_stmt s fun _ => stmt_ok p n j s

/-! ### a statement of a line -/

/-- The hypotheses of the statement theorem: the model state `σ` corresponds to
    the reference state `r`, the cursor stands on statement `j` (= `s`) of line
    `n` of the program, the names used by `s` and by the bodies of the defined
    functions are consistent with the function table, and the statement fits
    the fuel and the nesting cap. -/
structure SReady3 (p : RProgram3 F) (r : RState3 F) (σ : St F) (n j : Nat) (ss : List (RStmt3 F))
    (s : RStmt3 F) (fuel : Nat) : Prop where
  wf : p.WF
  env : Env3 p σ
  mem : Mem3 p r σ
  inv : RInv3 r
  nesting : σ.nesting = 0
  line : p.line n = some ss
  stmt : ss[j]? = some s
  locline : σ.loc.line = some n
  idx : σ.loc.idx = (preToks3 ss j).length
  covered : s.Covered
  bodies : ∀ name d, alGet name r.fns = some d → Resolved r.fns d.body
  resolved : ResolvedS r.fns s
  fuel : sdepth3 r.fns s ≤ fuel
  nest : sdepth3 r.fns s ≤ Extracted.nestingLimit

/-- the line of a stored program, as the model sees it -/
theorem lineToks_of3 {p : RProgram3 F} {σ : St F} (hh : Holds σ.lines p) {n : Nat} {ss : List (RStmt3 F)}
    (hl : p.line n = some ss) (hline : σ.loc.line = some n) : lineToks σ = some (renderLine3 ss) := by
  unfold lineToks
  rw [hline]
  show σ.lines.get n = _
  rw [hh.get, hl]
  rfl

section ready
variable {p : RProgram3 F} {r : RState3 F} {σ : St F} {n j : Nat} {ss : List (RStmt3 F)} {s : RStmt3 F} {fuel : Nat}

theorem SReady3.sync (h : SReady3 p r σ n j ss s fuel) : Sync p r σ := ⟨h.wf, h.env, h.mem, h.inv, h.bodies⟩

theorem SReady3.at (h : SReady3 p r σ n j ss s fuel) :
    At σ (preToks3 ss j) (renderS3 s ++ renderTail3 (ss.drop (j + 1))) :=
  ⟨by rw [lineToks_of3 h.env.lines h.line h.locline, line_split ss j s h.stmt], h.idx⟩

theorem SReady3.pos (h : SReady3 p r σ n j ss s fuel) :
    Pos p σ n j s (preToks3 ss j) (renderTail3 (ss.drop (j + 1)))
      ((preToks3 ss j).length + (renderS3 s).length) (renderLine3 ss).length :=
  ⟨h.locline, h.at, rfl, by rw [← line_split ss j s h.stmt], fun _ => ⟨ss, j, s, h.line, rfl, h.stmt, rfl⟩⟩

end ready

/-- **Statement refinement, all statements.** -/
theorem stmt3_run {p : RProgram3 F} {r : RState3 F} {σ : St F} {n j : Nat} {ss : List (RStmt3 F)} {s : RStmt3 F}
    {fuel : Nat} (h : SReady3 p r σ n j ss s fuel) :
    Outcome3 p σ n ((preToks3 ss j).length + (renderS3 s).length) (renderLine3 ss).length
      (stmtBody (evalN fuel) σ) (s.exec (allData3 p) n j r).1 (s.exec (allData3 p) n j r).2 :=
  stmt_ok p n j s fuel σ r _ _ _ _ h.sync h.pos (Or.inl (tail_lineEnd3 ss j)) h.covered.1 h.covered.2 h.resolved h.fuel
    (by rw [h.nesting, Nat.zero_add]; exact h.nest)

/-! ### the invariants of the reference state -/

theorem inv_put {r : RState3 F} (h : RInv3 r) {env' : RefEnv F} (hs : Step r.env env') : RInv3 (r.put env') :=
  ⟨h.typed, hs.arrs h.arrs, hs.rng h.rng, h.rets⟩

theorem evalE_inv {r r1 : RState3 F} {e : Expr2 F} {v : Value F} (h : RInv3 r) (he : evalE r e = .ok (v, r1)) :
    RInv3 r1 ∧ r1.vars = r.vars ∧ r1.loops = r.loops ∧ r1.rets = r.rets := by
  unfold evalE at he
  cases hev : fold2 callFuel r.env e with
  | error x => rw [hev] at he; cases he
  | ok q =>
    obtain ⟨v', env'⟩ := q
    rw [hev] at he
    simp only [Except.ok.injEq, Prod.mk.injEq] at he
    rw [← he.2]
    exact ⟨inv_put h (fold2_step callFuel e r.env env' v' hev), rfl, rfl, rfl⟩

theorem numE3_inv {r r1 : RState3 F} {e : Expr2 F} {x : F} (h : RInv3 r) (he : numE3 r e = .ok (x, r1)) :
    RInv3 r1 ∧ r1.vars = r.vars ∧ r1.loops = r.loops ∧ r1.rets = r.rets := by
  unfold numE3 at he
  cases hev : evalE r e with
  | error x => rw [hev] at he; cases he
  | ok q =>
    obtain ⟨v, r'⟩ := q
    rw [hev] at he
    cases v with
    | str s => cases he
    | num y =>
      simp only [Except.ok.injEq, Prod.mk.injEq] at he
      rw [← he.2]
      exact evalE_inv h hev

theorem stepE3_inv {r r1 : RState3 F} {c : Option (Expr2 F)} {x : F} (h : RInv3 r) (he : stepE3 r c = .ok (x, r1)) :
    RInv3 r1 ∧ r1.vars = r.vars ∧ r1.loops = r.loops ∧ r1.rets = r.rets := by
  cases c with
  | none =>
    simp only [stepE3, Except.ok.injEq, Prod.mk.injEq] at he
    rw [← he.2]
    exact ⟨h, rfl, rfl, rfl⟩
  | some c => exact numE3_inv h he

theorem evalIdx_inv {r r1 : RState3 F} {idx : List (Expr2 F)} {is : List Nat} (h : RInv3 r)
    (he : evalIdx r idx = .ok (is, r1)) : RInv3 r1 := by
  unfold evalIdx at he
  cases hev : foldIdx callFuel r.env idx with
  | error x => rw [hev] at he; cases he
  | ok q =>
    obtain ⟨is', env'⟩ := q
    rw [hev] at he
    simp only [Except.ok.injEq, Prod.mk.injEq] at he
    rw [← he.2]
    exact inv_put h (foldIdx_step callFuel idx r.env env' is' hev)

theorem printText3_inv : ∀ (items : List (PItem3 F)) (r : RState3 F) (semi : Bool) (acc text : Str) (r' : RState3 F),
    RInv3 r → printText3 r items semi acc = .ok (text, r') → RInv3 r'
  | [], r, semi, acc, text, r', h, he => by
    simp only [printText3, Except.ok.injEq, Prod.mk.injEq] at he
    rw [← he.2]; exact h
  | .semi :: rest, r, semi, acc, text, r', h, he =>
    printText3_inv rest r true acc text r' h (by simpa only [printText3] using he)
  | .comma :: rest, r, semi, acc, text, r', h, he =>
    printText3_inv rest r false (acc ++ ['\t']) text r' h (by simpa only [printText3] using he)
  | .expr e :: rest, r, semi, acc, text, r', h, he => by
    simp only [printText3] at he
    cases hev : evalE r e with
    | error x => rw [hev] at he; cases he
    | ok q =>
      obtain ⟨v, r1⟩ := q
      rw [hev] at he
      exact printText3_inv rest r1 false (acc ++ valueText v) text r' (evalE_inv h hev).1 he

theorem closeLine3_fst (x : RState3 F × Ctl2) : (closeLine3 x).1 = x.1 := by
  unfold closeLine3
  cases x.2 <;> rfl

theorem forPush3_inv {r : RState3 F} (h : RInv3 r) (n j : Nat) (v : Str) (x y z : F) :
    RInv3 (forPush3 n j r v x y z).1 := by
  unfold forPush3
  by_cases hcap : ((keptLoops v r.loops).length == Extracted.stackLimit) = true
  · rw [if_pos hcap]; exact h
  · rw [if_neg hcap]
    cases hd : endsWithDollar v with
    | true => simp only [↓reduceIte]; exact h
    | false =>
      simp only [Bool.false_eq_true, ↓reduceIte]
      exact ⟨Stmt2L.typed_alSet h.typed (by simp [Value.matchesName, hd]), h.arrs, h.rng, h.rets⟩

theorem readScalarSpec_inv (items : List (Nat × DataElement F)) (r : RState3 F) (name : Str) (h : RInv3 r) :
    RInv3 (readScalarSpec items r name).1 := by
  unfold readScalarSpec
  cases items[r.data]? with
  | none => exact h
  | some lnd =>
    obtain ⟨ln, d⟩ := lnd
    dsimp only
    cases hco : Value.coerceFromData name d with
    | error e => exact ⟨h.typed, h.arrs, h.rng, h.rets⟩
    | ok v => exact ⟨Stmt2L.typed_alSet h.typed (Stmt2L.coerce_matches hco), h.arrs, h.rng, h.rets⟩

theorem readCellSpec_inv (items : List (Nat × DataElement F)) (r : RState3 F) (name : Str) (idx : List (Expr2 F))
    (h : RInv3 r) : RInv3 (readCellSpec items r name idx).1 := by
  unfold readCellSpec
  cases hfi : evalIdx r idx with
  | error err => exact h
  | ok q =>
    obtain ⟨index, r1⟩ := q
    have h1 := evalIdx_inv h hfi
    dsimp only
    cases items[r1.data]? with
    | none => exact h1
    | some lnd =>
      obtain ⟨ln, d⟩ := lnd
      dsimp only
      cases Value.coerceFromData name d with
      | error e => exact ⟨h1.typed, h1.arrs, h1.rng, h1.rets⟩
      | ok v =>
        dsimp only
        cases hcs : storeCell name index v r1.arrays with
        | error err => exact ⟨h1.typed, h1.arrs, h1.rng, h1.rets⟩
        | ok arrs =>
          exact ⟨h1.typed, Stmt2L.cellStore_ok (by rw [← storeCell_eq]; exact hcs) h1.arrs, h1.rng, h1.rets⟩

theorem readTargetSpec_inv (items : List (Nat × DataElement F)) (r : RState3 F) (t : RTarget F) (h : RInv3 r) :
    RInv3 (readTargetSpec items r t).1 := by
  cases t with
  | scalar x => exact readScalarSpec_inv items r x h
  | cell name idx => exact readCellSpec_inv items r name idx h

theorem readTargetsSpec_inv (items : List (Nat × DataElement F)) : ∀ (ts : List (RTarget F)) (r : RState3 F),
    RInv3 r → RInv3 (readTargetsSpec items r ts).1
  | [], r, h => h
  | t :: rest, r, h => by
    have h1 := readTargetSpec_inv items r t h
    have hsp : readTargetsSpec items r (t :: rest) =
        match readTargetSpec items r t with
        | (r', .next) => readTargetsSpec items r' rest
        | x => x := rfl
    rw [hsp]
    generalize readTargetSpec items r t = res at h1
    obtain ⟨r', ctl⟩ := res
    cases ctl with
    | next => exact readTargetsSpec_inv items rest r' h1
    | _ => exact h1

/-- **The reference step keeps the invariants of the reference state.** -/
theorem exec3_inv (items : List (Nat × DataElement F)) (n j : Nat) :
    ∀ (s : RStmt3 F) (r : RState3 F), RInv3 r → RInv3 (s.exec items n j r).1
  | .letS x e, r, h => by
    cases hev : evalE r e with
    | error err => simp only [RStmt3.exec, hev]; exact h
    | ok q =>
      obtain ⟨v, r1⟩ := q
      have h1 := (evalE_inv h hev).1
      cases hm : v.matchesName x with
      | true =>
        simp only [RStmt3.exec, hev, hm, ↓reduceIte]
        exact ⟨Stmt2L.typed_alSet h1.typed hm, h1.arrs, h1.rng, h1.rets⟩
      | false => simp only [RStmt3.exec, hev, hm, Bool.false_eq_true, ↓reduceIte]; exact h1
  | .printS items', r, h => by
    cases hp : printText3 r items' false [] with
    | error err => simp only [RStmt3.exec, hp]; exact h
    | ok q =>
      obtain ⟨text, r1⟩ := q
      have h1 := printText3_inv items' r false [] text r1 h hp
      simp only [RStmt3.exec, hp]
      exact ⟨h1.typed, h1.arrs, h1.rng, h1.rets⟩
  | .gotoS m, r, h => h
  | .lineS m, r, h => h
  | .endS, r, h => h
  | .ifS c t none, r, h => by
    cases hev : evalE r c with
    | error err => simp only [RStmt3.exec, hev]; exact h
    | ok q =>
      obtain ⟨v, r1⟩ := q
      have h1 := (evalE_inv h hev).1
      cases hb : v.toBool with
      | true => simp only [RStmt3.exec, hev, hb, ↓reduceIte]; exact exec3_inv items n j t r1 h1
      | false => simp only [RStmt3.exec, hev, hb, Bool.false_eq_true, ↓reduceIte]; exact h1
  | .ifS c t (some e), r, h => by
    cases hev : evalE r c with
    | error err => simp only [RStmt3.exec, hev]; exact h
    | ok q =>
      obtain ⟨v, r1⟩ := q
      have h1 := (evalE_inv h hev).1
      cases hb : v.toBool with
      | true =>
        simp only [RStmt3.exec, hev, hb, ↓reduceIte]
        rw [closeLine3_fst]
        exact exec3_inv items n j t r1 h1
      | false => simp only [RStmt3.exec, hev, hb, Bool.false_eq_true, ↓reduceIte]; exact exec3_inv items n j e r1 h1
  | .forS v a b c, r, h => by
    cases hna : numE3 r a with
    | error err => simp only [RStmt3.exec, hna]; exact h
    | ok q =>
      obtain ⟨x, r1⟩ := q
      have h1 := (numE3_inv h hna).1
      cases hnb : numE3 r1 b with
      | error err => simp only [RStmt3.exec, hna, hnb]; exact h
      | ok q' =>
        obtain ⟨y, r2⟩ := q'
        have h2 := (numE3_inv h1 hnb).1
        cases hnc : stepE3 r2 c with
        | error err => simp only [RStmt3.exec, hna, hnb, hnc]; exact h
        | ok q'' =>
          obtain ⟨z, r3⟩ := q''
          have h3 := (stepE3_inv h2 hnc).1
          simp only [RStmt3.exec, hna, hnb, hnc]
          exact forPush3_inv h3 n j v x y z
  | .nextS v, r, h => by
    cases hv : envOf r.vars v with
    | str x => simp only [RStmt3.exec, hv]; exact h
    | num cur =>
      have hm : ∀ y : F, (Value.num y : Value F).matchesName v = true := by
        intro y; simp only [Value.matchesName, envOf_num_name3 h.typed hv, Bool.not_false]
      cases hf : findLoop v r.loops with
      | none => simp only [RStmt3.exec, hv, hf]; exact h
      | some lr =>
        obtain ⟨l, rest⟩ := lr
        simp only [RStmt3.exec, hv, hf]
        split <;> split <;> exact ⟨Stmt2L.typed_alSet h.typed (hm _), h.arrs, h.rng, h.rets⟩
  | .gosubS m, r, h => by
    simp only [RStmt3.exec]
    by_cases hc : (r.rets.length == Extracted.stackLimit) = true
    · rw [if_pos hc]; exact h
    · rw [if_neg hc]
      refine ⟨h.typed, h.arrs, h.rng, ?_⟩
      have hne : r.rets.length ≠ Extracted.stackLimit := by simpa using hc
      have := h.rets
      show r.rets.length + 1 ≤ _
      omega
  | .returnS, r, h => by
    cases hr : r.rets with
    | nil => simp only [RStmt3.exec, hr]; exact h
    | cons a as =>
      obtain ⟨ln, k⟩ := a
      simp only [RStmt3.exec, hr]
      refine ⟨h.typed, h.arrs, h.rng, ?_⟩
      have := h.rets
      rw [hr] at this
      show as.length ≤ _
      simp only [List.length_cons] at this
      omega
  | .readS ts, r, h => readTargetsSpec_inv items ts r h
  | .dataS items', r, h => h
  | .restoreS, r, h => ⟨h.typed, h.arrs, h.rng, h.rets⟩
  | .dimS name dims, r, h => by
    cases hfi : evalIdx r dims with
    | error err => simp only [RStmt3.exec, hfi]; exact h
    | ok q =>
      obtain ⟨index, r1⟩ := q
      have h1 := evalIdx_inv h hfi
      cases hhas : alHas name r1.arrays with
      | true => simp only [RStmt3.exec, hfi, hhas, ↓reduceIte]; exact h1
      | false =>
        cases hcr : ArrayV.create (F := F) name index with
        | error err => simp only [RStmt3.exec, hfi, hhas, Bool.false_eq_true, ↓reduceIte, hcr]; exact h1
        | ok a =>
          simp only [RStmt3.exec, hfi, hhas, Bool.false_eq_true, ↓reduceIte, hcr]
          exact ⟨h1.typed, Stmt2L.arrsOk_alSet h1.arrs (Props.C16.create_spec name index a hcr).1, h1.rng, h1.rets⟩
  | .letCellS name idx e, r, h => by
    cases hfi : evalIdx r idx with
    | error err => simp only [RStmt3.exec, hfi]; exact h
    | ok q =>
      obtain ⟨index, r1⟩ := q
      have h1 := evalIdx_inv h hfi
      cases hev : evalE r1 e with
      | error err => simp only [RStmt3.exec, hfi, hev]; exact h
      | ok q' =>
        obtain ⟨v, r2⟩ := q'
        have h2 := (evalE_inv h1 hev).1
        cases hcs : storeCell name index v r2.arrays with
        | error err => simp only [RStmt3.exec, hfi, hev, hcs]; exact h2
        | ok arrs =>
          simp only [RStmt3.exec, hfi, hev, hcs]
          exact ⟨h2.typed, Stmt2L.cellStore_ok (by rw [← storeCell_eq]; exact hcs) h2.arrs, h2.rng, h2.rets⟩
  | .defS f ps body, r, h => ⟨h.typed, h.arrs, h.rng, h.rets⟩

end Abasic.Stmt3L
