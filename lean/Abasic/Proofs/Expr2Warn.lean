import Abasic.Proofs.Expr2Names
import Abasic.Props.C17
/-
  Warnings inside expressions, spec side.

  `warnsOf` lists the warning records an evaluation of a tree emits, in
  evaluation order, by recursion on the tree alongside `fold2` (the
  intermediate environments are those of `fold2`).

  `fold3` is `fold2` with the output queue threaded through (a writer on top of
  `fold2`): its environment `WEnv` extends `RefEnv` by the queue `out`, the
  warnings flag, the current line (the line a warning record carries — inside
  the body of a user function it is the line of the DEF) and the state's
  function table (for the lines of the definitions).  `fold3_eq` : `fold3`
  is `fold2` and `warnsOf` side by side.  The induction of
  Proofs/Expr2WarnInd.lean relates the evaluator to `fold3`.
-/
set_option linter.unusedSectionVars false

namespace Abasic.Names
open Abasic Abasic.Ref

variable {F : Type}

def undeclVarMsg (name : Str) : Str := "Use of undeclared variable '".toList ++ name ++ "'.".toList
def undeclArrMsg (name : Str) : Str := "Use of undeclared array '".toList ++ name ++ "'.".toList

/-- reference environment plus what a warning record needs -/
structure WEnv (F : Type) extends RefEnv F where
  /-- the output queue, newest first -/
  out : List Out
  /-- the warnings flag -/
  warn : Bool
  /-- the current line -/
  line : Option Nat
  /-- the state's function table (lines of the definitions) -/
  sfns : List (Str × FnDef)

/-- put a result of the `RefEnv` level back into `w` -/
def WEnv.lift {α : Type} (w : WEnv F) : Except Err (α × RefEnv F) → Except Err (α × WEnv F)
  | .error e => .error e
  | .ok (a, r) => .ok (a, { w with toRefEnv := r })

/-- the line of the definition of `f` -/
def defLine (sfns : List (Str × FnDef)) (f : Str) : Option Nat := (alGet f sfns).map (·.line)

variable [NumOps F]

/-- a scalar read: the value, and the warning when no frame and no global binds the name -/
def readVar3 (w : WEnv F) (name : Str) : Value F × WEnv F :=
  (w.toRefEnv.lookup name,
   if (lookupFrames name w.frames).isNone && (w.warn && !alHas name w.vars) then
     { w with out := .warning (undeclVarMsg name) w.line :: w.out }
   else w)

/-- the warning about an undeclared array (before the read creates it) -/
def warnArr (w : WEnv F) (name : Str) : WEnv F :=
  if w.warn && !alHas name w.arrays then { w with out := .warning (undeclArrMsg name) w.line :: w.out } else w

def readCell3 (w : WEnv F) (name : Str) (idx : List Nat) : Except Err (Value F × WEnv F) :=
  (warnArr w name).lift (readCell (warnArr w name).toRefEnv name idx)

def rndStep3 (w : WEnv F) (x : F) : Except Err (Value F × WEnv F) := w.lift (rndStep w.toRefEnv x)

mutual
/-- `fold2` with the output queue threaded through -/
def fold3 : Nat → WEnv F → Expr2 F → Except Err (Value F × WEnv F)
  | _, env, .num x => .ok (.num x, env)
  | _, env, .str s => .ok (.str s, env)
  | _, env, .var n => .ok (readVar3 env n)
  | n, env, .un op e =>
    match fold3 n env e with
    | .error err => .error err
    | .ok (v, env1) =>
      match op.eval v with
      | .error err => .error err
      | .ok w => .ok (w, env1)
  | n, env, .bin op l r =>
    match fold3 n env l with
    | .error err => .error err
    | .ok (a, env1) =>
      match fold3 n env1 r with
      | .error err => .error err
      | .ok (b, env2) =>
        match op.eval a b with
        | .error err => .error err
        | .ok w => .ok (w, env2)
  | n, env, .paren e => fold3 n env e
  | n, env, .abs e =>
    match fold3 n env e with
    | .error err => .error err
    | .ok (.str _, _) => .error .typeMismatch
    | .ok (.num x, env1) => .ok (.num (NumOps.abs x), env1)
  | n, env, .int e =>
    match fold3 n env e with
    | .error err => .error err
    | .ok (.str _, _) => .error .typeMismatch
    | .ok (.num x, env1) => .ok (.num (NumOps.floor x), env1)
  | n, env, .rnd e =>
    match fold3 n env e with
    | .error err => .error err
    | .ok (.str _, _) => .error .typeMismatch
    | .ok (.num x, env1) => rndStep3 env1 x
  | n, env, .cell name idx =>
    match foldIdx3 n env idx with
    | .error err => .error err
    | .ok (is, env1) => readCell3 env1 name is
  | n, env, .call f args =>
    match alGet f env.fns with
    | none =>
      match foldIdx3 n env args with
      | .error err => .error err
      | .ok (is, env1) => readCell3 env1 f is
    | some d =>
      match bindArgs3 n env d.params args [] with
      | .error err => .error err
      | .ok (b, env1) =>
        if env1.frames.length == Extracted.stackLimit then .error .oomStack
        else
          match n with
          | 0 => .error .outOfFuel
          | n' + 1 =>
            match fold3 n' { env1 with frames := b :: env1.frames, line := defLine env1.sfns f } d.body with
            | .error err => .error err
            | .ok (v, env2) => .ok (v, { env2 with frames := env1.frames, line := env1.line })
termination_by n _ e => (n, sizeOf e)
def foldIdx3 : Nat → WEnv F → List (Expr2 F) → Except Err (List Nat × WEnv F)
  | _, _, [] => .error (.syntax .unexpectedToken)
  | n, env, e :: es =>
    match fold3 n env e with
    | .error err => .error err
    | .ok (v, env1) =>
      match subscript v with
      | .error err => .error err
      | .ok i =>
        match es with
        | [] => .ok ([i], env1)
        | e' :: es' =>
          match foldIdx3 n env1 (e' :: es') with
          | .error err => .error err
          | .ok (is, env2) => .ok (i :: is, env2)
termination_by n _ es => (n, sizeOf es)
def bindArgs3 : Nat → WEnv F → List Str → List (Expr2 F) → List (Str × Value F) →
    Except Err (List (Str × Value F) × WEnv F)
  | _, env, [], [], acc => .ok (acc, env)
  | _, _, [], _ :: _, _ => .error (.syntax (.expectedToken .RightParen))
  | _, _, _ :: _, [], [] => .error (.syntax .unexpectedToken)
  | _, _, _ :: _, [], _ :: _ => .error (.syntax (.expectedToken .Comma))
  | n, env, p :: ps, a :: as, acc =>
    match fold3 n env a with
    | .error err => .error err
    | .ok (v, env1) =>
      if v.matchesName p then bindArgs3 n env1 ps as (alSet p v acc) else .error .typeMismatch
termination_by n _ _ as _ => (n, sizeOf as)
end

/-! ### the warning records of an evaluation, in evaluation order -/

/-- the record of a scalar read -/
def warnVar (w : Bool) (line : Option Nat) (env : RefEnv F) (name : Str) : List Out :=
  if (lookupFrames name env.frames).isNone && (w && !alHas name env.vars) then
    [.warning (undeclVarMsg name) line] else []

/-- the record of an array read -/
def warnCell (w : Bool) (line : Option Nat) (env : RefEnv F) (name : Str) : List Out :=
  if w && !alHas name env.arrays then [.warning (undeclArrMsg name) line] else []

mutual
/-- The warning records emitted while `e` is evaluated in `env` on line `line`,
    oldest first; `w` is the warnings flag, `sfns` the state's function table,
    the first `Nat` the fuel of `fold2`.  Evaluation stops at the first error:
    what follows it emits nothing. -/
def warnsOf (w : Bool) (sfns : List (Str × FnDef)) : Nat → Option Nat → RefEnv F → Expr2 F → List Out
  | _, _, _, .num _ => []
  | _, _, _, .str _ => []
  | _, line, env, .var n => warnVar w line env n
  | n, line, env, .un _ e => warnsOf w sfns n line env e
  | n, line, env, .bin _ l r =>
    warnsOf w sfns n line env l ++
      (match fold2 n env l with
       | .error _ => []
       | .ok (_, env1) => warnsOf w sfns n line env1 r)
  | n, line, env, .paren e => warnsOf w sfns n line env e
  | n, line, env, .abs e => warnsOf w sfns n line env e
  | n, line, env, .int e => warnsOf w sfns n line env e
  | n, line, env, .rnd e => warnsOf w sfns n line env e
  | n, line, env, .cell name idx =>
    warnsIdx w sfns n line env idx ++
      (match foldIdx n env idx with
       | .error _ => []
       | .ok (_, env1) => warnCell w line env1 name)
  | n, line, env, .call f args =>
    match alGet f env.fns with
    | none =>
      warnsIdx w sfns n line env args ++
        (match foldIdx n env args with
         | .error _ => []
         | .ok (_, env1) => warnCell w line env1 f)
    | some d =>
      warnsArgs w sfns n line env d.params args ++
        (match bindArgs2 n env d.params args [] with
         | .error _ => []
         | .ok (b, env1) =>
           if env1.frames.length == Extracted.stackLimit then []
           else
             match n with
             | 0 => []
             | n' + 1 => warnsOf w sfns n' (defLine sfns f) { env1 with frames := b :: env1.frames } d.body)
termination_by n _ _ e => (n, sizeOf e)
def warnsIdx (w : Bool) (sfns : List (Str × FnDef)) : Nat → Option Nat → RefEnv F → List (Expr2 F) → List Out
  | _, _, _, [] => []
  | n, line, env, e :: es =>
    warnsOf w sfns n line env e ++
      (match fold2 n env e with
       | .error _ => []
       | .ok (v, env1) =>
         match subscript v with
         | .error _ => []
         | .ok _ =>
           match es with
           | [] => []
           | e' :: es' => warnsIdx w sfns n line env1 (e' :: es'))
termination_by n _ _ es => (n, sizeOf es)
def warnsArgs (w : Bool) (sfns : List (Str × FnDef)) : Nat → Option Nat → RefEnv F → List Str → List (Expr2 F) →
    List Out
  | n, line, env, p :: ps, a :: as =>
    warnsOf w sfns n line env a ++
      (match fold2 n env a with
       | .error _ => []
       | .ok (v, env1) =>
         if v.matchesName p then warnsArgs w sfns n line env1 ps as else [])
  | _, _, _, _, _ => []
termination_by n _ _ _ as => (n, sizeOf as)
end


/-! ### `fold3` is `fold2` and `warnsOf` side by side -/

/-- `w` after an evaluation that left the reference environment `r` and emitted `ws` (oldest first) -/
def WEnv.put (w : WEnv F) (r : RefEnv F) (ws : List Out) : WEnv F :=
  { w with toRefEnv := r, out := ws.reverse ++ w.out }

@[simp] theorem put_toRefEnv (w : WEnv F) (r : RefEnv F) (ws : List Out) : (w.put r ws).toRefEnv = r := rfl
@[simp] theorem put_warn (w : WEnv F) (r : RefEnv F) (ws : List Out) : (w.put r ws).warn = w.warn := rfl
@[simp] theorem put_line (w : WEnv F) (r : RefEnv F) (ws : List Out) : (w.put r ws).line = w.line := rfl
@[simp] theorem put_sfns (w : WEnv F) (r : RefEnv F) (ws : List Out) : (w.put r ws).sfns = w.sfns := rfl
@[simp] theorem put_out (w : WEnv F) (r : RefEnv F) (ws : List Out) : (w.put r ws).out = ws.reverse ++ w.out := rfl
@[simp] theorem put_put (w : WEnv F) (r r' : RefEnv F) (ws ws' : List Out) :
    (w.put r ws).put r' ws' = w.put r' (ws ++ ws') := by
  simp only [WEnv.put, List.reverse_append, List.append_assoc]
theorem put_nil (w : WEnv F) : w.put w.toRefEnv [] = w := rfl

/-- a result of `fold2` and the records emitted on the way, as a result of `fold3` -/
def pair {α : Type} (w : WEnv F) (res : Except Err (α × RefEnv F)) (ws : List Out) : Except Err (α × WEnv F) :=
  match res with
  | .error e => .error e
  | .ok (a, r) => .ok (a, w.put r ws)

theorem readVar3_eq (w : WEnv F) (name : Str) :
    readVar3 w name = (w.toRefEnv.lookup name, w.put w.toRefEnv (warnVar w.warn w.line w.toRefEnv name)) := by
  unfold readVar3 warnVar
  split <;> rfl

theorem warnArr_eq (w : WEnv F) (name : Str) :
    warnArr w name = w.put w.toRefEnv (warnCell w.warn w.line w.toRefEnv name) := by
  unfold warnArr warnCell
  split <;> rfl

theorem readCell3_eq (w : WEnv F) (name : Str) (idx : List Nat) :
    readCell3 w name idx = pair w (readCell w.toRefEnv name idx) (warnCell w.warn w.line w.toRefEnv name) := by
  unfold readCell3
  rw [warnArr_eq]
  simp only [put_toRefEnv]
  cases readCell w.toRefEnv name idx with
  | error e => rfl
  | ok p => obtain ⟨v, r⟩ := p; rfl

theorem rndStep3_eq (w : WEnv F) (x : F) : rndStep3 w x = pair w (rndStep w.toRefEnv x) [] := by
  unfold rndStep3
  cases rndStep w.toRefEnv x with
  | error e => rfl
  | ok p => obtain ⟨v, r⟩ := p; rfl

mutual
theorem fold3_eq : ∀ (n : Nat) (e : Expr2 F) (w : WEnv F),
    fold3 n w e = pair w (fold2 n w.toRefEnv e) (warnsOf w.warn w.sfns n w.line w.toRefEnv e)
  | n, .num x, w => by rw [fold3, fold2, warnsOf]; rfl
  | n, .str s, w => by rw [fold3, fold2, warnsOf]; rfl
  | n, .var s, w => by rw [fold3, fold2, warnsOf, readVar3_eq]; rfl
  | n, .paren e, w => by rw [fold3, fold2, warnsOf]; exact fold3_eq n e w
  | n, .un op e, w => by
    rw [fold3, fold2, warnsOf, fold3_eq n e w]
    cases fold2 n w.toRefEnv e with
    | error x => rfl
    | ok p =>
      obtain ⟨v, r⟩ := p
      simp only [pair]
      cases op.eval v <;> rfl
  | n, .bin op l r, w => by
    rw [fold3, fold2, warnsOf, fold3_eq n l w]
    cases fold2 n w.toRefEnv l with
    | error x => rfl
    | ok p =>
      obtain ⟨a, r1⟩ := p
      simp only [pair]
      rw [fold3_eq n r]
      simp only [put_toRefEnv, put_warn, put_sfns, put_line]
      cases fold2 n r1 r with
      | error x => rfl
      | ok q =>
        obtain ⟨b, r2⟩ := q
        simp only [pair, put_put]
        cases op.eval a b <;> rfl
  | n, .abs e, w => by
    rw [fold3, fold2, warnsOf, fold3_eq n e w]
    cases fold2 n w.toRefEnv e with
    | error x => rfl
    | ok p => obtain ⟨v, r⟩ := p; cases v <;> rfl
  | n, .int e, w => by
    rw [fold3, fold2, warnsOf, fold3_eq n e w]
    cases fold2 n w.toRefEnv e with
    | error x => rfl
    | ok p => obtain ⟨v, r⟩ := p; cases v <;> rfl
  | n, .rnd e, w => by
    rw [fold3, fold2, warnsOf, fold3_eq n e w]
    cases fold2 n w.toRefEnv e with
    | error x => rfl
    | ok p =>
      obtain ⟨v, r⟩ := p
      cases v with
      | str s => rfl
      | num x =>
        simp only [pair]
        rw [rndStep3_eq]
        simp only [put_toRefEnv]
        cases rndStep r x with
        | error x => rfl
        | ok q => obtain ⟨v', r'⟩ := q; simp only [pair, put_put, List.append_nil]
  | n, .cell name idx, w => by
    rw [fold3, fold2, warnsOf, foldIdx3_eq n idx w]
    cases foldIdx n w.toRefEnv idx with
    | error x => rfl
    | ok p =>
      obtain ⟨is, r⟩ := p
      simp only [pair]
      rw [readCell3_eq]
      simp only [put_toRefEnv, put_warn, put_line]
      cases readCell r name is with
      | error x => rfl
      | ok q => obtain ⟨v', r'⟩ := q; simp only [pair, put_put]
  | n, .call f args, w => by
    rw [fold3, fold2, warnsOf]
    cases hd : alGet f w.toRefEnv.fns with
    | none =>
      simp only
      rw [foldIdx3_eq n args w]
      cases foldIdx n w.toRefEnv args with
      | error x => rfl
      | ok p =>
        obtain ⟨is, r⟩ := p
        simp only [pair]
        rw [readCell3_eq]
        simp only [put_toRefEnv, put_warn, put_line]
        cases readCell r f is with
        | error x => rfl
        | ok q => obtain ⟨v', r'⟩ := q; simp only [pair, put_put]
    | some d =>
      simp only
      rw [bindArgs3_eq n args w]
      cases bindArgs2 n w.toRefEnv d.params args [] with
      | error x => rfl
      | ok p =>
        obtain ⟨b, r1⟩ := p
        simp only [pair, put_toRefEnv]
        by_cases hl : (r1.frames.length == Extracted.stackLimit) = true
        · simp only [hl, ↓reduceIte]
        · simp only [hl, ↓reduceIte, Bool.false_eq_true]
          cases n with
          | zero => rfl
          | succ n' =>
            simp only
            rw [fold3_eq n' d.body]
            simp only [put_sfns, put_warn]
            show (match pair _ (fold2 n' { r1 with frames := b :: r1.frames } d.body) _ with
              | .error err => Except.error err
              | .ok (v, env2) => Except.ok (v, { env2 with frames := r1.frames, line := w.line })) = _
            cases fold2 n' { r1 with frames := b :: r1.frames } d.body with
            | error x => rfl
            | ok q =>
              obtain ⟨v', r'⟩ := q
              simp only [pair]
              congr 2
              simp only [WEnv.put, List.reverse_append, List.append_assoc]
termination_by n e => (n, sizeOf e)
theorem foldIdx3_eq : ∀ (n : Nat) (es : List (Expr2 F)) (w : WEnv F),
    foldIdx3 n w es = pair w (foldIdx n w.toRefEnv es) (warnsIdx w.warn w.sfns n w.line w.toRefEnv es)
  | n, [], w => by rw [foldIdx3, foldIdx]; rfl
  | n, e :: es, w => by
    rw [foldIdx3, foldIdx, warnsIdx, fold3_eq n e w]
    cases fold2 n w.toRefEnv e with
    | error x => rfl
    | ok p =>
      obtain ⟨v, r1⟩ := p
      simp only [pair]
      cases subscript v with
      | error x => rfl
      | ok i =>
        simp only
        cases es with
        | nil => simp only [List.append_nil]
        | cons e' es' =>
          simp only
          rw [foldIdx3_eq n (e' :: es')]
          simp only [put_toRefEnv, put_warn, put_sfns, put_line]
          cases foldIdx n r1 (e' :: es') with
          | error x => rfl
          | ok q => obtain ⟨is, r2⟩ := q; simp only [pair, put_put]
termination_by n es => (n, sizeOf es)
theorem bindArgs3_eq : ∀ (n : Nat) (as : List (Expr2 F)) (w : WEnv F) (ps : List Str) (acc : List (Str × Value F)),
    bindArgs3 n w ps as acc =
      pair w (bindArgs2 n w.toRefEnv ps as acc) (warnsArgs w.warn w.sfns n w.line w.toRefEnv ps as)
  | n, [], w, [], acc => by
    have h : warnsArgs w.warn w.sfns n w.line w.toRefEnv [] ([] : List (Expr2 F)) = [] := by simp [warnsArgs]
    rw [bindArgs3, bindArgs2, h]; rfl
  | n, [], w, p :: ps, [] => by rw [bindArgs3, bindArgs2]; rfl
  | n, [], w, p :: ps, x :: acc => by rw [bindArgs3, bindArgs2]; rfl
  | n, a :: as, w, [], acc => by rw [bindArgs3, bindArgs2]; rfl
  | n, a :: as, w, p :: ps, acc => by
    rw [bindArgs3, bindArgs2, warnsArgs, fold3_eq n a w]
    cases fold2 n w.toRefEnv a with
    | error x => rfl
    | ok q =>
      obtain ⟨v, r1⟩ := q
      simp only [pair]
      cases hm : v.matchesName p with
      | false => simp only [Bool.false_eq_true, ↓reduceIte]
      | true =>
        simp only [↓reduceIte]
        rw [bindArgs3_eq n as]
        simp only [put_toRefEnv, put_warn, put_sfns, put_line]
        cases bindArgs2 n r1 ps as (alSet p v acc) with
        | error x => rfl
        | ok q => obtain ⟨b, r2⟩ := q; simp only [pair, put_put]
termination_by n as => (n, sizeOf as)
end

theorem rndStep3_neg (w : WEnv F) (y : F) (hneg : NumOps.lt y (NumOps.zero : F) = true) :
    rndStep3 w y = .error .unimplemented := by
  unfold rndStep3 rndStep
  simp only [hneg, ↓reduceIte, WEnv.lift]

theorem rndStep3_zero (w : WEnv F) (y : F) (hneg : NumOps.lt y (NumOps.zero : F) = false)
    (hz : NumOps.eq y (NumOps.zero : F) = true) :
    rndStep3 w y = .ok (.num (rngValue w.rng), w) := by
  unfold rndStep3 rndStep
  simp only [hneg, hz, Bool.false_eq_true, ↓reduceIte, WEnv.lift]

theorem rndStep3_pos (w : WEnv F) (y : F) (hneg : NumOps.lt y (NumOps.zero : F) = false)
    (hz : NumOps.eq y (NumOps.zero : F) = false) :
    rndStep3 w y = .ok (.num (rngValue (rngStep w.rng)), { w with rng := rngStep w.rng }) := by
  unfold rndStep3 rndStep
  simp only [hneg, hz, Bool.false_eq_true, ↓reduceIte, WEnv.lift]

/-! ### with the flag off nothing is emitted -/

mutual
theorem warnsOf_off (sfns : List (Str × FnDef)) : ∀ (n : Nat) (line : Option Nat) (env : RefEnv F) (e : Expr2 F),
    warnsOf false sfns n line env e = []
  | n, line, env, .num x => by rw [warnsOf]
  | n, line, env, .str s => by rw [warnsOf]
  | n, line, env, .var v => by rw [warnsOf]; simp [warnVar]
  | n, line, env, .un op e => by rw [warnsOf]; exact warnsOf_off sfns n line env e
  | n, line, env, .paren e => by rw [warnsOf]; exact warnsOf_off sfns n line env e
  | n, line, env, .abs e => by rw [warnsOf]; exact warnsOf_off sfns n line env e
  | n, line, env, .int e => by rw [warnsOf]; exact warnsOf_off sfns n line env e
  | n, line, env, .rnd e => by rw [warnsOf]; exact warnsOf_off sfns n line env e
  | n, line, env, .bin op l r => by
    rw [warnsOf, warnsOf_off sfns n line env l]
    cases fold2 n env l with
    | error x => rfl
    | ok p => obtain ⟨a, env1⟩ := p; exact warnsOf_off sfns n line env1 r
  | n, line, env, .cell name idx => by
    rw [warnsOf, warnsIdx_off sfns n line env idx]
    cases foldIdx n env idx with
    | error x => rfl
    | ok p => obtain ⟨a, env1⟩ := p; simp [warnCell]
  | n, line, env, .call f args => by
    rw [warnsOf]
    cases hd : alGet f env.fns with
    | none =>
      simp only
      rw [warnsIdx_off sfns n line env args]
      cases foldIdx n env args with
      | error x => rfl
      | ok p => obtain ⟨a, env1⟩ := p; simp [warnCell]
    | some d =>
      simp only
      rw [warnsArgs_off sfns n line env d.params args]
      cases bindArgs2 n env d.params args [] with
      | error x => rfl
      | ok p =>
        obtain ⟨b, env1⟩ := p
        simp only [List.nil_append]
        split
        · rfl
        · cases n with
          | zero => rfl
          | succ n' => exact warnsOf_off sfns n' _ _ d.body
termination_by n _ _ e => (n, sizeOf e)
theorem warnsIdx_off (sfns : List (Str × FnDef)) : ∀ (n : Nat) (line : Option Nat) (env : RefEnv F)
    (es : List (Expr2 F)), warnsIdx false sfns n line env es = []
  | n, line, env, [] => by rw [warnsIdx]
  | n, line, env, e :: es => by
    rw [warnsIdx, warnsOf_off sfns n line env e]
    cases fold2 n env e with
    | error x => rfl
    | ok p =>
      obtain ⟨v, env1⟩ := p
      simp only [List.nil_append]
      cases subscript v with
      | error x => rfl
      | ok i =>
        cases es with
        | nil => rfl
        | cons e' es' => exact warnsIdx_off sfns n line env1 (e' :: es')
termination_by n _ _ es => (n, sizeOf es)
theorem warnsArgs_off (sfns : List (Str × FnDef)) : ∀ (n : Nat) (line : Option Nat) (env : RefEnv F)
    (ps : List Str) (as : List (Expr2 F)), warnsArgs false sfns n line env ps as = []
  | n, line, env, [], as => by simp [warnsArgs]
  | n, line, env, p :: ps, [] => by simp [warnsArgs]
  | n, line, env, p :: ps, a :: as => by
    rw [warnsArgs, warnsOf_off sfns n line env a]
    cases fold2 n env a with
    | error x => rfl
    | ok q =>
      obtain ⟨v, env1⟩ := q
      simp only [List.nil_append]
      split
      · exact warnsArgs_off sfns n line env1 ps as
      · rfl
termination_by n _ _ _ as => (n, sizeOf as)
end

end Abasic.Names
