import Abasic.Proofs.TraceFrame
/-
  C17 (trace records), second part: the statement evaluator.

  `HoldsFrom u m` : started in a state whose trace block (`here σ`) is `u`, the
  action `m` adds some number of copies of `u` to the trace records and nothing
  else (`Rep u`).  Everything that respects `NT` has it; it is closed under a
  leading `RX` action (which keeps `here`) and a trailing `NT` action; the
  nested statement activation under THEN / ELSE has it because the condition of
  the IF — an expression — respects `RX`, so the nested activation starts on the
  same line as the IF itself.
-/
set_option linter.unusedSectionVars false

namespace Abasic.Trace
open Abasic M Abasic.Hoare
open Abasic.Trace.Lift

variable {F : Type}

def HoldsFrom {α : Type} (u : List Nat) (m : M F α) : Prop :=
  ∀ σ, here σ = u → RespectsAt (Rep u) m σ

theorem hf_of_nt {α : Type} {u : List Nat} {m : M F α} (h : Respects NT m) : HoldsFrom u m :=
  fun σ _ => (h.mono (fun _ _ => nt_sub_rep u)).at σ

theorem hf_of_rx {α : Type} {u : List Nat} {m : M F α} (h : Respects RX m) : HoldsFrom u m :=
  hf_of_nt (h.mono (fun _ _ => rx_sub_nt))

theorem hf_bind_rx {α β : Type} {u : List Nat} {m : M F α} {f : α → M F β}
    (hm : Respects RX m) (hf : ∀ a, HoldsFrom u (f a)) : HoldsFrom u (m >>= f) := by
  intro σ hσ
  refine respectsAt_bind_val ((hm.mono (fun _ _ h => nt_sub_rep u (rx_sub_nt h))).at σ) ?_
  intro a σ1 h1
  exact hf a σ1 ((here_of_rx ((hm.at σ).1 a σ1 h1)).trans hσ)

theorem hf_bind_nt {α β : Type} {u : List Nat} {m : M F α} {f : α → M F β}
    (hm : HoldsFrom u m) (hf : ∀ a, Respects NT (f a)) : HoldsFrom u (m >>= f) := by
  intro σ hσ
  exact respectsAt_bind (hm σ hσ) (fun a => (hf a).mono (fun _ _ => nt_sub_rep u))

theorem hf_attempt {α : Type} {u : List Nat} {m : M F α} (hm : HoldsFrom u m) :
    HoldsFrom u (M.attempt m) := by
  intro σ hσ
  have h := hm σ hσ
  rw [respectsAt_iff_final] at h ⊢
  unfold M.attempt
  cases hr : m σ with
  | ok a s => rw [hr] at h; exact h
  | err e s => rw [hr] at h; exact h

theorem hf_ite {α : Type} {u : List Nat} {c : Prop} [Decidable c] {t e : M F α}
    (ht : HoldsFrom u t) (he : HoldsFrom u e) : HoldsFrom u (if c then t else e) := by
  by_cases h : c
  · rw [if_pos h]; exact ht
  · rw [if_neg h]; exact he

/-- the nested activation: `enterNested` keeps `here`, the rest is `NT` -/
theorem hf_nested {α : Type} {u : List Nat} {m : M F α} (hm : HoldsFrom u m) : HoldsFrom u (nested m) := by
  unfold nested
  refine hf_bind_rx rx_enterNested (fun _ => ?_)
  refine hf_bind_nt (hf_attempt hm) (fun r => ?_)
  have := rx_exitNested.mono (R' := NT) (F := F) (fun _ _ => rx_sub_nt)
  respects_tac

variable [NumOps F]

section stmt
variable (ev : Evals F) (he : Respects RX ev.expr) (u : List Nat) (hs : HoldsFrom u ev.stmt)
include he hs

omit he in
theorem hf_statementOrGoto : HoldsFrom u (statementOrGoto ev) := by
  unfold statementOrGoto
  refine hf_bind_rx rx_peek (fun t => ?_)
  split
  · exact hf_of_nt nt_gotoStatement
  · exact hf_nested hs

omit he in
theorem hf_ifSkipLoop (n : Nat) : HoldsFrom u (ifSkipLoop ev n) := by
  induction n with
  | zero => unfold ifSkipLoop; exact hf_of_nt (respects_fail _)
  | succ n ih =>
    unfold ifSkipLoop
    refine hf_bind_rx rx_next (fun t => ?_)
    split
    · exact hf_of_nt (respects_pure _)
    · refine hf_ite ?_ (hf_ite (hf_statementOrGoto ev u hs) ih)
      exact hf_bind_rx rx_discardRemaining (fun _ => ih)

theorem hf_ifStatement : HoldsFrom u (ifStatement ev) := by
  unfold ifStatement
  refine hf_bind_rx he (fun c => ?_)
  refine hf_bind_rx (rx_expect _) (fun _ => ?_)
  refine hf_ite ?_ ?_
  · refine hf_bind_nt (hf_statementOrGoto ev u hs) (fun _ => ?_)
    respects_tac
  · exact hf_bind_rx rx_lineBudget (fun b => hf_ifSkipLoop ev u hs b)

end stmt

/-- `dispatch` is `next` followed by a case split on the token; every case but
    `IF` adds no trace record. -/
theorem dispatch_cases (ev : Evals F) (he : Respects RX ev.expr) :
    ∃ K : Option (Token F) → M F Unit, dispatch ev = (next >>= K) ∧ K (some (.kw .If)) = ifStatement ev ∧
      ∀ t, t ≠ some (.kw .If) → Respects NT (K t) := by
  refine ⟨_, rfl, rfl, ?_⟩
  intro t ht
  have := nt_assignmentStatement ev he
  have := nt_dimStatement ev he
  have := nt_printStatement ev he
  have := nt_inputStatement ev he
  have := nt_gotoStatement (F := F)
  have := nt_gosubStatement (F := F)
  have := nt_forStatement ev he
  have := nt_nextStatement (F := F)
  have := nt_defStatement (F := F)
  have := nt_readStatement ev he
  have := nt_letStatement ev he
  respects_tac
  exact absurd rfl ht

theorem hf_dispatch (ev : Evals F) (he : Respects RX ev.expr) (u : List Nat) (hs : HoldsFrom u ev.stmt) :
    HoldsFrom u (dispatch ev) := by
  obtain ⟨K, hK, hIf, hne⟩ := dispatch_cases ev he
  rw [hK]
  refine hf_bind_rx rx_next (fun t => ?_)
  by_cases ht : t = some (.kw .If)
  · rw [ht, hIf]; exact hf_ifStatement ev he u hs
  · exact hf_of_nt (hne t ht)


/-! ### one statement activation -/

omit [NumOps F] in
theorem traceHere_eq (σ : St F) :
    traceHere σ = .ok () { σ with out := (here σ).map Out.trace ++ σ.out } := by
  obtain ⟨lines, imm, ⟨line, idx⟩, bp, stack, loops, data, fns, nesting, input, out, state, rng, vars, arrays,
    warnings, tracing, accesses, reads⟩ := σ
  cases tracing <;> cases line <;>
    simp [here, traceHere, bind, M.bindM, M.get, emit, M.modify, pure, M.pureM]

theorem hf_stmtBody (ev : Evals F) (he : Respects RX ev.expr) (u : List Nat) (hs : HoldsFrom u ev.stmt) :
    HoldsFrom u (stmtBody ev) := by
  intro σ hσ
  unfold stmtBody
  refine respectsAt_bind_val ?_ ?_
  · refine respectsAt_of_eq_ok (traceHere_eq σ) ⟨rfl, rfl, 1, ?_⟩
    show traces ((here σ).map Out.trace ++ σ.out) = _
    rw [traces_append, traces_map_trace, rep_one, hσ]
  · intro a σ1 h1
    rw [traceHere_eq] at h1
    cases h1
    exact hf_dispatch ev he u hs _ hσ

/-- The knot: at every fuel, expressions respect `RX` and a statement activation
    started where the trace block is `u` adds only copies of `u`. -/
theorem trace_evalN (n : Nat) :
    Respects RX (evalN (F := F) n).expr ∧ ∀ u, HoldsFrom u (evalN (F := F) n).stmt := by
  induction n with
  | zero => exact ⟨respects_fail _, fun u => hf_of_nt (respects_fail _)⟩
  | succ n ih => exact ⟨rx_exprBody _ ih.1, fun u => hf_stmtBody _ ih.1 u (ih.2 u)⟩

/-! ### the token under the cursor -/

/-- the tokens of the current line, when the line exists -/
def lineOf (σ : St F) : Option (List (Token F)) :=
  match σ.loc.line with
  | none => some σ.imm
  | some n => σ.lines.get n

/-- the token under the cursor -/
def curTok (σ : St F) : Option (Token F) := (lineOf σ).bind (·[σ.loc.idx]?)

omit [NumOps F] in
theorem peek_lineOf (σ : St F) :
    peek σ = match lineOf σ with
      | some ts => .ok ts[σ.loc.idx]? { σ with reads := σ.reads + 1 }
      | none => .err { err := .panic "tokens_for_line: unwrap on None" } { σ with reads := σ.reads + 1 } := by
  unfold lineOf
  cases hl : σ.loc.line with
  | none => simp [peek, bind, M.bindM, M.modify, tokens, tokensForLine, hl, M.get, pure, M.pureM]
  | some n =>
    cases hg : σ.lines.get n with
    | none => simp [peek, bind, M.bindM, M.modify, tokens, tokensForLine, hl, hg]
    | some ts => simp [peek, bind, M.bindM, M.modify, tokens, tokensForLine, hl, hg, M.get, pure, M.pureM]

omit [NumOps F] in
theorem peek_tok {σ σ1 : St F} {t : Option (Token F)} (h : peek σ = .ok t σ1) : t = curTok σ := by
  rw [peek_lineOf] at h
  unfold curTok
  cases hl : lineOf σ with
  | none => rw [hl] at h; cases h
  | some ts => rw [hl] at h; simp only [Res.ok.injEq] at h; rw [← h.1]; rfl

omit [NumOps F] in
theorem next_tok {σ σ1 : St F} {t : Option (Token F)} (h : next σ = .ok t σ1) : t = curTok σ := by
  unfold next at h
  simp only [bind, M.bindM] at h
  cases hp : peek σ with
  | err e s => rw [hp] at h; cases h
  | ok t' s =>
    rw [hp] at h
    have ht := peek_tok hp
    cases t' with
    | none =>
      simp [pure, M.pureM] at h
      rw [← h.1]; exact ht
    | some x =>
      simp [advance, M.bindM, M.modify, pure, M.pureM] at h
      rw [← h.1]; exact ht

omit [NumOps F] in
theorem hasNext_lineOf (σ : St F) :
    hasNext σ = match lineOf σ with
      | some ts => .ok (ts[σ.loc.idx]?).isSome { σ with reads := σ.reads + 1 }
      | none => .err { err := .panic "tokens_for_line: unwrap on None" } { σ with reads := σ.reads + 1 } := by
  unfold hasNext
  simp only [bind, M.bindM, peek_lineOf]
  cases lineOf σ <;> rfl

/-- A statement that does not start with `IF` adds no trace record after its own. -/
theorem dispatch_notIf (ev : Evals F) (he : Respects RX ev.expr) (σ : St F)
    (h : curTok σ ≠ some (.kw .If)) : RespectsAt NT (dispatch ev) σ := by
  obtain ⟨K, hK, _, hne⟩ := dispatch_cases ev he
  rw [hK]
  refine respectsAt_bind_val ((rx_next.mono (fun _ _ => rx_sub_nt)).at σ) ?_
  intro t σ1 h1
  have := next_tok h1
  exact (hne t (by rw [this]; exact h)).at σ1

end Abasic.Trace
